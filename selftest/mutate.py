#!/usr/bin/env python3
# usage: selftest/mutate.py <mutant-dir> <results.jsonl> [workers] [kinds,comma]
# Runs every mutant produced by bin/mutgen through `vcheck -p all` on a scratch copy of /repo and records whether
# any check reported it. A gap-finding aid for the rule tables: survivors are read by hand (many are equivalent or
# touch behaviour no listed property speaks about). Nothing registered in MANIFEST.json depends on this.
import json,os,subprocess,sys,threading,queue,shutil,re
mdir,res=sys.argv[1],sys.argv[2]
workers=int(sys.argv[3]) if len(sys.argv)>3 else 5
kinds=set(sys.argv[4].split(',')) if len(sys.argv)>4 else None
done=set()
if os.path.exists(res):
    for l in open(res): done.add(json.loads(l)['id'])
todo=[json.loads(l) for l in open(os.path.join(mdir,'index.jsonl'))]
todo=[m for m in todo if m['id'] not in done and (kinds is None or m['kind'] in kinds)]
# a pristine copy of HEAD (the working tree of /repo may be carrying a seeded patch while this runs)
if not os.path.exists('/var/tmp/mut-base'):
    os.makedirs('/var/tmp/mut-base'); subprocess.run("git -C /repo archive HEAD | tar -x -C /var/tmp/mut-base",shell=True,check=True)
# the modules first (their functions carry most of the properties), then types/codec/crypto, then the store
def prio(m):
    f=m['file']
    return (0 if f.startswith('x/') else 1 if f.startswith(('types/','codec/','crypto/')) else 2, m['id'])
todo.sort(key=prio)
q=queue.Queue()
for m in todo: q.put(m)
lock=threading.Lock()
env=dict(os.environ,GOFLAGS='-mod=mod',GOPROXY='off',GOSUMDB='off',GOTOOLCHAIN='local'); env.pop('GOWORK',None)
def work(k):
    S=f'/var/tmp/mut-scratch-{k}'; V=f'/var/tmp/mut-verif-{k}'
    subprocess.run(['rsync','-a','--delete','/var/tmp/mut-base/',S+'/'],check=True)
    os.makedirs(V,exist_ok=True); shutil.copy('/verif/known_findings.txt',V)
    while True:
        try: m=q.get_nowait()
        except queue.Empty: break
        tgt=os.path.join(S,m['file']); orig=open(os.path.join('/var/tmp/mut-base',m['file']),'rb').read()
        shutil.copy(os.path.join(mdir,f"{m['id']}.go"),tgt)
        p=subprocess.run(['/verif/bin/vcheck','-repo',S,'-verif',V,'-p','all'],capture_output=True,text=True,env=env)
        open(tgt,'wb').write(orig)
        out=p.stdout+p.stderr
        rules=sorted(set(re.findall(r'^VIOLATION property=(C\d+)',out,re.M)))
        hit=sorted(set(re.findall(r'^  rule=(\S+)',out,re.M)))
        unres=sorted(set(re.findall(r'^UNRESOLVED property=(C\d+) rule=(\S+)',out,re.M)))
        if 'type/load errors' in out or 'load:' in out and 'BROKEN' in out and not rules: st='noncompile'
        elif rules: st='killed'
        elif unres or 'BROKEN' in out: st='unresolved'
        else: st='survived'
        r=dict(m,status=st,props=rules,rules=hit[:12],unresolved=[u[1] for u in unres][:4])
        with lock:
            with open(res,'a') as f: f.write(json.dumps(r)+'\n')
    shutil.rmtree(S,ignore_errors=True); shutil.rmtree(V,ignore_errors=True)
ts=[threading.Thread(target=work,args=(k,)) for k in range(workers)]
[t.start() for t in ts]; [t.join() for t in ts]
print('done')
