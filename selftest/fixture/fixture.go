// Package fixture holds one tiny positive example for every vcheck rule whose expected number
// of matches on pocket-core is zero. vcheck loads it on every uncached run and refuses to
// give verdicts (BROKEN) if any of these examples is no longer recognised: a rule that can
// never fire would otherwise pass vacuously forever.
package fixture

import (
	"os"
	"time"
)

type store struct{ prefix []byte }

// FloatArithmetic: floating-point multiplication and float-to-int conversion.
func FloatArithmetic(a, b int64) int64 { return int64(float64(a) * 0.1 * float64(b)) }

// RacySelect: a select with two communication cases.
func RacySelect(a, b chan int) int {
	select {
	case x := <-a:
		return x
	case y := <-b:
		return y
	}
}

// ClockDecides: the wall clock decides a branch.
func ClockDecides(deadline time.Time) bool {
	if time.Now().After(deadline) {
		return true
	}
	return false
}

// EnvDecides: an environment variable decides a result.
func EnvDecides() int {
	if os.Getenv("X") != "" {
		return 1
	}
	return 0
}

// AppendInPlace: appends to a shared slice field.
func (s store) AppendInPlace(k []byte) []byte { return append(s.prefix, k...) }

// MapOrderEscapes: a slice built in map iteration order is returned.
func MapOrderEscapes(m map[string]int) []string {
	var out []string
	for k := range m {
		out = append(out, k)
	}
	return out
}

// MakeLenAppend: a slice made with a length and then appended to.
func MakeLenAppend(m map[string]int) []string {
	out := make([]string, len(m))
	for k := range m {
		out = append(out, k)
	}
	return out
}

// PlainKey: a cache key that concatenates a number and a string without a separator.
func PlainKey(h int, v string) string { return itoa(h) + v }

func itoa(i int) string {
	if i == 0 {
		return "0"
	}
	s := ""
	for ; i > 0; i /= 10 {
		s = string(rune('0'+i%10)) + s
	}
	return s
}

// UnboundedLoop: a loop without a variant.
func UnboundedLoop(x, eps float64) float64 {
	g := 1.0
	for d := 1.0; d > eps || d < -eps; {
		d = (x/g - g) / 2
		g += d
	}
	return g
}
