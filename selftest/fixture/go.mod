module fixture

go 1.21
