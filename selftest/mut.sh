#!/bin/bash
# usage: mut.sh <name> <props(comma)> <file> <perl-substitution> [expect-rule-regex]
# Applies one mutation to a scratch copy of /repo, checks it still type-checks (vcheck load),
# runs the given properties and reports whether a VIOLATION was raised.
set -u
name=$1; props=$2; file=$3; subst=$4; expect=${5:-.}
S=/var/tmp/vcheck-mut-$$
rm -rf $S; mkdir -p $S
rsync -a --exclude .git /repo/ $S/
cp $S/$file $S/$file.orig
perl -0pi -e "$subst" $S/$file
if cmp -s $S/$file $S/$file.orig; then echo "MUT $name: NOT APPLIED"; rm -rf $S; exit 3; fi
rm $S/$file.orig
res=0
for p in ${props//,/ }; do
  out=$(/verif/bin/vcheck -repo $S -verif /var/tmp/vcheck-mut-out-$$ -p $p 2>&1); rc=$?
  if echo "$out" | grep -q "^BROKEN"; then echo "MUT $name [$p]: BROKEN: $(echo "$out" | grep BROKEN | head -2)"; res=2; continue; fi
  hits=$(echo "$out" | grep "^  rule=" | grep -E "$expect" | sed 's/ at .*//' | tr '\n' ' ')
  if [ $rc -eq 1 ] && [ -n "$hits" ]; then echo "MUT $name [$p]: DETECTED $hits"; else echo "MUT $name [$p]: MISSED (rc=$rc) $(echo "$out" | grep '^  rule=' | head -3)"; res=1; fi
done
rm -rf $S /var/tmp/vcheck-mut-out-$$
exit $res
