// mutgen: single-edit mutants of the functions the rule tables are anchored on.
// usage: mutgen -repo /repo -fns list.txt -out dir
// Writes dir/<n>.go (the mutated file), and dir/index.jsonl with {id, file, fn, kind, line, desc}.
// Used only to look for gaps in the rule tables (selftest/mutate.sh); no verdict depends on it.
package main

import (
	"bufio"
	"bytes"
	"encoding/json"
	"flag"
	"fmt"
	"go/ast"
	"go/format"
	"go/parser"
	"go/token"
	"os"
	"path/filepath"
	"strings"
)

type mutant struct {
	ID   int    `json:"id"`
	File string `json:"file"`
	Fn   string `json:"fn"`
	Kind string `json:"kind"`
	Line int    `json:"line"`
	Desc string `json:"desc"`
}

func recvName(fd *ast.FuncDecl) (string, bool) {
	if fd.Recv == nil || len(fd.Recv.List) == 0 {
		return "", false
	}
	t := fd.Recv.List[0].Type
	ptr := false
	if s, ok := t.(*ast.StarExpr); ok {
		ptr = true
		t = s.X
	}
	if ix, ok := t.(*ast.IndexExpr); ok {
		t = ix.X
	}
	if id, ok := t.(*ast.Ident); ok {
		return id.Name, ptr
	}
	return "", ptr
}

func main() {
	repo := flag.String("repo", "/repo", "")
	fnsFile := flag.String("fns", "", "")
	out := flag.String("out", "", "")
	flag.Parse()
	want := map[string]bool{}
	f, err := os.Open(*fnsFile)
	if err != nil {
		panic(err)
	}
	sc := bufio.NewScanner(f)
	for sc.Scan() {
		want[strings.TrimSpace(sc.Text())] = true
	}
	os.MkdirAll(*out, 0o755)
	idx, _ := os.Create(filepath.Join(*out, "index.jsonl"))
	defer idx.Close()
	n := 0
	filepath.Walk(*repo, func(p string, info os.FileInfo, err error) error {
		if err != nil {
			return nil
		}
		if info.IsDir() {
			if info.Name() == ".git" || info.Name() == "testdata" {
				return filepath.SkipDir
			}
			return nil
		}
		if !strings.HasSuffix(p, ".go") || strings.HasSuffix(p, "_test.go") || strings.HasSuffix(p, ".pb.go") {
			return nil
		}
		rel, _ := filepath.Rel(*repo, p)
		pkgPath := filepath.Dir(rel)
		src, _ := os.ReadFile(p)
		// enumerate mutation points on a first parse; re-parse for each mutant so that edits do not accumulate
		count := func() []point {
			fset := token.NewFileSet()
			file, err := parser.ParseFile(fset, p, src, parser.ParseComments)
			if err != nil {
				return nil
			}
			return points(fset, file, pkgPath, want)
		}()
		for i := range count {
			fset := token.NewFileSet()
			file, _ := parser.ParseFile(fset, p, src, parser.ParseComments)
			pts := points(fset, file, pkgPath, want)
			if i >= len(pts) {
				break
			}
			pt := pts[i]
			if !pt.apply() {
				continue
			}
			var buf bytes.Buffer
			if err := format.Node(&buf, fset, file); err != nil {
				continue
			}
			n++
			os.WriteFile(filepath.Join(*out, fmt.Sprintf("%d.go", n)), buf.Bytes(), 0o644)
			b, _ := json.Marshal(mutant{n, rel, pt.fn, pt.kind, pt.line, pt.desc})
			idx.Write(append(b, '\n'))
		}
		return nil
	})
	fmt.Println(n, "mutants")
}

type point struct {
	fn, kind, desc string
	line           int
	apply          func() bool
}

func exprStr(fset *token.FileSet, e ast.Node) string {
	var b bytes.Buffer
	format.Node(&b, fset, e)
	s := b.String()
	if len(s) > 90 {
		s = s[:90] + "…"
	}
	return strings.ReplaceAll(s, "\n", " ")
}

func isLogCall(s string) bool {
	return strings.Contains(s, "Logger") || strings.Contains(s, "fmt.Print") || strings.Contains(s, "log.") || strings.Contains(s, ".Info(") || strings.Contains(s, ".Error(") || strings.Contains(s, ".Debug(")
}

func points(fset *token.FileSet, file *ast.File, pkgPath string, want map[string]bool) []point {
	var pts []point
	for _, d := range file.Decls {
		fd, ok := d.(*ast.FuncDecl)
		if !ok || fd.Body == nil {
			continue
		}
		name := pkgPath + "." + fd.Name.Name
		if r, ptr := recvName(fd); r != "" {
			if ptr {
				name = "(*" + pkgPath + "." + r + ")." + fd.Name.Name
			} else {
				name = "(" + pkgPath + "." + r + ")." + fd.Name.Name
			}
		}
		if !want[name] {
			continue
		}
		fn := name
		line := func(n ast.Node) int { return fset.Position(n.Pos()).Line }
		// statement lists
		var visitList func(list *[]ast.Stmt)
		visitList = func(list *[]ast.Stmt) {
			for i := range *list {
				i := i
				st := (*list)[i]
				switch s := st.(type) {
				case *ast.ExprStmt:
					txt := exprStr(fset, s)
					if _, isCall := s.X.(*ast.CallExpr); isCall && !isLogCall(txt) {
						pts = append(pts, point{fn, "del-call", "delete statement: " + txt, line(s), func() bool {
							(*list)[i] = &ast.EmptyStmt{Semicolon: s.Pos(), Implicit: true}
							return true
						}})
					}
				case *ast.AssignStmt:
					if s.Tok == token.ASSIGN && len(s.Lhs) == 1 {
						switch s.Lhs[0].(type) {
						case *ast.SelectorExpr, *ast.IndexExpr:
							pts = append(pts, point{fn, "del-assign", "delete assignment: " + exprStr(fset, s), line(s), func() bool {
								(*list)[i] = &ast.EmptyStmt{Semicolon: s.Pos(), Implicit: true}
								return true
							}})
						}
					}
				case *ast.BranchStmt:
					if s.Label == nil && (s.Tok == token.CONTINUE || s.Tok == token.BREAK) {
						pts = append(pts, point{fn, "swap-branch", "continue<->break", line(s), func() bool {
							if s.Tok == token.CONTINUE {
								s.Tok = token.BREAK
							} else {
								s.Tok = token.CONTINUE
							}
							return true
						}})
					}
				case *ast.ReturnStmt:
					// return <err-ish> -> return nil for a single trailing result that is not already nil
					if len(s.Results) >= 1 {
						last := s.Results[len(s.Results)-1]
						if id, ok := last.(*ast.Ident); !(ok && (id.Name == "nil" || id.Name == "true" || id.Name == "false")) {
							if fd.Type.Results != nil && len(fd.Type.Results.List) > 0 {
								lt := fd.Type.Results.List[len(fd.Type.Results.List)-1].Type
								ts := exprStr(fset, lt)
								if ts == "error" || ts == "sdk.Error" || ts == "types.Error" || ts == "Error" {
									pts = append(pts, point{fn, "ret-nil", "return nil instead of " + exprStr(fset, last), line(s), func() bool {
										s.Results[len(s.Results)-1] = ast.NewIdent("nil")
										return true
									}})
								}
							}
						}
					}
				}
			}
		}
		ast.Inspect(fd.Body, func(n ast.Node) bool {
			switch x := n.(type) {
			case *ast.FuncLit:
				return true
			case *ast.BlockStmt:
				visitList(&x.List)
			case *ast.CaseClause:
				visitList(&x.Body)
			case *ast.CommClause:
				visitList(&x.Body)
			case *ast.IfStmt:
				pts = append(pts, point{fn, "neg-cond", "negate: if " + exprStr(fset, x.Cond), line(x), func() bool {
					x.Cond = &ast.UnaryExpr{Op: token.NOT, X: &ast.ParenExpr{X: x.Cond}}
					return true
				}})
			case *ast.BinaryExpr:
				var to token.Token
				switch x.Op {
				case token.LSS:
					to = token.LEQ
				case token.LEQ:
					to = token.LSS
				case token.GTR:
					to = token.GEQ
				case token.GEQ:
					to = token.GTR
				case token.LAND:
					to = token.LOR
				case token.LOR:
					to = token.LAND
				case token.ADD:
					if _, isStr := x.X.(*ast.BasicLit); isStr {
						return true
					}
					if _, isStr := x.Y.(*ast.BasicLit); isStr {
						if bl := x.Y.(*ast.BasicLit); bl.Kind == token.STRING {
							return true
						}
					}
					to = token.SUB
				case token.SUB:
					to = token.ADD
				default:
					return true
				}
				from := x.Op
				pts = append(pts, point{fn, "binop", fmt.Sprintf("%s -> %s in %s", from, to, exprStr(fset, x)), line(x), func() bool {
					x.Op = to
					return true
				}})
			case *ast.CallExpr:
				// swap two adjacent identifier arguments (type compatibility is left to the compiler)
				for i := 0; i+1 < len(x.Args); i++ {
					i := i
					a, ok1 := x.Args[i].(*ast.Ident)
					b, ok2 := x.Args[i+1].(*ast.Ident)
					if ok1 && ok2 && a.Name != b.Name && a.Name != "ctx" && b.Name != "ctx" && a.Name != "nil" && b.Name != "nil" {
						pts = append(pts, point{fn, "swap-args", fmt.Sprintf("swap %s,%s in %s", a.Name, b.Name, exprStr(fset, x)), line(x), func() bool {
							x.Args[i], x.Args[i+1] = x.Args[i+1], x.Args[i]
							return true
						}})
					}
				}
			}
			return true
		})
	}
	return pts
}
