package main

import (
	"fmt"
	"go/token"
	"go/types"
	"regexp"
	"sort"
	"strings"

	"golang.org/x/tools/go/ssa"
)

// ---------------------------------------------------------------------------
// E1: pruned reachability.  A row says: in function Fn, under the valuation
// Assume (truth values for normalised branch atoms), with every path cut at a
// Barrier call, no Target is reachable from the entry.
// ---------------------------------------------------------------------------

type Lit struct {
	Re  string // regexp over Atom.Str (unanchored unless written with ^ $)
	Val bool
}

func T(re string) Lit { return Lit{re, true} }
func F(re string) Lit { return Lit{re, false} }

type TargetKind int

const (
	TSuccess  TargetKind = iota // a return that may report success
	TCall                       // a call whose rendering matches Re
	TStore                      // a store whose address rendering matches Re
	TRetConst                   // a return whose result #Idx may be something else than the constant Re
	TAnyRet                     // any return
	TRetMatch                   // a return whose result #Idx does not match regexp Re
)

func TargetAnyReturn() Target { return Target{Kind: TAnyRet} }

func RetNotMatch(i int, re string) Target { return Target{Kind: TRetMatch, Idx: i, Re: re} }

type Target struct {
	Kind  TargetKind
	Re    string
	Idx   int
	ReNot string // exclusion: constructs matching this are not targets
	ValNot string // TStore: stores whose value rendering matches this are not targets
}

func (t Target) Except(re string) Target { t.ReNot = re; return t }

// ExceptVal: a store of a value whose rendering matches re is not a target
// ("the only thing stored there is ...").
func (t Target) ExceptVal(re string) Target { t.ValNot = re; return t }

// matchIns: a barrier / From pattern against an instruction. Plain patterns
// are call renderings (head-anchored); "store:<re>" matches "<addr> = <value>"
// of a store and "mapset:<re>" matches "<map>[<key>] = <value>" of a map update.
func (e *e1Engine) matchIns(ins ssa.Instruction, re string) bool {
	if strings.Contains(re, " || ") {
		for _, alt := range strings.Split(re, " || ") {
			if e.matchIns(ins, alt) {
				return true
			}
		}
		return false
	}
	switch {
	case strings.HasPrefix(re, "store:"):
		st, ok := ins.(*ssa.Store)
		return ok && e.re(re[len("store:"):]).MatchString(desc(st.Addr, maxDepth)+" = "+desc(st.Val, maxDepth))
	case strings.HasPrefix(re, "ret:"):
		r, ok := ins.(*ssa.Return)
		if !ok {
			return false
		}
		var parts []string
		for i := range r.Results {
			parts = append(parts, desc(retOperand(r, i), maxDepth))
		}
		return e.re(re[len("ret:"):]).MatchString(strings.Join(parts, " ; "))
	case strings.HasPrefix(re, "mapset:"):
		mu, ok := ins.(*ssa.MapUpdate)
		return ok && e.re(re[len("mapset:"):]).MatchString(desc(mu.Map, maxDepth)+"["+desc(mu.Key, maxDepth)+"] = "+desc(mu.Value, maxDepth))
	}
	if _, m := e.callMatches(ins, re); m {
		return true
	}
	// the construct may sit in a function extracted after the rows were written
	return helperMust(ins, func(in ssa.Instruction) bool { return e.matchIns(in, re) })
}

func Success() Target            { return Target{Kind: TSuccess} }
func CallTo(re string) Target    { return Target{Kind: TCall, Re: re} }
func StoreTo(re string) Target   { return Target{Kind: TStore, Re: re} }
func RetNot(i int, c string) Target { return Target{Kind: TRetConst, Idx: i, Re: c} }

type Row struct {
	Prop    string
	ID      string // rule id, unique within the property
	Fn      string
	Assume  []Lit
	Barrier []string // regexps over call renderings
	Target  Target
	// TargetMustExist: the target construct has to occur in Fn (used by
	// must-pass-through rows where a vanished target is itself a finding).
	TargetMustExist bool
	// From: only targets reachable after a call matching this pattern count.
	From string
	Why             string
}

type Status int

const (
	OK Status = iota
	Violation
	Known
	Unresolved
)

func (s Status) String() string {
	return [...]string{"OK", "VIOLATION", "KNOWN-FINDING", "UNRESOLVED"}[s]
}

type Obligation struct {
	Prop      string `json:"property"`
	Rule      string `json:"rule"`
	Construct string `json:"construct"`
	Desc      string `json:"desc"`
	Status    string `json:"status"`
	Detail    string `json:"detail,omitempty"`
	Pos       string `json:"pos,omitempty"`
	Path      []string `json:"path,omitempty"`
	Facts     int    `json:"facts"` // instruction/site-level facts examined
	Vacuous   bool   `json:"vacuous,omitempty"`
	st        Status
}

func (o *Obligation) set(s Status) { o.st = s; o.Status = s.String() }

type e1Engine struct {
	a          *Analysis
	nonNilMemo map[string]int // fn|idx -> 0 unknown/in progress, 1 yes, 2 no
	reCache    map[string]*regexp.Regexp
}

// theE1: the engine desc consults to render values returned by new helper functions.
var theE1 *e1Engine

func newE1(a *Analysis) *e1Engine {
	e := &e1Engine{a: a, nonNilMemo: map[string]int{}, reCache: map[string]*regexp.Regexp{}}
	theE1 = e
	return e
}

func (e *e1Engine) re(s string) *regexp.Regexp {
	if r, ok := e.reCache[s]; ok {
		return r
	}
	r := regexp.MustCompile(s)
	e.reCache[s] = r
	return r
}

func isErrorType(t types.Type) bool {
	if t == nil {
		return false
	}
	if _, ok := t.Underlying().(*types.Interface); !ok {
		return false
	}
	// has method Error() string
	ms := types.NewMethodSet(t)
	for i := 0; i < ms.Len(); i++ {
		m := ms.At(i)
		if m.Obj().Name() == "Error" {
			if sig, ok := m.Type().(*types.Signature); ok && sig.Params().Len() == 0 && sig.Results().Len() == 1 {
				if b, ok := sig.Results().At(0).Type().(*types.Basic); ok && b.Kind() == types.String {
					return true
				}
			}
		}
	}
	return false
}

func isSdkResult(t types.Type) bool {
	n := namedOf(t)
	return n != nil && n.Obj().Name() == "Result" && n.Obj().Pkg() != nil && n.Obj().Pkg().Path() == repoMod+"/types"
}

var extNonNil = map[string]bool{
	"errors.New": true, "fmt.Errorf": true,
	"github.com/pkg/errors.New": true, "github.com/pkg/errors.Errorf": true, "github.com/pkg/errors.Wrap": false,
}

// extWrapsFirstArg: library functions documented to return nil iff their first argument is nil.
var extWrapsFirstArg = map[string]bool{
	"github.com/pkg/errors.Wrap": true, "github.com/pkg/errors.Wrapf": true,
	"github.com/pkg/errors.WithStack": true, "github.com/pkg/errors.WithMessage": true, "github.com/pkg/errors.WithMessagef": true,
}

// valueNonNil: is v certainly non-nil at the point of use in block b?
func (e *e1Engine) valueNonNil(v ssa.Value, b *ssa.BasicBlock, lits []Lit, depth int) bool {
	if depth > 6 {
		return false
	}
	switch x := v.(type) {
	case *ssa.MakeInterface:
		// interface holding a non-pointer value, or a pointer that is fresh
		switch x.X.Type().Underlying().(type) {
		case *types.Pointer:
			return e.valueNonNil(x.X, b, lits, depth+1)
		default:
			return true
		}
	case *ssa.ChangeInterface:
		return e.valueNonNil(x.X, b, lits, depth+1)
	case *ssa.Alloc:
		return true
	case *ssa.Const:
		return !x.IsNil()
	case *ssa.Call:
		if f := x.Call.StaticCallee(); f != nil {
			if extNonNil[f.String()] {
				return true
			}
			// nil-preserving wrappers: non-nil exactly when their first argument is
			if extWrapsFirstArg[f.String()] && len(x.Call.Args) > 0 {
				return e.valueNonNil(x.Call.Args[0], b, lits, depth+1)
			}
			if f.Blocks != nil && f.Signature.Results().Len() == 1 && e.fnAlwaysNonNil(f, 0) {
				return true
			}
		}
	case *ssa.Extract:
		if c, ok := x.Tuple.(*ssa.Call); ok {
			if f := c.Call.StaticCallee(); f != nil && f.Blocks != nil {
				if e.fnAlwaysNonNil(f, x.Index) {
					return true
				}
				if e.correlatedNonNil(x, c, f, b, lits) {
					return true
				}
			}
		}
	case *ssa.UnOp:
		// load of a package-level error variable that is only ever assigned non-nil values
		if g, ok := x.X.(*ssa.Global); ok && x.Op == token.MUL && e.globalNonNil(g) {
			return true
		}
	case *ssa.Phi:
		for _, ed := range x.Edges {
			if !e.valueNonNil(ed, nil, nil, depth+1) {
				return false
			}
		}
		return true
	}
	// assumed by the valuation
	d := "nonnil(" + desc(v, maxDepth) + ")"
	for _, l := range lits {
		if l.Val && e.re(l.Re).MatchString(d) {
			return true
		}
	}
	// dominated by the true edge of "v != nil"
	if b != nil {
		sv := stripConv(v)
		for d := b.Idom(); d != nil; d = d.Idom() {
			iff, ok := d.Instrs[len(d.Instrs)-1].(*ssa.If)
			if !ok {
				continue
			}
			at, onil := nilTest(iff.Cond)
			if onil == nil || stripConv(onil) != sv {
				continue
			}
			// at=true means cond is "v != nil"; successor 0 is the true edge
			succ := d.Succs[0]
			if !at {
				succ = d.Succs[1]
			}
			if len(succ.Preds) == 1 && succ.Dominates(b) {
				return true
			}
		}
	}
	return false
}

// correlatedNonNil: x = G(...)#i is non-nil because a sibling boolean result
// G(...)#j is known (by a dominating branch or by the valuation) to have a
// value p, and every return of G whose result j may equal p has a non-nil
// result i.  ("if !valid { return err }" after "err, valid := G()".)
func (e *e1Engine) correlatedNonNil(x *ssa.Extract, c *ssa.Call, f *ssa.Function, b *ssa.BasicBlock, lits []Lit) bool {
	res := f.Signature.Results()
	for j := 0; j < res.Len(); j++ {
		if j == x.Index {
			continue
		}
		bt, ok := res.At(j).Type().Underlying().(*types.Basic)
		if !ok || bt.Kind() != types.Bool {
			continue
		}
		known, p := false, false
		// by valuation
		dj := fmt.Sprintf("%s#%d", desc(c, maxDepth), j)
		for _, l := range lits {
			if e.re(l.Re).MatchString(dj) {
				known, p = true, l.Val
			}
		}
		// by dominating branch on the sibling extract
		if !known && b != nil {
			for d := b.Idom(); d != nil && !known; d = d.Idom() {
				iff, ok := d.Instrs[len(d.Instrs)-1].(*ssa.If)
				if !ok {
					continue
				}
				cond := iff.Cond
				pos := true
				for {
					if u, ok := cond.(*ssa.UnOp); ok && u.Op == token.NOT {
						pos = !pos
						cond = u.X
						continue
					}
					break
				}
				ex, ok := cond.(*ssa.Extract)
				if !ok || ex.Tuple != x.Tuple || ex.Index != j {
					continue
				}
				for k, succ := range d.Succs {
					if len(succ.Preds) == 1 && succ.Dominates(b) {
						known = true
						p = (k == 0) == pos
					}
				}
			}
		}
		if !known {
			continue
		}
		all := true
		n := 0
		for _, fb := range f.Blocks {
			r, ok := fb.Instrs[len(fb.Instrs)-1].(*ssa.Return)
			if !ok {
				continue
			}
			n++
			vj := retOperand(r, j)
			if k, ok := vj.(*ssa.Const); ok && k.Value != nil && (k.Value.ExactString() == "true") != p {
				continue
			}
			if !e.valueNonNil(retOperand(r, x.Index), fb, nil, 1) {
				all = false
				break
			}
		}
		if all && n > 0 {
			return true
		}
	}
	return false
}

// globalNonNil: every store to package-level variable g in its package stores
// a certainly non-nil value (typically "var ErrX = errors.New(...)").
func (e *e1Engine) globalNonNil(g *ssa.Global) bool {
	key := "global|" + g.String()
	if s, ok := e.nonNilMemo[key]; ok {
		return s == 1
	}
	e.nonNilMemo[key] = 2
	n := 0
	ok := true
	for _, m := range g.Pkg.Members {
		f, isFn := m.(*ssa.Function)
		if !isFn {
			continue
		}
		fs := append([]*ssa.Function{f}, f.AnonFuncs...)
		for _, fn := range fs {
			for _, b := range fn.Blocks {
				for _, ins := range b.Instrs {
					if st, isSt := ins.(*ssa.Store); isSt && st.Addr == g {
						n++
						if !e.valueNonNil(st.Val, b, nil, 2) {
							ok = false
						}
					}
				}
			}
		}
	}
	// methods are not package members: scan them through the program's function set
	for fn := range e.a.AllFns {
		if fn.Pkg != g.Pkg || fn.Signature.Recv() == nil {
			continue
		}
		for _, b := range fn.Blocks {
			for _, ins := range b.Instrs {
				if st, isSt := ins.(*ssa.Store); isSt && st.Addr == g {
					n++
					if !e.valueNonNil(st.Val, b, nil, 2) {
						ok = false
					}
				}
			}
		}
	}
	if ok && n > 0 {
		e.nonNilMemo[key] = 1
		return true
	}
	return false
}

// nilTest: cond is (v != nil) -> (true, v); (v == nil) -> (false, v)
func nilTest(c ssa.Value) (bool, ssa.Value) {
	pos := true
	for {
		if u, ok := c.(*ssa.UnOp); ok && u.Op == token.NOT {
			pos = !pos
			c = u.X
			continue
		}
		break
	}
	b, ok := c.(*ssa.BinOp)
	if !ok || (b.Op != token.NEQ && b.Op != token.EQL) {
		return false, nil
	}
	isNil := func(v ssa.Value) bool { k, ok := v.(*ssa.Const); return ok && k.IsNil() }
	var o ssa.Value
	if isNil(b.Y) {
		o = b.X
	} else if isNil(b.X) {
		o = b.Y
	} else {
		return false, nil
	}
	if b.Op == token.EQL {
		pos = !pos
	}
	return pos, o
}

func (e *e1Engine) fnAlwaysNonNil(f *ssa.Function, idx int) bool {
	key := fmt.Sprintf("%p|%d", f, idx)
	if s, ok := e.nonNilMemo[key]; ok {
		return s == 1
	}
	e.nonNilMemo[key] = 0
	res := true
	nret := 0
	for _, b := range f.Blocks {
		r, ok := b.Instrs[len(b.Instrs)-1].(*ssa.Return)
		if !ok {
			continue
		}
		nret++
		if idx >= len(r.Results) || !e.valueNonNil(r.Results[idx], b, nil, 1) {
			res = false
			break
		}
	}
	if nret == 0 {
		res = false
	}
	if res {
		e.nonNilMemo[key] = 1
	} else {
		e.nonNilMemo[key] = 2
	}
	return res
}

// isFailureResult: an sdk.Result built by Error.Result().
func isFailureResult(v ssa.Value) bool {
	v = stripConv(v)
	c, ok := v.(*ssa.Call)
	if !ok {
		return false
	}
	if c.Call.IsInvoke() {
		return c.Call.Method.Name() == "Result" && isErrorType(c.Call.Value.Type())
	}
	if f := c.Call.StaticCallee(); f != nil && f.Name() == "Result" && f.Signature.Recv() != nil {
		return isErrorType(f.Signature.Recv().Type()) || types.Implements(f.Signature.Recv().Type(), errorIface())
	}
	return false
}

func errorIface() *types.Interface {
	return types.Universe.Lookup("error").Type().Underlying().(*types.Interface)
}

// retOperand resolves result i of a return. In functions with defers go/ssa
// spills results into allocs ("STORE tmp = v; rundefers; RETURN *tmp"); the
// value stored last in the returning block is the one that matters.
func retOperand(r *ssa.Return, i int) ssa.Value {
	v := r.Results[i]
	u, ok := v.(*ssa.UnOp)
	if !ok || u.Op != token.MUL {
		return v
	}
	a, ok := u.X.(*ssa.Alloc)
	if !ok {
		return v
	}
	b := r.Block()
	for j := len(b.Instrs) - 1; j >= 0; j-- {
		if st, ok := b.Instrs[j].(*ssa.Store); ok && st.Addr == a {
			if st.Val == v {
				continue
			}
			return st.Val
		}
	}
	return v
}

// returnIsSuccess: may this return report success under the valuation?
func (e *e1Engine) returnIsSuccess(r *ssa.Return, lits []Lit) bool {
	fn := r.Parent()
	res := fn.Signature.Results()
	for i := 0; i < res.Len(); i++ {
		t := res.At(i).Type()
		switch {
		case isErrorType(t):
			if e.valueNonNil(retOperand(r, i), r.Block(), lits, 0) {
				return false
			}
		case isSdkResult(t):
			if isFailureResult(retOperand(r, i)) {
				return false
			}
		}
	}
	return true
}

type e1Result struct {
	ok       bool
	hit      ssa.Instruction
	hitDesc  string
	nFrom    int
	path     []int // block indices from entry to the hit
	matched  []int // per literal: number of Ifs it decided
	nIfs     int
	nTargets int // target constructs present in the function at all
	nSites   int // for rows with an exception: constructs matching the pattern, exceptions included
	facts    int
}

func (e *e1Engine) callDesc(ins ssa.Instruction) (string, bool) {
	switch c := ins.(type) {
	case *ssa.Call:
		return desc(c, maxDepth), true
	case *ssa.Defer:
		return "defer " + calleeName(&c.Call), true
	case *ssa.Go:
		return "go " + calleeName(&c.Call), true
	}
	return "", false
}

// callMatches: does the call instruction match re?  An unanchored pattern has
// to start matching inside the callee name (or the "defer "/"go " prefix), so
// that a call merely mentioned inside another call's arguments is not a match.
func (e *e1Engine) callMatches(ins ssa.Instruction, re string) (string, bool) {
	d, ok := e.callDesc(ins)
	if !ok {
		return "", false
	}
	head := len(d)
	if ci, ok := ins.(ssa.CallInstruction); ok {
		if _, isCall := ins.(*ssa.Call); isCall {
			head = len(calleeName(ci.Common())) + 1
		}
	}
	loc := e.re(re).FindStringIndex(d)
	if loc == nil || loc[0] >= head {
		return d, false
	}
	return d, true
}

func (e *e1Engine) isTarget(ins ssa.Instruction, t Target, lits []Lit) bool {
	if t.Kind == TCall || t.Kind == TStore {
		if e.anyAlternative(ins, func() bool { return e.isTargetHere(ins, t, lits) }) {
			return true
		}
		return helperMay(ins, func(in ssa.Instruction) bool { return e.isTarget(in, t, lits) })
	}
	if t.Kind == TRetMatch {
		return e.anyAlternative(ins, func() bool { return e.isTargetHere(ins, t, lits) })
	}
	return e.isTargetHere(ins, t, lits)
}

func (e *e1Engine) isTargetHere(ins ssa.Instruction, t Target, lits []Lit) bool {
	switch t.Kind {
	case TSuccess:
		if r, ok := ins.(*ssa.Return); ok {
			return e.returnIsSuccess(r, lits)
		}
	case TAnyRet:
		_, ok := ins.(*ssa.Return)
		return ok
	case TRetConst:
		if r, ok := ins.(*ssa.Return); ok && t.Idx < len(r.Results) {
			op := retOperand(r, t.Idx)
			if t.Re == "true" || t.Re == "false" {
				if _, isConst := op.(*ssa.Const); !isConst {
					// a boolean decided by the valuation counts as that constant
					if known, val := e.boolUnder(op, lits, nil); known {
						return val != (t.Re == "true")
					}
				}
			}
			return desc(op, 3) != t.Re
		}
	case TRetMatch:
		if r, ok := ins.(*ssa.Return); ok && t.Idx < len(r.Results) {
			return !e.re(t.Re).MatchString(desc(retOperand(r, t.Idx), maxDepth))
		}
	case TCall:
		if _, ok := e.callMatches(ins, t.Re); ok {
			if t.ReNot != "" {
				if _, ex := e.callMatches(ins, t.ReNot); ex {
					return false
				}
			}
			return true
		}
	case TStore:
		if s, ok := ins.(*ssa.Store); ok {
			d := desc(s.Addr, maxDepth)
			if t.ReNot != "" && e.re(t.ReNot).MatchString(d) {
				return false
			}
			if !e.re(t.Re).MatchString(d) {
				return false
			}
			if t.ValNot != "" {
				if k, isK := s.Val.(*ssa.Const); isK && k.Value != nil && e.re(t.ValNot).MatchString(k.Value.ExactString()) {
					return false
				}
				// a boolean decided by the valuation counts as that constant
				if known, val := e.boolUnder(s.Val, lits, nil); known && e.re(t.ValNot).MatchString(map[bool]string{true: "true", false: "false"}[val]) {
					return false
				}
				if e.re(t.ValNot).MatchString(desc(s.Val, maxDepth)) {
					return false
				}
			}
			return true
		}
		if m, ok := ins.(*ssa.MapUpdate); ok {
			d := desc(m.Map, maxDepth) + "[" + desc(m.Key, maxDepth) + "]"
			if t.ReNot != "" && e.re(t.ReNot).MatchString(d) {
				return false
			}
			if !e.re(t.Re).MatchString(d) {
				return false
			}
			if t.ValNot != "" && e.re(t.ValNot).MatchString(desc(m.Value, maxDepth)) {
				return false
			}
			return true
		}
	}
	return false
}

func (e *e1Engine) eval(fn *ssa.Function, row *Row) e1Result {
	savedLits := curLits
	curLits = row.Assume
	if curLits == nil {
		curLits = []Lit{}
	}
	res := e1Result{matched: make([]int, len(row.Assume))}
	savedMatched := curMatched
	curMatched = res.matched
	defer func() { curLits = savedLits; curMatched = savedMatched }()
	// decide the pruned edge for each If
	keep := map[*ssa.BasicBlock]int{} // block -> successor index kept (0 true, 1 false)
	for _, b := range fn.Blocks {
		iff, ok := b.Instrs[len(b.Instrs)-1].(*ssa.If)
		if !ok {
			continue
		}
		res.nIfs++
		at := condAtom(iff.Cond)
		direct := false
		for i, l := range row.Assume {
			if e.re(l.Re).MatchString(at.Str) {
				direct = true
				res.matched[i]++
				truth := l.Val
				if at.Neg {
					truth = !truth
				}
				if truth {
					keep[b] = 0
				} else {
					keep[b] = 1
				}
			}
		}
		if !direct && len(row.Assume) > 0 {
			if known, truth := e.boolUnder(iff.Cond, row.Assume, res.matched); known {
				if truth {
					keep[b] = 0
				} else {
					keep[b] = 1
				}
			}
		}
	}
	var barriers []*regexp.Regexp
	for _, s := range row.Barrier {
		barriers = append(barriers, e.re(s))
	}
	_ = barriers
	// pass 1: reachable blocks under pruning and barriers (repeated while
	// conditions that are phis become decided by edge feasibility)
	var prev map[*ssa.BasicBlock]*ssa.BasicBlock
	var seen map[*ssa.BasicBlock]bool
	var cutAt map[*ssa.BasicBlock]int // index of the barrier instruction, if any
	var special map[*ssa.BasicBlock]bool
	var phiEdgeOK map[[2]*ssa.BasicBlock]bool
	var order []*ssa.BasicBlock
	pass1 := func() {
	prev = map[*ssa.BasicBlock]*ssa.BasicBlock{}
	seen = map[*ssa.BasicBlock]bool{fn.Blocks[0]: true}
	cutAt = map[*ssa.BasicBlock]int{}
	special = map[*ssa.BasicBlock]bool{}
	phiEdgeOK = map[[2]*ssa.BasicBlock]bool{}
	order = nil
	q := []*ssa.BasicBlock{fn.Blocks[0]}
	for len(q) > 0 {
		b := q[0]
		q = q[1:]
		order = append(order, b)
		cut := false
		for i, ins := range b.Instrs {
			for _, bs := range row.Barrier {
				if e.matchIns(ins, bs) {
					cut = true
				}
			}
			if cut {
				cutAt[b] = i
				break
			}
		}
		if cut {
			continue
		}
		if special[b] {
			continue // successors were decided per incoming edge
		}
		succs := b.Succs
		if k, ok := keep[b]; ok && len(succs) == 2 {
			succs = []*ssa.BasicBlock{b.Succs[k]}
		}
		for _, s := range succs {
			if ph, neg := phiIf(s); ph != nil {
				// short-circuit boolean kept in a variable: the branch taken in s
				// depends on the edge it is entered through
				special[s] = true
				if !seen[s] {
					seen[s] = true
					prev[s] = b
					q = append(q, s)
				}
				idx := -1
				for i, p := range s.Preds {
					if p == b {
						idx = i
					}
				}
				var allowed []*ssa.BasicBlock
				if idx >= 0 {
					known, val := e.boolUnder(ph.Edges[idx], row.Assume, res.matched)
					if known {
						if neg {
							val = !val
						}
						if val {
							allowed = []*ssa.BasicBlock{s.Succs[0]}
						} else {
							allowed = []*ssa.BasicBlock{s.Succs[1]}
						}
					}
				}
				if allowed == nil {
					allowed = s.Succs
				}
				if k, ok := keep[s]; ok {
					allowed = []*ssa.BasicBlock{s.Succs[k]}
				}
				for _, t := range allowed {
					phiEdgeOK[[2]*ssa.BasicBlock{s, t}] = true
					if !seen[t] {
						seen[t] = true
						prev[t] = s
						q = append(q, t)
					}
				}
				continue
			}
			if !seen[s] {
				seen[s] = true
				prev[s] = b
				q = append(q, s)
			}
		}
	}
	}
	edgeFeasible := func(from, to *ssa.BasicBlock) bool {
		if !seen[from] {
			return false
		}
		if _, c := cutAt[from]; c {
			return false
		}
		if special[from] {
			return phiEdgeOK[[2]*ssa.BasicBlock{from, to}]
		}
		if k, ok := keep[from]; ok && len(from.Succs) == 2 {
			return from.Succs[k] == to
		}
		return true
	}
	// phis are rendered through their only feasible incoming edge, if unique
	phiResolver = func(p *ssa.Phi) ssa.Value {
		var only ssa.Value
		for i, ed := range p.Edges {
			if !edgeFeasible(p.Block().Preds[i], p.Block()) {
				continue
			}
			if only != nil && only != ed {
				return nil
			}
			only = ed
		}
		return only
	}
	defer func() { phiResolver = nil }()
	for iter := 0; iter < 8; iter++ {
		pass1()
		changed := false
		for _, b := range order {
			if _, ok := keep[b]; ok || special[b] || len(b.Succs) != 2 {
				continue
			}
			iff, ok := b.Instrs[len(b.Instrs)-1].(*ssa.If)
			if !ok {
				continue
			}
			c := iff.Cond
			neg := false
			for {
				if u, ok := c.(*ssa.UnOp); ok && u.Op == token.NOT {
					neg = !neg
					c = u.X
					continue
				}
				break
			}
			ph, ok := c.(*ssa.Phi)
			if !ok {
				continue
			}
			v := phiResolver(ph)
			if v == nil {
				continue
			}
			known, val := e.boolUnder(v, row.Assume, res.matched)
			if !known {
				continue
			}
			if neg {
				val = !val
			}
			if val {
				keep[b] = 0
			} else {
				keep[b] = 1
			}
			changed = true
		}
		if !changed {
			break
		}
	}
	// count targets present anywhere
	throughNoPrune = true
	defer func() { throughNoPrune = false }()
	for _, b := range fn.Blocks {
		for _, ins := range b.Instrs {
			res.facts++
			if e.isTarget(ins, row.Target, row.Assume) {
				res.nTargets++
			}
			// sites the rule speaks about at all (exceptions included)
			base := row.Target
			base.ReNot, base.ValNot = "", ""
			if (row.Target.ReNot != "" || row.Target.ValNot != "") && e.isTarget(ins, base, row.Assume) {
				res.nSites++
			}
		}
	}
	throughNoPrune = false
	// pass 2: first reachable target (when row.From is set: only targets that
	// lie after a call matching From on some feasible path)
	res.ok = true
	var after map[*ssa.BasicBlock]int // block -> first instruction index that counts
	if row.From != "" {
		after = map[*ssa.BasicBlock]int{}
		var q2 []*ssa.BasicBlock
		for _, b := range order {
			lim := len(b.Instrs)
			if c, ok := cutAt[b]; ok {
				lim = c
			}
			for i, ins := range b.Instrs[:lim] {
				if e.matchIns(ins, row.From) {
					if cur, seenB := after[b]; !seenB || i+1 < cur {
						after[b] = i + 1
					}
					q2 = append(q2, b)
					break
				}
			}
		}
		res.nFrom = len(q2)
		for len(q2) > 0 {
			b := q2[0]
			q2 = q2[1:]
			if _, c := cutAt[b]; c {
				continue
			}
			for _, s := range b.Succs {
				if !edgeFeasible(b, s) || !seen[s] {
					continue
				}
				if _, ok := after[s]; !ok {
					after[s] = 0
					q2 = append(q2, s)
				} else if after[s] != 0 {
					// reached again from its start (loop): everything counts
					after[s] = 0
					q2 = append(q2, s)
				}
			}
		}
	}
	for _, b := range order {
		lim := len(b.Instrs)
		if c, ok := cutAt[b]; ok {
			lim = c
		}
		start := 0
		if after != nil {
			a, ok := after[b]
			if !ok {
				continue
			}
			start = a
		}
		if start > lim {
			continue
		}
		for _, ins := range b.Instrs[start:lim] {
			if e.isTarget(ins, row.Target, row.Assume) {
				res.ok = false
				res.hit = ins
				res.hitDesc, _ = e.callDesc(ins)
				for x := b; x != nil; x = prev[x] {
					res.path = append([]int{x.Index}, res.path...)
				}
				return res
			}
		}
	}
	return res
}

// phiIf: block b ends in an If whose condition is (the negation of) a phi
// defined in b itself: the compiled form of "v := a && b || c; if v".
func phiIf(b *ssa.BasicBlock) (*ssa.Phi, bool) {
	if len(b.Instrs) == 0 || len(b.Succs) != 2 {
		return nil, false
	}
	iff, ok := b.Instrs[len(b.Instrs)-1].(*ssa.If)
	if !ok {
		return nil, false
	}
	c := iff.Cond
	neg := false
	for {
		if u, ok := c.(*ssa.UnOp); ok && u.Op == token.NOT {
			neg = !neg
			c = u.X
			continue
		}
		break
	}
	ph, ok := c.(*ssa.Phi)
	if !ok || ph.Block() != b {
		return nil, false
	}
	return ph, neg
}

// boolUnder: truth value of v if it is a constant or decided by the valuation.
func (e *e1Engine) boolUnder(v ssa.Value, lits []Lit, matched []int) (bool, bool) {
	if k, ok := v.(*ssa.Const); ok && k.Value != nil {
		return true, k.Value.ExactString() == "true"
	}
	at := condAtom(v)
	for i, l := range lits {
		if e.re(l.Re).MatchString(at.Str) {
			if matched != nil {
				matched[i]++
			}
			t := l.Val
			if at.Neg {
				t = !t
			}
			return true, t
		}
	}
	// a strict order is antisymmetric: if the valuation says lt(b, a), then lt(a, b) is false
	if at.Swap != "" {
		for i, l := range lits {
			if l.Val && e.re(l.Re).MatchString(at.Swap) {
				if matched != nil {
					matched[i]++
				}
				return true, at.Neg
			}
		}
	}
	// nil test on what a function extracted after the rows were written returned
	if pos, onil := nilTest(v); onil != nil {
		if k, nn := e.helperNil(onil, lits, matched); k {
			return true, nn == pos
		}
	}
	return e.helperBool(v, lits, matched)
}

// phiResolver, when set, lets desc render a phi through its single feasible
// incoming value under the valuation being evaluated.
var phiResolver func(*ssa.Phi) ssa.Value

func litsString(ls []Lit) string {
	var p []string
	for _, l := range ls {
		if l.Val {
			p = append(p, l.Re)
		} else {
			p = append(p, "¬"+l.Re)
		}
	}
	return strings.Join(p, " ∧ ")
}

func (t Target) String() string {
	switch t.Kind {
	case TSuccess:
		return "SUCCESS-return"
	case TCall:
		return "call~" + t.Re
	case TStore:
		return "store~" + t.Re
	case TRetConst:
		return fmt.Sprintf("return#%d≠%s", t.Idx, t.Re)
	case TAnyRet:
		return "return"
	case TRetMatch:
		return fmt.Sprintf("return#%d!~%s", t.Idx, t.Re)
	}
	return "?"
}

// Check evaluates one row and returns its obligation.
func (e *e1Engine) Check(row Row) Obligation {
	o := Obligation{Prop: row.Prop, Rule: row.ID, Construct: row.Fn}
	o.Desc = fmt.Sprintf("in %s: [%s]%s ⇒ ¬%s — %s", row.Fn, litsString(row.Assume), barrierString(row.Barrier), row.Target, row.Why)
	fn := e.a.Fn(row.Fn)
	if fn == nil || fn.Blocks == nil {
		o.set(Unresolved)
		o.Detail = "function not found"
		return o
	}
	o.Pos = e.a.FnPos(fn)
	r := e.eval(fn, &row)
	o.Facts = r.facts
	var missing []string
	for i, n := range r.matched {
		if n == 0 {
			missing = append(missing, row.Assume[i].Re)
		}
	}
	if r.ok {
		if row.TargetMustExist && r.nTargets == 0 {
			o.set(Violation)
			o.Detail = "required construct is absent: " + row.Target.String()
			return o
		}
		if (row.Target.ReNot != "" || row.Target.ValNot != "") && (row.Target.Kind == TCall || row.Target.Kind == TStore) && r.nSites == 0 {
			// "every X is of the form Y" with no X left: the anchor is gone
			o.set(Unresolved)
			o.Detail = "no construct matches " + row.Target.String() + " in " + row.Fn + " any more: the rule's anchor does not resolve"
			return o
		}
		o.set(OK)
		if len(missing) > 0 || (r.nTargets == 0 && r.nSites == 0 && row.Target.Kind != TSuccess) {
			o.Vacuous = true
			o.Detail = fmt.Sprintf("vacuous: unmatched atoms %v, targets present %d", missing, r.nTargets)
		}
		return o
	}
	o.set(Violation)
	o.Pos = e.a.Pos(r.hit.Pos())
	if o.Pos == "-" {
		o.Pos = e.a.FnPos(fn)
	}
	var pp []string
	for _, bi := range r.path {
		pp = append(pp, fmt.Sprintf("b%d", bi))
	}
	o.Path = pp
	o.Detail = fmt.Sprintf("%s is reachable at %s via blocks %s", row.Target, o.Pos, strings.Join(pp, "→"))
	if r.hitDesc != "" {
		o.Detail += " [" + r.hitDesc + "]"
	}
	if len(missing) > 0 {
		o.Detail += fmt.Sprintf("; no branch in %s tests %v (guard absent, inverted or its result ignored)", row.Fn, missing)
	}
	return o
}

func barrierString(b []string) string {
	if len(b) == 0 {
		return ""
	}
	return " cut@{" + strings.Join(b, ",") + "}"
}

// Bootstrap prints every branch atom, call and return of a function: the raw
// material rule rows are written from.
func (e *e1Engine) Bootstrap(fn *ssa.Function) string {
	var sb strings.Builder
	fmt.Fprintf(&sb, "== %s  (%s)\n", FnName(fn), e.a.FnPos(fn))
	for _, b := range fn.Blocks {
		fmt.Fprintf(&sb, " b%d preds=%v succs=%v %s\n", b.Index, blockIdx(b.Preds), blockIdx(b.Succs), b.Comment)
		for _, ins := range b.Instrs {
			switch x := ins.(type) {
			case *ssa.If:
				at := condAtom(x.Cond)
				n := ""
				if at.Neg {
					n = "NOT "
				}
				fmt.Fprintf(&sb, "    IF %s%s   [T→b%d F→b%d]  @%s\n", n, at.Str, b.Succs[0].Index, b.Succs[1].Index, e.a.Pos(condPos(x)))
			case *ssa.Return:
				var rs []string
				for i := range x.Results {
					rs = append(rs, desc(retOperand(x, i), 4))
				}
				fmt.Fprintf(&sb, "    RETURN %s  success=%v @%s\n", strings.Join(rs, " ; "), e.returnIsSuccess(x, nil), e.a.Pos(x.Pos()))
			case *ssa.Store:
				fmt.Fprintf(&sb, "    STORE %s = %s\n", desc(x.Addr, maxDepth), desc(x.Val, 4))
			case *ssa.MapUpdate:
				fmt.Fprintf(&sb, "    MAPSET %s[%s] = %s\n", desc(x.Map, maxDepth), desc(x.Key, 3), desc(x.Value, 3))
			case *ssa.Panic:
				fmt.Fprintf(&sb, "    PANIC\n")
			default:
				if d, ok := e.callDesc(ins); ok {
					fmt.Fprintf(&sb, "    CALL %s @%s\n", d, e.a.Pos(ins.Pos()))
				}
			}
		}
	}
	return sb.String()
}

func condPos(i *ssa.If) token.Pos {
	if i.Cond != nil && i.Cond.Pos().IsValid() {
		return i.Cond.Pos()
	}
	return i.Pos()
}

func blockIdx(bs []*ssa.BasicBlock) []int {
	var r []int
	for _, b := range bs {
		r = append(r, b.Index)
	}
	sort.Ints(r)
	return r
}
