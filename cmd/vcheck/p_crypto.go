package main

// C39 (signature verification) and C40 (keybase / passphrase) — the thin
// structural clauses around the cryptographic primitives: what this code adds on
// top of the libraries (dispatch, ordering, gating by a successful decryption).

func init() {
	register(&Prop{
		ID: "C39", Title: "Signatures verify exactly for the signing key and message",
		Technique: "pruned-CFG rows on PublicKeyMultiSignature.VerifyBytes, the single-key VerifyBytes wrappers and NewPublicKeyBz",
		DesignRef: "DESIGN.md §3 C39",
		Explanation: "Multi-signature verification returns true only after the signature container decoded, the number of signatures equals the number of member keys, every index has a signature, and every member key verified the same message against the signature at its own index, in index order; the ed25519 and secp256k1 wrappers delegate to the library implementation of their own key with (msg, sig) in that order; NewPublicKeyBz dispatches on the two fixed key sizes and otherwise requires a decodable multi-signature key.",
		NotDecided:  "the cryptography itself (that the library primitives accept exactly the matching private key's signatures), stability of addresses and encodings in value, and the vacuous case of a multi-signature key with an empty key list (zero signatures verify).",
		MinObl:      10,
		Run:         runC39,
	})
	register(&Prop{
		ID: "C40", Title: "Stored keys are recoverable only with the right passphrase",
		Technique: "pruned-CFG rows on the dbKeybase operations: every path that releases, re-encrypts, signs with or deletes a stored key passes through a successful UnarmorDecryptPrivKey of that key's own armor with the caller's passphrase; who-may-call table for UnsafeDelete",
		DesignRef: "DESIGN.md §3 C40",
		Explanation: "Delete reaches DeleteSync only after the stored armor decrypted under the given passphrase, and deletes the looked-up key's own address; Update re-encrypts exactly the key it decrypted with the old passphrase; Sign and ExportPrivateKeyObject obtain the private key only from UnarmorDecryptPrivKey of the stored armor with the caller's passphrase and fail when it fails; ExportPrivKeyEncryptedArmor encrypts exactly the key ExportPrivateKeyObject released; ImportPrivKey refuses an address that already exists and stores the key it decrypted; UnarmorDecryptPrivKey returns a key only from decryptPrivKey on the decoded salt and ciphertext; UnsafeDelete is not called from the passphrase-taking API.",
		NotDecided:  "that decryption fails for a wrong passphrase (the AEAD's guarantee) and the map-like behaviour of the keybase over operation sequences.",
		MinObl:      14,
		Run:         runC40,
	})
}

func runC39(c *Ctx) []Obligation {
	out := runC39rows(c)
	P := "C39"
	get := `invoke crypto\.MultiSig\.GetSignatureByIndex\(var:multiSig, phi:i\)`
	ver := `invoke crypto\.PublicKey\.VerifyBytes\(pms\.PublicKeys\[phi:i\], msg, ` + get + `#0\)`
	out = append(out,
		c.edgeMust(P, "multisig.member-failure-returns-false", "(crypto.PublicKeyMultiSignature).VerifyBytes", `^`+ver+`$`, false, `ret:^false$`, 1, "a member key that rejects its signature ends the verification with false (the loop does not move on)"),
		c.edgeMust(P, "multisig.missing-index-returns-false", "(crypto.PublicKeyMultiSignature).VerifyBytes", `^`+get+`#1$`, false, `ret:^false$`, 1, "a missing signature ends the verification with false"),
	)
	return out
}

func runC39rows(c *Ctx) []Obligation {
	P := "C39"
	V := "(crypto.PublicKeyMultiSignature).VerifyBytes"
	dec := `^nonnil\(\(\*codec\.LegacyAmino\)\.UnmarshalBinaryBare\(crypto\.cdc, multiSignature, &var:multiSig\)\)$`
	cnt := `^eq\(builtin\.len\(pms\.PublicKeys\), invoke crypto\.MultiSig\.NumOfSigs\(var:multiSig\)\)$`
	get := `invoke crypto\.MultiSig\.GetSignatureByIndex\(var:multiSig, phi:i\)`
	ver := `invoke crypto\.PublicKey\.VerifyBytes\(pms\.PublicKeys\[phi:i\], msg, ` + get + `#0\)`
	loop := `^lt\(phi:i, invoke crypto\.MultiSig\.NumOfSigs\(var:multiSig\)\)$`
	return c.Rows([]Row{
		{Prop: P, ID: "multisig.undecodable-rejected", Fn: V, Assume: []Lit{T(dec)}, Target: RetNot(0, "false"), Why: "a signature container that does not decode verifies nothing"},
		{Prop: P, ID: "multisig.count-must-match", Fn: V, Assume: []Lit{F(dec), F(cnt)}, Target: RetNot(0, "false"), Why: "every member key needs a signature: the counts must be equal"},
		{Prop: P, ID: "multisig.missing-index-rejected", Fn: V, Assume: []Lit{F(dec), T(cnt), T(loop), F(`^` + get + `#1$`)}, Target: RetNot(0, "false"), Why: "a missing signature for a member rejects the whole signature"},
		{Prop: P, ID: "multisig.member-failure-rejected", Fn: V, Assume: []Lit{F(dec), T(cnt), T(loop), T(`^` + get + `#1$`), F(`^` + ver + `$`)}, Target: RetNot(0, "false"), Why: "one member key rejecting rejects the whole signature"},
		{Prop: P, ID: "multisig.member-operands", Fn: V, Target: CallTo(`^invoke crypto\.PublicKey\.VerifyBytes\(`).Except(`^` + ver + `$`), Why: "member i verifies the same message against signature i"},
		{Prop: P, ID: "multisig.true-only-after-all-members", Fn: V, Assume: []Lit{T(loop)}, Target: RetNot(0, "false"), From: `^invoke crypto\.MultiSig\.NumOfSigs\(`, Why: "true is returned only when the loop over all members ran out"},
		{Prop: P, ID: "ed25519.delegates", Fn: "(crypto.Ed25519PublicKey).VerifyBytes", Target: RetNotMatch(0, `^\(github\.com/tendermint/tendermint/crypto/ed25519\.PubKeyEd25519\)\.VerifyBytes\(pub, msg, sig\)$`), Why: "the wrapper verifies with its own key, message first, signature second"},
		{Prop: P, ID: "secp256k1.delegates", Fn: "(crypto.Secp256k1PublicKey).VerifyBytes", Target: RetNotMatch(0, `^\(github\.com/tendermint/tendermint/crypto/secp256k1\.PubKeySecp256k1\)\.VerifyBytes\(pub, msg, sig\)$`), Why: "the wrapper verifies with its own key, message first, signature second"},
		{Prop: P, ID: "decode.ed25519-by-size", Fn: "crypto.NewPublicKeyBz", Assume: []Lit{T(`^eq\(32, builtin\.len\(b\)\)$`)}, Target: RetNotMatch(0, `^\(crypto\.Ed25519PublicKey\)\.NewPublicKey\(zero:crypto\.Ed25519PublicKey, b\)#0$`), Why: "32 bytes decode as an ed25519 key"},
		{Prop: P, ID: "decode.secp256k1-by-size", Fn: "crypto.NewPublicKeyBz", Assume: []Lit{F(`^eq\(32, builtin\.len\(b\)\)$`), T(`^eq\(33, builtin\.len\(b\)\)$`)}, Target: RetNotMatch(0, `^\(crypto\.Secp256k1PublicKey\)\.NewPublicKey\(zero:crypto\.Secp256k1PublicKey, b\)#0$`), Why: "33 bytes decode as a secp256k1 key"},
		{Prop: P, ID: "decode.other-must-be-multisig", Fn: "crypto.NewPublicKeyBz", Assume: []Lit{F(`^eq\(32, builtin\.len\(b\)\)$`), F(`^eq\(33, builtin\.len\(b\)\)$`), T(`^nonnil\(\(crypto\.PublicKeyMultiSignature\)\.NewPublicKey\$thunk\(`)}, Target: Success(), Why: "any other length must decode as a multi-signature key or is rejected"},
	})
}

func runC40(c *Ctx) []Obligation {
	P := "C40"
	K := "(crypto/keys.dbKeybase)."
	get := `\(crypto/keys\.dbKeybase\)\.Get\(kb, address\)`
	dec := func(pass string) string {
		return `crypto/keys/mintkey\.UnarmorDecryptPrivKey\(` + get + `#0\.PrivKeyArmor, ` + pass + `\)`
	}
	out := c.Rows([]Row{
		{Prop: P, ID: "delete.needs-passphrase", Fn: K + "Delete", Assume: []Lit{T(`^nonnil\(` + dec("passphrase") + `#1\)$`)}, Target: CallTo(`DeleteSync\(`), TargetMustExist: true, Why: "a key is deleted only after its armor decrypted under the given passphrase"},
		{Prop: P, ID: "delete.decrypts-first", Fn: K + "Delete", Barrier: []string{`^` + dec("passphrase")}, Target: CallTo(`DeleteSync\(`), Why: "the passphrase check precedes the deletion"},
		{Prop: P, ID: "delete.unknown-key-fails", Fn: K + "Delete", Assume: []Lit{T(`^nonnil\(` + get + `#1\)$`)}, Target: Success(), Why: "deleting an unknown key is an error"},
		{Prop: P, ID: "delete.own-address", Fn: K + "Delete", Target: CallTo(`^invoke github\.com/tendermint/tm-db\.DB\.DeleteSync\(`).Except(`^invoke github\.com/tendermint/tm-db\.DB\.DeleteSync\(kb\.db, crypto/keys\.addrKey\(\(crypto/keys\.KeyPair\)\.GetAddress\(` + get + `#0\)\)\)$`), Why: "what is deleted is the looked-up key's own record"},
		{Prop: P, ID: "update.needs-old-passphrase", Fn: K + "Update", Assume: []Lit{T(`^nonnil\(` + dec("oldpass") + `#1\)$`)}, Target: CallTo(`writeLocalKeyPair\(`), TargetMustExist: true, Why: "re-encryption requires the old passphrase"},
		{Prop: P, ID: "update.re-encrypts-decrypted-key", Fn: K + "Update", Target: CallTo(`writeLocalKeyPair\(`).Except(`^\(crypto/keys\.dbKeybase\)\.writeLocalKeyPair\(kb, ` + dec("oldpass") + `#0, newpass, ""\)$`), Why: "the key stored under the new passphrase is the one decrypted under the old"},
		{Prop: P, ID: "sign.needs-passphrase", Fn: K + "Sign", Assume: []Lit{T(`^nonnil\(` + dec("passphrase") + `#1\)$`)}, Target: Success(), Why: "signing requires the passphrase"},
		{Prop: P, ID: "sign.key-from-decryption", Fn: K + "Sign", Target: CallTo(`^invoke crypto\.PrivateKey\.Sign\(`).Except(`^invoke crypto\.PrivateKey\.Sign\(` + dec("passphrase") + `#0, msg\)$`), Why: "the signing key is the decrypted stored key, over the caller's message"},
		{Prop: P, ID: "export-object.needs-passphrase", Fn: K + "ExportPrivateKeyObject", Assume: []Lit{T(`^nonnil\(` + dec("passphrase") + `#1\)$`)}, Target: Success(), Why: "exporting requires the passphrase"},
		{Prop: P, ID: "export-object.key-from-decryption", Fn: K + "ExportPrivateKeyObject", Assume: []Lit{F(`^nonnil\(` + get + `#1\)$`), F(`^eq\("", ` + get + `#0\.PrivKeyArmor\)$`), F(`^nonnil\(` + dec("passphrase") + `#1\)$`)}, Target: RetNotMatch(0, `^`+dec("passphrase")+`#0$`), Why: "the key released is the decrypted stored key"},
		{Prop: P, ID: "export-armor.needs-export-object", Fn: K + "ExportPrivKeyEncryptedArmor", Assume: []Lit{T(`^nonnil\(\(crypto/keys\.dbKeybase\)\.ExportPrivateKeyObject\(kb, address, decryptPassphrase\)#1\)$`)}, Target: Success(), Why: "an armored export requires the passphrase"},
		{Prop: P, ID: "export-armor.encrypts-released-key", Fn: K + "ExportPrivKeyEncryptedArmor", Target: CallTo(`EncryptArmorPrivKey\(`).Except(`^crypto/keys/mintkey\.EncryptArmorPrivKey\(\(crypto/keys\.dbKeybase\)\.ExportPrivateKeyObject\(kb, address, decryptPassphrase\)#0, encryptPassphrase, hint\)$`), Why: "the armored export protects exactly the released key under the new passphrase"},
		{Prop: P, ID: "import.needs-decryption", Fn: K + "ImportPrivKey", Assume: []Lit{T(`^nonnil\(crypto/keys/mintkey\.UnarmorDecryptPrivKey\(armor, decryptPassphrase\)#1\)$`)}, Target: Success(), Why: "an armor that does not decrypt is not imported"},
		{Prop: P, ID: "import.refuses-existing-address", Fn: K + "ImportPrivKey", Assume: []Lit{F(`^nonnil\(crypto/keys/mintkey\.UnarmorDecryptPrivKey\(armor, decryptPassphrase\)#1\)$`), F(`^nonnil\(types\.AddressFromHex\(`), F(`^nonnil\(\(crypto/keys\.dbKeybase\)\.Get\(kb, types\.AddressFromHex\(`)}, Target: Success(), Why: "an existing key is never overwritten by an import"},
		{Prop: P, ID: "import.stores-decrypted-key", Fn: K + "ImportPrivKey", Target: CallTo(`writeLocalKeyPair\(`).Except(`^\(crypto/keys\.dbKeybase\)\.writeLocalKeyPair\(kb, crypto/keys/mintkey\.UnarmorDecryptPrivKey\(armor, decryptPassphrase\)#0, encryptPassphrase, ""\)$`), Why: "the key stored is the one decrypted from the armor, under the new passphrase"},
		{Prop: P, ID: "unarmor.key-only-from-decrypt", Fn: "crypto/keys/mintkey.UnarmorDecryptPrivKey", Assume: []Lit{T(`^nonnil\(encoding/json\.Unmarshal\(`)}, Target: Success(), Why: "a malformed armor yields no key"},
		{Prop: P, ID: "unarmor.decrypts-decoded-parts", Fn: "crypto/keys/mintkey.UnarmorDecryptPrivKey", Target: CallTo(`decryptPrivKey\(`).Except(`^crypto/keys/mintkey\.decryptPrivKey\(encoding/hex\.DecodeString\(var:armoredJson\.Salt\)#0, \(\*encoding/base64\.Encoding\)\.DecodeString\(encoding/base64\.StdEncoding, var:armoredJson\.Ciphertext\)#0, passphrase\)$`), Why: "decryption runs over the armor's own salt and ciphertext with the caller's passphrase"},
	})
	out = append(out,
		c.whoMayCall(P, "unsafe-delete.callers", "(*crypto/keys.dbKeybase).UnsafeDelete", []string{`\(\*?crypto/keys\.lazyKeybase\)\.UnsafeDelete`, `app/cmd/cli\..*`, `app\..*`}, "the passphrase-free deletion is not reachable from the passphrase-taking keybase operations"),
	)
	// the key that protects the armor is derived from the passphrase exactly as given — every byte of it,
	// nothing trimmed, folded or normalised — with the same cost parameters when locking and unlocking, the
	// stored salt when unlocking, and a key that failed to authenticate the ciphertext yields no key
	kdf := func(salt string) string {
		return `^golang\.org/x/crypto/scrypt\.Key\(conv<\[\]byte>\(passphrase\), ` + salt + `, 32768, 8, 1, 32\)$`
	}
	out = append(out, c.Rows([]Row{
		{Prop: P, ID: "kdf.lock-uses-the-passphrase-as-given", Fn: "crypto/keys/mintkey.encryptPrivKey",
			Target: CallTo(`^golang\.org/x/crypto/scrypt\.Key\(`).Except(kdf(`github\.com/tendermint/tendermint/crypto\.CRandBytes\(16\)`)), Why: "locking derives the key from the passphrase bytes and a fresh random salt"},
		{Prop: P, ID: "kdf.unlock-uses-the-passphrase-as-given", Fn: "crypto/keys/mintkey.decryptPrivKey",
			Target: CallTo(`^golang\.org/x/crypto/scrypt\.Key\(`).Except(kdf(`saltBytes`)), Why: "unlocking derives the key from the passphrase bytes and the stored salt, with the same parameters"},
		{Prop: P, ID: "kdf.only-derivation", Fn: "crypto/keys/mintkey.encryptPrivKey", Target: CallTo(`EncryptAESGCM\(`).Except(`^crypto/keys/mintkey\.EncryptAESGCM\(golang\.org/x/crypto/scrypt\.Key\(conv<\[\]byte>\(passphrase\), .*\)#0, `), Why: "the armor is sealed under the derived key"},
		{Prop: P, ID: "kdf.unlock-opens-with-derived-key", Fn: "crypto/keys/mintkey.decryptPrivKey", Target: CallTo(`DecryptAESGCM\(`).Except(`^crypto/keys/mintkey\.DecryptAESGCM\(golang\.org/x/crypto/scrypt\.Key\(conv<\[\]byte>\(passphrase\), saltBytes, 32768, 8, 1, 32\)#0, encBytes\)$`), Why: "and opened under the key derived the same way"},
		{Prop: P, ID: "kdf.unlock-auth-failure-yields-no-key", Fn: "crypto/keys/mintkey.decryptPrivKey", Assume: []Lit{T(`^nonnil\(crypto/keys/mintkey\.DecryptAESGCM\(.*\)#1\)$`)}, Target: Success(), Why: "a passphrase whose key does not authenticate the ciphertext returns an error, not a key"},
	})...)
	return out
}
