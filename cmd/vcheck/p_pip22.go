package main

import (
	"sort"
	"strings"

	"golang.org/x/tools/go/ssa"
)

// C27: the stake-weighted reward and challenge-burn computations are monotone in
// stake and count, flat above the weighting ceiling, and terminate.

func init() {
	register(&Prop{
		ID: "C27", Title: "Stake-weighted reward computation terminates and is monotone",
		Technique: "abstract interpretation of the big-number SSA expressions over a monotonicity lattice (constant / non-decreasing / non-increasing / unknown in one input), with the floor-to-bin idiom recognised; structural check that the ceiling operand of the bin selection does not depend on the stake; loop-variant recognition over the callee closure in package types",
		DesignRef: "DESIGN.md §3 C27",
		Explanation: "In calculateRewardRewardPip22 and in BurnForChallenge the resulting coin amount is non-decreasing in the stake and in the relay / challenge count (every operation on the way preserves the direction: rounding down to a bin, min with a constant, division by a fixed positive parameter, the fractional power of the bin for a fixed exponent, products of non-negative factors, truncation), and the two operands of the MinInt that selects the bin are the stake rounded down to a bin and a ceiling term that does not depend on the stake, so the result stops changing once the stake reaches the ceiling; every loop reachable from the two computations inside package types has a recognised variant (range, counted, halving).",
		NotDecided:  "numeric quality of the Newton iteration, non-negativity of the result (it follows from the recorded sign assumptions, which are not themselves checked), and overflow of the uint64 conversions.",
		Assumptions: []string{"stake-weighting parameters (bin size, ceiling, weight multiplier, RTTM) are positive and the exponent is non-negative", "FracPow is non-decreasing in its base for a fixed non-negative exponent"},
		MinObl:      6,
		Run:         runC27,
	})
}

// loopVariantExceptions: loops without a syntactic variant whose termination is a
// numeric convergence question, with what is known about them.
var loopVariantExceptions = map[string]string{
	"(types.BigDec).ApproxRoot": "Newton iteration `for delta.Abs().GT(SmallestDec())` has no syntactic variant; by execution it terminates for every integer base 1..5000 with roots 2,3,10,100 (at most 179 iterations) and cycles forever only for bases below 0.008, which the bin computation (an integer quotient) cannot produce (/verif/findings/F11)",
}

func paramNamed(fn *ssa.Function, name string) ssa.Value {
	for _, p := range fn.Params {
		if identName(p) == name {
			return p
		}
	}
	return nil
}

// valueRendering finds the first value in fn whose rendering equals d.
func valueRendering(fn *ssa.Function, re string, c *Ctx) ssa.Value {
	r := c.E1.re(re)
	for _, b := range fn.Blocks {
		for _, ins := range b.Instrs {
			if v, ok := ins.(ssa.Value); ok && r.MatchString(desc(v, maxDepth)) {
				return v
			}
		}
	}
	return nil
}

func (c *Ctx) monoObl(P, rule, fnName string, input ssa.Value, inputName string, result ssa.Value, why string) Obligation {
	o := c.obl(P, rule, fnName, "the amount computed by "+fnName+" is non-decreasing in "+inputName+" — "+why)
	if input == nil || result == nil {
		o.unresolved("input %s or result value not found in %s", inputName, fnName)
		return *o
	}
	m := newMono(input)
	d := m.dir(result)
	o.Facts = len(m.memo)
	var as []string
	for a := range m.assumed {
		as = append(as, a)
	}
	sort.Strings(as)
	switch d {
	case mUp:
		o.Detail = "assuming: " + strings.Join(as, "; ")
	case mConst:
		o.fail("", "the result does not depend on %s at all", inputName)
	default:
		o.fail("", "the result is %s in %s: %s", d, inputName, strings.Join(m.notes, " | "))
	}
	return *o
}

// binSelection: the MinInt that picks the bin has one operand following the
// stake and one that does not depend on it.
func (c *Ctx) binSelection(P, fnName string, fn *ssa.Function, stake ssa.Value) Obligation {
	o := c.obl(P, "flat-above-ceiling", fnName, "the bin is min(stake rounded down to a bin, a ceiling term that does not depend on the stake): above the ceiling the result no longer changes with the stake")
	if fn == nil || stake == nil {
		o.unresolved("function or stake value not found")
		return *o
	}
	o.Pos = c.A.FnPos(fn)
	n := 0
	for _, b := range fn.Blocks {
		for _, ins := range b.Instrs {
			call, ok := ins.(*ssa.Call)
			if !ok || bigMethod(call) != "MinInt" {
				continue
			}
			n++
			m := newMono(stake)
			a, bb := m.dir(call.Call.Args[0]), m.dir(call.Call.Args[1])
			o.Facts += len(m.memo)
			switch {
			case a == mUp && bb == mConst, a == mConst && bb == mUp:
			default:
				o.fail(c.A.Pos(call.Pos()), "the operands of the bin selection are %s and %s in the stake (%s): the ceiling term moves with the stake, so above the ceiling the weight is not constant and can decrease when the stake grows", a, bb, strings.Join(m.notes, " | "))
			}
		}
	}
	if n == 0 {
		o.unresolved("no MinInt bin selection found")
	}
	return *o
}

func runC27(c *Ctx) []Obligation {
	P := "C27"
	var out []Obligation
	// reward
	rn := "(x/nodes/keeper.Keeper).calculateRewardRewardPip22"
	if fn := c.A.Fn(rn); fn != nil {
		var res ssa.Value
		for _, b := range fn.Blocks {
			if r, ok := b.Instrs[len(b.Instrs)-1].(*ssa.Return); ok && len(r.Results) == 1 {
				res = retOperand(r, 0)
			}
		}
		stake, relays := paramNamed(fn, "stake"), paramNamed(fn, "relays")
		out = append(out,
			c.monoObl(P, "reward.monotone-in-stake", rn, stake, "the stake", res, "more stake never earns less for the same relays"),
			c.monoObl(P, "reward.monotone-in-relays", rn, relays, "the relay count", res, "more relays never earn less for the same stake"),
			c.binSelection(P, rn, fn, stake),
		)
	} else {
		o := c.obl(P, "reward.monotone-in-stake", rn, "function present")
		o.unresolved("not found")
		out = append(out, *o)
	}
	// challenge burn
	bn := "(x/nodes/keeper.Keeper).BurnForChallenge"
	if fn := c.A.Fn(bn); fn != nil {
		stake := valueRendering(fn, `^\(x/nodes/types\.Validator\)\.GetTokens\(`, c)
		challenges := paramNamed(fn, "challenges")
		var amt ssa.Value
		for _, s := range c.callSites(fn, `^\(x/nodes/keeper\.Keeper\)\.simpleSlash\(`) {
			amt = s.Call.Args[len(s.Call.Args)-1]
		}
		out = append(out,
			c.monoObl(P, "burn.monotone-in-stake", bn, stake, "the stake", amt, "a larger stake is never burned less for the same challenges"),
			c.monoObl(P, "burn.monotone-in-challenges", bn, challenges, "the challenge count", amt, "more challenges never burn less"),
			c.binSelection(P, bn, fn, stake),
		)
	} else {
		o := c.obl(P, "burn.monotone-in-stake", bn, "function present")
		o.unresolved("not found")
		out = append(out, *o)
	}
	// the assumption "FracPow is non-decreasing in its base" needs FracPow to compute a power for
	// every base: a failed root extraction must not be replaced by a constant
	out = append(out, c.Rows([]Row{
		{Prop: P, ID: "fracpow.root-failure-not-masked", Fn: "(types.BigDec).FracPow", Assume: []Lit{F(`^\(types\.BigDec\)\.IsZero\(power\)$`), T(`^nonnil\(\(types\.BigDec\)\.ApproxRoot\(d, conv<uint64>\(denominator\)\)#1\)$`)},
			Target: TargetAnyReturn(), Why: "when the root cannot be computed (overflow for large bases) no ordinary value is returned in its place: a constant there makes the weight drop when the stake grows"},
		{Prop: P, ID: "fracpow.power-of-root", Fn: "(types.BigDec).FracPow", Assume: []Lit{F(`^\(types\.BigDec\)\.IsZero\(power\)$`), F(`^nonnil\(\(types\.BigDec\)\.ApproxRoot\(d, conv<uint64>\(denominator\)\)#1\)$`)},
			Target: RetNotMatch(0, `^\(types\.BigDec\)\.Power\(\(types\.BigDec\)\.ApproxRoot\(d, conv<uint64>\(denominator\)\)#0, `), Why: "the result is a power of the denominator-th root of the base itself"},
	})...)
	// ... and, FracPow being what it is today (the known finding above: failure becomes weight 1), the root
	// extraction itself must have no way to fail on purpose: its only failure is the recovered overflow
	out = append(out, c.Rows([]Row{
		{Prop: P, ID: "approxroot.no-deliberate-failure-exit", Fn: "(types.BigDec).ApproxRoot",
			Target: RetNotMatch(1, `^(nil|var:err|\(types\.BigDec\)\.ApproxRoot\(\(types\.BigDec\)\.MulInt64\(d, -1\), root\)#1)$`),
			Why:    "every return of the root extraction reports success (or what the recursion on |d| reported): an added failure exit — an iteration cap, a precision check — is turned by FracPow into weight 1 for exactly the larger stakes"},
		{Prop: P, ID: "approxroot.error-only-from-recover", Fn: "(types.BigDec).ApproxRoot",
			Target: StoreTo(`^var:err$`), Why: "the function body never assigns its error result; only the deferred recovery does"},
	})...)
	// termination: loops in the callee closure inside package types
	var roots []*ssa.Function
	for _, n := range []string{rn, bn} {
		if f := c.A.Fn(n); f != nil {
			roots = append(roots, f)
		}
	}
	reach := c.A.Reach(roots, func(f *ssa.Function) bool {
		// the arithmetic only: big-number methods and helpers of package types, not the
		// parameter getters of the keeper (state reads)
		for _, r := range roots {
			if f == r {
				return false
			}
		}
		if fnPkgPath(f) != repoMod+"/types" {
			return true
		}
		if r := f.Signature.Recv(); r != nil {
			n := namedOf(r.Type())
			return n == nil || (n.Obj().Name() != "BigInt" && n.Obj().Name() != "BigDec")
		}
		return false
	})
	var fns []*ssa.Function
	for f := range reach {
		if f.Blocks != nil && fnPkgPath(f) == repoMod+"/types" {
			fns = append(fns, f)
		}
	}
	sort.Slice(fns, func(i, j int) bool { return FnName(fns[i]) < FnName(fns[j]) })
	nLoops := 0
	for _, f := range fns {
		loops := naturalLoops(f)
		if len(loops) == 0 {
			continue
		}
		o := c.obl(P, "terminates.loop-variant", FnName(f), "every loop of "+FnName(f)+" (reachable from the stake-weighted computations) has a recognised variant")
		o.Pos = c.A.FnPos(f)
		for _, li := range loops {
			nLoops++
			o.Facts++
			li.classify()
			if why, ok := loopVariantExceptions[FnName(f)]; ok && li.Kind == "" {
				// an iteration whose convergence is numeric: not decided here (see NotDecided)
				if o.Detail != "" {
					o.Detail += "; "
				}
				o.Detail += "not decided: " + why
				continue
			}
			if li.Kind == "" {
				pos := ""
				for _, ins := range li.Header.Instrs {
					if ins.Pos().IsValid() {
						pos = c.A.Pos(ins.Pos())
						break
					}
				}
				o.fail(pos, "the loop headed at block b%d (%s) has no recognised variant: its exit test is not a comparison of a loop variable that moves strictly towards a loop-invariant bound, so nothing bounds the number of iterations", li.Header.Index, li.Header.Comment)
			}
		}
		out = append(out, *o)
	}
	if nLoops < 2 {
		o := c.obl(P, "terminates.loop-variant", "types", "loops found in the callee closure")
		o.unresolved("only %d loops found in package types reachable from the computations; at least 2 (Power, ApproxRoot) were confirmed by reading", nLoops)
		out = append(out, *o)
	}
	out = append(out, rewardOperands(c, P)...)
	return out
}
