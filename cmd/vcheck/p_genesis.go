package main

import (
	"go/types"
	"sort"
	"strings"

	"golang.org/x/tools/go/ssa"
)

// C43: exported genesis reproduces the exported state — coverage of the listed
// state by the export/import pair of every module, and agreement between what the
// exporter emits and what the importer accepts and counts.

func init() {
	register(&Prop{
		ID: "C43", Title: "Exported genesis reproduces the exported state",
		Technique: "field-coverage agreement between each module's ExportGenesis and InitGenesis (go/types field list vs SSA stores/reads); pruned-CFG rows for 'no supply or balance is added on import when the genesis already provides it'; per-iteration obligations for the status filters; nil-guard dominance in auth.ValidateGenesis; rows over module.Manager",
		DesignRef: "DESIGN.md §3 C43",
		Explanation: "For auth, nodes, apps, pocketcore and gov, every GenesisState field backing an item the property lists is populated by ExportGenesis and consumed by InitGenesis; the module manager exports and initialises every module under its own name and aborts on a validation error. auth exports the total supply and every funded account, module accounts included; therefore, when the pool / DAO balance is already provided by the imported accounts, nodes.InitGenesis, apps.InitGenesis and gov.InitGenesis must not inflate the supply, mint or set pool coins again. Every record the exporter emits and the importer does not reject is stored and counted into the expected pool balance (the pool holds staked and unstaking tokens alike). auth.ValidateGenesis does not dereference the nil public key that exported module accounts and receive-only accounts carry.",
		NotDecided:  "equality of the resulting state in value; state outside the property's list (missed-block bitmaps are exported empty, the waiting-to-unstake set is not exported) is reported below as uncovered, not as a violation.",
		MinObl:      16,
		Run:         runC43,
	})
}

type genModule struct {
	name, export, init, typePkg string
	required                     []string
}

var genModules = []genModule{
	{"auth", "x/auth.ExportGenesis", "x/auth.InitGenesis", "x/auth/types", []string{"Params", "Accounts", "Supply"}},
	{"nodes", "x/nodes.ExportGenesis", "x/nodes.InitGenesis", "x/nodes/types", []string{"Params", "Validators", "PrevStateTotalPower", "PrevStateValidatorPowers", "SigningInfos", "PreviousProposer", "Exported"}},
	{"apps", "x/apps.ExportGenesis", "x/apps.InitGenesis", "x/apps/types", []string{"Params", "Applications"}},
	{"pocketcore", "x/pocketcore.ExportGenesis", "x/pocketcore.InitGenesis", "x/pocketcore/types", []string{"Params", "Claims"}},
	{"gov", "(x/gov/keeper.Keeper).ExportGenesis", "(x/gov/keeper.Keeper).InitGenesis", "x/gov/types", []string{"Params", "DAOTokens"}},
}

func isGenesisState(t types.Type, pkg string) bool {
	n := namedOf(t)
	return n != nil && n.Obj().Name() == "GenesisState" && n.Obj().Pkg() != nil && n.Obj().Pkg().Path() == repoMod+"/"+pkg
}

// genesisCoverage: fields populated by the exporter (directly or in the
// NewGenesisState constructor it calls) and fields read by the importer.
func (c *Ctx) genesisCoverage(P string, m genModule) Obligation {
	o := c.obl(P, "coverage.export-import-fields", m.name, "every GenesisState field of "+m.name+" that backs listed state ("+strings.Join(m.required, ", ")+") is populated by "+m.export+" and consumed by "+m.init)
	ex, in := c.A.Fn(m.export), c.A.Fn(m.init)
	if ex == nil || in == nil {
		o.unresolved("export/import function not found")
		return *o
	}
	o.Pos = c.A.FnPos(ex)
	written, read := map[string]bool{}, map[string]bool{}
	var scanW func(f *ssa.Function, depth int)
	scanW = func(f *ssa.Function, depth int) {
		if f == nil || f.Blocks == nil || depth > 2 {
			return
		}
		for _, b := range f.Blocks {
			for _, ins := range b.Instrs {
				o.Facts++
				switch x := ins.(type) {
				case *ssa.Store:
					if fa, ok := x.Addr.(*ssa.FieldAddr); ok && isGenesisState(fa.X.Type(), m.typePkg) {
						written[fieldName(fa.X.Type(), fa.Field)] = true
					}
				case *ssa.Call:
					if cal := x.Call.StaticCallee(); cal != nil && fnInRepo(cal) && strings.Contains(cal.Name(), "GenesisState") {
						scanW(cal, depth+1)
					}
				}
			}
		}
	}
	scanW(ex, 0)
	for _, b := range in.Blocks {
		for _, ins := range b.Instrs {
			o.Facts++
			switch x := ins.(type) {
			case *ssa.FieldAddr:
				if isGenesisState(x.X.Type(), m.typePkg) {
					read[fieldName(x.X.Type(), x.Field)] = true
				}
			case *ssa.Field:
				if isGenesisState(x.X.Type(), m.typePkg) {
					read[fieldName(x.X.Type(), x.Field)] = true
				}
			}
		}
	}
	for _, f := range m.required {
		if !written[f] {
			o.fail("", "field %s is not populated by %s", f, m.export)
		}
		if !read[f] {
			o.fail("", "field %s is not consumed by %s", f, m.init)
		}
	}
	// report, do not judge, the rest
	var all []string
	for _, p := range c.A.Pkgs {
		if p.PkgPath != repoMod+"/"+m.typePkg {
			continue
		}
		if tn, ok := p.Types.Scope().Lookup("GenesisState").(*types.TypeName); ok {
			if st, ok := tn.Type().Underlying().(*types.Struct); ok {
				for i := 0; i < st.NumFields(); i++ {
					all = append(all, st.Field(i).Name())
				}
			}
		}
	}
	if len(all) == 0 {
		o.unresolved("GenesisState type of %s not found", m.typePkg)
		return *o
	}
	var unc []string
	for _, f := range all {
		if !(written[f] && read[f]) && !isIn(f, m.required...) {
			unc = append(unc, f)
		}
	}
	sort.Strings(unc)
	if len(unc) > 0 && o.st == OK {
		o.Detail = "fields outside the property's list not round-tripped: " + strings.Join(unc, ", ")
	}
	return *o
}

// nilGuardedReceiver: in fn, every interface method call whose receiver renders
// as recvRe is dominated by the true edge of a nil test of that receiver.
func (c *Ctx) nilGuardedReceiver(P, rule, fnName, recvRe, why string) Obligation {
	o := c.obl(P, rule, fnName, "in "+fnName+" every method call on "+recvRe+" happens only where that value was tested non-nil — "+why)
	fn := c.A.Fn(fnName)
	if fn == nil {
		o.unresolved("not found")
		return *o
	}
	o.Pos = c.A.FnPos(fn)
	re := c.E1.re(recvRe)
	for _, b := range fn.Blocks {
		for _, ins := range b.Instrs {
			call, ok := ins.(*ssa.Call)
			if !ok || !call.Call.IsInvoke() {
				continue
			}
			rd := desc(call.Call.Value, maxDepth)
			if !re.MatchString(rd) {
				continue
			}
			o.Facts++
			guarded := false
			for _, f := range guardFacts(b) {
				at := condAtom(f.cond)
				if at.Str == "nonnil("+rd+")" && f.truth != at.Neg {
					guarded = true
				}
			}
			if !guarded {
				o.fail(c.A.Pos(call.Pos()), "%s is called on %s without a preceding nil test: an exported module account (or any account that only received funds) has a nil public key, so importing an exported genesis panics here", call.Call.Method.Name(), rd)
			}
		}
	}
	return *o
}

func runC43(c *Ctx) []Obligation {
	P := "C43"
	var out []Obligation
	for _, m := range genModules {
		out = append(out, c.genesisCoverage(P, m))
	}
	nodesPool := `invoke x/auth/exported\.ModuleAccountI\.GetCoins\(\(x/nodes/keeper\.Keeper\)\.GetStakedPool\(keeper, invoke types\.Ctx\.WithBlockHeight\(ctx, 0\)\)\)`
	appsPool := `invoke x/auth/exported\.ModuleAccountI\.GetCoins\(\(x/apps/keeper\.Keeper\)\.GetStakedPool\(keeper, invoke types\.Ctx\.WithBlockHeight\(ctx, 0\)\)\)`
	adds := `SetSupply\(|Inflate\(|MintCoins\(|SetCoins\(`
	out = append(out, c.Rows([]Row{
		{Prop: P, ID: "app.export-at-requested-height", Fn: "(*app.PocketCoreApp).ExportAppState",
			Target: CallTo(`ExportGenesis\(`).Except(`^\(\*types/module\.Manager\)\.ExportGenesis\(app\.mm, \(\*app\.PocketCoreApp\)\.NewContext\(app, height\)#0\)$`), Why: "the export reads every module through a context of the requested height"},
		{Prop: P, ID: "app.export-context-error-fails", Fn: "(*app.PocketCoreApp).ExportAppState", Assume: []Lit{T(`^nonnil\(\(\*app\.PocketCoreApp\)\.NewContext\(app, height\)#1\)$`)}, Target: Success(), Why: "no export without a context for that height"},
		{Prop: P, ID: "manager.export-every-module", Fn: "(*types/module.Manager).ExportGenesis",
			Target: CallTo(`^invoke types/module\.AppModule\.ExportGenesis\(`).Except(`^invoke types/module\.AppModule\.ExportGenesis\(m\.Modules\[m\.OrderExportGenesis\[\(phi:rangeindex \+ 1\)\]\], ctx\)$`), Why: "each module in the export order is exported"},
		{Prop: P, ID: "manager.export-under-own-name", Fn: "(*types/module.Manager).ExportGenesis",
			Target: StoreTo(`^makemap\[`).Except(`^makemap\[m\.OrderExportGenesis\[\(phi:rangeindex \+ 1\)\]\]$`), Why: "a module's export is filed under that module's name"},
		{Prop: P, ID: "manager.init-own-section", Fn: "(*types/module.Manager).InitGenesis",
			Target: CallTo(`^invoke types/module\.AppModule\.InitGenesis\(`).Except(`^invoke types/module\.AppModule\.InitGenesis\(m\.Modules\[m\.OrderInitGenesis\[\(phi:rangeindex \+ 1\)\]\], ctx, (nil|genesisData\[m\.OrderInitGenesis\[\(phi:rangeindex \+ 1\)\]\])\)$`), Why: "each module is initialised from the section filed under its own name"},
		{Prop: P, ID: "manager.invalid-section-aborts", Fn: "(*types/module.Manager).InitGenesis", Assume: []Lit{T(`^nonnil\(invoke types/module\.AppModule\.ValidateGenesis\(`)},
			Target: CallTo(`^invoke types/module\.AppModule\.InitGenesis\(m\.Modules\[.*\], ctx, genesisData\[`), TargetMustExist: true, Why: "a section that fails validation is never imported"},
		// (2) no double counting when the genesis already carries the balance
		{Prop: P, ID: "nodes.no-supply-added-when-pool-provided", Fn: "x/nodes.InitGenesis", Assume: []Lit{F(`^\(types\.Coins\)\.IsZero\(` + nodesPool + `\)$`)},
			Target: CallTo(adds), Why: "a staked pool balance that came with the imported accounts is already part of the imported supply"},
		{Prop: P, ID: "apps.no-supply-added-when-pool-provided", Fn: "x/apps.InitGenesis", Assume: []Lit{F(`^\(types\.Coins\)\.IsZero\(` + appsPool + `\)$`)},
			Target: CallTo(adds), Why: "an application pool balance that came with the imported accounts is already part of the imported supply"},
		{Prop: P, ID: "gov.no-mint-when-dao-provided", Fn: "(x/gov/keeper.Keeper).InitGenesis", Assume: []Lit{F(`^\(types\.Coins\)\.IsZero\(invoke x/auth/exported\.ModuleAccountI\.GetCoins\(\(x/gov/keeper\.Keeper\)\.GetDAOAccount\(k, ctx\)\)\)$`)},
			Target: CallTo(`MintCoins\(|SetCoins\(|SetSupply\(`), Why: "a DAO balance that came with the imported accounts is not minted a second time"},
		{Prop: P, ID: "nodes.pool-created-is-added-to-supply", Fn: "x/nodes.InitGenesis", Assume: []Lit{T(`^\(types\.Coins\)\.IsZero\(` + nodesPool + `\)$`), F(`^nonnil\(invoke x/auth/exported\.ModuleAccountI\.SetCoins\(`)},
			Barrier: []string{`^invoke x/nodes/types\.AuthKeeper\.SetSupply\(`}, Target: Success(), Why: "pool coins created by the import itself are added to the supply (the original-genesis path)"},
		{Prop: P, ID: "apps.pool-created-is-added-to-supply", Fn: "x/apps.InitGenesis", Assume: []Lit{T(`^\(types\.Coins\)\.IsZero\(` + appsPool + `\)$`), F(`^nonnil\(invoke x/auth/exported\.ModuleAccountI\.SetCoins\(`)},
			Barrier: []string{`^invoke x/apps/types\.AuthKeeper\.SetSupply\(`}, Target: Success(), Why: "pool coins created by the import itself are added to the supply (the original-genesis path)"},
		{Prop: P, ID: "gov.dao-minted-when-absent", Fn: "(x/gov/keeper.Keeper).InitGenesis", Assume: []Lit{T(`^\(types\.Coins\)\.IsZero\(invoke x/auth/exported\.ModuleAccountI\.GetCoins\(\(x/gov/keeper\.Keeper\)\.GetDAOAccount\(k, ctx\)\)\)$`), F(`^nonnil\(\(x/gov/types\.ACL\)\.Validate\(`), T(`^nonnil\(\(x/gov/keeper\.Keeper\)\.GetDAOAccount\(k, ctx\)\)$`)},
			Barrier: []string{`^invoke x/gov/types\.AuthKeeper\.MintCoins\(k\.AuthKeeper, ctx, "dao", types\.NewCoins\(\[types\.NewCoin\("upokt", data\.DAOTokens\)\]\)\)`}, Target: TargetAnyReturn(), Why: "DAO tokens named in the genesis are minted when the DAO account came without them (the original-genesis path)"},
		// pocketcore
		{Prop: P, ID: "pocketcore.claims-imported", Fn: "x/pocketcore.InitGenesis", Barrier: []string{`^\(x/pocketcore/keeper\.Keeper\)\.SetClaims\(keeper, ctx, data\.Claims\)`}, Target: TargetAnyReturn(), Why: "pending claims are stored"},
		{Prop: P, ID: "pocketcore.claims-exported", Fn: "x/pocketcore.ExportGenesis",
			Target: StoreTo(`^var:complit\.Claims$`).ExceptVal(`^\(x/pocketcore/keeper\.Keeper\)\.GetAllClaims\(k, ctx\)$`), Why: "all pending claims are exported"},
		{Prop: P, ID: "auth.exports-total-supply", Fn: "x/auth.ExportGenesis",
			Target: CallTo(`NewGenesisState\(`).Except(`^x/auth/types\.NewGenesisState\(\(x/auth/keeper\.Keeper\)\.GetParams\(k, ctx\), \(x/auth/keeper\.Keeper\)\.GetAllAccountsExport\(k, ctx\), invoke x/auth/exported\.SupplyI\.GetTotal\(\(x/auth/keeper\.Keeper\)\.GetSupply\(k, ctx\)\)\)$`), Why: "the export carries the params, every account and the total supply"},
		{Prop: P, ID: "auth.imports-given-supply", Fn: "x/auth.InitGenesis", Assume: []Lit{F(`^\(types\.Coins\)\.Empty\(`)},
			Target: CallTo(`^\(x/auth/keeper\.Keeper\)\.SetSupply\(`).Except(`^\(x/auth/keeper\.Keeper\)\.SetSupply\(k, ctx, x/auth/types\.NewSupply\((var:)?data\.Supply\)\)$`), Why: "a supply given by the genesis is stored as given"},
		{Prop: P, ID: "nodes.exports-all-validators", Fn: "x/nodes.ExportGenesis",
			Target: StoreTo(`^var:complit\.Validators$`).ExceptVal(`^\(x/nodes/keeper\.Keeper\)\.GetAllValidators\(keeper, ctx\)$`), Why: "every node record is exported"},
		{Prop: P, ID: "apps.exports-all-applications", Fn: "x/apps.ExportGenesis",
			Target: StoreTo(`^var:complit\.Applications$`).ExceptVal(`^\(x/apps/keeper\.Keeper\)\.GetAllApplications\(keeper, ctx\)$`), Why: "every application record is exported"},
		{Prop: P, ID: "gov.exports-dao-balance", Fn: "(x/gov/keeper.Keeper).ExportGenesis",
			Target: CallTo(`NewGenesisState\(`).Except(`^x/gov/types\.NewGenesisState\(\(x/gov/keeper\.Keeper\)\.GetParams\(k, ctx\), \(x/gov/keeper\.Keeper\)\.GetDAOTokens\(k, ctx\)\)$`), Why: "the DAO balance is exported"},
	})...)
	// (3) the importer stores and counts every record it does not reject
	val := `var:data\.Validators\[\(phi:rangeindex \+ 1\)\]`
	out = append(out,
		c.edgeMust(P, "nodes.every-admitted-node-is-counted", "x/nodes.InitGenesis", `^\(x/nodes/types\.Validator\)\.IsUnstaked\(`+val+`\)$`, false,
			`^\(types\.BigInt\)\.Add\(phi:stakedTokens, \(x/nodes/types\.Validator\)\.GetTokens\(`+val+`\)\)`, 1,
			"the pool holds the tokens of staked and unstaking nodes alike: the expected pool balance must include every node record that is imported"),
		c.edgeMust(P, "nodes.every-admitted-node-is-stored", "x/nodes.InitGenesis", `^\(x/nodes/types\.Validator\)\.IsUnstaked\(`+val+`\)$`, false,
			`^\(x/nodes/keeper\.Keeper\)\.SetValidator\(keeper, invoke types\.Ctx\.WithBlockHeight\(ctx, 0\), `+val+`\)`, 1, "every node record that is not rejected is stored"),
		c.edgeMust(P, "apps.every-admitted-app-is-counted", "x/apps.InitGenesis", `^\(x/apps/types\.Application\)\.IsUnstaked\(var:application\)$`, false,
			`^\(types\.BigInt\)\.Add\(phi:stakedTokens, \(x/apps/types\.Application\)\.GetTokens\(var:application\)\)`, 1,
			"the pool holds the tokens of staked and unstaking applications alike"),
		c.edgeMust(P, "apps.every-admitted-app-is-stored", "x/apps.InitGenesis", `^\(x/apps/types\.Application\)\.IsUnstaked\(var:application\)$`, false,
			`^\(x/apps/keeper\.Keeper\)\.SetApplication\(keeper, invoke types\.Ctx\.WithBlockHeight\(ctx, 0\), var:application\)`, 1,
			"an unstaking application that was exported is imported (its tokens are still in the pool)"),
		c.nilGuardedReceiver(P, "auth.validate-tolerates-nil-pubkey", "x/auth/types.ValidateGenesis", `^invoke x/auth/exported\.Account\.GetPubKey\(`, "exported accounts may carry no public key"),
	)
	out = append(out, c.decodeTargetsFresh(P)...)
	out = append(out, genesisParamsInstalled(c, P)...)
	out = append(out, nodesGenesisImport(c, P)...)
	return out
}
