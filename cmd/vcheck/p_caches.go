package main

import (
	"go/types"
	"sort"
	"strings"

	"golang.org/x/tools/go/ssa"
)

// C13: consensus is independent of off-chain activity and node-local caches.

// cacheInventory: every package-level variable or struct field that holds a
// node-local cache, with how it is kept from influencing consensus.
var cacheGlobals = map[string]string{
	"types.VbCCache":                         "keyed by (ctx.BlockHeight(), chain); sound as long as every context's header height is the version of its store (prev-ctx rule)",
	"types.GlobalCtxCache":                   "height → PrevCtx(height) contexts, a function of the key",
	"x/pocketcore/types.GlobalSessionCache":  "session cache shared by dispatch and claim validation; must be cleared when a session determinant changes",
	"x/pocketcore/types.GlobalEvidenceCache": "off-chain relay evidence (never read by block execution)",
}

var cacheFields = map[string]string{
	"x/apps/keeper.Keeper.ApplicationCache":       "accessed only through *WithCtx (bypassed by previous-height contexts)",
	"x/nodes/keeper.Keeper.validatorCache":        "write-only: accessed only through Add/RemoveWithCtx",
	"types.Context.cachedStore":                   "the GlobalCtxCache handle",
	"types.Request.cachedStore":                   "the GlobalCtxCache handle (Request is the legacy name of Context)",
	"x/pocketcore/types.CacheStorage.Cache":       "LRU front of the evidence/session stores",
	"x/pocketcore/types.PocketNode.SessionStore":  "per-servicer session store (off-chain relay path)",
	"x/pocketcore/types.PocketNode.EvidenceStore": "per-servicer evidence store (off-chain relay path)",
}

func isCacheType(t types.Type) bool {
	n := namedOf(t)
	if n == nil || n.Obj().Pkg() == nil {
		return false
	}
	p, name := n.Obj().Pkg().Path(), n.Obj().Name()
	return (p == repoMod+"/types" && name == "Cache") || (p == repoMod+"/x/pocketcore/types" && name == "CacheStorage")
}

func init() {
	register(&Prop{
		ID: "C13", Title: "Consensus is independent of off-chain activity and node-local caches",
		Technique: "type-based cache inventory, accessor discipline (who-may-call / method whitelist), forward provenance of lazily loaded contexts to SetPrevCtx(true), must-pass-through of session-cache clearing, pruned-CFG rows on the query context",
		DesignRef: "DESIGN.md §3 C13",
		Explanation: "(1) every node-local cache (by type) is in the inventory; (2) the application and validator caches are touched only through the *WithCtx accessors, which bypass previous-height contexts; (3) every context built over a lazily loaded store (LoadLazyVersion / CacheMultiStoreWithVersion) is marked SetPrevCtx(true) before use; (3b) in handleQueryCustom a height other than the latest gets a PrevCtx (header of that height), and PrevCtx loads store and block meta with the same height; (4) every function on the consensus path that deletes a node record or changes its jailed flag / chains clears the session cache; (5) the context cache is filled only by PrevCtx with key = that height; the validators-by-chain cache is used only in GetValidatorsByChain with key (ctx.BlockHeight(), chain).",
		NotDecided:  "LRU eviction and goroutine races on the caches themselves; ctx height 0 in PocketCoreApp.NewContext (value-dependent).",
		MinObl:      16,
		Run:         runC13,
	})
}

func runC13(c *Ctx) []Obligation {
	P := "C13"
	var out []Obligation
	out = append(out, c.cacheInventory(P)...)
	out = append(out, c.keyInjective(P, "vbc.cache-key-injective", "types.GetCacheKey", "the validators-by-chain cache must not answer for another (height, chain)"))
	out = append(out, c.withCtxDiscipline(P, "ApplicationCache", []string{"GetWithCtx", "AddWithCtx", "RemoveWithCtx"}),
		c.withCtxDiscipline(P, "validatorCache", []string{"AddWithCtx", "RemoveWithCtx", "GetWithCtx"}))
	out = append(out, c.Rows([]Row{
		{Prop: P, ID: "withctx.get-bypasses-prev", Fn: "(*types.Cache).GetWithCtx",
			Assume: []Lit{T(`^invoke types\.Ctx\.IsPrevCtx\(ctx\)$`)}, Target: CallTo(`\.Get\(|LRUCache\.`), Why: "a previous-height context never reads the cache"},
		{Prop: P, ID: "withctx.add-bypasses-prev", Fn: "(*types.Cache).AddWithCtx",
			Assume: []Lit{T(`^invoke types\.Ctx\.IsPrevCtx\(ctx\)$`)}, Target: CallTo(`\.Add\(|LRUCache\.`), Why: "a previous-height context never fills the cache"},
		{Prop: P, ID: "withctx.remove-bypasses-prev", Fn: "(*types.Cache).RemoveWithCtx",
			Assume: []Lit{T(`^invoke types\.Ctx\.IsPrevCtx\(ctx\)$`)}, Target: CallTo(`\.Remove\(|LRUCache\.`), Why: "a previous-height context never evicts from the cache"},
		// every historical context handed out by PrevCtx is marked, on the cache-miss AND the cache-hit path
		{Prop: P, ID: "prevctx.returns-marked", Fn: "(types.Context).PrevCtx", Assume: []Lit{F(`^eq\(\(types\.Context\)\.BlockHeight\(c\), height\)$`)},
			Target: RetNotMatch(0, `^\(types\.Context\)\.SetPrevCtx\(.*, true\)$|^assert<types\.Context>\(\(types\.Context\)\.getFromCache\(c, fmt\.Sprintf\("%d", \[height\]\)\)#0\)$|^zero:types\.Context$`),
			Why: "a context for another height is either freshly built and marked SetPrevCtx(true), or the cached (already marked) one as it is; never a rebuilt, unmarked copy"},
		{Prop: P, ID: "prevctx.cache-holds-marked", Fn: "(types.Context).PrevCtx",
			Target: CallTo(`^\(types\.Context\)\.addToCache\(`).Except(`^\(types\.Context\)\.addToCache\(c, fmt\.Sprintf\("%d", \[height\]\), \(types\.Context\)\.SetPrevCtx\(.*, true\)\)$`),
			Why: "what enters the context cache is the marked context, under the requested height"},
		// query context
		{Prop: P, ID: "queryCustom.historical-gets-prevctx", Fn: fnQueryCustom,
			Assume: []Lit{F(`^eq\(\(types\.Context\)\.BlockHeight\(.*\), (var:)?req\.Height\)$`)},
			Target: CallTo(`^dyn:invoke types\.QueryRouter\.Route\(`).Except(`^dyn:invoke types\.QueryRouter\.Route\([^)]*\)\(\(types\.Context\)\.PrevCtx\(`),
			Why:    "a custom query at a height other than the latest runs on PrevCtx(height): header and store of that height"},
		{Prop: P, ID: "prevctx.same-height-for-store-and-header", Fn: "(types.Context).PrevCtx",
			Target: CallTo(`LoadLazyVersion\(|LoadBlockMeta\(`).Except(`^invoke types\.CommitMultiStore\.LoadLazyVersion\(assert<types\.CommitMultiStore>\(c\.ms\), height\)$|^\(\*github\.com/tendermint/tendermint/store\.BlockStore\)\.LoadBlockMeta\(c\.blockstore, height\)$`),
			Why:    "PrevCtx loads the store version and the block meta of the same height"},
		{Prop: P, ID: "prevctx.cache-key-is-height", Fn: "(types.Context).PrevCtx",
			Target: CallTo(`addToCache\(|getFromCache\(`).Except(`^\(types\.Context\)\.(addToCache|getFromCache)\(c, fmt\.Sprintf\("%d", \[height\]\)`),
			Why:    "the context cache is keyed by the height the entry was built for"},
		{Prop: P, ID: "vbc.key-is-height-and-chain", Fn: "(x/nodes/keeper.Keeper).GetValidatorsByChain",
			Target: CallTo(`^\(\*types\.Cache\)\.(Get|Add)\(types\.VbCCache`).Except(`^\(\*types\.Cache\)\.(Get|Add)\(types\.VbCCache, types\.GetCacheKey\(conv<int>\(invoke types\.Ctx\.BlockHeight\(ctx\)\), networkID\)`),
			Why:    "the validators-by-chain cache is keyed by the context's height and the chain"},
	})...)
	out = append(out, c.lazyContextsMarked(P)...)
	out = append(out,
		c.whoMayCall(P, "ctxcache.writers", "(types.Context).addToCache", []string{`\(types\.Context\)\.PrevCtx`}, "the context cache is filled only by PrevCtx"),
		c.globalUsers(P, "vbc.users", "types.VbCCache", []string{`\(x/nodes/keeper\.Keeper\)\.GetValidatorsByChain`, `types\.init(#\d+)?`, `types\.InitCtxCache`}, "the validators-by-chain cache is touched only by GetValidatorsByChain"),
		c.globalUsers(P, "sessioncache.users", "x/pocketcore/types.GlobalSessionCache",
			[]string{kK + `(ValidateClaim|HandleDispatch|ClearSessionCache)`, `\(x/gov\.AppModule\)\.(BeginBlock|EndBlock)`, `x/pocketcore/types\.(AddPocketNode.*|InitPocketNodeCaches?|CleanPocketNodes|InitConfig|StopEvidenceWorker|FlushSessionCache|.*PocketNode.*)`},
			"the global session cache is read by claim validation and dispatch, and cleared through ClearSessionCache"),
	)
	out = append(out, c.sessionCacheCleared(P)...)
	out = append(out, c.whoMayCall(P, "node-record.deleters", "(x/nodes/keeper.Keeper).DeleteValidator",
		[]string{kN + `(EditStakeValidator|LegacyForceValidatorUnstake|unstakeAllMatureValidators|IncrementJailedValidators|UpdateTendermintValidators)`},
		"node records are deleted only by functions that clear the session cache (edit-stake, forced unstake, matured unstake) or that delete a record already force-unstaked by one of them (jailed-blocks sweep, validator-set update)"))
	// the cached session must be the one any node would compute: same two-state recipe at every call site
	out = append(out, c.sessionContextRoles(P)...)
	return out
}

// cacheInventory: globals and fields of cache type are all classified.
func (c *Ctx) cacheInventory(P string) []Obligation {
	o := c.obl(P, "inventory.globals", "package-level-caches", "every package-level variable of a cache type (*types.Cache, *CacheStorage) is in the classified inventory")
	var names []string
	for path, sp := range c.A.SSAPkgs {
		for _, m := range sp.Members {
			g, ok := m.(*ssa.Global)
			if !ok {
				continue
			}
			t := g.Type()
			if p, ok := t.(*types.Pointer); ok {
				t = p.Elem()
			}
			if !isCacheType(t) {
				continue
			}
			o.Facts++
			n := shortPath(path) + "." + g.Name()
			names = append(names, n)
			if cacheGlobals[n] == "" {
				o.fail(c.A.Pos(g.Pos()), "unclassified node-local cache %s: decide how it is kept from block execution and add it to the inventory", n)
			}
		}
	}
	if len(names) < 4 {
		o.fail("", "only %d cache globals found (%s): inventory anchors are stale", len(names), strings.Join(names, ", "))
	}
	o2 := c.obl(P, "inventory.fields", "struct-fields-holding-caches", "every struct field of a cache type is in the classified inventory")
	for path, p := range c.A.PkgByID {
		if p.Types == nil {
			continue
		}
		sc := p.Types.Scope()
		for _, nm := range sc.Names() {
			tn, ok := sc.Lookup(nm).(*types.TypeName)
			if !ok {
				continue
			}
			st, ok := tn.Type().Underlying().(*types.Struct)
			if !ok {
				continue
			}
			for i := 0; i < st.NumFields(); i++ {
				f := st.Field(i)
				if !isCacheType(f.Type()) {
					continue
				}
				o2.Facts++
				n := shortPath(path) + "." + tn.Name() + "." + f.Name()
				if cacheFields[n] == "" {
					o2.fail(c.A.Pos(f.Pos()), "unclassified cache field %s", n)
				}
			}
		}
	}
	if o2.Facts < 4 {
		o2.fail("", "only %d cache fields found: inventory anchors are stale", o2.Facts)
	}
	return []Obligation{*o, *o2}
}

// withCtxDiscipline: calls whose receiver is <something>.<field> use only the allowed methods.
func (c *Ctx) withCtxDiscipline(P, field string, methods []string) Obligation {
	o := c.obl(P, "withctx-only."+field, field, "every access to "+field+" goes through "+strings.Join(methods, "/")+" (which bypass previous-height contexts)")
	ok := map[string]bool{}
	for _, m := range methods {
		ok[m] = true
	}
	n := 0
	for fn := range c.A.AllFns {
		if fn.Blocks == nil {
			continue
		}
		for _, b := range fn.Blocks {
			for _, ins := range b.Instrs {
				call, isCall := ins.(ssa.CallInstruction)
				if !isCall {
					continue
				}
				cc := call.Common()
				f := cc.StaticCallee()
				if f == nil || f.Signature.Recv() == nil || len(cc.Args) == 0 {
					continue
				}
				if !strings.HasSuffix(desc(cc.Args[0], 4), "."+field) {
					continue
				}
				n++
				if !ok[f.Name()] {
					o.fail(c.A.Pos(ins.Pos()), "%s calls %s on %s", FnName(fn), f.Name(), field)
				}
			}
		}
	}
	o.Facts = n
	if n == 0 {
		o.fail("", "no access to %s found: anchor is stale", field)
		o.set(Unresolved)
	}
	return *o
}

// lazyContextsMarked: every types.NewContext over a lazily loaded store reaches
// its first non-builder use only through SetPrevCtx(true).
func (c *Ctx) lazyContextsMarked(P string) []Obligation {
	var out []Obligation
	nLazy := 0
	var fns []*ssa.Function
	for fn := range c.A.AllFns {
		if fn.Blocks != nil {
			fns = append(fns, fn)
		}
	}
	sort.Slice(fns, func(i, j int) bool { return FnName(fns[i]) < FnName(fns[j]) })
	for _, fn := range fns {
		for _, s := range c.callSites(fn, `^types\.NewContext\(`) {
			storeDesc := argDesc(s.Call, 0)
			if !strings.Contains(storeDesc, "LoadLazyVersion(") && !strings.Contains(storeDesc, "CacheMultiStoreWithVersion(") {
				continue
			}
			nLazy++
			o := c.obl(P, "lazy-context-marked-prev", FnName(fn), "a context built over a lazily loaded (historical) store is marked SetPrevCtx(true) before it is used")
			o.Pos = c.A.Pos(s.Ins.Pos())
			call := s.Ins.(*ssa.Call)
			// follow the builder chain forward
			var terminals []ssa.Value
			seen := map[ssa.Value]bool{}
			var walk func(v ssa.Value, marked bool)
			walk = func(v ssa.Value, marked bool) {
				if seen[v] {
					return
				}
				seen[v] = true
				refs := v.Referrers()
				if refs == nil {
					return
				}
				for _, r := range *refs {
					o.Facts++
					switch u := r.(type) {
					case *ssa.DebugRef:
					case *ssa.Call:
						f := u.Call.StaticCallee()
						isRecv := len(u.Call.Args) > 0 && u.Call.Args[0] == v
						if f != nil && isRecv && isCtxBuilderName(f.Name()) {
							m := marked
							if f.Name() == "SetPrevCtx" && len(u.Call.Args) > 1 && desc(u.Call.Args[1], 2) == "true" {
								m = true
							}
							walk(u, m)
							continue
						}
						if !marked {
							terminals = append(terminals, u)
						}
					case *ssa.MakeInterface:
						walk(u, marked)
					case *ssa.ChangeInterface:
						walk(u, marked)
					case *ssa.Store:
						if a, ok := u.Addr.(*ssa.Alloc); ok && a.Referrers() != nil {
							for _, rr := range *a.Referrers() {
								if ld, ok := rr.(*ssa.UnOp); ok {
									walk(ld, marked)
								}
							}
							continue
						}
						if !marked {
							terminals = append(terminals, u.Val)
						}
					case *ssa.Phi:
						walk(u, marked)
					case *ssa.Return:
						if !marked {
							terminals = append(terminals, v)
						}
					default:
						if val, ok := r.(ssa.Value); ok && !marked {
							terminals = append(terminals, val)
						}
					}
				}
			}
			walk(call, false)
			if len(terminals) > 0 {
				o.fail(c.A.Pos(s.Ins.Pos()), "context over %s is used (%s) without SetPrevCtx(true): the *WithCtx cache accessors will treat it as the live state", shortCall(storeDesc), desc(terminals[0], 3))
			}
			out = append(out, *o)
		}
	}
	if nLazy < 2 {
		o := c.obl(P, "lazy-context-marked-prev", "NewContext-sites", "contexts over lazily loaded stores exist (PrevCtx, handleQueryCustom)")
		o.fail("", "only %d such NewContext sites found: anchors are stale", nLazy)
		o.set(Unresolved)
		out = append(out, *o)
	}
	return out
}

// globalUsers: the functions that mention package-level variable name are within allowed.
func (c *Ctx) globalUsers(P, rule, name string, allowed []string, why string) Obligation {
	o := c.obl(P, rule, name, "users of "+name+" ⊆ {"+strings.Join(allowed, ", ")+"} — "+why)
	i := strings.LastIndex(name, ".")
	sp := c.A.SSAPkgs[repoMod+"/"+name[:i]]
	if sp == nil {
		o.unresolved("package not found")
		return *o
	}
	g, ok := sp.Members[name[i+1:]].(*ssa.Global)
	if !ok {
		o.unresolved("global not found")
		return *o
	}
	for fn := range c.A.AllFns {
		if fn.Blocks == nil {
			continue
		}
		uses := false
		for _, b := range fn.Blocks {
			for _, ins := range b.Instrs {
				var ops []*ssa.Value
				for _, op := range ins.Operands(ops) {
					if op != nil && *op == ssa.Value(g) {
						uses = true
					}
				}
			}
		}
		if !uses {
			continue
		}
		o.Facts++
		okc, n := c.allowedFn(fn, allowed)
		if !okc {
			o.fail(c.A.FnPos(fn), "%s uses %s", n, name)
		}
	}
	if o.Facts == 0 {
		o.unresolved("no user of %s found", name)
	}
	return *o
}

// sessionCacheCleared: functions on the consensus path that change a session
// determinant of a stored node/app (record deleted, Jailed or Chains written)
// clear the session cache on every completing path.
func (c *Ctx) sessionCacheCleared(P string) []Obligation {
	clear := `ClearSessionCache\(`
	rows := []Row{
		{Prop: P, ID: "sessioncache.cleared.jail", Fn: fnJail, Barrier: []string{clear}, Target: CallTo(kN + `SetValidator\(`), TargetMustExist: true, Why: "jailing a node (it leaves sessions) clears the session cache before the record changes"},
		{Prop: P, ID: "sessioncache.cleared.unjail", Fn: fnUnjail, Assume: []Lit{T(`"CRVAL"\)$`)}, Barrier: []string{clear}, Target: CallTo(kN + `SetValidator\(`), TargetMustExist: true, Why: "unjailing clears the session cache (feature active)"},
		{Prop: P, ID: "sessioncache.cleared.edit-node", Fn: fnEditStakeVal, Barrier: []string{clear}, Target: Success(), Why: "an edit-stake (chains may change) clears the session cache"},
		{Prop: P, ID: "sessioncache.cleared.edit-app", Fn: fnEditStakeApp, Barrier: []string{clear}, Target: Success(), Why: "an application edit-stake clears the session cache"},
		{Prop: P, ID: "sessioncache.cleared.force", Fn: fnForceUnstake, Barrier: []string{clear}, Target: CallTo(`JailValidator\(|SetWaitingValidator\(`), TargetMustExist: true, Why: "a forced unstake clears the session cache first"},
		{Prop: P, ID: "sessioncache.cleared.mature-unstake", Fn: fnMatureVals, Barrier: []string{clear}, Target: CallTo(kN + `DeleteValidator\(`), TargetMustExist: true, Why: "deleting a matured unstaking node clears the session cache first"},
		{Prop: P, ID: "sessioncache.cleared.legacy-force", Fn: fnLegacyForce, Barrier: []string{clear}, Target: CallTo(`DeleteValidator\(|` + kN + `SetValidator\(|deleteValidator`), TargetMustExist: true, Why: "a legacy forced unstake clears the session cache first"},
	}
	out := c.Rows(rows)
	// writers of the determinants
	out = append(out,
		c.fieldTable(P, "jailed.writers", "x/nodes/types", "Validator", "Jailed", false,
			[]string{kN + `(JailValidator|UnjailValidator)`, `x/nodes/types\.(NewValidator|NewValidatorFromMsg)`, `\(\*?x/nodes/types\.(Validator|LegacyValidator|ProtoValidator|LegacyProtoValidator)\)\.(FromProto|ToProto|ToValidator|ToLegacy|Unmarshal|UnmarshalJSON|XXX_.*|Reset)`, `\(x/nodes/types\.(LegacyValidator|ProtoValidator|LegacyProtoValidator)\)\.(FromProto|ToProto|ToValidator)`, `app\.newDefaultGenesisState`},
			"the jailed flag of a node record is written only by jail/unjail (both clear the session cache), constructors and (de)serialisation"),
		c.fieldTable(P, "chains.writers", "x/nodes/types", "Validator", "Chains", false,
			[]string{kN + `EditStakeValidator`, `x/nodes/types\.(NewValidator|NewValidatorFromMsg)`, `\(\*?x/nodes/types\.(Validator|LegacyValidator|ProtoValidator|LegacyProtoValidator)\)\.(FromProto|ToProto|ToValidator|ToLegacy|Unmarshal|UnmarshalJSON|XXX_.*|Reset)`, `\(x/nodes/types\.(LegacyValidator|ProtoValidator|LegacyProtoValidator)\)\.(FromProto|ToProto|ToValidator)`, `app\.newDefaultGenesisState`},
			"the chains of a node record are written only by edit-stake (which clears the session cache), constructors and (de)serialisation"),
	)
	return out
}
