package main

import (
	"regexp"
	"strings"

	"golang.org/x/tools/go/ssa"
)

// E10: per-branch obligations. "On the edge where <atom> is true/false, <construct>
// happens before control leaves the region": from the edge's successor, every path
// that avoids the construct must end in a panic; reaching a return, or a block that
// dominates the branch (the loop header: the next iteration), is an escape.
//
// Unlike an E1 must-pass-through row this is per loop iteration, so it can state
// "each entry marked deleted is deleted in the parent" for a loop that may run zero times.

// insMatches: a call rendering (head-anchored as in E1) or, with the prefix
// "store:", the rendering "<addr> = <value>" of a store, or "mapset:" "<map>[<key>] = <value>".
func (c *Ctx) insMatches(ins ssa.Instruction, re string) bool { return c.E1.matchIns(ins, re) }

func blockHas(c *Ctx, b *ssa.BasicBlock, re string) bool {
	for _, ins := range b.Instrs {
		if c.insMatches(ins, re) {
			return true
		}
	}
	return false
}

// edgeMust builds one obligation: in fn, on every branch whose atom matches
// condRe, the edge with the given truth value leads to mustRe before escaping.
// minIfs is the number of such branches confirmed by reading.
func (c *Ctx) edgeMust(P, rule, fnName, condRe string, truth bool, mustRe string, minIfs int, why string) Obligation {
	o := c.obl(P, rule, fnName, "in "+fnName+": on each branch where "+condRe+" is "+map[bool]string{true: "true", false: "false"}[truth]+", "+mustRe+" happens before the next iteration or return — "+why)
	fn := c.A.Fn(fnName)
	if fn == nil {
		o.unresolved("not found")
		return *o
	}
	o.Pos = c.A.FnPos(fn)
	cre := c.E1.re(condRe)
	n := 0
	var scan func(fn *ssa.Function, depth int)
	scan = func(fn *ssa.Function, depth int) {
		for _, b := range fn.Blocks {
			if len(b.Instrs) == 0 {
				continue
			}
			// the branch may sit in a function extracted after the rows were written: it is looked for there
			// too, in the caller's terms (the construct owed on the edge is then owed inside that function)
			if depth < throughMax {
				for _, ins := range b.Instrs {
					if callee, args := newCallee(ins); callee != nil {
						// only a function that itself contains the construct owes it on its own edges; a
						// predicate or check whose verdict the caller branches on is judged at that branch
						inFrame(callee, args, func() {
							has := false
							for _, cb := range callee.Blocks {
								if blockHas(c, cb, mustRe) {
									has = true
								}
							}
							if has {
								scan(callee, depth+1)
							}
						})
					}
				}
			}
			iff, ok := b.Instrs[len(b.Instrs)-1].(*ssa.If)
			if !ok {
				continue
			}
			atom := condAtom(iff.Cond)
			var work []*ssa.BasicBlock
			if cre.MatchString(atom.Str) {
				idx := 0 // successor on which the atom is true
				if atom.Neg {
					idx = 1
				}
				if !truth {
					idx = 1 - idx
				}
				work = []*ssa.BasicBlock{b.Succs[idx]}
			} else {
				// the guard may live in a predicate helper: the branch is on helper(args), and the atom is
				// tested inside it. Under the atom's given truth the helper decides the branch (one edge
				// to follow) or does not (both edges are possible continuations and both owe the construct).
				matched := []int{0}
				known, val := c.E1.helperBool(iff.Cond, []Lit{{Re: condRe, Val: truth}}, matched)
				if matched[0] == 0 {
					continue
				}
				switch {
				case known && val:
					work = []*ssa.BasicBlock{b.Succs[0]}
				case known:
					work = []*ssa.BasicBlock{b.Succs[1]}
				default:
					work = []*ssa.BasicBlock{b.Succs[0], b.Succs[1]}
				}
			}
			n++
			seen := map[*ssa.BasicBlock]bool{}
			for len(work) > 0 {
				x := work[len(work)-1]
				work = work[:len(work)-1]
				if seen[x] {
					continue
				}
				seen[x] = true
				o.Facts++
				if x != b && x.Dominates(b) || x == b {
					o.fail(c.A.Pos(iff.Cond.Pos()), "from the branch at %s control returns to block b%d (next iteration) without %s", c.A.Pos(iff.Cond.Pos()), x.Index, mustRe)
					continue
				}
				if blockHas(c, x, mustRe) {
					continue
				}
				if len(x.Instrs) > 0 {
					if r, isRet := x.Instrs[len(x.Instrs)-1].(*ssa.Return); isRet {
						o.fail(c.A.Pos(r.Pos()), "from the branch at %s a return is reached without %s", c.A.Pos(iff.Cond.Pos()), mustRe)
						continue
					}
				}
				work = append(work, x.Succs...)
			}
		}
	}
	scan(fn, 0)
	if n < minIfs {
		// the value is still computed but no branch depends on it any more (go/ssa drops
		// an If whose two successors coincide): its outcome is ignored
		ignored := false
		for _, b := range fn.Blocks {
			for _, ins := range b.Instrs {
				if v, ok := ins.(ssa.Value); ok && cre.MatchString(desc(v, maxDepth)) {
					if _, isIf := ins.(*ssa.If); !isIf {
						ignored = true
						o.fail(c.A.Pos(ins.Pos()), "%s is computed but only %d branch(es) depend on it (expected %d): its outcome is ignored, so %s is not enforced", desc(v, 6), n, minIfs, mustRe)
					}
				}
				if ignored {
					break
				}
			}
			if ignored {
				break
			}
		}
		if !ignored {
			// as for an E1 row whose assumed atom no branch tests: the guard the construct hangs on is
			// absent, changed or inverted — the tree no longer does what the row says on that edge
			o.fail(o.Pos, "%d branch(es) on /%s/ found in %s, %d confirmed by reading: the test this obligation hangs on is gone or has been changed, so %s is no longer owed on any edge", n, condRe, fnName, minIfs, mustRe)
		}
	}
	return *o
}

// mapWriters: one obligation — map updates (m[k] = v) and deletes whose map
// renders as mapRe occur, within package pkg, only in the allowed functions.
func (c *Ctx) mapWriters(P, rule, pkg, mapRe string, allowed []string, why string) Obligation {
	o := c.obl(P, rule, pkg+":"+mapRe, "updates of and deletes from maps rendering as /"+mapRe+"/ in "+pkg+" occur only in {"+strings.Join(allowed, ", ")+"} — "+why)
	re := c.E1.re(mapRe)
	var quoted []string
	for _, a := range allowed {
		quoted = append(quoted, regexp.QuoteMeta(a))
	}
	var curFn *ssa.Function
	ok := func(string) bool {
		r, _ := c.allowedFn(curFn, quoted)
		return r
	}
	for fn := range c.A.AllFns {
		if fn.Blocks == nil || fnPkgPath(fn) != repoMod+"/"+pkg {
			continue
		}
		name := FnName(fn)
		curFn = fn
		for _, b := range fn.Blocks {
			for _, ins := range b.Instrs {
				switch x := ins.(type) {
				case *ssa.MapUpdate:
					if re.MatchString(desc(x.Map, maxDepth)) {
						o.Facts++
						if !ok(name) {
							o.fail(c.A.Pos(x.Pos()), "%s updates %s", name, desc(x.Map, maxDepth))
						}
					}
				case *ssa.Call:
					if bi, isB := x.Call.Value.(*ssa.Builtin); isB && bi.Name() == "delete" && re.MatchString(desc(x.Call.Args[0], maxDepth)) {
						o.Facts++
						if !ok(name) {
							o.fail(c.A.Pos(x.Pos()), "%s deletes from %s", name, desc(x.Call.Args[0], maxDepth))
						}
					}
				}
			}
		}
	}
	if o.Facts == 0 {
		o.unresolved("no update of a map matching /%s/ found in %s", mapRe, pkg)
	}
	return *o
}

// callersInPkg: one obligation — calls whose rendering matches callRe occur, within
// package pkg, only in the allowed functions.
func (c *Ctx) callsOnlyIn(P, rule, pkg, callRe string, allowed []string, min int, why string) Obligation {
	o := c.obl(P, rule, pkg+":"+callRe, "calls matching /"+callRe+"/ in "+pkg+" occur only in {"+strings.Join(allowed, ", ")+"} — "+why)
	for fn := range c.A.AllFns {
		if fn.Blocks == nil || fnPkgPath(fn) != repoMod+"/"+pkg {
			continue
		}
		name := FnName(fn)
		for _, s := range c.callSites(fn, callRe) {
			o.Facts++
			var quoted []string
			for _, a := range allowed {
				quoted = append(quoted, regexp.QuoteMeta(a))
			}
			found, _ := c.allowedFn(fn, quoted)
			if !found {
				o.fail(c.A.Pos(s.Ins.Pos()), "%s calls %s", name, s.Desc)
			}
		}
	}
	if o.Facts < min {
		o.unresolved("%d call sites matching /%s/ found in %s, expected at least %d", o.Facts, callRe, pkg, min)
	}
	return *o
}

// loopsExitOnlyAtHeader: one obligation — in fn every loop is left only through its header (the test that
// the iteration is exhausted) or by a panic: no break and no return from inside a body. A sweep that must
// visit every entry of a queue cannot stop at the first one it dislikes.
func (c *Ctx) loopsExitOnlyAtHeader(P, rule, fnName, why string) Obligation {
	o := c.obl(P, rule, fnName, "every loop of "+fnName+" runs to the end of what it ranges over: no break or return from inside a body — "+why)
	fn := c.A.Fn(fnName)
	if fn == nil {
		o.unresolved("not found")
		return *o
	}
	o.Pos = c.A.FnPos(fn)
	loops := naturalLoops(fn)
	if len(loops) == 0 {
		o.unresolved("%s has no loop any more: anchor does not resolve", fnName)
		return *o
	}
	for _, li := range loops {
		for b := range li.Blocks {
			o.Facts++
			if b == li.Header {
				continue
			}
			if r, isRet := b.Instrs[len(b.Instrs)-1].(*ssa.Return); isRet {
				if !c.E1.returnIsSuccess(r, nil) {
					continue
				}
				o.fail(c.A.Pos(b.Instrs[len(b.Instrs)-1].Pos()), "a return inside the loop headed at block b%d ends the sweep early", li.Header.Index)
				continue
			}
			for _, s := range b.Succs {
				if li.Blocks[s] {
					continue
				}
				// leaving the loop from a body block: allowed only into a block that panics, or onto a path
				// that can only end in a failure return (the whole call fails; nothing is silently skipped)
				if len(s.Instrs) > 0 {
					if _, isPanic := s.Instrs[len(s.Instrs)-1].(*ssa.Panic); isPanic {
						continue
					}
				}
				if c.onlyFailureReturnsFrom(s, li) {
					continue
				}
				pos := c.A.Pos(b.Instrs[len(b.Instrs)-1].Pos())
				if pos == "-" {
					pos = o.Pos
				}
				o.fail(pos, "block b%d inside the loop headed at b%d jumps out of it (a break): the remaining entries are not visited in this block", b.Index, li.Header.Index)
			}
		}
	}
	return *o
}

// onlyFailureReturnsFrom: every return reachable from b without re-entering the loop is a failure return
// (and there is at least one).
func (c *Ctx) onlyFailureReturnsFrom(b *ssa.BasicBlock, li *loopInfo) bool {
	seen := map[*ssa.BasicBlock]bool{}
	work := []*ssa.BasicBlock{b}
	n := 0
	for len(work) > 0 {
		x := work[len(work)-1]
		work = work[:len(work)-1]
		if seen[x] || li.Blocks[x] {
			continue
		}
		seen[x] = true
		if len(x.Instrs) == 0 {
			continue
		}
		switch t := x.Instrs[len(x.Instrs)-1].(type) {
		case *ssa.Return:
			n++
			if len(t.Results) == 0 || c.E1.returnIsSuccess(t, nil) {
				return false
			}
		case *ssa.Panic:
		default:
			work = append(work, x.Succs...)
		}
	}
	return n > 0
}
