package main

import (
	"sort"
	"strings"

	"golang.org/x/tools/go/ssa"
)

// C11, node-local channel: CheckTx / Query / simulate must not write any field
// of BaseApp (including the contents of maps held in a field) that the block
// life-cycle reads. Such a field is not consensus state, but it is a channel
// through which a mempool check changes what DeliverTx does on this node only.

// baseappSharedFieldTable: fields written on a non-consensus path and read on
// the consensus path, with the reason it is harmless. Confirmed by reading.
var baseappSharedFieldTable = map[string]string{
	// checkState is replaced by Commit/InitChain/setCheckState; CheckTx only writes *through* it
	// into its own cache multistore. Listed here only if the analysis sees a field store.
}

type fieldTouch struct {
	fn  *ssa.Function
	pos ssa.Instruction
}

func baseAppFieldOf(v ssa.Value) (string, bool) {
	fa, ok := v.(*ssa.FieldAddr)
	if !ok {
		return "", false
	}
	n := namedOf(fa.X.Type())
	if n == nil || n.Obj().Name() != "BaseApp" || n.Obj().Pkg() == nil || n.Obj().Pkg().Path() != repoMod+"/baseapp" {
		return "", false
	}
	return fieldName(fa.X.Type(), fa.Field), true
}

// loadedBaseAppField: v is the value loaded from a BaseApp field (a map or pointer held there).
func loadedBaseAppField(v ssa.Value) (string, bool) {
	u, ok := stripConv(v).(*ssa.UnOp)
	if !ok {
		return "", false
	}
	return baseAppFieldOf(u.X)
}

func (c *Ctx) baseappFieldIsolation(P string) []Obligation {
	nonConsensus := []string{"(*baseapp.BaseApp).CheckTx", "(*baseapp.BaseApp).Query", "baseapp.handleQueryApp", "baseapp.handleQueryStore", "baseapp.handleQueryP2P", "baseapp.handleQueryCustom", "(*baseapp.BaseApp).Simulate"}
	consensus := []string{"(*baseapp.BaseApp).DeliverTx", "(*baseapp.BaseApp).BeginBlock", "(*baseapp.BaseApp).EndBlock", "(*baseapp.BaseApp).Commit"}
	o := c.obl(P, "baseapp.no-node-local-channel", "baseapp.BaseApp", "no BaseApp field (or map held in one) is written from CheckTx/Query/simulate in a function the deliver path does not share, and read from DeliverTx/BeginBlock/EndBlock/Commit")
	roots := func(names []string, must int) []*ssa.Function {
		var rs []*ssa.Function
		for _, n := range names {
			if f := c.A.FnOpt(n); f != nil {
				rs = append(rs, f)
			}
		}
		if len(rs) < must {
			o.unresolved("only %d of the entry points %v resolve", len(rs), names)
		}
		return rs
	}
	ncR, cR := roots(nonConsensus, 5), roots(consensus, 4)
	ncReach := c.A.ReachOpt(ncR, nil, false)
	cReach := c.A.ReachOpt(cR, nil, false)
	inBaseapp := func(f *ssa.Function) bool { return f.Blocks != nil && fnPkgPath(f) == repoMod+"/baseapp" }
	writes := map[string][]fieldTouch{}
	reads := map[string][]fieldTouch{}
	for f := range ncReach {
		if !inBaseapp(f) {
			continue
		}
		// a function shared with the deliver path (runTx, runMsg, ...) is judged by the
		// mode-wise rows of C11; here only code that the deliver path never runs
		if _, shared := cReach[f]; shared {
			continue
		}
		for _, b := range f.Blocks {
			for _, ins := range b.Instrs {
				o.Facts++
				switch x := ins.(type) {
				case *ssa.Store:
					if fld, ok := baseAppFieldOf(x.Addr); ok {
						writes[fld] = append(writes[fld], fieldTouch{f, ins})
					}
				case *ssa.MapUpdate:
					if fld, ok := loadedBaseAppField(x.Map); ok {
						writes[fld] = append(writes[fld], fieldTouch{f, ins})
					}
				case *ssa.Call:
					if bi, isB := x.Call.Value.(*ssa.Builtin); isB && bi.Name() == "delete" {
						if fld, ok := loadedBaseAppField(x.Call.Args[0]); ok {
							writes[fld] = append(writes[fld], fieldTouch{f, ins})
						}
					}
				}
			}
		}
	}
	for f := range cReach {
		if !inBaseapp(f) {
			continue
		}
		for _, b := range f.Blocks {
			for _, ins := range b.Instrs {
				u, ok := ins.(*ssa.UnOp)
				if !ok {
					continue
				}
				if fld, isF := baseAppFieldOf(u.X); isF {
					reads[fld] = append(reads[fld], fieldTouch{f, ins})
				}
			}
		}
	}
	var flds []string
	for f := range writes {
		flds = append(flds, f)
	}
	sort.Strings(flds)
	for _, fld := range flds {
		rs := reads[fld]
		if len(rs) == 0 {
			continue
		}
		if _, ok := baseappSharedFieldTable[fld]; ok {
			continue
		}
		w := writes[fld][0]
		var rn []string
		seen := map[string]bool{}
		for _, r := range rs {
			if n := FnName(r.fn); !seen[n] {
				seen[n] = true
				rn = append(rn, n)
			}
		}
		sort.Strings(rn)
		o.Path = pathTo(ncReach, w.fn)
		o.fail(c.A.Pos(w.pos.Pos()), "BaseApp.%s is written by %s (reached from CheckTx/Query, never from the deliver path) and read on the deliver path by %s: a mempool check or query changes what block execution does on this node", fld, FnName(w.fn), strings.Join(rn, ", "))
	}
	if len(ncReach) < 10 || len(cReach) < 10 {
		o.unresolved("reach sets are implausibly small (%d, %d)", len(ncReach), len(cReach))
	}
	return []Obligation{*o}
}
