package main

import (
	"fmt"
	"go/token"
	"regexp"
	"sort"
	"strings"

	"golang.org/x/tools/go/ssa"
)

// E9(ii): integer SSA expressions as polynomials over named atoms, so that two
// thresholds can be compared symbolically (W*B + S  vs  S + W*B).

type poly map[string]int64 // monomial (sorted atom names joined by "*", "" = constant) -> coefficient

func (p poly) String() string {
	var ks []string
	for k, v := range p {
		if v != 0 {
			ks = append(ks, k)
		}
	}
	sort.Strings(ks)
	var parts []string
	for _, k := range ks {
		switch {
		case k == "":
			parts = append(parts, fmt.Sprintf("%d", p[k]))
		case p[k] == 1:
			parts = append(parts, k)
		default:
			parts = append(parts, fmt.Sprintf("%d*%s", p[k], k))
		}
	}
	if len(parts) == 0 {
		return "0"
	}
	return strings.Join(parts, " + ")
}

func polyAdd(a, b poly, sign int64) poly {
	r := poly{}
	for k, v := range a {
		r[k] += v
	}
	for k, v := range b {
		r[k] += sign * v
	}
	for k, v := range r {
		if v == 0 {
			delete(r, k)
		}
	}
	return r
}

func polyMul(a, b poly) poly {
	r := poly{}
	for ka, va := range a {
		for kb, vb := range b {
			var atoms []string
			if ka != "" {
				atoms = append(atoms, strings.Split(ka, "*")...)
			}
			if kb != "" {
				atoms = append(atoms, strings.Split(kb, "*")...)
			}
			sort.Strings(atoms)
			r[strings.Join(atoms, "*")] += va * vb
		}
	}
	for k, v := range r {
		if v == 0 {
			delete(r, k)
		}
	}
	return r
}

// atomNamer maps a rendered leaf to a symbolic name (or "" to keep the rendering).
type atomNamer func(d string) string

func toPoly(v ssa.Value, name atomNamer, depth int) poly {
	if depth > 12 {
		return poly{"?deep": 1}
	}
	switch x := v.(type) {
	case *ssa.Const:
		if x.Value != nil {
			return poly{"": x.Int64()}
		}
	case *ssa.Convert:
		return toPoly(x.X, name, depth+1)
	case *ssa.ChangeType:
		return toPoly(x.X, name, depth+1)
	case *ssa.BinOp:
		switch x.Op {
		case token.ADD:
			return polyAdd(toPoly(x.X, name, depth+1), toPoly(x.Y, name, depth+1), 1)
		case token.SUB:
			return polyAdd(toPoly(x.X, name, depth+1), toPoly(x.Y, name, depth+1), -1)
		case token.MUL:
			return polyMul(toPoly(x.X, name, depth+1), toPoly(x.Y, name, depth+1))
		}
	case *ssa.UnOp:
		if x.Op == token.MUL {
			if a, ok := x.X.(*ssa.Alloc); ok {
				if sv := singleStore(a); sv != nil {
					return toPoly(sv, name, depth+1)
				}
			}
		}
	}
	d := desc(v, maxDepth)
	if n := name(d); n != "" {
		return poly{n: 1}
	}
	return poly{"<" + d + ">": 1}
}

// regexNamer builds an atomNamer from (regexp, name) pairs.
func regexNamer(pairs ...string) atomNamer {
	type pr struct {
		re   *regexp.Regexp
		name string
	}
	var ps []pr
	for i := 0; i+1 < len(pairs); i += 2 {
		ps = append(ps, pr{regexp.MustCompile(pairs[i]), pairs[i+1]})
	}
	return func(d string) string {
		for _, p := range ps {
			if p.re.MatchString(d) {
				return p.name
			}
		}
		return ""
	}
}
