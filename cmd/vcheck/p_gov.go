package main

import (
	"fmt"
	"go/token"
	"regexp"
	"sort"
	"strings"

	"golang.org/x/tools/go/ssa"
)

// C36 owner-only parameter changes / DAO funds, C37 feature upgrades.

const (
	kG            = `\(x/gov/keeper\.Keeper\)\.`
	fnModifyParam = "(x/gov/keeper.Keeper).ModifyParam"
	fnHandleUpg   = "(x/gov/keeper.Keeper).HandleUpgrade"
	fnUpgAfter    = "x/gov/keeper.handleUpgradeAfterUpdate"
	fnVerifyACL   = "(x/gov/keeper.Keeper).VerifyACL"
	fnDAOTransfer = "(x/gov/keeper.Keeper).DAOTransferFrom"
	fnDAOBurn     = "(x/gov/keeper.Keeper).DAOBurn"
	aACLErr       = `^nonnil\(` + kG + `VerifyACL\(k, ctx, aclKey, owner\)\)$`
	bACL          = `^` + kG + `VerifyACL\(k, ctx, aclKey, owner\)$`
	reSpaceWrite  = `^\(types\.Subspace\)\.(Set|Update|SetParamSet|SetWithSubkey)\(`
	reCodecGlobal = `^codec\.(UpgradeHeight|OldUpgradeHeight|UpgradeFeatureMap)$`
)

func init() {
	register(&Prop{
		ID: "C36", Title: "Only the designated owner can change parameters or move DAO funds",
		Technique: "pruned-CFG reachability (guarded effects, must-pass-through), operand provenance at the handlers, who-may-call on parameter-store writers",
		DesignRef: "DESIGN.md §3 C36, Appendix A.5",
		Explanation: "ModifyParam, both branches of HandleUpgrade and handleUpgradeAfterUpdate write the parameter store (and the codec upgrade globals) only after VerifyACL(ctx, aclKey, owner) returned no error, owner being the message's FromAddress/Address, which is also what the message's GetSigners returns; VerifyACL rejects unless acl.GetOwner(param).Equals(owner); DAOTransferFrom / DAOBurn move coins only when GetDAOOwner(ctx).Equals(owner), and move exactly the message's amount out of the DAO account; from the gov handler the parameter store is written only through those functions.",
		NotDecided:  "the values written; ACL contents.",
		MinObl:      22,
		Run:         runC36,
	})
	register(&Prop{
		ID: "C37", Title: "Feature upgrades activate at their heights and are never lost",
		Technique: "operand provenance on the stored upgrade, set agreement between handler-assigned and restart-restored codec globals, sort recognition",
		DesignRef: "DESIGN.md §3 C37",
		Explanation: "On both branches of handleUpgradeAfterUpdate the stored feature list is CleanUpgradeFeatureSlice(append(old.Features, new.Features...)) — old features are kept, duplicates removed through a map, the result sorted; the codec globals assigned by the handler (UpgradeHeight, OldUpgradeHeight, UpgradeFeatureMap via SliceToExistingMap) are exactly the ones restored at start-up from the stored upgrade; the activation predicate is height >= UpgradeFeatureMap[key] with a non-zero entry.",
		NotDecided:  "the schedule as data after arbitrary message sequences; the start-up restore is conditioned on upgrade.Height != 0, which a feature-only upgrade on a chain that never had a versioned upgrade leaves at 0 (value reasoning, noted not claimed).",
		MinObl:      6,
		Run:         runC37,
	})
}

func runC36(c *Ctx) []Obligation {
	P := "C36"
	rows := []Row{
		{Prop: P, ID: "modify.acl-gates-write", Fn: fnModifyParam, Assume: []Lit{T(aACLErr)}, Target: CallTo(reSpaceWrite[1:]), Why: "a parameter is written only when the ACL names the signer as its owner"},
		{Prop: P, ID: "modify.must-verify-acl", Fn: fnModifyParam, Barrier: []string{bACL}, Target: CallTo(reSpaceWrite[1:]), TargetMustExist: true, Why: "every parameter write is preceded by VerifyACL for that key and owner"},
		{Prop: P, ID: "modify.acl-error-fails", Fn: fnModifyParam, Assume: []Lit{T(aACLErr)}, Target: Success(), Why: "an unauthorised change is reported as failed"},
		{Prop: P, ID: "modify.writes-requested-key", Fn: fnModifyParam,
			Target: CallTo(reSpaceWrite[1:]).Except(`^\(types\.Subspace\)\.Update\(k\.spaces\[x/gov/types\.SplitACLKey\(aclKey\)#0\]#0, ctx, conv<\[\]byte>\(x/gov/types\.SplitACLKey\(aclKey\)#1\), paramValue\)$`),
			Why:    "the parameter written is the one the ACL was checked for, with the message's value"},
		{Prop: P, ID: "upgrade.pre.acl-gates-write", Fn: fnHandleUpg, Assume: []Lit{F(aUpgradeHeight), T(aACLErr)}, Target: CallTo(reSpaceWrite[1:]), Why: "before the upgrade height the upgrade parameter is written only for the ACL owner"},
		{Prop: P, ID: "upgrade.pre.acl-gates-globals", Fn: fnHandleUpg, Assume: []Lit{F(aUpgradeHeight), T(aACLErr)}, Target: StoreTo(reCodecGlobal), Why: "and the codec upgrade globals are untouched otherwise"},
		{Prop: P, ID: "upgrade.pre.must-verify-acl", Fn: fnHandleUpg, Assume: []Lit{F(aUpgradeHeight)}, Barrier: []string{bACL}, Target: CallTo(reSpaceWrite[1:]), TargetMustExist: true, Why: "every write on the pre-upgrade branch is preceded by VerifyACL"},
		{Prop: P, ID: "upgrade.post.delegates", Fn: fnHandleUpg, Assume: []Lit{T(aUpgradeHeight)},
			Target: CallTo(reSpaceWrite[1:] + `|VerifyACL`), Why: "after the upgrade height HandleUpgrade only delegates to handleUpgradeAfterUpdate (which must do the ACL check itself)"},
		{Prop: P, ID: "upgrade.post.delegates-args", Fn: fnHandleUpg,
			Target: CallTo(`handleUpgradeAfterUpdate\(`).Except(`^x/gov/keeper\.handleUpgradeAfterUpdate\(ctx, aclKey, paramValue, owner, k\)$`), Why: "with the same key, value and owner"},
		{Prop: P, ID: "upgrade.post.acl-gates-write", Fn: fnUpgAfter, Assume: []Lit{T(aACLErr)}, Target: CallTo(reSpaceWrite[1:]), Why: "after the upgrade height the upgrade parameter is written only for the ACL owner"},
		{Prop: P, ID: "upgrade.post.acl-gates-globals", Fn: fnUpgAfter, Assume: []Lit{T(aACLErr)}, Target: StoreTo(reCodecGlobal), Why: "and the codec upgrade globals are untouched otherwise"},
		{Prop: P, ID: "upgrade.post.must-verify-acl", Fn: fnUpgAfter, Barrier: []string{bACL}, Target: CallTo(reSpaceWrite[1:]), TargetMustExist: true, Why: "every write is preceded by VerifyACL"},
		{Prop: P, ID: "upgrade.post.must-verify-acl-globals", Fn: fnUpgAfter, Barrier: []string{bACL}, Target: StoreTo(reCodecGlobal), TargetMustExist: true, Why: "every assignment of a codec upgrade global is preceded by VerifyACL"},
		{Prop: P, ID: "upgrade.post.acl-error-fails", Fn: fnUpgAfter, Assume: []Lit{T(aACLErr)}, Target: Success(), Why: "an unauthorised upgrade is reported as failed"},
		{Prop: P, ID: "acl.owner-must-match", Fn: fnVerifyACL,
			Assume: []Lit{F(`^\(types\.Address\)\.Equals\(\(x/gov/types\.ACL\)\.GetOwner\(` + kG + `GetACL\(k, ctx\), paramName\), owner\)$`)}, Target: Success(),
			Why: "VerifyACL refuses unless the ACL's owner of this parameter equals the signer"},
		{Prop: P, ID: "dao.transfer.owner-gates", Fn: fnDAOTransfer,
			Assume: []Lit{F(`^\(types\.Address\)\.Equals\(` + kG + `GetDAOOwner\(k, ctx\), owner\)$`)}, Target: CallTo(`AuthKeeper\.`), Why: "DAO funds move only when the DAO owner signs"},
		{Prop: P, ID: "dao.transfer.owner-error-fails", Fn: fnDAOTransfer,
			Assume: []Lit{F(`^\(types\.Address\)\.Equals\(` + kG + `GetDAOOwner\(k, ctx\), owner\)$`)}, Target: Success(), Why: "and the attempt fails"},
		{Prop: P, ID: "dao.transfer.amount", Fn: fnDAOTransfer,
			Target: CallTo(`AuthKeeper\.`).Except(`^invoke x/gov/types\.AuthKeeper\.SendCoinsFromModuleToAccount\(k\.AuthKeeper, ctx, "dao", to, types\.NewCoins\(\[types\.NewCoin\("upokt", amount\)\]\)\)$`),
			Why:    "exactly the requested amount leaves the DAO account for the requested recipient"},
		{Prop: P, ID: "dao.transfer.send-error-fails", Fn: fnDAOTransfer, Assume: []Lit{T(`^nonnil\(invoke x/gov/types\.AuthKeeper\.SendCoinsFromModuleToAccount\(`)}, Target: Success(), Why: "a transfer beyond the balance fails"},
		{Prop: P, ID: "dao.burn.owner-gates", Fn: fnDAOBurn,
			Assume: []Lit{F(`^\(types\.Address\)\.Equals\(` + kG + `GetDAOOwner\(k, ctx\), owner\)$`)}, Target: CallTo(`AuthKeeper\.`), Why: "DAO funds are burned only when the DAO owner signs"},
		{Prop: P, ID: "dao.burn.amount", Fn: fnDAOBurn,
			Target: CallTo(`AuthKeeper\.`).Except(`^invoke x/gov/types\.AuthKeeper\.BurnCoins\(k\.AuthKeeper, ctx, "dao", types\.NewCoins\(\[types\.NewCoin\("upokt", amount\)\]\)\)$`),
			Why:    "exactly the requested amount is burned from the DAO account"},
		{Prop: P, ID: "dao.burn.error-fails", Fn: fnDAOBurn, Assume: []Lit{T(`^nonnil\(invoke x/gov/types\.AuthKeeper\.BurnCoins\(`)}, Target: Success(), Why: "a burn beyond the balance fails"},
		// handlers: the owner argument is the message's signer field
		{Prop: P, ID: "handler.change-param.owner", Fn: "x/gov.handleMsgChangeParam",
			Target: CallTo(`ModifyParam\(`).Except(`^` + kG + `ModifyParam\(k, ctx, msg\.ParamKey, msg\.ParamVal, msg\.FromAddress\)$`), Why: "the owner checked is the message's FromAddress (its declared signer)"},
		{Prop: P, ID: "handler.upgrade.owner", Fn: "x/gov.handleMsgUpgrade",
			Target: CallTo(`HandleUpgrade\(`).Except(`^` + kG + `HandleUpgrade\(k, ctx, x/gov/types\.NewACLKey\("gov", conv<string>\(x/gov/types\.UpgradeKey\)\), msg\.Upgrade, msg\.Address\)$`), Why: "the owner checked is the message's Address (its declared signer), for the gov/upgrade key"},
		{Prop: P, ID: "handler.dao.owner", Fn: "x/gov.handleMsgDaoTransfer",
			Target: CallTo(`DAO(TransferFrom|Burn)\(`).Except(`^` + kG + `(DAOTransferFrom\(k, ctx, msg\.FromAddress, msg\.ToAddress, msg\.Amount\)|DAOBurn\(k, ctx, msg\.FromAddress, msg\.Amount\))$`), Why: "the owner checked is the message's FromAddress, the amount the message's amount"},
	}
	out := c.Rows(rows)
	out = append(out, c.govSigners(P)...)
	out = append(out,
		c.whoMayCall(P, "modify.callers", fnModifyParam, []string{`x/gov\.handleMsgChangeParam`}, "parameters are modified only by the change-param handler"),
		c.whoMayCall(P, "upgrade.callers", fnHandleUpg, []string{`x/gov\.handleMsgUpgrade`}, "upgrades only by the upgrade handler"),
		c.whoMayCall(P, "upgrade-after.callers", fnUpgAfter, []string{kG + `HandleUpgrade`}, "the post-upgrade path is entered only from HandleUpgrade"),
		c.whoMayCall(P, "dao-transfer.callers", fnDAOTransfer, []string{`x/gov\.handleMsgDaoTransfer`}, "DAO transfers only by the DAO handler"),
		c.whoMayCall(P, "dao-burn.callers", fnDAOBurn, []string{`x/gov\.handleMsgDaoTransfer`}, "DAO burns only by the DAO handler"),
		c.govHandlerWrites(P),
	)
	return out
}

// govSigners: each gov message's GetSigners returns exactly the address field
// its handler passes as owner.
func (c *Ctx) govSigners(P string) []Obligation {
	var out []Obligation
	for _, m := range []struct{ fn, field string }{
		{"(x/gov/types.MsgChangeParam).GetSigners", "msg.FromAddress"},
		{"(x/gov/types.MsgDAOTransfer).GetSigners", "msg.FromAddress"},
		{"(x/gov/types.MsgUpgrade).GetSigners", "msg.Address"},
	} {
		o := c.obl(P, "signers.match-owner-field", m.fn, "GetSigners returns ["+m.field+"], the field the handler authorises")
		fn := c.A.Fn(m.fn)
		if fn == nil {
			o.unresolved("not found")
			out = append(out, *o)
			continue
		}
		o.Pos = c.A.FnPos(fn)
		// the single element stored into the returned slice literal
		n := 0
		for _, b := range fn.Blocks {
			for _, ins := range b.Instrs {
				if st, ok := ins.(*ssa.Store); ok {
					if a := baseAlloc(st.Addr); a != nil && (a.Comment == "slicelit" || a.Comment == "complit") {
						n++
						o.Facts++
						if d := desc(st.Val, 6); d != m.field {
							o.fail(c.A.Pos(st.Pos()), "signer is %s", d)
						}
					}
				}
			}
		}
		if n != 1 {
			o.fail("", "expected exactly one signer, found %d", n)
		}
		out = append(out, *o)
	}
	return out
}

// govHandlerWrites: from the gov handler the parameter store is written only
// through ModifyParam / HandleUpgrade / handleUpgradeAfterUpdate.
func (c *Ctx) govHandlerWrites(P string) Obligation {
	o := c.obl(P, "handler.param-writes-only-via-acl-functions", "x/gov.NewHandler$1", "every parameter-store write reachable from the gov message handler is inside ModifyParam, HandleUpgrade or handleUpgradeAfterUpdate")
	root := c.A.Fn("x/gov.NewHandler$1")
	if root == nil {
		o.unresolved("not found")
		return *o
	}
	reach := c.A.Reach([]*ssa.Function{root}, func(f *ssa.Function) bool {
		// module boundaries: bank operations are covered by C17/C18
		return strings.HasSuffix(fnPkgPath(f), "/x/auth/keeper")
	})
	allowed := map[string]bool{fnModifyParam: true, fnHandleUpg: true, fnUpgAfter: true}
	re := c.E1.re(reSpaceWrite)
	for f := range reach {
		if f.Blocks == nil || strings.HasPrefix(FnName(f), "(types.Subspace).") {
			continue // the store's own methods call each other
		}
		for _, s := range c.allCalls(f) {
			o.Facts++
			if re.MatchString(s.Desc) && !allowed[FnName(f)] {
				o.fail(c.A.Pos(s.Ins.Pos()), "%s writes the parameter store (%s) outside the ACL-checked functions", FnName(f), shortCall(s.Desc))
			}
		}
	}
	return *o
}

func runC37(c *Ctx) []Obligation {
	P := "C37"
	feat := `codec\.CleanUpgradeFeatureSlice\(builtin\.append\((var:)?oldUpgrade\.Features, (var:)?newUpgrade\.Features\)\)`
	rows := []Row{
		{Prop: P, ID: "merge.features-kept-and-cleaned", Fn: fnUpgAfter,
			Target: StoreTo(`newUpgrade\.Features$`).Except(`^$`), Assume: nil,
			Why: "placeholder"},
	}
	_ = rows
	var out []Obligation
	out = append(out, c.featureMerge(P, feat))
	out = append(out, c.Rows([]Row{
		{Prop: P, ID: "merge.stores-merged-upgrade", Fn: fnUpgAfter,
			Target: CallTo(`^\(types\.Subspace\)\.Set\(`).Except(`^\(types\.Subspace\)\.Set\(.*, ctx, conv<\[\]byte>\(x/gov/types\.SplitACLKey\(aclKey\)#1\), (var:)?newUpgrade\)$`),
			Why:    "the value stored is the merged upgrade, not the raw message"},
		{Prop: P, ID: "clean.sorted", Fn: "codec.CleanUpgradeFeatureSlice",
			Barrier: []string{`^sort\.Strings\(`}, Target: TargetAnyReturn(), TargetMustExist: true, Why: "the stored feature list is sorted"},
		{Prop: P, ID: "clean.dedup-through-map", Fn: "codec.CleanUpgradeFeatureSlice",
			Target: RetNotMatch(0, `^codec\.MapToSlice\(codec\.SliceToMap\(arr\)\)$`), Why: "and deduplicated by going through a map keyed by feature name"},
	})...)
	out = append(out, c.upgradeGlobalsAgree(P), c.activationPredicate(P))
	// the list <-> map conversions the merge and the restart both go through: "NAME:height" is written and
	// parsed with the same separator and in the same order, later entries override earlier ones, and
	// nothing of an existing schedule is dropped
	idx := `arr\[\(phi:rangeindex \+ 1\)\]`
	key := `strings\.Split\(` + idx + `, ":"\)\[0\]`
	val := `strconv\.ParseInt\(strings\.Split\(` + idx + `, ":"\)\[1\], 10, 64\)#0`
	for _, f := range []string{"codec.SliceToMap", "codec.SliceToExistingMap"} {
		short := f[len("codec."):]
		exc := `^makemap\[` + key + `\]$`
		if f == "codec.SliceToExistingMap" {
			exc = `^makemap\[(` + key + `|next\(range\(m\)\)#1)\]$`
		}
		out = append(out, c.Rows([]Row{
			{Prop: P, ID: "parse." + short + ".key-is-name", Fn: f, Target: StoreTo(`^makemap\[`).Except(exc), Why: "an entry is filed under the text before the colon"},
			{Prop: P, ID: "parse." + short + ".value-is-height", Fn: f, Target: StoreTo(`^makemap\[strings\.Split`).ExceptVal(`^` + val + `$`), Why: "with the decimal height after the colon as its value"},
			{Prop: P, ID: "parse." + short + ".returns-the-map", Fn: f, Target: RetNotMatch(0, `^makemap$`), Why: "the map built is the map returned"},
		})...)
		out = append(out, c.edgeMust(P, "parse."+short+".every-entry", f, `^lt\(\(phi:rangeindex \+ 1\), builtin\.len\(arr\)\)$`, true, `mapset:^makemap\[`+key+`\] = `, 1, "every element of the list is entered (a later duplicate of a name overrides the earlier one)"))
	}
	out = append(out,
		c.edgeMust(P, "parse.SliceToExistingMap.keeps-existing", "codec.SliceToExistingMap", `^next\(range\(m\)\)#0$`, true, `mapset:^makemap\[next\(range\(m\)\)#1\] = next\(range\(m\)\)#2$`, 1, "every entry of the existing schedule is carried over before the list is applied"),
		c.edgeMust(P, "format.MapToSlice.every-entry", "codec.MapToSlice", `^next\(range\(m\)\)#0$`, true, `^builtin\.append\(phi:fslice, \[fmt\.Sprintf\("%s:%d", \[next\(range\(m\)\)#1, next\(range\(m\)\)#2\]\)\]\)`, 1, "every entry of the map is written as NAME:height — the form the parsers read"),
	)
	out = append(out, c.Rows([]Row{
		{Prop: P, ID: "format.MapToSlice.only-that-form", Fn: "codec.MapToSlice", Target: CallTo(`^fmt\.Sprintf\(`).Except(`^fmt\.Sprintf\("%s:%d", \[next\(range\(m\)\)#1, next\(range\(m\)\)#2\]\)$`), Why: "name first, height second, colon between"},
	})...)
	out = append(out, c.featurePredicatesAgree(P)...)
	out = append(out, upgradeMergeReadsStored(c, P)...)
	out = append(out, upgradeMergeBranches(c, P)...)
	return out
}

// featurePredicatesAgree: the hard-wired activation predicates of the codec (IsAfter…Upgrade / IsOn…) are
// siblings of one shape: the feature's map entry is tested for zero and compared with the height, and both
// uses name the same feature.
func (c *Ctx) featurePredicatesAgree(P string) []Obligation {
	var out []Obligation
	var fns []*ssa.Function
	for fn := range c.A.AllFns {
		if fn.Blocks == nil || fn.Signature.Recv() == nil || fnPkgPath(fn) != repoMod+"/codec" || !isBoolResult(fn) {
			continue
		}
		n := fn.Name()
		if !(strings.HasPrefix(n, "IsAfter") || strings.HasPrefix(n, "IsOn")) {
			continue
		}
		fns = append(fns, fn)
	}
	sort.Slice(fns, func(i, j int) bool { return FnName(fns[i]) < FnName(fns[j]) })
	keyRe := regexp.MustCompile(`codec\.UpgradeFeatureMap\[([^\]]+)\]`)
	for _, fn := range fns {
		o := c.obl(P, "activation.sibling-shape", FnName(fn), "in "+FnName(fn)+" the zero test and the height comparison read the same feature's entry, and the comparison has the height on the side the name says (IsAfter: height >= entry, IsOn: height == entry)")
		o.Pos = c.A.FnPos(fn)
		keys := map[string]int{}
		var cmps []string
		for _, b := range fn.Blocks {
			for _, ins := range b.Instrs {
				o.Facts++
				bo, ok := ins.(*ssa.BinOp)
				if !ok {
					continue
				}
				d := desc(bo, maxDepth)
				for _, m := range keyRe.FindAllStringSubmatch(d, -1) {
					keys[m[1]]++
				}
				switch bo.Op {
				case token.GEQ, token.LEQ, token.LSS, token.GTR:
					if keyRe.MatchString(d) {
						cmps = append(cmps, condAtom(bo).Str+"|"+fmt.Sprint(condAtom(bo).Neg))
					}
				}
			}
		}
		if len(keys) == 0 {
			// predicates on the codec-upgrade height itself, not on a named feature
			o.Detail = "no feature-map entry read"
			out = append(out, *o)
			continue
		}
		if len(keys) != 1 {
			var ks []string
			for k := range keys {
				ks = append(ks, k)
			}
			sort.Strings(ks)
			o.fail(o.Pos, "the predicate reads the entries of different features: %s", strings.Join(ks, ", "))
		}
		if strings.HasPrefix(fn.Name(), "IsAfter") {
			for _, cm := range cmps {
				// height >= entry  ==  not lt(height, entry)
				if !regexp.MustCompile(`^lt\(height, codec\.UpgradeFeatureMap\[[^\]]+\]\)\|true$`).MatchString(cm) {
					o.fail(o.Pos, "the height comparison is %s, not height >= entry", cm)
				}
			}
			if len(cmps) == 0 {
				o.fail(o.Pos, "no comparison of the height with the feature's entry")
			}
		}
		out = append(out, *o)
	}
	return out
}

// activationPredicate: IsAfterNamedFeatureActivationHeight(h, key) is
// UpgradeFeatureMap[key] != 0 && h >= UpgradeFeatureMap[key].
func (c *Ctx) activationPredicate(P string) Obligation {
	const f = "(*codec.Codec).IsAfterNamedFeatureActivationHeight"
	o := c.obl(P, "activation.predicate", f, "a named feature is active exactly from its scheduled height on: map entry non-zero and height >= entry")
	fn := c.A.Fn(f)
	if fn == nil {
		o.unresolved("not found")
		return *o
	}
	for _, b := range fn.Blocks {
		r, ok := b.Instrs[len(b.Instrs)-1].(*ssa.Return)
		if !ok {
			continue
		}
		for _, leaf := range phiLeaves(retOperand(r, 0)) {
			o.Facts++
			d := desc(leaf, maxDepth)
			if d != "false" && d != "(height >= codec.UpgradeFeatureMap[key])" && d != "(codec.UpgradeFeatureMap[key] <= height)" {
				o.fail(c.A.Pos(r.Pos()), "predicate may evaluate to %s", d)
			}
		}
	}
	row := Row{Fn: f, Assume: []Lit{T(`^eq\(0, codec\.UpgradeFeatureMap\[key\]\)$`)}, Target: RetNot(0, "false")}
	if r := c.E1.eval(fn, &row); !r.ok || r.matched[0] == 0 {
		o.fail(c.A.FnPos(fn), "an unscheduled feature (map entry 0) may be reported active")
	}
	return *o
}

// featureMerge: every store to newUpgrade.Features in handleUpgradeAfterUpdate
// is CleanUpgradeFeatureSlice(append(old.Features, new.Features...)), and both
// branches have one.
func (c *Ctx) featureMerge(P, feat string) Obligation {
	o := c.obl(P, "merge.features-kept-and-cleaned", fnUpgAfter, "on both branches the stored feature list is CleanUpgradeFeatureSlice(append(old.Features, new.Features...)): previously scheduled features are kept")
	fn := c.A.Fn(fnUpgAfter)
	if fn == nil {
		o.unresolved("not found")
		return *o
	}
	n := 0
	for _, b := range fn.Blocks {
		for _, ins := range b.Instrs {
			st, ok := ins.(*ssa.Store)
			if !ok {
				continue
			}
			if d := desc(st.Addr, 4); !strings.HasSuffix(d, "newUpgrade.Features") {
				continue
			}
			n++
			o.Facts++
			v := desc(st.Val, maxDepth)
			if !reMatch(`^codec\.CleanUpgradeFeatureSlice\(builtin\.append\(.*oldUpgrade\.Features.*, .*newUpgrade\.Features.*\)\)$`, v) {
				o.fail(c.A.Pos(st.Pos()), "features stored as %s", v)
			}
		}
	}
	if n < 2 {
		o.fail(c.A.FnPos(fn), "expected the merge on both branches, found %d assignment(s) of newUpgrade.Features", n)
	}
	return *o
}

// upgradeGlobalsAgree: the codec globals assigned by the upgrade handler are
// the ones restored at start-up, from the same fields.
func (c *Ctx) upgradeGlobalsAgree(P string) Obligation {
	o := c.obl(P, "restart.restores-same-globals", "app.NewPocketCoreApp", "the codec globals assigned in handleUpgradeAfterUpdate (UpgradeHeight, OldUpgradeHeight, UpgradeFeatureMap) are exactly those restored from the stored upgrade at start-up, from the same fields")
	h := c.A.Fn(fnUpgAfter)
	var app *ssa.Function
	for _, n := range []string{"app.NewPocketCoreApp", "app.NewPocketCoreApp$1"} {
		if f := c.A.FnOpt(n); f != nil && app == nil {
			app = f
		}
	}
	if h == nil || app == nil {
		o.unresolved("anchors not found")
		return *o
	}
	collect := func(f *ssa.Function) map[string]string {
		m := map[string]string{}
		fs := append([]*ssa.Function{f}, f.AnonFuncs...)
		for _, fn := range fs {
			for _, b := range fn.Blocks {
				for _, ins := range b.Instrs {
					if st, ok := ins.(*ssa.Store); ok {
						if g, ok := st.Addr.(*ssa.Global); ok && g.Pkg.Pkg.Path() == repoMod+"/codec" {
							v := desc(st.Val, maxDepth)
							// normalise the source object name
							v = c.E1.re(`\(var:\)?`).ReplaceAllString(v, "")
							v = c.E1.re(`(var:)?newUpgrade|(var:)?upgrade|`+`\(x/gov/keeper\.Keeper\)\.GetUpgrade\([^)]*\)`).ReplaceAllString(v, "U")
							v = c.E1.re(`\(x/gov/types\.Upgrade\)\.GetFeatures\(U\)|U\.Features`).ReplaceAllString(v, "U.Features")
							m[g.Name()] = v
						}
					}
				}
			}
		}
		return m
	}
	hm, am := collect(h), collect(app)
	o.Facts = len(hm) + len(am)
	for _, g := range []string{"UpgradeHeight", "OldUpgradeHeight", "UpgradeFeatureMap"} {
		if hm[g] == "" {
			o.fail(c.A.FnPos(h), "handler does not assign codec.%s", g)
		}
		if am[g] == "" {
			o.fail(c.A.FnPos(app), "start-up does not restore codec.%s", g)
		}
		if hm[g] != "" && am[g] != "" && hm[g] != am[g] {
			o.fail(c.A.FnPos(app), "codec.%s: handler assigns %s, start-up restores %s", g, hm[g], am[g])
		}
	}
	for g := range hm {
		if am[g] == "" {
			o.fail(c.A.FnPos(app), "codec.%s is assigned by the upgrade handler but not restored at start-up", g)
		}
	}
	return *o
}
