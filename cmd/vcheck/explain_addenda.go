package main

// explanationAddenda: clauses added to a property's tables after its registry entry was written (from seeded
// changes, the mutation run and the benign variants); appended to the explanation in the manifest and the
// evidence so that both say what is decided today.
var explanationAddenda = map[string]string{
	"C01": " Also: iterators really advance and consume delete markers; Write resets the pending structures; pending keys of the domain are collected, sorted and merged into the sorted list before the in-memory iterator is cut from it.",
	"C03": " Also: wherever a child pointer of an existing node is re-pointed its cached child hash is written; copies and new leaves belong to the version being written; a set creates the leaf with that key and value and descends by key order.",
	"C04": " Also: the cached child hash follows every re-pointed child; LoadVersion lists every version on disk, installs the loaded tree as working and last-saved tree with an empty orphan set, takes the root from the recorded hash and fails for a target that is not on disk.",
	"C05": " Also: a proof or read 'at version V' is answered from the immutable tree loaded for V, never from the working tree.",
	"C06": " Also: every successful SaveVersion bumps the tree's version, re-clones the working tree, sets the last-saved tree, resets the orphans and lists the new version.",
	"C09": " Also: versioned readers answer from the tree loaded for that version; the per-height context cache is filled only by PrevCtx, with the context built on the store lazily loaded for that height.",
	"C10": " Also: nothing that reads the cache decides presence by the length of the value.",
	"C12": " Also: table exceptions whose reason is a sort are checked (the collected slice flows to a sort call); every other exception freezes the order-dependent sinks its loop body had when confirmed.",
	"C13": " Also: every call site of NewSession passes the session-start context first and a different reference context second, and NewSessionNodes reads candidates and parameters from the former, node records and height gates from the latter.",
	"C16": " Also: a transaction not yet seen in the block is entered in the block's cache before it is executed; the indexer leaves out only auth-codespace results with codes below the ante maximum and visits every result of a batch; the auth ante handler is the one installed.",
	"C17": " Also: the module-account send helpers pass sender, recipient and amount in that order; a balance that was set is persisted.",
	"C18": " Also: the transfer is one debit of the amount from the sender followed by one credit of the same amount to the recipient, each reading the balance it changes itself.",
	"C19": " Also: a stake message for an unstaking node is refused and a staked record is reached only through edit validation; removed tokens are taken off the stored record.",
	"C20": " Also: a stake message for an unstaking application is refused; edit-stake receives the stored record first.",
	"C21": " Also: layout of the power-rank key; a newly staked node enters the per-chain index; the unstaking queue is appended to and shortened with write-back, and entries leave it only on finish or forced unstake.",
	"C23": " Also: for nodes and applications, edit-stake is given the stored record as the thing edited and the message's as the update, only for records found and staked.",
	"C24": " Also: application and node life cycles (begin marks unstaking with a completion time from block time and stores; finish leaves the queue, pays, zeroes and stores); waiting nodes are released at the session boundary only, each valid one begins unstaking and leaves the waiting set; the sweeps visit every due entry; queue slots are written back or deleted.",
	"C25": " Also: the stored end of the jail period is written only when jailing for downtime (from block time and the governed duration) and at record creation; every block counts jailed blocks; fresh duplicate-vote evidence reaches the double-sign handling with its own operands; removed tokens are persisted.",
	"C26": " Also: the stake-weighted computation gets relays, stake and multiplier each in its own slot and what is split is the computed reward.",
	"C27": " Also: the root extraction has no deliberate failure exit.",
	"C28": " Also: the relay allowance is recomputed from the stake on stake and on every edit bump and zeroed on finish; the staking set the application limit is counted over is maintained on edit and begin-unstake.",
	"C30": " Also: each level folds the sibling into the target (range extended on the sibling's side, parent hash with left operand first and the pair's indices); the stateless message checks judge only the message's own root / target, never a sibling.",
	"C31": " Also: the selecting hash is the one at session height plus window times session length, the generator is that hash and this header, the index is drawn below the claimed count.",
	"C32": " Also: a claim is stored under its own key with an expiration counted from its acceptance height; the expiry sweep visits every claim; the claim paid by ExecuteProof is deleted under the key it was found under (known finding F18 on the current tree).",
	"C33": " Also: the two-context roles of session generation (see C13).",
	"C34": " Also: evidence holding the allowance is sealed when fetched for writing (exactly at the limit included); storing a proof adds it to the evidence fetched and writes that evidence back.",
	"C35": " Also: Session.Validate compares the application key character for character with the header's and refuses nodes outside the session.",
	"C37": " Also: list <-> map conversions agree on NAME:height, carry every entry and keep an existing schedule; the hard-wired activation predicates read one feature's entry each and compare height >= entry; the merge starts from the stored upgrade, and a feature-only message keeps version, height and remembered height.",
	"C38": " Also: every bulk reader decodes each stored value into a fresh target.",
	"C40": " Also: the armor key is derived from the passphrase bytes exactly as given, with the same parameters when locking and unlocking, and an authentication failure yields no key.",
	"C42": " Also: results outside the auth codespace are always indexed; exactly Skip entries are passed over and entries within Size are returned; an ante failure in a batch does not stop the rest from being indexed.",
	"C43": " Also: every bulk reader on the export path decodes into a fresh target; each module's InitGenesis installs the genesis parameters; the node import restores per-chain index entries, previous-state powers, total power and previous proposer and visits every record.",
}
