package main

import (
	"go/types"
	"sort"
	"strings"

	"golang.org/x/tools/go/ssa"
)

// C38: everything round-trips through the codec — the registration and
// canonical-sign-bytes clauses, and the writer/reader agreement of the
// height-dependent codec switch.

func init() {
	register(&Prop{
		ID: "C38", Title: "Every stored or transmitted object round-trips through the codec",
		Technique: "registration-table agreement (types dispatched by the module handlers vs types registered with the amino codec and with the proto interface registry; amino names unique), canonical-sign-bytes idiom on every GetSignBytes, pruned-CFG rows on the height-dependent codec switch (marshal and unmarshal pick mutually readable codecs)",
		DesignRef: "DESIGN.md §3 C38",
		Explanation: "Every message type dispatched by a module handler is registered with the legacy amino codec (RegisterStructure) and with the proto interface registry as an sdk.Msg implementation (RegisterImplementation) by that module's RegisterCodec, so that it can be decoded under both codecs; amino names are pairwise distinct; every GetSignBytes in the repository returns MustSortJSON(ModuleCdc.MustMarshalJSON(msg)) and StdSignBytes returns MustSortJSON of its document (sign bytes do not depend on field or map order); the codec switch encodes with proto exactly when the height is after the codec upgrade and decodes with proto there, and before it encodes with amino and decodes amino first (proto as fallback), for both the bare and the length-prefixed forms, and refuses a non-proto object after the upgrade in both directions.",
		NotDecided:  "value equality after decode (nil vs empty, hand-written ToProto/FromProto field mapping) — round-trip equalities over generated values.",
		MinObl:      30,
		Run:         runC38,
	})
}

func namedStructOf(t types.Type) *types.Named {
	if p, ok := t.(*types.Pointer); ok {
		t = p.Elem()
	}
	n, _ := t.(*types.Named)
	return n
}

// registrations collects, over the whole repo, what RegisterStructure and
// RegisterImplementation/RegisterInterface calls register.
type registrations struct {
	amino     map[string]string   // type -> amino name
	aminoName map[string][]string // amino name -> types
	protoMsg  map[string]bool     // types registered as implementations of sdk.Msg
	protoAny  map[string]bool     // types registered under any interface
	sites     int
}

func (c *Ctx) collectRegistrations() registrations {
	r := registrations{amino: map[string]string{}, aminoName: map[string][]string{}, protoMsg: map[string]bool{}, protoAny: map[string]bool{}}
	for fn := range c.A.AllFns {
		if fn.Blocks == nil || !fnInRepo(fn) {
			continue
		}
		for _, b := range fn.Blocks {
			for _, ins := range b.Instrs {
				call, ok := ins.(*ssa.Call)
				if !ok {
					continue
				}
				cal := call.Call.StaticCallee()
				if cal == nil {
					continue
				}
				switch FnName(cal) {
				case "(*codec.Codec).RegisterStructure":
					mi, ok := call.Call.Args[1].(*ssa.MakeInterface)
					if !ok {
						continue
					}
					n := namedStructOf(mi.X.Type())
					k, isK := call.Call.Args[2].(*ssa.Const)
					if n == nil || !isK {
						continue
					}
					r.sites++
					tn := shortPath(n.Obj().Pkg().Path()) + "." + n.Obj().Name()
					name := strings.Trim(k.Value.ExactString(), `"`)
					r.amino[tn] = name
					r.aminoName[name] = append(r.aminoName[name], tn)
				case "(*codec.Codec).RegisterImplementation", "(*codec.Codec).RegisterInterface":
					isMsg := false
					argImpls := 2
					if FnName(cal) == "(*codec.Codec).RegisterInterface" {
						argImpls = 3
					} else if mi, ok := call.Call.Args[1].(*ssa.MakeInterface); ok {
						if p, ok := mi.X.Type().(*types.Pointer); ok {
							if n, ok := p.Elem().(*types.Named); ok && (n.Obj().Name() == "Msg" || n.Obj().Name() == "ProtoMsg") {
								isMsg = n.Obj().Name() == "Msg"
							}
						}
					}
					sl, ok := call.Call.Args[argImpls].(*ssa.Slice)
					if !ok {
						continue
					}
					a, ok := sl.X.(*ssa.Alloc)
					if !ok || a.Referrers() == nil {
						continue
					}
					for _, ref := range *a.Referrers() {
						ia, ok := ref.(*ssa.IndexAddr)
						if !ok || ia.Referrers() == nil {
							continue
						}
						for _, rr := range *ia.Referrers() {
							st, ok := rr.(*ssa.Store)
							if !ok {
								continue
							}
							v := st.Val
							if mi, ok := v.(*ssa.MakeInterface); ok {
								v = mi.X
							}
							n := namedStructOf(v.Type())
							if n == nil || n.Obj().Pkg() == nil {
								continue
							}
							r.sites++
							tn := shortPath(n.Obj().Pkg().Path()) + "." + n.Obj().Name()
							r.protoAny[tn] = true
							if isMsg {
								r.protoMsg[tn] = true
							}
						}
					}
				}
			}
		}
	}
	return r
}

func (c *Ctx) handlerTypes(fnName string) []string {
	fn := c.A.Fn(fnName)
	if fn == nil {
		return nil
	}
	seen := map[string]bool{}
	for _, b := range fn.Blocks {
		for _, ins := range b.Instrs {
			ta, ok := ins.(*ssa.TypeAssert)
			if !ok || !ta.CommaOk {
				continue
			}
			n := namedStructOf(ta.AssertedType)
			if n == nil || n.Obj().Pkg() == nil || !inRepo(n.Obj().Pkg().Path()) {
				continue
			}
			if _, isStruct := n.Underlying().(*types.Struct); !isStruct {
				continue
			}
			seen[shortPath(n.Obj().Pkg().Path())+"."+n.Obj().Name()] = true
		}
	}
	var out []string
	for k := range seen {
		out = append(out, k)
	}
	sort.Strings(out)
	return out
}

func runC38(c *Ctx) []Obligation {
	P := "C38"
	var out []Obligation
	reg := c.collectRegistrations()
	// (1) every dispatched message type is registered with both codecs
	total := 0
	for _, h := range []string{"x/nodes.NewHandler$1", "x/apps.NewHandler$1", "x/pocketcore.NewHandler$1", "x/gov.NewHandler$1"} {
		o := c.obl(P, "registered-with-both-codecs", h, "every message type dispatched by "+h+" is registered with the amino codec (RegisterStructure) and as an sdk.Msg implementation with the proto registry")
		ts := c.handlerTypes(h)
		if len(ts) == 0 {
			o.unresolved("no dispatched message type found in %s", h)
			out = append(out, *o)
			continue
		}
		if f := c.A.Fn(h); f != nil {
			o.Pos = c.A.FnPos(f)
		}
		for _, t := range ts {
			o.Facts++
			total++
			if _, ok := reg.amino[t]; !ok {
				o.fail("", "%s is dispatched but not registered with the amino codec: a legacy-encoded transaction carrying it cannot be decoded", t)
			}
			if !reg.protoMsg[t] {
				o.fail("", "%s is dispatched but not registered as an sdk.Msg implementation with the proto registry: a proto-encoded transaction carrying it cannot be unpacked", t)
			}
		}
		out = append(out, *o)
	}
	if total < 12 {
		o := c.obl(P, "registered-with-both-codecs", "handlers", "dispatched message types found")
		o.unresolved("only %d dispatched message types found; 12 were confirmed by reading", total)
		out = append(out, *o)
	}
	// (2) amino names are unique
	{
		o := c.obl(P, "amino-names-unique", "codec.RegisterStructure", "amino names given to RegisterStructure are pairwise distinct")
		o.Facts = len(reg.amino)
		var names []string
		for n := range reg.aminoName {
			names = append(names, n)
		}
		sort.Strings(names)
		for _, n := range names {
			ts := reg.aminoName[n]
			sort.Strings(ts)
			uniq := ts[:0]
			for i, t := range ts {
				if i == 0 || ts[i-1] != t {
					uniq = append(uniq, t)
				}
			}
			if len(uniq) > 1 {
				o.fail("", "amino name %q is given to %s", n, strings.Join(uniq, " and "))
			}
		}
		if len(reg.amino) < 20 {
			o.unresolved("only %d amino registrations found", len(reg.amino))
		}
		out = append(out, *o)
	}
	// (3) canonical sign bytes
	{
		var fns []*ssa.Function
		for fn := range c.A.AllFns {
			if fn.Blocks == nil || !fnInRepo(fn) || fn.Name() != "GetSignBytes" || fn.Synthetic != "" || fn.Signature.Recv() == nil {
				continue
			}
			fns = append(fns, fn)
		}
		sort.Slice(fns, func(i, j int) bool { return FnName(fns[i]) < FnName(fns[j]) })
		for _, fn := range fns {
			recv := fn.Params[0].Name()
			pkg := strings.ReplaceAll(shortPath(fnPkgPath(fn)), ".", `\.`)
			out = append(out, c.E1.Check(Row{Prop: P, ID: "signbytes-canonical", Fn: FnName(fn),
				Target: RetNotMatch(0, `^types\.MustSortJSON\(\(\*codec\.Codec\)\.MustMarshalJSON\(`+pkg+`\.ModuleCdc, `+recv+`\)\)$`),
				Why:    "sign bytes are the sorted JSON of the message itself under the module codec"}))
		}
		if len(fns) < 15 {
			o := c.obl(P, "signbytes-canonical", "GetSignBytes", "GetSignBytes implementations found")
			o.unresolved("only %d GetSignBytes implementations found; 17 were confirmed by reading", len(fns))
			out = append(out, *o)
		}
	}
	after := `^\(\*codec\.Codec\)\.IsAfterCodecUpgrade\(cdc, height\)$`
	okO, okP := `^assert<codec\.ProtoMarshaler>\(o\)#1$`, `^assert<codec\.ProtoMarshaler>\(ptr\)#1$`
	rows := []Row{
		{Prop: P, ID: "stdsignbytes-canonical", Fn: "x/auth/types.StdSignBytes", Target: RetNotMatch(0, `^types\.MustSortJSON\(|^nil$`), Why: "the transaction sign document is sorted JSON"},
	}
	for _, v := range []string{"BinaryBare", "BinaryLengthPrefixed"} {
		m, u := "(*codec.Codec).Marshal"+v, "(*codec.Codec).Unmarshal"+v
		lm, pm := `^\(\*codec\.LegacyAmino\)\.Marshal`+v+`\(`, `^\(\*codec\.ProtoCodec\)\.Marshal`+v+`\(`
		lu, pu := `^\(\*codec\.LegacyAmino\)\.Unmarshal`+v+`\(`, `^\(\*codec\.ProtoCodec\)\.Unmarshal`+v+`\(`
		rows = append(rows,
			Row{Prop: P, ID: "switch.marshal." + v + ".same-framing", Fn: m,
				Target: CallTo(`^\(\*codec\.(LegacyAmino|ProtoCodec)\)\.(Unm|M)arshal`).Except(`^\(\*codec\.(LegacyAmino|ProtoCodec)\)\.Marshal` + v + `\(`), Why: "every codec the switch delegates to is used in the same framing (bare vs length-prefixed) as the switch function itself"},
			Row{Prop: P, ID: "switch.unmarshal." + v + ".same-framing", Fn: u,
				Target: CallTo(`^\(\*codec\.(LegacyAmino|ProtoCodec)\)\.(Unm|M)arshal`).Except(`^\(\*codec\.(LegacyAmino|ProtoCodec)\)\.Unmarshal` + v + `\(`), Why: "every codec the switch delegates to reads the framing the matching writer produced, on every branch including the upgrade-height fallback"},
			Row{Prop: P, ID: "switch.unmarshal." + v + ".upgrade-height-falls-back-to-proto", Fn: u, Assume: []Lit{T(okP), T(after), T(`^eq\((\d+|codec\.UpgradeCodecHeight), height\)$`), T(`^nonnil\(\(\*codec\.LegacyAmino\)\.Unmarshal` + v + `\(cdc\.legacyCdc, bz, ptr\)\)$`)},
				Barrier: []string{pu}, Target: TargetAnyReturn(), Why: "on the upgrade block itself (writers already use proto) a failed amino read is retried in proto"},
			Row{Prop: P, ID: "switch.marshal." + v + ".after-uses-proto", Fn: m, Assume: []Lit{T(okO), T(after)}, Target: CallTo(lm), TargetMustExist: true, Why: "after the codec upgrade nothing is written in amino"},
			Row{Prop: P, ID: "switch.marshal." + v + ".after-encodes", Fn: m, Assume: []Lit{T(okO), T(after)}, Barrier: []string{pm}, Target: TargetAnyReturn(), Why: "after the codec upgrade objects are written in proto"},
			Row{Prop: P, ID: "switch.marshal." + v + ".before-uses-amino", Fn: m, Assume: []Lit{F(after)}, Target: CallTo(pm), TargetMustExist: true, Why: "before the codec upgrade nothing is written in proto"},
			Row{Prop: P, ID: "switch.marshal." + v + ".before-encodes", Fn: m, Assume: []Lit{F(after)}, Barrier: []string{lm}, Target: TargetAnyReturn(), Why: "before the codec upgrade objects are written in amino"},
			Row{Prop: P, ID: "switch.marshal." + v + ".non-proto-after-fails", Fn: m, Assume: []Lit{F(okO), T(after)}, Target: Success(), Why: "a type without a proto form cannot be written after the upgrade"},
			Row{Prop: P, ID: "switch.unmarshal." + v + ".after-reads-proto", Fn: u, Assume: []Lit{T(okP), T(after), F(`^eq\((\d+|codec\.UpgradeCodecHeight), height\)$`)}, Target: CallTo(lu), TargetMustExist: true, Why: "after the codec upgrade (past the upgrade height itself) what was written in proto is read in proto"},
			Row{Prop: P, ID: "switch.unmarshal." + v + ".after-decodes", Fn: u, Assume: []Lit{T(okP), T(after), F(`^eq\((\d+|codec\.UpgradeCodecHeight), height\)$`)}, Barrier: []string{pu}, Target: TargetAnyReturn(), Why: "after the codec upgrade objects are read in proto"},
			Row{Prop: P, ID: "switch.unmarshal." + v + ".before-reads-amino-first", Fn: u, Assume: []Lit{T(okP), F(after)}, Barrier: []string{lu}, Target: CallTo(pu), TargetMustExist: true, Why: "before the codec upgrade what was written in amino is read in amino (proto only as a fallback)"},
			Row{Prop: P, ID: "switch.unmarshal." + v + ".before-decodes", Fn: u, Assume: []Lit{F(after)}, Barrier: []string{lu}, Target: TargetAnyReturn(), Why: "before the codec upgrade objects are read in amino"},
			Row{Prop: P, ID: "switch.unmarshal." + v + ".non-proto-after-fails", Fn: u, Assume: []Lit{F(okP), T(after)}, Target: Success(), Why: "a type without a proto form cannot be read after the upgrade"},
		)
	}
	out = append(out, c.Rows(rows)...)
	bare2lp := []Rename{{From: "BinaryBare", To: "BinaryLengthPrefixed"}}
	out = append(out,
		c.twins(P, "switch.twins.marshal", "(*codec.Codec).MarshalBinaryBare", "(*codec.Codec).MarshalBinaryLengthPrefixed", bare2lp, "the length-prefixed writer is the bare writer with every delegate replaced by its length-prefixed form"),
		c.twins(P, "switch.twins.unmarshal", "(*codec.Codec).UnmarshalBinaryBare", "(*codec.Codec).UnmarshalBinaryLengthPrefixed", bare2lp, "the length-prefixed reader is the bare reader with every delegate replaced by its length-prefixed form, on every branch"),
	)
	// bulk readers: one fresh decode target per stored value (the generated Unmarshal refills byte fields in place)
	out = append(out, c.decodeTargetsFreshIn(P, true)...)
	return out
}
