package main

import (
	"fmt"
	"go/token"
	"go/types"
	"strings"

	"golang.org/x/tools/go/ssa"
)

// Canonical rendering of SSA values. Rule tables address conditions, call
// sites and operands through these strings; they are built from resolved
// callees and operand provenance (parameters, fields, calls), never from
// source text, so renaming locals, re-ordering statements or re-formatting
// does not change them.

const maxDepth = 12

func stripConv(v ssa.Value) ssa.Value {
	for {
		switch x := v.(type) {
		case *ssa.ChangeInterface:
			v = x.X
		case *ssa.MakeInterface:
			v = x.X
		case *ssa.ChangeType:
			v = x.X
		default:
			return v
		}
	}
}

func calleeName(c *ssa.CallCommon) string {
	if c.IsInvoke() {
		recv := c.Value.Type()
		return "invoke " + shortType(recv) + "." + c.Method.Name()
	}
	switch f := c.Value.(type) {
	case *ssa.Function:
		return FnName(f)
	case *ssa.Builtin:
		return "builtin." + f.Name()
	case *ssa.MakeClosure:
		if fn, ok := f.Fn.(*ssa.Function); ok {
			return FnName(fn)
		}
	}
	return "dyn:" + desc(c.Value, 2)
}

func shortType(t types.Type) string {
	s := types.TypeString(t, func(p *types.Package) string { return shortPath(p.Path()) })
	return s
}

// singleStore returns the only value stored to alloc a in its function, or nil.
func singleStore(a *ssa.Alloc) ssa.Value {
	var val ssa.Value
	n := 0
	refs := a.Referrers()
	if refs == nil {
		return nil
	}
	for _, r := range *refs {
		switch s := r.(type) {
		case *ssa.Store:
			if s.Addr == a {
				n++
				val = s.Val
			}
		case *ssa.UnOp, *ssa.DebugRef:
		case *ssa.FieldAddr, *ssa.IndexAddr:
			// partial writes possible unless the derived address is only read
			if !onlyRead(r.(ssa.Value)) {
				n += 2
			}
		default:
			// escapes (passed by address, captured by closure...)
			n += 2
		}
	}
	if n == 1 {
		// a snapshot of a variable that is assigned again later must keep its
		// own identity: "old := cur; cur.X = ...; use(old)"
		if u, ok := val.(*ssa.UnOp); ok && u.Op == token.MUL {
			if src, ok := u.X.(*ssa.Alloc); ok && src != a && singleStore(src) == nil {
				return nil
			}
		}
		return val
	}
	return nil
}

// onlyRead: the address v (a field/element of an alloc) is only loaded from.
func onlyRead(v ssa.Value) bool {
	refs := v.Referrers()
	if refs == nil {
		return true
	}
	for _, r := range *refs {
		switch x := r.(type) {
		case *ssa.UnOp:
			if x.Op != token.MUL {
				return false
			}
		case *ssa.DebugRef:
		case *ssa.FieldAddr:
			if !onlyRead(x) {
				return false
			}
		case *ssa.IndexAddr:
			if !onlyRead(x) {
				return false
			}
		default:
			return false
		}
	}
	return true
}

func allocName(a *ssa.Alloc) string {
	c := identName(a)
	if c == "" {
		c = "tmp"
	}
	return "var:" + c
}

func desc(v ssa.Value, depth int) string {
	if v == nil {
		return "<nil>"
	}
	if depth <= 0 {
		return "…"
	}
	d := depth - 1
	if call, ok := v.(*ssa.Call); ok && theE1 != nil {
		if callee, args := newCallee(call); callee != nil {
			if rv := theE1.helperValue(call); rv != nil {
				out := ""
				inFrame(callee, args, func() { out = desc(rv, depth) })
				return out
			}
		}
	}
	switch x := v.(type) {
	case *ssa.Parameter:
		if a, ok := paramSubst[x]; ok && a != x {
			return desc(a, depth)
		}
		return identName(x)
	case *ssa.FreeVar:
		return "free:" + identName(x)
	case *ssa.Const:
		if x.IsNil() {
			return "nil"
		}
		if x.Value == nil {
			return "zero:" + shortType(x.Type())
		}
		return x.Value.ExactString()
	case *ssa.Global:
		return shortPath(x.Pkg.Pkg.Path()) + "." + x.Name()
	case *ssa.Function:
		return "func:" + FnName(x)
	case *ssa.Builtin:
		return "builtin." + x.Name()
	case *ssa.MakeClosure:
		if fn, ok := x.Fn.(*ssa.Function); ok {
			return "closure:" + FnName(fn)
		}
		return "closure:?"
	case *ssa.Call:
		var args []string
		for _, a := range x.Call.Args {
			args = append(args, desc(a, d))
		}
		if x.Call.IsInvoke() {
			args = append([]string{desc(x.Call.Value, d)}, args...)
		}
		return calleeName(&x.Call) + "(" + strings.Join(args, ", ") + ")"
	case *ssa.Extract:
		return fmt.Sprintf("%s#%d", desc(x.Tuple, depth), x.Index)
	case *ssa.FieldAddr:
		if a, ok := x.X.(*ssa.Alloc); ok {
			// spilled parameter / single-assignment local: render through the value
			if sv := singleStore(a); sv != nil {
				return desc(sv, d) + "." + fieldName(x.X.Type(), x.Field)
			}
			return allocName(a) + "." + fieldName(x.X.Type(), x.Field)
		}
		return desc(x.X, d) + "." + fieldName(x.X.Type(), x.Field)
	case *ssa.Field:
		return desc(x.X, d) + "." + fieldName(x.X.Type(), x.Field)
	case *ssa.IndexAddr:
		return desc(x.X, d) + "[" + desc(x.Index, d) + "]"
	case *ssa.Index:
		return desc(x.X, d) + "[" + desc(x.Index, d) + "]"
	case *ssa.Lookup:
		return desc(x.X, d) + "[" + desc(x.Index, d) + "]"
	case *ssa.UnOp:
		switch x.Op {
		case token.MUL:
			if a, ok := x.X.(*ssa.Alloc); ok {
				if sv := singleStore(a); sv != nil {
					return desc(sv, d)
				}
				return allocName(a)
			}
			return desc(x.X, depth)
		case token.NOT:
			return "!" + desc(x.X, depth)
		case token.ARROW:
			return "<-" + desc(x.X, d)
		default:
			return x.Op.String() + desc(x.X, d)
		}
	case *ssa.BinOp:
		return "(" + desc(x.X, d) + " " + x.Op.String() + " " + desc(x.Y, d) + ")"
	case *ssa.Alloc:
		return "&" + allocName(x)
	case *ssa.Phi:
		if phiResolver != nil {
			if v := phiResolver(x); v != nil && v != x {
				return desc(v, d)
			}
		}
		c := identName(x)
		if c == "" {
			c = "?"
		}
		return "phi:" + c
	case *ssa.MakeInterface:
		return desc(x.X, depth)
	case *ssa.ChangeInterface:
		return desc(x.X, depth)
	case *ssa.ChangeType:
		return desc(x.X, depth)
	case *ssa.Convert:
		return "conv<" + shortType(x.Type()) + ">(" + desc(x.X, d) + ")"
	case *ssa.TypeAssert:
		return "assert<" + shortType(x.AssertedType) + ">(" + desc(x.X, d) + ")"
	case *ssa.Slice:
		if a, ok := x.X.(*ssa.Alloc); ok && a.Comment == "varargs" {
			return "[" + strings.Join(varargElems(a, d), ", ") + "]"
		}
		lo, hi := "", ""
		if x.Low != nil {
			lo = desc(x.Low, d)
		}
		if x.High != nil {
			hi = desc(x.High, d)
		}
		return desc(x.X, d) + "[" + lo + ":" + hi + "]"
	case *ssa.MakeMap:
		return "makemap"
	case *ssa.MakeSlice:
		return "makeslice<" + shortType(x.Type()) + ">"
	case *ssa.MakeChan:
		return "makechan"
	case *ssa.Next:
		return "next(" + desc(x.Iter, d) + ")"
	case *ssa.Range:
		return "range(" + desc(x.X, d) + ")"
	case *ssa.SliceToArrayPointer:
		return desc(x.X, d)
	}
	return fmt.Sprintf("?%T", v)
}

func fieldName(t types.Type, i int) string {
	if p, ok := t.Underlying().(*types.Pointer); ok {
		t = p.Elem()
	}
	if s, ok := t.Underlying().(*types.Struct); ok && i < s.NumFields() {
		return s.Field(i).Name()
	}
	return fmt.Sprintf("f%d", i)
}

// Atom is a normalised branch condition with polarity.
type Atom struct {
	Str string // canonical text of the positive form
	Neg bool   // the SSA condition equals !Str
	// Swap: for a strict comparison lt(a, b), the text of lt(b, a) — if that is known to hold, Str is false
	Swap string
}

var cmpMethods = map[string]string{"LT": "LT", "GT": "GT", "LTE": "LTE", "GTE": "GTE"}

// condAtom normalises the condition of an If.
//
//	x != nil      -> nonnil(x)            x == nil   -> !nonnil(x)
//	a < b         -> lt(a,b)              a >= b     -> !lt(a,b)
//	a > b         -> lt(b,a)              a <= b     -> !lt(b,a)
//	a == b        -> eq(a,b) (operands ordered)      a != b -> !eq(a,b)
//	X.LT(Y)       -> LT(X,Y);  X.GTE(Y) -> !LT(X,Y); X.GT(Y) -> LT(Y,X); X.LTE(Y) -> !LT(Y,X)
//	!c            -> negation
func condAtom(v ssa.Value) Atom {
	neg := false
	for {
		v = stripConv(v)
		if u, ok := v.(*ssa.UnOp); ok && u.Op == token.NOT {
			neg = !neg
			v = u.X
			continue
		}
		break
	}
	switch x := v.(type) {
	case *ssa.BinOp:
		l, r := x.X, x.Y
		isNil := func(v ssa.Value) bool { c, ok := v.(*ssa.Const); return ok && c.IsNil() }
		switch x.Op {
		case token.NEQ, token.EQL:
			if isNil(r) || isNil(l) {
				o := l
				if isNil(l) {
					o = r
				}
				a := Atom{Str: "nonnil(" + desc(o, maxDepth) + ")", Neg: neg}
				if x.Op == token.EQL {
					a.Neg = !a.Neg
				}
				return a
			}
			ls, rs := desc(l, maxDepth), desc(r, maxDepth)
			if ls > rs {
				ls, rs = rs, ls
			}
			a := Atom{Str: "eq(" + ls + ", " + rs + ")", Neg: neg}
			if x.Op == token.NEQ {
				a.Neg = !a.Neg
			}
			return a
		case token.LSS:
			return Atom{Str: "lt(" + desc(l, maxDepth) + ", " + desc(r, maxDepth) + ")", Neg: neg, Swap: "lt(" + desc(r, maxDepth) + ", " + desc(l, maxDepth) + ")"}
		case token.GEQ:
			return Atom{Str: "lt(" + desc(l, maxDepth) + ", " + desc(r, maxDepth) + ")", Neg: !neg, Swap: "lt(" + desc(r, maxDepth) + ", " + desc(l, maxDepth) + ")"}
		case token.GTR:
			return Atom{Str: "lt(" + desc(r, maxDepth) + ", " + desc(l, maxDepth) + ")", Neg: neg, Swap: "lt(" + desc(l, maxDepth) + ", " + desc(r, maxDepth) + ")"}
		case token.LEQ:
			return Atom{Str: "lt(" + desc(r, maxDepth) + ", " + desc(l, maxDepth) + ")", Neg: !neg, Swap: "lt(" + desc(l, maxDepth) + ", " + desc(r, maxDepth) + ")"}
		}
	case *ssa.Call:
		if f := x.Call.StaticCallee(); f != nil && f.Signature.Recv() != nil && len(x.Call.Args) == 2 {
			if _, ok := cmpMethods[f.Name()]; ok {
				rt := shortType(f.Signature.Recv().Type())
				a, b := desc(x.Call.Args[0], maxDepth), desc(x.Call.Args[1], maxDepth)
				switch f.Name() {
				case "LT":
					return Atom{Str: "LT<" + rt + ">(" + a + ", " + b + ")", Neg: neg, Swap: "LT<" + rt + ">(" + b + ", " + a + ")"}
				case "GTE":
					return Atom{Str: "LT<" + rt + ">(" + a + ", " + b + ")", Neg: !neg, Swap: "LT<" + rt + ">(" + b + ", " + a + ")"}
				case "GT":
					return Atom{Str: "LT<" + rt + ">(" + b + ", " + a + ")", Neg: neg, Swap: "LT<" + rt + ">(" + a + ", " + b + ")"}
				case "LTE":
					return Atom{Str: "LT<" + rt + ">(" + b + ", " + a + ")", Neg: !neg, Swap: "LT<" + rt + ">(" + a + ", " + b + ")"}
				}
			}
		}
	}
	return Atom{Str: desc(v, maxDepth), Neg: neg}
}

// varargElems renders the elements stored into a compiler-made varargs array.
func varargElems(a *ssa.Alloc, depth int) []string {
	n := 0
	if p, ok := a.Type().Underlying().(*types.Pointer); ok {
		if arr, ok := p.Elem().Underlying().(*types.Array); ok {
			n = int(arr.Len())
		}
	}
	out := make([]string, n)
	for i := range out {
		out[i] = "?"
	}
	if a.Referrers() == nil {
		return out
	}
	for _, r := range *a.Referrers() {
		ia, ok := r.(*ssa.IndexAddr)
		if !ok || ia.Referrers() == nil {
			continue
		}
		c, ok := ia.Index.(*ssa.Const)
		if !ok {
			continue
		}
		idx := int(c.Int64())
		for _, rr := range *ia.Referrers() {
			if st, ok := rr.(*ssa.Store); ok && st.Addr == ia && idx < n {
				out[idx] = desc(st.Val, depth)
			}
		}
	}
	return out
}

// phiLeaves expands phi nodes and returns the distinct non-phi values that
// can flow into v.
func phiLeaves(v ssa.Value) []ssa.Value {
	seen := map[ssa.Value]bool{}
	var out []ssa.Value
	var walk func(ssa.Value)
	walk = func(x ssa.Value) {
		x = stripConv(x)
		if seen[x] {
			return
		}
		seen[x] = true
		if p, ok := x.(*ssa.Phi); ok {
			for _, e := range p.Edges {
				walk(e)
			}
			return
		}
		out = append(out, x)
	}
	walk(v)
	return out
}
