package main

import (
	"fmt"
	"sort"
	"strings"

	"golang.org/x/tools/go/ssa"
)

// E5: atomicity of read-modify-write on a mutex-protected object.
//
// An *atomic section* on type T (mutex field m) is a method of T that calls
// m.Lock() and defers m.Unlock().  It is a writer if, while holding the lock,
// it reaches a mutation of T's protected fields; otherwise a reader.
// Effects are summarised per function as (object access path relative to the
// function's parameters → reader/writer mask) and translated at call sites,
// so that operations on different stores (evidence store vs session store) are
// kept apart.  A function F performs a *split read-modify-write* when a call
// that reads object o dominates a call that writes o, the second depends on
// the first (data flow into its arguments, or control dependence on a branch
// fed by the first call's results), and F does not itself hold a mutex from
// before the first to after the second.

type lockSpec struct {
	PkgPath, Type, Mutex string   // e.g. x/pocketcore/types, CacheStorage, l
	MutatorRe            string   // calls (rendered) that mutate the protected state
	Scope                []string // package path suffixes whose functions are examined
	ObjectRe             string   // only objects whose access path matches are reported
}

type secKind int

const (
	secR secKind = 1
	secW secKind = 2
)

type effSet map[string]secKind // access path -> mask

type e5Result struct {
	sections map[*ssa.Function]secKind
	effects  map[*ssa.Function]effSet
}

// accessPath renders v relative to the parameters of its function:
// p0.Field.Field, g:<global>.Field, or "?" when the origin is unknown.
func accessPath(v ssa.Value, depth int) string {
	if depth > 6 {
		return "?"
	}
	v = stripConv(v)
	switch x := v.(type) {
	case *ssa.Parameter:
		for i, p := range x.Parent().Params {
			if p == x {
				return fmt.Sprintf("p%d", i)
			}
		}
	case *ssa.Global:
		return "g:" + x.Name()
	case *ssa.FieldAddr:
		return accessPath(x.X, depth+1) + "." + fieldName(x.X.Type(), x.Field)
	case *ssa.Field:
		return accessPath(x.X, depth+1) + "." + fieldName(x.X.Type(), x.Field)
	case *ssa.UnOp:
		if x.Op.String() == "*" {
			if a, ok := x.X.(*ssa.Alloc); ok {
				if sv := singleStore(a); sv != nil {
					return accessPath(sv, depth+1)
				}
				return "?"
			}
			return accessPath(x.X, depth+1)
		}
	case *ssa.Phi:
		// all edges must agree
		p := ""
		for _, e := range x.Edges {
			q := accessPath(e, depth+1)
			if p == "" {
				p = q
			} else if p != q {
				return "?"
			}
		}
		if p != "" {
			return p
		}
	case *ssa.Call:
		// accessor helpers returning a node: treat as opaque but stable per callee
		if f := x.Call.StaticCallee(); f != nil {
			return "call:" + f.Name()
		}
	}
	return "?"
}

// translate a callee-relative path into the caller's frame.
func translatePath(path string, call *ssa.CallCommon) string {
	if !strings.HasPrefix(path, "p") {
		return path
	}
	rest := ""
	head := path
	if i := strings.Index(path, "."); i > 0 {
		head, rest = path[:i], path[i:]
	}
	var idx int
	if _, err := fmt.Sscanf(head, "p%d", &idx); err != nil {
		return "?"
	}
	args := call.Args
	if call.IsInvoke() {
		args = append([]ssa.Value{call.Value}, args...)
	}
	if idx >= len(args) {
		return "?"
	}
	base := accessPath(args[idx], 0)
	if base == "?" && rest == "" {
		return "?"
	}
	out := base + rest
	if strings.Count(out, ".") > 4 {
		return "?"
	}
	return out
}

func (c *Ctx) e5Analyse(sp lockSpec) *e5Result {
	res := &e5Result{sections: map[*ssa.Function]secKind{}, effects: map[*ssa.Function]effSet{}}
	lockRe := `^\(\*sync\.Mutex\)\.Lock\(.*\.` + sp.Mutex + `\)$`
	inScope := func(f *ssa.Function) bool {
		p := fnPkgPath(f)
		for _, s := range sp.Scope {
			if strings.HasSuffix(p, s) {
				return true
			}
		}
		return false
	}
	var fns []*ssa.Function
	for f := range c.A.AllFns {
		if f.Blocks != nil && inScope(f) {
			fns = append(fns, f)
		}
	}
	sort.Slice(fns, func(i, j int) bool { return FnName(fns[i]) < FnName(fns[j]) })
	for _, f := range fns {
		if f.Signature.Recv() == nil {
			continue
		}
		n := namedOf(f.Signature.Recv().Type())
		if n == nil || n.Obj().Name() != sp.Type {
			continue
		}
		if len(c.callSites(f, lockRe)) == 0 {
			continue
		}
		hasDefer := false
		for _, b := range f.Blocks {
			for _, ins := range b.Instrs {
				if d, ok := ins.(*ssa.Defer); ok && strings.Contains(calleeName(&d.Call), "sync.Mutex).Unlock") {
					hasDefer = true
				}
			}
		}
		if hasDefer {
			res.sections[f] = secR
		}
	}
	mut := c.E1.re(sp.MutatorRe)
	var mutates func(f *ssa.Function, seen map[*ssa.Function]bool) bool
	mutates = func(f *ssa.Function, seen map[*ssa.Function]bool) bool {
		if seen[f] || f.Blocks == nil {
			return false
		}
		seen[f] = true
		for _, s := range c.allCalls(f) {
			if mut.MatchString(s.Desc) {
				return true
			}
		}
		for _, e := range c.A.Out[f] {
			if _, isSec := res.sections[e.Callee]; isSec || !inScope(e.Callee) {
				continue
			}
			if mutates(e.Callee, seen) {
				return true
			}
		}
		return false
	}
	for f := range res.sections {
		if mutates(f, map[*ssa.Function]bool{}) {
			res.sections[f] = secR | secW
		}
	}
	// effect summaries (fixpoint)
	for changed := true; changed; {
		changed = false
		for _, f := range fns {
			if _, isSec := res.sections[f]; isSec {
				continue
			}
			eff := res.effects[f]
			if eff == nil {
				eff = effSet{}
				res.effects[f] = eff
			}
			for _, b := range f.Blocks {
				for _, ins := range b.Instrs {
					for p, k := range res.siteEffects(c, f, ins) {
						if eff[p]|k != eff[p] {
							eff[p] |= k
							changed = true
						}
					}
				}
			}
		}
	}
	return res
}

// siteEffects: effects of one call instruction, in the caller's frame.
func (r *e5Result) siteEffects(c *Ctx, caller *ssa.Function, ins ssa.Instruction) effSet {
	ci, ok := ins.(ssa.CallInstruction)
	if !ok {
		return nil
	}
	out := effSet{}
	for _, e := range c.A.Out[caller] {
		if e.Site != ins {
			continue
		}
		if k, ok := r.sections[e.Callee]; ok {
			// the protected object is the receiver
			cc := ci.Common()
			var recv ssa.Value
			if cc.IsInvoke() {
				recv = cc.Value
			} else if len(cc.Args) > 0 {
				recv = cc.Args[0]
			}
			p := "?"
			if recv != nil {
				p = accessPath(recv, 0)
			}
			out[p] |= k
			continue
		}
		for p, k := range r.effects[e.Callee] {
			out[translatePath(p, ci.Common())] |= k
		}
	}
	return out
}

// dependsOn: does instruction b use (transitively, within the function) a
// value defined by call a, or is it control dependent on a branch whose
// condition does?
func dependsOn(a ssa.Value, b ssa.Instruction) bool {
	tainted := map[ssa.Value]bool{a: true}
	fn := b.Parent()
	for changed := true; changed; {
		changed = false
		for _, blk := range fn.Blocks {
			for _, ins := range blk.Instrs {
				v, isVal := ins.(ssa.Value)
				var ops []*ssa.Value
				ops = ins.Operands(ops)
				use := false
				for _, op := range ops {
					if op != nil && *op != nil && tainted[*op] {
						use = true
					}
				}
				if !use {
					continue
				}
				if isVal && !tainted[v] {
					tainted[v] = true
					changed = true
				}
				if st, ok := ins.(*ssa.Store); ok && !tainted[st.Addr] {
					tainted[st.Addr] = true
					changed = true
				}
			}
		}
	}
	var ops []*ssa.Value
	ops = b.Operands(ops)
	for _, op := range ops {
		if op != nil && *op != nil && tainted[*op] {
			return true
		}
	}
	for d := b.Block().Idom(); d != nil; d = d.Idom() {
		if iff, ok := d.Instrs[len(d.Instrs)-1].(*ssa.If); ok && tainted[iff.Cond] {
			return true
		}
	}
	return false
}

// holdsLockAcross: F locks some mutex before a and defers its release.
func (c *Ctx) holdsLockAcross(f *ssa.Function, a, b ssa.Instruction) bool {
	for _, s := range c.callSites(f, `^\(\*sync\.(RW)?Mutex\)\.Lock\(`) {
		if !dominatesInstr(s.Ins, a) {
			continue
		}
		for _, blk := range f.Blocks {
			for _, ins := range blk.Instrs {
				if d, ok := ins.(*ssa.Defer); ok && strings.Contains(calleeName(&d.Call), "Mutex).Unlock") && dominatesInstr(d, a) {
					return true
				}
			}
		}
	}
	return false
}

func pathsOverlap(a, b string) bool {
	if a == b || a == "?" || b == "?" {
		return true
	}
	// "?.F" (unknown base, known field) overlaps any path ending in ".F"
	if strings.HasPrefix(a, "?.") && strings.HasSuffix(b, a[1:]) {
		return true
	}
	if strings.HasPrefix(b, "?.") && strings.HasSuffix(a, b[1:]) {
		return true
	}
	return false
}

// splitRMW: one obligation per in-scope function that writes a matching
// object: it contains no split read-modify-write on it.
func (c *Ctx) splitRMW(P, rule string, sp lockSpec, must []string, why string) []Obligation {
	r := c.e5Analyse(sp)
	objRe := c.E1.re(sp.ObjectRe)
	var out []Obligation
	reported := map[string]bool{}
	var fns []*ssa.Function
	for f := range r.effects {
		fns = append(fns, f)
	}
	sort.Slice(fns, func(i, j int) bool { return FnName(fns[i]) < FnName(fns[j]) })
	for _, f := range fns {
		writes := false
		for p, k := range r.effects[f] {
			if k&secW != 0 && (objRe.MatchString(p) || p == "?") {
				writes = true
			}
		}
		if !writes {
			continue
		}
		sites := c.allCalls(f)
		effs := make([]effSet, len(sites))
		for i := range sites {
			effs[i] = r.siteEffects(c, f, sites[i].Ins)
		}
		var hitA, hitB *site
		hitObj := ""
	outer:
		for i := range sites {
			av, ok := sites[i].Ins.(ssa.Value)
			if !ok {
				continue
			}
			for pa, ka := range effs[i] {
				if ka&secR == 0 {
					continue
				}
				for j := range sites {
					if i == j || !dominatesInstr(sites[i].Ins, sites[j].Ins) {
						continue
					}
					for pb, kb := range effs[j] {
						if kb&secW == 0 || !pathsOverlap(pa, pb) {
							continue
						}
						obj := pa
						if obj == "?" {
							obj = pb
						}
						if !objRe.MatchString(obj) {
							continue
						}
						if !dependsOn(av, sites[j].Ins) || c.holdsLockAcross(f, sites[i].Ins, sites[j].Ins) {
							continue
						}
						hitA, hitB, hitObj = &sites[i], &sites[j], obj
						break outer
					}
				}
			}
		}
		name := FnName(f)
		o := c.obl(P, rule, name, fmt.Sprintf("%s performs no read of a %s atomic section followed by a dependent write section on the same store outside one critical section — %s", name, sp.Type, why))
		o.Pos = c.A.FnPos(f)
		o.Facts = len(sites)
		if hitA != nil {
			o.fail(c.A.Pos(hitB.Ins.Pos()), "on store %s: the value/decision obtained under the lock by %s (at %s) is written back under a separate lock acquisition by %s: a concurrent relay can interleave between the two critical sections (lost update / stale check)", hitObj, shortCall(hitA.Desc), c.A.Pos(hitA.Ins.Pos()), shortCall(hitB.Desc))
		}
		reported[name] = true
		out = append(out, *o)
	}
	for _, m := range must {
		if !reported[m] {
			o := c.obl(P, rule, m, "function expected to write "+sp.Type)
			if c.A.Fn(m) == nil {
				o.unresolved("not found")
			} else {
				o.fail("", "%s no longer reaches any %s writer section: rule anchors are stale", m, sp.Type)
				o.set(Unresolved)
			}
			out = append(out, *o)
		}
	}
	if len(r.sections) < 3 {
		o := c.obl(P, rule+".sections", sp.Type, "atomic sections discovered")
		o.fail("", "only %d lock-taking methods found on %s", len(r.sections), sp.Type)
		out = append(out, *o)
	}
	return out
}

func shortCall(d string) string {
	depth := 0
	for i, ch := range d {
		switch ch {
		case '(':
			if i > 0 && depth == 0 && d[i-1] != ')' && !strings.HasPrefix(d[:i], "(") || (depth == 0 && i > 0 && strings.Contains(d[:i], ").")) {
				return d[:i]
			}
			depth++
		case ')':
			depth--
		}
	}
	return d
}
