package main

// Floors on the number of obligations each property evaluates on a tree where its
// anchors resolve: the counts confirmed on the pinned tree (row tables always produce one
// obligation per row, so the floor is the count itself; for the properties whose obligations
// are enumerated from the code — one per map range, per node-writing function, per
// GetSignBytes implementation, per loop — the floor is about 80 % of today's count, so that
// removing a few such constructs is not mistaken for a broken check while a rule that
// silently stops matching most of its sites is). Fewer obligations than the floor makes
// the check BROKEN (exit 2), never a pass.
var minOblFloor = map[string]int{
	"C01": 87, "C02": 41, "C03": 59, "C04": 45, "C05": 65, "C06": 17, "C07": 21, "C08": 23,
	"C09": 36, // enumerated: functions writing Node fields
	"C10": 29, // enumerated: functions with append / index sites
	"C11": 18,
	"C12": 38, // enumerated: map ranges, clock sites, goroutines on the consensus path
	"C13": 36, // enumerated: cache inventory
	"C14": 59, "C15": 18, "C16": 19, "C17": 35, "C18": 28, "C19": 44, "C20": 26, "C21": 39, "C23": 37, "C24": 68, "C25": 48,
	"C26": 26,
	"C27": 12, // enumerated: loops in the arithmetic closure
	"C28": 52, "C30": 27, "C31": 8, "C32": 52, "C33": 29, "C34": 19, "C35": 41, "C36": 34, "C37": 37,
	"C38": 52, // enumerated: GetSignBytes implementations
	"C39": 13, "C40": 23, "C42": 42, "C43": 42,
}
