package main

import (
	"fmt"
	"go/token"
	"regexp"
	"sort"
	"strings"

	"golang.org/x/tools/go/ssa"
)

// decodeTargetsFresh (C43): the collectors behind export and import walk a store and decode each
// value into a Go variable, then keep it (append, store into an element, hand to a callback). The
// generated protobuf Unmarshal does not reset its receiver and refills byte slices in place
// (append(m.X[:0], ...)), so a variable that is shared between iterations makes every kept value alias
// the last one decoded: the exported list is no longer the stored state. Structural rule: wherever a
// decode call sits inside a loop and the decoded value is kept, the variable decoded into is allocated
// inside that loop (one per iteration). One obligation per decode-in-loop site reachable from the
// modules' ExportGenesis / InitGenesis.
var decodeCallRe = regexp.MustCompile(`Unmarshal`)

func (c *Ctx) decodeTargetsFresh(P string) []Obligation { return c.decodeTargetsFreshIn(P, false) }

// decodeTargetsFreshIn: with everywhere, every repository function is examined (C38: whatever is stored
// decodes back to an equal value, wherever it is read in bulk); otherwise only what the genesis
// export / import reaches (C43).
func (c *Ctx) decodeTargetsFreshIn(P string, everywhere bool) []Obligation {
	var fns []*ssa.Function
	if everywhere {
		for f := range c.A.AllFns {
			if f.Blocks != nil {
				fns = append(fns, f)
			}
		}
	} else {
		var roots []*ssa.Function
		for _, m := range genModules {
			for _, n := range []string{m.export, m.init} {
				if f := c.A.FnOpt(n); f != nil {
					roots = append(roots, f)
				}
			}
		}
		for f := range c.A.Reach(roots, nil) {
			if f.Blocks != nil {
				fns = append(fns, f)
			}
		}
	}
	sort.Slice(fns, func(i, j int) bool { return FnName(fns[i]) < FnName(fns[j]) })
	var out []Obligation
	seenKey := map[string]int{}
	for _, fn := range fns {
		if strings.HasSuffix(c.A.Fset.Position(fn.Pos()).Filename, ".pb.go") {
			continue // generated decoders, not collectors
		}
		loops := naturalLoops(fn)
		if len(loops) == 0 {
			continue
		}
		for _, b := range fn.Blocks {
			for _, ins := range b.Instrs {
				call, ok := ins.(*ssa.Call)
				if !ok || !decodeCallRe.MatchString(calleeName(&call.Call)) {
					continue
				}
				// innermost loop containing the call
				var li *loopInfo
				for _, l := range loops {
					if l.Blocks[b] && (li == nil || len(l.Blocks) < len(li.Blocks)) {
						li = l
					}
				}
				if li == nil {
					continue
				}
				for _, arg := range call.Call.Args {
					al, isAlloc := stripConv(arg).(*ssa.Alloc)
					if !isAlloc {
						continue
					}
					key := FnName(fn) + ":" + allocName(al)
					seenKey[key]++
					if n := seenKey[key]; n > 1 {
						key += fmt.Sprintf("#%d", n)
					}
					o := c.obl(P, "decode.target-fresh-per-iteration", key, "in "+FnName(fn)+": the variable "+allocName(al)+" that "+calleeName(&call.Call)+" decodes into inside a loop is allocated per iteration whenever the decoded value is kept — a shared variable makes every kept value alias the last one decoded (generated Unmarshal refills byte fields in place)")
					o.Pos = c.A.Pos(call.Pos())
					o.Facts = len(li.Blocks)
					if !li.Blocks[al.Block()] {
						if keptAt := keptInLoop(al, li); keptAt != nil {
							o.fail(c.A.Pos(keptAt.Pos()), "%s is allocated outside the loop at %s (block b%d) and its decoded value is kept at %s: all kept values share the decode target", allocName(al), c.A.Pos(al.Pos()), al.Block().Index, c.A.Pos(keptAt.Pos()))
						}
					}
					out = append(out, *o)
				}
			}
		}
	}
	return out
}

// keptInLoop: an instruction inside the loop that keeps the value held by alloc (a load that is
// appended, stored into an element/field/map, or passed on), or the address itself.
func keptInLoop(al *ssa.Alloc, li *loopInfo) ssa.Instruction {
	refs := al.Referrers()
	if refs == nil {
		return nil
	}
	var keeps func(v ssa.Value, depth int) ssa.Instruction
	keeps = func(v ssa.Value, depth int) ssa.Instruction {
		if depth > 4 {
			return nil
		}
		rs := v.Referrers()
		if rs == nil {
			return nil
		}
		for _, r := range *rs {
			if !li.Blocks[r.Block()] {
				continue
			}
			switch x := r.(type) {
			case *ssa.Call:
				if bi, isB := x.Call.Value.(*ssa.Builtin); isB {
					if bi.Name() == "append" {
						return x
					}
					continue
				}
				if decodeCallRe.MatchString(calleeName(&x.Call)) {
					continue
				}
				return x // handed to another function (callback, setter)
			case *ssa.Store:
				if x.Val == v {
					return x
				}
			case *ssa.MapUpdate:
				if x.Value == v || x.Key == v {
					return x
				}
			case *ssa.Slice, *ssa.MakeInterface, *ssa.ChangeType, *ssa.Convert, *ssa.Phi:
				if k := keeps(x.(ssa.Value), depth+1); k != nil {
					return k
				}
			}
		}
		return nil
	}
	for _, r := range *refs {
		if !li.Blocks[r.Block()] {
			continue
		}
		if u, ok := r.(*ssa.UnOp); ok && u.Op == token.MUL {
			if k := keeps(u, 0); k != nil {
				return k
			}
		}
	}
	return nil
}
