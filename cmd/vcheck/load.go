package main

import (
	"crypto/sha256"
	"encoding/hex"
	"fmt"
	"go/token"
	"go/types"
	"io"
	"os"
	"path/filepath"
	"sort"
	"strings"

	"golang.org/x/tools/go/callgraph"
	"golang.org/x/tools/go/callgraph/cha"
	"golang.org/x/tools/go/callgraph/vta"
	"golang.org/x/tools/go/packages"
	"golang.org/x/tools/go/ssa"
	"golang.org/x/tools/go/ssa/ssautil"
)

const repoMod = "github.com/pokt-network/pocket-core"

// Analysis is the loaded, type-checked and SSA-built program plus the
// repo-scoped call graph every rule engine works on.
type Analysis struct {
	RepoDir string
	Fset    *token.FileSet
	Pkgs    []*packages.Package
	PkgByID map[string]*packages.Package
	Prog    *ssa.Program
	SSAPkgs map[string]*ssa.Package // by import path, in-repo only
	AllFns  map[*ssa.Function]bool
	// fnIndex: short name -> function, see FnName
	fnIndex map[string][]*ssa.Function
	CG      *callgraph.Graph
	CHA     *callgraph.Graph // the class-hierarchy graph VTA refines (kept for the thorough-tier audit)
	// repo-scoped edges
	Out map[*ssa.Function][]Edge
	In  map[*ssa.Function][]Edge

	NPackages  int
	NFunctions int // in-repo functions with bodies
	NEdges     int
	Renamed    int // values rendered under a recorded name (identifier-independent rendering)
	Unresolved []string // anchors that failed to resolve: any entry => exit 2
}

type Edge struct {
	Caller, Callee *ssa.Function
	Site           ssa.Instruction // may be nil for synthetic callback edges
	Kind           string          // "static", "dynamic", "callback"
}

func inRepo(path string) bool {
	return path == repoMod || strings.HasPrefix(path, repoMod+"/")
}

func fnPkgPath(f *ssa.Function) string {
	if f == nil {
		return ""
	}
	if f.Pkg != nil {
		return f.Pkg.Pkg.Path()
	}
	if f.Origin() != nil && f.Origin() != f {
		return fnPkgPath(f.Origin())
	}
	if p := f.Parent(); p != nil {
		return fnPkgPath(p)
	}
	if o := f.Object(); o != nil && o.Pkg() != nil {
		return o.Pkg().Path()
	}
	// wrappers / bound method closures / thunks: use the receiver's package
	if f.Signature != nil && f.Signature.Recv() != nil {
		if n := namedOf(f.Signature.Recv().Type()); n != nil && n.Obj().Pkg() != nil {
			return n.Obj().Pkg().Path()
		}
	}
	return ""
}

func namedOf(t types.Type) *types.Named {
	for {
		switch u := t.(type) {
		case *types.Pointer:
			t = u.Elem()
		case *types.Named:
			return u
		case *types.Alias:
			t = types.Unalias(u)
		default:
			return nil
		}
	}
}

func fnInRepo(f *ssa.Function) bool { return inRepo(fnPkgPath(f)) }

// FnName is the canonical short name used in rule tables:
//
//	x/auth.ValidateTransaction
//	x/nodes/keeper.(Keeper).StakeValidator
//	store/iavl.(*MutableTree).SaveVersion
//	x/auth.NewAnteHandler$1
func FnName(f *ssa.Function) string {
	s := f.String()
	s = strings.ReplaceAll(s, repoMod+"/", "")
	s = strings.ReplaceAll(s, repoMod, "ROOT")
	return s
}

func shortPath(p string) string {
	p = strings.TrimPrefix(p, repoMod+"/")
	return p
}

// RepoDigest hashes every *.go, go.mod, go.sum in the working tree.
func RepoDigest(dir string) (string, int, error) {
	var files []string
	err := filepath.Walk(dir, func(p string, info os.FileInfo, err error) error {
		if err != nil {
			return err
		}
		if info.IsDir() {
			if info.Name() == ".git" {
				return filepath.SkipDir
			}
			return nil
		}
		n := info.Name()
		if strings.HasSuffix(n, ".go") || n == "go.mod" || n == "go.sum" {
			files = append(files, p)
		}
		return nil
	})
	if err != nil {
		return "", 0, err
	}
	sort.Strings(files)
	h := sha256.New()
	for _, f := range files {
		rel, _ := filepath.Rel(dir, f)
		fmt.Fprintf(h, "%s\x00", rel)
		fh, err := os.Open(f)
		if err != nil {
			return "", 0, err
		}
		io.Copy(h, fh)
		fh.Close()
		h.Write([]byte{0})
	}
	return hex.EncodeToString(h.Sum(nil))[:24], len(files), nil
}

func Load(repoDir string, goarch string) (*Analysis, error) {
	env := append(os.Environ(), "GOFLAGS=-mod=mod", "GOPROXY=off", "GOSUMDB=off", "GOTOOLCHAIN=local", "GOWORK=off")
	if goarch != "" {
		env = append(env, "GOARCH="+goarch)
	}
	cfg := &packages.Config{
		Mode:  packages.LoadAllSyntax,
		Dir:   repoDir,
		Tests: false,
		Env:   env,
	}
	pkgs, err := packages.Load(cfg, "./...")
	if err != nil {
		return nil, fmt.Errorf("packages.Load: %w", err)
	}
	a := &Analysis{RepoDir: repoDir, PkgByID: map[string]*packages.Package{}, SSAPkgs: map[string]*ssa.Package{},
		AllFns: map[*ssa.Function]bool{}, fnIndex: map[string][]*ssa.Function{},
		Out: map[*ssa.Function][]Edge{}, In: map[*ssa.Function][]Edge{}}
	var terrs []string
	for _, p := range pkgs {
		if !inRepo(p.PkgPath) {
			continue
		}
		a.NPackages++
		a.PkgByID[p.PkgPath] = p
		for _, e := range p.Errors {
			terrs = append(terrs, fmt.Sprintf("%s: %s", p.PkgPath, e.Error()))
		}
	}
	if len(terrs) > 0 {
		return nil, fmt.Errorf("type/load errors in repo packages:\n  %s", strings.Join(terrs, "\n  "))
	}
	if a.NPackages < 40 {
		return nil, fmt.Errorf("only %d in-repo packages loaded (expected >= 40)", a.NPackages)
	}
	a.Pkgs = pkgs
	if len(pkgs) > 0 {
		a.Fset = pkgs[0].Fset
	}
	prog, _ := ssautil.AllPackages(pkgs, ssa.InstantiateGenerics)
	prog.Build()
	a.Prog = prog
	for _, sp := range prog.AllPackages() {
		if inRepo(sp.Pkg.Path()) {
			a.SSAPkgs[sp.Pkg.Path()] = sp
		}
	}
	all := ssautil.AllFunctions(prog)
	for f := range all {
		if fnInRepo(f) {
			a.AllFns[f] = true
			if f.Blocks != nil {
				a.NFunctions++
			}
			a.fnIndex[FnName(f)] = append(a.fnIndex[FnName(f)], f)
		}
	}
	a.Renamed = applyNames(a)
	a.CHA = cha.CallGraph(prog)
	a.CG = vta.CallGraph(all, a.CHA)
	a.buildScoped()
	return a, nil
}

// WithCHA returns a view of the same program whose repo-scoped edges come from
// the class-hierarchy graph instead of VTA (a superset of the dynamic edges).
func (a *Analysis) WithCHA() *Analysis {
	b := *a
	b.CG = a.CHA
	b.Out, b.In = map[*ssa.Function][]Edge{}, map[*ssa.Function][]Edge{}
	b.NEdges = 0
	b.Unresolved = nil
	b.buildScoped()
	return &b
}

// buildScoped restricts the VTA graph to in-repo callers/callees and adds
// callback edges for in-repo function values handed to external callees.
func (a *Analysis) buildScoped() {
	seen := map[[2]*ssa.Function]bool{}
	add := func(e Edge) {
		k := [2]*ssa.Function{e.Caller, e.Callee}
		// keep one edge per (caller,callee,site)
		_ = k
		a.Out[e.Caller] = append(a.Out[e.Caller], e)
		a.In[e.Callee] = append(a.In[e.Callee], e)
		a.NEdges++
	}
	for f, n := range a.CG.Nodes {
		if f == nil || !a.AllFns[f] {
			continue
		}
		for _, e := range n.Out {
			callee := e.Callee.Func
			if callee == nil {
				continue
			}
			if a.AllFns[callee] {
				kind := "dynamic"
				if e.Site != nil && e.Site.Common().StaticCallee() != nil {
					kind = "static"
				}
				add(Edge{Caller: f, Callee: callee, Site: e.Site, Kind: kind})
			}
		}
		// callbacks: function values passed to external (or any) call sites, and
		// closures created in f are considered called from f (defer/go/sort.Slice/...)
		for _, b := range f.Blocks {
			for _, ins := range b.Instrs {
				var ops []*ssa.Value
				ops = ins.Operands(ops[:0])
				for _, op := range ops {
					if op == nil || *op == nil {
						continue
					}
					var tgt *ssa.Function
					switch v := (*op).(type) {
					case *ssa.Function:
						tgt = v
					case *ssa.MakeClosure:
						if fn, ok := v.Fn.(*ssa.Function); ok {
							tgt = fn
						}
					}
					if tgt == nil || !a.AllFns[tgt] {
						continue
					}
					// skip the callee position of a static call (already an edge)
					if c, ok := ins.(ssa.CallInstruction); ok && c.Common().Value == *op {
						continue
					}
					k := [2]*ssa.Function{f, tgt}
					if seen[k] {
						continue
					}
					seen[k] = true
					add(Edge{Caller: f, Callee: tgt, Site: ins, Kind: "callback"})
				}
			}
		}
	}
	// MakeClosure instructions are values, handled above through operands of
	// the instructions that use them; also link parent->anon directly.
	for f := range a.AllFns {
		for _, an := range f.AnonFuncs {
			k := [2]*ssa.Function{f, an}
			if !seen[k] {
				seen[k] = true
				add(Edge{Caller: f, Callee: an, Kind: "callback"})
			}
		}
	}
}

// Fn resolves a rule-table function name to exactly one function.
func (a *Analysis) Fn(name string) *ssa.Function {
	fs := a.fnIndex[name]
	if len(fs) == 1 {
		return fs[0]
	}
	// tolerate value/pointer receiver spelling: try both
	if len(fs) == 0 {
		alt := ""
		if strings.Contains(name, ".(*") {
			alt = strings.Replace(name, ".(*", ".(", 1)
		} else if strings.Contains(name, ".(") {
			alt = strings.Replace(name, ".(", ".(*", 1)
		}
		if alt != "" {
			if fs2 := a.fnIndex[alt]; len(fs2) == 1 {
				return fs2[0]
			}
		}
	}
	a.Unresolved = append(a.Unresolved, fmt.Sprintf("function %q resolves to %d objects", name, len(fs)))
	return nil
}

// FnOpt is Fn without recording an unresolved anchor.
func (a *Analysis) FnOpt(name string) *ssa.Function {
	fs := a.fnIndex[name]
	if len(fs) >= 1 {
		return fs[0]
	}
	return nil
}

func (a *Analysis) Pos(p token.Pos) string {
	if !p.IsValid() {
		return "-"
	}
	ps := a.Fset.Position(p)
	rel, err := filepath.Rel(a.RepoDir, ps.Filename)
	if err != nil {
		rel = ps.Filename
	}
	return fmt.Sprintf("%s:%d", rel, ps.Line)
}

func (a *Analysis) FnPos(f *ssa.Function) string {
	if f == nil {
		return "-"
	}
	return a.Pos(f.Pos())
}

// Reach computes the repo-scoped forward closure from roots.
func (a *Analysis) Reach(roots []*ssa.Function, stop func(*ssa.Function) bool) map[*ssa.Function]*ssa.Function {
	return a.ReachOpt(roots, stop, false)
}

// ReachOpt is Reach; with skipGo, functions that are only started as
// goroutines (go f(), go func(){...}()) are not entered.
func (a *Analysis) ReachOpt(roots []*ssa.Function, stop func(*ssa.Function) bool, skipGo bool) map[*ssa.Function]*ssa.Function {
	goOnly := map[[2]*ssa.Function]bool{}
	if skipGo {
		// (caller, callee) pairs whose every site is a go statement or a closure
		// created only to be handed to one
		type st struct{ goSites, other int }
		cnt := map[[2]*ssa.Function]*st{}
		for f, es := range a.Out {
			for _, e := range es {
				k := [2]*ssa.Function{f, e.Callee}
				s := cnt[k]
				if s == nil {
					s = &st{}
					cnt[k] = s
				}
				switch site := e.Site.(type) {
				case *ssa.Go:
					s.goSites++
				case *ssa.MakeClosure:
					// closure value: does it only flow into go statements?
					onlyGo := site.Referrers() != nil && len(*site.Referrers()) > 0
					if site.Referrers() != nil {
						for _, r := range *site.Referrers() {
							if _, isGo := r.(*ssa.Go); !isGo {
								if _, dbg := r.(*ssa.DebugRef); !dbg {
									onlyGo = false
								}
							}
						}
					}
					if onlyGo {
						s.goSites++
					} else {
						s.other++
					}
				case nil:
					// parent->anonymous-function link: decided by the MakeClosure sites
				default:
					s.other++
				}
			}
		}
		for k, s := range cnt {
			if s.goSites > 0 && s.other == 0 {
				goOnly[k] = true
			}
		}
	}
	parent := map[*ssa.Function]*ssa.Function{}
	var q []*ssa.Function
	for _, r := range roots {
		if r == nil {
			continue
		}
		if _, ok := parent[r]; !ok {
			parent[r] = nil
			q = append(q, r)
		}
	}
	for len(q) > 0 {
		f := q[0]
		q = q[1:]
		if stop != nil && stop(f) {
			continue
		}
		for _, e := range a.Out[f] {
			if skipGo && goOnly[[2]*ssa.Function{f, e.Callee}] {
				continue
			}
			if _, ok := parent[e.Callee]; !ok {
				parent[e.Callee] = f
				q = append(q, e.Callee)
			}
		}
	}
	return parent
}

func pathTo(parent map[*ssa.Function]*ssa.Function, f *ssa.Function) []string {
	var p []string
	for f != nil {
		p = append(p, FnName(f))
		f = parent[f]
	}
	for i, j := 0, len(p)-1; i < j; i, j = i+1, j-1 {
		p[i], p[j] = p[j], p[i]
	}
	return p
}

// Callers returns the distinct in-repo callers of f (excluding callback-only
// edges when staticOnly is true).
func (a *Analysis) Callers(f *ssa.Function) []*ssa.Function {
	m := map[*ssa.Function]bool{}
	seen := map[*ssa.Function]bool{}
	var walk func(*ssa.Function)
	walk = func(g *ssa.Function) {
		if seen[g] {
			return
		}
		seen[g] = true
		for _, e := range a.In[g] {
			// pointer-receiver wrappers, bound-method closures and thunks are
			// transparent: their callers are the real callers
			if e.Caller.Synthetic != "" && e.Caller.Synthetic != "package initializer" {
				walk(e.Caller)
				continue
			}
			m[e.Caller] = true
		}
	}
	walk(f)
	var out []*ssa.Function
	for c := range m {
		out = append(out, c)
	}
	sort.Slice(out, func(i, j int) bool { return FnName(out[i]) < FnName(out[j]) })
	return out
}
