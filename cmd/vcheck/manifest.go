package main

import (
	"encoding/json"
	"fmt"
	"os"
	"path/filepath"
	"sort"
)

const setupCmd = "cd /verif && export GOFLAGS=-mod=mod GOPROXY=off GOSUMDB=off GOTOOLCHAIN=local && unset GOWORK && go build -o bin/vcheck ./cmd/vcheck"

func writeManifest() {
	var ids []string
	for id := range registry {
		ids = append(ids, id)
	}
	sort.Strings(ids)
	var checks []map[string]interface{}
	for _, id := range ids {
		p := registry[id]
		lt := p.LevelText
		if lt == "" {
			lt = "Static decision of the structural clause(s) named in the evidence explanation, for all paths of the code that exists; the behavioural statement (equality of observed values over all inputs/histories) is not decided."
		}
		checks = append(checks, map[string]interface{}{
			"property_id":         id,
			"quick_cmd":           fmt.Sprintf("./bin/vcheck -p %s -tier quick", id),
			"thorough_cmd":        fmt.Sprintf("./bin/vcheck -p %s -tier thorough", id),
			"evidence_file":       fmt.Sprintf("/verif/evidence/%s.json", id),
			"replay_cmd_template": "./bin/vcheck -replay {path}",
			"engine":              "vcheck",
			"level_claimed": map[string]interface{}{
				"category":   "other",
				"text":       lt + " Decided: " + p.Explanation + explanationAddenda[p.ID] + " Not decided: " + p.NotDecided,
				"design_ref": p.DesignRef,
			},
			"level_note": "Trusted base: go/types, go/ssa and callgraph/vta from golang.org/x/tools v0.29.0; the frozen rule tables in /verif/cmd/vcheck; external libraries call back only through values handed to them; reflection/unsafe/cgo not modelled.",
			"technique":  p.Technique,
		})
	}
	var na []map[string]string
	sort.Slice(notApplicable, func(i, j int) bool { return notApplicable[i].ID < notApplicable[j].ID })
	for _, n := range notApplicable {
		if registry[n.ID] != nil {
			continue
		}
		na = append(na, map[string]string{"property_id": n.ID, "reason": n.Reason})
	}
	m := map[string]interface{}{
		"version":   1,
		"setup_cmd": setupCmd,
		"hooks": map[string]interface{}{
			"guard":            "verif",
			"enable":           "none needed: the checks read /repo's working tree with go/packages and never build or run it; no hook commits exist",
			"baseline_off_cmd": "cd /repo && export GOFLAGS=-mod=mod GOPROXY=off GOSUMDB=off && go test -vet=off -count=1 -timeout 25m ./...",
			"source_commits":   []string{},
			"add_only":         true,
		},
		"engines": []map[string]interface{}{{
			"name":              "vcheck",
			"path":              "/verif/cmd/vcheck",
			"serves_properties": ids,
			"kind_free_text":    "repo-specific static analyser over type-checked syntax, go/ssa and a repo-scoped VTA call graph: pruned-CFG reachability rows, who-may-call tables, dominance/pairing, determinism data-flow, sibling agreement",
		}},
		"checks":         checks,
		"not_applicable": na,
		"notes":          "All checks share one analysis pass per working-tree digest (cached under /verif/.cache, keyed by a hash of every .go/go.mod/go.sum in /repo and of the checker binary). Exit 0 = all obligations discharged (known findings printed as KNOWN-FINDING), 1 = VIOLATION, 2 = no verdict (load/type error or unresolved rule anchor).",
	}
	b, _ := json.MarshalIndent(m, "", " ")
	if err := os.WriteFile(filepath.Join(verifDir, "MANIFEST.json"), append(b, '\n'), 0o644); err != nil {
		fatal(2, "%v", err)
	}
	fmt.Printf("MANIFEST.json: %d checks, %d not applicable\n", len(checks), len(na))
}
