package main

import "golang.org/x/tools/go/ssa"

// C21 index agreement (delete-before-rekey), C23 edit-stake immutability,
// C24 unstaking, C25 slashing and jailing.

const (
	fnEditStakeVal  = "(x/nodes/keeper.Keeper).EditStakeValidator"
	fnEditStakeApp  = "(x/apps/keeper.Keeper).EditStakeApplication"
	fnAppValStaking = "(x/apps/keeper.Keeper).ValidateApplicationStaking"
	fnAppValEdit    = "(x/apps/keeper.Keeper).ValidateEditStake"
	fnJail          = "(x/nodes/keeper.Keeper).JailValidator"
	fnUnjail        = "(x/nodes/keeper.Keeper).UnjailValidator"
	fnForceUnstake  = "(x/nodes/keeper.Keeper).ForceValidatorUnstake"
	fnLegacyForce   = "(x/nodes/keeper.Keeper).LegacyForceValidatorUnstake"
	fnBeginUnstake  = "(x/nodes/keeper.Keeper).BeginUnstakingValidator"
	fnFinishUnstake = "(x/nodes/keeper.Keeper).FinishUnstakingValidator"
	fnMatureVals    = "(x/nodes/keeper.Keeper).unstakeAllMatureValidators"
	fnUpdateTM      = "(x/nodes/keeper.Keeper).UpdateTendermintValidators"
	fnValSig        = "(x/nodes/keeper.Keeper).handleValidatorSignature"
	curVal          = `\(x/nodes/keeper\.Keeper\)\.GetValidator\(k, ctx, validatorNew\.Address\)#0`
	aDiffNeg        = `^\(types\.BigInt\)\.IsNegative\(\(types\.BigInt\)\.Sub\(amount, currentValidator\.StakedTokens\)\)$`
	aCurOutSet      = `^nonnil\(currentValidator\.OutputAddress\)$`
	aSignerIsCurOut = `^\(types\.Address\)\.Equals\(signer, currentValidator\.OutputAddress\)$`
	aNewOutEqCur    = `^\(types\.Address\)\.Equals\(newValidtor\.OutputAddress, currentValidator\.OutputAddress\)$`
	aDelegSame      = `^types\.CompareStringMaps\[uint32\]\(currentValidator\.RewardDelegators, newValidtor\.RewardDelegators\)$`
	aSignerIsCurOp  = `^\(types\.Address\)\.Equals\(signer, currentValidator\.Address\)$`
	aBelowMin       = `^LT<types\.BigInt>\(\(x/nodes/types\.Validator\)\.GetTokens\((var:)?validator\), types\.NewInt\(` + kN + `MinimumStake\(k, ctx\)\)\)$`
)

func init() {
	register(&Prop{
		ID: "C23", Title: "Edit-stake respects the documented immutability rules",
		Technique: "pruned-CFG reachability (rejection rows), field-store whitelist, must-pass-through rows",
		DesignRef: "DESIGN.md §3 C23, Appendix A.2/A.3",
		Explanation: "nodes ValidateEditStake rejects a lower stake, an output-address change not signed by the current output address (after the editor upgrade) or any output change (before it), a reward-delegator change not signed by the operator, an edit of a node waiting to unstake, an uncovered bump and a same-bin bump; every accepted stake of an existing staked node/app passes ValidateEditStake; EditStakeValidator / EditStakeApplication write only the whitelisted fields of the stored record (never address, public key, jailed flag, status or unstaking time) and store that same record; output address and delegators are written only behind their feature gates.",
		NotDecided:  "nothing value-level is needed; parameter values of the bin arithmetic are not evaluated.",
		MinObl:      22,
		Run:         runC23,
	})
	register(&Prop{
		ID: "C25", Title: "Slashing and jailing follow the documented rules",
		Technique: "same-operand and bounded-operand checks, pruned-CFG reachability rows, who-may-call tables",
		DesignRef: "DESIGN.md §3 C25",
		Explanation: "simpleSlash and slash burn exactly the value removed from the record, and that value is max(min(x, StakedTokens), 0); a node left below the minimum stake is force-unstaked (jailed and put in the waiting set) and only then; JailValidator leaves the staking set before setting Jailed and is reached only from downtime handling and forced unstake; ValidateUnjailMessage refuses unknown nodes, unauthorised signers, stake below minimum, non-jailed nodes and a jail period not yet over in block time; UnjailValidator runs only after it.",
		NotDecided:  "the downtime window arithmetic; exclusion of jailed nodes from sessions is decided under C33.",
		MinObl:      20,
		Run:         runC25,
	})
	register(&Prop{
		ID: "C24", Title: "Unstaking returns the stake exactly once, and only when due",
		Technique: "who-may-call chains over the repo-scoped call graph, guarded-effect and must-pass-through rows",
		DesignRef: "DESIGN.md §3 C24",
		Explanation: "stake leaves a pool towards an account only in FinishUnstaking*, which is called only from the mature-queue sweep, only after ValidateFinishUnstaking succeeded, and is followed in the same iteration by deletion of the record; the sweep is bounded by the block header time; nodes begin unstaking only through the waiting set, released only when height % blocksPerSession == 0; the waiting set is filled only by begin-unstake, forced unstake and the unjail defence; applications begin unstaking only from their own begin-unstake handler.",
		NotDecided:  "'first block whose time ≥ completion time' and exactly-once as runtime facts; duplicate queue entries are harmless by the found-check but not claimed.",
		MinObl:      14,
		Run:         runC24,
	})
	register(&Prop{
		ID: "C21", Title: "Node lookup indexes always agree with node records",
		Technique: "delete-before-rekey must-pass-through rows, re-index-by-status rows, who-may-call on index writers",
		DesignRef: "DESIGN.md §3 C21",
		Explanation: "every function that changes an index-determining field of a stored node (stake, chains, jailed flag, status, unstaking time) deletes the index entry computed from the old value before it stores the record (removeValidatorTokens, EditStakeValidator with a copy taken before mutation, JailValidator, BeginUnstakingValidator, FinishUnstakingValidator, LegacyForceValidatorUnstake); SetValidator re-indexes by status (unstaking → queue, staked ∧ ¬jailed → power index); index entries are written only by those functions.",
		NotDecided:  "set equality per height; duplicate unstaking-queue entries from repeated SetValidator on an unstaking node.",
		MinObl:      14,
		Run:         runC21,
	})
}

func runC23(c *Ctx) []Obligation {
	P := "C23"
	on := func(l ...Lit) []Lit { return l }
	rows := []Row{
		// nodes ValidateEditStake
		{Prop: P, ID: "nodes.no-lower-stake", Fn: fnValEditStake, Assume: on(T(aDiffNeg)), Target: Success(), Why: "an edit never lowers the stake"},
		{Prop: P, ID: "nodes.output-edit-needs-output-signer", Fn: fnValEditStake,
			Assume: on(T(aNCUST), T(aOEDIT), T(aCurOutSet), F(aSignerIsCurOut), F(aNewOutEqCur)), Target: Success(),
			Why: "after the editor upgrade the output address changes only when the current output address signs"},
		{Prop: P, ID: "nodes.output-immutable-before-editor", Fn: fnValEditStake,
			Assume: on(T(aNCUST), F(aOEDIT), T(aCurOutSet), F(aNewOutEqCur)), Target: Success(),
			Why: "before the editor upgrade a set output address cannot change"},
		{Prop: P, ID: "nodes.delegators-need-operator", Fn: fnValEditStake,
			Assume: on(T(aNCUST), T(aRDELEG), F(aDelegSame), F(aSignerIsCurOp)), Target: Success(),
			Why: "reward delegators change only when the operator signs"},
		{Prop: P, ID: "nodes.waiting-cannot-edit", Fn: fnValEditStake,
			Assume: on(T(aNCUST), T(`^`+kN+`IsWaitingValidator\(k, ctx, currentValidator\.Address\)$`)), Target: Success(),
			Why: "a node waiting to unstake cannot be edited"},
		{Prop: P, ID: "nodes.bump-covered.noncustodial", Fn: fnValEditStake,
			Assume: on(F(`^\(types\.BigInt\)\.IsZero\(`), T(aNCUST), F(`^invoke x/nodes/types\.AuthKeeper\.HasCoins\(k\.AccountKeeper, ctx, signer, `)), Target: Success(),
			Why: "a stake bump must be covered by the signer's balance"},
		{Prop: P, ID: "nodes.bump-covered.custodial", Fn: fnValEditStake,
			Assume: on(F(`^\(types\.BigInt\)\.IsZero\(`), F(aNCUST), F(`^invoke x/nodes/types\.AuthKeeper\.HasCoins\(k\.AccountKeeper, ctx, currentValidator\.Address, `)), Target: Success(),
			Why: "before the non-custodial upgrade by the node's own balance"},
		{Prop: P, ID: "nodes.same-bin-rejected", Fn: fnValEditStake,
			Assume: on(T(`IsAfterNamedFeatureActivationHeight\(k\.Cdc, invoke types\.Ctx\.BlockHeight\(ctx\), "RSCAL"\)`), T(`IsAfterNamedFeatureActivationHeight\(k\.Cdc, invoke types\.Ctx\.BlockHeight\(ctx\), "VEDIT"\)`),
				T(`^LT<types\.BigInt>\(amount, `+kN+`ServicerStakeWeightCeiling\(k, ctx\)\)$`),
				F(`^LT<types\.BigInt>\(currentValidator\.StakedTokens, \(types\.BigInt\)\.Sub\(amount, \(types\.BigInt\)\.Mod\(amount, `+kN+`ServicerStakeFloorMultiplier\(k, ctx\)\)\)\)$`)),
			Target: Success(), Why: "below the ceiling an edit must reach a new stake bin"},
		// routing into ValidateEditStake
		{Prop: P, ID: "nodes.staked-node-goes-through-edit-validation", Fn: fnValStaking,
			Assume:  on(T(aValFound), T(aUpgradeHeight), T(`^\(x/nodes/types\.Validator\)\.IsStaked\(`+curVal+`\)$`)),
			Barrier: []string{`^` + kN + `ValidateEditStake\(k, ctx, ` + curVal + `, validatorNew, amount, signerAddress\)$`},
			Target:  Success(), Why: "a stake message for an already staked node is accepted only through ValidateEditStake(current, new, amount, signer)"},
		{Prop: P, ID: "nodes.non-staked-existing-must-be-unstaked", Fn: fnValStaking,
			Assume: on(T(aValFound), F(`^\(x/nodes/types\.Validator\)\.IsStaked\(`+curVal+`\)$`), F(`^\(x/nodes/types\.Validator\)\.IsUnstaked\(`+curVal+`\)$`)),
			Target: Success(), Why: "an unstaking node cannot be re-staked or edited"},
		{Prop: P, ID: "nodes.stake-routes-staked-to-edit", Fn: "(x/nodes/keeper.Keeper).StakeValidator",
			Assume: on(T(aUpgradeHeight), T(`^`+kN+`GetValidator\(k, ctx, (var:)?validator\.Address\)#1$`), T(`^\(x/nodes/types\.Validator\)\.IsStaked\(`)),
			Target: CallTo(`coinsFrom|AddStakedTokens|UpdateStatus|` + kN + `SetValidator\(`), Why: "an already staked node is never re-initialised: it goes through EditStakeValidator"},
		// EditStakeValidator: field whitelist and gates
		{Prop: P, ID: "nodes.edit.field-whitelist", Fn: fnEditStakeVal,
			Target: StoreTo(`^(var:)?currentValidator\.`).Except(`^(var:)?currentValidator\.(StakedTokens|OutputAddress|RewardDelegators|Chains|ServiceURL)$`),
			Why:    "an edit writes only stake, output address, delegators, chains and service URL of the stored record"},
		{Prop: P, ID: "nodes.edit.stores-current", Fn: fnEditStakeVal,
			Target: CallTo(kN + `SetValidator\(`).Except(`^` + kN + `SetValidator\(k, ctx, (var:)?currentValidator\)$`),
			Why:    "the record stored is the current one (address, key, jailed, status untouched), not the submitted one"},
		{Prop: P, ID: "nodes.edit.output-gate.noncustodial", Fn: fnEditStakeVal,
			Assume: on(F(aNCUST)), Target: StoreTo(`currentValidator\.(OutputAddress|RewardDelegators)$`), Why: "output address and delegators are untouched before the non-custodial upgrade"},
		{Prop: P, ID: "nodes.edit.output-gate.editor", Fn: fnEditStakeVal,
			Assume: on(F(aOEDIT), T(`^nonnil\((var:)?currentValidator\.OutputAddress\)$`)), Target: StoreTo(`currentValidator\.OutputAddress$`), Why: "a set output address is rewritten only after the editor upgrade"},
		{Prop: P, ID: "nodes.edit.delegator-gate", Fn: fnEditStakeVal,
			Assume: on(F(aRDELEG)), Target: StoreTo(`currentValidator\.RewardDelegators$`), Why: "delegators are written only after the reward-delegator upgrade"},
		{Prop: P, ID: "nodes.edit.stake-only-up", Fn: fnEditStakeVal,
			Assume: on(F(`^\(types\.BigInt\)\.IsPositive\(`)), Target: StoreTo(`currentValidator\.StakedTokens$`), Why: "StakedTokens is written only for a positive difference"},
		// apps
		{Prop: P, ID: "apps.no-lower-stake", Fn: fnAppValEdit,
			Assume: on(T(`^\(types\.BigInt\)\.IsNegative\(\(types\.BigInt\)\.Sub\(amount, currentApp\.StakedTokens\)\)$`)), Target: Success(), Why: "an application edit never lowers the stake"},
		{Prop: P, ID: "apps.bump-covered", Fn: fnAppValEdit,
			Assume: on(F(`^\(types\.BigInt\)\.IsZero\(`), F(`^invoke x/apps/types\.AuthKeeper\.HasCoins\(k\.AccountKeeper, ctx, currentApp\.Address, `)), Target: Success(), Why: "a bump must be covered by the application's balance"},
		{Prop: P, ID: "apps.staked-app-goes-through-edit-validation", Fn: fnAppValStaking,
			Assume:  on(T(`^`+kP+`GetApplication\(k, ctx, application\.Address\)#1$`), T(aUpgradeHeight), T(`^\(x/apps/types\.Application\)\.IsStaked\(`)),
			Barrier: []string{`^` + kP + `ValidateEditStake\(k, ctx, ` + kP + `GetApplication\(k, ctx, application\.Address\)#0, amount\)$`},
			Target:  Success(), Why: "a stake message for an already staked application is accepted only through ValidateEditStake(current, amount)"},
		{Prop: P, ID: "apps.non-staked-existing-must-be-unstaked", Fn: fnAppValStaking,
			Assume: on(T(`^`+kP+`GetApplication\(k, ctx, application\.Address\)#1$`), F(`^\(x/apps/types\.Application\)\.IsStaked\(`), F(`^\(x/apps/types\.Application\)\.IsUnstaked\(`)),
			Target: Success(), Why: "an unstaking application cannot be re-staked or edited"},
		{Prop: P, ID: "apps.edit.field-whitelist", Fn: fnEditStakeApp,
			Target: StoreTo(`^(var:)?application\.`).Except(`^(var:)?application\.(MaxRelays|Chains)$`),
			Why:    "an application edit writes only relays and chains fields directly (stake through AddStakedTokens)"},
		{Prop: P, ID: "apps.edit.stores-current", Fn: fnEditStakeApp,
			Target: CallTo(kP + `SetApplication\(`).Except(`^` + kP + `SetApplication\(k, ctx, (var:)?application\)$`),
			Why:    "the record stored is the current application"},
		{Prop: P, ID: "apps.stake-routes-staked-to-edit", Fn: "(x/apps/keeper.Keeper).StakeApplication",
			Assume: on(T(aUpgradeHeight), T(`^`+kP+`GetApplication\(k, ctx, (var:)?application\.Address\)#1$`), T(`^\(x/apps/types\.Application\)\.IsStaked\(`)),
			Target: CallTo(`coinsFrom|AddStakedTokens|UpdateStatus|` + kP + `SetApplication\(`), Why: "an already staked application goes through EditStakeApplication"},
	}
	out := c.Rows(rows)
	out = append(out, appsEditRouting(c, P)...)
	out = append(out, nodesStakeRouting(c, P)...)
	out = append(out, mapEqualityHelper(c, P)...)
	return out
}

func runC25(c *Ctx) []Obligation {
	P := "C25"
	var out []Obligation
	for _, f := range []string{"(x/nodes/keeper.Keeper).simpleSlash", "(x/nodes/keeper.Keeper).slash"} {
		out = append(out, c.sameOperand(P, "slash.burn-equals-removed", f, `^`+kN+`removeValidatorTokens\(`, 3, `^`+kN+`burnStakedTokens\(`, 2, "a slash burns exactly the amount removed from the node's stake"))
		out = append(out, c.Rows([]Row{
			{Prop: P, ID: "slash.bounded-by-stake", Fn: f,
				Target: CallTo(`^` + kN + `removeValidatorTokens\(`).Except(`^` + kN + `removeValidatorTokens\(k, ctx, (var:)?validator, types\.MaxInt\(types\.MinInt\(.*, (var:)?validator\.StakedTokens\), types\.ZeroInt\(\)\)\)$`),
				Why:    "the amount removed is max(min(x, StakedTokens), 0): never more than the stake, never negative"},
			{Prop: P, ID: "slash.force-only-below-min", Fn: f,
				Assume: []Lit{F(aBelowMin)}, Target: CallTo(`ForceValidatorUnstake\(`),
				Why: "a node is force-unstaked only when its stake fell below the minimum"},
			{Prop: P, ID: "slash.below-min-is-forced", Fn: f,
				Assume:  []Lit{T(aBelowMin), F(`\.Empty\((var:)?validator\.Address\)$`), T(`^nonnil\((var:)?validator\.Address\)$`), F(`^nonnil\(` + kN + `removeValidatorTokens\(`), F(`^nonnil\(` + kN + `burnStakedTokens\(`)},
				Barrier: []string{`^` + kN + `(ForceValidatorUnstake|LegacyForceValidatorUnstake)\(k, ctx, (var:)?validator\)$`},
				Target:  TargetAnyReturn(), Why: "every completed slash that leaves the node below the minimum stake force-unstakes it"},
			{Prop: P, ID: "slash.invalid-no-effect", Fn: f,
				Assume: []Lit{T(`\.Empty\((var:)?validator\.Address\)$`), F(`^nonnil\((var:)?validator\.Address\)$`)}, Target: CallTo(`removeValidatorTokens|burnStakedTokens|ForceValidatorUnstake`),
				Why: "a rejected slash (unknown/unstaked node, non-positive factor) has no effect"},
		})...)
	}
	rows := []Row{
		{Prop: P, ID: "force.jails", Fn: fnForceUnstake,
			Barrier: []string{`^` + kN + `JailValidator\(k, ctx, validator\.Address\)$`}, Target: TargetAnyReturn(), TargetMustExist: true,
			Why: "a forced unstake jails the node"},
		{Prop: P, ID: "force.queues-unstake", Fn: fnForceUnstake,
			Barrier: []string{`^` + kN + `SetWaitingValidator\(k, ctx, validator\)$`}, Target: TargetAnyReturn(), TargetMustExist: true,
			Why: "and puts it in the waiting-to-unstake set"},
		{Prop: P, ID: "jail.leaves-staking-set-first", Fn: fnJail,
			Barrier: []string{`^` + kN + `deleteValidatorFromStakingSet\(k, ctx, (var:)?validator\)$`}, Target: StoreTo(`validator\.Jailed$`), TargetMustExist: true,
			Why: "the power-index entry is removed before the jailed flag is set"},
		{Prop: P, ID: "jail.stores", Fn: fnJail,
			Assume:  []Lit{T(`^` + kN + `GetValidator\(k, ctx, addr\)#1$`), F(`^(var:)?validator\.Jailed$`), F(`^\(x/nodes/types\.Validator\)\.IsUnstaked\(`)},
			Barrier: []string{`^` + kN + `SetValidator\(k, ctx, (var:)?validator\)$`}, Target: TargetAnyReturn(),
			Why: "a found, unjailed, not-unstaked node is stored with the flag"},
		{Prop: P, ID: "downtime.threshold-gates", Fn: fnValSig,
			Assume: []Lit{F(`^lt\(\(signedBlocksWindow - minSignedPerWindow\), (var:)?signInfo\.MissedBlocksCounter\)$`)},
			Target: CallTo(kN + `(slash|JailValidator)\(`), Why: "no downtime slash or jail below the missed-blocks threshold"},
		{Prop: P, ID: "downtime.jails-and-slashes", Fn: fnValSig,
			Assume:  []Lit{T(`^lt\(\(signedBlocksWindow - minSignedPerWindow\), (var:)?signInfo\.MissedBlocksCounter\)$`), T(`^` + kN + `GetValidator\(k, ctx, addr\)#1$`), T(`^` + kN + `GetValidatorSigningInfo\(k, ctx, addr\)#1$`)},
			Barrier: []string{`^` + kN + `JailValidator\(k, ctx, addr\)$`}, Target: TargetAnyReturn(),
			Why: "past the threshold the node is jailed"},
		// unjail validation (signer rows are under C14)
		{Prop: P, ID: "unjail.min-stake", Fn: fnValUnjail,
			Assume: []Lit{T(`^LT<types\.BigInt>\(\(x/nodes/types\.Validator\)\.GetTokens\(` + kN + `GetValidator\(k, ctx, msg\.ValidatorAddr\)#0\), types\.NewInt\(` + kN + `MinimumStake\(k, ctx\)\)\)$`)},
			Target: Success(), Why: "no unjail below the minimum stake"},
		{Prop: P, ID: "unjail.must-be-jailed", Fn: fnValUnjail,
			Assume: []Lit{F(`^\(x/nodes/types\.Validator\)\.IsJailed\(`)}, Target: Success(), Why: "only a jailed node can be unjailed"},
		{Prop: P, ID: "unjail.signing-info", Fn: fnValUnjail,
			Assume: []Lit{F(`^` + kN + `GetValidatorSigningInfo\(`)}, Target: Success(), Why: "signing info must exist"},
		{Prop: P, ID: "unjail.block-time", Fn: fnValUnjail,
			Assume: []Lit{T(`^\(time\.Time\)\.Before\(invoke types\.Ctx\.BlockHeader\(ctx\)\.Time, ` + kN + `GetValidatorSigningInfo\(k, ctx, .*\)#0\.JailedUntil\)$`)},
			Target: Success(), Why: "no unjail while the jail period has not passed in block time"},
		{Prop: P, ID: "unjail.signer", Fn: fnValUnjail,
			Assume: []Lit{F(`^x/nodes/keeper\.ValidateValidatorMsgSigner\(` + kN + `GetValidator\(k, ctx, msg\.ValidatorAddr\)#0, msg\.Signer, k\)#1$`)},
			Target: Success(), Why: "only an authorised signer"},
		{Prop: P, ID: "unjail.gated", Fn: fnNodeUnjailH,
			Assume: []Lit{T(`^nonnil\(` + kN + `ValidateUnjailMessage\(k, ctx, (var:)?msg\)#1\)$`)}, Target: CallTo(`UnjailValidator`),
			Why: "UnjailValidator only after successful validation"},
		{Prop: P, ID: "unjail.target-is-validated-address", Fn: fnNodeUnjailH,
			Target: CallTo(`UnjailValidator`).Except(`^` + kN + `UnjailValidator\(k, ctx, ` + kN + `ValidateUnjailMessage\(k, ctx, (var:)?msg\)#0\)$`),
			Why:    "the node unjailed is the one validated"},
		{Prop: P, ID: "unjailValidator.clears-flag-and-stores", Fn: fnUnjail,
			Assume:  []Lit{T(`^` + kN + `GetValidator\(k, ctx, addr\)#1$`), T(`^(var:)?validator\.Jailed$`)},
			Barrier: []string{`^` + kN + `SetValidator\(k, ctx, (var:)?validator\)$`}, Target: TargetAnyReturn(),
			Why: "a jailed node is stored again (SetValidator re-indexes it)"},
	}
	out = append(out, c.Rows(rows)...)
	out = append(out,
		c.whoMayCall(P, "jail.callers", fnJail, []string{kN + `(ForceValidatorUnstake|handleValidatorSignature)`}, "nodes are jailed only for downtime or falling below the minimum stake"),
		c.whoMayCall(P, "unjail.callers", fnUnjail, []string{`x/nodes\.(handleMsgUnjail|legacyHandleMsgUnjail)`}, "nodes are unjailed only by the unjail message handlers"),
		c.whoMayCall(P, "force.callers", fnForceUnstake, []string{kN + `(simpleSlash|slash|IncrementJailedValidators)`}, "forced unstake only from slashing and the max-jailed-blocks sweep"),
		c.whoMayCall(P, "slash.callers", "(x/nodes/keeper.Keeper).slash", []string{kN + `(handleDoubleSign|handleValidatorSignature)`}, "fractional slashes only for double-sign evidence and downtime"),
		c.whoMayCall(P, "simpleSlash.callers", "(x/nodes/keeper.Keeper).simpleSlash", []string{kN + `BurnForChallenge`}, "absolute slashes only from challenge/replay burns"),
	)
	// the jail period is one stored timestamp, read only by the unjail validation; nothing but the jailing
	// branch (and the zero value a new record starts with) may write it
	out = append(out,
		c.fieldTable(P, "jailed-until.writers", "x/nodes/types", "ValidatorSigningInfo", "JailedUntil", false,
			[]string{`\(x/nodes/keeper\.Keeper\)\.(handleValidatorSignature|StakeValidator)`, `x/nodes\.InitGenesis`, `\(\*x/nodes/types\.ValidatorSigningInfo\)\.(Unmarshal|XXX_\w+)`, `x/nodes/types\.(\w*SigningInfo\w*)`},
			"the end of the jail period is set when a node is jailed for downtime and starts at the epoch for a new record; the window roll-over and the counters' reset leave it alone"),
	)
	out = append(out, c.Rows([]Row{
		{Prop: P, ID: "downtime.sets-jail-period-from-block-time", Fn: fnValSig,
			Target: StoreTo(`JailedUntil$`).ExceptVal(`^\(time\.Time\)\.Add\(invoke types\.Ctx\.BlockHeader\(ctx\)\.Time, downtimeJailDuration\)$`),
			Why:    "the jail period runs from this block's time for the configured duration"},
		{Prop: P, ID: "downtime.params-from-store", Fn: "x/nodes/keeper.BeginBlocker",
			Target: CallTo(`^` + kN + `handleValidatorSignature\(`).Except(`^` + kN + `handleValidatorSignature\(k, ctx, (.*)\.Validator\.Address, (.*)\.Validator\.Power, (.*)\.SignedLastBlock, ` + kN + `SignedBlocksWindow\(k, ctx\), ` + kN + `MinBlocksSignedPerWindow\(k, ctx\), ` + kN + `DowntimeJailDuration\(k, ctx\), ` + kN + `SlashFractionDowntime\(k, ctx\)\)$`),
			Why:    "the window, the threshold, the jail duration and the slash fraction handed to the downtime accounting are the governed parameters, each in its own slot"},
		{Prop: P, ID: "downtime.jail-period-set-after-reset", Fn: fnValSig,
			From:   `^` + kN + `JailValidator\(k, ctx, addr\)$`,
			Target: CallTo(`ResetSigningInfo\(`), Why: "the counters' reset happens before the jail period is written, never after"},
		{Prop: P, ID: "downtime.jailed-node-gets-jail-period", Fn: fnValSig,
			From:    `^` + kN + `JailValidator\(k, ctx, addr\)$`,
			Barrier: []string{`store:.*JailedUntil = `}, Target: TargetAnyReturn(),
			Why: "every path from the jailing to the return writes the jail period"},
		{Prop: P, ID: "downtime.jail-period-is-stored", Fn: fnValSig,
			From:    `store:.*JailedUntil = `,
			Barrier: []string{`^` + kN + `SetValidatorSigningInfo\(k, ctx, addr, `}, Target: TargetAnyReturn(),
			Why: "the record carrying the jail period is written back"},
	})...)
	// downtime is judged at the start of every block for every vote of the last commit
	out = append(out, c.hookRowsBegin(P)...)
	out = append(out, c.Rows([]Row{
		{Prop: P, ID: "hooks.nodes-module-beginblock", Fn: "(x/nodes.AppModule).BeginBlock", Barrier: []string{`^x/nodes/keeper\.BeginBlocker\(ctx, req, am\.keeper\)`}, Target: TargetAnyReturn(), Why: "the nodes module's BeginBlock runs the keeper's BeginBlocker with the block's request"},
	})...)
	out = append(out,
		c.edgeMust(P, "hooks.every-vote-is-judged", "x/nodes/keeper.BeginBlocker", `^lt\(\(phi:rangeindex \+ 1\), builtin\.len\(\(\*github\.com/tendermint/tendermint/abci/types\.LastCommitInfo\)\.GetVotes\(`, true, `^`+kN+`handleValidatorSignature\(k, ctx, `, 1, "each vote of the last commit is passed to the downtime accounting"),
	)
	out = append(out, nodesBlockDuties(c, P)...)
	out = append(out, tokenRemovalPersists(c, P)...)
	return out
}

func runC24(c *Ctx) []Obligation {
	P := "C24"
	var out []Obligation
	for _, t := range []struct {
		rule, fn string
		allowed  []string
		why      string
	}{
		{"nodes.poolout.callers", "(x/nodes/keeper.Keeper).coinsFromStakedToUnstaked", []string{kN + `FinishUnstakingValidator`}, "stake is returned only when unstaking finishes"},
		{"nodes.finish.callers", fnFinishUnstake, []string{kN + `unstakeAllMatureValidators`}, "finish-unstaking only from the mature-queue sweep"},
		{"nodes.sweep.callers", fnMatureVals, []string{`x/nodes\.EndBlocker`, kN + `EndBlocker`, `x/nodes/keeper\.EndBlocker`}, "the sweep runs only at end of block"},
		{"nodes.begin.callers", fnBeginUnstake, []string{kN + `ReleaseWaitingValidators`}, "nodes begin unstaking only when the waiting set is released"},
		{"nodes.release.callers", "(x/nodes/keeper.Keeper).ReleaseWaitingValidators", []string{kN + `UpdateTendermintValidators`}, "the waiting set is released only from the validator-set update"},
		{"nodes.waiting.callers", "(x/nodes/keeper.Keeper).SetWaitingValidator", []string{kN + `(ForceValidatorUnstake|SetWaitingValidators|ValidateUnjailMessage|WaitToBeginUnstakingValidator)`}, "the waiting set is filled only by begin-unstake, forced unstake, the unjail defence (and genesis import)"},
		{"nodes.wait.callers", "(x/nodes/keeper.Keeper).WaitToBeginUnstakingValidator", []string{`x/nodes\.(handleMsgBeginUnstake|legacyHandleMsgBeginUnstake)`}, "a voluntary unstake starts only from the begin-unstake handlers"},
		{"apps.poolout.callers", "(x/apps/keeper.Keeper).coinsFromStakedToUnstaked", []string{kP + `FinishUnstakingApplication`}, "app stake is returned only when unstaking finishes"},
		{"apps.finish.callers", "(x/apps/keeper.Keeper).FinishUnstakingApplication", []string{kP + `unstakeAllMatureApplications`}, "only from the mature-queue sweep"},
		{"apps.begin.callers", "(x/apps/keeper.Keeper).BeginUnstakingApplication", []string{`x/apps\.handleMsgBeginUnstake`}, "applications begin unstaking only by their own request"},
	} {
		out = append(out, c.whoMayCall(P, t.rule, t.fn, t.allowed, t.why))
	}
	val := kN + `GetValidator\(k, ctx, (var:)?unstakingVals\[.*\]\)#0`
	rows := []Row{
		{Prop: P, ID: "release.session-boundary", Fn: fnUpdateTM,
			Assume: []Lit{F(`^eq\(\(invoke types\.Ctx\.BlockHeight\(ctx\) % ` + kN + `BlocksPerSession\(k, ctx\)\), 0\)$`)},
			Target: CallTo(`ReleaseWaitingValidators`), Why: "waiting nodes are released only at a session boundary"},
		{Prop: P, ID: "release.validates", Fn: "(x/nodes/keeper.Keeper).ReleaseWaitingValidators",
			Assume: []Lit{T(`^nonnil\(` + kN + `ValidateValidatorBeginUnstaking\(`)}, Target: CallTo(`BeginUnstakingValidator\(`),
			Why: "a waiting node starts unstaking only if it may"},
		{Prop: P, ID: "sweep.validate-gates-finish", Fn: fnMatureVals,
			Assume: []Lit{T(`^nonnil\(` + kN + `ValidateValidatorFinishUnstaking\(`)}, Target: CallTo(`FinishUnstakingValidator\(`),
			Why: "stake is returned only for a node that may finish unstaking"},
		{Prop: P, ID: "sweep.found-gates-finish", Fn: fnMatureVals,
			Assume: []Lit{F(`^` + val + `$`), F(`^` + kN + `GetValidator\(k, ctx, .*\)#1$`)}, Target: CallTo(`FinishUnstakingValidator\(`),
			Why: "a queue entry without a record returns nothing"},
		{Prop: P, ID: "sweep.must-validate", Fn: fnMatureVals,
			Barrier: []string{`^` + kN + `ValidateValidatorFinishUnstaking\(k, ctx, ` + val + `\)$`}, Target: CallTo(`FinishUnstakingValidator\(`), TargetMustExist: true,
			Why: "every finish is preceded by validation of that record"},
		{Prop: P, ID: "sweep.finish-then-delete", Fn: fnMatureVals,
			Barrier: []string{`^` + kN + `FinishUnstakingValidator\(k, ctx, ` + val + `\)$`}, Target: CallTo(kN + `DeleteValidator\(`), TargetMustExist: true,
			Why: "the record is deleted only after (and right after) its stake was returned"},
		{Prop: P, ID: "sweep.bounded-by-block-time", Fn: fnMatureVals,
			Target: CallTo(`unstakingValidatorsIterator\(`).Except(`^` + kN + `unstakingValidatorsIterator\(k, ctx, invoke types\.Ctx\.BlockHeader\(ctx\)\.Time\)$`),
			Why:    "the sweep covers completion times up to the block header time, nothing else"},
		{Prop: P, ID: "finishValidate.must-be-unstaking", Fn: "(x/nodes/keeper.Keeper).ValidateValidatorFinishUnstaking",
			Assume: []Lit{F(`^\(x/nodes/types\.Validator\)\.IsUnstaking\(validator\)$`)}, Target: Success(),
			Why: "only an unstaking node can finish unstaking"},
		{Prop: P, ID: "beginValidate.must-be-staked", Fn: "(x/nodes/keeper.Keeper).ValidateValidatorBeginUnstaking",
			Assume: []Lit{F(`^\(x/nodes/types\.Validator\)\.IsStaked\(validator\)$`)}, Target: Success(),
			Why: "only a staked node can begin unstaking"},
		{Prop: P, ID: "begin.sets-completion-from-block-time", Fn: fnBeginUnstake,
			Target: StoreTo(`validator\.UnstakingCompletionTime$`).Except(`^$`),
			Assume: []Lit{F(`^\(time\.Time\)\.IsZero\((var:)?validator\.UnstakingCompletionTime\)$`)},
			Why: "a completion time already set is not moved"},
	}
	out = append(out, c.Rows(rows)...)
	// apps sweep
	out = append(out, c.Rows([]Row{
		{Prop: P, ID: "apps.sweep.validate-gates-finish", Fn: "(x/apps/keeper.Keeper).unstakeAllMatureApplications",
			Assume: []Lit{T(`^nonnil\(` + kP + `ValidateApplicationFinishUnstaking\(`)}, Target: CallTo(`FinishUnstakingApplication\(`),
			Why: "app stake is returned only for an application that may finish unstaking"},
		{Prop: P, ID: "apps.sweep.finish-then-delete", Fn: "(x/apps/keeper.Keeper).unstakeAllMatureApplications",
			Barrier: []string{`^` + kP + `FinishUnstakingApplication\(`}, Target: CallTo(kP + `DeleteApplication\(`), TargetMustExist: true,
			Why: "the application record is deleted only after its stake was returned"},
		{Prop: P, ID: "apps.begin.validated", Fn: "x/apps.handleMsgBeginUnstake",
			Assume: []Lit{T(`^nonnil\(` + kP + `ValidateApplicationBeginUnstaking\(`)}, Target: CallTo(`BeginUnstakingApplication\(`),
			Why: "an application begins unstaking only if it may"},
		{Prop: P, ID: "apps.begin.found", Fn: "x/apps.handleMsgBeginUnstake",
			Assume: []Lit{F(`^` + kP + `GetApplication\(k, ctx, (var:)?msg\.Address\)#1$`)}, Target: CallTo(`BeginUnstakingApplication\(`),
			Why: "unknown applications cannot unstake"},
	})...)
	// a pending return is never cancelled or overwritten: a stake message for a record that is unstaking is refused
	out = append(out, c.Rows([]Row{
		{Prop: P, ID: "unstaking.node-stake-message-refused", Fn: fnValStaking,
			Assume: []Lit{T(aValFound), F(`^\(x/nodes/types\.Validator\)\.IsStaked\(` + curVal + `\)$`), F(`^\(x/nodes/types\.Validator\)\.IsUnstaked\(` + curVal + `\)$`)},
			Target: Success(), Why: "a node that is unstaking cannot be staked again before its stake was returned"},
		{Prop: P, ID: "unstaking.app-stake-message-refused", Fn: "(x/apps/keeper.Keeper).ValidateApplicationStaking",
			Assume: []Lit{T(`^` + kP + `GetApplication\(k, ctx, application\.Address\)#1$`), F(`^\(x/apps/types\.Application\)\.IsStaked\(` + kP + `GetApplication\(k, ctx, application\.Address\)#0\)$`), F(`^\(x/apps/types\.Application\)\.IsUnstaked\(` + kP + `GetApplication\(k, ctx, application\.Address\)#0\)$`)},
			Target: Success(), Why: "an application that is unstaking cannot be staked again before its stake was returned"},
	})...)
	// the sweep only sees what the queue lists: nothing but finishing (or a forced unstake) takes an entry out
	out = append(out,
		c.whoMayCall(P, "queue.node-removers", "(x/nodes/keeper.Keeper).deleteUnstakingValidator", []string{kN + `(FinishUnstakingValidator|LegacyForceValidatorUnstake)`}, "an unstaking node stays queued until its stake is returned or burned"),
		c.whoMayCall(P, "queue.app-removers", "(x/apps/keeper.Keeper).deleteUnstakingApplication", []string{kP + `(FinishUnstakingApplication|ForceApplicationUnstake)`}, "an unstaking application stays queued until its stake is returned or burned"),
	)
	// "when due": the sweeps run at the end of every block, unconditionally
	out = append(out, c.hookRowsEnd(P)...)
	out = append(out, appsUnstakeLifecycle(c, P)...)
	out = append(out, queueWriteBack(c, P)...)
	out = append(out, sweepsVisitEverything(c, P, "(x/apps/keeper.Keeper).unstakeAllMatureApplications", "(x/nodes/keeper.Keeper).unstakeAllMatureValidators")...)
	out = append(out, c.Rows([]Row{
		{Prop: P, ID: "waiting.released-by-the-set-update", Fn: "(x/nodes/keeper.Keeper).UpdateTendermintValidators",
			Assume:  []Lit{T(`^eq\(\(invoke types\.Ctx\.BlockHeight\(ctx\) % ` + kN + `BlocksPerSession\(k, ctx\)\), 0\)$`)},
			Barrier: []string{`^` + kN + `ReleaseWaitingValidators\(k, ctx\)`}, Target: TargetAnyReturn(), Why: "at the last block of every session the validator-set update first releases the nodes waiting to begin unstaking"},
		{Prop: P, ID: "waiting.released-only-at-the-boundary", Fn: "(x/nodes/keeper.Keeper).UpdateTendermintValidators",
			Assume: []Lit{F(`^eq\(\(invoke types\.Ctx\.BlockHeight\(ctx\) % ` + kN + `BlocksPerSession\(k, ctx\)\), 0\)$`)},
			Target: CallTo(`ReleaseWaitingValidators\(`), TargetMustExist: true, Why: "and at no other block"},
	})...)
	out = append(out, nodesUnstakeLifecycle(c, P)...)
	return out
}

func runC21(c *Ctx) []Obligation {
	P := "C21"
	kvs := `invoke types\.Ctx\.KVStore\(ctx, k\.storeKey\)`
	rows := []Row{
		// the power index: one key function for insert and delete, key = prefix | big-endian power | inverted address
		{Prop: P, ID: "powerindex.insert-key-and-value", Fn: "(x/nodes/keeper.Keeper).SetStakedValidator",
			Target: CallTo(`^invoke types\.KVStore\.Set\(`).Except(`^invoke types\.KVStore\.Set\(` + kvs + `, x/nodes/types\.KeyForValidatorInStakingSet\(validator\), validator\.Address\)$`), Why: "a node is indexed under the key of its own record and the entry holds its address"},
		{Prop: P, ID: "powerindex.delete-same-key-function", Fn: "(x/nodes/keeper.Keeper).deleteValidatorFromStakingSet",
			Target: CallTo(`^invoke types\.KVStore\.Delete\(`).Except(`^invoke types\.KVStore\.Delete\(` + kvs + `, x/nodes/types\.KeyForValidatorInStakingSet\(validator\)\)$`), Why: "the entry is deleted under the key computed by the same function"},
		{Prop: P, ID: "powerindex.key-is-power-rank-key", Fn: "x/nodes/types.KeyForValidatorInStakingSet", Target: RetNotMatch(0, `^x/nodes/types\.getStakedValPowerRankKey\(validator\)$`), Why: "the index key is the power-rank key of the record"},
		{Prop: P, ID: "powerindex.key-prefix", Fn: "x/nodes/types.getStakedValPowerRankKey", Target: StoreTo(`^makeslice<\[\]byte>\[0\]$`).ExceptVal(`^x/nodes/types\.StakedValidatorsKey\[0\]$`), Why: "index keys live under the staked-validators prefix (the prefix the iterators scan)"},
		{Prop: P, ID: "powerindex.key-power-big-endian", Fn: "x/nodes/types.getStakedValPowerRankKey",
			Target: CallTo(`PutUint64\(`).Except(`^\(encoding/binary\.bigEndian\)\.PutUint64\(encoding/binary\.BigEndian, .*, conv<uint64>\(types\.TokensToConsensusPower\(validator\.StakedTokens\)\)\)$`), Why: "the power of the record's own stake, big-endian so that byte order is numeric order"},
		{Prop: P, ID: "removeTokens.delete-old-power-entry", Fn: "(x/nodes/keeper.Keeper).removeValidatorTokens",
			Barrier: []string{`^` + kN + `deleteValidatorFromStakingSet\(k, ctx, v\)$`}, Target: CallTo(`RemoveStakedTokens\(|` + kN + `SetValidator\(`), TargetMustExist: true,
			Why: "the power-index entry of the old stake is deleted before the stake changes"},
		{Prop: P, ID: "edit.delete-old-power-entry", Fn: fnEditStakeVal,
			Barrier: []string{`^` + kN + `deleteValidatorFromStakingSet\(k, ctx, (var:)?origValForDeletion\)$`}, Target: CallTo(kN + `SetValidator\(`), TargetMustExist: true,
			Why: "edit-stake deletes the power-index entry computed from the copy taken before mutation"},
		{Prop: P, ID: "edit.delete-old-chain-entries", Fn: fnEditStakeVal,
			Barrier: []string{`^` + kN + `deleteValidatorForChains\(k, ctx, (var:)?origValForDeletion\)$`}, Target: CallTo(kN + `SetStakedValidatorByChains\(`), TargetMustExist: true,
			Why: "and the per-chain entries of the old chain list, before writing the new ones"},
		{Prop: P, ID: "edit.reindex-new-chains", Fn: fnEditStakeVal,
			Barrier: []string{`^` + kN + `SetStakedValidatorByChains\(k, ctx, (var:)?currentValidator\)$`}, Target: Success(),
			Why: "every successful edit writes the per-chain entries of the updated record"},
		{Prop: P, ID: "jail.delete-power-entry", Fn: fnJail,
			Barrier: []string{`^` + kN + `deleteValidatorFromStakingSet\(k, ctx, (var:)?validator\)$`}, Target: CallTo(kN + `SetValidator\(`), TargetMustExist: true,
			Why: "a jailed node leaves the power index"},
		{Prop: P, ID: "begin.delete-power-entry", Fn: fnBeginUnstake,
			Barrier: []string{`^` + kN + `deleteValidatorFromStakingSet\(k, ctx, (var:)?validator\)$`}, Target: CallTo(`UpdateStatus\(|` + kN + `SetValidator\(`), TargetMustExist: true,
			Why: "an unstaking node leaves the power index before its status changes"},
		{Prop: P, ID: "begin.delete-chain-entries", Fn: fnBeginUnstake,
			Barrier: []string{`^` + kN + `deleteValidatorForChains\(k, ctx, (var:)?validator\)$`}, Target: CallTo(`UpdateStatus\(|` + kN + `SetValidator\(`), TargetMustExist: true,
			Why: "and the per-chain index"},
		{Prop: P, ID: "finish.delete-queue-entry", Fn: fnFinishUnstake,
			Barrier: []string{`^` + kN + `deleteUnstakingValidator\(k, ctx, (var:)?validator\)$`}, Target: StoreTo(`validator\.UnstakingCompletionTime$`), TargetMustExist: true,
			Why: "the unstaking-queue entry (keyed by completion time) is deleted before the time is cleared"},
		{Prop: P, ID: "finish.delete-queue-entry-before-status", Fn: fnFinishUnstake,
			Barrier: []string{`^` + kN + `deleteUnstakingValidator\(k, ctx, (var:)?validator\)$`}, Target: CallTo(`UpdateStatus\(|` + kN + `SetValidator\(`), TargetMustExist: true,
			Why: "and before the status changes"},
		{Prop: P, ID: "legacyforce.staked-leaves-indexes", Fn: fnLegacyForce,
			Assume:  []Lit{T(`^eq\(2, validator\.Status\)$`)},
			Barrier: []string{`^` + kN + `deleteValidatorFromStakingSet\(k, ctx, validator\)$`}, Target: CallTo(kN + `SetValidator\(|burnStakedTokens`), TargetMustExist: true,
			Why: "a force-unstaked staked node leaves the power index first"},
		{Prop: P, ID: "legacyforce.unstaking-leaves-queue", Fn: fnLegacyForce,
			Assume:  []Lit{F(`^eq\(2, validator\.Status\)$`), T(`^eq\(1, validator\.Status\)$`)},
			Barrier: []string{`^` + kN + `deleteUnstakingValidator\(k, ctx, validator\)$`}, Target: CallTo(kN + `DeleteValidator\(`), TargetMustExist: true,
			Why: "a force-unstaked unstaking node leaves the queue before its record is deleted"},
		// SetValidator re-indexes by status
		{Prop: P, ID: "set.unstaking-queued", Fn: "(x/nodes/keeper.Keeper).SetValidator",
			Assume:  []Lit{T(`^\(x/nodes/types\.Validator\)\.IsUnstaking\(validator\)$`)},
			Barrier: []string{`^` + kN + `SetUnstakingValidator\(k, ctx, validator\)$`}, Target: TargetAnyReturn(),
			Why: "storing an unstaking node (re)inserts it in the unstaking queue"},
		{Prop: P, ID: "set.staked-unjailed-indexed", Fn: "(x/nodes/keeper.Keeper).SetValidator",
			// IsStaked and IsUnstaking test one status field for different values: a staked node is not unstaking
			Assume:  []Lit{T(`^\(x/nodes/types\.Validator\)\.IsStaked\(validator\)$`), F(`^\(x/nodes/types\.Validator\)\.IsUnstaking\(validator\)$`), F(`^\(x/nodes/types\.Validator\)\.IsJailed\(validator\)$`)},
			Barrier: []string{`^` + kN + `SetStakedValidator\(k, ctx, validator\)$`}, Target: TargetAnyReturn(),
			Why: "storing a staked, unjailed node inserts it in the power index"},
		{Prop: P, ID: "set.jailed-not-indexed", Fn: "(x/nodes/keeper.Keeper).SetValidator",
			Assume: []Lit{T(`^\(x/nodes/types\.Validator\)\.IsJailed\(validator\)$`)}, Target: CallTo(`SetStakedValidator\(`),
			Why: "a jailed node is never inserted in the power index"},
		{Prop: P, ID: "set.non-staked-not-indexed", Fn: "(x/nodes/keeper.Keeper).SetValidator",
			Assume: []Lit{F(`^\(x/nodes/types\.Validator\)\.IsStaked\(validator\)$`)}, Target: CallTo(`SetStakedValidator\(`),
			Why: "a node that is not staked is never inserted in the power index"},
		{Prop: P, ID: "set.non-unstaking-not-queued", Fn: "(x/nodes/keeper.Keeper).SetValidator",
			Assume: []Lit{F(`^\(x/nodes/types\.Validator\)\.IsUnstaking\(validator\)$`)}, Target: CallTo(`SetUnstakingValidator\(`),
			Why: "a node that is not unstaking is never queued"},
	}
	out := c.Rows(rows)
	out = append(out,
		c.whoMayCall(P, "powerindex.writers", "(x/nodes/keeper.Keeper).SetStakedValidator", []string{kN + `SetValidator`}, "the power index is written only while storing a record"),
		c.whoMayCall(P, "queue.writers", "(x/nodes/keeper.Keeper).SetUnstakingValidator", []string{kN + `SetValidator`}, "the unstaking queue is appended to only while storing a record"),
		c.whoMayCall(P, "chainindex.writers", "(x/nodes/keeper.Keeper).SetStakedValidatorByChains", []string{kN + `(StakeValidator|EditStakeValidator)`, `x/nodes\.InitGenesis`}, "the per-chain index is written only on stake, edit-stake and genesis"),
		c.whoMayCall(P, "powerindex.deleters", "(x/nodes/keeper.Keeper).deleteValidatorFromStakingSet", []string{kN + `(removeValidatorTokens|EditStakeValidator|JailValidator|BeginUnstakingValidator|LegacyForceValidatorUnstake)`}, "power-index entries are deleted only by the functions that re-key"),
		c.whoMayCall(P, "chainindex.deleters", "(x/nodes/keeper.Keeper).deleteValidatorForChains", []string{kN + `(EditStakeValidator|BeginUnstakingValidator|LegacyForceValidatorUnstake)`}, "per-chain entries are deleted only on edit and on leaving the staked state"),
		c.whoMayCall(P, "queue.removers", "(x/nodes/keeper.Keeper).deleteUnstakingValidator", []string{kN + `(FinishUnstakingValidator|LegacyForceValidatorUnstake)`}, "a node leaves the unstaking queue only when its unstaking finishes or it is force-unstaked: while the record says unstaking, the queue lists it"),
		c.whoMayCall(P, "queue.slot-removers", "(x/nodes/keeper.Keeper).deleteUnstakingValidators", []string{kN + `deleteUnstakingValidator`}, "a whole completion-time slot is dropped only when removing its last entry empties it"),
		c.origCopyBeforeMutation(P),
	)
	out = append(out, queueWriteBack(c, P)...)
	out = append(out, nodesIndexOnStake(c, P)...)
	out = append(out, powerRankKeyLayout(c, P)...)
	return out
}

// origCopyBeforeMutation: in EditStakeValidator the copy used for index
// deletion is stored before any field of the current record is written.
func (c *Ctx) origCopyBeforeMutation(P string) Obligation {
	o := c.obl(P, "edit.copy-before-mutation", fnEditStakeVal, "the copy of the current record used to delete old index entries is taken before any field of the record is written")
	fn := c.A.Fn(fnEditStakeVal)
	if fn == nil {
		o.unresolved("not found")
		return *o
	}
	var copyIns, fieldIns []instrPos
	for _, b := range fn.Blocks {
		for _, ins := range b.Instrs {
			if d, ok := storeAddrDesc(ins); ok {
				o.Facts++
				if reMatch(`^&var:origValForDeletion$`, d) {
					copyIns = append(copyIns, instrPos{ins})
				}
				if reMatch(`^(var:)?currentValidator\.`, d) {
					fieldIns = append(fieldIns, instrPos{ins})
				}
			}
		}
	}
	if len(copyIns) != 1 {
		o.fail(c.A.FnPos(fn), "expected exactly one assignment of the deletion copy, found %d", len(copyIns))
		return *o
	}
	for _, f := range fieldIns {
		if !dominatesInstr(copyIns[0].ins, f.ins) {
			o.fail(c.A.Pos(f.ins.Pos()), "a field of the current record is written on a path that does not pass the copy first")
		}
	}
	return *o
}

type instrPos struct{ ins ssa.Instruction }

func storeAddrDesc(ins ssa.Instruction) (string, bool) {
	if st, ok := ins.(*ssa.Store); ok {
		return desc(st.Addr, maxDepth), true
	}
	return "", false
}
