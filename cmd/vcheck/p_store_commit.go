package main

import (
	"golang.org/x/tools/go/ssa"
)

// C06 commit ids / transient stores, C07 crash-recoverable commit, C08 rollback.

const (
	fnRSCommit   = "(*store/rootmulti.Store).Commit"
	fnCommitSt   = "store/rootmulti.commitStores"
	fnSaveVer    = "(*store/iavl.MutableTree).SaveVersion"
	fnLoadVer    = "(*store/iavl.MutableTree).LoadVersion"
	fnRollbackRS = "(*store/rootmulti.Store).RollbackVersion"
	fnLoadOver   = "(*store/iavl.MutableTree).LoadVersionForOverwriting"
	nextVersion  = `\(rs\.lastCommitID\.Version \+ 1\)`
	treeNext     = `\(tree\.ImmutableTree\.version \+ 1\)`
	newBatch     = `invoke github\.com/tendermint/tm-db\.DB\.NewBatch\(rs\.DB\)`
)

func init() {
	register(&Prop{
		ID: "C06", Title: "Commit IDs are well-formed and transient state never leaks into them",
		Technique: "operand provenance (version arithmetic), must-pass-through and guarded-effect rows on commitStores, field-read whitelist on CommitInfo.Hash, who-may-call",
		DesignRef: "DESIGN.md §3 C06",
		Explanation: "Store.Commit uses version = lastCommitID.Version + 1 for the substore commits, the commit-info record, the latest-version record and the returned/stored CommitID; commitStores commits every store of the map and records a StoreInfo only for non-transient stores; CommitInfo.Hash depends only on the store names and their commit hashes; transient.Store.Commit swaps in a fresh MemDB and returns the zero CommitID; MutableTree.SaveVersion saves tree.version + 1; on the consensus path the multistore is committed only from BaseApp.Commit.",
		NotDecided:  "that the hash depends only on contents in the value sense (hash function behaviour).",
		MinObl:      12,
		Run:         runC06,
	})
	register(&Prop{
		ID: "C07", Title: "A crash at any point of a commit is recoverable without divergence",
		Technique: "dominance / must-pass-through rows (substores saved before the commit-info batch; one atomic batch), who-may-write on the node DB, guarded-effect rows on the idempotent re-save branch, LoadVersion root filter",
		DesignRef: "DESIGN.md §3 C07",
		Explanation: "In Store.Commit every substore is committed before the batch holding commit-info and latest-version is written, both records go into that one batch and it is written once; the IAVL node DB is mutated only through ndb.batch (never ndb.db directly) and SaveVersion puts branch, orphans and root into the batch before the single ndb.Commit; SaveVersion accepts an already saved version only when the stored root equals the working hash, before writing anything; LoadVersion ignores roots above the target version. These are the mechanisms that make a crash between any two DB writes recoverable.",
		NotDecided:  "behaviour at each individual tm-db write boundary (no execution), determinism of the re-executed block (C12), durability of the DB's own batch.",
		MinObl:      14,
		Run:         runC07,
	})
	register(&Prop{
		ID: "C08", Title: "Rolling back to a height restores exactly that height's state",
		Technique: "must-pass-through rows on RollbackVersion and LoadVersionForOverwriting, loop-bound normalisation",
		DesignRef: "DESIGN.md §3 C08",
		Explanation: "RollbackVersion refuses heights at or above the latest, rolls every persistent substore back before its batch is written, puts the new latest-version and the deletion of commit infos height+1..latest into that one batch; LoadVersionForOverwriting loads the target, deletes versions from target+1, commits the node DB, resets the latest version and forgets the later versions in memory.",
		NotDecided:  "equality of contents and hashes after rollback and replay.",
		MinObl:      9,
		Run:         runC08,
	})
}

func runC06(c *Ctx) []Obligation {
	P := "C06"
	rows := []Row{
		{Prop: P, ID: "commit.version-plus-one.substores", Fn: fnRSCommit,
			Target: CallTo(`commitStores\(`).Except(`^store/rootmulti\.commitStores\(` + nextVersion + `, rs\.stores\)$`), Why: "substores are committed at lastCommitID.Version + 1"},
		{Prop: P, ID: "commit.version-plus-one.records", Fn: fnRSCommit,
			Target: CallTo(`set(CommitInfo|LatestVersion)\(`).Except(`^store/rootmulti\.(setCommitInfo\(` + newBatch + `, ` + nextVersion + `, (var:)?commitInfo\)|setLatestVersion\(` + newBatch + `, ` + nextVersion + `\))$`),
			Why:    "commit-info and latest-version are recorded for that same version"},
		{Prop: P, ID: "commit.must-record", Fn: fnRSCommit,
			Barrier: []string{`^store/rootmulti\.setLatestVersion\(`}, Target: TargetAnyReturn(), Why: "every commit records the new latest version"},
		{Prop: P, ID: "commitStores.commit-every-store", Fn: fnCommitSt,
			Barrier: []string{`^invoke store/types\.CommitStore\.Commit\(next\(range\(storeMap\)\)#2\)$`}, Target: CallTo(`GetStoreType\(|builtin\.append\(`), TargetMustExist: true,
			Why: "every store of the map, transient ones included, is committed before its type is looked at"},
		{Prop: P, ID: "commitStores.transient-not-recorded", Fn: fnCommitSt,
			Assume: []Lit{T(`^eq\(3, invoke store/types\.CommitStore\.GetStoreType\(next\(range\(storeMap\)\)#2\)\)$`)}, Target: CallTo(`builtin\.append\(`),
			Why: "a transient store never contributes a StoreInfo (hence never influences the app hash)"},
		{Prop: P, ID: "commitStores.records-commit-id", Fn: fnCommitSt,
			Target: StoreTo(`(var:)?si\.Core\.CommitID$`).Except(`^$`), Assume: []Lit{T(`^eq\(3, `)},
			Why: "placeholder"},
		{Prop: P, ID: "transient.commit-returns-zero", Fn: "(*store/transient.Store).Commit",
			Target: RetNotMatch(0, `^zero:store/types\.CommitID$`), Why: "a transient store reports the zero commit id"},
		{Prop: P, ID: "savever.version-plus-one", Fn: fnSaveVer,
			Target: CallTo(`Save(Root|EmptyRoot|Orphans)\(`).Except(`^\(\*store/iavl\.nodeDB\)\.(SaveRoot\(tree\.ndb, tree\.ImmutableTree\.root, ` + treeNext + `\)|SaveEmptyRoot\(tree\.ndb, ` + treeNext + `\)|SaveOrphans\(tree\.ndb, ` + treeNext + `, tree\.orphans\))$`),
			Why:    "a tree version is saved as tree.version + 1"},
		{Prop: P, ID: "savever.returns-version-plus-one", Fn: fnSaveVer,
			Target: RetNotMatch(1, `^` + treeNext + `$|^0$`), Why: "and that version (or 0 with an error) is what is returned"},
	}
	// drop the placeholder
	var rr []Row
	for _, r := range rows {
		if r.Why != "placeholder" {
			rr = append(rr, r)
		}
	}
	out := c.Rows(rr)
	out = append(out, c.commitIDFields(P), c.transientFresh(P), c.commitInfoHashReads(P),
		c.whoMayCall(P, "multistore-commit.callers", fnRSCommit, []string{`\(\*baseapp\.BaseApp\)\.Commit`, `\(\*baseapp\.BaseApp\)\.(InitChain|initFromMainStore)`}, "the multistore is committed only by the ABCI Commit"),
	)
	// after a successful save the tree has moved on: its version is the saved one, the version is listed,
	// the working tree is a fresh clone (the saved nodes are never written again), the last-saved tree is
	// that version, and the orphan set of the next version starts empty
	out = append(out, c.Rows([]Row{
		{Prop: P, ID: "savever.success.version-bumped", Fn: "(*store/iavl.MutableTree).SaveVersion", Barrier: []string{`store:^tree\.ImmutableTree\.version = \(tree\.ImmutableTree\.version \+ 1\)$`}, Target: Success(), Why: "every successful save (new or already-saved-and-equal) leaves the tree at the saved version"},
		{Prop: P, ID: "savever.success.working-tree-recloned", Fn: "(*store/iavl.MutableTree).SaveVersion", Barrier: []string{`store:^tree\.ImmutableTree = \(\*store/iavl\.ImmutableTree\)\.clone\(tree\.ImmutableTree\)$`}, Target: Success(), Why: "the working tree continues on a clone"},
		{Prop: P, ID: "savever.success.last-saved-set", Fn: "(*store/iavl.MutableTree).SaveVersion", Barrier: []string{`store:^tree\.lastSaved = \(\*store/iavl\.ImmutableTree\)\.clone\(tree\.ImmutableTree\)$`}, Target: Success(), Why: "the last-saved tree is the version just saved"},
		{Prop: P, ID: "savever.success.orphans-reset", Fn: "(*store/iavl.MutableTree).SaveVersion", Barrier: []string{`store:^tree\.orphans = makemap$`}, Target: Success(), Why: "orphans of the saved version are not carried into the next"},
		{Prop: P, ID: "savever.new-version-listed", Fn: "(*store/iavl.MutableTree).SaveVersion", Assume: []Lit{F(`^tree\.versions\[\(tree\.ImmutableTree\.version \+ 1\)\]$`)}, Barrier: []string{`mapset:^tree\.versions\[\(tree\.ImmutableTree\.version \+ 1\)\] = true$`}, Target: Success(), Why: "a newly saved version becomes an available version"},
	})...)
	return out
}

// commitIDFields: the CommitID returned and stored has Version = version and
// Hash = commitInfo.Hash().
func (c *Ctx) commitIDFields(P string) Obligation {
	o := c.obl(P, "commit.id-fields", fnRSCommit, "the CommitID stored in rs.lastCommitID and returned is {Version: lastCommitID.Version+1, Hash: commitInfo.Hash()}")
	fn := c.A.Fn(fnRSCommit)
	if fn == nil {
		o.unresolved("not found")
		return *o
	}
	want := map[string]string{
		"commitID.Version": `^\(rs\.lastCommitID\.Version \+ 1\)$`,
		"commitID.Hash":    `^\(\*store/rootmulti\.CommitInfo\)\.Hash\(&var:commitInfo\)$`,
		"rs.lastCommitID":  `^(var:)?commitID$`,
	}
	seen := map[string]bool{}
	for _, b := range fn.Blocks {
		for _, ins := range b.Instrs {
			st, ok := ins.(*ssa.Store)
			if !ok {
				continue
			}
			d := desc(st.Addr, 4)
			for k, re := range want {
				if d == k || d == "var:"+k {
					o.Facts++
					seen[k] = true
					if v := desc(st.Val, maxDepth); !reMatch(re, v) {
						o.fail(c.A.Pos(st.Pos()), "%s = %s", k, v)
					}
				}
			}
		}
	}
	for k := range want {
		if !seen[k] {
			o.fail(c.A.FnPos(fn), "%s is never assigned", k)
		}
	}
	return *o
}

func (c *Ctx) transientFresh(P string) Obligation {
	const f = "(*store/transient.Store).Commit"
	o := c.obl(P, "transient.commit-resets", f, "committing a transient store replaces its DB by a fresh dbm.NewMemDB()")
	fn := c.A.Fn(f)
	if fn == nil {
		o.unresolved("not found")
		return *o
	}
	ok := false
	for _, b := range fn.Blocks {
		for _, ins := range b.Instrs {
			if st, isSt := ins.(*ssa.Store); isSt {
				o.Facts++
				if desc(st.Addr, 4) == "ts.Store" {
					ok = true
				}
				if d := desc(st.Addr, 4); (d == "var:complit.DB" || d == "complit.DB") && desc(st.Val, 4) != "github.com/tendermint/tm-db.NewMemDB()" {
					o.fail(c.A.Pos(st.Pos()), "DB replaced by %s", desc(st.Val, 4))
				}
			}
		}
	}
	if !ok || len(c.callSites(fn, `^github\.com/tendermint/tm-db\.NewMemDB\(\)$`)) != 1 {
		o.fail(c.A.FnPos(fn), "transient Commit does not install a fresh MemDB")
	}
	return *o
}

// commitInfoHashReads: CommitInfo.Hash / StoreInfo.Hash read only names and commit hashes.
func (c *Ctx) commitInfoHashReads(P string) Obligation {
	o := c.obl(P, "commitinfo.hash-inputs", "(*store/rootmulti.CommitInfo).Hash", "the multistore hash is computed from the store names and their CommitID hashes only")
	for _, spec := range []struct {
		fn      string
		allowed string
	}{
		{"(*store/rootmulti.CommitInfo).Hash", `^(StoreInfos|Name)$`},
		{"(store/rootmulti.StoreInfo).Hash", `^(Core|CommitID|Hash)$`},
	} {
		fn := c.A.Fn(spec.fn)
		if fn == nil {
			o.unresolved("%s not found", spec.fn)
			return *o
		}
		for _, b := range fn.Blocks {
			for _, ins := range b.Instrs {
				var name string
				switch x := ins.(type) {
				case *ssa.FieldAddr:
					name = fieldName(x.X.Type(), x.Field)
				case *ssa.Field:
					name = fieldName(x.X.Type(), x.Field)
				default:
					continue
				}
				o.Facts++
				if !reMatch(spec.allowed, name) {
					o.fail(c.A.Pos(ins.Pos()), "%s reads field %s", spec.fn, name)
				}
			}
		}
	}
	return *o
}

func runC07(c *Ctx) []Obligation {
	P := "C07"
	rows := []Row{
		{Prop: P, ID: "restart.loads-recorded-latest", Fn: "(*store/rootmulti.Store).LoadLatestVersion",
			Target: RetNotMatch(0, `^\(\*store/rootmulti\.Store\)\.LoadVersion\(rs, store/rootmulti\.getLatestVersion\(rs\.DB\)\)$`),
			Why: "a restart loads the version recorded as latest in the commit batch (not the newest substore version on disk)"},
		{Prop: P, ID: "commit.substores-before-batch", Fn: fnRSCommit,
			Barrier: []string{`^store/rootmulti\.commitStores\(`}, Target: CallTo(`Batch\.(Write|WriteSync)\(|setCommitInfo\(|setLatestVersion\(`), TargetMustExist: true,
			Why: "every substore version is saved before the commit-info / latest-version batch is even filled"},
		{Prop: P, ID: "commit.info-in-batch-before-write", Fn: fnRSCommit,
			Barrier: []string{`^store/rootmulti\.setCommitInfo\(`}, Target: CallTo(`Batch\.(Write|WriteSync)\(`), TargetMustExist: true,
			Why: "the commit info is in the batch when it is written"},
		{Prop: P, ID: "commit.latest-in-batch-before-write", Fn: fnRSCommit,
			Barrier: []string{`^store/rootmulti\.setLatestVersion\(`}, Target: CallTo(`Batch\.(Write|WriteSync)\(`), TargetMustExist: true,
			Why: "the latest version is in the same batch when it is written"},
		{Prop: P, ID: "commit.batch-written", Fn: fnRSCommit,
			Barrier: []string{`Batch\.(Write|WriteSync)\(` + newBatch + `\)$`}, Target: TargetAnyReturn(), Why: "every commit writes that batch"},
		{Prop: P, ID: "setters.write-only-to-batch", Fn: "store/rootmulti.setCommitInfo",
			Target: CallTo(`tm-db\.(DB|Batch)\.`).Except(`^invoke github\.com/tendermint/tm-db\.Batch\.Set\(batch, `), Why: "setCommitInfo writes into the batch it is given, nothing else"},
		{Prop: P, ID: "setters.latest-write-only-to-batch", Fn: "store/rootmulti.setLatestVersion",
			Target: CallTo(`tm-db\.(DB|Batch)\.`).Except(`^invoke github\.com/tendermint/tm-db\.Batch\.Set\(batch, `), Why: "setLatestVersion writes into the batch it is given, nothing else"},
		// iavl SaveVersion
		{Prop: P, ID: "savever.existing-equal-is-noop", Fn: fnSaveVer,
			Assume: []Lit{T(`^tree\.versions\[` + treeNext + `\]$`)},
			Target: CallTo(`Save(Branch|Orphans|Root|EmptyRoot)\(|\(\*store/iavl\.nodeDB\)\.Commit\(`), Why: "re-saving an already saved version writes nothing"},
		{Prop: P, ID: "savever.existing-different-rejected", Fn: fnSaveVer,
			Assume: []Lit{T(`^tree\.versions\[` + treeNext + `\]$`), F(`^bytes\.Equal\(\(\*store/iavl\.nodeDB\)\.getRoot\(tree\.ndb, ` + treeNext + `\)#0, \(\*store/iavl\.MutableTree\)\.WorkingHash\(tree\)\)$`)},
			Target: Success(), Why: "an existing version with a different hash is an error"},
		{Prop: P, ID: "savever.existing-equal-accepted-only-if-equal", Fn: fnSaveVer,
			Assume:  []Lit{T(`^tree\.versions\[` + treeNext + `\]$`)},
			Barrier: []string{`^bytes\.Equal\(\(\*store/iavl\.nodeDB\)\.getRoot\(tree\.ndb, ` + treeNext + `\)#0, \(\*store/iavl\.MutableTree\)\.WorkingHash\(tree\)\)$`},
			Target:  Success(), Why: "the idempotent branch is taken only after comparing the stored root with the working hash"},
		{Prop: P, ID: "savever.branch-before-commit", Fn: fnSaveVer,
			Assume:  []Lit{F(`^tree\.versions\[` + treeNext + `\]$`), T(`^nonnil\(tree\.ImmutableTree\.root\)$`)},
			Barrier: []string{`^\(\*store/iavl\.nodeDB\)\.SaveBranch\(tree\.ndb, tree\.ImmutableTree\.root\)$`}, Target: CallTo(`\(\*store/iavl\.nodeDB\)\.Commit\(`), TargetMustExist: true,
			Why: "the new nodes are in the batch before it is committed"},
		{Prop: P, ID: "savever.root-before-commit", Fn: fnSaveVer,
			Assume:  []Lit{F(`^tree\.versions\[` + treeNext + `\]$`)},
			Barrier: []string{`^\(\*store/iavl\.nodeDB\)\.(SaveRoot|SaveEmptyRoot)\(`}, Target: CallTo(`\(\*store/iavl\.nodeDB\)\.Commit\(`), TargetMustExist: true,
			Why: "the root record of the new version is in the same batch"},
		{Prop: P, ID: "savever.orphans-before-commit", Fn: fnSaveVer,
			Assume:  []Lit{F(`^tree\.versions\[` + treeNext + `\]$`)},
			Barrier: []string{`^\(\*store/iavl\.nodeDB\)\.SaveOrphans\(`}, Target: CallTo(`\(\*store/iavl\.nodeDB\)\.Commit\(`), TargetMustExist: true,
			Why: "and so are the orphan records"},
		{Prop: P, ID: "savever.commit-before-success", Fn: fnSaveVer,
			Assume:  []Lit{F(`^tree\.versions\[` + treeNext + `\]$`)},
			Barrier: []string{`^\(\*store/iavl\.nodeDB\)\.Commit\(tree\.ndb\)$`}, Target: Success(), Why: "a new version is reported saved only after the node DB batch was committed"},
		{Prop: P, ID: "savever.commit-error-fails", Fn: fnSaveVer,
			Assume: []Lit{F(`^tree\.versions\[` + treeNext + `\]$`), T(`^nonnil\(\(\*store/iavl\.nodeDB\)\.Commit\(tree\.ndb\)\)$`)}, Target: Success(), Why: "a failed batch write is an error"},
		{Prop: P, ID: "savever.version-advances-after-commit", Fn: fnSaveVer,
			Assume:  []Lit{F(`^tree\.versions\[` + treeNext + `\]$`)},
			Barrier: []string{`^\(\*store/iavl\.nodeDB\)\.Commit\(tree\.ndb\)$`}, Target: StoreTo(`^tree\.ImmutableTree\.version$`), TargetMustExist: true,
			Why: "the in-memory version advances only after the batch was committed"},
		// LoadVersion root filter
		{Prop: P, ID: "loadversion.ignores-later-roots", Fn: fnLoadVer,
			Assume: []Lit{F(`^eq\(0, targetVersion\)$`), T(`^lt\(targetVersion, next\(range\(.*\)\)#1\)$`)},
			Target: Target{Kind: TStore, Re: `never`}, Why: "placeholder"},
	}
	var rr []Row
	for _, r := range rows {
		if r.Why != "placeholder" {
			rr = append(rr, r)
		}
	}
	out := c.Rows(rr)
	out = append(out, c.loadVersionFilter(P), c.nodeDBWritesViaBatch(P), c.singleCall(P, "commit.single-batch", fnRSCommit, `^`+newBatch+`$`, 1, "one batch carries commit-info and latest-version"),
		c.singleCall(P, "commit.single-write", fnRSCommit, `Batch\.(Write|WriteSync)\(`, 1, "and it is written exactly once"),
		c.singleCall(P, "savever.single-commit", fnSaveVer, `^\(\*store/iavl\.nodeDB\)\.Commit\(`, 1, "SaveVersion commits the node DB batch exactly once"))
	return out
}

// singleCall: exactly n call sites matching re in fn.
func (c *Ctx) singleCall(P, rule, fnName, re string, n int, why string) Obligation {
	o := c.obl(P, rule, fnName, why)
	fn := c.A.Fn(fnName)
	if fn == nil {
		o.unresolved("not found")
		return *o
	}
	s := c.callSites(fn, re)
	o.Facts = len(s)
	if len(s) != n {
		o.fail(c.A.FnPos(fn), "%d call sites match %s, expected %d", len(s), re, n)
	}
	return *o
}

// loadVersionFilter: the loop of LoadVersion selects a root only if
// targetVersion == 0 or version <= targetVersion.
func (c *Ctx) loadVersionFilter(P string) Obligation {
	o := c.obl(P, "loadversion.ignores-later-roots", fnLoadVer, "LoadVersion(v) never selects a root saved above v (a half-finished later commit is ignored)")
	fn := c.A.Fn(fnLoadVer)
	if fn == nil {
		o.unresolved("not found")
		return *o
	}
	// under "target != 0 and version > target" the block that records the candidate must be unreachable from the comparison
	row := Row{Fn: fnLoadVer,
		Assume: []Lit{F(`^eq\(0, targetVersion\)$`), T(`^lt\(targetVersion, next\(range\(\(\*store/iavl\.nodeDB\)\.getRoots\(tree\.ndb\)#0\)\)#1\)$`), F(`^nonnil\(`), F(`^eq\(0, builtin\.len\(`)},
		Target: Success()}
	r := c.E1.eval(fn, &row)
	o.Facts = r.facts
	// with every root above the target the final check latestVersion == target must fail: success unreachable
	// (latestVersion stays 0 != target). The pruned graph keeps the final equality test two-way, so instead
	// require structurally that the candidate block is not entered:
	cand := 0
	for _, b := range fn.Blocks {
		// candidate block: the one that feeds phi:latestVersion with the iterated version
		for _, ins := range b.Instrs {
			if ph, ok := ins.(*ssa.Phi); ok && identName(ph) == "latestVersion" {
				for i, e := range ph.Edges {
					if _, isExt := e.(*ssa.Extract); isExt {
						cand++
						pred := b.Preds[i]
						// pred must be reachable only through "target==0" true or "!(target < version)" true
						rr := Row{Fn: fnLoadVer, Assume: row.Assume, Target: Target{Kind: TAnyRet}}
						_ = rr
						if !c.blockGuarded(fn, pred, `^eq\(0, targetVersion\)$`, `^lt\(targetVersion, next\(range\(.*\)\)#1\)$`) {
							o.fail(c.A.Pos(ph.Pos()), "a root version can become the loaded version without passing the 'version <= targetVersion' test")
						}
					}
				}
			}
		}
	}
	if cand == 0 {
		o.fail(c.A.FnPos(fn), "no candidate selection found in LoadVersion")
	}
	return *o
}

// blockGuarded: block b is reachable from the entry only if atom zeroRe is true
// or atom ltRe is false.
func (c *Ctx) blockGuarded(fn *ssa.Function, b *ssa.BasicBlock, zeroRe, ltRe string) bool {
	// prune: zero==false, lt==true; then b must be unreachable
	keep := map[*ssa.BasicBlock]int{}
	for _, blk := range fn.Blocks {
		iff, ok := blk.Instrs[len(blk.Instrs)-1].(*ssa.If)
		if !ok {
			continue
		}
		at := condAtom(iff.Cond)
		var truth, hit bool
		if reMatch(zeroRe, at.Str) {
			truth, hit = false, true
		} else if reMatch(ltRe, at.Str) {
			truth, hit = true, true
		}
		if !hit {
			continue
		}
		if at.Neg {
			truth = !truth
		}
		if truth {
			keep[blk] = 0
		} else {
			keep[blk] = 1
		}
	}
	seen := map[*ssa.BasicBlock]bool{fn.Blocks[0]: true}
	q := []*ssa.BasicBlock{fn.Blocks[0]}
	for len(q) > 0 {
		x := q[0]
		q = q[1:]
		if x == b {
			return false
		}
		succs := x.Succs
		if k, ok := keep[x]; ok && len(succs) == 2 {
			succs = []*ssa.BasicBlock{x.Succs[k]}
		}
		for _, s := range succs {
			if !seen[s] {
				seen[s] = true
				q = append(q, s)
			}
		}
	}
	return true
}

// nodeDBWritesViaBatch: in package store/iavl no function mutates ndb.db
// directly; all mutations go to ndb.batch.
func (c *Ctx) nodeDBWritesViaBatch(P string) Obligation {
	o := c.obl(P, "nodedb.mutations-only-via-batch", "store/iavl.nodeDB", "the IAVL node DB is mutated only through ndb.batch (Set/Delete), written by ndb.Commit; ndb.db is only read")
	n := 0
	for fn := range c.A.AllFns {
		if fn.Blocks == nil || fnPkgPath(fn) != repoMod+"/store/iavl" {
			continue
		}
		for _, s := range c.callSites(fn, `^invoke github\.com/tendermint/tm-db\.DB\.(Set|SetSync|Delete|DeleteSync)\(`) {
			n++
			o.fail(c.A.Pos(s.Ins.Pos()), "%s writes the DB directly: %s", FnName(fn), shortCall(s.Desc))
		}
		for _, s := range c.callSites(fn, `^invoke github\.com/tendermint/tm-db\.Batch\.(Write|WriteSync)\(`) {
			o.Facts++
			if ok, who := c.allowedFn(fn, []string{`\(\*store/iavl\.nodeDB\)\.Commit`}); !ok {
				o.fail(c.A.Pos(s.Ins.Pos()), "%s writes a batch outside nodeDB.Commit", who)
			}
		}
		o.Facts += len(c.callSites(fn, `^invoke github\.com/tendermint/tm-db\.Batch\.(Set|Delete)\(`))
	}
	if o.Facts < 5 {
		o.fail("", "only %d batch operations found in store/iavl: anchors are stale", o.Facts)
	}
	return *o
}

func runC08(c *Ctx) []Obligation {
	P := "C08"
	rows := []Row{
		{Prop: P, ID: "rollback.refuses-non-past-heights", Fn: fnRollbackRS,
			Assume: []Lit{F(`^lt\(height, store/rootmulti\.getLatestVersion\(rs\.DB\)\)$`)}, Target: Success(), Why: "only a height strictly below the latest can be rolled back to"},
		{Prop: P, ID: "rollback.refuses-before-any-write", Fn: fnRollbackRS,
			Assume: []Lit{F(`^lt\(height, store/rootmulti\.getLatestVersion\(rs\.DB\)\)$`)}, Target: CallTo(`Rollback\(|Batch\.|setLatestVersion`), Why: "and a refused rollback touches nothing"},
		{Prop: P, ID: "rollback.substores-before-write", Fn: fnRollbackRS,
			From: `Batch\.(Write|WriteSync)\(`, Target: CallTo(`^\(\*store/iavl\.Store\)\.Rollback\(`),
			Why: "no substore is rolled back after the multistore records were rewritten: the batch is written last"},
		{Prop: P, ID: "rollback.substores-rolled-to-height", Fn: fnRollbackRS,
			Target: CallTo(`^\(\*store/iavl\.Store\)\.Rollback\(`).Except(`^\(\*store/iavl\.Store\)\.Rollback\(.*, height\)$`),
			Why: "every substore is rolled back to the requested height"},
		{Prop: P, ID: "rollback.substore-error-aborts", Fn: fnRollbackRS,
			From: `^\(\*store/iavl\.Store\)\.Rollback\(`, Assume: []Lit{T(`^nonnil\(\(\*store/iavl\.Store\)\.Rollback\(`)}, Target: CallTo(`Batch\.(Write|WriteSync)\(`), Why: "a failed substore rollback leaves the multistore records alone"},
		{Prop: P, ID: "rollback.latest-set-to-height", Fn: fnRollbackRS,
			Target: CallTo(`setLatestVersion\(`).Except(`^store/rootmulti\.setLatestVersion\(` + newBatch + `, height\)$`), Why: "the latest version becomes the rollback height"},
		{Prop: P, ID: "rollback.latest-before-write", Fn: fnRollbackRS,
			Barrier: []string{`^store/rootmulti\.setLatestVersion\(`}, Target: CallTo(`Batch\.(Write|WriteSync)\(`), TargetMustExist: true, Why: "in the batch that is written"},
		{Prop: P, ID: "rollback.written", Fn: fnRollbackRS,
			Assume:  []Lit{T(`^lt\(height, store/rootmulti\.getLatestVersion\(rs\.DB\)\)$`), F(`^nonnil\(`)},
			Barrier: []string{`Batch\.(Write|WriteSync)\(`}, Target: Success(), Why: "a successful rollback has written its batch"},
		{Prop: P, ID: "overwrite.delete-later-versions", Fn: fnLoadOver,
			Barrier: []string{`^\(\*store/iavl\.nodeDB\)\.DeleteVersionsFrom\(tree\.ndb, \(targetVersion \+ 1\)\)$`}, Target: Success(), Why: "loading for overwriting deletes every version above the target"},
		{Prop: P, ID: "overwrite.commit-deletions", Fn: fnLoadOver,
			Barrier: []string{`^\(\*store/iavl\.nodeDB\)\.Commit\(tree\.ndb\)$`}, Target: Success(), Why: "and commits the deletions"},
		{Prop: P, ID: "overwrite.reset-latest", Fn: fnLoadOver,
			Barrier: []string{`^\(\*store/iavl\.nodeDB\)\.resetLatestVersion\(tree\.ndb, \(\*store/iavl\.MutableTree\)\.LoadVersion\(tree, targetVersion\)#0\)$`}, Target: Success(), Why: "and resets the node DB's latest version to the loaded one"},
		{Prop: P, ID: "overwrite.load-error", Fn: fnLoadOver,
			Assume: []Lit{T(`^nonnil\(\(\*store/iavl\.MutableTree\)\.LoadVersion\(tree, targetVersion\)#1\)$`)}, Target: CallTo(`DeleteVersionsFrom|nodeDB\)\.Commit`), Why: "nothing is deleted when the target cannot be loaded"},
	}
	// what DeleteVersionsFrom(version) removes: every node, orphan and root record of versions >= version,
	// so that "no later version remains readable" also after the database is reopened
	dvf := "(*store/iavl.nodeDB).DeleteVersionsFrom"
	ndbv := `var:ndb`
	latest := `\(\*store/iavl\.nodeDB\)\.getLatestVersion\(` + ndbv + `\)`
	rows2 := []Row{
		{Prop: P, ID: "delete-from.roots-to-the-end", Fn: dvf,
			Target: CallTo(`^\(\*store/iavl\.nodeDB\)\.traverseRange\(`).Except(`^\(\*store/iavl\.nodeDB\)\.traverseRange\(` + ndbv + `, \(\*store/iavl\.KeyFormat\)\.Key\(store/iavl\.rootKeyFormat, \[var:version\]\), \(\*store/iavl\.KeyFormat\)\.Key\(store/iavl\.rootKeyFormat, \[9223372036854775807\]\), closure:`),
			Why: "root records are removed from the given version to the end of the root key space (the range is end-exclusive: stopping at the latest version would keep its root)"},
		{Prop: P, ID: "delete-from.roots-deleted", Fn: dvf + "$2", Barrier: []string{`^invoke github\.com/tendermint/tm-db\.Batch\.Delete\(free:ndb\.batch, k\)`}, Target: TargetAnyReturn(), Why: "each root record in range is deleted"},
		{Prop: P, ID: "delete-from.nodes-of-latest", Fn: dvf,
			Target: CallTo(`deleteNodesFrom\(`).Except(`^\(\*store/iavl\.nodeDB\)\.deleteNodesFrom\(` + ndbv + `, var:version, \(\*store/iavl\.nodeDB\)\.getRoot\(` + ndbv + `, ` + latest + `\)#0\)$`),
			Why: "nodes newer than the target are deleted starting from the latest root"},
		{Prop: P, ID: "delete-from.all-three-sweeps", Fn: dvf, Assume: []Lit{F(`^lt\(` + latest + `, var:version\)$`)}, Barrier: []string{`^\(\*store/iavl\.nodeDB\)\.traverseRange\(`}, Target: Success(), Why: "a successful deletion has swept the root records"},
		{Prop: P, ID: "delete-from.orphans-swept", Fn: dvf, Assume: []Lit{F(`^lt\(` + latest + `, var:version\)$`)}, Barrier: []string{`^\(\*store/iavl\.nodeDB\)\.traverseOrphans\(`}, Target: Success(), Why: "and the orphan records"},
		{Prop: P, ID: "delete-from.nodes-error-aborts", Fn: dvf, Assume: []Lit{F(`^lt\(` + latest + `, var:version\)$`), T(`^nonnil\(\(\*store/iavl\.nodeDB\)\.deleteNodesFrom\(`)}, Target: Success(), Why: "a failed node deletion is reported"},
		{Prop: P, ID: "delete-from.new-orphans-and-their-nodes", Fn: dvf + "$1", Assume: []Lit{F(`^lt\(var:fromVersion, free:version\)$`)},
			Barrier: []string{`^invoke github\.com/tendermint/tm-db\.Batch\.Delete\(free:ndb\.batch, \(\*store/iavl\.nodeDB\)\.nodeKey\(free:ndb, hash\)\)`}, Target: TargetAnyReturn(), Why: "an orphan created at or after the target version is removed together with the node it refers to"},
		{Prop: P, ID: "delete-from.old-orphans-keep-nodes", Fn: dvf + "$1", Assume: []Lit{T(`^lt\(var:fromVersion, free:version\)$`)},
			Target: CallTo(`nodeKey\(|uncacheNode\(`), Why: "a node that existed before the target version is never deleted by a rollback"},
		{Prop: P, ID: "delete-from.revived-orphans-unmarked", Fn: dvf + "$1", Assume: []Lit{T(`^lt\(var:fromVersion, free:version\)$`), F(`^lt\(var:toVersion, \(free:version - 1\)\)$`)},
			Barrier: []string{`^invoke github\.com/tendermint/tm-db\.Batch\.Delete\(free:ndb\.batch, key\)`}, Target: TargetAnyReturn(), Why: "a node orphaned by a deleted version is live again: its orphan record goes"},
		{Prop: P, ID: "delete-from.older-orphans-kept", Fn: dvf + "$1", Assume: []Lit{T(`^lt\(var:fromVersion, free:version\)$`), T(`^lt\(var:toVersion, \(free:version - 1\)\)$`)},
			Target: CallTo(`Batch\.Delete\(`), Why: "orphan records of versions that survive are kept"},
	}
	out := c.Rows(append(rows, rows2...))
	out = append(out, c.rollbackDeleteRange(P))
	return out
}

// rollbackDeleteRange: the commit-info deletion loop covers height+1 .. ver inclusive.
func (c *Ctx) rollbackDeleteRange(P string) Obligation {
	o := c.obl(P, "rollback.deletes-commit-infos-above", fnRollbackRS, "commit infos of versions height+1 … latest (inclusive) are deleted in the same batch")
	fn := c.A.Fn(fnRollbackRS)
	if fn == nil {
		o.unresolved("not found")
		return *o
	}
	dels := c.callSites(fn, `^invoke github\.com/tendermint/tm-db\.Batch\.Delete\(`+newBatch+`, conv<\[\]byte>\(fmt\.Sprintf\("s/%d", \[phi:i\]\)\)\)$`)
	o.Facts = len(dels)
	if len(dels) != 1 {
		o.fail(c.A.FnPos(fn), "expected one commit-info deletion keyed by the loop variable, found %d", len(dels))
		return *o
	}
	// loop variable: phi with an initial edge height+1 and a back edge i+1; loop condition i <= ver
	var phi *ssa.Phi
	for _, b := range fn.Blocks {
		for _, ins := range b.Instrs {
			if p, ok := ins.(*ssa.Phi); ok && identName(p) == "i" {
				phi = p
			}
		}
	}
	if phi == nil {
		o.fail(c.A.FnPos(fn), "loop variable not found")
		return *o
	}
	init := false
	for _, e := range phi.Edges {
		o.Facts++
		if desc(e, 4) == "(height + 1)" {
			init = true
		}
	}
	if !init {
		o.fail(c.A.Pos(phi.Pos()), "the deletion loop does not start at height+1")
	}
	// bound: some If with atom lt(ver, i) negated, i.e. i <= ver
	bound := false
	for _, b := range fn.Blocks {
		if iff, ok := b.Instrs[len(b.Instrs)-1].(*ssa.If); ok {
			at := condAtom(iff.Cond)
			if at.Str == "lt(store/rootmulti.getLatestVersion(rs.DB), phi:i)" && at.Neg {
				bound = true
			}
		}
	}
	if !bound {
		o.fail(c.A.FnPos(fn), "the deletion loop is not bounded by i <= latest version (inclusive)")
	}
	return *o
}
