package main

import (
	"sort"
	"strings"

	"golang.org/x/tools/go/ssa"
)

// E6: writer/reader agreement of hand-written binary codecs. The sequence of
// go-amino primitives (kind and the field it carries) along every acyclic path
// of an encoder is compared with the sequences of the decoder (kind and the
// field the decoded value is bound to). Paths that leave early on an error
// produce sub-sequences; only maximal sequences are compared.

type codecItem struct {
	Kind  string // Int8, Varint, ByteSlice, ...
	Field string // rendering of the encoded operand, or of the field the decoded value is stored to
}

func (i codecItem) String() string { return i.Kind + ":" + i.Field }

const aminoPkg = "github.com/tendermint/go-amino"

// aminoCall: ins is a call of amino.Encode<Kind>(w, x) or amino.Decode<Kind>(buf).
func aminoCall(ins ssa.Instruction) (dir, kind string, call *ssa.Call, ok bool) {
	c, isC := ins.(*ssa.Call)
	if !isC {
		return
	}
	f := c.Call.StaticCallee()
	if f == nil || f.Pkg == nil || f.Pkg.Pkg.Path() != aminoPkg {
		return
	}
	n := f.Name()
	switch {
	case strings.HasPrefix(n, "Encode"):
		return "enc", n[len("Encode"):], c, true
	case strings.HasPrefix(n, "Decode"):
		return "dec", n[len("Decode"):], c, true
	}
	return
}

// decodedField: the struct field that receives result #0 of a decode call
// (directly, or through one local variable).
func decodedField(c *ssa.Call) string {
	if c.Referrers() == nil {
		return "?"
	}
	var fields []string
	var follow func(v ssa.Value, depth int)
	follow = func(v ssa.Value, depth int) {
		if depth > 3 || v.Referrers() == nil {
			return
		}
		for _, r := range *v.Referrers() {
			switch x := r.(type) {
			case *ssa.Store:
				if x.Val != v {
					continue
				}
				if fa, ok := x.Addr.(*ssa.FieldAddr); ok {
					fields = append(fields, fieldName(fa.X.Type(), fa.Field))
				} else if a, ok := x.Addr.(*ssa.Alloc); ok {
					// spilled local: follow its loads
					for _, rr := range *a.Referrers() {
						if u, ok := rr.(*ssa.UnOp); ok {
							follow(u, depth+1)
						}
					}
				}
			case *ssa.Phi:
				follow(x, depth+1)
			case *ssa.ChangeType:
				follow(x, depth+1)
			case *ssa.Convert:
				follow(x, depth+1)
			}
		}
	}
	for _, r := range *c.Referrers() {
		if e, ok := r.(*ssa.Extract); ok && e.Index == 0 {
			follow(e, 0)
		}
	}
	sort.Strings(fields)
	if len(fields) == 0 {
		return "?"
	}
	return strings.Join(fields, "+")
}

// codecSeqs enumerates the acyclic paths of fn and returns the maximal
// sequences of amino items (dir "enc" or "dec").
func codecSeqs(fn *ssa.Function, dir string, norm func(string) string) (seqs [][]codecItem, nPaths int) {
	items := map[*ssa.BasicBlock][]codecItem{}
	for _, b := range fn.Blocks {
		for _, ins := range b.Instrs {
			d, kind, c, ok := aminoCall(ins)
			if !ok || d != dir {
				continue
			}
			var f string
			if dir == "enc" {
				f = desc(c.Call.Args[len(c.Call.Args)-1], maxDepth)
			} else {
				f = decodedField(c)
			}
			if norm != nil {
				f = norm(f)
			}
			items[b] = append(items[b], codecItem{kind, f})
		}
	}
	seen := map[string][]codecItem{}
	var walk func(b *ssa.BasicBlock, on map[*ssa.BasicBlock]bool, cur []codecItem)
	walk = func(b *ssa.BasicBlock, on map[*ssa.BasicBlock]bool, cur []codecItem) {
		if nPaths > 200000 {
			return
		}
		cur = append(cur[:len(cur):len(cur)], items[b]...)
		ext := false
		for _, s := range b.Succs {
			if on[s] {
				continue
			}
			ext = true
			on[s] = true
			walk(s, on, cur)
			delete(on, s)
		}
		if !ext || len(b.Succs) == 0 {
			nPaths++
			var k []string
			for _, i := range cur {
				k = append(k, i.String())
			}
			seen[strings.Join(k, " ")] = cur
		}
	}
	if len(fn.Blocks) > 0 {
		walk(fn.Blocks[0], map[*ssa.BasicBlock]bool{fn.Blocks[0]: true}, nil)
	}
	var keys []string
	for k := range seen {
		keys = append(keys, k)
	}
	sort.Strings(keys)
	isSub := func(a, b []codecItem) bool { // a is a proper subsequence of b
		if len(a) >= len(b) {
			return false
		}
		j := 0
		for _, x := range b {
			if j < len(a) && a[j] == x {
				j++
			}
		}
		return j == len(a)
	}
	for _, k := range keys {
		a := seen[k]
		maximal := true
		for _, k2 := range keys {
			if k2 != k && isSub(a, seen[k2]) {
				maximal = false
				break
			}
		}
		if maximal && len(a) > 0 {
			seqs = append(seqs, a)
		}
	}
	return seqs, nPaths
}

func seqStrings(seqs [][]codecItem) []string {
	var out []string
	for _, s := range seqs {
		var k []string
		for _, i := range s {
			k = append(k, i.String())
		}
		out = append(out, strings.Join(k, " "))
	}
	sort.Strings(out)
	return out
}

// codecAgree: one obligation — the maximal item sequences of the encoder (after
// normEnc) equal those of the decoder (after normDec), and there are exactly
// want of them (the number of record shapes confirmed by reading).
func (c *Ctx) codecAgree(P, rule, encFn, decFn string, normEnc, normDec func(string) string, want int, why string) Obligation {
	o := c.obl(P, rule, encFn+"~"+decFn, "the sequences of amino primitives and fields written by "+encFn+" equal those read by "+decFn+" — "+why)
	e, d := c.A.Fn(encFn), c.A.Fn(decFn)
	if e == nil || d == nil {
		o.unresolved("function not found")
		return *o
	}
	o.Pos = c.A.FnPos(e)
	es, ne := codecSeqs(e, "enc", normEnc)
	ds, nd := codecSeqs(d, "dec", normDec)
	o.Facts = ne + nd
	a, b := seqStrings(es), seqStrings(ds)
	if len(a) != want || len(b) != want {
		o.fail("", "expected %d record shapes, the writer has %d %v and the reader has %d %v", want, len(a), a, len(b), b)
		return *o
	}
	for i := range a {
		if a[i] != b[i] {
			o.fail("", "writer sequence [%s] has no equal reader sequence (reader has [%s])", a[i], b[i])
		}
	}
	return *o
}

// codecIs: one obligation — the maximal encoder sequences of fn (after norm)
// are exactly want.
func (c *Ctx) codecIs(P, rule, fnName string, norm func(string) string, want []string, why string) Obligation {
	o := c.obl(P, rule, fnName, "the amino primitives written by "+fnName+" are exactly ["+strings.Join(want, "] | [")+"] — "+why)
	f := c.A.Fn(fnName)
	if f == nil {
		o.unresolved("function not found")
		return *o
	}
	o.Pos = c.A.FnPos(f)
	s, n := codecSeqs(f, "enc", norm)
	o.Facts = n
	got := seqStrings(s)
	w := append([]string{}, want...)
	sort.Strings(w)
	if strings.Join(got, " | ") != strings.Join(w, " | ") {
		o.fail("", "sequences are [%s]", strings.Join(got, "] | ["))
	}
	return *o
}

// crossOperand: one obligation — operand #argA of every call matching reA in fnA
// and operand #argB of every call matching reB in fnB render identically after
// norm (parameter renaming), and have identical static types (after pointer
// indirection when deref is set: "&v" written, "&latest" read).
func (c *Ctx) crossOperand(P, rule, fnA, reA string, argA int, fnB, reB string, argB int, norm func(string) string, typesOnly bool, why string) Obligation {
	o := c.obl(P, rule, fnA+"~"+fnB, "operand #"+itoa(argA)+" of "+reA+" in "+fnA+" and operand #"+itoa(argB)+" of "+reB+" in "+fnB+" agree — "+why)
	a, b := c.A.Fn(fnA), c.A.Fn(fnB)
	if a == nil || b == nil {
		o.unresolved("function not found")
		return *o
	}
	o.Pos = c.A.FnPos(a)
	as, bs := c.callSites(a, reA), c.callSites(b, reB)
	o.Facts = len(as) + len(bs)
	if len(as) == 0 || len(bs) == 0 {
		o.unresolved("expected call sites not found (%d, %d)", len(as), len(bs))
		return *o
	}
	if norm == nil {
		norm = func(s string) string { return s }
	}
	for _, x := range as {
		for _, y := range bs {
			va, vb := x.Call.Args[argA], y.Call.Args[argB]
			if !typesOnly {
				da, db := norm(desc(va, maxDepth)), norm(desc(vb, maxDepth))
				if da != db {
					o.fail(c.A.Pos(y.Ins.Pos()), "%s is given %s but %s is given %s", reA, da, reB, db)
				}
			}
			ta, tb := stripConv(va).Type(), stripConv(vb).Type()
			if ta.String() != tb.String() {
				o.fail(c.A.Pos(y.Ins.Pos()), "static types differ: %s vs %s", ta, tb)
			}
		}
	}
	return *o
}

func itoa(i int) string { return strings.TrimSpace(strings.Join([]string{string(rune('0' + i))}, "")) }
