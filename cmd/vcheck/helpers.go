package main

import (
	"go/ast"
	"fmt"
	"go/constant"
	"go/types"
	"regexp"
	"sort"
	"strings"

	"golang.org/x/tools/go/ssa"
)

// Helpers shared by the per-property rule files.

func (c *Ctx) obl(prop, rule, construct, desc string) *Obligation {
	o := &Obligation{Prop: prop, Rule: rule, Construct: construct, Desc: desc}
	o.set(OK)
	return o
}

func (o *Obligation) fail(pos, format string, args ...interface{}) {
	o.set(Violation)
	if pos != "" {
		o.Pos = pos
	}
	d := fmt.Sprintf(format, args...)
	if o.Detail != "" {
		o.Detail += "; " + d
	} else {
		o.Detail = d
	}
}

func (o *Obligation) unresolved(format string, args ...interface{}) {
	if o.st != Violation {
		o.set(Unresolved)
	}
	o.Detail = fmt.Sprintf(format, args...)
}

// site is a call-like instruction with its rendering.
type site struct {
	Ins   ssa.Instruction
	Call  *ssa.CallCommon
	Desc  string
	Block *ssa.BasicBlock
}

// callSites lists the calls in fn whose rendering matches re.
func (c *Ctx) callSites(fn *ssa.Function, re string) []site {
	r := c.E1.re(re)
	var out []site
	for _, b := range fn.Blocks {
		for _, ins := range b.Instrs {
			ci, ok := ins.(ssa.CallInstruction)
			if !ok {
				continue
			}
			d, m := c.E1.callMatches(ins, re)
			_ = r
			if m {
				out = append(out, site{Ins: ins, Call: ci.Common(), Desc: d, Block: b})
			} else {
				out = append(out, c.E1.helperSites(ins, re)...)
			}
		}
	}
	return out
}

// allCalls lists every call in fn.
func (c *Ctx) allCalls(fn *ssa.Function) []site { return c.callSites(fn, ``) }

// constVal returns the exact string of a package-level constant.
func (c *Ctx) constVal(pkgPath, name string) (string, bool) {
	p := c.A.PkgByID[repoMod+"/"+pkgPath]
	if p == nil || p.Types == nil {
		return "", false
	}
	o := p.Types.Scope().Lookup(name)
	k, ok := o.(*types.Const)
	if !ok {
		return "", false
	}
	if k.Val().Kind() == constant.String {
		return k.Val().ExactString(), true
	}
	return k.Val().ExactString(), true
}

// dominatesInstr: does instruction a dominate instruction b (same function)?
func dominatesInstr(a, b ssa.Instruction) bool {
	ba, bb := a.Block(), b.Block()
	if ba == bb {
		for _, ins := range ba.Instrs {
			if ins == a {
				return true
			}
			if ins == b {
				return false
			}
		}
		return false
	}
	return ba.Dominates(bb)
}

// callerNames: sorted short names of the in-repo callers of f, ignoring
// callers for which skip returns true.
func (c *Ctx) callerNames(f *ssa.Function) []string {
	var out []string
	for _, cl := range c.A.Callers(f) {
		out = append(out, FnName(cl))
	}
	sort.Strings(out)
	return out
}

// whoMayCall produces one obligation: the in-repo callers of fn are within allowed
// (regexps over caller names).  Callers in test-only or CLI packages are not
// loaded, so the table is about the shipped program.
// owners: the functions answerable for what fn does. For a function that existed when the tables were
// written that is fn itself; for a new function (an extracted helper) it is whoever calls it,
// transitively. A new function nobody calls has no owner (nothing reaches it).
func (c *Ctx) owners(fn *ssa.Function) []*ssa.Function {
	seen := map[*ssa.Function]bool{}
	var out []*ssa.Function
	var rec func(f *ssa.Function, d int)
	rec = func(f *ssa.Function, d int) {
		if seen[f] {
			return
		}
		seen[f] = true
		if !isNewFn(f) || d > 6 {
			out = append(out, f)
			return
		}
		if p := f.Parent(); p != nil {
			rec(p, d+1) // a new closure belongs to the function it is written in
			return
		}
		for _, cl := range c.A.Callers(f) {
			rec(cl, d+1)
		}
	}
	rec(fn, 0)
	sort.Slice(out, func(i, j int) bool { return FnName(out[i]) < FnName(out[j]) })
	return out
}

// allowedFn: every owner of fn matches one of the allowed patterns; otherwise the first owner that does not.
func (c *Ctx) allowedFn(fn *ssa.Function, allowed []string) (bool, string) {
	for _, ow := range c.owners(fn) {
		n := FnName(ow)
		ok := false
		for _, a := range allowed {
			if c.E1.re("^(?:" + a + ")$").MatchString(n) {
				ok = true
			}
		}
		if !ok {
			if ow != fn {
				return false, n + " (through the new function " + FnName(fn) + ")"
			}
			return false, n
		}
	}
	return true, ""
}

func (c *Ctx) whoMayCall(prop, rule, fnName string, allowed []string, why string) Obligation {
	o := c.obl(prop, rule, fnName, fmt.Sprintf("callers of %s ⊆ {%s} — %s", fnName, strings.Join(allowed, ", "), why))
	f := c.A.Fn(fnName)
	if f == nil {
		o.unresolved("function not found")
		return *o
	}
	o.Pos = c.A.FnPos(f)
	var res []*regexp.Regexp
	for _, a := range allowed {
		res = append(res, c.E1.re("^(?:"+a+")$"))
	}
	callers := c.A.Callers(f)
	o.Facts = len(c.A.In[f])
	_ = res
	for _, cl := range callers {
		ok, n := c.allowedFn(cl, allowed)
		if !ok {
			pos := c.A.FnPos(cl)
			for _, e := range c.A.In[f] {
				if e.Caller == cl && e.Site != nil && e.Site.Pos().IsValid() {
					pos = c.A.Pos(e.Site.Pos())
				}
			}
			o.fail(pos, "%s is called from %s, which is outside the table", fnName, n)
		}
	}
	return *o
}

// reachableFrom: is any function matching targetRe reachable (repo-scoped)
// from root, not passing through functions matching stopRe?
func (c *Ctx) reachPath(roots []*ssa.Function, target func(*ssa.Function) bool, stop func(*ssa.Function) bool) []string {
	parent := c.A.Reach(roots, stop)
	var hits []*ssa.Function
	for f := range parent {
		if target(f) {
			hits = append(hits, f)
		}
	}
	if len(hits) == 0 {
		return nil
	}
	sort.Slice(hits, func(i, j int) bool { return FnName(hits[i]) < FnName(hits[j]) })
	return pathTo(parent, hits[0])
}

func reMatch(re, s string) bool { return regexp.MustCompile(re).MatchString(s) }

// argDesc renders argument i of a call (receiver counts as argument 0 for
// static method calls, as in go/ssa).
func argDesc(cc *ssa.CallCommon, i int) string {
	if i < len(cc.Args) {
		return desc(cc.Args[i], maxDepth)
	}
	return "<none>"
}

// mapLiteralKeys returns the constant keys of the composite literal that
// initialises package-level map variable name in pkg.
func (c *Ctx) mapLiteralKeys(pkgPath, name string) (map[string]bool, string, bool) {
	p := c.A.PkgByID[repoMod+"/"+pkgPath]
	if p == nil {
		return nil, "", false
	}
	for _, f := range p.Syntax {
		for _, d := range f.Decls {
			gd, ok := d.(*ast.GenDecl)
			if !ok {
				continue
			}
			for _, sp := range gd.Specs {
				vs, ok := sp.(*ast.ValueSpec)
				if !ok {
					continue
				}
				for i, n := range vs.Names {
					if n.Name != name || i >= len(vs.Values) {
						continue
					}
					cl, ok := vs.Values[i].(*ast.CompositeLit)
					if !ok {
						return nil, "", false
					}
					keys := map[string]bool{}
					for _, el := range cl.Elts {
						kv, ok := el.(*ast.KeyValueExpr)
						if !ok {
							continue
						}
						if tv, ok := p.TypesInfo.Types[kv.Key]; ok && tv.Value != nil {
							keys[tv.Value.ExactString()] = true
						}
					}
					return keys, c.A.Pos(n.Pos()), true
				}
			}
		}
	}
	return nil, "", false
}

func isMapType(t types.Type) bool {
	_, ok := t.Underlying().(*types.Map)
	return ok
}
