package main

import (
	"go/constant"
	"go/token"
	"go/types"
	"sort"
	"strings"

	"golang.org/x/tools/go/ssa"
)

// C10: the in-memory height cache answers exactly as the IAVL tree it fronts.
//
// The structural part decided here:
//   coherence        every mutation of the tree held by iavl.Store is mirrored into the cache
//                    (Set/Delete/Commit pairing, nobody else mutates the tree or swaps the cache),
//                    reads consult the cache under the tree's own version and in the same direction;
//   snapshot-owned   a committed snapshot is a fresh map, written only by Commit;
//   absent-is-nil    MemoryCache.Get can represent "absent" (comma-ok lookup), as the tree does (nil);
//   keys-exact       the published key index contains only keys (no make(len)+append) and is sorted;
//   index-guarded    the iterator never indexes its key slice before its own range test;
//   bound-split      every comparison of a key against the end (start) bound splits at key<end (key<start),
//                    i.e. [start,end) as the IAVL iterator does, in the constructor as in Valid.

const hcPkg = "store/rootmulti/heightcache"

func init() {
	register(&Prop{
		ID: "C10", Title: "The in-memory height cache returns the same answers as the tree it fronts",
		Technique: "must-pass-through rows pairing tree and cache mutations in iavl.Store; field-writer and who-may-call tables; SSA lints on the heightcache package (comma-ok representability of absence, make(len)+append, dominating bounds guard of slice indexing, bound-comparison split agreement, snapshot map freshness)",
		DesignRef: "DESIGN.md §3 C10",
		Explanation: "iavl.Store.Set/Delete/Commit reach their return only through both the tree mutation and the matching cache mutation with the same operands; only those functions mutate the tree behind a Store and only the constructor sets Store.tree/Store.cache; cache reads are keyed by the tree's own version and iterate in the same direction as the fallback; stores are paired with the cache of their own key. In the cache: a snapshot map is created fresh in Commit and written nowhere else; Get returns a comma-ok lookup (absent -> nil); the key index is built from an empty slice and sorted before it is published; the iterator indexes sortedKeys[curIdx] only under its own 0<=curIdx<len test (or after Valid()); each comparison of a key with the end/start bound splits at key<bound.",
		NotDecided:  "value-level equality of cached and tree answers for arbitrary histories (a runtime property); only the listed necessary conditions are decided. The cache is off unless the node is started with the cache flag.",
		MinObl:      24,
		Run:         runC10,
	})
}

// cmpLT decomposes an integer/string ordering test into canonical "lo < hi"
// with a negation flag (a>=b is !(a<b), a<=b is !(b<a)).
func cmpLT(v ssa.Value) (lo, hi ssa.Value, neg, ok bool) {
	for {
		v = stripConv(v)
		if u, isU := v.(*ssa.UnOp); isU && u.Op == token.NOT {
			neg = !neg
			v = u.X
			continue
		}
		break
	}
	b, isB := v.(*ssa.BinOp)
	if !isB {
		return nil, nil, false, false
	}
	switch b.Op {
	case token.LSS:
		return b.X, b.Y, neg, true
	case token.GEQ:
		return b.X, b.Y, !neg, true
	case token.GTR:
		return b.Y, b.X, neg, true
	case token.LEQ:
		return b.Y, b.X, !neg, true
	}
	return nil, nil, false, false
}

// reachAvoiding: is block to reachable from block from without entering avoid?
func reachAvoiding(from, to, avoid *ssa.BasicBlock) bool {
	if from == avoid {
		return false
	}
	seen := map[*ssa.BasicBlock]bool{from: true}
	work := []*ssa.BasicBlock{from}
	for len(work) > 0 {
		b := work[len(work)-1]
		work = work[:len(work)-1]
		if b == to {
			return true
		}
		for _, s := range b.Succs {
			if s != avoid && !seen[s] {
				seen[s] = true
				work = append(work, s)
			}
		}
	}
	return false
}

// edgeFact is a branch outcome that holds whenever control reaches a block.
type edgeFact struct {
	cond  ssa.Value
	truth bool
}

// guardFacts: the branch outcomes that necessarily hold at block t: for each
// dominating If, an edge is necessary when t cannot be reached from the other
// successor without passing through the If again.
func guardFacts(t *ssa.BasicBlock) []edgeFact {
	var out []edgeFact
	for d := t.Idom(); d != nil; d = d.Idom() {
		iff, ok := d.Instrs[len(d.Instrs)-1].(*ssa.If)
		if !ok || len(d.Succs) != 2 {
			continue
		}
		viaT := reachAvoiding(d.Succs[0], t, d)
		viaF := reachAvoiding(d.Succs[1], t, d)
		switch {
		case viaT && !viaF:
			out = append(out, edgeFact{iff.Cond, true})
		case viaF && !viaT:
			out = append(out, edgeFact{iff.Cond, false})
		}
	}
	return out
}

func intConst(v ssa.Value) (int64, bool) {
	k, ok := stripConv(v).(*ssa.Const)
	if !ok || k.Value == nil || k.Value.Kind() != constant.Int {
		return 0, false
	}
	return k.Int64(), true
}

func runC10(c *Ctx) []Obligation {
	P := "C10"
	var out []Obligation
	st := "(*store/iavl.Store)."
	// ---- coherence: iavl.Store mirrors every tree mutation into the cache
	out = append(out, c.Rows([]Row{
		{Prop: P, ID: "coherence.set.tree", Fn: st + "Set", Barrier: []string{`^invoke store/iavl\.Tree\.Set\(st\.tree, key, value\)`}, Target: Success(), Why: "Set writes the tree"},
		{Prop: P, ID: "coherence.set.cache", Fn: st + "Set", Barrier: []string{`^invoke store/types\.SingleStoreCache\.Set\(st\.cache, key, value\)`}, Target: Success(), Why: "Set mirrors the same key and value into the height cache"},
		{Prop: P, ID: "coherence.delete.tree", Fn: st + "Delete", Barrier: []string{`^invoke store/iavl\.Tree\.Remove\(st\.tree, key\)`}, Target: Success(), Why: "Delete removes from the tree"},
		{Prop: P, ID: "coherence.delete.cache", Fn: st + "Delete", Barrier: []string{`^invoke store/types\.SingleStoreCache\.Remove\(st\.cache, key\)`}, Target: Success(), Why: "Delete mirrors the removal into the height cache"},
		{Prop: P, ID: "coherence.commit.cache", Fn: st + "Commit", Barrier: []string{`^invoke store/types\.SingleStoreCache\.Commit\(st\.cache, invoke store/iavl\.Tree\.SaveVersion\(st\.tree\)#1\)`}, Target: Success(), Why: "Commit snapshots the cache under the version the tree just saved"},
		{Prop: P, ID: "read.get.keyed-by-tree-version", Fn: st + "Get", TargetMustExist: false,
			Target: CallTo(`^invoke store/types\.SingleStoreCache\.Get\(`).Except(`^invoke store/types\.SingleStoreCache\.Get\(st\.cache, invoke store/iavl\.Tree\.Version\(st\.tree\), key\)`),
			Why:    "the cache is asked for the version of the tree this store holds, and for the caller's key"},
		{Prop: P, ID: "read.iterator.keyed-by-tree-version", Fn: st + "Iterator",
			Target: CallTo(`^invoke store/types\.SingleStoreCache\.(Reverse)?Iterator\(`).Except(`^invoke store/types\.SingleStoreCache\.Iterator\(st\.cache, phi:iTree\.version, start, end\)`),
			Why:    "ascending iteration asks the cache for an ascending iterator over the same version and bounds"},
		{Prop: P, ID: "read.iterator.fallback-ascending", Fn: st + "Iterator",
			Target: CallTo(`^store/iavl\.newIAVLIterator\(`).Except(`^store/iavl\.newIAVLIterator\(phi:iTree, start, end, true\)`),
			Why:    "the tree fallback of Iterator is ascending over the same bounds"},
		{Prop: P, ID: "read.reverse-iterator.keyed-by-tree-version", Fn: st + "ReverseIterator",
			Target: CallTo(`^invoke store/types\.SingleStoreCache\.(Reverse)?Iterator\(`).Except(`^invoke store/types\.SingleStoreCache\.ReverseIterator\(st\.cache, phi:iTree\.version, start, end\)`),
			Why:    "descending iteration asks the cache for a descending iterator over the same version and bounds"},
		{Prop: P, ID: "read.reverse-iterator.fallback-descending", Fn: st + "ReverseIterator",
			Target: CallTo(`^store/iavl\.newIAVLIterator\(`).Except(`^store/iavl\.newIAVLIterator\(phi:iTree, start, end, false\)`),
			Why:    "the tree fallback of ReverseIterator is descending over the same bounds"},
		{Prop: P, ID: "warmup.initialize-at-tree-version", Fn: "store/iavl.LoadStore",
			Assume:  []Lit{T(`^invoke store/types\.SingleStoreCache\.IsValid\(`)},
			Barrier: []string{`^invoke store/types\.SingleStoreCache\.Initialize\(.*\.cache, makemap, invoke store/iavl\.Tree\.Version\(.*\.tree\)\)`},
			Target:  Success(), From: `^store/iavl\.UnsafeNewStore\(`,
			Why: "a store loaded with a live cache hands it the full key set of the loaded version before use"},
		{Prop: P, ID: "pairing.lazy-version.cache-of-own-key", Fn: "(*store/rootmulti.Store).LoadLazyVersion",
			Target: CallTo(`^\(\*store/iavl\.Store\)\.LazyLoadStore\(`).Except(`^\(\*store/iavl\.Store\)\.LazyLoadStore\(assert<\*store/iavl\.Store>\(next\(range\(rs\.stores\)\)#2\)#0, ver, invoke store/types\.MultiStoreCache\.GetSingleStoreCache\(rs\.Cache, next\(range\(rs\.stores\)\)#1\)\)`),
			TargetMustExist: false,
			Why:             "a historical store is paired with the cache registered under its own key and the requested version"},
		{Prop: P, ID: "pairing.versioned-cms.cache-of-own-key", Fn: "(*store/rootmulti.Store).CacheMultiStoreWithVersion",
			Target: CallTo(`^\(\*store/iavl\.Store\)\.LazyLoadStore\(`).Except(`^\(\*store/iavl\.Store\)\.LazyLoadStore\(assert<\*store/iavl\.Store>\(next\(range\(rs\.stores\)\)#2\), version, invoke store/types\.MultiStoreCache\.GetSingleStoreCache\(rs\.Cache, next\(range\(rs\.stores\)\)#1\)\)`),
			Why:    "a historical store is paired with the cache registered under its own key and the requested version"},
		{Prop: P, ID: "pairing.load.cache-of-own-key", Fn: "(*store/rootmulti.Store).loadCommitStoreFromParams",
			Target: CallTo(`^store/iavl\.LoadStore\(`).Except(`^store/iavl\.LoadStore\(phi:db, id, rs\.pruningOpts, rs\.lazyLoading, invoke store/types\.MultiStoreCache\.GetSingleStoreCache\(rs\.Cache, key\), rs\.iavlCacheSize\)`),
			Why:    "the live store is loaded with the cache registered under its own key"},
	})...)
	out = append(out,
		c.fieldTable(P, "store.tree-set-once", "store/iavl", "Store", "tree", false, []string{"store/iavl.UnsafeNewStore"}, "the tree behind a Store is never swapped, so tree and cache stay paired"),
		c.fieldTable(P, "store.cache-set-once", "store/iavl", "Store", "cache", false, []string{"store/iavl.UnsafeNewStore"}, "the cache behind a Store is never swapped"),
		c.fieldTable(P, "snapshot.index-published-by-commit", hcPkg, "StoreAtHeight", "orderedKeys", false, []string{`\(` + hcPkg + `\.MemoryCache\)\.Commit`}, "only Commit publishes a snapshot's key index"),
	)
	out = append(out, c.c10TreeMutators(P))
	out = append(out, c.c10Rollback(P))
	// ---- the cache itself
	out = append(out, c.c10SnapshotOwned(P)...)
	out = append(out, c.c10AbsentIsNil(P))
	out = append(out, c.c10MakeLenAppend(P)...)
	out = append(out, c.Rows([]Row{
		{Prop: P, ID: "keys-exact.sorted-before-publish", Fn: "(" + hcPkg + ".MemoryCache).Commit",
			Barrier: []string{`^sort\.Strings\(`}, Target: StoreTo(`\.orderedKeys$`), TargetMustExist: true,
			Why: "the key index is sorted before it is stored in the snapshot"},
		{Prop: P, ID: "snapshot-owned.fresh-before-fill", Fn: "(" + hcPkg + ".MemoryCache).Commit",
			Barrier: []string{`store:pastHeights\[.*\]\.data = makemap$`, `^builtin\.clear\(.*pastHeights`}, Target: StoreTo(`pastHeights\[.*\]\.data\[`),
			Why: "a recycled snapshot slot is emptied (fresh map) before the current data is copied into it"},
	})...)
	out = append(out, c.c10IndexGuarded(P)...)
	out = append(out, c.c10BoundSplit(P)...)
	out = append(out, c.c10BoundsAsGiven(P))
	out = append(out,
		c.twins(P, "store.iterator.twins", "(*store/iavl.Store).Iterator", "(*store/iavl.Store).ReverseIterator", []Rename{{From: "SingleStoreCache.Iterator(", To: "SingleStoreCache.ReverseIterator("}, {From: "start, end, true)", To: "start, end, false)"}},
			"reverse iteration consults the cache and the tree exactly as forward iteration does, in the other direction"),
		c.twins(P, "cache.iterator.twins", "("+hcPkg+".MemoryCache).Iterator", "("+hcPkg+".MemoryCache).ReverseIterator", []Rename{{From: "orderedKeys, true)", To: "orderedKeys, false)"}},
			"the cache's reverse iterator is its forward iterator with the direction flag flipped"),
	)
	out = append(out, c.cachePresenceByNilness(P))
	return out
}

// c10BoundsAsGiven: the iterator keeps the caller's bounds: what is stored in
// its start / end fields are the constructor's start / end parameters. A
// constructor that may exchange them (a phi of both) turns [start, unbounded)
// into [unbounded, start), because the empty string stands for "unbounded" on
// either side.
func (c *Ctx) c10BoundsAsGiven(P string) Obligation {
	name := hcPkg + ".NewMemoryHeightIterator"
	o := c.obl(P, "bounds-as-given", name, "the start and end fields of the iterator are the constructor's start and end parameters, never exchanged")
	fn := c.A.Fn(name)
	if fn == nil {
		o.unresolved("not found")
		return *o
	}
	o.Pos = c.A.FnPos(fn)
	for _, b := range fn.Blocks {
		for _, ins := range b.Instrs {
			st, ok := ins.(*ssa.Store)
			if !ok {
				continue
			}
			fa, ok := st.Addr.(*ssa.FieldAddr)
			if !ok {
				continue
			}
			f := fieldName(fa.X.Type(), fa.Field)
			if f != "start" && f != "end" {
				continue
			}
			o.Facts++
			for _, leaf := range phiLeaves(st.Val) {
				p, isP := stripConv(leaf).(*ssa.Parameter)
				if !isP || identName(p) != f {
					o.fail(c.A.Pos(st.Pos()), "field %s of the iterator may receive %s: the bounds can be exchanged, and an unbounded end (\"\") then becomes the start", f, desc(leaf, 4))
				}
			}
		}
	}
	if o.Facts < 2 {
		o.unresolved("stores to the start/end fields not found")
	}
	return *o
}

// c10TreeMutators: calls of Tree.Set / Tree.Remove / SaveVersion on the tree held by a Store
// happen only in Store.Set / Store.Delete / Store.Commit.
func (c *Ctx) c10TreeMutators(P string) Obligation {
	allowed := map[string]string{"Set": "(*store/iavl.Store).Set", "Remove": "(*store/iavl.Store).Delete", "SaveVersion": "(*store/iavl.Store).Commit"}
	o := c.obl(P, "coherence.only-store-methods-mutate-tree", "store/iavl.Store.tree", "calls of Tree.Set/Remove/SaveVersion on a Store's tree occur only in Store.Set/Delete/Commit")
	for fn := range c.A.AllFns {
		if fn.Blocks == nil || !fnInRepo(fn) {
			continue
		}
		for _, s := range c.allCalls(fn) {
			if !s.Call.IsInvoke() {
				continue
			}
			n := namedOf(s.Call.Value.Type())
			if n == nil || n.Obj().Name() != "Tree" || n.Obj().Pkg() == nil || n.Obj().Pkg().Path() != repoMod+"/store/iavl" {
				continue
			}
			want, isMut := allowed[s.Call.Method.Name()]
			if !isMut {
				continue
			}
			o.Facts++
			if FnName(fn) != want {
				o.fail(c.A.Pos(s.Ins.Pos()), "%s calls Tree.%s directly: the height cache is not told", FnName(fn), s.Call.Method.Name())
			}
		}
	}
	if o.Facts < 3 {
		o.unresolved("only %d Tree mutator calls found; expected Set, Remove, SaveVersion", o.Facts)
	}
	return *o
}

// c10Rollback: Store.Rollback rewinds the tree without telling the cache; it
// must stay unreachable from the running node (today: no caller at all beyond
// RollbackVersion, which itself has none).
func (c *Ctx) c10Rollback(P string) Obligation {
	o := c.obl(P, "coherence.rollback-not-on-live-node", "(*store/iavl.Store).Rollback", "the tree rewind (LoadVersionForOverwriting) that bypasses the cache is reachable from no ABCI entry point")
	f := c.A.Fn("(*store/iavl.Store).Rollback")
	if f == nil {
		o.unresolved("not found")
		return *o
	}
	var roots []*ssa.Function
	for fn := range c.A.AllFns {
		if fn.Blocks == nil {
			continue
		}
		n := FnName(fn)
		if strings.HasPrefix(n, "(*baseapp.BaseApp).") || strings.HasPrefix(n, "(*app.PocketCoreApp).") {
			roots = append(roots, fn)
		}
	}
	o.Facts = len(roots)
	if len(roots) < 20 {
		o.unresolved("only %d baseapp/app methods found", len(roots))
		return *o
	}
	reach := c.A.Reach(roots, nil)
	if _, ok := reach[f]; ok {
		o.Path = pathTo(reach, f)
		o.fail(c.A.FnPos(f), "Store.Rollback is reachable from the running application without a cache reset")
	}
	return *o
}

// c10SnapshotOwned: the map stored into a snapshot's data field is created in
// Commit (never the live map), and snapshot maps are updated only there.
func (c *Ctx) c10SnapshotOwned(P string) []Obligation {
	o := c.obl(P, "snapshot-owned.fresh-map", "("+hcPkg+".MemoryCache).Commit", "every store to StoreAtHeight.data of a past-height slot is a map made in that function")
	o2 := c.obl(P, "snapshot-owned.only-commit-writes", hcPkg+".StoreAtHeight.data", "map updates and deletes on a past-height snapshot occur only in Commit; Set/Remove touch only the current map")
	cleared, partial := false, false
	for fn := range c.A.AllFns {
		if fn.Blocks == nil || fnPkgPath(fn) != repoMod+"/"+hcPkg {
			continue
		}
		name := FnName(fn)
		for _, b := range fn.Blocks {
			for _, ins := range b.Instrs {
				switch x := ins.(type) {
				case *ssa.Store:
					fa, ok := x.Addr.(*ssa.FieldAddr)
					if !ok || fieldName(fa.X.Type(), fa.Field) != "data" {
						continue
					}
					if n := namedOf(fa.X.Type()); n == nil || n.Obj().Name() != "StoreAtHeight" {
						continue
					}
					d := desc(x.Addr, maxDepth)
					if !strings.Contains(d, "pastHeights") {
						continue // current.data (Initialize, InitializeStoreCache) or constructor literal
					}
					o.Facts++
					if _, fresh := stripConv(x.Val).(*ssa.MakeMap); !fresh {
						o.fail(c.A.Pos(x.Pos()), "%s stores %s into a past-height snapshot: the snapshot would alias a map that keeps changing", name, desc(x.Val, 4))
					}
				case *ssa.MapUpdate:
					d := desc(x.Map, maxDepth)
					if !strings.Contains(d, "pastHeights") {
						continue
					}
					o2.Facts++
					if name != "("+hcPkg+".MemoryCache).Commit" {
						o2.fail(c.A.Pos(x.Pos()), "%s updates a past-height snapshot map (%s)", name, d)
					}
				}
			}
		}
		// delete(m, k) on a snapshot
		for _, s := range c.callSites(fn, `^builtin\.(delete|clear)\(`) {
			if strings.Contains(s.Desc, "pastHeights") {
				o2.Facts++
				if name != "("+hcPkg+".MemoryCache).Commit" {
					o2.fail(c.A.Pos(s.Ins.Pos()), "%s deletes from a past-height snapshot map", name)
				} else if strings.HasPrefix(s.Desc, "builtin.clear(") {
					cleared = true
				} else {
					partial = true
				}
			}
		}
	}
	switch {
	case o.Facts > 0 || cleared:
	case o2.Facts > 0 && partial:
		o.unresolved("Commit refills a recycled snapshot map after deleting from it; that every stale key is removed cannot be established")
	case o2.Facts > 0:
		o.fail("", "Commit refills the map of a recycled snapshot slot without replacing it by a fresh map (or clearing it): keys deleted since that slot's previous height stay readable at the new height")
	default:
		o.unresolved("no store to a snapshot's data field found")
	}
	if o2.Facts == 0 {
		o2.unresolved("no update of a snapshot map found")
	}
	return []Obligation{*o, *o2}
}

// c10AbsentIsNil: every success return of MemoryCache.Get yields either nil or
// a comma-ok map lookup whose ok flag guards the return; a plain lookup
// converted to []byte yields a non-nil empty slice for an absent key.
func (c *Ctx) c10AbsentIsNil(P string) Obligation {
	name := "(" + hcPkg + ".MemoryCache).Get"
	o := c.obl(P, "absent-is-nil", name, "a success return of Get is nil or a comma-ok map lookup tested before use: an absent key reads as nil, as from the tree")
	fn := c.A.Fn(name)
	if fn == nil {
		o.unresolved("not found")
		return *o
	}
	o.Pos = c.A.FnPos(fn)
	for _, b := range fn.Blocks {
		ret, ok := b.Instrs[len(b.Instrs)-1].(*ssa.Return)
		if !ok || len(ret.Results) != 2 {
			continue
		}
		if k, isK := ret.Results[1].(*ssa.Const); !isK || !k.IsNil() {
			continue // error return
		}
		for _, leaf := range phiLeaves(ret.Results[0]) {
			o.Facts++
			v := stripConv(leaf)
			for {
				if cv, isC := v.(*ssa.Convert); isC {
					v = stripConv(cv.X)
					continue
				}
				break
			}
			switch x := v.(type) {
			case *ssa.Const:
				continue
			case *ssa.Lookup:
				if isMapType(x.X.Type()) && !x.CommaOk {
					o.fail(c.A.Pos(ret.Pos()), "Get returns []byte(%s): a plain map lookup cannot tell an absent key from an empty value and yields a non-nil empty slice where the tree yields nil", desc(x, 4))
				}
			case *ssa.Extract:
				lk, isL := x.Tuple.(*ssa.Lookup)
				if !isL || !lk.CommaOk {
					o.unresolved("success return value %s is not understood", desc(leaf, 4))
					continue
				}
				// the ok flag must decide the path to this return
				guarded := false
				for _, f := range guardFacts(b) {
					if e, isE := stripConv(f.cond).(*ssa.Extract); isE && e.Tuple == lk && e.Index == 1 && f.truth {
						guarded = true
					}
				}
				if !guarded {
					// value flowing through a phi: accept when the ok flag is tested anywhere in the function
					for _, r := range *lk.Referrers() {
						if e, isE := r.(*ssa.Extract); isE && e.Index == 1 && e.Referrers() != nil && len(*e.Referrers()) > 0 {
							guarded = true
						}
					}
				}
				if !guarded {
					o.fail(c.A.Pos(ret.Pos()), "Get performs a comma-ok lookup but never tests the ok flag")
				}
			default:
				o.unresolved("success return value %s is not understood", desc(leaf, 4))
			}
		}
	}
	if o.Facts == 0 {
		o.unresolved("no success return found")
	}
	return *o
}

// c10MakeLenAppend: a slice made with a non-zero length that is then appended
// to starts with that many zero elements.
func (c *Ctx) c10MakeLenAppend(P string) []Obligation {
	var out []Obligation
	var names []string
	fns := map[string]*ssa.Function{}
	for fn := range c.A.AllFns {
		if fn.Blocks == nil || fnPkgPath(fn) != repoMod+"/"+hcPkg {
			continue
		}
		names = append(names, FnName(fn))
		fns[FnName(fn)] = fn
	}
	sort.Strings(names)
	total := 0
	for _, name := range names {
		fn := fns[name]
		var o *Obligation
		for _, b := range fn.Blocks {
			for _, ins := range b.Instrs {
				call, ok := ins.(*ssa.Call)
				if !ok {
					continue
				}
				bi, isB := call.Call.Value.(*ssa.Builtin)
				if !isB || bi.Name() != "append" {
					continue
				}
				if o == nil {
					o = c.obl(P, "keys-exact.no-make-len-then-append", name, "no append in "+name+" extends a slice made with a non-zero length (which would leave zero-valued leading elements)")
					o.Pos = c.A.FnPos(fn)
				}
				o.Facts++
				total++
				for _, leaf := range phiLeaves(call.Call.Args[0]) {
					ms, isM := stripConv(leaf).(*ssa.MakeSlice)
					if !isM {
						continue
					}
					if n, isK := intConst(ms.Len); isK && n == 0 {
						continue
					}
					o.fail(c.A.Pos(ms.Pos()), "slice made with length %s is appended to at %s: it starts with that many empty elements, which the iterator then serves as keys", desc(ms.Len, 4), c.A.Pos(call.Pos()))
				}
			}
		}
		if o != nil {
			out = append(out, *o)
		}
	}
	if total < 2 {
		o := c.obl(P, "keys-exact.no-make-len-then-append", hcPkg, "append sites found")
		o.unresolved("only %d append sites in %s", total, hcPkg)
		out = append(out, *o)
	}
	return out
}

// c10IndexGuarded: in the methods of MemoryHeightIterator every sortedKeys[curIdx]
// is evaluated only where 0 <= curIdx < len(sortedKeys) is established by the
// function's own dominating tests, or after Valid() returned true.
func (c *Ctx) c10IndexGuarded(P string) []Obligation {
	var out []Obligation
	var names []string
	fns := map[string]*ssa.Function{}
	for fn := range c.A.AllFns {
		if fn.Blocks == nil || !strings.HasPrefix(FnName(fn), "(*"+hcPkg+".MemoryHeightIterator).") {
			continue
		}
		names = append(names, FnName(fn))
		fns[FnName(fn)] = fn
	}
	sort.Strings(names)
	total := 0
	for _, name := range names {
		fn := fns[name]
		var o *Obligation
		for _, b := range fn.Blocks {
			for _, ins := range b.Instrs {
				ia, ok := ins.(*ssa.IndexAddr)
				if !ok {
					continue
				}
				if _, isSlice := ia.X.Type().Underlying().(*types.Slice); !isSlice {
					continue
				}
				S, I := desc(ia.X, maxDepth), desc(ia.Index, maxDepth)
				if !strings.HasSuffix(S, ".sortedKeys") {
					continue
				}
				if o == nil {
					o = c.obl(P, "index-guarded", name, "each "+S+"[i] in "+name+" is dominated by tests establishing 0 <= i < len or by a successful Valid()")
					o.Pos = c.A.FnPos(fn)
				}
				o.Facts++
				total++
				lower, upper, valid := false, false, false
				for _, f := range guardFacts(b) {
					if call, isC := stripConv(f.cond).(*ssa.Call); isC && f.truth {
						if cal := call.Call.StaticCallee(); cal != nil && FnName(cal) == "(*"+hcPkg+".MemoryHeightIterator).Valid" {
							valid = true
						}
					}
					if u, isU := stripConv(f.cond).(*ssa.UnOp); isU && u.Op == token.NOT && !f.truth {
						if call, isC := stripConv(u.X).(*ssa.Call); isC {
							if cal := call.Call.StaticCallee(); cal != nil && FnName(cal) == "(*"+hcPkg+".MemoryHeightIterator).Valid" {
								valid = true
							}
						}
					}
					lo, hi, neg, isCmp := cmpLT(f.cond)
					if !isCmp {
						continue
					}
					holdsLT := f.truth != neg // lo < hi holds; otherwise hi <= lo holds
					los, his := desc(lo, maxDepth), desc(hi, maxDepth)
					lenS := "builtin.len(" + S + ")"
					if holdsLT {
						// lo < hi
						if k, isK := intConst(lo); isK && k >= -1 && his == I {
							lower = true
						}
						if los == I && his == lenS {
							upper = true
						}
					} else {
						// hi <= lo
						if k, isK := intConst(hi); isK && k >= 0 && los == I {
							lower = true
						}
						if his == I && los == "("+lenS+" - 1)" {
							upper = true
						}
					}
				}
				if valid || (lower && upper) {
					continue
				}
				var miss []string
				if !lower {
					miss = append(miss, "0 <= "+I)
				}
				if !upper {
					miss = append(miss, I+" < len")
				}
				o.fail(c.A.Pos(ia.Pos()), "%s[%s] is evaluated before %s is established: a reverse iteration that steps below the first key (curIdx == -1) panics instead of becoming invalid", S, I, strings.Join(miss, " and "))
			}
		}
		if o != nil {
			out = append(out, *o)
		}
	}
	if total < 3 {
		o := c.obl(P, "index-guarded", hcPkg+".MemoryHeightIterator", "index sites found")
		o.unresolved("only %d sortedKeys index sites found", total)
		out = append(out, *o)
	}
	return out
}

// c10BoundSplit: every ordering test between an element of the key slice and
// the end (start) bound, in the iterator constructor and in Valid, splits at
// key < bound: [start, end) like the IAVL iterator. A test canonicalised as
// lt(bound, key) splits at key <= bound and makes the bound inclusive on one side.
func (c *Ctx) c10BoundSplit(P string) []Obligation {
	var out []Obligation
	total := 0
	for _, name := range []string{hcPkg + ".NewMemoryHeightIterator", "(*" + hcPkg + ".MemoryHeightIterator).Valid"} {
		o := c.obl(P, "bound-split", name, "each comparison of a key with the start/end bound in "+name+" is key < bound or its negation (half-open range, as the tree iterator)")
		fn := c.A.Fn(name)
		if fn == nil {
			o.unresolved("not found")
			out = append(out, *o)
			continue
		}
		o.Pos = c.A.FnPos(fn)
		isKey := func(s string) bool { return strings.Contains(s, "ortedKeys[") }
		isBound := func(s string) bool {
			return s == "end" || s == "start" || s == "phi:end" || s == "phi:start" || strings.HasSuffix(s, ".end") || strings.HasSuffix(s, ".start")
		}
		for _, b := range fn.Blocks {
			iff, ok := b.Instrs[len(b.Instrs)-1].(*ssa.If)
			if !ok {
				continue
			}
			lo, hi, _, isCmp := cmpLT(iff.Cond)
			if !isCmp {
				continue
			}
			los, his := desc(lo, maxDepth), desc(hi, maxDepth)
			switch {
			case isKey(los) && isBound(his):
				o.Facts++
				total++
			case isBound(los) && isKey(his):
				o.Facts++
				total++
				o.fail(c.A.Pos(iff.Cond.Pos()), "the test compares %s < %s: it splits at key <= bound, so a key equal to the bound is treated as inside here while the other tests treat the range as half-open", los, his)
			}
		}
		if o.Facts == 0 {
			o.unresolved("no key/bound comparison found")
		}
		out = append(out, *o)
	}
	if total < 4 {
		o := c.obl(P, "bound-split", hcPkg, "comparisons found")
		o.unresolved("only %d key/bound comparisons found; expected 4", total)
		out = append(out, *o)
	}
	return out
}

// cachePresenceByNilness: the cache tells "no entry" from "entry with an empty value" by nil-ness (the store
// holds zero-length values on purpose: per-chain index markers, parameter flags). Nothing that reads the
// cache may decide presence by the length of what Get returned.
func (c *Ctx) cachePresenceByNilness(P string) Obligation {
	o := c.obl(P, "cache.presence-by-nilness", "store/rootmulti/heightcache+store/iavl", "no value fetched from the height cache has its length tested: an entry with an empty value is an entry")
	n := 0
	for fn := range c.A.AllFns {
		if fn.Blocks == nil {
			continue
		}
		pk := fnPkgPath(fn)
		if pk != repoMod+"/store/rootmulti/heightcache" && pk != repoMod+"/store/iavl" && pk != repoMod+"/store/rootmulti" {
			continue
		}
		for _, b := range fn.Blocks {
			for _, ins := range b.Instrs {
				call, ok := ins.(*ssa.Call)
				if !ok {
					continue
				}
				name := calleeName(&call.Call)
				if !(strings.HasSuffix(name, "heightcache.MemoryCache).Get") || strings.HasSuffix(name, "SingleStoreCache.Get") || strings.HasSuffix(name, "MultiStoreCache.Get")) {
					continue
				}
				n++
				o.Facts++
				// the value result and everything it is copied into
				var walk func(v ssa.Value, d int)
				walk = func(v ssa.Value, d int) {
					if d > 5 || v.Referrers() == nil {
						return
					}
					for _, r := range *v.Referrers() {
						switch x := r.(type) {
						case *ssa.Extract:
							if x.Index == 0 {
								walk(x, d+1)
							}
						case *ssa.Phi:
							walk(x, d+1)
						case *ssa.Call:
							if bi, isB := x.Call.Value.(*ssa.Builtin); isB && bi.Name() == "len" {
								// a length used as a branch condition or returned as a boolean: presence decided by length
								if lenDecides(x) {
									o.fail(c.A.Pos(x.Pos()), "%s tests the length of a value read from the cache (%s): a stored empty value would count as absent", FnName(fn), desc(v, 4))
								}
							}
						}
					}
				}
				walk(call, 0)
			}
		}
	}
	if n == 0 {
		o.unresolved("no read of the height cache found")
	}
	return *o
}

// lenDecides: the length computed by l is compared (and the comparison branches or is returned).
func lenDecides(l *ssa.Call) bool {
	if l.Referrers() == nil {
		return false
	}
	for _, r := range *l.Referrers() {
		if bo, ok := r.(*ssa.BinOp); ok {
			switch bo.Op {
			case token.EQL, token.NEQ, token.LSS, token.GTR, token.LEQ, token.GEQ:
				return true
			}
		}
	}
	return false
}
