package main

import (
	"regexp"
	"strings"

	"golang.org/x/tools/go/ssa"
)

// C04: saved state is reproduced exactly after reopening — the clause that is
// visible in the code: what is written is what is read back. Writer and reader
// of every persistent record (IAVL node, root index, commit info, latest
// version) use the same key expression and the same encoding sequence.

func init() {
	register(&Prop{
		ID: "C04", Title: "Saved state is reproduced exactly after reopening from disk",
		Technique: "writer/reader agreement (E6): per-path sequences of go-amino primitives and the fields they carry in Node.writeBytes vs MakeNode; cross-function operand agreement of DB keys and codec targets between each setter and its getter; key-format prefix disjointness; pruned-CFG rows on SaveNode/GetNode/saveRoot",
		DesignRef: "DESIGN.md §3 C04",
		Explanation: "Node.writeBytes writes, and MakeNode reads, the same sequence (Int8 height, Varint size, Varint version, ByteSlice key, then value | leftHash, rightHash), each decoded value bound to the field that was encoded; SaveNode stores those bytes under nodeKey(node.hash) and GetNode reads nodeKey(hash), decodes with MakeNode and stamps the node with that same hash; saveRoot/getRoot/getRoots use rootKeyFormat with the version; the three IAVL key spaces have distinct prefixes; setCommitInfo/getCommitInfo and setLatestVersion/getLatestVersion use the same key expression and the same codec pair on the same Go type; commit info and latest version travel in the one batch that Commit writes (C07).",
		NotDecided:  "that the root hash and contents read back are equal in value for every history (lazy child loading, orphan bookkeeping, pruning), and bit-level correctness of go-amino itself.",
		MinObl:      16,
		Run:         runC04,
	})
}

var reNodeDot = regexp.MustCompile(`^node\.`)

func runC04(c *Ctx) []Obligation {
	P := "C04"
	var out []Obligation
	stripNode := func(s string) string { return reNodeDot.ReplaceAllString(s, "") }
	out = append(out,
		c.codecAgree(P, "node.codec-agreement", "(*store/iavl.Node).writeBytes", "store/iavl.MakeNode", stripNode, nil, 2,
			"a persisted node decodes to the node that was encoded (leaf: value; inner: child hashes)"),
	)
	ndb := `\(\*store/iavl\.nodeDB\)\.`
	out = append(out, c.Rows([]Row{
		{Prop: P, ID: "savenode.key-is-own-hash", Fn: "(*store/iavl.nodeDB).SaveNode",
			Target: CallTo(`^invoke github\.com/tendermint/tm-db\.Batch\.Set\(`).Except(`^invoke github\.com/tendermint/tm-db\.Batch\.Set\(ndb\.batch, ` + ndb + `nodeKey\(ndb, node\.hash\), \(\*bytes\.Buffer\)\.Bytes\(&var:buf\)\)$`),
			Why: "a node is stored under the key of its own hash, with the bytes just encoded"},
		{Prop: P, ID: "savenode.encodes-first", Fn: "(*store/iavl.nodeDB).SaveNode", Barrier: []string{`^\(\*store/iavl\.Node\)\.writeBytes\(node, &var:buf\)`},
			Target: CallTo(`^invoke github\.com/tendermint/tm-db\.Batch\.Set\(`), TargetMustExist: true, Why: "the stored bytes are the node's encoding"},
		{Prop: P, ID: "savenode.encode-error-not-stored", Fn: "(*store/iavl.nodeDB).SaveNode", Assume: []Lit{T(`^nonnil\(\(\*store/iavl\.Node\)\.writeBytes\(node, &var:buf\)\)$`)},
			Target: CallTo(`^invoke github\.com/tendermint/tm-db\.Batch\.Set\(`), Why: "a node that failed to encode is never stored"},
		{Prop: P, ID: "getnode.reads-own-key", Fn: "(*store/iavl.nodeDB).GetNode",
			Target: CallTo(`^invoke github\.com/tendermint/tm-db\.DB\.Get\(`).Except(`^invoke github\.com/tendermint/tm-db\.DB\.Get\(ndb\.db, ` + ndb + `nodeKey\(ndb, hash\)\)$`),
			Why: "a node is read from the key of the requested hash"},
		{Prop: P, ID: "getnode.decodes-what-it-read", Fn: "(*store/iavl.nodeDB).GetNode",
			Target: CallTo(`^store/iavl\.MakeNode\(`).Except(`^store/iavl\.MakeNode\(invoke github\.com/tendermint/tm-db\.DB\.Get\(ndb\.db, ` + ndb + `nodeKey\(ndb, hash\)\)#0\)$`),
			Why: "the decoded bytes are the bytes read"},
		{Prop: P, ID: "getnode.stamps-requested-hash", Fn: "(*store/iavl.nodeDB).GetNode",
			Target: StoreTo(`\.hash$`).ExceptVal(`^hash$`), Why: "a loaded node carries no other hash than the one it was requested by"},
		{Prop: P, ID: "getnode.stamps-hash", Fn: "(*store/iavl.nodeDB).GetNode", Assume: []Lit{F(`^ndb\.nodeCache\[conv<string>\(hash\)\]#1$`)},
			Barrier: []string{`store:\.hash = hash$`}, Target: Success(), Why: "a node loaded from disk is stamped with the requested hash"},
		{Prop: P, ID: "getnode.marks-persisted", Fn: "(*store/iavl.nodeDB).GetNode", Assume: []Lit{F(`^ndb\.nodeCache\[conv<string>\(hash\)\]#1$`)},
			Barrier: []string{`store:\.persisted = true$`}, Target: Success(), Why: "a node loaded from disk is marked persisted (never saved or mutated again, C09)"},
		{Prop: P, ID: "getnode.decode-error-not-returned", Fn: "(*store/iavl.nodeDB).GetNode", Assume: []Lit{F(`^ndb\.nodeCache\[conv<string>\(hash\)\]#1$`), T(`^nonnil\(store/iavl\.MakeNode\(.*\)#1\)$`)},
			Target: TargetAnyReturn(), Why: "undecodable bytes are never returned as a node"},
		{Prop: P, ID: "getnode.missing-not-returned", Fn: "(*store/iavl.nodeDB).GetNode", Assume: []Lit{F(`^ndb\.nodeCache\[conv<string>\(hash\)\]#1$`), F(`^nonnil\(invoke github\.com/tendermint/tm-db\.DB\.Get\(.*\)#0\)$`)},
			Target: TargetAnyReturn(), Why: "a missing record is never returned as a node"},
		{Prop: P, ID: "saveroot.key-and-value", Fn: "(*store/iavl.nodeDB).saveRoot",
			Target: CallTo(`^invoke github\.com/tendermint/tm-db\.Batch\.Set\(`).Except(`^invoke github\.com/tendermint/tm-db\.Batch\.Set\(ndb\.batch, ` + ndb + `rootKey\(ndb, version\), hash\)$`),
			Why: "the root hash of a version is stored under that version's root key"},
		{Prop: P, ID: "saveroot.consecutive", Fn: "(*store/iavl.nodeDB).saveRoot", Assume: []Lit{F(`^eq\(\(` + ndb + `getLatestVersion\(ndb\) \+ 1\), version\)$`)},
			Target: CallTo(`^invoke github\.com/tendermint/tm-db\.Batch\.Set\(`), TargetMustExist: true, Why: "only the next version's root may be saved"},
		{Prop: P, ID: "saveroot.tracks-latest", Fn: "(*store/iavl.nodeDB).saveRoot", Barrier: []string{`^` + ndb + `updateLatestVersion\(ndb, version\)`}, Target: Success(), Why: "the latest-version memo follows the saved root"},
		{Prop: P, ID: "getroot.key", Fn: "(*store/iavl.nodeDB).getRoot",
			Target: CallTo(`^invoke github\.com/tendermint/tm-db\.DB\.Get\(`).Except(`^invoke github\.com/tendermint/tm-db\.DB\.Get\(ndb\.db, ` + ndb + `rootKey\(ndb, version\)\)$`),
			Why: "a version's root is read from that version's root key"},
		{Prop: P, ID: "rootkey.format", Fn: "(*store/iavl.nodeDB).rootKey", Target: RetNotMatch(0, `^\(\*store/iavl\.KeyFormat\)\.Key\(store/iavl\.rootKeyFormat, \[version\]\)$`), Why: "root keys are rootKeyFormat(version)"},
		{Prop: P, ID: "nodekey.format", Fn: "(*store/iavl.nodeDB).nodeKey", Target: RetNotMatch(0, `^\(\*store/iavl\.KeyFormat\)\.KeyBytes\(store/iavl\.nodeKeyFormat, \[hash\]\)$`), Why: "node keys are nodeKeyFormat(hash)"},
		{Prop: P, ID: "getroots.prefix", Fn: "(*store/iavl.nodeDB).getRoots",
			Target: CallTo(`^` + ndb + `traversePrefix\(`).Except(`^` + ndb + `traversePrefix\(ndb, \(\*store/iavl\.KeyFormat\)\.Key\(store/iavl\.rootKeyFormat, nil\), closure:`), Why: "the root index is scanned over the root key prefix"},
		{Prop: P, ID: "getroots.scan", Fn: "(*store/iavl.nodeDB).getRoots$1", Barrier: []string{`^\(\*store/iavl\.KeyFormat\)\.Scan\(store/iavl\.rootKeyFormat, k, \[&var:version\]\)`},
			Target: StoreTo(`^free:roots\[`), TargetMustExist: true, Why: "each entry's version is parsed with the format it was written with"},
	})...)
	// key spaces are disjoint
	out = append(out, c.keyFormatPrefixes(P))
	// rootmulti: commit info and latest version
	rm := "store/rootmulti."
	ren := func(s string) string { return strings.ReplaceAll(s, "[ver]", "[version]") }
	out = append(out,
		c.crossOperand(P, "commitinfo.same-key", rm+"setCommitInfo", `^invoke github\.com/tendermint/tm-db\.Batch\.Set\(`, 0, rm+"getCommitInfo", `^invoke github\.com/tendermint/tm-db\.DB\.Get\(`, 0, ren, false, "commit info is read from the key it was written to"),
		c.crossOperand(P, "commitinfo.same-type", rm+"setCommitInfo", `^\(\*codec\.Codec\)\.LegacyMarshalBinaryLengthPrefixed\(`, 1, rm+"getCommitInfo", `^\(\*codec\.Codec\)\.LegacyUnmarshalBinaryLengthPrefixed\(`, 2, nil, true, "commit info is decoded into the type it was encoded from, with the matching codec call"),
		c.crossOperand(P, "latestversion.same-key", rm+"setLatestVersion", `^invoke github\.com/tendermint/tm-db\.Batch\.Set\(`, 0, rm+"getLatestVersion", `^invoke github\.com/tendermint/tm-db\.DB\.Get\(`, 0, nil, false, "the latest version is read from the key it was written to"),
		c.crossOperand(P, "latestversion.same-type", rm+"setLatestVersion", `^\(\*codec\.Codec\)\.LegacyMarshalBinaryLengthPrefixed\(`, 1, rm+"getLatestVersion", `^\(\*codec\.Codec\)\.LegacyUnmarshalBinaryLengthPrefixed\(`, 2, nil, true, "the latest version is decoded into the type it was encoded from"),
	)
	out = append(out, c.Rows([]Row{
		{Prop: P, ID: "commitinfo.stores-encoding", Fn: rm + "setCommitInfo",
			Target: CallTo(`^invoke github\.com/tendermint/tm-db\.Batch\.Set\(`).Except(`^invoke github\.com/tendermint/tm-db\.Batch\.Set\(batch, .*, \(\*codec\.Codec\)\.LegacyMarshalBinaryLengthPrefixed\(store/rootmulti\.cdc, &var:cInfo\)#0\)$`), Why: "the stored bytes are the encoding of the commit info given"},
		{Prop: P, ID: "commitinfo.decodes-what-it-read", Fn: rm + "getCommitInfo",
			Target: CallTo(`^\(\*codec\.Codec\)\.LegacyUnmarshalBinaryLengthPrefixed\(`).Except(`^\(\*codec\.Codec\)\.LegacyUnmarshalBinaryLengthPrefixed\(store/rootmulti\.cdc, invoke github\.com/tendermint/tm-db\.DB\.Get\(db, .*\)#0, &var:cInfo\)$`), Why: "the decoded bytes are the bytes read"},
		{Prop: P, ID: "commitinfo.decode-error-fails", Fn: rm + "getCommitInfo", Assume: []Lit{T(`^nonnil\(\(\*codec\.Codec\)\.LegacyUnmarshalBinaryLengthPrefixed\(`)}, Target: Success(), Why: "undecodable commit info is an error, not an empty commit"},
		{Prop: P, ID: "commitinfo.missing-fails", Fn: rm + "getCommitInfo", Assume: []Lit{F(`^nonnil\(invoke github\.com/tendermint/tm-db\.DB\.Get\(.*\)#0\)$`)}, Target: Success(), Why: "a missing commit info is an error"},
		{Prop: P, ID: "commitinfo.returns-decoded", Fn: rm + "getCommitInfo", Assume: []Lit{T(`^nonnil\(invoke github\.com/tendermint/tm-db\.DB\.Get\(.*\)#0\)$`), F(`^nonnil\(\(\*codec\.Codec\)\.LegacyUnmarshalBinaryLengthPrefixed\(`)},
			Target: RetNotMatch(0, `^var:cInfo$`), Why: "the commit info returned is the one decoded"},
	})...)
	out = append(out, c.childHashFollowsChild(P)...)
	// loading: every version on disk is listed, the newest not above the target is the one loaded, and the tree
	// (working, last-saved, orphans) is reset onto it
	LV := "(*store/iavl.MutableTree).LoadVersion"
	roots := `\(\*store/iavl\.nodeDB\)\.getRoots\(tree\.ndb\)#0`
	out = append(out, c.Rows([]Row{
		{Prop: P, ID: "load.working-tree-set", Fn: LV, Assume: []Lit{F(`^eq\(0, builtin\.len\(` + roots + `\)\)$`)}, Barrier: []string{`store:^tree\.ImmutableTree = &var:complit$`}, Target: Success(), Why: "a successful load of a non-empty database installs the loaded tree as the working tree"},
		{Prop: P, ID: "load.last-saved-set", Fn: LV, Assume: []Lit{F(`^eq\(0, builtin\.len\(` + roots + `\)\)$`)}, Barrier: []string{`store:^tree\.lastSaved = \(\*store/iavl\.ImmutableTree\)\.clone\(&var:complit\)$`}, Target: Success(), Why: "and as the last-saved tree"},
		{Prop: P, ID: "load.orphans-reset", Fn: LV, Assume: []Lit{F(`^eq\(0, builtin\.len\(` + roots + `\)\)$`)}, Barrier: []string{`store:^tree\.orphans = makemap$`}, Target: Success(), Why: "with no orphans pending"},
		{Prop: P, ID: "load.root-from-recorded-hash", Fn: LV, Target: StoreTo(`^var:complit\.root$`).ExceptVal(`^\(\*store/iavl\.nodeDB\)\.GetNode\(tree\.ndb, phi:latestRoot\)$`), Why: "the root is the node stored under the recorded root hash of the chosen version"},
		{Prop: P, ID: "load.target-must-be-reached", Fn: LV, Assume: []Lit{F(`^eq\(0, builtin\.len\(` + roots + `\)\)$`), F(`^eq\(0, targetVersion\)$`), F(`^eq\(phi:latestVersion, targetVersion\)$`)}, Target: Success(), Why: "asking for a version that is not on disk fails"},
	})...)
	out = append(out,
		c.edgeMust(P, "load.every-version-listed", LV, `^next\(range\(` + roots + `\)\)#0$`, true, `mapset:^tree\.versions\[next\(range\(` + roots + `\)\)#1\] = true$`, 1, "every version with a root record becomes an available version"),
	)
	return out
}

// keyFormatPrefixes: the node, orphan and root key formats of the node DB are
// created with pairwise distinct prefix bytes.
func (c *Ctx) keyFormatPrefixes(P string) Obligation {
	o := c.obl(P, "keyformat.disjoint-prefixes", "store/iavl.{nodeKeyFormat,orphanKeyFormat,rootKeyFormat}", "the three key formats of the node DB have pairwise distinct prefix bytes, so nodes, orphans and roots never overwrite each other")
	pkg := c.A.SSAPkgs[repoMod+"/store/iavl"]
	if pkg == nil {
		o.unresolved("package not found")
		return *o
	}
	init := pkg.Func("init")
	if init == nil {
		o.unresolved("package initializer not found")
		return *o
	}
	seen := map[string]string{}
	for _, b := range init.Blocks {
		for _, ins := range b.Instrs {
			st, ok := ins.(*ssa.Store)
			if !ok {
				continue
			}
			g, ok := st.Addr.(*ssa.Global)
			if !ok || !strings.HasSuffix(g.Name(), "KeyFormat") {
				continue
			}
			call, ok := st.Val.(*ssa.Call)
			if !ok || call.Call.StaticCallee() == nil || call.Call.StaticCallee().Name() != "NewKeyFormat" {
				o.unresolved("%s is not initialised by NewKeyFormat", g.Name())
				continue
			}
			p := desc(call.Call.Args[0], 3)
			o.Facts++
			if other, dup := seen[p]; dup {
				o.fail(c.A.Pos(st.Pos()), "%s and %s share the prefix %s", g.Name(), other, p)
			}
			seen[p] = g.Name()
		}
	}
	if o.Facts < 3 {
		o.unresolved("only %d key formats found in the initializer", o.Facts)
	}
	return *o
}
