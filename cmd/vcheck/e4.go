package main

import (
	"fmt"
	"go/token"
	"go/types"
	"sort"
	"strings"

	"golang.org/x/tools/go/ssa"
)

// E4: determinism of the consensus path.

var consensusRoots = []string{
	"(*baseapp.BaseApp).InitChain",
	"(*baseapp.BaseApp).BeginBlock",
	"(*baseapp.BaseApp).DeliverTx",
	"(*baseapp.BaseApp).EndBlock",
	"(*baseapp.BaseApp).Commit",
}

// consensusReach: repo-scoped closure of the ABCI block-execution entry points.
func (c *Ctx) consensusReach() map[*ssa.Function]*ssa.Function {
	var roots []*ssa.Function
	for _, r := range consensusRoots {
		if f := c.A.Fn(r); f != nil {
			roots = append(roots, f)
		}
	}
	// off-chain services hang off the same objects (RPC handlers are values
	// stored at start-up): cut at packages that are never part of block execution
	stop := func(f *ssa.Function) bool {
		p := fnPkgPath(f)
		return strings.HasSuffix(p, "/app/cmd/rpc") || strings.HasSuffix(p, "/app/cmd/cli") || strings.Contains(p, "/crypto/keys")
	}
	// goroutines started during block execution are asynchronous: their bodies
	// are checked separately (they must not write consensus stores)
	return c.A.ReachOpt(roots, stop, true)
}

type mapRange struct {
	Fn    *ssa.Function
	Range *ssa.Range
	Class string // "sorted-collect", "map-copy", "reduction", "" (unclassified)
	Sinks []string
}

// loopBlocks: blocks of the range loop whose iterator is r (blocks dominated
// by the loop header that can reach it again).
func loopBlocks(r *ssa.Range) map[*ssa.BasicBlock]bool {
	// the header is the block containing the Next on this iterator
	var header *ssa.BasicBlock
	if r.Referrers() != nil {
		for _, ref := range *r.Referrers() {
			if n, ok := ref.(*ssa.Next); ok {
				header = n.Block()
			}
		}
	}
	out := map[*ssa.BasicBlock]bool{}
	if header == nil {
		return out
	}
	// body = blocks from which header is reachable and which header dominates
	fn := r.Parent()
	for _, b := range fn.Blocks {
		if !header.Dominates(b) {
			continue
		}
		// can b reach header?
		seen := map[*ssa.BasicBlock]bool{}
		q := append([]*ssa.BasicBlock{}, b.Succs...)
		reach := false
		for len(q) > 0 && !reach {
			x := q[0]
			q = q[1:]
			if x == header {
				reach = true
				break
			}
			if seen[x] || !header.Dominates(x) {
				continue
			}
			seen[x] = true
			q = append(q, x.Succs...)
		}
		if reach || b == header {
			out[b] = true
		}
	}
	return out
}

var sortFns = map[string]bool{
	"sort.Strings": true, "sort.Ints": true, "sort.Slice": true, "sort.SliceStable": true, "sort.Sort": true, "sort.Stable": true, "sort.Float64s": true,
}

// classifyMapRange decides whether the order of iteration can be observed.
func (c *Ctx) classifyMapRange(r *ssa.Range) mapRange {
	fn := r.Parent()
	mr := mapRange{Fn: fn, Range: r}
	body := loopBlocks(r)
	var appendedTo []ssa.Value
	ok := true
	bad := func(s string) { ok = false; mr.Sinks = append(mr.Sinks, s) }
	for b := range body {
		for _, ins := range b.Instrs {
			switch x := ins.(type) {
			case *ssa.MapUpdate:
				// writes into another map: a set/dictionary is being filled
			case *ssa.Store:
				// only compiler temporaries (varargs / composite literals) may be written
				if a := baseAlloc(x.Addr); a == nil || !(a.Comment == "varargs" || a.Comment == "complit" || a.Comment == "slicelit") {
					bad("store " + desc(x.Addr, 4))
				}
			case *ssa.Return:
				bad("return inside loop")
			case *ssa.Panic:
				bad("panic inside loop")
			case *ssa.Call:
				name := calleeName(&x.Call)
				switch {
				case name == "builtin.append":
					appendedTo = append(appendedTo, x)
				case pureCallee(name):
				default:
					bad(name)
				}
			case *ssa.Go, *ssa.Defer, *ssa.Send:
				bad(fmt.Sprintf("%T", ins))
			case *ssa.Phi:
				// loop-carried values other than slice accumulators make the
				// result depend on the last/first element seen
				if !body[x.Block()] {
					continue
				}
				if _, isSlice := x.Type().Underlying().(*types.Slice); isSlice {
					continue
				}
				if x.Referrers() != nil && len(*x.Referrers()) > 0 && usedOutside(x, body) {
					bad("loop-carried value " + desc(x, 2))
				}
			}
		}
	}
	// values computed in the body and used after the loop (other than slices that get sorted)
	for b := range body {
		for _, ins := range b.Instrs {
			v, isVal := ins.(ssa.Value)
			if !isVal || v.Referrers() == nil {
				continue
			}
			if _, isSlice := v.Type().Underlying().(*types.Slice); isSlice {
				continue
			}
			if _, isNext := ins.(*ssa.Next); isNext {
				continue
			}
			if usedOutside(v, body) {
				bad("value " + desc(v, 2) + " escapes the loop")
			}
		}
	}
	if ok {
		for _, a := range appendedTo {
			if !flowsToSort(a) {
				ok = false
				mr.Sinks = append(mr.Sinks, "append not followed by sort")
				break
			}
		}
	}
	if ok {
		if len(appendedTo) > 0 {
			mr.Class = "sorted-collect"
		} else {
			mr.Class = "map-ops-only"
		}
	}
	sort.Strings(mr.Sinks)
	return mr
}

func baseAlloc(v ssa.Value) *ssa.Alloc {
	for {
		switch x := v.(type) {
		case *ssa.Alloc:
			return x
		case *ssa.IndexAddr:
			v = x.X
		case *ssa.FieldAddr:
			v = x.X
		default:
			return nil
		}
	}
}

func usedOutside(v ssa.Value, body map[*ssa.BasicBlock]bool) bool {
	if v.Referrers() == nil {
		return false
	}
	for _, r := range *v.Referrers() {
		if _, dbg := r.(*ssa.DebugRef); dbg {
			continue
		}
		if !body[r.Block()] {
			return true
		}
	}
	return false
}

func localAddr(v ssa.Value) bool {
	for {
		switch x := v.(type) {
		case *ssa.Alloc:
			return !x.Heap || true
		case *ssa.IndexAddr:
			v = x.X
		case *ssa.FieldAddr:
			v = x.X
		default:
			return false
		}
	}
}

func pureCallee(name string) bool {
	switch {
	case strings.HasPrefix(name, "builtin."):
		return true
	case strings.HasPrefix(name, "strings.") || strings.HasPrefix(name, "bytes.Equal") || strings.HasPrefix(name, "strconv."):
		return true
	}
	return false
}

// flowsToSort: the slice value v (an append result) flows, through phis and
// further appends, into an argument of a sort.* call in the same function.
// collectedSlicesAreSorted: every slice the loop over r writes into (element stores or appends) is
// handed to a sort function afterwards. Returns "" if so, else what is wrong.
func collectedSlicesAreSorted(r *ssa.Range) string {
	body := loopBlocks(r)
	n := 0
	check := func(base ssa.Value) bool {
		base = stripConv(base)
		if ld, ok := base.(*ssa.UnOp); ok && ld.Op == token.MUL {
			if a, ok := ld.X.(*ssa.Alloc); ok && a.Referrers() != nil {
				// a variable (captured by the comparison closure): any load of it that is sorted outside the loop
				for _, rr := range *a.Referrers() {
					if l2, ok := rr.(*ssa.UnOp); ok && l2.Op == token.MUL && !body[l2.Block()] && flowsToSort(l2) {
						return true
					}
				}
				return false
			}
		}
		return flowsToSort(base)
	}
	for b := range body {
		for _, ins := range b.Instrs {
			switch x := ins.(type) {
			case *ssa.Store:
				if ia, ok := x.Addr.(*ssa.IndexAddr); ok {
					if a := baseAlloc(x.Addr); a != nil && (a.Comment == "varargs" || a.Comment == "complit" || a.Comment == "slicelit") {
						continue
					}
					n++
					if !check(ia.X) {
						return "the slice " + desc(ia.X, 3) + " filled in the loop is not passed to a sort function afterwards"
					}
				}
			case *ssa.Call:
				if calleeName(&x.Call) == "builtin.append" {
					n++
					if !flowsToSort(x) {
						return "the slice appended to in the loop is not passed to a sort function afterwards"
					}
				}
			}
		}
	}
	if n == 0 {
		return "the loop collects nothing into a slice"
	}
	return ""
}

func flowsToSort(v ssa.Value) bool {
	seen := map[ssa.Value]bool{}
	var walk func(ssa.Value) bool
	walk = func(x ssa.Value) bool {
		if seen[x] {
			return false
		}
		seen[x] = true
		refs := x.Referrers()
		if refs == nil {
			return false
		}
		for _, r := range *refs {
			switch u := r.(type) {
			case *ssa.Call:
				if f := u.Call.StaticCallee(); f != nil && sortFns[f.String()] {
					return true
				}
				if calleeName(&u.Call) == "builtin.append" && walk(u) {
					return true
				}
			case *ssa.Phi:
				if walk(u) {
					return true
				}
			case *ssa.MakeInterface:
				if walk(u) {
					return true
				}
			case *ssa.ChangeType:
				if walk(u) {
					return true
				}
			case *ssa.Convert:
				if walk(u) {
					return true
				}
			case *ssa.Store:
				// stored into a local that is later loaded and sorted
				if a, ok := u.Addr.(*ssa.Alloc); ok && a.Referrers() != nil {
					for _, rr := range *a.Referrers() {
						if ld, ok := rr.(*ssa.UnOp); ok && ld.Op == token.MUL && walk(ld) {
							return true
						}
					}
				}
			}
		}
		return false
	}
	return walk(v)
}

// mapRangesIn lists the map ranges of the functions in set.
func (c *Ctx) mapRangesIn(set map[*ssa.Function]*ssa.Function) []mapRange {
	var out []mapRange
	for f := range set {
		if f.Blocks == nil || strings.HasSuffix(c.A.FnPos(f), ".pb.go") || strings.Contains(c.A.FnPos(f), ".pb.go:") {
			continue
		}
		for _, b := range f.Blocks {
			for _, ins := range b.Instrs {
				if r, ok := ins.(*ssa.Range); ok && isMapType(r.X.Type()) {
					out = append(out, c.classifyMapRange(r))
				}
			}
		}
	}
	sort.Slice(out, func(i, j int) bool {
		if FnName(out[i].Fn) != FnName(out[j].Fn) {
			return FnName(out[i].Fn) < FnName(out[j].Fn)
		}
		return out[i].Range.Pos() < out[j].Range.Pos()
	})
	return out
}

var nondetSources = map[string]string{
	"time.Now": "clock", "time.Since": "clock", "time.Until": "clock",
	// ambient, node-local inputs
	"os.Getenv": "environment", "os.LookupEnv": "environment", "os.Environ": "environment", "os.Hostname": "environment",
	"os.Getpid": "environment", "os.Getwd": "environment", "os.UserHomeDir": "environment",
	"runtime.NumCPU": "environment", "runtime.NumGoroutine": "environment", "runtime.GOMAXPROCS": "environment",
	// unordered views of a map
	"(reflect.Value).MapKeys": "map-order", "(reflect.Value).MapRange": "map-order",
}

func isNondetCall(cc *ssa.CallCommon) (string, bool) {
	f := cc.StaticCallee()
	if f == nil {
		return "", false
	}
	n := f.String()
	if k, ok := nondetSources[n]; ok {
		return k + " " + n, true
	}
	if strings.HasPrefix(n, "math/rand.") || strings.HasPrefix(n, "crypto/rand.") || strings.HasPrefix(n, "(*math/rand.Rand).") {
		return "random " + n, true
	}
	return "", false
}

// clockFlows: for a nondeterministic source call, the uses of its value that
// are not observability sinks.
func (c *Ctx) clockFlows(call *ssa.Call, allowedSink func(string) bool) []string {
	var bad []string
	seen := map[ssa.Value]bool{}
	var walk func(v ssa.Value)
	walk = func(v ssa.Value) {
		if seen[v] {
			return
		}
		seen[v] = true
		refs := v.Referrers()
		if refs == nil {
			return
		}
		for _, r := range *refs {
			switch u := r.(type) {
			case *ssa.DebugRef:
			case *ssa.Call:
				n := calleeName(&u.Call)
				if allowedSink(n) {
					continue
				}
				// derived time values (Sub, Milliseconds, ...) keep the taint
				if strings.HasPrefix(n, "(time.Time).") || strings.HasPrefix(n, "(time.Duration).") || n == "time.Since" || strings.HasPrefix(n, "builtin.") {
					walk(u)
					continue
				}
				bad = append(bad, fmt.Sprintf("passed to %s at %s", n, c.A.Pos(u.Pos())))
			case *ssa.Defer:
				n := calleeName(&u.Call)
				if !allowedSink(n) {
					bad = append(bad, fmt.Sprintf("deferred %s at %s", n, c.A.Pos(u.Pos())))
				}
			case *ssa.Go:
				n := calleeName(&u.Call)
				if !allowedSink(n) {
					bad = append(bad, fmt.Sprintf("go %s at %s", n, c.A.Pos(u.Pos())))
				}
			case *ssa.If:
				bad = append(bad, fmt.Sprintf("decides a branch at %s", c.A.Pos(condPos(u))))
			case *ssa.Return:
				bad = append(bad, fmt.Sprintf("returned at %s", c.A.Pos(u.Pos())))
			case *ssa.Store:
				if a := baseAlloc(u.Addr); a != nil {
					// local (or an element of a local array such as varargs): follow loads and slices of it
					if a.Referrers() != nil {
						for _, rr := range *a.Referrers() {
							switch ld := rr.(type) {
							case *ssa.UnOp:
								if ld.Op == token.MUL {
									walk(ld)
								}
							case *ssa.Slice:
								walk(ld)
							}
						}
					}
					continue
				}
				bad = append(bad, fmt.Sprintf("stored to %s at %s", desc(u.Addr, 4), c.A.Pos(u.Pos())))
			case *ssa.MapUpdate:
				bad = append(bad, fmt.Sprintf("stored in a map at %s", c.A.Pos(u.Pos())))
			case *ssa.MakeClosure:
				// captured by a closure: follow the free variable inside it
				if fn, ok := u.Fn.(*ssa.Function); ok {
					for i, b := range u.Bindings {
						if b == v && i < len(fn.FreeVars) {
							walk(fn.FreeVars[i])
						}
					}
				}
			case ssa.Value:
				walk(u)
			}
		}
	}
	walk(call)
	sort.Strings(bad)
	return bad
}

func isErrorOrStringer(t types.Type) bool { return isErrorType(t) }
