package main

import (
	"fmt"

	"golang.org/x/tools/go/ssa"
)

// C17 supply = sum of balances, C18 transfers, C19/C20 staking pools.

const (
	kA           = `\(x/auth/keeper\.Keeper\)\.`
	kN           = `\(x/nodes/keeper\.Keeper\)\.`
	kP           = `\(x/apps/keeper\.Keeper\)\.`
	fnMint       = "(x/auth/keeper.Keeper).MintCoins"
	fnBurn       = "(x/auth/keeper.Keeper).BurnCoins"
	fnSend       = "(x/auth/keeper.Keeper).SendCoins"
	fnSub        = "(x/auth/keeper.Keeper).SubtractCoins"
	fnAdd        = "(x/auth/keeper.Keeper).AddCoins"
	fnSetCoins   = "(x/auth/keeper.Keeper).SetCoins"
	modAddr      = `invoke x/auth/exported\.ModuleAccountI\.GetAddress\(` + kA + `GetModuleAccount\(k, ctx, moduleName\)\)`
	poolCoins    = `types\.NewCoins\(\[types\.NewCoin\(` + kN + `StakeDenom\(k, ctx\), `
	appPoolCoins = `types\.NewCoins\(\[types\.NewCoin\(` + kP + `StakeDenom\(k, ctx\), `
)

func init() {
	register(&Prop{
		ID: "C17", Title: "Total supply always equals the sum of all balances",
		Technique: "who-may-call tables over the repo-scoped call graph, must-pass-through and same-operand rows on mint/burn/send",
		DesignRef: "DESIGN.md §3 C17",
		Explanation: "Supply is written only by MintCoins, BurnCoins, ConvertState and the genesis paths; balances only through SetCoins ← {AddCoins, SubtractCoins}; MintCoins = AddCoins(module, amt) then Inflate(amt) with the same amt, BurnCoins = SubtractCoins(module, amt) then Deflate(amt), SendCoins = SubtractCoins(from, amt) then AddCoins(to, amt), the second only when the first succeeded; MintCoins is reached only from relay-reward minting and gov genesis, BurnCoins only from staked-token burns (slash, forced unstake) and DAOBurn; accounts are never removed.",
		NotDecided:  "the arithmetic of Coins.Add/Sub and Supply.Inflate/Deflate (C41); the logged-and-ignored failure branches of nodes.mint.",
		MinObl:      18,
		Run:         runC17,
	})
	register(&Prop{
		ID: "C18", Title: "Transfers move exactly the requested amount or nothing",
		Technique: "operand provenance at the send handler, guard rows on SubtractCoins/AddCoins/SetCoins, use-of-result lint for SafeSub",
		DesignRef: "DESIGN.md §3 C18",
		Explanation: "handleMsgSend passes the message's from, to and amount unchanged to SendCoins; SubtractCoins refuses (before any write) when spendable.SafeSub(amt) is negative or amt is invalid and otherwise stores old−amt for that address; AddCoins refuses negative results and stores old+amt; SetCoins refuses invalid coin sets and stores exactly its argument on the account of its address argument; every SafeSub call site uses the negative flag.",
		NotDecided:  "numeric results, self-send and new-account behaviour as values.",
		MinObl:      12,
		Run:         runC18,
	})
	register(&Prop{
		ID: "C19", Title: "Node staking pool holds exactly the tokens staked by nodes",
		Technique: "pairing table: every pool movement is matched by a StakedTokens change of the same operand; who-may-call on pool movers; field-writer table",
		DesignRef: "DESIGN.md §3 C19/C20",
		Explanation: "Each function that moves coins into or out of the node staking pool changes the record's StakedTokens by the same SSA operand on every successful path (StakeValidator, EditStakeValidator, FinishUnstakingValidator, simpleSlash, slash, LegacyForceValidatorUnstake, mint), and no other function moves pool coins or writes StakedTokens.",
		NotDecided:  "the equality as numbers; the 'continue with the unstake' error branches of FinishUnstakingValidator (listed in the evidence as unchecked-error sites).",
		MinObl:      18,
		Run:         runC19,
	})
	register(&Prop{
		ID: "C20", Title: "Application staking pool holds exactly the tokens staked by apps",
		Technique: "pairing table, who-may-call on pool movers, field-writer table",
		DesignRef: "DESIGN.md §3 C19/C20",
		Explanation: "StakeApplication, EditStakeApplication, FinishUnstakingApplication and the forced-unstake paths move pool coins and StakedTokens by the same operand; TransferApplication copies the record (stake, relays, chains) to the new key, moves no coins and deletes the old record; no other function moves app-pool coins or writes StakedTokens.",
		NotDecided:  "the equality as numbers; error branches that log and continue.",
		MinObl:      12,
		Run:         runC20,
	})
}

func runC17(c *Ctx) []Obligation {
	P := "C17"
	var out []Obligation
	type wm struct {
		rule, fn string
		allowed  []string
		why      string
	}
	for _, t := range []wm{
		{"supply.writers", "(x/auth/keeper.Keeper).SetSupply", []string{`\(x/auth/keeper\.Keeper\)\.(MintCoins|BurnCoins|ConvertState)`, `x/auth\.InitGenesis`, `x/nodes\.InitGenesis`, `x/apps\.InitGenesis`, `x/auth/keeper\.createTestInput`}, "supply changes only through mint, burn, the one-off codec conversion and genesis (createTestInput is test scaffolding compiled into the package)"},
		{"balance.writers", fnSetCoins, []string{kA + `(AddCoins|SubtractCoins)`}, "balances change only through AddCoins/SubtractCoins"},
		{"account.writers", "(x/auth/keeper.Keeper).SetAccount", []string{kA + `(SetAccounts|SetCoins|SetModuleAccount)`, `x/auth\.InitGenesis`, `x/auth/keeper\.createTestAccs`}, "account records are stored only by the balance setter, module-account creation and genesis"},
		{"mint.callers", fnMint, []string{kN + `mint`, `\(x/gov/keeper\.Keeper\)\.InitGenesis`}, "coins are created only for relay rewards (and the DAO allocation at genesis)"},
		{"burn.callers", fnBurn, []string{kN + `burnStakedTokens`, kP + `burnStakedTokens`, `\(x/gov/keeper\.Keeper\)\.DAOBurn`}, "coins are destroyed only by staked-token burns and DAO burns"},
		{"add.callers", fnAdd, []string{kA + `(MintCoins|SendCoins)`}, "credits happen only inside mint and send"},
		{"sub.callers", fnSub, []string{kA + `(BurnCoins|SendCoins)`}, "debits happen only inside burn and send"},
		{"accounts.never-removed", "(x/auth/keeper.Keeper).RemoveAccount", []string{}, "no balance disappears with its account"},
		{"nodes.mint.callers", "(x/nodes/keeper.Keeper).mint", []string{kN + `RewardForRelaysPerChain(\$1)?`}, "minting is reached only from the relay reward path"},
		{"nodes.burn.callers", "(x/nodes/keeper.Keeper).burnStakedTokens", []string{kN + `(simpleSlash|slash|LegacyForceValidatorUnstake)`}, "node burns: slashing and legacy forced unstake"},
		{"apps.burn.callers", "(x/apps/keeper.Keeper).burnStakedTokens", []string{kP + `(ForceApplicationUnstake|LegacyForceApplicationUnstake)`}, "app burns: forced unstake"},
		{"reward.callers", "(x/nodes/keeper.Keeper).RewardForRelaysPerChain", []string{kN + `RewardForRelays`, `\(x/pocketcore/keeper\.Keeper\)\.AwardCoinsForRelays`}, "relay rewards are paid only from proof execution"},
		{"daoburn.callers", "(x/gov/keeper.Keeper).DAOBurn", []string{`x/gov\.handleMsgDaoTransfer`}, "DAO burns only through the DAO message handler"},
	} {
		out = append(out, c.whoMayCall(P, t.rule, t.fn, t.allowed, t.why))
	}
	rows := []Row{
		{Prop: P, ID: "mint.credits-amt", Fn: fnMint,
			Barrier: []string{`^` + kA + `AddCoins\(k, ctx, ` + modAddr + `, amt\)$`},
			Target:  Success(), Why: "every successful mint credited amt to the module account it names"},
		{Prop: P, ID: "mint.inflates-amt", Fn: fnMint,
			Barrier: []string{`^` + kA + `SetSupply\(k, ctx, invoke x/auth/exported\.SupplyI\.Inflate\(` + kA + `GetSupply\(k, ctx\), amt\)\)$`},
			Target:  Success(), Why: "and raised the stored supply by the same amt"},
		{Prop: P, ID: "mint.credit-error-gates-supply", Fn: fnMint,
			Assume: []Lit{T(`^nonnil\(` + kA + `AddCoins\(`)},
			Target: CallTo(`SetSupply\(`), Why: "a failed credit leaves the supply alone"},
		{Prop: P, ID: "mint.credit-error-fails", Fn: fnMint,
			Assume: []Lit{T(`^nonnil\(` + kA + `AddCoins\(`)},
			Target: Success(), Why: "and is reported"},
		{Prop: P, ID: "mint.single-supply-write", Fn: fnMint,
			Target: CallTo(`SetSupply\(|Inflate\(|Deflate\(`).Except(`^` + kA + `SetSupply\(k, ctx, invoke x/auth/exported\.SupplyI\.Inflate\(` + kA + `GetSupply\(k, ctx\), amt\)\)$|^invoke x/auth/exported\.SupplyI\.Inflate\(` + kA + `GetSupply\(k, ctx\), amt\)$`),
			Why:    "no other supply change in mint"},
		{Prop: P, ID: "burn.debits-amt", Fn: fnBurn,
			Barrier: []string{`^` + kA + `SubtractCoins\(k, ctx, ` + modAddr + `, amt\)$`},
			Target:  Success(), Why: "every successful burn debited amt from the module account it names"},
		{Prop: P, ID: "burn.deflates-amt", Fn: fnBurn,
			Barrier: []string{`^` + kA + `SetSupply\(k, ctx, invoke x/auth/exported\.SupplyI\.Deflate\(` + kA + `GetSupply\(k, ctx\), amt\)\)$`},
			Target:  Success(), Why: "and lowered the stored supply by the same amt"},
		{Prop: P, ID: "burn.debit-error-gates-supply", Fn: fnBurn,
			Assume: []Lit{T(`^nonnil\(` + kA + `SubtractCoins\(`)},
			Target: CallTo(`SetSupply\(`), Why: "a failed debit leaves the supply alone"},
		{Prop: P, ID: "burn.single-supply-write", Fn: fnBurn,
			Target: CallTo(`SetSupply\(|Inflate\(|Deflate\(`).Except(`^` + kA + `SetSupply\(k, ctx, invoke x/auth/exported\.SupplyI\.Deflate\(` + kA + `GetSupply\(k, ctx\), amt\)\)$|^invoke x/auth/exported\.SupplyI\.Deflate\(` + kA + `GetSupply\(k, ctx\), amt\)$`),
			Why:    "no other supply change in burn"},
		{Prop: P, ID: "send.debits-from", Fn: fnSend,
			Barrier: []string{`^` + kA + `SubtractCoins\(k, ctx, fromAddr, amt\)$`},
			Target:  Success(), Why: "every successful send debited amt from the sender"},
		{Prop: P, ID: "send.credits-to", Fn: fnSend,
			Barrier: []string{`^` + kA + `AddCoins\(k, ctx, toAddr, amt\)$`},
			Target:  Success(), Why: "and credited the same amt to the recipient"},
		{Prop: P, ID: "send.debit-before-credit", Fn: fnSend,
			Barrier: []string{`^` + kA + `SubtractCoins\(k, ctx, fromAddr, amt\)$`},
			Target:  CallTo(`AddCoins\(`), TargetMustExist: true, Why: "the credit happens only after the debit"},
		{Prop: P, ID: "send.debit-error-gates-credit", Fn: fnSend,
			Assume: []Lit{T(`^nonnil\(` + kA + `SubtractCoins\(k, ctx, fromAddr, amt\)#1\)$`)},
			Target: CallTo(`AddCoins\(`), Why: "a failed debit credits nothing"},
		{Prop: P, ID: "send.no-supply-change", Fn: fnSend,
			Target: CallTo(`SetSupply\(|MintCoins\(|BurnCoins\(`), Why: "a transfer never touches the supply"},
		{Prop: P, ID: "send.only-one-debit-credit", Fn: fnSend,
			Target: CallTo(`SubtractCoins\(|AddCoins\(|SetCoins\(`).Except(`^` + kA + `(SubtractCoins\(k, ctx, fromAddr, amt\)|AddCoins\(k, ctx, toAddr, amt\))$`),
			Why:    "exactly one debit and one credit"},
	}
	out = append(out, c.Rows(rows)...)
	out = append(out, c.supplyMethods(P)...)
	out = append(out, moduleSendDirections(c, P)...)
	return out
}

// supplyMethods: Supply.Inflate adds and Supply.Deflate subtracts the amount
// to/from Total and nothing else.
func (c *Ctx) supplyMethods(P string) []Obligation {
	var out []Obligation
	for _, m := range []struct{ name, op string }{{"Inflate", "Add"}, {"Deflate", "Sub"}} {
		fn := "(x/auth/types.Supply).Inflate"
		if m.name == "Deflate" {
			fn = "(x/auth/types.Supply).Deflate"
		}
		o := c.obl(P, "supply."+m.name, fn, fmt.Sprintf("Supply.%s returns the supply with Total = Total.%s(amount)", m.name, m.op))
		f := c.A.FnOpt(fn)
		if f == nil {
			f = c.A.FnOpt("(*x/auth/types.Supply).Inflate")
		}
		if f == nil || f.Blocks == nil {
			o.unresolved("not found")
			out = append(out, *o)
			continue
		}
		o.Pos = c.A.FnPos(f)
		n := 0
		for _, s := range c.allCalls(f) {
			o.Facts++
			if reMatch(`^\(types\.Coins\)\.(Add|Sub|SafeSub)\(`, s.Desc) {
				n++
				if !reMatch(`^\(types\.Coins\)\.`+m.op+`\((var:)?supply\.Total, amount\)$`, s.Desc) {
					o.fail(c.A.Pos(s.Ins.Pos()), "%s computes %s", m.name, s.Desc)
				}
			}
		}
		if n != 1 {
			o.fail(c.A.FnPos(f), "%s has %d coin operations, expected exactly Total.%s(amount)", m.name, n, m.op)
		}
		out = append(out, *o)
	}
	return out
}

func runC18(c *Ctx) []Obligation {
	P := "C18"
	rows := []Row{
		{Prop: P, ID: "handleSend.fields", Fn: fnNodeSendH,
			Target: CallTo(`SendCoins\(`).Except(`^` + kN + `SendCoins\(k, ctx, (var:)?msg\.FromAddress, (var:)?msg\.ToAddress, (var:)?msg\.Amount\)$`),
			Why:    "the send handler moves exactly the message's amount from its sender to its recipient"},
		{Prop: P, ID: "handleSend.error-fails", Fn: fnNodeSendH,
			Assume: []Lit{T(`^nonnil\(` + kN + `SendCoins\(`)},
			Target: Success(), Why: "a failed transfer is reported as a failed message"},
		{Prop: P, ID: "nodesSend.passthrough", Fn: "(x/nodes/keeper.Keeper).SendCoins",
			Target: CallTo(`AuthKeeper\.`).Except(`^invoke x/nodes/types\.AuthKeeper\.SendCoins\(k\.AccountKeeper, ctx, fromAddress, toAddress, ` + poolCoins + `amount\)\]\)\)$`),
			Why:    "the keeper wrapper forwards from, to and amount (in the stake denomination) unchanged"},
		{Prop: P, ID: "nodesSend.error", Fn: "(x/nodes/keeper.Keeper).SendCoins",
			Assume: []Lit{T(`^nonnil\(invoke x/nodes/types\.AuthKeeper\.SendCoins\(`)},
			Target: Success(), Why: "errors propagate"},
		{Prop: P, ID: "sub.insufficient-no-write", Fn: fnSub,
			Assume: []Lit{T(`^\(types\.Coins\)\.SafeSub\(.*, amt\)#1$`)},
			Target: CallTo(`SetCoins\(|SetAccount\(`), Why: "an uncovered debit writes nothing"},
		{Prop: P, ID: "sub.insufficient-fails", Fn: fnSub,
			Assume: []Lit{T(`^\(types\.Coins\)\.SafeSub\(.*, amt\)#1$`)},
			Target: Success(), Why: "and fails"},
		{Prop: P, ID: "sub.invalid-no-write", Fn: fnSub,
			Assume: []Lit{F(`^\(types\.Coins\)\.IsValid\(amt\)$`)},
			Target: CallTo(`SetCoins\(|SetAccount\(`), Why: "an invalid amount writes nothing"},
		{Prop: P, ID: "sub.must-check-spendable", Fn: fnSub,
			Barrier: []string{`^\(types\.Coins\)\.SafeSub\(.*, amt\)$`},
			Target:  CallTo(`SetCoins\(`), TargetMustExist: true, Why: "the write is reached only past the spendable check"},
		{Prop: P, ID: "sub.writes-old-minus-amt", Fn: fnSub,
			Target: CallTo(`SetCoins\(`).Except(`^` + kA + `SetCoins\(k, ctx, addr, \(types\.Coins\)\.Sub\(invoke x/auth/exported\.Account\.GetCoins\(` + kA + `GetAccount\(k, ctx, addr\)\), amt\)\)$|^` + kA + `SetCoins\(k, ctx, addr, \(types\.Coins\)\.Sub\(phi:oldCoins, amt\)\)$`),
			Why:    "the new balance of addr is its old balance minus amt"},
		{Prop: P, ID: "add.negative-no-write", Fn: fnAdd,
			Assume: []Lit{T(`^\(types\.Coins\)\.IsAnyNegative\(`)},
			Target: CallTo(`SetCoins\(|SetAccount\(`), Why: "a negative result writes nothing"},
		{Prop: P, ID: "add.invalid-no-write", Fn: fnAdd,
			Assume: []Lit{F(`^\(types\.Coins\)\.IsValid\(amt\)$`)},
			Target: CallTo(`SetCoins\(|SetAccount\(`), Why: "an invalid amount writes nothing"},
		{Prop: P, ID: "add.writes-old-plus-amt", Fn: fnAdd,
			Target: CallTo(`SetCoins\(`).Except(`^` + kA + `SetCoins\(k, ctx, addr, \(types\.Coins\)\.Add\(` + kA + `GetCoins\(k, ctx, addr\), amt\)\)$`),
			Why:    "the new balance of addr is its old balance plus amt"},
		{Prop: P, ID: "setcoins.invalid-no-write", Fn: fnSetCoins,
			Assume: []Lit{F(`^\(types\.Coins\)\.IsValid\(amt\)$`)},
			Target: CallTo(`SetAccount\(|Account\.SetCoins\(`), Why: "non-canonical coin sets are never stored"},
		{Prop: P, ID: "setcoins.stores-arg", Fn: fnSetCoins,
			Target: CallTo(`Account\.SetCoins\(`).Except(`^invoke x/auth/exported\.Account\.SetCoins\([^,]*, amt\)$`),
			Why:    "the stored balance is exactly the argument"},
		{Prop: P, ID: "setcoins.error-no-store", Fn: fnSetCoins,
			Assume: []Lit{T(`^nonnil\(invoke x/auth/exported\.Account\.SetCoins\(`)},
			Target: CallTo(`SetAccount\(`), Why: "a rejected balance is not persisted"},
	}
	// the transfer itself: one debit of amt from the sender, then one credit of the same amt to the
	// recipient, each step reading the balance it changes inside itself (so a self-send sees its own debit)
	rows = append(rows,
		Row{Prop: P, ID: "authSend.debits-from", Fn: fnSend,
			Barrier: []string{`^` + kA + `SubtractCoins\(k, ctx, fromAddr, amt\)$`},
			Target:  Success(), Why: "every successful send debited amt from the sender"},
		Row{Prop: P, ID: "authSend.credits-to", Fn: fnSend,
			Barrier: []string{`^` + kA + `AddCoins\(k, ctx, toAddr, amt\)$`},
			Target:  Success(), Why: "and credited the same amt to the recipient"},
		Row{Prop: P, ID: "authSend.debit-error-gates-credit", Fn: fnSend,
			Assume: []Lit{T(`^nonnil\(` + kA + `SubtractCoins\(k, ctx, fromAddr, amt\)#1\)$`)},
			Target: CallTo(`AddCoins\(|SetCoins\(|SetAccount\(`), Why: "a failed debit credits nothing"},
		Row{Prop: P, ID: "authSend.only-one-debit-credit", Fn: fnSend,
			Target: CallTo(`SubtractCoins\(|AddCoins\(|SetCoins\(|SetAccount\(`).Except(`^` + kA + `(SubtractCoins\(k, ctx, fromAddr, amt\)|AddCoins\(k, ctx, toAddr, amt\))$`),
			Why:    "exactly one debit and one credit, no direct balance write"},
		Row{Prop: P, ID: "authSend.no-balance-read-of-its-own", Fn: fnSend,
			Target: CallTo(`GetCoins\(|GetAccount\(|SpendableCoins\(`),
			Why:    "the transfer holds no balance it read itself: the debit and the credit each read the balance they change at the moment they change it, so sender == recipient nets to zero"},
	)
	out := c.Rows(rows)
	out = append(out, c.safeSubUsed(P), c.setCoinsAccountOfAddr(P))
	out = append(out, c.whoMayCall(P, "balance.writers", fnSetCoins, []string{kA + `(AddCoins|SubtractCoins)`}, "balances are overwritten only by the read-modify-write steps AddCoins and SubtractCoins"))
	out = append(out, moduleSendDirections(c, P)...)
	return out
}

// safeSubUsed: every call of Coins.SafeSub in the repo consumes the
// "has negative" flag.
func (c *Ctx) safeSubUsed(P string) Obligation {
	o := c.obl(P, "SafeSub.flag-used", "types.Coins.SafeSub", "every call site of Coins.SafeSub uses its negative-result flag (in a branch or a return) before using the difference")
	n := 0
	for fn := range c.A.AllFns {
		if fn.Blocks == nil {
			continue
		}
		for _, s := range c.callSites(fn, `^\(types\.Coins\)\.SafeSub\(`) {
			n++
			call, ok := s.Ins.(*ssa.Call)
			if !ok || call.Referrers() == nil {
				continue
			}
			used := false
			for _, r := range *call.Referrers() {
				if ex, ok := r.(*ssa.Extract); ok && ex.Index == 1 && ex.Referrers() != nil && len(*ex.Referrers()) > 0 {
					used = true
				}
				if _, ok := r.(*ssa.Return); ok {
					used = true
				}
			}
			if !used {
				o.fail(c.A.Pos(s.Ins.Pos()), "%s ignores the negative flag of SafeSub", FnName(fn))
			}
		}
	}
	o.Facts = n
	if n < 2 {
		o.fail("", "only %d SafeSub call sites found (expected DeductFees and SubtractCoins at least)", n)
	}
	return *o
}

// setCoinsAccountOfAddr: the account SetCoins mutates is the one looked up
// (or created) under its addr argument.
func (c *Ctx) setCoinsAccountOfAddr(P string) Obligation {
	o := c.obl(P, "setcoins.account-of-addr", fnSetCoins, "the account whose coins are set and stored is GetAccount(addr) or NewAccountWithAddress(addr)")
	fn := c.A.Fn(fnSetCoins)
	if fn == nil {
		o.unresolved("not found")
		return *o
	}
	for _, s := range c.callSites(fn, `Account\.SetCoins\(|`+kA+`SetAccount\(`) {
		var acc ssa.Value
		if s.Call.IsInvoke() {
			acc = s.Call.Value
		} else {
			acc = s.Call.Args[len(s.Call.Args)-1]
		}
		for _, l := range phiLeaves(acc) {
			o.Facts++
			d := desc(l, maxDepth)
			if !reMatch(`^`+kA+`GetAccount\(k, ctx, addr\)$|^`+kA+`NewAccountWithAddress\(k, ctx, addr\)#0$`, d) {
				o.fail(c.A.Pos(s.Ins.Pos()), "account may be %s", d)
			}
		}
	}
	if o.Facts == 0 {
		o.fail("", "no account write found")
	}
	return *o
}

// sameOperand: the argument argA of the unique call matching reA and argument
// argB of the unique call matching reB in fn are the same SSA value.
func (c *Ctx) sameOperand(P, rule, fnName, reA string, argA int, reB string, argB int, why string) Obligation {
	o := c.obl(P, rule, fnName, fmt.Sprintf("in %s the operand #%d of %s and #%d of %s are the same value — %s", fnName, argA, reA, argB, reB, why))
	fn := c.A.Fn(fnName)
	if fn == nil {
		o.unresolved("not found")
		return *o
	}
	o.Pos = c.A.FnPos(fn)
	as, bs := c.callSites(fn, reA), c.callSites(fn, reB)
	o.Facts = len(as) + len(bs)
	if len(as) == 0 || len(bs) == 0 {
		o.fail("", "expected call sites not found (%d, %d)", len(as), len(bs))
		return *o
	}
	for _, a := range as {
		for _, b := range bs {
			va, vb := a.Call.Args[argA], b.Call.Args[argB]
			if va != vb && desc(va, maxDepth) != desc(vb, maxDepth) {
				o.fail(c.A.Pos(b.Ins.Pos()), "operands differ: %s vs %s", desc(va, 6), desc(vb, 6))
			}
		}
	}
	return *o
}

func runC19(c *Ctx) []Obligation {
	P := "C19"
	var out []Obligation
	for _, t := range []struct {
		rule, fn string
		allowed  []string
		why      string
	}{
		{"pool.in.callers", "(x/nodes/keeper.Keeper).coinsFromUnstakedToStaked", []string{kN + `(StakeValidator|EditStakeValidator)`}, "coins enter the node pool only on stake and edit-stake"},
		{"pool.out.callers", "(x/nodes/keeper.Keeper).coinsFromStakedToUnstaked", []string{kN + `FinishUnstakingValidator`}, "coins leave the node pool to an account only when unstaking finishes"},
		{"pool.burn.callers", "(x/nodes/keeper.Keeper).burnStakedTokens", []string{kN + `(simpleSlash|slash|LegacyForceValidatorUnstake)`}, "pool coins are burned only by slashing / legacy forced unstake"},
		{"tokens.remove.callers", "(x/nodes/keeper.Keeper).removeValidatorTokens", []string{kN + `(simpleSlash|slash)`}, "stake is reduced only by slashing"},
		{"module-to-account.callers", "(x/auth/keeper.Keeper).SendCoinsFromModuleToAccount", []string{kN + `(coinsFromStakedToUnstaked|mint)`, kP + `coinsFromStakedToUnstaked`, `\(x/gov/keeper\.Keeper\)\.DAOTransferFrom`}, "module accounts pay out only through these four functions"},
		{"account-to-module.callers", "(x/auth/keeper.Keeper).SendCoinsFromAccountToModule", []string{kN + `(coinsFromUnstakedToStaked|blockReward)`, kP + `coinsFromUnstakedToStaked`, `x/auth\.DeductFees`}, "module accounts are paid only through these functions"},
		{"module-to-module.callers", "(x/auth/keeper.Keeper).SendCoinsFromModuleToModule", []string{}, "no module-to-module transfers exist"},
	} {
		out = append(out, c.whoMayCall(P, t.rule, t.fn, t.allowed, t.why))
	}
	const stakeIn = `^` + kN + `coinsFromUnstakedToStaked\(k, ctx, invoke crypto\.PublicKey\.Address\(signer\), amount\)$`
	const editIn = `^` + kN + `coinsFromUnstakedToStaked\(k, ctx, invoke crypto\.PublicKey\.Address\(signer\), \(types\.BigInt\)\.Sub\(amount, (var:)?currentValidator\.StakedTokens\)\)$`
	rows := []Row{
		// stake
		{Prop: P, ID: "stake.pool-in", Fn: "(x/nodes/keeper.Keeper).StakeValidator",
			Barrier: []string{stakeIn}, Target: CallTo(kN + `SetValidator\(`), TargetMustExist: true,
			Why: "a new stake is recorded only after amount was moved from the signer into the pool"},
		{Prop: P, ID: "stake.record-same-amount", Fn: "(x/nodes/keeper.Keeper).StakeValidator",
			Barrier: []string{`^\(x/nodes/types\.Validator\)\.AddStakedTokens\((var:)?validator, amount\)$`}, Target: CallTo(kN + `SetValidator\(`), TargetMustExist: true,
			Why: "and the record's StakedTokens grew by the same amount"},
		{Prop: P, ID: "stake.pool-error-gates-record", Fn: "(x/nodes/keeper.Keeper).StakeValidator",
			Assume: []Lit{T(`^nonnil\(` + kN + `coinsFromUnstakedToStaked\(`)}, Target: CallTo(kN + `SetValidator\(|AddStakedTokens\(`),
			Why: "no record change when the coins did not move"},
		{Prop: P, ID: "stake.single-pool-move", Fn: "(x/nodes/keeper.Keeper).StakeValidator",
			Target: CallTo(`coinsFrom|burnStakedTokens|AddStakedTokens|RemoveStakedTokens`).Except(stakeIn + `|^\(x/nodes/types\.Validator\)\.AddStakedTokens\((var:)?validator, amount\)$`),
			Why:    "exactly one pool movement and one record change"},
		// a fresh stake overwrites the record with one holding only the new amount, so it is admitted only
		// over a record that holds nothing in the pool (absent or fully unstaked)
		{Prop: P, ID: "stake.never-over-unstaking-record", Fn: fnValStaking,
			Assume: []Lit{T(aValFound), F(`^\(x/nodes/types\.Validator\)\.IsStaked\(` + curVal + `\)$`), F(`^\(x/nodes/types\.Validator\)\.IsUnstaked\(` + curVal + `\)$`)},
			Target: Success(), Why: "a node that is unstaking still has its tokens in the pool: a stake message for it is refused"},
		{Prop: P, ID: "stake.staked-record-only-through-edit", Fn: fnValStaking,
			Assume:  []Lit{T(aValFound), T(`^\(x/nodes/types\.Validator\)\.IsStaked\(` + curVal + `\)$`), F(`^\(x/nodes/types\.Validator\)\.IsUnstaked\(` + curVal + `\)$`)},
			Barrier: []string{`^` + kN + `ValidateEditStake\(k, ctx, ` + curVal + `, validatorNew, amount, signerAddress\)$`},
			Target:  Success(), Why: "a staked record is accepted only through edit-stake validation (which moves the difference, not the whole amount)"},
		// edit stake
		{Prop: P, ID: "edit.no-bump-no-move", Fn: "(x/nodes/keeper.Keeper).EditStakeValidator",
			Assume: []Lit{F(`^\(types\.BigInt\)\.IsPositive\(\(types\.BigInt\)\.Sub\(amount, (var:)?currentValidator\.StakedTokens\)\)$`)},
			Target: CallTo(`coinsFrom`), Why: "without a positive difference no coins move"},
		{Prop: P, ID: "edit.no-bump-no-record-change", Fn: "(x/nodes/keeper.Keeper).EditStakeValidator",
			Assume: []Lit{F(`^\(types\.BigInt\)\.IsPositive\(\(types\.BigInt\)\.Sub\(amount, (var:)?currentValidator\.StakedTokens\)\)$`)},
			Target: StoreTo(`currentValidator\.StakedTokens$`), Why: "and StakedTokens is untouched"},
		{Prop: P, ID: "edit.bump-pool-in", Fn: "(x/nodes/keeper.Keeper).EditStakeValidator",
			Barrier: []string{editIn}, Target: StoreTo(`currentValidator\.StakedTokens$`), TargetMustExist: true,
			Why: "StakedTokens grows only after the difference amount−current was moved from the signer into the pool"},
		{Prop: P, ID: "edit.pool-error-gates-record", Fn: "(x/nodes/keeper.Keeper).EditStakeValidator",
			Assume: []Lit{T(`^\(types\.BigInt\)\.IsPositive\(`), T(`^nonnil\(` + kN + `coinsFromUnstakedToStaked\(`)}, Target: CallTo(kN + `SetValidator\(`),
			Why: "no record change when the coins did not move"},
		{Prop: P, ID: "edit.single-pool-move", Fn: "(x/nodes/keeper.Keeper).EditStakeValidator",
			Target: CallTo(`coinsFrom|burnStakedTokens|AddStakedTokens|RemoveStakedTokens`).Except(editIn),
			Why:    "exactly one pool movement"},
		// finish unstaking
		{Prop: P, ID: "finish.pool-out", Fn: "(x/nodes/keeper.Keeper).FinishUnstakingValidator",
			Barrier: []string{`^` + kN + `coinsFromStakedToUnstaked\(k, ctx, (var:)?validator\)$`}, Target: CallTo(`RemoveStakedTokens\(|` + kN + `SetValidator\(`), TargetMustExist: true,
			Why: "the record is zeroed only after the pool paid out for this validator"},
		{Prop: P, ID: "finish.remove-all", Fn: "(x/nodes/keeper.Keeper).FinishUnstakingValidator",
			Target: CallTo(`RemoveStakedTokens\(`).Except(`^\(x/nodes/types\.Validator\)\.RemoveStakedTokens\((var:)?validator, (var:)?validator\.StakedTokens\)$`),
			Why:    "the amount removed from the record is the record's whole stake"},
		{Prop: P, ID: "poolout.amount-is-stake", Fn: "(x/nodes/keeper.Keeper).coinsFromStakedToUnstaked",
			Target: CallTo(`AuthKeeper\.`).Except(`^invoke x/nodes/types\.AuthKeeper\.SendCoinsFromModuleToAccount\(k\.AccountKeeper, ctx, "staked_tokens_pool", ` + kN + `GetValidatorOutputAddress\(k, ctx, validator\.Address\)#0, ` + poolCoins + `validator\.StakedTokens\)\]\)\)$`),
			Why:    "the pool pays out exactly validator.StakedTokens, to the node's output address"},
		{Prop: P, ID: "poolin.amount", Fn: "(x/nodes/keeper.Keeper).coinsFromUnstakedToStaked",
			Target: CallTo(`AuthKeeper\.`).Except(`^invoke x/nodes/types\.AuthKeeper\.SendCoinsFromAccountToModule\(k\.AccountKeeper, ctx, address, "staked_tokens_pool", ` + poolCoins + `amount\)\]\)\)$`),
			Why:    "exactly amount moves from the given address into the node pool"},
		{Prop: P, ID: "poolin.negative-refused", Fn: "(x/nodes/keeper.Keeper).coinsFromUnstakedToStaked",
			Assume: []Lit{T(`^LT<types\.BigInt>\(amount, types\.ZeroInt\(\)\)$`)}, Target: CallTo(`AuthKeeper\.`),
			Why: "negative amounts never reach the bank"},
		{Prop: P, ID: "poolburn.amount", Fn: "(x/nodes/keeper.Keeper).burnStakedTokens",
			Target: CallTo(`AuthKeeper\.`).Except(`^invoke x/nodes/types\.AuthKeeper\.BurnCoins\(k\.AccountKeeper, ctx, "staked_tokens_pool", ` + poolCoins + `amt\)\]\)\)$`),
			Why:    "exactly amt is burned from the node pool"},
		// legacy force unstake
		{Prop: P, ID: "legacyforce.burn-all", Fn: "(x/nodes/keeper.Keeper).LegacyForceValidatorUnstake",
			Target: CallTo(`burnStakedTokens\(|RemoveStakedTokens\(`).Except(`^` + kN + `burnStakedTokens\(k, ctx, validator\.StakedTokens\)$|^\(x/nodes/types\.Validator\)\.RemoveStakedTokens\(validator, validator\.StakedTokens\)$`),
			Why:    "the burn and the record reduction are both the validator's whole stake"},
		{Prop: P, ID: "legacyforce.burn-error-gates-record", Fn: "(x/nodes/keeper.Keeper).LegacyForceValidatorUnstake",
			Assume: []Lit{T(`^nonnil\(` + kN + `burnStakedTokens\(`)}, Target: CallTo(`RemoveStakedTokens\(|` + kN + `SetValidator\(`),
			Why: "a failed burn does not zero the record"},
		// mint: pool neutral
		{Prop: P, ID: "mint.pool-neutral", Fn: "(x/nodes/keeper.Keeper).mint",
			Barrier: []string{`^invoke x/nodes/types\.AuthKeeper\.SendCoinsFromModuleToAccount\(k\.AccountKeeper, ctx, "staked_tokens_pool", address, ` + poolCoins + `amount\)\]\)\)$`},
			Target:  Success(), Why: "every successful reward mint sends the minted amount out of the pool again"},
		{Prop: P, ID: "mint.amount", Fn: "(x/nodes/keeper.Keeper).mint",
			Target: CallTo(`AuthKeeper\.`).Except(`^invoke x/nodes/types\.AuthKeeper\.(MintCoins\(k\.AccountKeeper, ctx, "staked_tokens_pool", |SendCoinsFromModuleToAccount\(k\.AccountKeeper, ctx, "staked_tokens_pool", address, )` + poolCoins + `amount\)\]\)\)$`),
			Why:    "minted and forwarded amounts are both the amount argument"},
		{Prop: P, ID: "mint.error-gates-send", Fn: "(x/nodes/keeper.Keeper).mint",
			Assume: []Lit{T(`^nonnil\(invoke x/nodes/types\.AuthKeeper\.MintCoins\(`)}, Target: CallTo(`SendCoinsFromModuleToAccount`),
			Why: "nothing is forwarded when nothing was minted"},
	}
	out = append(out, c.Rows(rows)...)
	for _, f := range []string{"(x/nodes/keeper.Keeper).simpleSlash", "(x/nodes/keeper.Keeper).slash"} {
		out = append(out,
			c.sameOperand(P, "slash.remove-equals-burn", f, `^`+kN+`removeValidatorTokens\(`, 3, `^`+kN+`burnStakedTokens\(`, 2, "the amount burned from the pool is the amount removed from the record"),
		)
		out = append(out, c.Rows([]Row{
			{Prop: P, ID: "slash.remove-before-burn", Fn: f,
				Barrier: []string{`^` + kN + `removeValidatorTokens\(`}, Target: CallTo(`burnStakedTokens\(`), TargetMustExist: true,
				Why: "pool coins are burned only after the record was reduced"},
			{Prop: P, ID: "slash.remove-error-gates-burn", Fn: f,
				Assume: []Lit{T(`^nonnil\(` + kN + `removeValidatorTokens\(.*\)#1\)$`)}, Target: CallTo(`burnStakedTokens\(`),
				Why: "no burn when the record could not be reduced"},
		})...)
	}
	out = append(out, c.Rows([]Row{
		{Prop: P, ID: "removeTokens.amount", Fn: "(x/nodes/keeper.Keeper).removeValidatorTokens",
			Target: CallTo(`RemoveStakedTokens\(`).Except(`^\(x/nodes/types\.Validator\)\.RemoveStakedTokens\(v, tokensToRemove\)$`),
			Why:    "the record shrinks by exactly tokensToRemove"},
		{Prop: P, ID: "removeTokens.error-no-store", Fn: "(x/nodes/keeper.Keeper).removeValidatorTokens",
			Assume: []Lit{T(`^nonnil\(\(x/nodes/types\.Validator\)\.RemoveStakedTokens\(.*\)#1\)$`)}, Target: CallTo(kN + `SetValidator\(`),
			Why: "a failed reduction is not stored"},
	})...)
	out = append(out, c.fieldTable(P, "StakedTokens.writers", "x/nodes/types", "Validator", "StakedTokens", false,
		[]string{`app\.newDefaultGenesisState`, kN + `EditStakeValidator`,`\(x/nodes/types\.Validator\)\.(AddStakedTokens|RemoveStakedTokens)`, `x/nodes\.(handleStake|legacyHandleMsgStake)`, `x/nodes/types\.(NewValidator|NewValidatorFromMsg)`, `\(\*?x/nodes/types\.(Validator|LegacyValidator|ProtoValidator|LegacyProtoValidator)\)\.(FromProto|ToProto|ToValidator|ToLegacy|Unmarshal|UnmarshalJSON|XXX_.*|Reset)`, `\(x/nodes/types\.(LegacyValidator|ProtoValidator|LegacyProtoValidator)\)\.(FromProto|ToProto|ToValidator)`, `x/nodes/types\.[A-Za-z]*(Unmarshal|FromProto|ToProto).*`},
		"StakedTokens of a node record is assigned only by the staking arithmetic helpers, EditStakeValidator, the message→record constructors and (de)serialisation"))
	out = append(out, tokenRemovalPersists(c, P)...)
	out = append(out, nodesStakeRouting(c, P)...)
	return out
}

func runC20(c *Ctx) []Obligation {
	P := "C20"
	var out []Obligation
	for _, t := range []struct {
		rule, fn string
		allowed  []string
		why      string
	}{
		{"pool.in.callers", "(x/apps/keeper.Keeper).coinsFromUnstakedToStaked", []string{kP + `(StakeApplication|EditStakeApplication)`}, "coins enter the app pool only on stake and edit-stake"},
		{"pool.out.callers", "(x/apps/keeper.Keeper).coinsFromStakedToUnstaked", []string{kP + `FinishUnstakingApplication`}, "coins leave the app pool to an account only when unstaking finishes"},
		{"pool.burn.callers", "(x/apps/keeper.Keeper).burnStakedTokens", []string{kP + `(ForceApplicationUnstake|LegacyForceApplicationUnstake)`}, "app-pool coins are burned only by forced unstake"},
		{"transfer.callers", "(x/apps/keeper.Keeper).TransferApplication", []string{`x/apps\.handleStake`}, "applications are transferred only by the stake handler"},
	} {
		out = append(out, c.whoMayCall(P, t.rule, t.fn, t.allowed, t.why))
	}
	const stakeIn = `^` + kP + `coinsFromUnstakedToStaked\(k, ctx, (var:)?application, amount\)$`
	const editIn = `^` + kP + `coinsFromUnstakedToStaked\(k, ctx, (var:)?application, \(types\.BigInt\)\.Sub\(amount, (var:)?application\.StakedTokens\)\)$`
	rows := []Row{
		{Prop: P, ID: "stake.pool-in", Fn: "(x/apps/keeper.Keeper).StakeApplication",
			Barrier: []string{stakeIn}, Target: CallTo(kP + `SetApplication\(`), TargetMustExist: true,
			Why: "a new app stake is recorded only after amount moved into the pool"},
		{Prop: P, ID: "stake.record-same-amount", Fn: "(x/apps/keeper.Keeper).StakeApplication",
			Barrier: []string{`^\(x/apps/types\.Application\)\.AddStakedTokens\((var:)?application, amount\)$`}, Target: CallTo(kP + `SetApplication\(`), TargetMustExist: true,
			Why: "and StakedTokens grew by the same amount"},
		{Prop: P, ID: "stake.pool-error-gates-record", Fn: "(x/apps/keeper.Keeper).StakeApplication",
			Assume: []Lit{T(`^nonnil\(` + kP + `coinsFromUnstakedToStaked\(`)}, Target: CallTo(kP + `SetApplication\(|AddStakedTokens\(`),
			Why: "no record change when the coins did not move"},
		{Prop: P, ID: "stake.never-over-unstaking-record", Fn: "(x/apps/keeper.Keeper).ValidateApplicationStaking",
			Assume: []Lit{T(`^` + kP + `GetApplication\(k, ctx, application\.Address\)#1$`), F(`^\(x/apps/types\.Application\)\.IsStaked\(` + kP + `GetApplication\(k, ctx, application\.Address\)#0\)$`), F(`^\(x/apps/types\.Application\)\.IsUnstaked\(` + kP + `GetApplication\(k, ctx, application\.Address\)#0\)$`)},
			Target: Success(), Why: "an application that is unstaking still has its tokens in the pool: a stake message for it is refused (a fresh stake would overwrite the record and orphan them)"},
		{Prop: P, ID: "stake.staked-record-only-through-edit", Fn: "(x/apps/keeper.Keeper).ValidateApplicationStaking",
			Assume:  []Lit{T(`^` + kP + `GetApplication\(k, ctx, application\.Address\)#1$`), T(`^\(x/apps/types\.Application\)\.IsStaked\(` + kP + `GetApplication\(k, ctx, application\.Address\)#0\)$`), F(`^\(x/apps/types\.Application\)\.IsUnstaked\(` + kP + `GetApplication\(k, ctx, application\.Address\)#0\)$`)},
			Barrier: []string{`^` + kP + `ValidateEditStake\(k, ctx, ` + kP + `GetApplication\(k, ctx, application\.Address\)#0, amount\)$`},
			Target:  Success(), Why: "a staked record is accepted only through edit-stake validation"},
		{Prop: P, ID: "edit.no-bump-no-move", Fn: "(x/apps/keeper.Keeper).EditStakeApplication",
			Assume: []Lit{F(`^\(types\.BigInt\)\.IsPositive\(`)}, Target: CallTo(`coinsFrom|AddStakedTokens`),
			Why: "without a positive difference neither coins nor StakedTokens change"},
		{Prop: P, ID: "edit.bump-pool-in", Fn: "(x/apps/keeper.Keeper).EditStakeApplication",
			Barrier: []string{editIn}, Target: CallTo(`AddStakedTokens\(`), TargetMustExist: true,
			Why: "StakedTokens grows only after the difference moved into the pool"},
		{Prop: P, ID: "edit.same-diff", Fn: "(x/apps/keeper.Keeper).EditStakeApplication",
			Target: CallTo(`AddStakedTokens\(|coinsFrom`).Except(editIn + `|^\(x/apps/types\.Application\)\.AddStakedTokens\((var:)?application, \(types\.BigInt\)\.Sub\(amount, (var:)?application\.StakedTokens\)\)$`),
			Why:    "coins moved and StakedTokens added are the same difference"},
		{Prop: P, ID: "edit.pool-error-gates-record", Fn: "(x/apps/keeper.Keeper).EditStakeApplication",
			Assume: []Lit{T(`^\(types\.BigInt\)\.IsPositive\(`), T(`^nonnil\(` + kP + `coinsFromUnstakedToStaked\(`)}, Target: CallTo(kP + `SetApplication\(`),
			Why: "no record change when the coins did not move"},
		{Prop: P, ID: "finish.pool-out", Fn: "(x/apps/keeper.Keeper).FinishUnstakingApplication",
			Barrier: []string{`^` + kP + `coinsFromStakedToUnstaked\(k, ctx, (var:)?application\)$`}, Target: CallTo(`RemoveStakedTokens\(|` + kP + `SetApplication\(`), TargetMustExist: true,
			Why: "the record is zeroed only after the pool paid out for this application"},
		{Prop: P, ID: "finish.remove-all", Fn: "(x/apps/keeper.Keeper).FinishUnstakingApplication",
			Target: CallTo(`RemoveStakedTokens\(`).Except(`^\(x/apps/types\.Application\)\.RemoveStakedTokens\((var:)?application, (var:)?application\.StakedTokens\)$`),
			Why:    "the amount removed is the record's whole stake"},
		{Prop: P, ID: "poolout.amount-is-stake", Fn: "(x/apps/keeper.Keeper).coinsFromStakedToUnstaked",
			Target: CallTo(`AuthKeeper\.|AccountKeeper`).Except(`^invoke x/apps/types\.AuthKeeper\.SendCoinsFromModuleToAccount\(k\.AccountKeeper, ctx, "application_staked_tokens_pool", application\.Address, ` + appPoolCoins + `application\.StakedTokens\)\]\)\)$`),
			Why:    "the pool pays exactly application.StakedTokens to the application's own address"},
		{Prop: P, ID: "poolin.amount", Fn: "(x/apps/keeper.Keeper).coinsFromUnstakedToStaked",
			Target: CallTo(`AuthKeeper\.|AccountKeeper`).Except(`^invoke x/apps/types\.AuthKeeper\.SendCoinsFromAccountToModule\(k\.AccountKeeper, ctx, application\.Address, "application_staked_tokens_pool", ` + appPoolCoins + `amount\)\]\)\)$`),
			Why:    "exactly amount moves from the application's address into the app pool"},
		{Prop: P, ID: "transfer.no-coins", Fn: "(x/apps/keeper.Keeper).TransferApplication",
			Target: CallTo(`coinsFrom|burnStakedTokens|AuthKeeper\.|AddStakedTokens|RemoveStakedTokens`),
			Why:    "a transfer moves no coins and does not change the stake"},
		{Prop: P, ID: "transfer.deletes-old", Fn: "(x/apps/keeper.Keeper).TransferApplication",
			Barrier: []string{`^` + kP + `DeleteApplication\(k, ctx, curApp\.Address\)$`}, Target: TargetAnyReturn(), TargetMustExist: true,
			Why: "every return of TransferApplication has deleted the old record"},
	}
	out = append(out, c.Rows(rows)...)
	out = append(out, c.fieldTable(P, "StakedTokens.writers", "x/apps/types", "Application", "StakedTokens", false,
		[]string{`app\.newDefaultGenesisState`, `\(x/apps/types\.Application\)\.(AddStakedTokens|RemoveStakedTokens)`, `x/apps/types\.(NewApplication)`, `\(\*?x/apps/types\.(Application|LegacyApplication|ProtoApplication|LegacyProtoApplication)\)\.(FromProto|ToProto|ToApplication|ToLegacy|Unmarshal|UnmarshalJSON|XXX_.*|Reset)`, `x/apps/types\.[A-Za-z]*(Unmarshal|FromProto|ToProto).*`},
		"StakedTokens of an application record is assigned only by the staking arithmetic helpers, the constructor and (de)serialisation"))
	out = append(out, appsEditRouting(c, P)...)
	return out
}
