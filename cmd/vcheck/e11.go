package main

import (
	"go/token"
	"go/types"
	"regexp"
	"strings"

	"golang.org/x/tools/go/ssa"
)

// E11: small ownership / injectivity lints shared by several properties.

// sharedImmutable: one obligation — within package pkg, every store to a field
// of a value of the named pointer type targets a value allocated in the same
// function (a composite literal). Values of that type are shared between
// snapshots (open iterators) and the live structure, so updating one in place
// changes what an already open snapshot yields.
func (c *Ctx) sharedImmutable(P, rule, pkg, typePkg, typeName, why string) Obligation {
	o := c.obl(P, rule, pkg+":"+typeName, "in "+pkg+" a *"+typeName+" is written only while it is being built (same function); published ones are replaced, never updated in place — "+why)
	for fn := range c.A.AllFns {
		if fn.Blocks == nil || fnPkgPath(fn) != repoMod+"/"+pkg {
			continue
		}
		for _, b := range fn.Blocks {
			for _, ins := range b.Instrs {
				st, ok := ins.(*ssa.Store)
				if !ok {
					continue
				}
				fa, ok := st.Addr.(*ssa.FieldAddr)
				if !ok {
					continue
				}
				n := namedOf(fa.X.Type())
				if n == nil || n.Obj().Name() != typeName || n.Obj().Pkg() == nil || n.Obj().Pkg().Path() != typePkg {
					continue
				}
				o.Facts++
				if _, fresh := stripConv(fa.X).(*ssa.Alloc); fresh {
					continue
				}
				o.fail(c.A.Pos(st.Pos()), "%s writes field %s of %s, a %s it did not create: an open iterator holding that item sees the write", FnName(fn), fieldName(fa.X.Type(), fa.Field), desc(fa.X, 4), typeName)
			}
		}
	}
	if o.Facts == 0 {
		o.unresolved("no store to a %s field found in %s", typeName, pkg)
	}
	return *o
}

var reKeyFormat = regexp.MustCompile(`^%[sdv][^%0-9]+%[sdv]$`)

// keyInjective: one obligation — the two-part cache key built by fnName cannot
// collide for different (number, string) pairs: the decimal number is followed
// by a non-digit separator before the string part.
func (c *Ctx) keyInjective(P, rule, fnName, why string) Obligation {
	o := c.obl(P, rule, fnName, "the key built by "+fnName+" separates the decimal height from the value by a non-digit literal, so different (height, value) pairs give different keys — "+why)
	fn := c.A.Fn(fnName)
	if fn == nil {
		o.unresolved("not found")
		return *o
	}
	o.Pos = c.A.FnPos(fn)
	for _, b := range fn.Blocks {
		r, ok := b.Instrs[len(b.Instrs)-1].(*ssa.Return)
		if !ok || len(r.Results) != 1 {
			continue
		}
		o.Facts++
		v := stripConv(retOperand(r, 0))
		switch x := v.(type) {
		case *ssa.Call:
			if cal := x.Call.StaticCallee(); cal != nil && cal.String() == "fmt.Sprintf" {
				if k, isK := x.Call.Args[0].(*ssa.Const); isK && reKeyFormat.MatchString(strings.Trim(k.Value.ExactString(), `"`)) {
					continue
				}
				o.fail(c.A.Pos(r.Pos()), "the key is %s: nothing separates the digits of the height from a value that may itself start with digits, so (10, \"0021\") and (1000, \"21\") collide", desc(v, 5))
				continue
			}
		case *ssa.BinOp:
			if x.Op == token.ADD && isStringType(x.Type()) {
				// a + sep + b with a constant non-digit separator somewhere in the chain
				if concatHasSeparator(x) {
					continue
				}
				o.fail(c.A.Pos(r.Pos()), "the key is the plain concatenation %s: nothing separates the digits of the height from a value that may itself start with digits", desc(v, 5))
				continue
			}
		}
		o.unresolved("the key expression %s is not understood", desc(v, 5))
	}
	if o.Facts == 0 {
		o.unresolved("no return found")
	}
	return *o
}

func isStringType(t types.Type) bool {
	b, ok := t.Underlying().(*types.Basic)
	return ok && b.Info()&types.IsString != 0
}

func concatHasSeparator(b *ssa.BinOp) bool {
	var parts []ssa.Value
	var flat func(v ssa.Value)
	flat = func(v ssa.Value) {
		if x, ok := stripConv(v).(*ssa.BinOp); ok && x.Op == token.ADD {
			flat(x.X)
			flat(x.Y)
			return
		}
		parts = append(parts, stripConv(v))
	}
	flat(b)
	for i, p := range parts {
		if i == 0 || i == len(parts)-1 {
			continue
		}
		if k, ok := p.(*ssa.Const); ok && k.Value != nil {
			s := strings.Trim(k.Value.ExactString(), `"`)
			if s != "" && !regexp.MustCompile(`[0-9]`).MatchString(s) {
				return true
			}
		}
	}
	return false
}
