package main

import (
	"fmt"
	"sort"
	"strings"

	"golang.org/x/tools/go/ssa"
)

// childHashFollowsChild (C03, C04): a tree node caches the hash of each child next to the pointer to it.
// Wherever a function of the tree code re-points an existing node's child (X.leftNode = …), the cached
// hash of that side is written too (X.leftHash = nil, or the new child's hash) — before it in the same
// straight line, or on every path from it to a return. Otherwise the node's hash, and with it the root
// hash, is computed from the hash of a child it no longer has. One obligation per such store; nodes under
// construction (composite literals) are exempt, their hash fields start out nil.
func (c *Ctx) childHashFollowsChild(P string) []Obligation {
	var out []Obligation
	var fns []*ssa.Function
	for fn := range c.A.AllFns {
		if fn.Blocks != nil && fnPkgPath(fn) == repoMod+"/store/iavl" {
			fns = append(fns, fn)
		}
	}
	sort.Slice(fns, func(i, j int) bool { return FnName(fns[i]) < FnName(fns[j]) })
	for _, fn := range fns {
		seen := map[string]int{}
		for _, b := range fn.Blocks {
			for i, ins := range b.Instrs {
				st, ok := ins.(*ssa.Store)
				if !ok {
					continue
				}
				fa, ok := st.Addr.(*ssa.FieldAddr)
				if !ok || !isNodePtr(fa.X) {
					continue
				}
				fname := fieldName(fa.X.Type(), fa.Field)
				if fname != "leftNode" && fname != "rightNode" {
					continue
				}
				if a := baseAlloc(fa.X); a != nil && strings.HasPrefix(a.Comment, "complit") {
					continue
				}
				if k, isK := st.Val.(*ssa.Const); isK && k.IsNil() {
					continue // dropping the in-memory link keeps the hash of the (saved) child
				}
				side := strings.TrimSuffix(fname, "Node")
				base := desc(fa.X, maxDepth)
				key := FnName(fn) + ":" + side
				seen[key]++
				if seen[key] > 1 {
					key += fmt.Sprintf("#%d", seen[key])
				}
				o := c.obl(P, "node.child-hash-follows-child", key, "in "+FnName(fn)+" the store to "+base+"."+fname+" comes with a store to "+base+"."+side+"Hash (before it in the same block, or on every path to a return)")
				o.Pos = c.A.Pos(st.Pos())
				isHashStore := func(in ssa.Instruction) bool {
					s2, ok := in.(*ssa.Store)
					if !ok {
						return false
					}
					f2, ok := s2.Addr.(*ssa.FieldAddr)
					return ok && fieldName(f2.X.Type(), f2.Field) == side+"Hash" && desc(f2.X, maxDepth) == base
				}
				okc := false
				for _, in := range b.Instrs[:i] {
					o.Facts++
					if isHashStore(in) {
						okc = true
					}
				}
				if !okc {
					// every path from the store to a return passes a hash store
					okc = true
					for _, in := range b.Instrs[i+1:] {
						if isHashStore(in) {
							goto done
						}
					}
					{
						vis := map[*ssa.BasicBlock]bool{}
						work := append([]*ssa.BasicBlock{}, b.Succs...)
						if _, isRet := b.Instrs[len(b.Instrs)-1].(*ssa.Return); isRet {
							okc = false
						}
						for len(work) > 0 && okc {
							x := work[len(work)-1]
							work = work[:len(work)-1]
							if vis[x] {
								continue
							}
							vis[x] = true
							has := false
							for _, in := range x.Instrs {
								o.Facts++
								if isHashStore(in) {
									has = true
									break
								}
							}
							if has {
								continue
							}
							if _, isRet := x.Instrs[len(x.Instrs)-1].(*ssa.Return); isRet {
								okc = false
								break
							}
							work = append(work, x.Succs...)
						}
					}
				}
			done:
				if !okc {
					o.fail(c.A.Pos(st.Pos()), "%s.%s is re-pointed but %s.%sHash is not written with it: the node keeps the hash of the child it had", base, fname, base, side)
				}
				out = append(out, *o)
			}
		}
	}
	return out
}

