package main

import (
	"go/token"
	"strings"

	"golang.org/x/tools/go/ssa"
)

// E9(i): a monotonicity lattice over big-number SSA expressions (direction of a
// value as a function of one chosen input, everything else held fixed), and
// E8: recognition of loop variants.

type monoDir int

const (
	mConst   monoDir = iota // does not depend on the input
	mUp                     // non-decreasing in the input
	mDown                   // non-increasing in the input
	mUnknown                // neither can be established
)

func (d monoDir) String() string {
	return [...]string{"constant", "non-decreasing", "non-increasing", "not monotone (unknown)"}[d]
}

func monoJoin(a, b monoDir) monoDir {
	switch {
	case a == mConst:
		return b
	case b == mConst:
		return a
	case a == b:
		return a
	}
	return mUnknown
}

func monoNeg(a monoDir) monoDir {
	switch a {
	case mUp:
		return mDown
	case mDown:
		return mUp
	}
	return a
}

type monoEngine struct {
	x     ssa.Value
	memo  map[ssa.Value]monoDir
	notes []string // why a value became unknown
	// Assumptions used (recorded in the evidence)
	assumed map[string]bool
}

func newMono(x ssa.Value) *monoEngine {
	return &monoEngine{x: x, memo: map[ssa.Value]monoDir{}, assumed: map[string]bool{}}
}

func bigMethod(c *ssa.Call) string {
	f := c.Call.StaticCallee()
	if f == nil {
		return ""
	}
	n := FnName(f)
	for _, p := range []string{"(types.BigInt).", "(types.BigDec)."} {
		if strings.HasPrefix(n, p) {
			return n[len(p):]
		}
	}
	if n == "types.MinInt" || n == "types.MaxInt" || n == "types.MinDec" || n == "types.MaxDec" {
		return n[len("types."):]
	}
	return ""
}

func (m *monoEngine) dir(v ssa.Value) monoDir {
	v = stripConv(v)
	if v == m.x {
		return mUp
	}
	if d, ok := m.memo[v]; ok {
		return d
	}
	m.memo[v] = mUnknown // cycles (loop phis) are unknown unless resolved below
	d := m.compute(v)
	m.memo[v] = d
	return d
}

func (m *monoEngine) unknown(v ssa.Value, why string) monoDir {
	m.notes = append(m.notes, desc(v, 3)+": "+why)
	return mUnknown
}

func (m *monoEngine) compute(v ssa.Value) monoDir {
	switch x := v.(type) {
	case *ssa.Const, *ssa.Global, *ssa.Function, *ssa.Builtin:
		return mConst
	case *ssa.Parameter, *ssa.FreeVar:
		return mConst // another input, held fixed
	case *ssa.Phi:
		d := mConst
		for _, e := range x.Edges {
			d = monoJoin(d, m.dir(e))
		}
		return d
	case *ssa.Extract:
		return m.dir(x.Tuple)
	case *ssa.UnOp:
		if x.Op == token.MUL { // load
			return m.dir(x.X)
		}
		if x.Op == token.SUB {
			return monoNeg(m.dir(x.X))
		}
		return m.dir(x.X)
	case *ssa.Alloc:
		// single-store local
		if s := singleStore(x); s != nil {
			return m.dir(s)
		}
		return m.unknown(v, "address of a multiply assigned variable")
	case *ssa.FieldAddr:
		return m.dir(x.X)
	case *ssa.Field:
		return m.dir(x.X)
	case *ssa.BinOp:
		a, b := m.dir(x.X), m.dir(x.Y)
		switch x.Op {
		case token.ADD:
			return monoJoin(a, b)
		case token.SUB:
			return monoJoin(a, monoNeg(b))
		case token.MUL:
			m.assumed["factors are non-negative"] = true
			return monoJoin(a, b)
		case token.QUO:
			if b == mConst {
				m.assumed["divisors are positive"] = true
				return a
			}
		}
		if a == mConst && b == mConst {
			return mConst
		}
		return m.unknown(v, "operator "+x.Op.String()+" on an input-dependent operand")
	case *ssa.Call:
		args := x.Call.Args
		ds := make([]monoDir, len(args))
		all := mConst
		for i, a := range args {
			ds[i] = m.dir(a)
			all = monoJoin(all, ds[i])
		}
		allConst := true
		for _, d := range ds {
			if d != mConst {
				allConst = false
			}
		}
		if allConst {
			return mConst // same inputs, same result (parameter getters, pure helpers)
		}
		switch bigMethod(x) {
		case "Add":
			return monoJoin(ds[0], ds[1])
		case "Sub":
			// a.Sub(a.Mod(c)) with c fixed: rounding a down to a multiple of c follows a
			if mod, ok := stripConv(args[1]).(*ssa.Call); ok && bigMethod(mod) == "Mod" &&
				stripConv(mod.Call.Args[0]) == stripConv(args[0]) && m.dir(mod.Call.Args[1]) == mConst {
				m.assumed["bin sizes are positive"] = true
				return ds[0]
			}
			return monoJoin(ds[0], monoNeg(ds[1]))
		case "Mul", "MulInt", "MulInt64", "MulTruncate":
			m.assumed["factors are non-negative"] = true
			return monoJoin(ds[0], ds[1])
		case "Quo", "QuoInt", "QuoInt64", "QuoTruncate", "QuoRaw":
			if ds[1] == mConst {
				m.assumed["divisors are positive"] = true
				return ds[0]
			}
			if ds[0] == mConst {
				m.assumed["divisors are positive"] = true
				return monoNeg(ds[1])
			}
			return m.unknown(v, "quotient of two input-dependent values")
		case "Mod", "ModRaw":
			return m.unknown(v, "a remainder is a sawtooth in its dividend")
		case "MinInt", "MaxInt", "MinDec", "MaxDec":
			return monoJoin(ds[0], ds[1])
		case "ToDec", "TruncateInt", "RoundInt", "TruncateDec", "Ceil", "BigInt", "Int64", "RoundInt64", "TruncateInt64":
			return ds[0]
		case "FracPow":
			if ds[1] == mConst {
				m.assumed["FracPow is non-decreasing in its base for a fixed non-negative exponent"] = true
				return ds[0]
			}
			return m.unknown(v, "power with an input-dependent exponent")
		case "Power":
			if ds[1] == mConst {
				m.assumed["bases are non-negative"] = true
				return ds[0]
			}
			return m.unknown(v, "power with an input-dependent exponent")
		case "Neg":
			return monoNeg(ds[0])
		}
		return m.unknown(v, "call of "+calleeName(&x.Call)+" with an input-dependent argument")
	case *ssa.Convert:
		return m.dir(x.X)
	case *ssa.ChangeType:
		return m.dir(x.X)
	case *ssa.MakeInterface:
		return m.dir(x.X)
	}
	return m.unknown(v, "unsupported value")
}

// ---- loop variants

type loopInfo struct {
	Header *ssa.BasicBlock
	Blocks map[*ssa.BasicBlock]bool
	Kind   string // "range", "counted", "halving", "" (unrecognised)
	Why    string
}

// naturalLoops finds the natural loops of fn (back edge t->h with h dominating t).
func naturalLoops(fn *ssa.Function) []*loopInfo {
	byHeader := map[*ssa.BasicBlock]*loopInfo{}
	var order []*ssa.BasicBlock
	for _, b := range fn.Blocks {
		for _, s := range b.Succs {
			if s.Dominates(b) {
				li := byHeader[s]
				if li == nil {
					li = &loopInfo{Header: s, Blocks: map[*ssa.BasicBlock]bool{s: true}}
					byHeader[s] = li
					order = append(order, s)
				}
				// collect the loop body: predecessors of the tail up to the header
				work := []*ssa.BasicBlock{b}
				for len(work) > 0 {
					x := work[len(work)-1]
					work = work[:len(work)-1]
					if li.Blocks[x] {
						continue
					}
					li.Blocks[x] = true
					work = append(work, x.Preds...)
				}
			}
		}
	}
	var out []*loopInfo
	for _, h := range order {
		out = append(out, byHeader[h])
	}
	return out
}

func (li *loopInfo) invariant(v ssa.Value) bool {
	switch x := stripConv(v).(type) {
	case *ssa.Const, *ssa.Parameter, *ssa.FreeVar, *ssa.Global:
		return true
	case ssa.Instruction:
		if li.Blocks[x.Block()] {
			// len(invariant) computed inside the loop
			if c, ok := x.(*ssa.Call); ok {
				if b, isB := c.Call.Value.(*ssa.Builtin); isB && b.Name() == "len" {
					return li.invariant(c.Call.Args[0])
				}
			}
			if b, ok := x.(*ssa.BinOp); ok {
				return li.invariant(b.X) && li.invariant(b.Y)
			}
			return false
		}
		return true
	}
	return false
}

// classify recognises the loop's variant.
func (li *loopInfo) classify() {
	h := li.Header
	// range loops
	for b := range li.Blocks {
		for _, ins := range b.Instrs {
			if _, ok := ins.(*ssa.Next); ok {
				li.Kind, li.Why = "range", "iteration over a map/string: bounded by its length"
				return
			}
		}
	}
	if strings.HasPrefix(h.Comment, "rangeindex") {
		li.Kind, li.Why = "range", "iteration over a slice: bounded by its length"
		return
	}
	// exits: Ifs inside the loop with one successor outside
	for b := range li.Blocks {
		if len(b.Instrs) == 0 {
			continue
		}
		iff, ok := b.Instrs[len(b.Instrs)-1].(*ssa.If)
		if !ok || (li.Blocks[b.Succs[0]] && li.Blocks[b.Succs[1]]) {
			continue
		}
		lo, hi, _, isCmp := cmpLT(iff.Cond)
		if !isCmp {
			continue
		}
		for _, side := range []struct {
			v, bound ssa.Value
			up       bool
		}{{lo, hi, true}, {hi, lo, false}} {
			ph, isPhi := stripConv(side.v).(*ssa.Phi)
			if !isPhi || ph.Block() != h || !li.invariant(side.bound) {
				continue
			}
			okAll, kind := true, ""
			nIn := 0
			for i, e := range ph.Edges {
				if !li.Blocks[h.Preds[i]] {
					continue // entry edge
				}
				nIn++
				k := stepKind(e, ph, side.up)
				if k == "" {
					okAll = false
				} else if kind == "" || kind == k {
					kind = k
				} else {
					kind = "counted"
				}
			}
			if okAll && nIn > 0 {
				li.Kind, li.Why = kind, "loop variable "+desc(ph, 2)+" moves strictly towards the loop-invariant bound "+desc(side.bound, 3)
				return
			}
		}
		// two loop variables closing in on each other: for lo < hi { lo++ | hi-- }
		pa, okA := stripConv(lo).(*ssa.Phi)
		pb, okB := stripConv(hi).(*ssa.Phi)
		if okA && okB && pa.Block() == h && pb.Block() == h {
			okAll, nIn := true, 0
			for i := range pa.Edges {
				if !li.Blocks[h.Preds[i]] {
					continue
				}
				nIn++
				if !gapShrinks(pa.Edges[i], pb.Edges[i], pa, pb) {
					okAll = false
				}
			}
			if okAll && nIn > 0 {
				li.Kind, li.Why = "counted", "the gap between "+desc(pa, 2)+" and "+desc(pb, 2)+" shrinks on every iteration"
				return
			}
		}
	}
	li.Kind = ""
}

// gapShrinks: (a, b) are the next values of the loop variables (A, B) with the
// loop running while A < B; on every path either A grows and B does not, or B
// shrinks and A does not.
func gapShrinks(a, b ssa.Value, A, B *ssa.Phi) bool {
	ia, isPa := stripConv(a).(*ssa.Phi)
	ib, isPb := stripConv(b).(*ssa.Phi)
	if isPa && isPb && ia != A && ib != B && ia.Block() == ib.Block() {
		for i := range ia.Edges {
			if !gapShrinks(ia.Edges[i], ib.Edges[i], A, B) {
				return false
			}
		}
		return len(ia.Edges) > 0
	}
	same := func(v ssa.Value, p *ssa.Phi) bool { return stripConv(v) == ssa.Value(p) }
	up := stepKind(a, A, true) == "counted"
	down := stepKind(b, B, false) == "counted"
	switch {
	case up && same(b, B), down && same(a, A), up && down:
		return true
	}
	return false
}

// stepKind: e is ph moved strictly towards the bound (up: increasing).
func stepKind(e ssa.Value, ph *ssa.Phi, up bool) string {
	// a merge of several in-loop updates: every one of them must be a step
	if inner, isPhi := stripConv(e).(*ssa.Phi); isPhi && inner != ph {
		kind := ""
		for _, ie := range inner.Edges {
			k := stepKind(ie, ph, up)
			if k == "" {
				return ""
			}
			if kind == "" {
				kind = k
			} else if kind != k {
				kind = "counted"
			}
		}
		return kind
	}
	b, ok := stripConv(e).(*ssa.BinOp)
	if !ok {
		return ""
	}
	isPh := func(v ssa.Value) bool { return stripConv(v) == ssa.Value(ph) }
	k, isK := intConst(b.Y)
	switch b.Op {
	case token.ADD:
		if isPh(b.X) && isK && ((up && k > 0) || (!up && k < 0)) {
			return "counted"
		}
	case token.SUB:
		if isPh(b.X) && isK && ((up && k < 0) || (!up && k > 0)) {
			return "counted"
		}
	case token.QUO, token.SHR:
		if !up && isK && ((b.Op == token.QUO && k >= 2) || (b.Op == token.SHR && k >= 1)) {
			if isPh(b.X) {
				return "halving"
			}
			if in, ok := stripConv(b.X).(*ssa.BinOp); ok && in.Op == token.SUB && isPh(in.X) {
				if kk, ok := intConst(in.Y); ok && kk >= 0 {
					return "halving"
				}
			}
		}
	}
	return ""
}
