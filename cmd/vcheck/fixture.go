package main

import (
	"fmt"
	"go/token"
	"os"
	"path/filepath"
	"strings"

	"golang.org/x/tools/go/packages"
	"golang.org/x/tools/go/ssa"
	"golang.org/x/tools/go/ssa/ssautil"
)

// Positive fixtures: /verif/selftest/fixture holds one tiny example of each construct
// that a zero-expected rule looks for. Before any verdict is given the detectors are run
// on it; a detector that no longer recognises its own example makes the run BROKEN.

// floatSites: floating-point arithmetic and float-to-non-float conversions in fn.
func floatSites(fn *ssa.Function) []ssa.Instruction {
	var out []ssa.Instruction
	for _, b := range fn.Blocks {
		for _, ins := range b.Instrs {
			switch x := ins.(type) {
			case *ssa.BinOp:
				if isFloat(x.X.Type()) {
					switch x.Op {
					case token.ADD, token.SUB, token.MUL, token.QUO:
						out = append(out, ins)
					}
				}
			case *ssa.Convert:
				if isFloat(x.X.Type()) && !isFloat(x.Type()) {
					out = append(out, ins)
				}
			}
		}
	}
	return out
}

// racySelects: selects with more than one communication case.
func racySelects(fn *ssa.Function) []*ssa.Select {
	var out []*ssa.Select
	for _, b := range fn.Blocks {
		for _, ins := range b.Instrs {
			if s, ok := ins.(*ssa.Select); ok && len(s.States) > 1 {
				out = append(out, s)
			}
		}
	}
	return out
}

// makeLenAppendSites: appends whose first operand may be a slice made with a non-zero length.
func makeLenAppendSites(fn *ssa.Function) []*ssa.MakeSlice {
	var out []*ssa.MakeSlice
	for _, b := range fn.Blocks {
		for _, ins := range b.Instrs {
			call, ok := ins.(*ssa.Call)
			if !ok {
				continue
			}
			bi, isB := call.Call.Value.(*ssa.Builtin)
			if !isB || bi.Name() != "append" {
				continue
			}
			for _, leaf := range phiLeaves(call.Call.Args[0]) {
				ms, isM := stripConv(leaf).(*ssa.MakeSlice)
				if !isM {
					continue
				}
				if n, isK := intConst(ms.Len); isK && n == 0 {
					continue
				}
				out = append(out, ms)
			}
		}
	}
	return out
}

func fixtureCheck() error {
	// the fixtures live next to the checker (…/bin/vcheck -> …/selftest/fixture), not in the output directory
	home := verifDir
	if exe, err := os.Executable(); err == nil {
		if h := filepath.Dir(filepath.Dir(exe)); h != "" {
			if _, err := os.Stat(filepath.Join(h, "selftest", "fixture", "fixture.go")); err == nil {
				home = h
			}
		}
	}
	dir := filepath.Join(home, "selftest", "fixture")
	if _, err := os.Stat(filepath.Join(dir, "fixture.go")); err != nil {
		return fmt.Errorf("positive fixtures missing: %v", err)
	}
	cfg := &packages.Config{Mode: packages.LoadAllSyntax, Dir: dir, Env: append(os.Environ(), "GOFLAGS=-mod=mod", "GOPROXY=off", "GOSUMDB=off", "GOTOOLCHAIN=local", "GOWORK=off")}
	pkgs, err := packages.Load(cfg, ".")
	if err != nil || len(pkgs) != 1 || len(pkgs[0].Errors) > 0 {
		return fmt.Errorf("positive fixtures do not load: %v %v", err, pkgs)
	}
	prog, spkgs := ssautil.AllPackages(pkgs, ssa.InstantiateGenerics)
	prog.Build()
	sp := spkgs[0]
	a := &Analysis{RepoDir: dir, Fset: pkgs[0].Fset, AllFns: map[*ssa.Function]bool{}, fnIndex: map[string][]*ssa.Function{},
		Out: map[*ssa.Function][]Edge{}, In: map[*ssa.Function][]Edge{}, SSAPkgs: map[string]*ssa.Package{}, PkgByID: map[string]*packages.Package{}}
	fn := func(name string) *ssa.Function {
		if f := sp.Func(name); f != nil {
			return f
		}
		for _, m := range sp.Members {
			if t, ok := m.(*ssa.Type); ok {
				if f := prog.LookupMethod(t.Type(), sp.Pkg, name); f != nil {
					return f
				}
			}
		}
		return nil
	}
	for _, n := range []string{"FloatArithmetic", "RacySelect", "ClockDecides", "EnvDecides", "AppendInPlace", "MapOrderEscapes", "MakeLenAppend", "PlainKey", "UnboundedLoop"} {
		f := fn(n)
		if f == nil {
			return fmt.Errorf("fixture %s not found", n)
		}
		a.AllFns[f] = true
		a.fnIndex[n] = []*ssa.Function{f}
	}
	c := &Ctx{A: a, E1: newE1(a), Tier: "fixture"}
	var miss []string
	if len(floatSites(fn("FloatArithmetic"))) < 2 {
		miss = append(miss, "floating-point arithmetic / conversion")
	}
	if len(racySelects(fn("RacySelect"))) != 1 {
		miss = append(miss, "select with several communication cases")
	}
	nondet := func(name, kind string) {
		found := false
		for _, b := range fn(name).Blocks {
			for _, ins := range b.Instrs {
				if call, ok := ins.(*ssa.Call); ok {
					if k, is := isNondetCall(&call.Call); is && strings.HasPrefix(k, kind) {
						if bad := c.clockFlows(call, func(string) bool { return false }); len(bad) > 0 {
							found = true
						}
					}
				}
			}
		}
		if !found {
			miss = append(miss, kind+" value deciding a branch")
		}
	}
	nondet("ClockDecides", "clock")
	nondet("EnvDecides", "environment")
	{
		found := false
		for _, b := range fn("AppendInPlace").Blocks {
			for _, ins := range b.Instrs {
				if c.E1.matchIns(ins, `^builtin\.append\((s|iter)\.prefix, `) {
					found = true
				}
			}
		}
		if !found {
			miss = append(miss, "append to a shared prefix slice")
		}
	}
	{
		found := false
		for _, b := range fn("MapOrderEscapes").Blocks {
			for _, ins := range b.Instrs {
				if r, ok := ins.(*ssa.Range); ok && isMapType(r.X.Type()) {
					if mr := c.classifyMapRange(r); mr.Class == "" {
						found = true
					}
				}
			}
		}
		if !found {
			miss = append(miss, "map iteration order escaping into a slice")
		}
	}
	if len(makeLenAppendSites(fn("MakeLenAppend"))) == 0 {
		miss = append(miss, "make(len) followed by append")
	}
	if o := c.keyInjective("fixture", "fixture", "PlainKey", ""); o.st != Violation {
		miss = append(miss, "cache key without separator ("+o.Status+")")
	}
	{
		found := false
		for _, li := range naturalLoops(fn("UnboundedLoop")) {
			li.classify()
			if li.Kind == "" {
				found = true
			}
		}
		if !found {
			miss = append(miss, "loop without a variant")
		}
	}
	if len(miss) > 0 {
		return fmt.Errorf("the checker no longer recognises its own positive examples (%s): rules with an expected count of zero could pass vacuously", strings.Join(miss, "; "))
	}
	return nil
}
