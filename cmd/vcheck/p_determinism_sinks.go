package main

// mapRangeAcceptedSinks: what the body of each excepted range-over-map did with the iteration order when
// its exception was confirmed by reading (generated with VCHECK_DUMP_SINKS=1; one entry per excepted loop
// on the consensus path). A sink outside this list is reported.
var mapRangeAcceptedSinks = map[string][]string{
	"(*store/cachekv.Store).dirtyItems": {"github.com/tendermint/tm-db.IsKeyInDomain", "store &var:unsorted"},
	"(*store/iavl.nodeDB).SaveOrphans": {"(*store/iavl.nodeDB).saveOrphan", "store/iavl.debug"},
	"(*store/rootmulti.Store).LoadLazyVersion": {"(*store/iavl.Store).LazyLoadStore", "invoke store/types.MultiStoreCache.GetSingleStoreCache", "value (*store/iavl.Store).LazyLoadStore(assert<*store/iavl.Store>(…)#0, ver, invoke store/types.MultiStoreCache.GetSingleStoreCache(…, …))#1 escapes the loop", "value next(range(…))#1 escapes the loop"},
	"(*types/module.Manager).BeginBlock": {"invoke types/module.AppModule.UpgradeCodec"},
	"(store/cachemulti.Store).Write": {"invoke store/types.CacheWrap.Write"},
	"(x/gov/keeper.Keeper).GetAllParamNames": {"(types.Subspace).GetAllParamKeys", "(types.Subspace).Name"},
	"codec.MapToSlice": {"fmt.Sprintf"},
	"store/cachemulti.NewFromKVStore": {"(store/cachemulti.Store).TracingEnabled", "invoke store/types.CacheWrapper.CacheWrap", "invoke store/types.CacheWrapper.CacheWrapWithTrace"},
	"store/rootmulti.commitStores": {"invoke store/types.CommitStore.Commit", "invoke store/types.CommitStore.GetStoreType", "invoke store/types.StoreKey.Name", "store var:si.Core.CommitID", "store var:si.Name"},
}
