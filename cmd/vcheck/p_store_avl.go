package main

// C03: the versioned Merkle tree is a correct ordered map — the structural
// clause: every change of shape is followed by recomputation of height/size and
// rebalancing before the node is handed back, the rotations and the balance case
// analysis have the AVL shape, and descent compares with the node key on the
// side the ordering says.

func init() {
	register(&Prop{
		ID: "C03", Title: "Versioned Merkle tree is a correct ordered map at every version",
		Technique: "pruned-CFG rows and must-pass-through orderings over recursiveSet, recursiveRemove, rotateLeft/Right, balance, calcHeightAndSize, calcBalance and Node.get (the versioning half is the copy-on-write rule of C09)",
		DesignRef: "DESIGN.md §3 C03",
		Explanation: "After an insertion below an inner node (no value replaced) recursiveSet recomputes the clone's height and size and returns the result of balance; recursiveRemove does the same for every clone it re-links, and hands the promoted key up only from the left subtree; each rotation recomputes the demoted node before the promoted one; balance rotates right on a left-heavy node (double rotation when the left child leans right), left on a right-heavy node (double when the right child leans left) and leaves a balanced node alone; height is max(children)+1, size the sum of the children, balance left minus right height; lookup descends left exactly when the key is smaller than the node key and adds the left subtree's size to an index found on the right.",
		NotDecided:  "that the tree equals a per-version map model for all histories, that it stays balanced in value, range iteration order and index lookups by position — value-level equalities over histories.",
		MinObl:      22,
		Run:         runC03,
	})
}

func runC03(c *Ctx) []Obligation {
	P := "C03"
	T0 := "(*store/iavl.MutableTree)."
	N := `\(\*store/iavl\.Node\)\.`
	MT := `\(\*store/iavl\.MutableTree\)\.`
	it := `tree\.ImmutableTree`
	bal := `^` + N + `calcBalance\(node, ` + it + `\)`
	lbal := N + `calcBalance\(` + N + `getLeftNode\(node, ` + it + `\), ` + it + `\)`
	rbal := N + `calcBalance\(` + N + `getRightNode\(node, ` + it + `\), ` + it + `\)`
	heavyL, heavyR := `^lt\(1, `+bal[1:]+`\)$`, `^lt\(`+bal[1:]+`, -1\)$`
	rows := []Row{
		// recursiveSet
		{Prop: P, ID: "set.recompute-before-balance", Fn: T0 + "recursiveSet", Barrier: []string{`^` + N + `calcHeightAndSize\(`},
			Target: CallTo(`^` + MT + `balance\(`), TargetMustExist: true, Why: "the clone's height and size are recomputed before it is rebalanced"},
		{Prop: P, ID: "set.insert-returns-balanced", Fn: T0 + "recursiveSet", Assume: []Lit{F(`^` + N + `isLeaf\(node\)$`), F(`^phi:updated$`)},
			Target: RetNotMatch(0, `^`+MT+`balance\(tree, `), Why: "after an insertion below an inner node the rebalanced clone is what is returned"},
		{Prop: P, ID: "set.balance-operand-is-recomputed-node", Fn: T0 + "recursiveSet", Target: CallTo(`^` + MT + `balance\(`).Except(`^` + MT + `balance\(tree, ` + N + `clone\(node, \(` + it + `\.version \+ 1\)\), orphans\)$`), Why: "the node rebalanced is the clone that was re-linked"},
		{Prop: P, ID: "set.descends-by-order", Fn: T0 + "recursiveSet", Assume: []Lit{F(`^` + N + `isLeaf\(node\)$`), T(`^lt\(bytes\.Compare\(key, ` + N + `clone\(node, .*\)\.key\), 0\)$`)},
			Target: CallTo(`getRightNode\(`), Why: "a smaller key is inserted on the left"},
		{Prop: P, ID: "set.descends-by-order.right", Fn: T0 + "recursiveSet", Assume: []Lit{F(`^` + N + `isLeaf\(node\)$`), F(`^lt\(bytes\.Compare\(key, ` + N + `clone\(node, .*\)\.key\), 0\)$`)},
			Target: CallTo(`getLeftNode\(`), Why: "a key not smaller than the node key is inserted on the right"},
		// recursiveRemove
		{Prop: P, ID: "remove.recompute-before-balance", Fn: T0 + "recursiveRemove", Barrier: []string{`^` + N + `calcHeightAndSize\(`},
			Target: CallTo(`^` + MT + `balance\(`), TargetMustExist: true, Why: "a re-linked clone is recomputed before it is rebalanced"},
		{Prop: P, ID: "remove.relinked-clone-is-balanced", Fn: T0 + "recursiveRemove", Target: RetNotMatch(1, `^`+MT+`balance\(tree, |^node$|^nil$|^node\.(left|right)Node$`), Why: "what is handed back is the untouched node, the surviving sibling, or a rebalanced clone"},
		{Prop: P, ID: "remove.clone-always-balanced", Fn: T0 + "recursiveRemove", Barrier: []string{`^` + MT + `balance\(`}, Target: TargetAnyReturn(), From: `^` + N + `clone\(`, Why: "every path that clones a node rebalances it before returning"},
		// separator keys: an inner node's key is the smallest key of its right subtree. When the smallest
		// key of a right subtree is removed, the new smallest key travels up through every left-descent
		// until the ancestor whose right subtree it is, which takes it as its own key.
		{Prop: P, ID: "remove.left-relink-relays-new-key", Fn: T0 + "recursiveRemove", Assume: []Lit{F(`^` + N + `isLeaf\(node\)$`), T(`^lt\(bytes\.Compare\(key, node\.key\), 0\)$`), F(`^eq\(0, builtin\.len\(orphans\)\)$`), T(`^nonnil\(` + MT + `recursiveRemove\(tree, ` + N + `getLeftNode\(node, ` + it + `\), key, orphans\)#[01]\)$`)},
			Target: RetNotMatch(2, `^`+MT+`recursiveRemove\(tree, `+N+`getLeftNode\(node, `+it+`\), key, orphans\)#2$`), Why: "after a removal in the left subtree the new smallest key reported from below is passed up unchanged"},
		{Prop: P, ID: "remove.left-child-gone-reports-own-key", Fn: T0 + "recursiveRemove", Assume: []Lit{F(`^` + N + `isLeaf\(node\)$`), T(`^lt\(bytes\.Compare\(key, node\.key\), 0\)$`), F(`^eq\(0, builtin\.len\(orphans\)\)$`), F(`^nonnil\(` + MT + `recursiveRemove\(tree, ` + N + `getLeftNode\(node, ` + it + `\), key, orphans\)#[01]\)$`)},
			Target: RetNotMatch(2, `^node\.key$`), Why: "when the left child was the removed leaf, the node is replaced by its right child and its key (the smallest key of that right subtree) is reported as the new smallest key"},
		{Prop: P, ID: "remove.right-relink-adopts-new-key", Fn: T0 + "recursiveRemove", Assume: []Lit{T(`^nonnil\(` + MT + `recursiveRemove\(tree, ` + N + `getRightNode\(node, ` + it + `\), key, orphans\)#2\)$`)},
			Barrier: []string{`store:\.key = ` + MT + `recursiveRemove\(tree, ` + N + `getRightNode\(node, ` + it + `\), key, orphans\)#2$`}, Target: CallTo(`^` + MT + `balance\(`), From: `getRightNode\(node, `, Why: "a new smallest key reported from the right subtree becomes the re-linked node's own key"},
		{Prop: P, ID: "remove.right-consumes-new-key", Fn: T0 + "recursiveRemove", Assume: []Lit{F(`^` + N + `isLeaf\(node\)$`), F(`^lt\(bytes\.Compare\(key, node\.key\), 0\)$`)},
			Target: RetNot(2, "nil"), Why: "a key change coming from the right subtree stops at this node (it does not concern the ancestors)"},
		{Prop: P, ID: "remove.untouched-reports-no-key", Fn: T0 + "recursiveRemove", Assume: []Lit{T(`^eq\(0, builtin\.len\(orphans\)\)$`)}, Target: RetNot(2, "nil"), Why: "nothing removed, nothing to report"},
		// rotations
		{Prop: P, ID: "rotateRight.demoted-first", Fn: T0 + "rotateRight", Barrier: []string{`^` + N + `calcHeightAndSize\(` + N + `clone\(node, `},
			Target: CallTo(`^` + N + `calcHeightAndSize\(` + N + `clone\(` + N + `getLeftNode\(`), TargetMustExist: true, Why: "the demoted node (now a child) is recomputed before the promoted one, whose height depends on it"},
		{Prop: P, ID: "rotateLeft.demoted-first", Fn: T0 + "rotateLeft", Barrier: []string{`^` + N + `calcHeightAndSize\(` + N + `clone\(node, `},
			Target: CallTo(`^` + N + `calcHeightAndSize\(` + N + `clone\(` + N + `getRightNode\(`), TargetMustExist: true, Why: "the demoted node is recomputed before the promoted one"},
		{Prop: P, ID: "rotateRight.promotes-left-child", Fn: T0 + "rotateRight", Target: RetNotMatch(0, `^`+N+`clone\(`+N+`getLeftNode\(`+N+`clone\(node, `), Why: "a right rotation promotes (a clone of) the left child"},
		{Prop: P, ID: "rotateLeft.promotes-right-child", Fn: T0 + "rotateLeft", Target: RetNotMatch(0, `^`+N+`clone\(`+N+`getRightNode\(`+N+`clone\(node, `), Why: "a left rotation promotes (a clone of) the right child"},
		// balance case analysis
		{Prop: P, ID: "balance.balanced-untouched", Fn: T0 + "balance", Assume: []Lit{F(`^node\.persisted$`), F(heavyL), F(heavyR)}, Target: RetNotMatch(0, `^node$`), Why: "a node within the AVL bound is returned as is"},
		{Prop: P, ID: "balance.balanced-not-rotated", Fn: T0 + "balance", Assume: []Lit{F(`^node\.persisted$`), F(heavyL), F(heavyR)}, Target: CallTo(`rotate(Left|Right)\(`), Why: "a node within the AVL bound is not rotated"},
		{Prop: P, ID: "balance.left-left", Fn: T0 + "balance", Assume: []Lit{F(`^node\.persisted$`), T(heavyL), F(`^lt\(` + lbal + `, 0\)$`)}, Target: RetNotMatch(0, `^`+MT+`rotateRight\(tree, node\)#0$`), Why: "left-left: one right rotation of the node"},
		{Prop: P, ID: "balance.left-left.single", Fn: T0 + "balance", Assume: []Lit{F(`^node\.persisted$`), T(heavyL), F(`^lt\(` + lbal + `, 0\)$`)}, Target: CallTo(`rotateLeft\(`), Why: "left-left needs no left rotation"},
		{Prop: P, ID: "balance.left-right", Fn: T0 + "balance", Assume: []Lit{F(`^node\.persisted$`), T(heavyL), T(`^lt\(` + lbal + `, 0\)$`)}, Barrier: []string{`^` + MT + `rotateLeft\(tree, ` + N + `getLeftNode\(node, ` + it + `\)\)`},
			Target: CallTo(`^` + MT + `rotateRight\(tree, node\)`), TargetMustExist: true, Why: "left-right: the left child is rotated left before the node is rotated right"},
		{Prop: P, ID: "balance.left-right.returns", Fn: T0 + "balance", Assume: []Lit{F(`^node\.persisted$`), T(heavyL), T(`^lt\(` + lbal + `, 0\)$`)}, Target: RetNotMatch(0, `^`+MT+`rotateRight\(tree, node\)#0$`), Why: "left-right ends in the right rotation of the node"},
		{Prop: P, ID: "balance.right-right", Fn: T0 + "balance", Assume: []Lit{F(`^node\.persisted$`), F(heavyL), T(heavyR), F(`^lt\(0, ` + rbal + `\)$`)}, Target: RetNotMatch(0, `^`+MT+`rotateLeft\(tree, node\)#0$`), Why: "right-right: one left rotation of the node"},
		{Prop: P, ID: "balance.right-left", Fn: T0 + "balance", Assume: []Lit{F(`^node\.persisted$`), F(heavyL), T(heavyR), T(`^lt\(0, ` + rbal + `\)$`)}, Barrier: []string{`^` + MT + `rotateRight\(tree, ` + N + `getRightNode\(node, ` + it + `\)\)`},
			Target: CallTo(`^` + MT + `rotateLeft\(tree, node\)`), TargetMustExist: true, Why: "right-left: the right child is rotated right before the node is rotated left"},
		{Prop: P, ID: "balance.relinks-rotated-child", Fn: T0 + "balance", Target: StoreTo(`^node\.(left|right)Node$`).ExceptVal(`^` + MT + `rotateLeft\(tree, ` + N + `getLeftNode\(node, ` + it + `\)\)#0$|^` + MT + `rotateRight\(tree, ` + N + `getRightNode\(node, ` + it + `\)\)#0$`), Why: "the rotated child replaces the child it was rotated from, on the same side"},
		// measures
		{Prop: P, ID: "measure.height", Fn: "(*store/iavl.Node).calcHeightAndSize", Target: StoreTo(`^node\.height$`).ExceptVal(`^\(store/iavl\.maxInt8\(` + N + `getLeftNode\(node, t\)\.height, ` + N + `getRightNode\(node, t\)\.height\) \+ 1\)$`), Why: "height is one more than the taller child"},
		{Prop: P, ID: "measure.size", Fn: "(*store/iavl.Node).calcHeightAndSize", Target: StoreTo(`^node\.size$`).ExceptVal(`^\(` + N + `getLeftNode\(node, t\)\.size \+ ` + N + `getRightNode\(node, t\)\.size\)$`), Why: "size is the sum of the children's sizes"},
		{Prop: P, ID: "measure.balance", Fn: "(*store/iavl.Node).calcBalance", Target: RetNotMatch(0, `^\(conv<int>\(`+N+`getLeftNode\(node, t\)\.height\) - conv<int>\(`+N+`getRightNode\(node, t\)\.height\)\)$`), Why: "balance is left height minus right height"},
		// lookup
		{Prop: P, ID: "get.smaller-goes-left", Fn: "(*store/iavl.Node).get", Assume: []Lit{F(`^` + N + `isLeaf\(node\)$`), T(`^lt\(bytes\.Compare\(key, node\.key\), 0\)$`)}, Target: CallTo(`getRightNode\(`), Why: "a key smaller than the node key is looked up on the left only"},
		{Prop: P, ID: "get.other-goes-right", Fn: "(*store/iavl.Node).get", Assume: []Lit{F(`^` + N + `isLeaf\(node\)$`), F(`^lt\(bytes\.Compare\(key, node\.key\), 0\)$`)}, Target: CallTo(`getLeftNode\(`), Why: "a key not smaller than the node key is looked up on the right only"},
		{Prop: P, ID: "get.right-index-offset", Fn: "(*store/iavl.Node).get", Assume: []Lit{F(`^` + N + `isLeaf\(node\)$`), F(`^lt\(bytes\.Compare\(key, node\.key\), 0\)$`)},
			Target: RetNotMatch(0, `^\(`+N+`get\(`+N+`getRightNode\(node, t\), t, key\)#0 \+ \(node\.size - `+N+`getRightNode\(.*\)\.size\)\)$`), Why: "an index found on the right is offset by the size of the left subtree"},
		{Prop: P, ID: "get.leaf-value-only-on-equal-key", Fn: "(*store/iavl.Node).get", Assume: []Lit{T(`^` + N + `isLeaf\(node\)$`), T(`^eq\(-1, bytes\.Compare\(node\.key, key\)\)$`)}, Target: RetNot(1, "nil"), Why: "a leaf with a smaller key does not yield its value"},
		{Prop: P, ID: "get.leaf-value-only-on-equal-key.greater", Fn: "(*store/iavl.Node).get", Assume: []Lit{T(`^` + N + `isLeaf\(node\)$`), F(`^eq\(-1, bytes\.Compare\(node\.key, key\)\)$`), T(`^eq\(1, bytes\.Compare\(node\.key, key\)\)$`)}, Target: RetNot(1, "nil"), Why: "a leaf with a greater key does not yield its value"},
		// range traversal visits in key order: ascending goes left before right, descending right before left
		{Prop: P, ID: "range.ascending-left-before-right", Fn: "(*store/iavl.Node).traverseInRange", Assume: []Lit{T(`^ascending$`)},
			From: `^` + N + `traverseInRange\(` + N + `getRightNode\(node, t\), `, Target: CallTo(`^` + N + `traverseInRange\(` + N + `getLeftNode\(node, t\), `), Why: "in ascending order nothing on the left is visited after the right subtree"},
		{Prop: P, ID: "range.descending-right-before-left", Fn: "(*store/iavl.Node).traverseInRange", Assume: []Lit{F(`^ascending$`)},
			From: `^` + N + `traverseInRange\(` + N + `getLeftNode\(node, t\), `, Target: CallTo(`^` + N + `traverseInRange\(` + N + `getRightNode\(node, t\), `), Why: "in descending order nothing on the right is visited after the left subtree"},
		{Prop: P, ID: "range.recursion-keeps-bounds", Fn: "(*store/iavl.Node).traverseInRange",
			Target: CallTo(`^` + N + `traverseInRange\(`).Except(`^` + N + `traverseInRange\(` + N + `get(Left|Right)Node\(node, t\), t, start, end, ascending, inclusive, \(depth \+ 1\), post, cb\)$`), Why: "children are traversed with the same bounds, direction and callback, one level deeper"},
		{Prop: P, ID: "range.callback-on-this-node", Fn: "(*store/iavl.Node).traverseInRange",
			Target: CallTo(`^dyn:cb\(`).Except(`^dyn:cb\(node, depth\)$`), Why: "the callback receives the node being visited"},
		{Prop: P, ID: "range.nil-node-stops-nothing", Fn: "(*store/iavl.Node).traverseInRange", Assume: []Lit{F(`^nonnil\(node\)$`)}, Target: CallTo(`^dyn:cb\(|traverseInRange\(`), Why: "an empty subtree visits nothing"},
	}
	out := c.Rows(rows)
	out = append(out, c.twins(P, "rotate.twins", T0+"rotateLeft", T0+"rotateRight", []Rename{{From: "Left", To: "Right", Swap: true}, {From: "left", To: "right", Swap: true}},
		"a right rotation is a left rotation with the two sides exchanged"))
	out = append(out, c.twins(P, "child-access.twins", "(*store/iavl.Node).getLeftNode", "(*store/iavl.Node).getRightNode", []Rename{{From: "Left", To: "Right", Swap: true}, {From: "left", To: "right", Swap: true}},
		"the right child is loaded exactly as the left child is (cached pointer, else by its own hash)"))
	out = append(out, c.childHashFollowsChild(P)...)
	// new and copied nodes belong to the version being written (working version + 1), a new leaf holds the
	// key and value being set, and the recursion carries them down unchanged
	ver := `\(tree\.ImmutableTree\.version \+ 1\)`
	var vrows []Row
	for _, f := range []string{"recursiveSet", "recursiveRemove", "rotateLeft", "rotateRight"} {
		vrows = append(vrows, Row{Prop: P, ID: "version." + f + ".copies-belong-to-next-version", Fn: "(*store/iavl.MutableTree)." + f,
			Target: CallTo(`^\(\*store/iavl\.Node\)\.clone\(`).Except(`^\(\*store/iavl\.Node\)\.clone\(.*, ` + ver + `\)$`), Why: "a node is copied into the version being written, not any other"})
	}
	vrows = append(vrows,
		Row{Prop: P, ID: "set.new-leaf-holds-key-and-value", Fn: "(*store/iavl.MutableTree).recursiveSet",
			Target: CallTo(`^store/iavl\.NewNode\(`).Except(`^store/iavl\.NewNode\(key, value, ` + ver + `\)$`), Why: "the leaf created for a set holds that key, that value and the version being written"},
		Row{Prop: P, ID: "set.recursion-carries-key-and-value", Fn: "(*store/iavl.MutableTree).recursiveSet",
			Target: CallTo(`^\(\*store/iavl\.MutableTree\)\.recursiveSet\(`).Except(`^\(\*store/iavl\.MutableTree\)\.recursiveSet\(tree, \(\*store/iavl\.Node\)\.get(Left|Right)Node\(\(\*store/iavl\.Node\)\.clone\(node, ` + ver + `\), tree\.ImmutableTree\), key, value, orphans\)$`),
			Why:    "the recursion descends into a child of the copy with the same key, value and orphan list"},
		Row{Prop: P, ID: "set.descends-left-for-smaller-keys", Fn: "(*store/iavl.MutableTree).recursiveSet", Assume: []Lit{F(`^\(\*store/iavl\.Node\)\.isLeaf\(node\)$`), T(`^lt\(bytes\.Compare\(key, \(\*store/iavl\.Node\)\.clone\(node, ` + ver + `\)\.key\), 0\)$`)},
			Target: CallTo(`getRightNode\(`), Why: "a key below the separator goes into the left subtree"},
		Row{Prop: P, ID: "set.descends-right-otherwise", Fn: "(*store/iavl.MutableTree).recursiveSet", Assume: []Lit{F(`^\(\*store/iavl\.Node\)\.isLeaf\(node\)$`), F(`^lt\(bytes\.Compare\(key, \(\*store/iavl\.Node\)\.clone\(node, ` + ver + `\)\.key\), 0\)$`)},
			Target: CallTo(`getLeftNode\(`), Why: "a key at or above the separator goes into the right subtree"},
	)
	out = append(out, c.Rows(vrows)...)
	return out
}
