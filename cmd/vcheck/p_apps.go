package main

// C28: application admission limits and transfers.

func init() {
	register(&Prop{
		ID: "C28", Title: "Application admission limits and transfers are enforced",
		Technique: "pruned-CFG rows over ValidateApplicationStaking, StakeApplication, ValidateApplicationTransfer, TransferApplication and the stake handler; who-may-call tables",
		DesignRef: "DESIGN.md §3 C28",
		Explanation: "ValidateApplicationStaking rejects more chains than MaxChains on every route; on the routes that create a stake (new application, or an unstaked record) it rejects an amount below MinimumStake, an account without the coins for exactly that amount, and (after the upgrade height) a staked-application count that has reached MaxApplications; an existing record that is neither staked-after-upgrade nor unstaked is rejected; StakeApplication moves the coins before it writes the record, writes nothing if the move fails, and sets MaxRelays from CalculateAppRelays on the record that already carries the new stake; a transfer is accepted only after both upgrade gates, for a signer whose own application exists and is staked, a supported new key, and a target address without a record; it returns the signer's record; TransferApplication writes that record under the new key and address with status staked, then removes the old record from the staking set and the store; the handler transfers only on a nil validation error, with the validated record and the message's key, and otherwise stakes only after ValidateApplicationStaking returned nil with the same operands.",
		NotDecided:  "the numeric boundaries (count vs MaxApplications, amount vs MinimumStake) as numbers, and the value computed by CalculateAppRelays.",
		MinObl:      24,
		Run:         runC28,
	})
}

func runC28(c *Ctx) []Obligation {
	P := "C28"
	V := "(x/apps/keeper.Keeper).ValidateApplicationStaking"
	T1 := "(x/apps/keeper.Keeper).ValidateApplicationTransfer"
	found := `^\(x/apps/keeper\.Keeper\)\.GetApplication\(k, ctx, application\.Address\)#1$`
	app0 := `\(x/apps/keeper\.Keeper\)\.GetApplication\(k, ctx, application\.Address\)#0`
	isStaked := `^\(x/apps/types\.Application\)\.IsStaked\(` + app0 + `\)$`
	isUnstaked := `^\(x/apps/types\.Application\)\.IsUnstaked\(` + app0 + `\)$`
	minStake := `^LT<types\.BigInt>\(amount, types\.NewInt\(\(x/apps/keeper\.Keeper\)\.MinimumStake\(k, ctx\)\)\)$`
	hasCoins := `^invoke x/apps/types\.AuthKeeper\.HasCoins\(k\.AccountKeeper, ctx, application\.Address, types\.NewCoins\(\[types\.NewCoin\(\(x/apps/keeper\.Keeper\)\.StakeDenom\(k, ctx\), amount\)\]\)\)$`
	upg := `^invoke types\.Ctx\.IsAfterUpgradeHeight\(ctx\)$`
	count := `^lt\(\(x/apps/keeper\.Keeper\)\.getStakedApplicationsCount\(k, ctx\), \(x/apps/keeper\.Keeper\)\.MaxApplications\(k, ctx\)\)$`
	// the two routes on which a new stake is created
	newApp := []Lit{F(found)}
	restake := []Lit{T(found), F(isStaked), T(isUnstaked)}
	on := func(route []Lit, ls ...Lit) []Lit { return append(append([]Lit{}, route...), ls...) }
	sgn := `invoke crypto\.PublicKey\.Address\(signer\)`
	cur := `\(x/apps/keeper\.Keeper\)\.GetApplication\(k, ctx, ` + sgn + `\)`
	rows := []Row{
		{Prop: P, ID: "admit.max-chains", Fn: V, Assume: []Lit{T(`^lt\(\(x/apps/keeper\.Keeper\)\.MaxChains\(k, ctx\), conv<int64>\(builtin\.len\(application\.Chains\)\)\)$`)}, Target: Success(), Why: "more chains than MaxChains is rejected on every route, edits included"},
		{Prop: P, ID: "admit.new.min-stake", Fn: V, Assume: on(newApp, T(minStake)), Target: Success(), Why: "a new application below the minimum stake is rejected"},
		{Prop: P, ID: "admit.restake.min-stake", Fn: V, Assume: on(restake, T(minStake)), Target: Success(), Why: "re-staking an unstaked record below the minimum stake is rejected"},
		{Prop: P, ID: "admit.new.funds", Fn: V, Assume: on(newApp, F(hasCoins)), Target: Success(), Why: "a new application whose account cannot cover the stake is rejected"},
		{Prop: P, ID: "admit.restake.funds", Fn: V, Assume: on(restake, F(hasCoins)), Target: Success(), Why: "re-staking without the funds is rejected"},
		{Prop: P, ID: "admit.new.max-applications", Fn: V, Assume: on(newApp, T(upg), F(count)), Target: Success(), Why: "no new application once MaxApplications are staked"},
		{Prop: P, ID: "admit.restake.max-applications", Fn: V, Assume: on(restake, T(upg), F(count)), Target: Success(), Why: "no re-stake once MaxApplications are staked"},
		{Prop: P, ID: "admit.unstaking-rejected", Fn: V, Assume: []Lit{T(found), F(isStaked), F(isUnstaked)}, Target: Success(), Why: "an application that is unstaking cannot stake again"},
		{Prop: P, ID: "admit.staked-before-upgrade-rejected", Fn: V, Assume: []Lit{T(found), F(upg), F(isUnstaked)}, Target: Success(), Why: "before the edit-stake upgrade a staked application cannot stake again"},
		{Prop: P, ID: "admit.new.key-type", Fn: V, Assume: on(newApp, T(`^nonnil\(x/apps/keeper\.ensurePubKeyTypeSupported\(ctx, application\.PublicKey, `)), Target: Success(), Why: "a new application with an unsupported key type is rejected"},
		{Prop: P, ID: "admit.funds-for-this-amount", Fn: V, Target: CallTo(`^invoke x/apps/types\.AuthKeeper\.HasCoins\(`).Except(hasCoins), Why: "the funds check is for the staking account and exactly the staked amount, in the stake denomination"},
		{Prop: P, ID: "admit.lookup-own-address", Fn: V, Target: CallTo(`GetApplication\(`).Except(`^\(x/apps/keeper\.Keeper\)\.GetApplication\(k, ctx, application\.Address\)$`), Why: "the existing record is looked up under the application's own address"},
		// StakeApplication
		{Prop: P, ID: "stake.coins-before-record", Fn: "(x/apps/keeper.Keeper).StakeApplication", Barrier: []string{`^\(x/apps/keeper\.Keeper\)\.coinsFromUnstakedToStaked\(k, ctx, var:application, amount\)`},
			Target: CallTo(`^\(x/apps/keeper\.Keeper\)\.SetApplication\(`), TargetMustExist: true, Why: "the stake is escrowed before the staked record exists"},
		{Prop: P, ID: "stake.escrow-failure-writes-nothing", Fn: "(x/apps/keeper.Keeper).StakeApplication", Assume: []Lit{T(`^nonnil\(\(x/apps/keeper\.Keeper\)\.coinsFromUnstakedToStaked\(`)},
			Target: CallTo(`^\(x/apps/keeper\.Keeper\)\.SetApplication\(`), Why: "no staked record without the escrow"},
		{Prop: P, ID: "stake.relays-after-tokens", Fn: "(x/apps/keeper.Keeper).StakeApplication", Barrier: []string{`^\(x/apps/types\.Application\)\.AddStakedTokens\(var:application, amount\)`},
			Target: CallTo(`CalculateAppRelays\(`), TargetMustExist: true, Why: "the relay allowance is computed from the record that already carries the new stake"},
		{Prop: P, ID: "stake.relays-assigned", Fn: "(x/apps/keeper.Keeper).StakeApplication",
			Target: StoreTo(`^var:application\.MaxRelays$`).ExceptVal(`^\(x/apps/keeper\.Keeper\)\.CalculateAppRelays\(k, ctx, var:application\)$`), Why: "MaxRelays is what CalculateAppRelays says for this application"},
		{Prop: P, ID: "stake.relays-before-record", Fn: "(x/apps/keeper.Keeper).StakeApplication", Barrier: []string{`store:^var:application\.MaxRelays = `},
			Target: CallTo(`^\(x/apps/keeper\.Keeper\)\.SetApplication\(`), Why: "the stored record carries the allowance"},
		{Prop: P, ID: "relays.depend-on-stake", Fn: "(x/apps/keeper.Keeper).CalculateAppRelays",
			Barrier: []string{`^\(types\.BigInt\)\.ToDec\(application\.StakedTokens\)`}, Target: TargetAnyReturn(), Why: "the allowance is computed from the application's staked tokens"},
		// transfer validation
		{Prop: P, ID: "transfer.gate-upgrade", Fn: T1, Assume: []Lit{F(upg)}, Target: Success(), Why: "no transfer before the upgrade height"},
		{Prop: P, ID: "transfer.gate-feature", Fn: T1, Assume: []Lit{F(`^\(\*codec\.Codec\)\.IsAfterAppTransferUpgrade\(k\.Cdc, invoke types\.Ctx\.BlockHeight\(ctx\)\)$`)}, Target: Success(), Why: "no transfer before the transfer feature is active"},
		{Prop: P, ID: "transfer.signer-must-be-an-app", Fn: T1, Assume: []Lit{F(`^` + cur + `#1$`)}, Target: Success(), Why: "the signer's own application must exist"},
		{Prop: P, ID: "transfer.signer-app-must-be-staked", Fn: T1, Assume: []Lit{F(`^\(x/apps/types\.Application\)\.IsStaked\(` + cur + `#0\)$`)}, Target: Success(), Why: "only a staked application can be transferred"},
		{Prop: P, ID: "transfer.target-must-be-free", Fn: T1, Assume: []Lit{T(`^\(x/apps/keeper\.Keeper\)\.GetApplication\(k, ctx, invoke crypto\.PublicKey\.Address\(msg\.PubKey\)\)#1$`)}, Target: Success(), Why: "the new key must not already be an application"},
		{Prop: P, ID: "transfer.key-type", Fn: T1, Assume: []Lit{T(`^nonnil\(x/apps/keeper\.ensurePubKeyTypeSupported\(ctx, msg\.PubKey, `)}, Target: Success(), Why: "the new key type must be supported"},
		{Prop: P, ID: "transfer.returns-signers-app", Fn: T1, Assume: []Lit{T(upg), T(`IsAfterAppTransferUpgrade`), T(`^` + cur + `#1$`), T(`^\(x/apps/types\.Application\)\.IsStaked\(` + cur + `#0\)$`), F(`^nonnil\(x/apps/keeper\.ensurePubKeyTypeSupported\(`), F(`GetApplication\(k, ctx, invoke crypto\.PublicKey\.Address\(msg\.PubKey\)\)#1$`)},
			Target: RetNotMatch(0, `^`+cur+`#0$`), Why: "the record to transfer is the signer's"},
		{Prop: P, ID: "transfer.lookups", Fn: T1, Target: CallTo(`GetApplication\(`).Except(`^` + cur + `$|^\(x/apps/keeper\.Keeper\)\.GetApplication\(k, ctx, invoke crypto\.PublicKey\.Address\(msg\.PubKey\)\)$`), Why: "only the signer's and the target's addresses are consulted"},
		// transfer execution
		{Prop: P, ID: "transfer.new-record-is-old-record", Fn: "(x/apps/keeper.Keeper).TransferApplication",
			Target: StoreTo(`^&var:newApp$`).ExceptVal(`^\(x/apps/types\.Application\)\.UpdateStatus\(curApp, 2\)$`), Why: "the new record inherits every field (stake, allowance, chains) of the current one, with status staked"},
		{Prop: P, ID: "transfer.only-key-and-address-change", Fn: "(x/apps/keeper.Keeper).TransferApplication",
			Target: StoreTo(`^var:newApp\.`).Except(`^var:newApp\.(Address|PublicKey)$`), Why: "nothing but the key and the address is replaced"},
		{Prop: P, ID: "transfer.address-of-new-key", Fn: "(x/apps/keeper.Keeper).TransferApplication",
			Target: StoreTo(`^var:newApp\.Address$`).ExceptVal(`^invoke crypto\.PublicKey\.Address\(newAppPubKey\)$`), Why: "the new address is the new key's address"},
		{Prop: P, ID: "transfer.key-is-new-key", Fn: "(x/apps/keeper.Keeper).TransferApplication",
			Target: StoreTo(`^var:newApp\.PublicKey$`).ExceptVal(`^newAppPubKey$`), Why: "the new key is the one given"},
		{Prop: P, ID: "transfer.writes-new", Fn: "(x/apps/keeper.Keeper).TransferApplication", Barrier: []string{`^\(x/apps/keeper\.Keeper\)\.SetApplication\(k, ctx, var:newApp\)`}, Target: TargetAnyReturn(), Why: "the new record is stored"},
		{Prop: P, ID: "transfer.unindexes-old", Fn: "(x/apps/keeper.Keeper).TransferApplication", Barrier: []string{`^\(x/apps/keeper\.Keeper\)\.deleteApplicationFromStakingSet\(k, ctx, curApp\)`}, Target: TargetAnyReturn(), Why: "the old record leaves the staking set"},
		{Prop: P, ID: "transfer.deletes-old", Fn: "(x/apps/keeper.Keeper).TransferApplication", Barrier: []string{`^\(x/apps/keeper\.Keeper\)\.DeleteApplication\(k, ctx, curApp\.Address\)`}, Target: TargetAnyReturn(), Why: "the old record is removed"},
		{Prop: P, ID: "transfer.new-before-delete", Fn: "(x/apps/keeper.Keeper).TransferApplication", Barrier: []string{`^\(x/apps/keeper\.Keeper\)\.SetApplication\(k, ctx, var:newApp\)`}, Target: CallTo(`DeleteApplication\(|deleteApplicationFromStakingSet\(`), TargetMustExist: true, Why: "the staking-set entry written for the new record is not the one deleted: the old entry is removed after the new one exists under a different address"},
		// handler
		{Prop: P, ID: "handler.transfer-only-if-valid", Fn: "x/apps.handleStake", Assume: []Lit{T(`^nonnil\(\(x/apps/keeper\.Keeper\)\.ValidateApplicationTransfer\(k, ctx, signer, msg\)#1\)$`)},
			Target: CallTo(`TransferApplication\(`), TargetMustExist: true, Why: "a transfer is executed only when its validation returned no error"},
		{Prop: P, ID: "handler.transfer-operands", Fn: "x/apps.handleStake",
			Target: CallTo(`^\(x/apps/keeper\.Keeper\)\.TransferApplication\(`).Except(`^\(x/apps/keeper\.Keeper\)\.TransferApplication\(k, ctx, \(x/apps/keeper\.Keeper\)\.ValidateApplicationTransfer\(k, ctx, signer, msg\)#0, msg\.PubKey\)$`), Why: "the record transferred is the validated one, to the message's key"},
		{Prop: P, ID: "handler.transfer-validated-with-tx-signer", Fn: "x/apps.handleStake",
			Target: CallTo(`ValidateApplicationTransfer\(`).Except(`^\(x/apps/keeper\.Keeper\)\.ValidateApplicationTransfer\(k, ctx, signer, msg\)$`), Why: "the transfer is authorised by the transaction's signer"},
		{Prop: P, ID: "handler.stake-only-if-valid", Fn: "x/apps.handleStake", Assume: []Lit{T(`^nonnil\(\(x/apps/keeper\.Keeper\)\.ValidateApplicationStaking\(`)},
			Target: CallTo(`^\(x/apps/keeper\.Keeper\)\.StakeApplication\(`), TargetMustExist: true, Why: "staking happens only after its validation returned no error"},
		{Prop: P, ID: "handler.validate-before-stake", Fn: "x/apps.handleStake", Barrier: []string{`^\(x/apps/keeper\.Keeper\)\.ValidateApplicationStaking\(`},
			Target: CallTo(`^\(x/apps/keeper\.Keeper\)\.StakeApplication\(`), Why: "no stake without validation"},
		{Prop: P, ID: "handler.stake-error-fails", Fn: "x/apps.handleStake", Assume: []Lit{T(`^nonnil\(\(x/apps/keeper\.Keeper\)\.ValidateApplicationTransfer\(k, ctx, signer, msg\)#1\)$`), T(`^nonnil\(\(x/apps/keeper\.Keeper\)\.StakeApplication\(`)}, Target: Success(), Why: "a failed stake fails the message"},
	}
	out := c.Rows(rows)
	out = append(out,
		c.sameOperand(P, "handler.same-application-validated-and-staked", "x/apps.handleStake", `^\(x/apps/keeper\.Keeper\)\.ValidateApplicationStaking\(`, 2, `^\(x/apps/keeper\.Keeper\)\.StakeApplication\(`, 2, "the application staked is the application validated"),
		c.sameOperand(P, "handler.same-amount-validated-and-staked", "x/apps.handleStake", `^\(x/apps/keeper\.Keeper\)\.ValidateApplicationStaking\(`, 3, `^\(x/apps/keeper\.Keeper\)\.StakeApplication\(`, 3, "the amount staked is the amount validated"),
		c.whoMayCall(P, "transfer.callers", "(x/apps/keeper.Keeper).TransferApplication", []string{`x/apps\.handleStake`}, "applications are transferred only by the stake handler"),
		c.whoMayCall(P, "stake.callers", "(x/apps/keeper.Keeper).StakeApplication", []string{`x/apps\.handleStake`}, "applications are staked only by the stake handler"),
	)
	out = append(out, appsAllowance(c, P)...)
	out = append(out, appsStakingSet(c, P)...)
	return out
}
