package main

import "golang.org/x/tools/go/ssa"

// C34 evidence exactness under concurrency, C35 relay authorization.

const (
	fnRelayVal    = "(*x/pocketcore/types.Relay).Validate"
	fnProofLocal  = "(x/pocketcore/types.RelayProof).ValidateLocal"
	fnProofBasic  = "(x/pocketcore/types.RelayProof).ValidateBasic"
	fnAATVal      = "(x/pocketcore/types.AAT).Validate"
	fnAATSig      = "(x/pocketcore/types.AAT).ValidateSignature"
	fnSigVerify   = "x/pocketcore/types.SignatureVerification"
	fnHandleRelay = "(x/pocketcore/keeper.Keeper).HandleRelay"
	rSessCtx      = `invoke types\.Ctx\.PrevCtx\(ctx, sessionBlockHeight\)#0`
	rApp          = `x/pocketcore/types\.GetAppFromPublicKey\(` + rSessCtx + `, appsKeeper, r\.Proof\.Token\.ApplicationPublicKey\)`
	rTotal        = `x/pocketcore/types\.GetTotalProofs\((var:)?header, 1, .*, servicerNode\.EvidenceStore\)`
	relayValidate = `^\(\*x/pocketcore/types\.Relay\)\.Validate\(&var:relay, ctx, k\.posKeeper, k\.appKeeper, k, ` + kK + `GetHostedBlockchains\(k\), (var:)?relay\.Proof\.SessionBlockHeight, .*\)`
)

func init() {
	register(&Prop{
		ID: "C35", Title: "Relays are served only with valid client and application authorization",
		Technique: "pruned-CFG reachability (rejection rows) through the validation chain, guarded-effect rows in HandleRelay",
		DesignRef: "DESIGN.md §3 C35, Appendix A.4",
		Explanation: "Relay.Validate rejects an empty payload, invalid meta (height tolerance), a request hash that is not the payload's, an unhosted chain, a session height other than the dispatcher's, an unknown application, an app over the chain limit (gate), sealed evidence, a duplicate proof, over-service, a proof that fails ValidateLocal, and a servicer outside the session; ValidateLocal requires ValidateBasic, the servicer key to be this node's and the proof's chain/height to match; ValidateBasic requires a valid token and the client's signature over the proof hash; AAT.Validate requires version, message and the application's signature; SignatureVerification accepts only when VerifyBytes holds; HandleRelay stores, executes and signs only after the height-tolerance check and Validate succeeded.",
		NotDecided:  "signature validity as values; that the application is staked (only its existence at session start is checked by the code).",
		MinObl:      30,
		Run:         runC35,
	})
	register(&Prop{
		ID: "C34", Title: "Stored relay evidence stays exact under concurrent relays",
		Technique: "lock-scope analysis: atomic sections on CacheStorage discovered from Lock/defer Unlock, transitive reader/writer summaries, split read-modify-write detection with data/control dependence; ordering rows in HandleRelay",
		DesignRef: "DESIGN.md §3 C34, §2.3 E5",
		Explanation: "The evidence store's state is only touched inside CacheStorage's lock-taking methods; no function reads evidence (count, uniqueness, seal state) in one critical section and writes a dependent value in another without a lock held across both (the standard necessary condition against lost updates and stale checks); in HandleRelay the proof is stored before the relay is executed and signed; Set refuses sealed objects under the lock; Seal marks before it stores.",
		NotDecided:  "interleavings as such; goroutine scheduling; the bloom filter's false-positive behaviour.",
		MinObl:      6,
		Run:         runC34,
	})
}

func runC35(c *Ctx) []Obligation {
	P := "C35"
	rej := func(id, fn string, why string, lits ...Lit) Row {
		return Row{Prop: P, ID: id, Fn: fn, Assume: lits, Target: Success(), Why: why}
	}
	rows := []Row{
		rej("relay.payload", fnRelayVal, "an invalid payload is refused", T(`^nonnil\(\(x/pocketcore/types\.Payload\)\.Validate\(r\.Payload\)\)$`)),
		rej("relay.meta", fnRelayVal, "invalid meta (block height outside tolerance) is refused", T(`^nonnil\(\(x/pocketcore/types\.RelayMeta\)\.Validate\(r\.Meta, ctx\)\)$`)),
		rej("relay.request-hash", fnRelayVal, "the proof's request hash must be the hash of this payload and meta", F(`^eq\(\(x/pocketcore/types\.Relay\)\.RequestHashString\(r\), r\.Proof\.RequestHash\)$`)),
		rej("relay.hosted-chain", fnRelayVal, "the chain must be hosted by this node", F(`^\(\*x/pocketcore/types\.HostedBlockchains\)\.Contains\(hb, r\.Proof\.Blockchain\)$`)),
		rej("relay.session-height", fnRelayVal, "the proof's session height must be the one being validated", F(`^eq\(r\.Proof\.SessionBlockHeight, sessionBlockHeight\)$`)),
		rej("relay.session-ctx", fnRelayVal, "the session state must be loadable", T(`^nonnil\(invoke types\.Ctx\.PrevCtx\(ctx, sessionBlockHeight\)#1\)$`)),
		rej("relay.app-found", fnRelayVal, "the token's application must exist at session start", F(`^`+rApp+`#1$`)),
		rej("relay.chains-limit", fnRelayVal, "applications over the chain limit are refused (gate active)", T(`IsAfterEnforceMaxChainsUpgrade\(`), T(`^lt\(invoke x/pocketcore/types\.AppsKeeper\.MaxChains\(appsKeeper, `+rSessCtx+`\), `)),
		rej("relay.sealed", fnRelayVal, "sealed evidence accepts no more relays", T(`^\(\*x/pocketcore/types\.CacheStorage\)\.IsSealed\(servicerNode\.EvidenceStore, `+rTotal+`#0\)$`)),
		rej("relay.unique", fnRelayVal, "a relay proof already recorded is refused", F(`^x/pocketcore/types\.IsUniqueProof\(r\.Proof, `+rTotal+`#0\)$`)),
		rej("relay.over-service", fnRelayVal, "no more relays than the application allows this node", F(`^LT<types\.BigInt>\(types\.NewInt\(`+rTotal+`#1\), x/pocketcore/types\.MaxPossibleRelays\(`)),
		rej("relay.proof-local", fnRelayVal, "the relay proof must validate locally for this servicer", T(`^nonnil\(\(x/pocketcore/types\.RelayProof\)\.ValidateLocal\(r\.Proof, invoke x/apps/exported\.ApplicationI\.GetChains\(`+rApp+`#0\), .*, sessionBlockHeight, \(\*x/pocketcore/types\.PocketNode\)\.GetAddress\(servicerNode\)\)\)$`)),
		rej("relay.session-membership", fnRelayVal, "the servicer must be in the session for this app and chain", T(`^nonnil\(\(x/pocketcore/types\.Session\)\.Validate\(.*, \(\*x/pocketcore/types\.PocketNode\)\.GetAddress\(servicerNode\), `+rApp+`#0, `)),
		{Prop: P, ID: "relay.must-validate-proof", Fn: fnRelayVal,
			Barrier: []string{`^\(x/pocketcore/types\.RelayProof\)\.ValidateLocal\(r\.Proof, `}, Target: Success(), Why: "every accepted relay passed RelayProof.ValidateLocal"},
		{Prop: P, ID: "relay.must-validate-session", Fn: fnRelayVal,
			Barrier: []string{`^\(x/pocketcore/types\.Session\)\.Validate\(.*, \(\*x/pocketcore/types\.PocketNode\)\.GetAddress\(servicerNode\), ` + rApp + `#0, `}, Target: Success(), Why: "every accepted relay passed Session.Validate for this servicer"},
		rej("relay.session-generation", fnRelayVal, "a session that cannot be generated rejects", F(`^x/pocketcore/types\.GetSession\((var:)?header, servicerNode\.SessionStore\)#1$`), T(`^nonnil\(x/pocketcore/types\.NewSession\(`)),
		// ValidateLocal
		rej("local.basic", fnProofLocal, "basic validation (token and client signature) is required", T(`^nonnil\(\(x/pocketcore/types\.RelayProof\)\.ValidateBasic\(rp\)\)$`)),
		rej("local.servicer-key-decodes", fnProofLocal, "the servicer key must decode", T(`^nonnil\(crypto\.NewPublicKey\(rp\.ServicerPubKey\)#1\)$`)),
		rej("local.servicer-is-this-node", fnProofLocal, "the proof must name this node as servicer", F(`^\(types\.Address\)\.Equals\(invoke crypto\.PublicKey\.Address\(crypto\.NewPublicKey\(rp\.ServicerPubKey\)#0\), expectedServicerAddr\)$`)),
		rej("local.chain-and-height", fnProofLocal, "chain and session height must match the application and session", T(`^nonnil\(\(x/pocketcore/types\.RelayProof\)\.Validate\(rp, appSupportedBlockchains, sessionNodeCount, sessionBlockHeight\)\)$`)),
		rej("proof.height-matches", "(x/pocketcore/types.RelayProof).Validate", "the proof's session height must equal the expected one", F(`^eq\(rp\.SessionBlockHeight, sessionBlockHeight\)$`)),
		rej("proof.chain-supported-by-app", "(x/pocketcore/types.RelayProof).Validate", "the chain must be one of the application's", F(`^phi:c1$`), F(`^eq\(.*rp\.Blockchain`)),
		// ValidateBasic
		rej("basic.token", fnProofBasic, "an invalid application token is refused", T(`^nonnil\(\(x/pocketcore/types\.AAT\)\.Validate\(rp\.Token\)\)$`)),
		{Prop: P, ID: "basic.client-signature", Fn: fnProofBasic,
			Barrier: []string{`^x/pocketcore/types\.SignatureVerification\(rp\.Token\.ClientPublicKey, \(x/pocketcore/types\.RelayProof\)\.HashString\(rp\), rp\.Signature\)$`}, Target: Success(),
			Why: "acceptance is exactly the verdict of SignatureVerification(token's client key, proof hash, proof signature)"},
		{Prop: P, ID: "basic.result-is-signature-verdict", Fn: fnProofBasic,
			Assume: []Lit{F(`^lt\(`), F(`^nonnil\(`)},
			Target: RetNotMatch(0, `^x/pocketcore/types\.SignatureVerification\(rp\.Token\.ClientPublicKey, \(x/pocketcore/types\.RelayProof\)\.HashString\(rp\), rp\.Signature\)$`),
			Why:    "when all earlier checks pass the result returned is the signature verdict itself"},
		rej("basic.servicer-key-format", fnProofBasic, "malformed servicer key", T(`^nonnil\(x/pocketcore/types\.PubKeyVerification\(rp\.ServicerPubKey\)\)$`)),
		rej("basic.request-hash-format", fnProofBasic, "malformed request hash", T(`^nonnil\(x/pocketcore/types\.HashVerification\(rp\.RequestHash\)\)$`)),
		// AAT
		rej("aat.version", fnAATVal, "token version must be supported", T(`^nonnil\(\(x/pocketcore/types\.AAT\)\.ValidateVersion\(a\)\)$`)),
		rej("aat.message", fnAATVal, "token keys must be well-formed", T(`^nonnil\(\(x/pocketcore/types\.AAT\)\.ValidateMessage\(a\)\)$`)),
		rej("aat.signature", fnAATVal, "the application's signature over the token must verify", T(`^nonnil\(\(x/pocketcore/types\.AAT\)\.ValidateSignature\(a\)\)$`)),
		rej("aat.signature-check", fnAATSig, "ValidateSignature fails when SignatureVerification(app key, token hash, app signature) fails", T(`^nonnil\(x/pocketcore/types\.SignatureVerification\(a\.ApplicationPublicKey, \(x/pocketcore/types\.AAT\)\.HashString\(a\), a\.ApplicationSignature\)\)$`)),
		{Prop: P, ID: "aat.must-verify-signature", Fn: fnAATSig,
			Barrier: []string{`^x/pocketcore/types\.SignatureVerification\(a\.ApplicationPublicKey, \(x/pocketcore/types\.AAT\)\.HashString\(a\), a\.ApplicationSignature\)$`}, Target: Success(),
			Why: "every accepted token had its application signature checked"},
		// SignatureVerification
		rej("sig.verify", fnSigVerify, "a signature that does not verify is refused", F(`^invoke crypto\.PublicKey\.VerifyBytes\(crypto\.NewPublicKey\(publicKeyHex\)#0, encoding/hex\.DecodeString\(msgHex\)#0, encoding/hex\.DecodeString\(sigHex\)#0\)$`)),
		rej("sig.size", fnSigVerify, "a signature of the wrong size is refused", F(`^eq\(64, builtin\.len\(encoding/hex\.DecodeString\(sigHex\)#0\)\)$`)),
		rej("sig.key-decodes", fnSigVerify, "an undecodable key is refused", T(`^nonnil\(crypto\.NewPublicKey\(publicKeyHex\)#1\)$`)),
		{Prop: P, ID: "sig.must-verify", Fn: fnSigVerify,
			Barrier: []string{`^invoke crypto\.PublicKey\.VerifyBytes\(crypto\.NewPublicKey\(publicKeyHex\)#0, encoding/hex\.DecodeString\(msgHex\)#0, encoding/hex\.DecodeString\(sigHex\)#0\)$`}, Target: Success(),
			Why: "every acceptance passed VerifyBytes(key, message, signature) with the arguments in that order"},
		// HandleRelay
		{Prop: P, ID: "handle.tolerance-gates", Fn: fnHandleRelay,
			Assume: []Lit{F(`^` + kK + `IsProofSessionHeightWithinTolerance\(k, ctx, (var:)?relay\.Proof\.SessionBlockHeight\)$`)},
			Target: CallTo(`\.Validate\(|\.Store\(|\.Execute\(|PrivateKey\.Sign\(`), Why: "a relay for a session outside the height tolerance is neither validated, stored, executed nor signed"},
		{Prop: P, ID: "handle.validate-gates", Fn: fnHandleRelay,
			Assume: []Lit{T(`^nonnil\(` + relayValidate[1:] + `#1\)$`)},
			Target: CallTo(`\.Store\(|\.Execute\(|PrivateKey\.Sign\(`), Why: "an invalid relay is neither stored, executed nor signed"},
		{Prop: P, ID: "handle.must-validate", Fn: fnHandleRelay,
			Barrier: []string{relayValidate + `$`}, Target: CallTo(`\.Store\(|\.Execute\(|PrivateKey\.Sign\(`), TargetMustExist: true,
			Why: "every served relay passed Relay.Validate against this node's keepers and hosted chains"},
	}
	out := c.Rows(rows)
	// the session a relay is judged against is the one derived from the application key exactly as spelled in
	// the token (the session key hashes that string): the membership checks compare with that exact spelling
	out = append(out, c.Rows([]Row{
		{Prop: P, ID: "session.app-key-exact-spelling", Fn: "(x/pocketcore/types.Session).Validate",
			Assume: []Lit{F(`^eq\(invoke crypto\.PublicKey\.RawString\(invoke x/apps/exported\.ApplicationI\.GetPublicKey\(app\)\), s\.SessionHeader\.ApplicationPubKey\)$`)}, Target: Success(),
			Why: "a header whose application key is not, character for character, the staked application's canonical key is refused (a case-folded or otherwise re-spelled key would name a different session with different servicers)"},
		{Prop: P, ID: "session.node-must-be-member", Fn: "(x/pocketcore/types.Session).Validate",
			Assume: []Lit{F(`^\(x/pocketcore/types\.SessionNodes\)\.Contains\(s\.SessionNodes, node\)$`)}, Target: Success(), Why: "a node that is not in the session does not serve it"},
	})...)
	return out
}

func runC34(c *Ctx) []Obligation {
	P := "C34"
	sp := lockSpec{PkgPath: "x/pocketcore/types", Type: "CacheStorage", Mutex: "l",
		MutatorRe: `^\(\*types\.Cache\)\.(Add|Remove|Purge)\(|^invoke github\.com/tendermint/tm-db\.DB\.(Set|SetSync|Delete|DeleteSync)\(|^\(\*sync\.Map\)\.(Store|Delete)\(|^invoke github\.com/tendermint/tm-db\.Batch\.`,
		Scope:     []string{"/x/pocketcore/types", "/x/pocketcore/keeper"},
		ObjectRe:  `EvidenceStore|^p\d+$|GlobalEvidenceCache|^\?$`}
	all := c.splitRMW(P, "no-split-rmw", sp,
		[]string{"x/pocketcore/types.SetProof", "(x/pocketcore/keeper.Keeper).HandleRelay"},
		"the read (count / uniqueness / seal state) and the write-back must share one critical section")
	// the property is about concurrently served relays: keep the functions on
	// the relay-serving path (repo-scoped closure of HandleRelay)
	var out []Obligation
	if hr := c.A.Fn(fnHandleRelay); hr != nil {
		onPath := c.A.Reach([]*ssa.Function{hr}, nil)
		names := map[string]bool{}
		for f := range onPath {
			names[FnName(f)] = true
		}
		for _, o := range all {
			if names[o.Construct] || o.Status != "OK" && o.Status != "VIOLATION" {
				out = append(out, o)
			}
		}
	}
	rows := []Row{
		{Prop: P, ID: "handle.store-before-execute", Fn: fnHandleRelay,
			Barrier: []string{`^\(x/pocketcore/types\.RelayProof\)\.Store\((var:)?relay\.Proof, `}, Target: CallTo(`\.Execute\(|PrivateKey\.Sign\(`), TargetMustExist: true,
			Why: "the proof is recorded before the relay is executed and the response signed, so every signed response has its proof stored"},
		{Prop: P, ID: "set.sealed-refused-under-lock", Fn: "(*x/pocketcore/types.CacheStorage).Set",
			Assume: []Lit{T(`#1$`), T(`^invoke x/pocketcore/types\.CacheObject\.IsSealable\(`), T(`^\(\*x/pocketcore/types\.CacheStorage\)\.IsSealedWithoutLock\(`)},
			Target: CallTo(`SetWithoutLockAndSealCheck\(`), Why: "Set does not overwrite a sealed object"},
		{Prop: P, ID: "set.locks-first", Fn: "(*x/pocketcore/types.CacheStorage).Set",
			Barrier: []string{`^\(\*sync\.Mutex\)\.Lock\(cs\.l\)$`}, Target: CallTo(`GetWithoutLock\(|SetWithoutLockAndSealCheck\(|IsSealedWithoutLock\(`), TargetMustExist: true,
			Why: "the seal check and the write happen under the store's lock"},
		{Prop: P, ID: "seal.marks-before-store", Fn: "(*x/pocketcore/types.CacheStorage).Seal",
			Barrier: []string{`^\(\*sync\.Map\)\.Store\(cs\.SealMap, `}, Target: CallTo(`SetWithoutLockAndSealCheck\(`), TargetMustExist: true,
			Why: "an object is marked sealed before its final value is stored"},
	}
	// the store step is what keeps relays that raced past validation within the allowance: evidence that
	// already holds max proofs is sealed when it is fetched for writing, and Set drops writes to sealed objects
	const getE = `\(\*x/pocketcore/types\.CacheStorage\)\.Get\(storage, x/pocketcore/types\.KeyForEvidence\(var:header, evidenceType\)#0, var:evidence\)`
	rows = append(rows,
		Row{Prop: P, ID: "getevidence.full-evidence-is-sealed", Fn: "x/pocketcore/types.GetEvidence",
			Assume: []Lit{F(`^nonnil\(x/pocketcore/types\.KeyForEvidence\(var:header, evidenceType\)#1\)$`), T(`^` + getE + `#1$`), T(`^assert<x/pocketcore/types\.Evidence>\(` + getE + `#0\)#1$`),
				F(`^\(\*x/pocketcore/types\.CacheStorage\)\.IsSealed\(storage, var:evidence\)$`), F(`^\(types\.BigInt\)\.Equal\(max, types\.ZeroInt\(\)\)$`),
				F(`^lt\(var:evidence\.NumOfProofs, \(types\.BigInt\)\.Int64\(max\)\)$`)},
			Barrier: []string{`^x/pocketcore/types\.SealEvidence\(var:evidence, storage\)`}, Target: TargetAnyReturn(),
			Why: "evidence found with NumOfProofs >= max (max given) is sealed before it is handed out, exactly at the limit included"},
		Row{Prop: P, ID: "getevidence.below-limit-not-sealed", Fn: "x/pocketcore/types.GetEvidence",
			Assume: []Lit{T(`^lt\(var:evidence\.NumOfProofs, \(types\.BigInt\)\.Int64\(max\)\)$`)},
			Target: CallTo(`^x/pocketcore/types\.SealEvidence\(`), TargetMustExist: true, Why: "evidence below the allowance stays open"},
		Row{Prop: P, ID: "setproof.fetches-with-the-allowance", Fn: "x/pocketcore/types.SetProof",
			Target: CallTo(`^x/pocketcore/types\.GetEvidence\(`).Except(`^x/pocketcore/types\.GetEvidence\(header, evidenceType, max, evidenceStore\)$`),
			Why:    "the store step fetches the evidence with the caller's allowance (so that the seal-at-limit applies)"},
	)
	out = append(out, c.Rows(rows)...)
	// (a field-level "accessed only under the lock" rule was tried and dropped:
	// the DB handle is itself concurrency-safe and the one-off codec conversion
	// runs single-threaded, so the rule over-approximated — see DESIGN.md)
	_ = c.lockDiscipline
	out = append(out, proofIsRecorded(c, P)...)
	return out
}

// lockDiscipline: the protected fields of CacheStorage are accessed only by
// atomic sections, or by lock-free helpers all of whose callers are atomic
// sections / other such helpers, or by constructors.
func (c *Ctx) lockDiscipline(P string, sp lockSpec) Obligation {
	o := c.obl(P, "lock-discipline", sp.PkgPath+"."+sp.Type, "Cache and DB of "+sp.Type+" are touched only with the mutex held: by lock-taking methods, or by *WithoutLock helpers reached only from them")
	r := c.e5Analyse(sp)
	helper := map[string]bool{}
	for _, field := range []string{"Cache", "DB"} {
		for _, a := range c.fieldAccessors(sp.PkgPath, sp.Type, field) {
			o.Facts += a.Reads + a.Writes
			if _, ok := r.sections[a.Fn]; ok {
				continue
			}
			helper[FnName(a.Fn)] = true
		}
	}
	// iterate: a helper is fine if each of its callers is a section or a fine helper
	allowedEntry := map[string]bool{
		"(*x/pocketcore/types.CacheStorage).Init": true, // constructor: object not shared yet
	}
	for name := range helper {
		if allowedEntry[name] {
			continue
		}
		f := c.A.FnOpt(name)
		if f == nil {
			continue
		}
		for _, cl := range c.A.Callers(f) {
			if _, ok := r.sections[cl]; ok {
				continue
			}
			if helper[FnName(cl)] {
				continue
			}
			o.fail(c.A.FnPos(cl), "%s touches %s state through %s without holding the lock", FnName(cl), sp.Type, name)
		}
	}
	return *o
}
