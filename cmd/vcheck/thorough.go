package main

import (
	"fmt"
	"sort"
	"strings"
)

// Thorough tier: the same rule tables evaluated two more times,
//  (1) on a second load of the tree compiled for GOARCH=arm64 (other build-tagged
//      files, other word size): every obligation must come out the same;
//  (2) on the class-hierarchy call graph instead of VTA: CHA has every edge VTA
//      has and more, so an obligation that holds on CHA holds a fortiori; one that
//      only holds thanks to VTA's pruning is listed for audit (who-may-call,
//      no-reach and determinism-closure rules are the ones that can differ).
// A difference under (1) is a violation of the property on that platform; a
// difference under (2) is reported as information in the evidence, never as a verdict,
// because VTA is the graph of record and CHA's extra edges are spurious by construction
// for the cases it cannot resolve.

func runAll(c *Ctx, ids []string) map[string][]Obligation {
	out := map[string][]Obligation{}
	for _, id := range ids {
		p := registry[id]
		func() {
			defer func() {
				if r := recover(); r != nil {
					o := c.obl(id, "thorough.panic", id, "evaluation completes")
					o.unresolved("panic: %v", r)
					out[id] = []Obligation{*o}
				}
			}()
			out[id] = p.Run(c)
		}()
	}
	return out
}

func oblKey(o Obligation) string { return o.Rule + "|" + o.Construct }

func thoroughExtras(repo string, base *Analysis, rr *RunResult, ids []string) {
	// (1) GOARCH=arm64
	aArch, err := Load(repo, "arm64")
	var resArch map[string][]Obligation
	if err == nil {
		resArch = runAll(&Ctx{A: aArch, E1: newE1(aArch), Tier: "thorough"}, ids)
	}
	// (2) CHA
	acha := base.WithCHA()
	resCHA := runAll(&Ctx{A: acha, E1: newE1(acha), Tier: "thorough"}, ids)

	for _, id := range ids {
		pr := rr.Props[id]
		if pr == nil {
			continue
		}
		baseSt := map[string]string{}
		for _, o := range pr.Obligations {
			baseSt[oblKey(o)] = o.Status
		}
		// --- 386
		o := Obligation{Prop: id, Rule: "thorough.goarch-arm64-agrees", Construct: "GOARCH=arm64",
			Desc: "every obligation of this property has the same status when the tree is loaded for GOARCH=arm64 (the other supported 64-bit target: other build-tagged and assembly-backed files; the tree does not build for 32-bit targets) as for the host architecture"}
		o.set(OK)
		if err != nil {
			o.set(Unresolved)
			o.Detail = "the tree does not load for GOARCH=arm64: " + firstLine(err.Error())
		} else {
			var diffs []string
			seen := map[string]bool{}
			for _, x := range resArch[id] {
				k := oblKey(x)
				seen[k] = true
				o.Facts++
				if b, ok := baseSt[k]; !ok {
					diffs = append(diffs, fmt.Sprintf("%s only exists on arm64 (%s)", k, x.Status))
				} else if b != x.Status {
					diffs = append(diffs, fmt.Sprintf("%s is %s on the host architecture but %s on arm64: %s", k, b, x.Status, x.Detail))
				}
			}
			for k := range baseSt {
				if !seen[k] {
					diffs = append(diffs, k+" does not exist on arm64")
				}
			}
			if len(diffs) > 0 {
				sort.Strings(diffs)
				o.set(Violation)
				o.Detail = strings.Join(diffs, "; ")
			}
		}
		pr.Obligations = append(pr.Obligations, o)
		// --- CHA audit (information only)
		a := Obligation{Prop: id, Rule: "thorough.cha-audit", Construct: "CHA",
			Desc: "audit: obligations whose status on the class-hierarchy call graph differs from their status on the VTA graph of record (information, not a verdict)"}
		a.set(OK)
		var diffs []string
		for _, x := range resCHA[id] {
			a.Facts++
			if b, ok := baseSt[oblKey(x)]; ok && b != x.Status {
				diffs = append(diffs, fmt.Sprintf("%s: VTA %s, CHA %s", oblKey(x), b, x.Status))
			}
		}
		sort.Strings(diffs)
		if len(diffs) > 0 {
			a.Detail = fmt.Sprintf("%d obligations hold on VTA only: %s", len(diffs), strings.Join(diffs, "; "))
			if len(a.Detail) > 1500 {
				a.Detail = a.Detail[:1500] + " …"
			}
		} else {
			a.Detail = "no obligation depends on VTA's pruning: all hold on CHA as well"
		}
		pr.Obligations = append(pr.Obligations, a)
	}
}

func firstLine(s string) string {
	if i := strings.IndexByte(s, '\n'); i >= 0 {
		return s[:i]
	}
	return s
}
