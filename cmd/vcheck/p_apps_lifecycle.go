package main

import (
	"regexp"

	"golang.org/x/tools/go/ssa"
)

// Rows on the application life-cycle functions (stake / edit-stake / begin-unstake / finish-unstake),
// written after the mutation run showed them uncovered. Shared by the properties they serve.

const kAp = `\(x/apps/keeper\.Keeper\)\.`

// appsEditRouting (C23, C20): a stake message for a staked application edits the stored record — the
// stored record is what is edited, the message supplies the new values.
func appsEditRouting(c *Ctx, P string) []Obligation {
	cur := kAp + `GetApplication\(k, ctx, var:application\.Address\)`
	return c.Rows([]Row{
		{Prop: P, ID: "apps.stake.edit-takes-stored-record-first", Fn: "(x/apps/keeper.Keeper).StakeApplication",
			Target: CallTo(`^` + kAp + `EditStakeApplication\(`).Except(`^` + kAp + `EditStakeApplication\(k, ctx, ` + cur + `#0, var:application, amount\)$`),
			Why:    "edit-stake is given the stored record as the application to edit and the message's application as the update: address, public key, jailed flag and status stay those of the record"},
		{Prop: P, ID: "apps.stake.edit-only-for-staked-found", Fn: "(x/apps/keeper.Keeper).StakeApplication", Assume: []Lit{F(`^` + cur + `#1$`)},
			Target: CallTo(`EditStakeApplication\(`), Why: "no record, no edit"},
		{Prop: P, ID: "apps.stake.edit-only-for-staked", Fn: "(x/apps/keeper.Keeper).StakeApplication", Assume: []Lit{T(`^` + cur + `#1$`), F(`^\(x/apps/types\.Application\)\.IsStaked\(` + cur + `#0\)$`)},
			Target: CallTo(`EditStakeApplication\(`), Why: "a record that is not staked is not edited (it is staked afresh)"},
		{Prop: P, ID: "apps.stake.staked-record-is-edited", Fn: "(x/apps/keeper.Keeper).StakeApplication", Assume: []Lit{T(`^invoke types\.Ctx\.IsAfterUpgradeHeight\(ctx\)$`), T(`^` + cur + `#1$`), T(`^\(x/apps/types\.Application\)\.IsStaked\(` + cur + `#0\)$`)},
			Target: CallTo(`coinsFromUnstakedToStaked\(|` + kAp + `SetApplication\(`), Why: "a staked record never goes down the fresh-stake path (full amount into the pool, record overwritten)"},
		{Prop: P, ID: "apps.edit.only-chains-taken-from-update", Fn: "(x/apps/keeper.Keeper).EditStakeApplication",
			Target: StoreTo(`^var:application\.\w+$`).Except(`^var:application\.(Chains|MaxRelays)$`), Why: "of the record's fields an edit writes only the chains and the allowance (the stake through AddStakedTokens)"},
		{Prop: P, ID: "apps.edit.stored-record-is-the-edited-one", Fn: "(x/apps/keeper.Keeper).EditStakeApplication",
			Target: CallTo(`^` + kAp + `SetApplication\(`).Except(`^` + kAp + `SetApplication\(k, ctx, var:application\)$`), Why: "what is stored is the edited record"},
	})
}

// appsAllowance (C28): the relay allowance follows the stake on every path that changes the stake.
func appsAllowance(c *Ctx, P string) []Obligation {
	calc := `store:^var:application\.MaxRelays = ` + kAp + `CalculateAppRelays\(k, ctx, var:application\)$`
	return c.Rows([]Row{
		{Prop: P, ID: "allowance.stake-recomputes", Fn: "(x/apps/keeper.Keeper).StakeApplication",
			Barrier: []string{calc}, Target: CallTo(`^` + kAp + `SetApplication\(`), TargetMustExist: true, Why: "a newly staked application is stored with the allowance computed from its stake"},
		{Prop: P, ID: "allowance.edit-recomputes-after-bump", Fn: "(x/apps/keeper.Keeper).EditStakeApplication", From: `^\(x/apps/types\.Application\)\.AddStakedTokens\(`,
			Barrier: []string{calc}, Target: CallTo(`^` + kAp + `SetApplication\(`), TargetMustExist: true, Why: "after a stake bump the allowance is recomputed before the record is stored"},
		{Prop: P, ID: "allowance.computed-after-the-stake-changed", Fn: "(x/apps/keeper.Keeper).EditStakeApplication",
			Barrier: []string{`^\(x/apps/types\.Application\)\.AddStakedTokens\(`}, Target: CallTo(`CalculateAppRelays\(`), TargetMustExist: true, Why: "the allowance is computed from the new stake, not the old"},
		{Prop: P, ID: "allowance.finish-zeroes", Fn: "(x/apps/keeper.Keeper).FinishUnstakingApplication",
			Barrier: []string{`store:^var:application\.MaxRelays = types\.ZeroInt\(\)$`}, Target: CallTo(`^` + kAp + `SetApplication\(`), TargetMustExist: true, Why: "an unstaked application has no allowance"},
	})
}

// appsStakingSet (C28): the set that MaxApplications is counted over holds exactly the staked applications.
func appsStakingSet(c *Ctx, P string) []Obligation {
	out := c.Rows([]Row{
		{Prop: P, ID: "stakingset.edit-removes-old-entry-first", Fn: "(x/apps/keeper.Keeper).EditStakeApplication",
			Barrier: []string{`^` + kAp + `deleteApplicationFromStakingSet\(k, ctx, var:origAppForDeletion\)`}, Target: CallTo(`SetStakedApplication\(`), TargetMustExist: true, Why: "the entry keyed by the old stake is removed before the one keyed by the new stake is written"},
		{Prop: P, ID: "stakingset.edit-reinserts", Fn: "(x/apps/keeper.Keeper).EditStakeApplication",
			Barrier: []string{`^` + kAp + `SetStakedApplication\(k, ctx, var:application\)`}, Target: Success(), Why: "every successful edit leaves the application in the staking set"},
		{Prop: P, ID: "stakingset.begin-unstake-leaves", Fn: "(x/apps/keeper.Keeper).BeginUnstakingApplication",
			Barrier: []string{`^` + kAp + `deleteApplicationFromStakingSet\(k, ctx, var:application\)`}, Target: TargetAnyReturn(), Why: "an application that begins unstaking leaves the staking set (it no longer counts against MaxApplications)"},
	})
	out = append(out,
		c.whoMayCall(P, "stakingset.writers", "(x/apps/keeper.Keeper).SetStakedApplication", []string{kAp + `(SetApplication|EditStakeApplication)`, `x/apps\.InitGenesis`}, "the staking set is written only while storing a record, on edit and at genesis"),
	)
	return out
}

// appsUnstakeLifecycle (C24): begin-unstake marks the record unstaking with a completion time and stores it;
// finishing takes it out of the queue, pays, zeroes the record and stores it; the handler really begins.
func appsUnstakeLifecycle(c *Ctx, P string) []Obligation {
	return c.Rows([]Row{
		{Prop: P, ID: "apps.begin.handler-begins", Fn: "x/apps.handleMsgBeginUnstake",
			Barrier: []string{`^` + kAp + `BeginUnstakingApplication\(k, ctx, `}, Target: Success(), Why: "a begin-unstake message that is reported successful has begun the unstaking"},
		{Prop: P, ID: "apps.begin.status-unstaking", Fn: "(x/apps/keeper.Keeper).BeginUnstakingApplication",
			Barrier: []string{`^\(x/apps/types\.Application\)\.UpdateStatus\(var:application, 1\)`}, Target: CallTo(`^` + kAp + `SetApplication\(`), TargetMustExist: true, Why: "the record stored is marked unstaking"},
		{Prop: P, ID: "apps.begin.completion-time-from-block-time", Fn: "(x/apps/keeper.Keeper).BeginUnstakingApplication",
			Target: StoreTo(`UnstakingCompletionTime$`).ExceptVal(`^\(time\.Time\)\.Add\(invoke types\.Ctx\.BlockHeader\(ctx\)\.Time, ` + kAp + `GetParams\(k, ctx\)\.UnstakingTime\)$`), Why: "the completion time is this block's time plus the unstaking time"},
		{Prop: P, ID: "apps.begin.completion-time-set-once", Fn: "(x/apps/keeper.Keeper).BeginUnstakingApplication", Assume: []Lit{F(`^\(time\.Time\)\.IsZero\(var:application\.UnstakingCompletionTime\)$`)},
			Target: StoreTo(`UnstakingCompletionTime$`), Why: "a completion time already set is not moved"},
		{Prop: P, ID: "apps.begin.stored", Fn: "(x/apps/keeper.Keeper).BeginUnstakingApplication",
			Barrier: []string{`^` + kAp + `SetApplication\(k, ctx, var:application\)`}, Target: TargetAnyReturn(), Why: "the unstaking record is stored (which queues it)"},
		{Prop: P, ID: "apps.finish.leaves-queue", Fn: "(x/apps/keeper.Keeper).FinishUnstakingApplication",
			Barrier: []string{`^` + kAp + `deleteUnstakingApplication\(k, ctx, var:application\)`}, Target: TargetAnyReturn(), Why: "a finished application leaves the unstaking queue"},
		{Prop: P, ID: "apps.finish.pays-before-zeroing", Fn: "(x/apps/keeper.Keeper).FinishUnstakingApplication",
			Barrier: []string{`^` + kAp + `coinsFromStakedToUnstaked\(k, ctx, var:application\)`}, Target: CallTo(`RemoveStakedTokens\(|` + kAp + `SetApplication\(`), TargetMustExist: true, Why: "the record is zeroed only after the pool paid out"},
		{Prop: P, ID: "apps.finish.removes-whole-stake", Fn: "(x/apps/keeper.Keeper).FinishUnstakingApplication",
			Target: CallTo(`RemoveStakedTokens\(`).Except(`^\(x/apps/types\.Application\)\.RemoveStakedTokens\(var:application, var:application\.StakedTokens\)$`), Why: "the whole stake is taken off the record"},
		{Prop: P, ID: "apps.finish.status-unstaked", Fn: "(x/apps/keeper.Keeper).FinishUnstakingApplication",
			Barrier: []string{`^\(x/apps/types\.Application\)\.UpdateStatus\(var:application, 0\)`}, Target: CallTo(`^` + kAp + `SetApplication\(`), TargetMustExist: true, Why: "the record stored is marked unstaked"},
		{Prop: P, ID: "apps.finish.stored-on-success", Fn: "(x/apps/keeper.Keeper).FinishUnstakingApplication", Assume: []Lit{F(`^nonnil\(` + kAp + `coinsFromStakedToUnstaked\(k, ctx, var:application\)\)$`), F(`^nonnil\(\(x/apps/types\.Application\)\.RemoveStakedTokens\(var:application, var:application\.StakedTokens\)#1\)$`)},
			Barrier: []string{`^` + kAp + `SetApplication\(k, ctx, var:application\)`}, Target: TargetAnyReturn(), Why: "the zeroed record is stored"},
	})
}

// queueWriteBack (C24, C21): removing one address from a completion-time slot of the unstaking queue writes
// the shortened slot back, or deletes the slot when nothing is left.
func queueWriteBack(c *Ctx, P string) []Obligation {
	var out []Obligation
	for _, q := range []struct{ fn, short, del, setPre string }{
		{"(x/apps/keeper.Keeper).deleteUnstakingApplication", "deleteUnstakingApplication", kAp + `deleteUnstakingApplications\(k, ctx, val\.UnstakingCompletionTime\)`, kAp + `setUnstakingApplications\(k, ctx, val\.UnstakingCompletionTime, `},
		{"(x/nodes/keeper.Keeper).deleteUnstakingValidator", "deleteUnstakingValidator", kN + `deleteUnstakingValidators\(k, ctx, val\.UnstakingCompletionTime\)`, kN + `setUnstakingValidators\(k, ctx, val\.UnstakingCompletionTime, `},
	} {
		// the slice whose emptiness is tested is the slice written back, whatever it is called
		fn := c.A.Fn(q.fn)
		v := ""
		if fn != nil {
			re := regexp.MustCompile(`^eq\(0, builtin\.len\((.*)\)\)$`)
			for _, b := range fn.Blocks {
				if iff, ok := b.Instrs[len(b.Instrs)-1].(*ssa.If); ok {
					if m := re.FindStringSubmatch(condAtom(iff.Cond).Str); m != nil {
						v = m[1]
					}
				}
			}
		}
		if v == "" {
			o := c.obl(P, "queue."+q.short+".empty-slot-deleted", q.fn, "the remaining entries of the slot are tested for emptiness")
			o.unresolved("no emptiness test of the remaining entries found in %s", q.fn)
			out = append(out, *o)
			continue
		}
		atom := `^eq\(0, builtin\.len\(` + regexp.QuoteMeta(v) + `\)\)$`
		out = append(out,
			c.edgeMust(P, "queue."+q.short+".empty-slot-deleted", q.fn, atom, true, `^`+q.del, 1, "a slot left empty is deleted"),
			c.edgeMust(P, "queue."+q.short+".shortened-slot-written-back", q.fn, atom, false, `^`+q.setPre+regexp.QuoteMeta(v)+`\)`, 1, "a slot with entries left is written back — the very slice that was tested, i.e. the entries without the removed address"),
		)
	}
	return out
}

// sweepsVisitEverything (C24, C32): the per-block sweeps run over everything that is due.
func sweepsVisitEverything(c *Ctx, P string, fns ...string) []Obligation {
	var out []Obligation
	for _, f := range fns {
		short := f[len(f)-20:]
		if i := lastDot(f); i >= 0 {
			short = f[i+1:]
		}
		out = append(out, c.loopsExitOnlyAtHeader(P, "sweep."+short+".visits-every-entry", f, "every entry that is due at this block is handled in this block"))
	}
	return out
}

func lastDot(s string) int {
	for i := len(s) - 1; i >= 0; i-- {
		if s[i] == '.' {
			return i
		}
	}
	return -1
}
