package main

import (
	"fmt"
	"regexp"
	"strings"

	"golang.org/x/tools/go/ssa"
)

// E12: structural twins. Two functions that are written as mirror images of one
// another (bare / length-prefixed, forward / reverse, left / right, signer /
// recipient) must be the same function up to a stated renaming: same control-flow
// shape, same calls, stores, tests and returns in the same places. A copy-paste
// slip in one of them (the wrong variant called in one branch, a dropped check)
// shows up as the first line at which the renamed listings differ.

// fnListing renders fn as a canonical line-per-instruction listing. Blocks are numbered in the
// order of a depth-first walk that always takes the edge on which the (un-negated) branch atom is
// true first, so that inverting a condition and swapping its arms, or moving blocks around, gives
// the same listing.
func fnListing(fn *ssa.Function) []string {
	if len(fn.Blocks) == 0 {
		return nil
	}
	// canonical successor order per block
	succOf := func(b *ssa.BasicBlock) []*ssa.BasicBlock {
		if len(b.Succs) == 2 {
			if iff, ok := b.Instrs[len(b.Instrs)-1].(*ssa.If); ok {
				if condAtom(iff.Cond).Neg {
					return []*ssa.BasicBlock{b.Succs[1], b.Succs[0]}
				}
			}
		}
		return b.Succs
	}
	num := map[*ssa.BasicBlock]int{}
	var order []*ssa.BasicBlock
	var walk func(b *ssa.BasicBlock)
	walk = func(b *ssa.BasicBlock) {
		if _, ok := num[b]; ok {
			return
		}
		num[b] = len(order)
		order = append(order, b)
		for _, s := range succOf(b) {
			walk(s)
		}
	}
	walk(fn.Blocks[0])
	var out []string
	for _, b := range order {
		var succs []string
		for _, s := range succOf(b) {
			succs = append(succs, fmt.Sprintf("b%d", num[s]))
		}
		out = append(out, fmt.Sprintf("b%d -> %s", num[b], strings.Join(succs, ",")))
		for _, ins := range b.Instrs {
			switch x := ins.(type) {
			case *ssa.Call:
				if logOnly(x) {
					continue // a log line in one twin only is not a divergence
				}
				out = append(out, "  call "+desc(x, maxDepth))
			case *ssa.Defer:
				out = append(out, "  defer "+calleeName(&x.Call))
			case *ssa.Go:
				out = append(out, "  go "+calleeName(&x.Call))
			case *ssa.Store:
				if ia, ok := x.Addr.(*ssa.IndexAddr); ok {
					if a, ok := ia.X.(*ssa.Alloc); ok && a.Comment == "varargs" {
						continue
					}
				}
				out = append(out, "  store "+desc(x.Addr, maxDepth)+" = "+desc(x.Val, maxDepth))
			case *ssa.MapUpdate:
				out = append(out, "  mapset "+desc(x.Map, maxDepth)+"["+desc(x.Key, maxDepth)+"] = "+desc(x.Value, maxDepth))
			case *ssa.If:
				out = append(out, "  if "+condAtom(x.Cond).Str)
			case *ssa.Return:
				var rs []string
				for i := range x.Results {
					rs = append(rs, desc(retOperand(x, i), maxDepth))
				}
				out = append(out, "  return "+strings.Join(rs, " ; "))
			case *ssa.Panic:
				out = append(out, "  panic")
			}
		}
	}
	return out
}

// Rename is one substitution applied to the listing of the first twin; Swap
// exchanges the two words instead of replacing one by the other.
type Rename struct {
	From, To string
	Swap     bool
}

func applyRenames(lines []string, rs []Rename) []string {
	out := make([]string, len(lines))
	for i, l := range lines {
		for _, r := range rs {
			if r.Swap {
				l = strings.ReplaceAll(l, r.From, "\x00")
				l = strings.ReplaceAll(l, r.To, r.From)
				l = strings.ReplaceAll(l, "\x00", r.To)
			} else {
				l = strings.ReplaceAll(l, r.From, r.To)
			}
		}
		out[i] = l
	}
	return out
}

// twins: one obligation — fnA, after the renaming, is line for line fnB.
func (c *Ctx) twins(P, rule, fnA, fnB string, rs []Rename, why string) Obligation {
	o := c.obl(P, rule, fnA+"~"+fnB, fnA+" and "+fnB+" are the same function up to the renaming "+renameString(rs)+" — "+why)
	a, b := c.A.Fn(fnA), c.A.Fn(fnB)
	if a == nil || b == nil {
		o.unresolved("function not found")
		return *o
	}
	o.Pos = c.A.FnPos(a)
	la, lb := applyRenames(fnListing(a), rs), fnListing(b)
	o.Facts = len(la) + len(lb)
	n := len(la)
	if len(lb) < n {
		n = len(lb)
	}
	for i := 0; i < n; i++ {
		if la[i] != lb[i] {
			o.fail(c.A.FnPos(b), "the twins diverge at line %d of their listings: %s has [%s] where %s has [%s]", i+1, fnA, strings.TrimSpace(la[i]), fnB, strings.TrimSpace(lb[i]))
			return *o
		}
	}
	if len(la) != len(lb) {
		o.fail(c.A.FnPos(b), "the twins have different lengths (%d vs %d instructions listed): one of them does something the other does not", len(la), len(lb))
	}
	if o.Facts < 6 {
		o.unresolved("the functions are too small to compare (%d lines)", o.Facts)
	}
	return *o
}

func renameString(rs []Rename) string {
	var p []string
	for _, r := range rs {
		if r.Swap {
			p = append(p, r.From+"<->"+r.To)
		} else {
			p = append(p, r.From+"->"+r.To)
		}
	}
	return "{" + strings.Join(p, ", ") + "}"
}

var logCalleeRe = regexp.MustCompile(`(^|[./ ])(log\.Logger|Logger)\.(Info|Debug|Error|With)$|^invoke [\w/.\-]*\.Logger\(|\.Logger$|^fmt\.(Print|Fprint)|^log\.(Print|Fatal|Panic)`)

// logOnly: a call that only produces log output — a logger method, the call that fetches the logger,
// or a fmt.Sprintf / String() whose result feeds nothing but such calls.
func logOnly(c *ssa.Call) bool {
	var seen = map[*ssa.Call]bool{}
	var rec func(c *ssa.Call, d int) bool
	rec = func(c *ssa.Call, d int) bool {
		if d > 4 || seen[c] {
			return false
		}
		seen[c] = true
		name := calleeName(&c.Call)
		if logCalleeRe.MatchString(name) {
			// a logger fetch is log-only if everything done with the logger is
			if strings.HasSuffix(name, "Logger") || strings.Contains(name, ".Logger(") || strings.HasSuffix(name, ".With") {
				return usesAreLogOnly(c, rec, d)
			}
			return true
		}
		if name == "fmt.Sprintf" || name == "fmt.Sprint" || strings.HasSuffix(name, ".String") {
			refs := c.Referrers()
			if refs == nil || len(*refs) == 0 {
				return false
			}
			return usesAreLogOnly(c, rec, d)
		}
		return false
	}
	return rec(c, 0)
}

func usesAreLogOnly(v ssa.Value, rec func(*ssa.Call, int) bool, d int) bool {
	refs := v.Referrers()
	if refs == nil {
		return true
	}
	for _, r := range *refs {
		switch u := r.(type) {
		case *ssa.Call:
			if !rec(u, d+1) {
				return false
			}
		case *ssa.MakeInterface:
			if !usesAreLogOnly(u, rec, d+1) {
				return false
			}
		case *ssa.Store:
			// stored into the variadic argument slice of a log call
			ia, ok := u.Addr.(*ssa.IndexAddr)
			if !ok {
				return false
			}
			al, ok := ia.X.(*ssa.Alloc)
			if !ok || al.Comment != "varargs" {
				return false
			}
			ok2 := true
			if rs := al.Referrers(); rs != nil {
				for _, rr := range *rs {
					if sl, isSl := rr.(*ssa.Slice); isSl {
						if !usesAreLogOnly(sl, rec, d+1) {
							ok2 = false
						}
					}
				}
			}
			if !ok2 {
				return false
			}
		case *ssa.DebugRef:
		default:
			return false
		}
	}
	return true
}
