package main

import (
	"fmt"
	"sort"
	"strings"

	"golang.org/x/tools/go/ssa"
)

// C09: reads at a past height see that height's committed state — the
// copy-on-write discipline of the IAVL tree: no node reachable from a saved
// version is modified.

var nodeSemanticFields = map[string]bool{"key": true, "value": true, "version": true, "size": true, "height": true, "leftHash": true, "rightHash": true}
var nodeLinkFields = map[string]bool{"leftNode": true, "rightNode": true}
var nodeMemoFields = map[string]bool{"hash": true, "persisted": true}

// trustedNodeParams: functions that write semantic fields of a *Node they
// receive, with the reason this is safe.
//
//	"fresh-callers":  every in-repo call site passes a node created in the caller
//	"unpersisted-guard": the stores are dominated by the function's own test that the node is not persisted
var trustedNodeParams = map[string]string{
	"(*store/iavl.Node).calcHeightAndSize":      "fresh-callers",
	"(*store/iavl.MutableTree).balance":         "unpersisted-guard",
	"(*store/iavl.nodeDB).SaveBranch":           "unpersisted-guard",
	"(*store/iavl.Node).writeHashBytesRecursively": "callers-check-unhashed",
}

func init() {
	register(&Prop{
		ID: "C09", Title: "Reads at a past height always see that height's committed state",
		Technique: "ownership (freshness) analysis of every store to a semantic field of iavl.Node over SSA, with a table of trusted receivers checked at their call sites; call-graph non-reachability of node-DB writers from the lazy-load entry points",
		DesignRef: "DESIGN.md §3 C09",
		Explanation: "Every store to a semantic field of an IAVL node (key, value, version, size, height, child hashes, and non-nil child links) targets a node created in that function (new/NewNode/MakeNode/clone) or a parameter of a tabled function that is either called only with fresh nodes or guards the store by its own not-persisted test; memo fields (hash, persisted, dropping a child link) may be written anywhere. LazyLoadVersion / LoadLazyVersion / GetImmutable reach no node-DB batch writer and no version deletion, so historical reads cannot disturb saved versions; PrevCtx builds its store only from LoadLazyVersion.",
		NotDecided:  "that lookups on a lazily loaded tree return the right values (C03's domain), pruning races with concurrent readers.",
		MinObl:      20,
		Run:         runC09,
	})
}

func isNodePtr(v ssa.Value) bool {
	n := namedOf(v.Type())
	return n != nil && n.Obj().Name() == "Node" && n.Obj().Pkg() != nil && n.Obj().Pkg().Path() == repoMod+"/store/iavl"
}

// freshNode: is v certainly a node created inside its own function?
func freshNode(v ssa.Value, depth int) bool {
	if depth > 8 {
		return false
	}
	switch x := v.(type) {
	case *ssa.Alloc:
		return true
	case *ssa.Call:
		if f := x.Call.StaticCallee(); f != nil {
			switch FnName(f) {
			case "store/iavl.NewNode", "(*store/iavl.Node).clone":
				return true
			}
		}
	case *ssa.Extract:
		if c, ok := x.Tuple.(*ssa.Call); ok {
			if f := c.Call.StaticCallee(); f != nil {
				switch FnName(f) {
				case "store/iavl.MakeNode":
					return x.Index == 0
				case "(*store/iavl.MutableTree).rotateLeft", "(*store/iavl.MutableTree).rotateRight":
					return x.Index == 0 // the promoted node is a clone made by the rotation
				}
			}
		}
	case *ssa.Phi:
		for _, e := range x.Edges {
			if !freshNode(e, depth+1) {
				return false
			}
		}
		return len(x.Edges) > 0
	case *ssa.UnOp:
		if a, ok := x.X.(*ssa.Alloc); ok && x.Op.String() == "*" {
			// local pointer variable: all stored values must be fresh
			if a.Referrers() == nil {
				return false
			}
			n := 0
			for _, r := range *a.Referrers() {
				if st, ok := r.(*ssa.Store); ok && st.Addr == a {
					n++
					if !freshNode(st.Val, depth+1) {
						return false
					}
				}
			}
			return n > 0
		}
	}
	return false
}

func runC09(c *Ctx) []Obligation {
	P := "C09"
	var out []Obligation
	type siteInfo struct {
		fn    *ssa.Function
		st    *ssa.Store
		field string
	}
	var sites []siteInfo
	for fn := range c.A.AllFns {
		if fn.Blocks == nil || fnPkgPath(fn) != repoMod+"/store/iavl" {
			continue
		}
		for _, b := range fn.Blocks {
			for _, ins := range b.Instrs {
				st, ok := ins.(*ssa.Store)
				if !ok {
					continue
				}
				fa, ok := st.Addr.(*ssa.FieldAddr)
				if !ok || !isNodePtr(fa.X) {
					continue
				}
				sites = append(sites, siteInfo{fn, st, fieldName(fa.X.Type(), fa.Field)})
			}
		}
	}
	sort.Slice(sites, func(i, j int) bool {
		if FnName(sites[i].fn) != FnName(sites[j].fn) {
			return FnName(sites[i].fn) < FnName(sites[j].fn)
		}
		return sites[i].st.Pos() < sites[j].st.Pos()
	})
	perFn := map[string]*Obligation{}
	order := []string{}
	for _, s := range sites {
		name := FnName(s.fn)
		o := perFn[name]
		if o == nil {
			o = c.obl(P, "node-writes-are-copy-on-write", name, "every store to a semantic field of an iavl.Node in "+name+" targets a node created there (or a tabled, guarded parameter)")
			o.Pos = c.A.FnPos(s.fn)
			perFn[name] = o
			order = append(order, name)
		}
		o.Facts++
		fa := s.st.Addr.(*ssa.FieldAddr)
		switch {
		case nodeMemoFields[s.field]:
			continue
		case nodeLinkFields[s.field]:
			if k, ok := s.st.Val.(*ssa.Const); ok && k.IsNil() {
				continue // dropping an in-memory link whose hash is recorded
			}
		case !nodeSemanticFields[s.field]:
			o.fail(c.A.Pos(s.st.Pos()), "unknown Node field %s written", s.field)
			continue
		}
		if freshNode(fa.X, 0) {
			continue
		}
		// parameter of a trusted function?
		mode, trusted := trustedNodeParams[name]
		if p, isParam := fa.X.(*ssa.Parameter); trusted && isParam {
			switch mode {
			case "unpersisted-guard":
				if !c.guardedByUnpersisted(s.fn, p, s.st) {
					o.fail(c.A.Pos(s.st.Pos()), "store to %s.%s is not dominated by a not-persisted test of that node", p.Name(), s.field)
				}
			case "fresh-callers", "callers-check-unhashed":
				// checked below, once per function
			}
			continue
		}
		o.fail(c.A.Pos(s.st.Pos()), "%s writes field %s of node %s, which is not created in this function: a node reachable from a saved version may be modified", name, s.field, desc(fa.X, 4))
	}
	for _, n := range order {
		out = append(out, *perFn[n])
	}
	if len(sites) < 20 {
		o := c.obl(P, "node-writes-are-copy-on-write", "store/iavl", "node field stores found")
		o.fail("", "only %d stores to Node fields found in store/iavl: anchors are stale", len(sites))
		o.set(Unresolved)
		out = append(out, *o)
	}
	// call-site obligations for "fresh-callers" functions
	for name, mode := range trustedNodeParams {
		if mode != "fresh-callers" {
			continue
		}
		o := c.obl(P, "trusted-receiver-called-with-fresh-node", name, "every in-repo call of "+name+" passes a node created in the caller")
		f := c.A.Fn(name)
		if f == nil {
			o.unresolved("not found")
			out = append(out, *o)
			continue
		}
		for _, e := range c.A.In[f] {
			ci, ok := e.Site.(ssa.CallInstruction)
			if !ok || len(ci.Common().Args) == 0 {
				continue
			}
			o.Facts++
			arg := ci.Common().Args[0]
			if freshNode(arg, 0) {
				continue
			}
			// a caller that is itself trusted and passes its own guarded parameter
			if p, isParam := arg.(*ssa.Parameter); isParam && trustedNodeParams[FnName(e.Caller)] == "unpersisted-guard" && c.guardedByUnpersisted(e.Caller, p, e.Site) {
				continue
			}
			o.fail(c.A.Pos(e.Site.Pos()), "%s calls %s on %s, which is not a node created there", FnName(e.Caller), name, desc(arg, 4))
		}
		if o.Facts == 0 {
			o.unresolved("no call site found")
		}
		out = append(out, *o)
	}
	// "callers-check-unhashed": every call site is on the hash==nil edge of the
	// caller's own test of that node's hash (a node whose hash is set — any
	// saved node — is never re-hashed, hence never has its child hashes rewritten)
	for name, mode := range trustedNodeParams {
		if mode != "callers-check-unhashed" {
			continue
		}
		o := c.obl(P, "trusted-receiver-called-only-on-unhashed-node", name, "every in-repo call of "+name+" is guarded by the caller's test that the node has no hash yet")
		f := c.A.Fn(name)
		if f == nil {
			o.unresolved("not found")
			out = append(out, *o)
			continue
		}
		for _, e := range c.A.In[f] {
			ci, ok := e.Site.(ssa.CallInstruction)
			if !ok || len(ci.Common().Args) == 0 {
				continue
			}
			o.Facts++
			p, isParam := ci.Common().Args[0].(*ssa.Parameter)
			if !isParam || !c.guardedByFalse(e.Caller, "nonnil("+p.Name()+".hash)", e.Site) {
				o.fail(c.A.Pos(e.Site.Pos()), "%s calls %s without first checking that the node is still unhashed", FnName(e.Caller), name)
			}
		}
		if o.Facts == 0 {
			o.unresolved("no call site found")
		}
		out = append(out, *o)
	}
	sort.SliceStable(out, func(i, j int) bool { return out[i].Rule+out[i].Construct < out[j].Rule+out[j].Construct })
	// lazy loading never writes
	lazyRoots := []string{"(*store/iavl.MutableTree).LazyLoadVersion", "(*store/iavl.MutableTree).GetImmutable", "(*store/rootmulti.Store).LoadLazyVersion", "(*store/iavl.Store).LazyLoadStore"}
	out = append(out,
		c.noReach(P, "lazy-load.no-node-db-writes", lazyRoots, `^\(\*store/iavl\.nodeDB\)\.(SaveNode|SaveBranch|SaveOrphans|SaveRoot|SaveEmptyRoot|saveRoot|saveOrphan|Commit|DeleteVersion|DeleteVersionsFrom|deleteOrphans|deleteRoot|deleteNodesFrom)$|^\(\*store/iavl\.MutableTree\)\.(SaveVersion|DeleteVersion|DeleteVersions|deleteVersion|LoadVersionForOverwriting)$`, "", "loading a historical version writes nothing to the node DB and deletes no version"),
		c.noReach(P, "historical-query.no-node-db-writes", []string{"(*store/iavl.Store).Query", "(*store/iavl.ImmutableTree).Get", "(*store/iavl.ImmutableTree).IterateRange", "(*store/iavl.ImmutableTree).GetRangeWithProof"}, `^\(\*store/iavl\.nodeDB\)\.(SaveNode|SaveBranch|SaveOrphans|SaveRoot|SaveEmptyRoot|Commit|DeleteVersion|DeleteVersionsFrom)$`, "", "reading a tree (point, range, proof) writes nothing to the node DB"),
	)
	out = append(out, c.Rows([]Row{
		{Prop: P, ID: "prevctx.store-is-lazy-version", Fn: "(types.Context).PrevCtx",
			Target: CallTo(`^types\.NewContext\(`).Except(`^types\.NewContext\(assert<types\.MultiStore>\(invoke types\.CommitMultiStore\.LoadLazyVersion\(assert<types\.CommitMultiStore>\(c\.ms\), height\)#0\), `),
			Why:    "a previous-height context is built only over LoadLazyVersion(height)"},
		// the tree handed out for a requested version is rooted at that version's SAVED root, read from
		// the node DB; never at the working tree's in-memory root, which already carries the next block's writes
		{Prop: P, ID: "lazyload.root-is-saved-root", Fn: "(*store/iavl.MutableTree).LazyLoadVersion",
			Target: StoreTo(`^var:complit\.root$`).ExceptVal(`^\(\*store/iavl\.nodeDB\)\.GetNode\(tree\.ndb, \(\*store/iavl\.nodeDB\)\.getRoot\(tree\.ndb, phi:targetVersion\)#0\)$`),
			Why: "a lazily loaded version is rooted at the root saved for that version"},
		{Prop: P, ID: "lazyload.version-is-requested", Fn: "(*store/iavl.MutableTree).LazyLoadVersion",
			Target: StoreTo(`^var:complit\.version$`).ExceptVal(`^phi:targetVersion$`), Why: "and labelled with that version"},
		{Prop: P, ID: "lazyload.missing-version-fails", Fn: "(*store/iavl.MutableTree).LazyLoadVersion", Assume: []Lit{T(`^lt\(0, \(\*store/iavl\.nodeDB\)\.getLatestVersion\(tree\.ndb\)\)$`), F(`^nonnil\(\(\*store/iavl\.nodeDB\)\.getRoot\(tree\.ndb, phi:targetVersion\)#0\)$`)},
			Target: Success(), Why: "a version without a saved root is not served"},
		{Prop: P, ID: "getimmutable.root-is-saved-root", Fn: "(*store/iavl.MutableTree).GetImmutable",
			Target: StoreTo(`^var:complit\.root$`).ExceptVal(`^\(\*store/iavl\.nodeDB\)\.GetNode\(tree\.ndb, \(\*store/iavl\.nodeDB\)\.getRoot\(tree\.ndb, version\)#0\)$`),
			Why: "an immutable view of a version is rooted at the root saved for that version"},
		{Prop: P, ID: "getimmutable.version-is-requested", Fn: "(*store/iavl.MutableTree).GetImmutable",
			Target: StoreTo(`^var:complit\.version$`).ExceptVal(`^version$`), Why: "and labelled with that version"},
		{Prop: P, ID: "getimmutable.missing-version-fails", Fn: "(*store/iavl.MutableTree).GetImmutable", Assume: []Lit{F(`^nonnil\(\(\*store/iavl\.nodeDB\)\.getRoot\(tree\.ndb, version\)#0\)$`)},
			Target: Success(), Why: "a version without a saved root is not served"},
	})...)
	out = append(out,
		c.fieldTable(P, "tree-root.writers", "store/iavl", "ImmutableTree", "root", false,
			[]string{`\(\*store/iavl\.MutableTree\)\.(Set|set|Remove|remove|Rollback|LoadVersion|LoadVersionForOverwriting|LazyLoadVersion|GetImmutable|SaveVersion)`, `\(\*store/iavl\.ImmutableTree\)\.clone`, `store/iavl\.NewMutableTree(WithOpts)?`, `store/iavl\.NewImmutableTree(WithOpts)?`},
			"a tree's root is replaced only by the mutating operations of the working tree, by loading a saved version, and by cloning"),
	)
	out = append(out, versionedReadersUseSavedTree(c, P)...)
	// what a later PrevCtx(h) hands out is whatever sits in the context cache under h: only PrevCtx puts
	// anything there, and what it puts there under a height is the context it built on the store lazily
	// loaded for that very height
	out = append(out,
		c.whoMayCall(P, "ctxcache.writers", "(types.Context).addToCache", []string{`\(types\.Context\)\.PrevCtx`}, "the per-height context cache is filled only by PrevCtx"),
	)
	out = append(out, c.Rows([]Row{
		{Prop: P, ID: "ctxcache.entry-is-that-heights-store", Fn: "(types.Context).PrevCtx",
			Target: CallTo(`^\(types\.Context\)\.addToCache\(`).Except(`^\(types\.Context\)\.addToCache\(c, fmt\.Sprintf\("%d", \[height\]\), \(types\.Context\)\.SetPrevCtx\(.*types\.NewContext\(assert<types\.MultiStore>\(invoke types\.CommitMultiStore\.LoadLazyVersion\(assert<types\.CommitMultiStore>\(c\.ms\), height\)#0\), .*, true\)\)$`),
			Why:    "the entry filed under a height is the marked historical context over the multistore loaded for that height"},
		{Prop: P, ID: "ctxcache.hit-key-is-the-height", Fn: "(types.Context).PrevCtx",
			Target: CallTo(`^\(types\.Context\)\.getFromCache\(`).Except(`^\(types\.Context\)\.getFromCache\(c, fmt\.Sprintf\("%d", \[height\]\)\)$`),
			Why:    "and it is looked up under the same key"},
	})...)
	return out
}

// guardedByUnpersisted: instruction at is dominated by the false edge of a
// test of p.persisted (or by a branch that returns/panics when it is set).
func (c *Ctx) guardedByUnpersisted(fn *ssa.Function, p *ssa.Parameter, at ssa.Instruction) bool {
	return c.guardedByFalse(fn, p.Name()+".persisted", at)
}

// guardedByFalse: instruction at is dominated by the edge on which the atom
// named want is false.
func (c *Ctx) guardedByFalse(fn *ssa.Function, want string, at ssa.Instruction) bool {
	for d := at.Block(); d != nil; d = d.Idom() {
		iff, ok := d.Instrs[len(d.Instrs)-1].(*ssa.If)
		if !ok || d == at.Block() {
			continue
		}
		atom := condAtom(iff.Cond)
		if !strings.HasSuffix(atom.Str, want) && atom.Str != want {
			continue
		}
		// the edge on which persisted is false
		falseIdx := 1
		if atom.Neg {
			falseIdx = 0
		}
		succ := d.Succs[falseIdx]
		other := d.Succs[1-falseIdx]
		if succ.Dominates(at.Block()) && len(succ.Preds) == 1 {
			return true
		}
		// "if persisted { return/panic }": the other edge leaves, everything after is the false edge
		if len(other.Succs) == 0 && d.Dominates(at.Block()) {
			return true
		}
	}
	return false
}

var _ = fmt.Sprintf
