package main

import "strings"

// C05: existence and absence proofs — the soundness clause: no verifier reports
// success without its equality checks, proof-side hashing agrees with node-side
// hashing, and the query path builds a value proof exactly when a value exists.

func init() {
	register(&Prop{
		ID: "C05", Title: "Existence and absence proofs are sound and complete",
		Technique: "pruned-CFG rows over every verifier (verify, VerifyItem, VerifyAbsence, ValueOp.Run, AbsenceOp.Run, MultiStoreProofOp.Run, _computeRootHash): success is unreachable once any equality check is assumed to fail; E6 sequence agreement between Node.writeHashBytes and ProofLeafNode.Hash / ProofInnerNode.Hash; construction rows in pathToLeaf and iavl.Store.Query",
		DesignRef: "DESIGN.md §3 C05",
		Explanation: "RangeProof.verify marks the proof verified and succeeds only on bytes.Equal(computed root, given root), and fails when the root cannot be computed; VerifyItem and VerifyAbsence refuse an unverified proof; VerifyItem succeeds only for an equal key and an equal value hash; VerifyAbsence fails on an equal key (first or later leaf) and, with no greater leaf, succeeds only at a tree end; the proof operators verify before they test, and pass the operator's own key and the caller's value; MultiStoreProofOp succeeds only on an equal sub-store hash under an equal store name; _computeRootHash rejects leaf/inner-node count mismatch, unequal intermediate roots and left-over leaves; the bytes hashed for a proof leaf and a proof inner node are, field by field, the bytes hashed for a tree node; pathToLeaf fills proof nodes from the tree node's own height/size/version and sibling hash; Store.Query emits a value proof iff a value was found, for the queried key, and the multistore appends its own op keyed by the store name.",
		NotDecided:  "completeness (that a proof exists and verifies for every key of every tree) and the left-path / right-leaf reasoning over arbitrary tree shapes: value-level properties of the construction.",
		MinObl:      40,
		Run:         runC05,
	})
}

func runC05(c *Ctx) []Obligation {
	P := "C05"
	R := "(*store/iavl.RangeProof)."
	var out []Obligation
	cmp0 := `bytes\.Compare\(key, proof\.Leaves\[0\]\.Key\)`
	cmpI := `bytes\.Compare\(key, proof\.Leaves\[phi:i\]\.Key\)`
	search := `sort\.Search\(builtin\.len\(var:leaves\), closure:\(\*store/iavl\.RangeProof\)\.VerifyItem\$1\)`
	ch := `dyn:free:COMPUTEHASH\(free:innersq\[0\], phi:&&\)`
	rows := []Row{
		// verify
		{Prop: P, ID: "verify.root-must-match", Fn: R + "verify", Assume: []Lit{F(`^bytes\.Equal\(phi:rootHash, root\)$`)}, Target: Success(), Why: "a proof whose computed root differs from the given root is rejected"},
		{Prop: P, ID: "verify.verified-only-on-match", Fn: R + "verify", Assume: []Lit{F(`^bytes\.Equal\(phi:rootHash, root\)$`)}, Target: StoreTo(`^proof\.rootVerified$`), TargetMustExist: true, Why: "the verified flag is set only after the roots matched"},
		{Prop: P, ID: "verify.compute-error-fails", Fn: R + "verify", Assume: []Lit{F(`^nonnil\(proof\.rootHash\)$`), T(`^nonnil\(\(\*store/iavl\.RangeProof\)\.computeRootHash\(proof\)#1\)$`)}, Target: Success(), Why: "a malformed proof (no computable root) is rejected"},
		{Prop: P, ID: "verify.compares-given-root", Fn: R + "verify", Target: CallTo(`^bytes\.Equal\(`).Except(`^bytes\.Equal\(phi:rootHash, root\)$`), Why: "the comparison is between the proof's root and the caller's root"},
		{Prop: P, ID: "Verify.delegates", Fn: R + "Verify", Assume: []Lit{T(`^nonnil\(proof\)$`)}, Target: RetNotMatch(0, `^\(\*store/iavl\.RangeProof\)\.verify\(proof, root\)$`), Why: "Verify is verify on the same root"},
		{Prop: P, ID: "Verify.nil-proof-fails", Fn: R + "Verify", Assume: []Lit{F(`^nonnil\(proof\)$`)}, Target: Success(), Why: "a nil proof verifies nothing"},
		{Prop: P, ID: "computeRootHash.memo-only-on-success", Fn: R + "computeRootHash", Assume: []Lit{T(`^nonnil\(\(\*store/iavl\.RangeProof\)\._computeRootHash\(proof\)#2\)$`)}, Target: StoreTo(`^proof\.(rootHash|treeEnd)$`), TargetMustExist: true, Why: "a failed computation leaves no memoised root behind"},
		// VerifyItem
		{Prop: P, ID: "item.needs-verified", Fn: R + "VerifyItem", Assume: []Lit{F(`^proof\.rootVerified$`)}, Target: Success(), Why: "an unverified proof proves nothing"},
		{Prop: P, ID: "item.nil-proof-fails", Fn: R + "VerifyItem", Assume: []Lit{F(`^nonnil\(proof\)$`)}, Target: Success(), Why: "a nil proof proves nothing"},
		{Prop: P, ID: "item.key-must-match", Fn: R + "VerifyItem", Assume: []Lit{F(`^bytes\.Equal\(var:leaves\[` + search + `\]\.Key, var:key\)$`)}, Target: Success(), Why: "the leaf found must carry exactly the key"},
		{Prop: P, ID: "item.index-in-range", Fn: R + "VerifyItem", Assume: []Lit{F(`^lt\(` + search + `, builtin\.len\(var:leaves\)\)$`)}, Target: Success(), Why: "a key beyond the last leaf is not proved"},
		{Prop: P, ID: "item.value-hash-must-match", Fn: R + "VerifyItem", Assume: []Lit{F(`^bytes\.Equal\(var:leaves\[` + search + `\]\.ValueHash, github\.com/tendermint/tendermint/crypto/tmhash\.Sum\(value\)\)$`)}, Target: Success(), Why: "the leaf's value hash must equal the hash of the claimed value"},
		// VerifyAbsence
		{Prop: P, ID: "absence.needs-verified", Fn: R + "VerifyAbsence", Assume: []Lit{F(`^proof\.rootVerified$`)}, Target: Success(), Why: "an unverified proof proves nothing"},
		{Prop: P, ID: "absence.nil-proof-fails", Fn: R + "VerifyAbsence", Assume: []Lit{F(`^nonnil\(proof\)$`)}, Target: Success(), Why: "a nil proof proves nothing"},
		{Prop: P, ID: "absence.first-leaf-equal-disproves", Fn: R + "VerifyAbsence", Assume: []Lit{F(`^lt\(` + cmp0 + `, 0\)$`), T(`^eq\(0, ` + cmp0 + `\)$`)}, Target: Success(), Why: "a key equal to the first leaf is present"},
		{Prop: P, ID: "absence.before-first-needs-leftmost", Fn: R + "VerifyAbsence", Assume: []Lit{T(`^lt\(` + cmp0 + `, 0\)$`), F(`^\(store/iavl\.PathToLeaf\)\.isLeftmost\(proof\.LeftPath\)$`)}, Target: Success(), Why: "a key below the first proved leaf is absent only if that leaf is the leftmost of the tree"},
		{Prop: P, ID: "absence.later-leaf-equal-disproves", Fn: R + "VerifyAbsence",
			Assume: []Lit{F(`^lt\(` + cmp0 + `, 0\)$`), F(`^eq\(0, ` + cmp0 + `\)$`), F(`^eq\(0, builtin\.len\(proof\.LeftPath\)\)$`), F(`^\(store/iavl\.PathToLeaf\)\.isRightmost\(proof\.LeftPath\)$`), T(`^lt\(phi:i, builtin\.len\(proof\.Leaves\)\)$`), F(`^lt\(` + cmpI + `, 0\)$`), T(`^eq\(0, ` + cmpI + `\)$`)},
			Target: Success(), Why: "a key equal to a later leaf is present"},
		{Prop: P, ID: "absence.no-greater-leaf-needs-tree-end", Fn: R + "VerifyAbsence",
			Assume: []Lit{F(`^lt\(` + cmp0 + `, 0\)$`), F(`^eq\(0, ` + cmp0 + `\)$`), F(`^eq\(0, builtin\.len\(proof\.LeftPath\)\)$`), F(`^\(store/iavl\.PathToLeaf\)\.isRightmost\(proof\.LeftPath\)$`), F(`^lt\(` + cmpI + `, 0\)$`), F(`^proof\.treeEnd$`)},
			Target: Success(), Why: "with no proved leaf above the key, absence needs the proof to reach the end of the tree"},
		// proof operators
		{Prop: P, ID: "valueop.verify-first", Fn: "(store/iavl.ValueOp).Run", Barrier: []string{`^\(\*store/iavl\.RangeProof\)\.Verify\(op\.Proof, \(\*store/iavl\.RangeProof\)\.ComputeRootHash\(op\.Proof\)\)`},
			Target: CallTo(`^\(\*store/iavl\.RangeProof\)\.VerifyItem\(`), TargetMustExist: true, Why: "the proof's internal consistency is checked before the item"},
		{Prop: P, ID: "valueop.verify-error-fails", Fn: "(store/iavl.ValueOp).Run", Assume: []Lit{T(`^nonnil\(\(\*store/iavl\.RangeProof\)\.Verify\(`)}, Target: Success(), Why: "an inconsistent proof fails the operator"},
		{Prop: P, ID: "valueop.item-error-fails", Fn: "(store/iavl.ValueOp).Run", Assume: []Lit{T(`^nonnil\(\(\*store/iavl\.RangeProof\)\.VerifyItem\(`)}, Target: Success(), Why: "an unproved item fails the operator"},
		{Prop: P, ID: "valueop.item-operands", Fn: "(store/iavl.ValueOp).Run", Target: CallTo(`^\(\*store/iavl\.RangeProof\)\.VerifyItem\(`).Except(`^\(\*store/iavl\.RangeProof\)\.VerifyItem\(op\.Proof, op\.key, args\[0\]\)$`), Why: "the operator's own key and the caller's value are what is verified"},
		{Prop: P, ID: "valueop.one-arg", Fn: "(store/iavl.ValueOp).Run", Assume: []Lit{F(`^eq\(1, builtin\.len\(args\)\)$`)}, Target: Success(), Why: "exactly one value is verified"},
		{Prop: P, ID: "absenceop.verify-first", Fn: "(store/iavl.AbsenceOp).Run", Barrier: []string{`^\(\*store/iavl\.RangeProof\)\.Verify\(op\.Proof, \(\*store/iavl\.RangeProof\)\.ComputeRootHash\(op\.Proof\)\)`},
			Target: CallTo(`^\(\*store/iavl\.RangeProof\)\.VerifyAbsence\(`), TargetMustExist: true, Why: "the proof's internal consistency is checked before absence"},
		{Prop: P, ID: "absenceop.verify-error-fails", Fn: "(store/iavl.AbsenceOp).Run", Assume: []Lit{T(`^nonnil\(op\.Proof\)$`), T(`^nonnil\(\(\*store/iavl\.RangeProof\)\.Verify\(`)}, Target: Success(), Why: "an inconsistent proof fails the operator"},
		{Prop: P, ID: "absenceop.absence-error-fails", Fn: "(store/iavl.AbsenceOp).Run", Assume: []Lit{T(`^nonnil\(op\.Proof\)$`), T(`^nonnil\(\(\*store/iavl\.RangeProof\)\.VerifyAbsence\(`)}, Target: Success(), Why: "an unproved absence fails the operator"},
		{Prop: P, ID: "absenceop.operands", Fn: "(store/iavl.AbsenceOp).Run", Target: CallTo(`^\(\*store/iavl\.RangeProof\)\.VerifyAbsence\(`).Except(`^\(\*store/iavl\.RangeProof\)\.VerifyAbsence\(op\.Proof, op\.key\)$`), Why: "the operator's own key is what is verified"},
		{Prop: P, ID: "absenceop.no-args", Fn: "(store/iavl.AbsenceOp).Run", Assume: []Lit{F(`^eq\(0, builtin\.len\(args\)\)$`)}, Target: Success(), Why: "an absence proof carries no value"},
		// multistore operator
		{Prop: P, ID: "multistoreop.hash-must-match", Fn: "(store/rootmulti.MultiStoreProofOp).Run", Assume: []Lit{F(`^bytes\.Equal\(args\[0\], op\.Proof\.StoreInfos\[.*\]\.Core\.CommitID\.Hash\)$`)}, Target: Success(), Why: "the sub-store root must equal the hash recorded for that store"},
		{Prop: P, ID: "multistoreop.name-must-match", Fn: "(store/rootmulti.MultiStoreProofOp).Run", Assume: []Lit{F(`^eq\(conv<string>\(op\.Key\), op\.Proof\.StoreInfos\[.*\]\.Name\)$`)}, Target: Success(), Why: "the hash is looked up under the operator's store name only"},
		{Prop: P, ID: "multistoreop.one-arg", Fn: "(store/rootmulti.MultiStoreProofOp).Run", Assume: []Lit{F(`^eq\(1, builtin\.len\(args\)\)$`)}, Target: Success(), Why: "exactly one sub-store root is verified"},
		// root recomputation
		{Prop: P, ID: "compute.no-leaves-fails", Fn: R + "_computeRootHash", Assume: []Lit{T(`^eq\(0, builtin\.len\(proof\.Leaves\)\)$`)}, Target: Success(), Why: "a proof without leaves has no root"},
		{Prop: P, ID: "compute.count-mismatch-fails", Fn: R + "_computeRootHash", Assume: []Lit{F(`^eq\(0, builtin\.len\(proof\.Leaves\)\)$`), F(`^eq\(\(builtin\.len\(proof\.InnerNodes\) \+ 1\), builtin\.len\(proof\.Leaves\)\)$`)}, Target: Success(), Why: "leaves and inner paths must pair up"},
		{Prop: P, ID: "compute.leftover-leaves-fail", Fn: R + "_computeRootHash", Assume: []Lit{F(`^dyn:var:COMPUTEHASH\(proof\.LeftPath, true\)#2$`)}, Target: Success(), Why: "leaves not covered by the paths make the proof malformed"},
		{Prop: P, ID: "compute.inner-error-fails", Fn: R + "_computeRootHash", Assume: []Lit{T(`^nonnil\(dyn:var:COMPUTEHASH\(proof\.LeftPath, true\)#3\)$`)}, Target: Success(), Why: "an error inside the recomputation is not swallowed"},
		{Prop: P, ID: "compute.intermediate-root-must-match", Fn: R + "_computeRootHash$1", Assume: []Lit{F(`^nonnil\(` + ch + `#3\)$`), F(`^bytes\.Equal\(` + ch + `#0, phi:path\[\(builtin\.len\(phi:path\) - 1\)\]\.Right\)$`)},
			From: `^dyn:free:COMPUTEHASH\(`, Target: Success(), Why: "a recomputed right subtree must equal the hash recorded in the path"},
		{Prop: P, ID: "compute.recursive-error-propagates", Fn: R + "_computeRootHash$1", Assume: []Lit{T(`^nonnil\(` + ch + `#3\)$`)}, From: `^dyn:free:COMPUTEHASH\(`, Target: Success(), Why: "an error in a sub-path is not swallowed"},
		{Prop: P, ID: "pathwithleaf.hash-chain", Fn: "(store/iavl.pathWithLeaf).computeRootHash", Target: RetNotMatch(0, `^\(store/iavl\.PathToLeaf\)\.computeRootHash\(pwl\.Path, \(store/iavl\.ProofLeafNode\)\.Hash\(pwl\.Leaf\)\)$`), Why: "a leaf's root is its own hash folded along its own path"},
		{Prop: P, ID: "path.fold", Fn: "(store/iavl.PathToLeaf).computeRootHash", Target: CallTo(`\.Hash\(`).Except(`^\(store/iavl\.ProofInnerNode\)\.Hash\(pl\[phi:i\], phi:hash\)$`), Why: "each inner node is hashed with the hash computed so far"},
		// construction
		{Prop: P, ID: "query.value-op-iff-value", Fn: "(*store/iavl.Store).Query", Assume: []Lit{F(`^nonnil\(invoke store/iavl\.Tree\.GetVersionedWithProof\(st\.tree, req\.Data, var:res\.Height\)#0\)$`)}, Target: CallTo(`^store/iavl\.NewValueOp\(`), TargetMustExist: true, Why: "no existence proof is emitted for an absent key"},
		{Prop: P, ID: "query.absence-op-iff-no-value", Fn: "(*store/iavl.Store).Query", Assume: []Lit{T(`^nonnil\(invoke store/iavl\.Tree\.GetVersionedWithProof\(st\.tree, req\.Data, var:res\.Height\)#0\)$`)}, Target: CallTo(`^store/iavl\.NewAbsenceOp\(`), TargetMustExist: true, Why: "no absence proof is emitted for a present key"},
		{Prop: P, ID: "query.op-operands", Fn: "(*store/iavl.Store).Query", Target: CallTo(`^store/iavl\.New(Value|Absence)Op\(`).Except(`^store/iavl\.New(Value|Absence)Op\(req\.Data, invoke store/iavl\.Tree\.GetVersionedWithProof\(st\.tree, req\.Data, var:res\.Height\)#1\)$`), Why: "the proof operator is for the queried key and the proof just produced at the queried height"},
		{Prop: P, ID: "query.proof-error-no-proof", Fn: "(*store/iavl.Store).Query", Assume: []Lit{T(`^nonnil\(invoke store/iavl\.Tree\.GetVersionedWithProof\(st\.tree, req\.Data, var:res\.Height\)#2\)$`)}, Target: CallTo(`^store/iavl\.New(Value|Absence)Op\(`), Why: "a failed proof construction yields no proof"},
		{Prop: P, ID: "multiquery.appends-store-op", Fn: "(*store/rootmulti.Store).Query", Assume: []Lit{T(`^var:req\.Prove$`), T(`^store/rootmulti\.RequireProof\(`)},
			Barrier: []string{`^store/rootmulti\.NewMultiStoreProofOp\(conv<\[\]byte>\(store/rootmulti\.parsePath\(var:req\.Path\)#0\), store/rootmulti\.NewMultiStoreProof\(store/rootmulti\.getCommitInfo\(rs\.DB, `},
			Target:  RetNotMatch(0, `QueryResult\(`), Why: "a proved key query returns either an error or the sub-store proof extended by the multistore op for that store name at the response height"},
		// treeEnd (which lets VerifyAbsence accept a key above every proved leaf) is true only if the
		// last leaf is rightmost in its own path AND every enclosing path was entered on the right spine
		{Prop: P, ID: "treeend.needs-right-spine-so-far", Fn: R + "_computeRootHash$1", Assume: []Lit{T(`^eq\(0, builtin\.len\(free:leaves\)\)$`), F(`^rightmost$`)},
			Target: RetNot(1, "false"), Why: "a last leaf below a subtree that is not on the tree's right spine is not the end of the tree"},
		{Prop: P, ID: "treeend.needs-rightmost-path", Fn: R + "_computeRootHash$1", Assume: []Lit{T(`^eq\(0, builtin\.len\(free:leaves\)\)$`), T(`^rightmost$`), F(`^\(store/iavl\.PathToLeaf\)\.isRightmost\(path\)$`)},
			Target: RetNot(1, "false"), Why: "a last leaf with a right sibling recorded in its path is not the end of the tree"},
		{Prop: P, ID: "treeend.recursion-inherits-spine", Fn: R + "_computeRootHash$1", Assume: []Lit{F(`^rightmost$`)},
			Target: CallTo(`^dyn:free:COMPUTEHASH\(`).Except(`^dyn:free:COMPUTEHASH\(free:innersq\[0\], false\)$`), Why: "a sub-path of a subtree that is off the right spine is itself off the right spine"},
		{Prop: P, ID: "treeend.unfinished-is-not-end", Fn: R + "_computeRootHash$1", Assume: []Lit{F(`^eq\(0, builtin\.len\(free:leaves\)\)$`), F(`^lt\(0, builtin\.len\(phi:path\)\)$`)},
			Target: RetNot(1, "false"), Why: "running out of path with leaves left over does not mark the tree end"},
		{Prop: P, ID: "treeend.root-starts-on-spine", Fn: R + "_computeRootHash",
			Target: CallTo(`^dyn:var:COMPUTEHASH\(`).Except(`^dyn:var:COMPUTEHASH\(proof\.LeftPath, true\)$`), Why: "the recomputation starts from the left path, on the spine"},
	}
	out = append(out, c.Rows(rows)...)
	// hashing agreement: the bytes hashed for a proof node are the bytes hashed for the tree node
	nodeRole := func(s string) string {
		switch s {
		case "node.height":
			return "height"
		case "node.size":
			return "size"
		case "node.version":
			return "version"
		case "node.key":
			return "key"
		case "github.com/tendermint/tendermint/crypto/tmhash.Sum(node.value)":
			return "valueHash"
		case "node.leftHash":
			return "left"
		case "node.rightHash":
			return "right"
		}
		return s
	}
	out = append(out,
		c.codecIs(P, "hash.node", "(*store/iavl.Node).writeHashBytes", nodeRole,
			[]string{"Int8:height Varint:size Varint:version ByteSlice:key ByteSlice:valueHash", "Int8:height Varint:size Varint:version ByteSlice:left ByteSlice:right"},
			"the node hash covers height, size, version and (key, value hash) for a leaf or (left, right) for an inner node"),
		c.codecIs(P, "hash.proof-leaf", "(store/iavl.ProofLeafNode).Hash", func(s string) string {
			return map[string]string{"0": "height", "1": "size", "pln.Version": "version", "pln.Key": "key", "pln.ValueHash": "valueHash"}[s] + strings.Repeat("?"+s, b2i(!isIn(s, "0", "1", "pln.Version", "pln.Key", "pln.ValueHash")))
		}, []string{"Int8:height Varint:size Varint:version ByteSlice:key ByteSlice:valueHash"},
			"a proof leaf hashes as a tree leaf does (height 0, size 1)"),
		c.codecIs(P, "hash.proof-inner", "(store/iavl.ProofInnerNode).Hash", func(s string) string {
			return map[string]string{"pin.Height": "height", "pin.Size": "size", "pin.Version": "version", "pin.Left": "left", "pin.Right": "right", "childHash": "child"}[s] + strings.Repeat("?"+s, b2i(!isIn(s, "pin.Height", "pin.Size", "pin.Version", "pin.Left", "pin.Right", "childHash")))
		}, []string{"Int8:height Varint:size Varint:version ByteSlice:child ByteSlice:right", "Int8:height Varint:size Varint:version ByteSlice:left ByteSlice:child"},
			"a proof inner node hashes as a tree inner node does, the computed child hash standing for the side that was walked"),
	)
	out = append(out, c.Rows([]Row{
		{Prop: P, ID: "hash.proof-inner.child-side", Fn: "(store/iavl.ProofInnerNode).Hash", Assume: []Lit{T(`^eq\(0, builtin\.len\(pin\.Left\)\)$`)},
			Target: CallTo(`^github\.com/tendermint/go-amino\.EncodeByteSlice\(.*, pin\.Left\)`), TargetMustExist: true, Why: "with no recorded left hash the computed child is the left side"},
		{Prop: P, ID: "hash.proof-inner.child-side-right", Fn: "(store/iavl.ProofInnerNode).Hash", Assume: []Lit{F(`^eq\(0, builtin\.len\(pin\.Left\)\)$`)},
			Target: CallTo(`^github\.com/tendermint/go-amino\.EncodeByteSlice\(.*, pin\.Right\)`), TargetMustExist: true, Why: "with a recorded left hash the computed child is the right side"},
		// pathToLeaf fills proof nodes from the node walked
		{Prop: P, ID: "pathToLeaf.inner-fields", Fn: "(*store/iavl.Node).pathToLeaf", Target: StoreTo(`^var:pin\.(Height|Size|Version)$`).ExceptVal(`^node\.(height|size|version)$`), Why: "a proof inner node copies the tree node's height, size and version"},
		{Prop: P, ID: "pathToLeaf.left-branch-records-right", Fn: "(*store/iavl.Node).pathToLeaf", Assume: []Lit{T(`^lt\(bytes\.Compare\(key, node\.key\), 0\)$`)},
			Target: StoreTo(`^var:pin\.(Left|Right)$`).ExceptVal(`^nil$|^\(\*store/iavl\.Node\)\.getRightNode\(node, t\)\.hash$`), Why: "walking left records the right sibling's hash only"},
		{Prop: P, ID: "pathToLeaf.right-branch-records-left", Fn: "(*store/iavl.Node).pathToLeaf", Assume: []Lit{F(`^lt\(bytes\.Compare\(key, node\.key\), 0\)$`)},
			Target: StoreTo(`^var:pin\.(Left|Right)$`).ExceptVal(`^nil$|^\(\*store/iavl\.Node\)\.getLeftNode\(node, t\)\.hash$`), Why: "walking right records the left sibling's hash only"},
		{Prop: P, ID: "pathToLeaf.leaf-key-must-match", Fn: "(*store/iavl.Node).pathToLeaf", Assume: []Lit{T(`^eq\(0, node\.height\)$`), F(`^bytes\.Equal\(node\.key, key\)$`)}, Target: Success(), Why: "reaching a leaf with another key is reported as absence"},
	})...)
	out = append(out, c.twins(P, "spine.twins", "(store/iavl.PathToLeaf).isLeftmost", "(store/iavl.PathToLeaf).isRightmost", []Rename{{From: "Left", To: "Right", Swap: true}},
		"'rightmost' is decided exactly as 'leftmost' is, on the other side's recorded hashes"))
	out = append(out, versionedReadersUseSavedTree(c, P)...)
	return out
}

// versionedReadersUseSavedTree (C05, C09): a read or proof "at version V" is answered from the immutable
// tree loaded for V — the tree whose hash is V's root — on every path, the latest version included; the
// working tree (which already carries writes of the block in progress) never answers it.
func versionedReadersUseSavedTree(c *Ctx, P string) []Obligation {
	imm := `\(\*store/iavl\.MutableTree\)\.GetImmutable\(tree, version\)#0`
	var rows []Row
	for _, r := range []struct{ fn, call, args string }{
		{"(*store/iavl.MutableTree).GetVersioned", "Get", `key`},
		{"(*store/iavl.MutableTree).GetVersionedWithProof", "GetWithProof", `key`},
		{"(*store/iavl.MutableTree).GetVersionedRangeWithProof", "GetRangeWithProof", `startKey, endKey, limit`},
	} {
		short := r.fn[strings.LastIndex(r.fn, ".")+1:]
		rows = append(rows,
			Row{Prop: P, ID: "versioned." + short + ".answers-from-that-version", Fn: r.fn,
				Target: CallTo(`\)\.(Get|GetWithProof|GetRangeWithProof|getRangeProof|Has|Iterate\w*)\(`).Except(`^\(\*store/iavl\.ImmutableTree\)\.` + r.call + `\(` + imm + `, ` + r.args + `\)$`),
				Why:    "the only tree consulted is the immutable tree loaded for the requested version"},
			Row{Prop: P, ID: "versioned." + short + ".loads-that-version", Fn: r.fn, Assume: []Lit{T(`^tree\.versions\[version\]$`)},
				Barrier: []string{`^\(\*store/iavl\.MutableTree\)\.GetImmutable\(tree, version\)`}, Target: TargetAnyReturn(),
				Why: "every answer for an existing version goes through loading that version's root"},
		)
	}
	return c.Rows(rows)
}

func isIn(s string, xs ...string) bool {
	for _, x := range xs {
		if x == s {
			return true
		}
	}
	return false
}

func b2i(b bool) int {
	if b {
		return 1
	}
	return 0
}
