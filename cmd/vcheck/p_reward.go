package main

import (
	"golang.org/x/tools/go/ssa"
)

// C26: rewards and fees are split without creating or losing coins — the
// "remainder idiom": one part is computed, the other part is total minus that
// very value, and the amounts paid out are those very values.

func init() {
	register(&Prop{
		ID: "C26", Title: "Rewards and fees are split without creating or losing coins",
		Technique: "SSA value-identity checks of the remainder idiom (part, total-part) in splitRewards, splitFeesCollected and the SplitNodeRewards loop; pruned-CFG rows tying every minted / sent amount in RewardForRelaysPerChain and blockReward to those values",
		DesignRef: "DESIGN.md §3 C26",
		Explanation: "splitRewards returns (reward − fees, fees) with the same fees value; splitFeesCollected returns (dao, fees − dao) with the same dao value; SplitNodeRewards starts remains at rewards, subtracts from it exactly the allocation it hands to the callback in that iteration, pays only positive allocations, and hands the final remains to the primary recipient; RewardForRelaysPerChain obtains (toNode, toFeeCollector) from one CalculateRelayReward call, mints the reward cost (capped at toNode) to the operator and reduces toNode by that same value, splits that toNode, and mints toFeeCollector to the fee pool; CalculateRelayReward returns both results of one splitRewards call; blockReward sends the DAO exactly daoCut and distributes exactly proposerCut of one splitFeesCollected call over the fee pool's balance.",
		NotDecided:  "the numeric values of the truncations, and the case where SplitNodeRewards refuses an invalid delegator table (nothing of the servicer's portion is minted then: coins are not created, but the property's 'minted = computed reward' reading does not hold for that input).",
		MinObl:      18,
		Run:         runC26,
	})
}

// methodCall: v is a call of the named method (FnName) and returns it.
func methodCall(v ssa.Value, name string) *ssa.Call {
	c, ok := stripConv(v).(*ssa.Call)
	if !ok {
		return nil
	}
	f := c.Call.StaticCallee()
	if f == nil || FnName(f) != name {
		return nil
	}
	return c
}

// remainderIdiom: in fn, result #rem is total.Sub(result #part) for the very
// same SSA value, total being the named parameter.
func (c *Ctx) remainderIdiom(P, rule, fnName string, rem, part int, totalParam, why string) Obligation {
	o := c.obl(P, rule, fnName, "result #"+itoa(rem)+" of "+fnName+" is "+totalParam+" minus the very value returned as result #"+itoa(part)+" — "+why)
	fn := c.A.Fn(fnName)
	if fn == nil {
		o.unresolved("not found")
		return *o
	}
	o.Pos = c.A.FnPos(fn)
	for _, b := range fn.Blocks {
		r, ok := b.Instrs[len(b.Instrs)-1].(*ssa.Return)
		if !ok || len(r.Results) <= rem || len(r.Results) <= part {
			continue
		}
		o.Facts++
		vr, vp := retOperand(r, rem), retOperand(r, part)
		sub := methodCall(vr, "(types.BigInt).Sub")
		if sub == nil {
			o.fail(c.A.Pos(r.Pos()), "result #%d is %s, not a subtraction from %s", rem, desc(vr, 5), totalParam)
			continue
		}
		if p, isP := stripConv(sub.Call.Args[0]).(*ssa.Parameter); !isP || identName(p) != totalParam {
			o.fail(c.A.Pos(r.Pos()), "the subtraction is from %s, not from %s", desc(sub.Call.Args[0], 5), totalParam)
		}
		if stripConv(sub.Call.Args[1]) != stripConv(vp) {
			o.fail(c.A.Pos(r.Pos()), "the value subtracted (%s) is not the value returned as the other part (%s)", desc(sub.Call.Args[1], 4), desc(vp, 4))
		}
	}
	if o.Facts == 0 {
		o.unresolved("no return found")
	}
	return *o
}

// splitLoop: the SplitNodeRewards loop conserves the total.
func (c *Ctx) splitLoop(P string) []Obligation {
	name := "x/nodes/keeper.SplitNodeRewards"
	o := c.obl(P, "split.remains-tracks-payouts", name, "remains starts at rewards and is reduced, per delegator, by exactly the allocation handed to the callback; the remainder goes to the primary recipient")
	fn := c.A.Fn(name)
	if fn == nil {
		o.unresolved("not found")
		return []Obligation{*o}
	}
	o.Pos = c.A.FnPos(fn)
	var rewards, primary, cb *ssa.Parameter
	for _, p := range fn.Params {
		switch p.Name() {
		case "rewards":
			rewards = p
		case "primaryRecipient":
			primary = p
		case "shareRewardsCallback":
			cb = p
		}
	}
	if rewards == nil || primary == nil || cb == nil {
		o.unresolved("parameters rewards/primaryRecipient/shareRewardsCallback not found")
		return []Obligation{*o}
	}
	// the remains phi
	var remains *ssa.Phi
	for _, b := range fn.Blocks {
		for _, ins := range b.Instrs {
			if ph, ok := ins.(*ssa.Phi); ok && identName(ph) == "remains" {
				remains = ph
			}
		}
	}
	if remains == nil {
		o.unresolved("no loop-carried remains value found")
		return []Obligation{*o}
	}
	var allocs []ssa.Value
	for _, e := range remains.Edges {
		o.Facts++
		if stripConv(e) == ssa.Value(rewards) {
			continue
		}
		sub := methodCall(e, "(types.BigInt).Sub")
		if sub == nil || stripConv(sub.Call.Args[0]) != ssa.Value(remains) {
			o.fail(c.A.Pos(remains.Pos()), "remains may become %s, which is neither rewards nor remains minus an allocation", desc(e, 5))
			continue
		}
		allocs = append(allocs, stripConv(sub.Call.Args[1]))
	}
	if len(allocs) != 1 {
		o.fail(c.A.Pos(remains.Pos()), "expected exactly one subtraction from remains per iteration, found %d", len(allocs))
	}
	// every callback call
	nLoop, nFinal := 0, 0
	for _, b := range fn.Blocks {
		for _, ins := range b.Instrs {
			call, ok := ins.(*ssa.Call)
			if !ok || call.Call.IsInvoke() || stripConv(call.Call.Value) != ssa.Value(cb) {
				continue
			}
			o.Facts++
			amt := stripConv(call.Call.Args[1])
			switch {
			case len(allocs) == 1 && amt == allocs[0]:
				nLoop++
				if stripConv(call.Call.Args[0]) == ssa.Value(primary) {
					o.fail(c.A.Pos(call.Pos()), "a delegator allocation is paid to the primary recipient")
				}
			case amt == ssa.Value(remains):
				nFinal++
				if stripConv(call.Call.Args[0]) != ssa.Value(primary) {
					o.fail(c.A.Pos(call.Pos()), "the remainder is paid to %s, not to the primary recipient", desc(call.Call.Args[0], 4))
				}
			default:
				o.fail(c.A.Pos(call.Pos()), "the callback is handed %s, which is neither the allocation subtracted from remains nor remains itself", desc(amt, 5))
			}
		}
	}
	if nLoop != 1 || nFinal != 1 {
		o.fail("", "expected one payout of the allocation and one payout of the remainder, found %d and %d", nLoop, nFinal)
	}
	alloc := `\(types\.BigDec\)\.TruncateInt\(\(types\.BigDec\)\.Mul\(\(types\.BigInt\)\.ToDec\(rewards\), types\.NewDecWithPrec\(conv<int64>\(x/nodes/types\.NormalizeRewardDelegators\(delegators\)#0\[\(phi:rangeindex \+ 1\)\]\.RewardShare\), 2\)\)\)`
	rows := c.Rows([]Row{
		{Prop: P, ID: "split.allocation-is-share-percent-of-total", Fn: name,
			Target: CallTo(`^dyn:shareRewardsCallback\(`).Except(`^dyn:shareRewardsCallback\(x/nodes/types\.NormalizeRewardDelegators\(delegators\)#0\[\(phi:rangeindex \+ 1\)\]\.Address, ` + alloc + `\)$|^dyn:shareRewardsCallback\(primaryRecipient, phi:remains\)$`),
			Why: "a delegator receives its share percent of the total, rounded down, at its own address"},
		{Prop: P, ID: "split.every-allocation-subtracted", Fn: name,
			Target: CallTo(`^\(types\.BigInt\)\.Sub\(`).Except(`^\(types\.BigInt\)\.Sub\(phi:remains, ` + alloc + `\)$`), Why: "what is subtracted from remains is that delegator's allocation"},
		{Prop: P, ID: "split.remainder-paid-if-positive", Fn: name, Assume: []Lit{T(`^\(types\.BigInt\)\.IsPositive\(rewards\)$`), F(`^nonnil\(x/nodes/types\.NormalizeRewardDelegators\(delegators\)#1\)$`), T(`^\(types\.BigInt\)\.IsPositive\(phi:remains\)$`)},
			Barrier: []string{`^dyn:shareRewardsCallback\(primaryRecipient, phi:remains\)`}, Target: Success(), Why: "a positive remainder always reaches the primary recipient"},
		{Prop: P, ID: "split.invalid-delegators-pay-nothing", Fn: name, Assume: []Lit{T(`^nonnil\(x/nodes/types\.NormalizeRewardDelegators\(delegators\)#1\)$`)},
			Target: CallTo(`^dyn:shareRewardsCallback\(`), Why: "no partial payout happens for an invalid delegator table"},
	})
	pos := c.edgeMust(P, "split.positive-allocation-is-paid", name, `^\(types\.BigInt\)\.IsPositive\(`+alloc+`\)$`, true, `^dyn:shareRewardsCallback\(`, 1, "every positive allocation is handed to the callback before it is subtracted")
	return append([]Obligation{*o, pos}, rows...)
}

func runC26(c *Ctx) []Obligation {
	P := "C26"
	var out []Obligation
	out = append(out,
		c.remainderIdiom(P, "splitRewards.node-is-remainder", "(x/nodes/keeper.Keeper).splitRewards", 0, 1, "reward", "the servicer's portion and the fee collector's portion add up to the reward"),
		c.remainderIdiom(P, "splitFees.proposer-is-remainder", "(x/nodes/keeper.Keeper).splitFeesCollected", 1, 0, "feesCollected", "the DAO's and the proposer's parts add up to the fees"),
	)
	out = append(out, c.splitLoop(P)...)
	calc := `\(x/nodes/keeper\.Keeper\)\.CalculateRelayReward\(var:k, var:ctx, chain, relays, \(x/nodes/types\.Validator\)\.GetTokens\(\(x/nodes/keeper\.Keeper\)\.GetValidator\(var:k, var:ctx, address\)#0\)\)`
	val := `\(x/nodes/keeper\.Keeper\)\.GetValidator\(var:k, var:ctx, address\)#0`
	fn := "(x/nodes/keeper.Keeper).RewardForRelaysPerChain"
	fees := `\(x/nodes/keeper\.Keeper\)\.splitFeesCollected\(var:k, var:ctx, \(types\.Coins\)\.AmountOf\(invoke x/auth/exported\.ModuleAccountI\.GetCoins\(\(x/nodes/keeper\.Keeper\)\.getFeePool\(var:k, var:ctx\)\), "upokt"\)\)`
	out = append(out, c.Rows([]Row{
		{Prop: P, ID: "calc.both-parts-of-one-split", Fn: "(x/nodes/keeper.Keeper).CalculateRelayReward",
			Target: RetNotMatch(0, `^\(x/nodes/keeper\.Keeper\)\.splitRewards\(k, ctx, phi:coins\)#0$`), Why: "the servicer's portion is result #0 of the split of the computed coins"},
		{Prop: P, ID: "calc.both-parts-of-one-split.fees", Fn: "(x/nodes/keeper.Keeper).CalculateRelayReward",
			Target: RetNotMatch(1, `^\(x/nodes/keeper\.Keeper\)\.splitRewards\(k, ctx, phi:coins\)#1$`), Why: "the fee collector's portion is result #1 of the same split"},
		{Prop: P, ID: "reward.mint-amounts", Fn: fn,
			Target: CallTo(`^\(x/nodes/keeper\.Keeper\)\.mint\(`).Except(`^\(x/nodes/keeper\.Keeper\)\.mint\(var:k, var:ctx, phi:rewardCost, ` + val + `\.Address\)$|^\(x/nodes/keeper\.Keeper\)\.mint\(var:k, var:ctx, ` + calc + `#1, invoke x/auth/exported\.ModuleAccountI\.GetAddress\(\(x/nodes/keeper\.Keeper\)\.getFeePool\(var:k, var:ctx\)\)\)$`),
			Why: "outside the split callback, only the reward cost (to the operator) and the fee collector's portion (to the fee pool) are minted"},
		{Prop: P, ID: "reward.cost-subtracted-from-node-portion", Fn: fn, Barrier: []string{`^\(types\.BigInt\)\.Sub\(` + calc + `#0, phi:rewardCost\)`},
			Target: CallTo(`^x/nodes/keeper\.SplitNodeRewards\(`), From: `^\(x/nodes/keeper\.Keeper\)\.mint\(var:k, var:ctx, phi:rewardCost, `, Why: "once the reward cost is minted, the portion that is split is reduced by that same value"},
		{Prop: P, ID: "reward.sub-only-after-mint", Fn: fn, Barrier: []string{`^\(x/nodes/keeper\.Keeper\)\.mint\(var:k, var:ctx, phi:rewardCost, `},
			Target: CallTo(`^\(types\.BigInt\)\.Sub\(` + calc + `#0, `), TargetMustExist: true, Why: "the servicer's portion is reduced only by an amount that was minted"},
		{Prop: P, ID: "reward.cost-capped-at-node-portion", Fn: fn, Assume: []Lit{T(`^LT<types\.BigInt>\(` + calc + `#0, \(x/nodes/keeper\.Keeper\)\.GetRewardCost\(var:k, var:ctx\)\)$`)},
			Target: CallTo(`^\(x/nodes/keeper\.Keeper\)\.mint\(var:k, var:ctx, `).Except(`^\(x/nodes/keeper\.Keeper\)\.mint\(var:k, var:ctx, ` + calc + `#[01], `), Why: "a reward cost above the servicer's portion is capped at that portion (never more than computed is minted)"},
		{Prop: P, ID: "reward.split-operand", Fn: fn,
			Target: CallTo(`^x/nodes/keeper\.SplitNodeRewards\(`).Except(`^x/nodes/keeper\.SplitNodeRewards\(invoke types\.Ctx\.Logger\(var:ctx\), phi:toNode, phi:address, ` + val + `\.RewardDelegators, closure:\(x/nodes/keeper\.Keeper\)\.RewardForRelaysPerChain\$1\)$`),
			Why: "what is split among delegators and the output address is the (reduced) servicer's portion"},
		{Prop: P, ID: "reward.split-callback-mints-share", Fn: fn + "$1",
			Target: CallTo(`^\(x/nodes/keeper\.Keeper\)\.mint\(`).Except(`^\(x/nodes/keeper\.Keeper\)\.mint\(free:k, free:ctx, share, recipient\)$`), Why: "each share is minted to its recipient, as given"},
		{Prop: P, ID: "reward.split-callback-mints", Fn: fn + "$1", Barrier: []string{`^\(x/nodes/keeper\.Keeper\)\.mint\(free:k, free:ctx, share, recipient\)`}, Target: TargetAnyReturn(), Why: "each share is minted"},
		{Prop: P, ID: "reward.fee-portion-minted", Fn: fn, Assume: []Lit{T(`^\(types\.BigInt\)\.IsPositive\(` + calc + `#1\)$`)},
			Barrier: []string{`^\(x/nodes/keeper\.Keeper\)\.mint\(var:k, var:ctx, ` + calc + `#1, `}, Target: TargetAnyReturn(), From: `^x/nodes/keeper\.SplitNodeRewards\(`, Why: "a positive fee collector's portion is always minted to the fee pool"},
		{Prop: P, ID: "reward.one-calculation", Fn: fn,
			Target: CallTo(`CalculateRelayReward\(`).Except(`^` + calc + `$`), Why: "both portions come from one calculation for this servicer's stake"},
		// block reward
		{Prop: P, ID: "block.dao-gets-dao-cut", Fn: "(x/nodes/keeper.Keeper).blockReward",
			Target: CallTo(`^invoke x/nodes/types\.AuthKeeper\.SendCoinsFromAccountToModule\(`).Except(`^invoke x/nodes/types\.AuthKeeper\.SendCoinsFromAccountToModule\(var:k\.AccountKeeper, var:ctx, var:feeAddr, "dao", types\.NewCoins\(\[types\.NewCoin\("upokt", ` + fees + `#0\)\]\)\)$`),
			Why: "the DAO receives exactly the DAO cut, from the fee pool"},
		{Prop: P, ID: "block.proposer-gets-proposer-cut", Fn: "(x/nodes/keeper.Keeper).blockReward",
			Target: CallTo(`^invoke x/nodes/types\.AuthKeeper\.SendCoins\(`).Except(`^invoke x/nodes/types\.AuthKeeper\.SendCoins\(var:k\.AccountKeeper, var:ctx, var:feeAddr, previousProposer, types\.NewCoins\(\[types\.NewCoin\("upokt", ` + fees + `#1\)\]\)\)$`),
			Why: "before the non-custodial upgrade the proposer receives exactly the proposer cut"},
		{Prop: P, ID: "block.proposer-cut-is-split", Fn: "(x/nodes/keeper.Keeper).blockReward",
			Target: CallTo(`^x/nodes/keeper\.SplitNodeRewards\(`).Except(`^x/nodes/keeper\.SplitNodeRewards\(invoke types\.Ctx\.Logger\(var:ctx\), ` + fees + `#1, \(x/nodes/keeper\.Keeper\)\.GetOutputAddressFromValidator\(var:k, var:validator\), var:validator\.RewardDelegators, closure:`),
			Why: "after it, exactly the proposer cut is split between the proposer's output address and delegators"},
		{Prop: P, ID: "block.one-split", Fn: "(x/nodes/keeper.Keeper).blockReward",
			Target: CallTo(`splitFeesCollected\(`).Except(`^` + fees + `$`), Why: "both cuts come from one split of the fee pool's balance"},
		{Prop: P, ID: "block.split-callback-sends-share", Fn: "(x/nodes/keeper.Keeper).blockReward$1",
			Target: CallTo(`^invoke x/nodes/types\.AuthKeeper\.`).Except(`^invoke x/nodes/types\.AuthKeeper\.SendCoins\(free:k\.AccountKeeper, free:ctx, free:feeAddr, recipient, types\.NewCoins\(\[types\.NewCoin\("upokt", share\)\]\)\)$`),
			Why: "each share of the proposer cut is sent from the fee pool to its recipient, as given"},
	})...)
	out = append(out, rewardOperands(c, P)...)
	return out
}
