package main

import (
	"crypto/sha256"
	"encoding/hex"
	"encoding/json"
	"flag"
	"fmt"
	"io"
	"os"
	"path/filepath"
	"regexp"
	"sort"
	"strconv"
	"strings"
	"syscall"
	"time"
)

// Prop is one property's static check: a function producing obligations.
type Prop struct {
	ID          string
	Title       string
	Technique   string
	Explanation string   // what is decided, by which rules
	NotDecided  string   // what is explicitly not decided
	Assumptions []string // extra assumptions of the rules
	LevelText   string
	MinObl      int // minimum number of obligations (confirmed by hand); fewer => broken check
	Run         func(c *Ctx) []Obligation
	DesignRef   string
}

var registry = map[string]*Prop{}

func register(p *Prop) { registry[p.ID] = p }

type NA struct{ ID, Reason string }

var notApplicable []NA

// Ctx is handed to property checks.
type Ctx struct {
	A    *Analysis
	E1   *e1Engine
	Tier string
}

func (c *Ctx) Rows(rows []Row) []Obligation {
	var out []Obligation
	for _, r := range rows {
		out = append(out, c.E1.Check(r))
	}
	return out
}

type PropResult struct {
	ID          string       `json:"id"`
	Obligations []Obligation `json:"obligations"`
	Error       string       `json:"error,omitempty"`
	WallS       float64      `json:"wall_s"`
}

type RunResult struct {
	Digest      string                 `json:"digest"`
	Tier        string                 `json:"tier"`
	Files       int                    `json:"files"`
	Packages    int                    `json:"packages"`
	Functions   int                    `json:"functions"`
	Edges       int                    `json:"edges"`
	LoadS       float64                `json:"load_s"`
	Unresolved  []string               `json:"unresolved,omitempty"`
	Props       map[string]*PropResult `json:"props"`
	FatalError  string                 `json:"fatal,omitempty"`
	GeneratedAt string                 `json:"generated_at"`
}

var verifDir = "/verif"

func main() {
	var (
		repo      = flag.String("repo", "/repo", "repository working tree to analyse")
		prop      = flag.String("p", "", "property id (C01..C43) or 'all'")
		tier      = flag.String("tier", "quick", "quick|thorough")
		bootstrap = flag.String("bootstrap", "", "regexp over function names: dump atoms/calls/returns")
		replay    = flag.String("replay", "", "replay file: re-evaluate that obligation on the current tree")
		manifest  = flag.Bool("manifest", false, "write MANIFEST.json from the registry")
		nocache   = flag.Bool("nocache", false, "ignore cached analysis results")
		dumpcg    = flag.String("callers", "", "regexp over function names: print in-repo callers")
		freeze    = flag.Bool("freeze-names", false, "record the identifiers of the current tree in cmd/vcheck/names.json (authoring step, followed by a rebuild)")
		lint      = flag.Bool("lint", false, "print vacuous rows and unmatched atoms (authoring aid)")
		vdir      = flag.String("verif", "", "verif directory (default: directory containing bin/)")
	)
	flag.Parse()
	if *vdir != "" {
		verifDir = *vdir
	} else if exe, err := os.Executable(); err == nil {
		d := filepath.Dir(filepath.Dir(exe))
		if _, err := os.Stat(filepath.Join(d, "properties.jsonl")); err == nil {
			verifDir = d
		}
	}
	if t := os.Getenv("VERIF_TIER"); t != "" && !isFlagSet("tier") {
		*tier = t
	}
	if *tier != "quick" && *tier != "thorough" {
		fatal(2, "bad tier %q", *tier)
	}
	if *manifest {
		writeManifest()
		return
	}
	if *freeze {
		a, err := Load(*repo, "")
		if err != nil {
			fatal(2, "load: %v", err)
		}
		if err := freezeNames(a, verifDir); err != nil {
			fatal(2, "freeze-names: %v", err)
		}
		fmt.Println("names.json written; rebuild the checker")
		return
	}
	if *bootstrap != "" || *dumpcg != "" {
		a, err := Load(*repo, "")
		if err != nil {
			fatal(2, "load: %v", err)
		}
		e := newE1(a)
		if *bootstrap != "" {
			re := regexp.MustCompile(*bootstrap)
			var names []string
			for n := range a.fnIndex {
				if re.MatchString(n) {
					names = append(names, n)
				}
			}
			sort.Strings(names)
			for _, n := range names {
				for _, f := range a.fnIndex[n] {
					if f.Blocks != nil {
						fmt.Print(e.Bootstrap(f))
					}
				}
			}
		}
		if *dumpcg != "" {
			re := regexp.MustCompile(*dumpcg)
			var names []string
			for n := range a.fnIndex {
				if re.MatchString(n) {
					names = append(names, n)
				}
			}
			sort.Strings(names)
			for _, n := range names {
				for _, f := range a.fnIndex[n] {
					fmt.Printf("%s  (%s)\n", n, a.FnPos(f))
					for _, c := range a.Callers(f) {
						fmt.Printf("    <- %s\n", FnName(c))
					}
				}
			}
		}
		return
	}
	if *replay != "" {
		doReplay(*repo, *replay, *tier)
		return
	}
	if *prop == "" {
		fatal(2, "need -p <property>|all")
	}
	start := time.Now()
	rr := analyse(*repo, *tier, *nocache)
	if rr.FatalError != "" {
		fmt.Printf("BROKEN: %s\n", rr.FatalError)
		os.Exit(2)
	}
	ids := []string{*prop}
	if *prop == "all" {
		ids = ids[:0]
		for id := range registry {
			ids = append(ids, id)
		}
		sort.Strings(ids)
	}
	kf := loadKnownFindings()
	exit := 0
	for _, id := range ids {
		p := registry[id]
		if p == nil {
			fatal(2, "property %s is not claimed (see MANIFEST.json not_applicable)", id)
		}
		pr := rr.Props[id]
		if pr == nil {
			fatal(2, "no result for %s", id)
		}
		code := emit(p, pr, rr, kf, *tier, time.Since(start).Seconds(), *lint)
		if code > exit {
			exit = code
		}
	}
	os.Exit(exit)
}

func isFlagSet(name string) bool {
	set := false
	flag.Visit(func(f *flag.Flag) {
		if f.Name == name {
			set = true
		}
	})
	return set
}

func fatal(code int, f string, args ...interface{}) {
	fmt.Fprintf(os.Stderr, "vcheck: "+f+"\n", args...)
	os.Exit(code)
}

func selfHash() string {
	exe, err := os.Executable()
	if err != nil {
		return "x"
	}
	f, err := os.Open(exe)
	if err != nil {
		return "x"
	}
	defer f.Close()
	h := sha256.New()
	io.Copy(h, f)
	return hex.EncodeToString(h.Sum(nil))[:12]
}

// analyse runs every registered property once for the current tree digest
// and caches the result; later invocations for the same tree re-emit from it.
func analyse(repo, tier string, nocache bool) *RunResult {
	digest, nfiles, err := RepoDigest(repo)
	if err != nil {
		return &RunResult{FatalError: "digest: " + err.Error()}
	}
	cdir := filepath.Join(verifDir, ".cache")
	os.MkdirAll(cdir, 0o755)
	key := fmt.Sprintf("%s-%s-%s", digest, selfHash(), tier)
	cfile := filepath.Join(cdir, key+".json")
	// one analysis at a time
	lock, err := os.OpenFile(filepath.Join(cdir, "lock"), os.O_CREATE|os.O_RDWR, 0o644)
	if err == nil {
		syscall.Flock(int(lock.Fd()), syscall.LOCK_EX)
		defer func() { syscall.Flock(int(lock.Fd()), syscall.LOCK_UN); lock.Close() }()
	}
	if !nocache {
		if b, err := os.ReadFile(cfile); err == nil {
			var rr RunResult
			if json.Unmarshal(b, &rr) == nil && rr.Digest == digest && rr.Props != nil {
				return &rr
			}
		}
	}
	rr := &RunResult{Digest: digest, Tier: tier, Files: nfiles, Props: map[string]*PropResult{}, GeneratedAt: time.Now().UTC().Format(time.RFC3339)}
	if err := fixtureCheck(); err != nil {
		rr.FatalError = err.Error()
		return rr
	}
	t0 := time.Now()
	a, err := Load(repo, "")
	if err != nil {
		rr.FatalError = err.Error()
		return rr
	}
	rr.LoadS = time.Since(t0).Seconds()
	rr.Packages, rr.Functions, rr.Edges = a.NPackages, a.NFunctions, a.NEdges
	c := &Ctx{A: a, E1: newE1(a), Tier: tier}
	var ids []string
	for id := range registry {
		ids = append(ids, id)
	}
	sort.Strings(ids)
	for _, id := range ids {
		p := registry[id]
		t1 := time.Now()
		pr := &PropResult{ID: id}
		func() {
			defer func() {
				if r := recover(); r != nil {
					pr.Error = fmt.Sprintf("panic: %v", r)
				}
			}()
			pr.Obligations = p.Run(c)
		}()
		pr.WallS = time.Since(t1).Seconds()
		rr.Props[id] = pr
	}
	rr.Unresolved = a.Unresolved
	if tier == "thorough" {
		thoroughExtras(repo, a, rr, ids)
	}
	b, _ := json.Marshal(rr)
	os.WriteFile(cfile, b, 0o644)
	pruneCache(cdir, 6)
	return rr
}

func pruneCache(dir string, keep int) {
	ents, err := os.ReadDir(dir)
	if err != nil {
		return
	}
	type fi struct {
		name string
		mod  time.Time
	}
	var fs []fi
	for _, e := range ents {
		if strings.HasSuffix(e.Name(), ".json") {
			if info, err := e.Info(); err == nil {
				fs = append(fs, fi{e.Name(), info.ModTime()})
			}
		}
	}
	sort.Slice(fs, func(i, j int) bool { return fs[i].mod.After(fs[j].mod) })
	for i := keep; i < len(fs); i++ {
		os.Remove(filepath.Join(dir, fs[i].name))
	}
}

type knownFinding struct {
	Prop, Rule, Construct, What string
}

func loadKnownFindings() []knownFinding {
	b, err := os.ReadFile(filepath.Join(verifDir, "known_findings.txt"))
	if err != nil {
		return nil
	}
	var out []knownFinding
	re := regexp.MustCompile(`^finding:\s+property=(\S+)\s+rule=(\S+)\s+construct=(\S+)\s+--\s+(.*)$`)
	for _, l := range strings.Split(string(b), "\n") {
		l = strings.TrimSpace(l)
		if m := re.FindStringSubmatch(l); m != nil {
			out = append(out, knownFinding{m[1], m[2], m[3], m[4]})
		}
	}
	return out
}

func sanitize(s string) string {
	return regexp.MustCompile(`[^A-Za-z0-9_.-]+`).ReplaceAllString(s, "_")
}

func emit(p *Prop, pr *PropResult, rr *RunResult, kf []knownFinding, tier string, wall float64, lint bool) int {
	outDir := filepath.Join(verifDir, "out", p.ID)
	os.RemoveAll(outDir)
	os.MkdirAll(outDir, 0o755)
	broken := ""
	if pr.Error != "" {
		broken = pr.Error
	}
	nViol, nKnown, nOK, nUnres, facts := 0, 0, 0, 0, 0
	distinct := map[string]bool{}
	var samples []interface{}
	var lines, all []string
	for i := range pr.Obligations {
		o := &pr.Obligations[i]
		facts += o.Facts
		st := o.Status
		if st == "VIOLATION" {
			for _, k := range kf {
				if k.Prop == p.ID && k.Rule == o.Rule && k.Construct == o.Construct {
					st = "KNOWN-FINDING"
					lines = append(lines, fmt.Sprintf("KNOWN-FINDING: property=%s %s [rule=%s construct=%s at %s]", p.ID, k.What, o.Rule, o.Construct, o.Pos))
				}
			}
		}
		switch st {
		case "OK":
			nOK++
			if !o.Vacuous {
				distinct[o.Rule+"|"+o.Construct] = true
			}
			if lint && o.Vacuous {
				lines = append(lines, fmt.Sprintf("LINT vacuous: %s %s %s: %s", p.ID, o.Rule, o.Construct, o.Detail))
			}
		case "KNOWN-FINDING":
			nKnown++
			distinct[o.Rule+"|"+o.Construct] = true
		case "UNRESOLVED":
			nUnres++
			lines = append(lines, fmt.Sprintf("UNRESOLVED property=%s rule=%s construct=%s: %s", p.ID, o.Rule, o.Construct, o.Detail))
		case "VIOLATION":
			nViol++
			distinct[o.Rule+"|"+o.Construct] = true
			rp := filepath.Join(outDir, sanitize(o.Rule+"-"+o.Construct)+".json")
			rb, _ := json.MarshalIndent(map[string]interface{}{"property": p.ID, "obligation": o, "digest": rr.Digest, "tier": tier}, "", " ")
			os.WriteFile(rp, rb, 0o644)
			lines = append(lines, fmt.Sprintf("VIOLATION property=%s replay=%s", p.ID, rp))
			lines = append(lines, fmt.Sprintf("  rule=%s construct=%s at %s: %s", o.Rule, o.Construct, o.Pos, o.Detail))
			lines = append(lines, fmt.Sprintf("  obligation: %s", o.Desc))
		}
		vac := ""
		if o.Vacuous {
			vac = " (vacuous)"
		}
		all = append(all, fmt.Sprintf("%s | %s | %s | %s%s | facts=%d", o.Rule, o.Construct, o.Pos, st, vac, o.Facts))
		if len(samples) < 6 || st != "OK" && len(samples) < 14 {
			samples = append(samples, map[string]interface{}{"rule": o.Rule, "construct": o.Construct, "obligation": o.Desc, "verdict": st, "pos": o.Pos, "detail": o.Detail})
		}
	}
	if f := minOblFloor[p.ID]; f > p.MinObl {
		p.MinObl = f
	}
	if len(pr.Obligations) < p.MinObl && broken == "" {
		broken = fmt.Sprintf("only %d obligations evaluated, %d confirmed by hand: rule tables no longer match the code", len(pr.Obligations), p.MinObl)
	}
	for _, l := range lines {
		fmt.Println(l)
	}
	ev := map[string]interface{}{
		"property_id": p.ID,
		"tier":        tier,
		"seed":        seedEnv(),
		"level":       "other",
		"coverage": map[string]interface{}{
			"explanation":         p.Explanation + explanationAddenda[p.ID] + " NOT DECIDED: " + p.NotDecided,
			"obligations":         len(pr.Obligations),
			"discharged":          nOK + nKnown,
			"known_findings":      nKnown,
			"unresolved":          nUnres,
			"evaluations":         facts,
			"distinct_nontrivial": len(distinct),
			"rule":                "one obligation per (rule, construct) row of the frozen table; evaluations counts the SSA instructions / call-graph edges / sites inspected for them; distinct_nontrivial counts rows that matched at least one construct in today's tree (non-vacuous)",
			"samples":             samples,
			"obligation_list":     all,
			"checker_cmd":         fmt.Sprintf("./bin/vcheck -p %s -tier %s", p.ID, tier),
			"trusted_base":        []string{"go/types type checker", "golang.org/x/tools v0.29.0 go/ssa, callgraph/vta", "the rule tables in /verif/cmd/vcheck (each row confirmed by reading)"},
			"packages":            rr.Packages,
			"functions_with_ssa":  rr.Functions,
			"callgraph_edges":     rr.Edges,
			"repo_digest":         rr.Digest,
			"go_files_hashed":     rr.Files,
			"analysis_load_s":     rr.LoadS,
			"property_rules_s":    pr.WallS,
		},
		"assumptions": append([]string{
			"external libraries call back into repo code only through function or interface values handed to them at the call site",
			"reflection, unsafe, cgo and assembly are not modelled",
			"branch atoms are pure within one activation of a function",
		}, p.Assumptions...),
		"wall_s":     wall,
		"violations": nViol,
	}
	os.MkdirAll(filepath.Join(verifDir, "evidence"), 0o755)
	eb, _ := json.MarshalIndent(ev, "", " ")
	os.WriteFile(filepath.Join(verifDir, "evidence", p.ID+".json"), eb, 0o644)
	fmt.Printf("%s: %d obligations, %d ok, %d known findings, %d violations, %d unresolved (%d facts, tree %s)\n", p.ID, len(pr.Obligations), nOK, nKnown, nViol, nUnres, facts, rr.Digest)
	if nViol > 0 {
		return 1
	}
	if broken != "" {
		fmt.Printf("BROKEN property=%s: %s\n", p.ID, broken)
		return 2
	}
	if nUnres > 0 {
		fmt.Printf("BROKEN property=%s: %d rule anchors do not resolve in this tree; no verdict\n", p.ID, nUnres)
		return 2
	}
	return 0
}

func seedEnv() int {
	if s := os.Getenv("VERIF_SEED"); s != "" {
		if n, err := strconv.Atoi(s); err == nil {
			return n
		}
	}
	return 0
}

func doReplay(repo, path, tier string) {
	b, err := os.ReadFile(path)
	if err != nil {
		fatal(2, "replay: %v", err)
	}
	var rp struct {
		Property   string     `json:"property"`
		Obligation Obligation `json:"obligation"`
	}
	if err := json.Unmarshal(b, &rp); err != nil {
		fatal(2, "replay: %v", err)
	}
	fmt.Printf("stored report:\n  property=%s rule=%s construct=%s\n  %s\n  at %s: %s\n", rp.Property, rp.Obligation.Rule, rp.Obligation.Construct, rp.Obligation.Desc, rp.Obligation.Pos, rp.Obligation.Detail)
	rr := analyse(repo, tier, false)
	if rr.FatalError != "" {
		fatal(2, "%s", rr.FatalError)
	}
	pr := rr.Props[rp.Property]
	if pr == nil {
		fatal(2, "property %s not claimed", rp.Property)
	}
	for _, o := range pr.Obligations {
		if o.Rule == rp.Obligation.Rule && o.Construct == rp.Obligation.Construct {
			fmt.Printf("current tree (%s): %s %s\n", rr.Digest, o.Status, o.Detail)
			if o.Status == "VIOLATION" {
				fmt.Printf("VIOLATION property=%s replay=%s\n", rp.Property, path)
				os.Exit(1)
			}
			os.Exit(0)
		}
	}
	fmt.Println("obligation no longer exists in the rule tables")
	os.Exit(2)
}

func init() {
	// Properties without a check in this revision. Entries whose id is
	// registered are dropped from the manifest automatically.
	for _, n := range []NA{
		{"C22", "cumulative equality between an accumulated validator-update stream and a sorted top-N set over histories: a runtime value relation, no structural necessary condition worth a claim"},
		{"C29", "generate/verify round-trip equality of Merkle hashes over all set sizes and indices: pure value computation, not visible in the shape of the code"},
		{"C41", "value-level arithmetic of coin sets, big integers and decimals: nothing beyond what the type checker already enforces is structural"},
	} {
		notApplicable = append(notApplicable, n)
	}
	for i := 1; i <= 43; i++ {
		id := fmt.Sprintf("C%02d", i)
		switch id {
		case "C22", "C29", "C41":
			continue
		}
		notApplicable = append(notApplicable, NA{id, "no static check has been built for this property yet in this revision of /verif (planned, see DESIGN.md section 3)"})
	}
}
