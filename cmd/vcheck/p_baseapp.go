package main

import (
	"strings"

	"golang.org/x/tools/go/ssa"
)

// C11: CheckTx, simulation and queries never alter consensus state.

const (
	fnGetCtxForTx = "(*baseapp.BaseApp).getContextForTx"
	fnCacheTxCtx  = "(*baseapp.BaseApp).cacheTxContext"
	fnTxCtx       = "(*baseapp.BaseApp).txContext"
	fnQueryCustom = "baseapp.handleQueryCustom"
	fnQueryStore  = "baseapp.handleQueryStore"
	reCacheCtx    = `^\(\*baseapp\.BaseApp\)\.cacheTxContext\(app, .*\)#0$|^invoke types\.Ctx\.CacheContext\(.*\)#0$|^\(types\.Context\)\.CacheContext\(.*\)#0$`
	// tree / node-db mutators of the forked IAVL store
	reTreeMutators = `^\(\*store/iavl\.MutableTree\)\.(Set|Remove|SaveVersion|DeleteVersion|DeleteVersionsFrom|LoadVersionForOverwriting|Rollback|set|remove|recursiveSet|recursiveRemove)$|^\(\*store/iavl\.nodeDB\)\.(SaveNode|SaveBranch|SaveOrphans|SaveRoot|SaveEmptyRoot|Commit|DeleteVersion|DeleteVersionsFrom|deleteOrphans|deleteRoot|saveRoot)$|^\(\*store/iavl\.Store\)\.(Set|Delete|Commit|Rollback)$|^\(\*store/rootmulti\.Store\)\.(Commit|RollbackVersion|commitStores)$`
)

func init() {
	register(&Prop{
		ID: "C11", Title: "CheckTx, simulation and queries never alter consensus state",
		Technique: "mode-wise pruned-CFG reachability in runTx/runMsg, context-store provenance, call-graph non-reachability of tree mutators from query entry points, field-access table",
		DesignRef: "DESIGN.md §3 C11, Appendix A.1 rows 13-15",
		Explanation: "In runTx, outside deliver mode no cache multistore is ever flushed; the ante handler always runs on the cacheTxContext result; in check mode runMsg never calls a handler; in simulate mode the context handed to runMsg (hence to the handler) must wrap a cache (cacheTxContext / CacheContext), not the root multistore; cacheTxContext really wraps ctx.MultiStore().CacheMultiStore(); handleQueryCustom hands queriers a context over LoadLazyVersion(height), never app.cms; the Queryable closure behind store queries reaches no tree mutator; only the block life-cycle methods touch deliverState; PocketCoreApp.NewContext (all RPC queries) returns a PrevCtx.",
		NotDecided:  "writes a querier might make into a lazily loaded store's own working tree (not consensus state), the shared height cache (C10), and the ctx==height-0 corner of PocketCoreApp.NewContext (value-dependent).",
		MinObl:      12,
		Run:         runC11,
	})
}

func runC11(c *Ctx) []Obligation {
	P := "C11"
	deliver, simulate, check := c.modeIs("runTxModeDeliver"), c.modeIs("runTxModeSimulate"), c.modeIs("runTxModeCheck")
	rows := []Row{
		{Prop: P, ID: "runTx.nondeliver-no-flush", Fn: fnRunTx,
			Assume: []Lit{F(deliver)},
			Target: CallTo(`CacheMultiStore\.Write\(|\.Write\(\)$`), Why: "outside deliver mode nothing is flushed towards the root store"},
		{Prop: P, ID: "runMsg.check-skips-handler", Fn: fnRunMsg,
			Assume: []Lit{T(check)},
			Target: CallTo(`^dyn:`), Why: "CheckTx never executes a message handler"},
		{Prop: P, ID: "runMsg.handler-ctx-is-param", Fn: fnRunMsg,
			Target: CallTo(`^dyn:invoke types\.Router\.Route\(`).Except(`\)\(ctx, msg, signer\)$`),
			Why:    "the handler runs on exactly the context runTx handed to runMsg"},
		{Prop: P, ID: "runTx.simulate-handler-on-cache", Fn: fnRunTx,
			Assume: []Lit{F(deliver), T(simulate), F(check)},
			Target: CallTo(`^\(\*baseapp\.BaseApp\)\.runMsg\(`).Except(`^\(\*baseapp\.BaseApp\)\.runMsg\(app, (\(\*baseapp\.BaseApp\)\.cacheTxContext\(app, |invoke types\.Ctx\.CacheContext\(|\(types\.Context\)\.CacheContext\()`),
			Why:    "in simulate mode (unsigned transactions are accepted there) the handler context must wrap a cache, never the root multistore"},
		{Prop: P, ID: "runTx.ante-on-cache", Fn: fnRunTx,
			Target: CallTo(`^dyn:app\.anteHandler\(`).Except(`^dyn:app\.anteHandler\(\(\*baseapp\.BaseApp\)\.cacheTxContext\(app, `),
			Why:    "the ante handler (fee deduction) always runs on a cache-wrapped context"},
		{Prop: P, ID: "getContextForTx.simulate-cached", Fn: fnGetCtxForTx,
			Assume: []Lit{T(simulate)},
			Target: RetNotMatch(0, `^invoke types\.Ctx\.CacheContext\(.*\)#0$|^\(types\.Context\)\.CacheContext\(.*\)#0$`),
			Why:    "simulation starts from a cache-wrapped copy of the check state"},
	}
	out := c.Rows(rows)
	out = append(out, c.cacheTxContextWraps(P), c.queryCustomStore(P))
	out = append(out,
		c.noReach(P, "query.store-no-mutators", []string{"(*store/rootmulti.Store).Query"}, reTreeMutators, "", "ABCI store queries only read"),
		c.noReach(P, "query.custom-entry-no-commit", []string{fnQueryCustom, fnQueryStore, "baseapp.handleQueryP2P"}, `^\(\*store/rootmulti\.Store\)\.(Commit|RollbackVersion|commitStores)$|^\(\*store/iavl\.MutableTree\)\.SaveVersion$`, "", "no query path commits or rolls back"),
		c.fieldTable(P, "deliverState.accessors", "baseapp", "BaseApp", "deliverState", true,
			[]string{`\(\*baseapp\.BaseApp\)\.(InitChain|BeginBlock|EndBlock|Commit|getState|setDeliverState|NewContext|halt)`}, "only the block life-cycle (and the test helper NewContext) touches the deliver state"),
		c.whoMayCall(P, "baseapp.NewContext-test-only", "(*baseapp.BaseApp).NewContext", []string{}, "the helper handing out deliverState.ms has no caller in the shipped program"),
		c.pcaNewContext(P),
	)
	// node-local channel between the mempool/query side and block execution
	out = append(out, c.baseappFieldIsolation(P)...)
	out = append(out, c.Rows([]Row{
		{Prop: P, ID: "runTx.nondeliver-writes-no-app-field", Fn: fnRunTx, Assume: []Lit{F(deliver)},
			Target: StoreTo(`^app\.\w+(\[.*\])?$`), Why: "outside deliver mode runTx leaves every BaseApp field (and map held in one) alone"},
		{Prop: P, ID: "runMsg.nondeliver-writes-no-app-field", Fn: fnRunMsg, Assume: []Lit{F(deliver)},
			Target: StoreTo(`^app\.\w+(\[.*\])?$`), Why: "outside deliver mode runMsg leaves every BaseApp field (and map held in one) alone"},
	})...)
	// a query also must not reach consensus through memory: the keeper caches are keyed by address only and
	// shared with block execution, and the only thing that keeps a query out of them is the historical-context
	// mark on the context it runs in
	out = append(out, c.lazyContextsMarked(P)...)
	return out
}

// cacheTxContextWraps: the context returned by cacheTxContext has the
// multistore ctx.MultiStore().CacheMultiStore() (possibly with tracing set).
func (c *Ctx) cacheTxContextWraps(P string) Obligation {
	o := c.obl(P, "cacheTxContext.wraps-cache", fnCacheTxCtx, "cacheTxContext returns ctx.WithMultiStore(ctx.MultiStore().CacheMultiStore()) and that same cache as its second result")
	fn := c.A.Fn(fnCacheTxCtx)
	if fn == nil {
		o.unresolved("not found")
		return *o
	}
	o.Pos = c.A.FnPos(fn)
	okLeaf := func(v ssa.Value) bool {
		for _, l := range phiLeaves(v) {
			d := desc(stripConv(l), maxDepth)
			// direct cache, or the cache after SetTracingContext
			if !reMatch(`^invoke types\.MultiStore\.CacheMultiStore\(invoke types\.Ctx\.MultiStore\(ctx\)\)$|^assert<[^>]*CacheMultiStore>\(invoke [^ ]*CacheMultiStore\.SetTracingContext\(invoke types\.MultiStore\.CacheMultiStore\(invoke types\.Ctx\.MultiStore\(ctx\)\), `, d) {
				o.fail("", "multistore may be %s", d)
				return false
			}
		}
		return true
	}
	n := 0
	for _, b := range fn.Blocks {
		r, ok := b.Instrs[len(b.Instrs)-1].(*ssa.Return)
		if !ok {
			continue
		}
		n++
		for _, src := range ctxStoreSources(retOperand(r, 0)) {
			o.Facts++
			okLeaf(src)
		}
		o.Facts++
		okLeaf(retOperand(r, 1))
	}
	if n == 0 {
		o.fail("", "no return")
	}
	return *o
}

// queryCustomStore: every querier call in handleQueryCustom gets a context
// whose multistore is the LoadLazyVersion result.
func (c *Ctx) queryCustomStore(P string) Obligation {
	o := c.obl(P, "queryCustom.lazy-store", fnQueryCustom, "custom queriers receive a context over (*rootmulti.Store).LoadLazyVersion(req.Height), never over app.cms or a live state")
	fn := c.A.Fn(fnQueryCustom)
	if fn == nil {
		o.unresolved("not found")
		return *o
	}
	sites := c.callSites(fn, `^dyn:invoke types\.QueryRouter\.Route\(`)
	if len(sites) == 0 {
		o.fail(c.A.FnPos(fn), "no querier call found")
	}
	for _, s := range sites {
		if len(s.Call.Args) == 0 {
			continue
		}
		for _, src := range ctxStoreSources(s.Call.Args[0]) {
			o.Facts++
			d := desc(src, maxDepth)
			// a context obtained from Context.PrevCtx carries the lazily loaded store of that height (C09/C13 check PrevCtx itself)
			if reMatch(`^\(types\.Context\)\.PrevCtx\(.*\)#0$`, d) {
				continue
			}
			if !strings.Contains(d, "LoadLazyVersion(assert<*store/rootmulti.Store>(app.cms), ") || !strings.HasPrefix(d, "assert<*store/rootmulti.Store>(") {
				o.fail(c.A.Pos(s.Ins.Pos()), "querier context store is %s", d)
			}
		}
	}
	return *o
}

// pcaNewContext: the context factory behind every RPC query returns a PrevCtx.
func (c *Ctx) pcaNewContext(P string) Obligation {
	const f = "(*app.PocketCoreApp).NewContext"
	o := c.obl(P, "rpc.NewContext-is-PrevCtx", f, "every context handed to RPC queries is the result of Context.PrevCtx(height)")
	fn := c.A.Fn(f)
	if fn == nil {
		o.unresolved("not found")
		return *o
	}
	for _, b := range fn.Blocks {
		if r, ok := b.Instrs[len(b.Instrs)-1].(*ssa.Return); ok {
			o.Facts++
			d := desc(retOperand(r, 0), maxDepth)
			if !reMatch(`^\(types\.Context\)\.PrevCtx\(.*\)#0$`, d) {
				o.fail(c.A.Pos(r.Pos()), "returns %s", d)
			}
		}
	}
	return *o
}
