package main

import (
	"fmt"
	"strings"

	"golang.org/x/tools/go/ssa"
)

// C14, C15, C16: transaction admission (x/auth ante handler, baseapp.runTx).

const (
	fnVT     = "x/auth.ValidateTransaction"
	fnAnte   = "x/auth.NewAnteHandler$1"
	fnDeduct = "x/auth.DeductFees"
	fnRunTx  = "(*baseapp.BaseApp).runTx"
	fnRunMsg = "(*baseapp.BaseApp).runMsg"
	fnDeliv  = "(*baseapp.BaseApp).DeliverTx"
)

// atoms of ValidateTransaction, by resolved callee and operand provenance
const (
	aAddrEq    = `^bytes\.Equal\(invoke crypto\.PublicKey\.Address\(`
	aVerify    = `^invoke crypto\.PublicKey\.VerifyBytes\([^,]+, x/auth\.GetSignBytes\(invoke types\.Ctx\.ChainID\(ctx\), [^)]*\)#0, \(x/auth/types\.StdSignature\)\.GetSignature\(\(x/auth/types\.StdTx\)\.GetSignature\(`
	aSimulate  = `^simulate$`
	aFeeGTE    = `^\(types\.Coins\)\.IsAllGTE\(\(x/auth/types\.StdTx\)\.GetFee\([^)]*\), types\.NewCoins\(\[types\.NewCoin\("upokt", \(x/auth/types\.FeeMultipliers\)\.GetFee\(\(x/auth/keeper\.Keeper\)\.GetParams\([^)]*\)\.FeeMultiplier, \(x/auth/types\.StdTx\)\.GetMsg\(`
	aTxIdxGet  = `invoke github\.com/tendermint/tendermint/state/txindex\.TxIndexer\.Get\(txIndexer, \(github\.com/tendermint/tendermint/types\.Tx\)\.Hash\(txBz\)\)`
	aIsMultisig = `^assert<crypto\.PublicKeyMultiSig>\(.*\)#1$`
	aAnteAbort = `^dyn:app\.anteHandler\(.*\)#3$`
)

func init() {
	register(&Prop{
		ID: "C14", Title: "Only authorized signers can make a transaction change state",
		Technique: "pruned-CFG reachability over SSA (guard rows), operand provenance, who-may-append table",
		DesignRef: "DESIGN.md §3 C14, Appendix A.1/A.2/A.3",
		Explanation: "Every accepting return of auth.ValidateTransaction lies behind (a) bytes.Equal(pk.Address(), signer) for a signer drawn from Msg.GetSigners() extended only at the two documented feature-gated sites, and (b) pk.VerifyBytes(GetSignBytes(ctx.ChainID(), stdTx), signature) unless simulate; simulate is true only in runTxModeSimulate; the ante closure reaches DeductFees / a non-abort return only when ValidateBasic and ValidateTransaction returned no error; runTx reaches runMsg and the ante cache flush only when the ante handler did not abort; message-level signer checks (ValidateValidatorMsgSigner, ValidateApplicationTransfer) gate node and app state changes.",
		NotDecided:  "cryptographic validity of signatures (C39), account lookups as values, StdSignBytes content beyond its argument list.",
		MinObl:      20,
		Run:         runC14,
	})
	register(&Prop{
		ID: "C15", Title: "Authenticated transactions pay exactly their declared fee, once",
		Technique: "pruned-CFG reachability over SSA, same-operand check, fee-map/handler agreement",
		DesignRef: "DESIGN.md §3 C15, Appendix A.1",
		Explanation: "Every accepting return of ValidateTransaction lies behind stdTx.GetFee().IsAllGTE(expectedFee) with expectedFee built from FeeMultiplier.GetFee(stdTx.GetMsg()); DeductFees sends exactly tx.GetFee() to the fee collector from the verified signer, once, only when the balance covers it; the ante cache is flushed only in deliver mode when the ante handler did not abort, before and independently of the message result; every routed message type has an entry in its module's fee map.",
		NotDecided:  "balances as numbers; the value of the fee multiplier parameter.",
		MinObl:      12,
		Run:         runC15,
	})
	register(&Prop{
		ID: "C16", Title: "A signed transaction can take effect at most once",
		Technique: "pruned-CFG reachability over SSA, provenance of the replay key",
		DesignRef: "DESIGN.md §3 C16, Appendix A.1",
		Explanation: "ValidateTransaction rejects when txIndexer.Get(hash(txBz)) returns an entry or an error, before any signer is accepted; DeliverTx skips runTx for a transaction already seen in the block (feature-gated); the bytes hashed are the bytes decoded; and either the decoder is canonical (re-encode and compare, or unknown-field rejection) or the replay key derives from the signed content.",
		NotDecided:  "Tendermint indexer timing; which concrete re-encodings the protobuf decoder accepts.",
		MinObl:      6,
		Run:         runC16,
	})
}

func (c *Ctx) modeConst(name string) string {
	v, ok := c.constVal("baseapp", name)
	if !ok {
		c.A.Unresolved = append(c.A.Unresolved, "constant baseapp."+name)
		return "?"
	}
	return v
}

func (c *Ctx) modeIs(name string) string { return `^eq\(` + c.modeConst(name) + `, (var:)?mode\)$` }

func runC14(c *Ctx) []Obligation {
	P := "C14"
	deliver := c.modeIs("runTxModeDeliver")
	rows := []Row{
		{Prop: P, ID: "VT.address-match", Fn: fnVT,
			Assume: []Lit{F(aAddrEq), F(`^eq\(\d+, invoke types\.Ctx\.BlockHeight\(ctx\)\)$`)},
			Target: Success(), Why: "no signer is accepted whose key address differs from the expected signer (the codec chain-halt height is the documented exception)"},
		{Prop: P, ID: "VT.signature-verifies", Fn: fnVT,
			Assume: []Lit{F(aSimulate), F(aVerify)},
			Target: Success(), Why: "outside simulation no signer is accepted unless VerifyBytes(signBytes(chainID, tx), signature) holds"},
		{Prop: P, ID: "VT.signbytes-error", Fn: fnVT,
			Assume: []Lit{T(`^nonnil\(x/auth\.GetSignBytes\(`)},
			Target: Success(), Why: "a failure to build the sign bytes rejects"},
		{Prop: P, ID: "VT.pubkey-decode-error", Fn: fnVT,
			Assume: []Lit{T(`^nonnil\(crypto\.NewPublicKey\(`), F(`^eq\("", \(x/auth/types\.StdSignature\)\.GetPublicKey\(`)},
			Target: Success(), Why: "an undecodable signature public key rejects"},
		{Prop: P, ID: "VT.account-missing", Fn: fnVT,
			Assume: []Lit{T(`^eq\("", \(x/auth/types\.StdSignature\)\.GetPublicKey\(`), F(`^nonnil\(\(x/auth/keeper\.Keeper\)\.GetAccount\(`)},
			Target: Success(), Why: "without a key in the signature, an unknown signer account rejects"},
		{Prop: P, ID: "VT.sigdepth", Fn: fnVT,
			Assume: []Lit{T(`^assert<crypto\.PublicKeyMultiSig>\(.*\)#1$`), F(`^x/auth\.ValidateSignatureDepth\(`)},
			Target: Success(), Why: "multisig keys deeper than TxSigLimit are rejected"},
		// who may extend the signer list
		{Prop: P, ID: "VT.signers-append-only-documented", Fn: fnVT,
			Target: CallTo(`^builtin\.append\(`).Except(`^builtin\.append\([^\[]*, \[(invoke x/auth/types\.PosKeeper\.GetMsgStakeOutputSigner\(k\.POSKeeper, ctx, stdTx\.Msg\)|invoke crypto\.PublicKey\.Address\(stdTx\.Signature\.PublicKey\))\]\)$`),
			Why:    "the valid-signer list is extended only by the output-address signer of MsgStake and by the app-transfer signature address"},
		{Prop: P, ID: "VT.output-signer-gate.noncustodial", Fn: fnVT,
			Assume: []Lit{F(`^\(\*codec\.Codec\)\.IsAfterNonCustodialUpgrade\(`)},
			Target: CallTo(`^builtin\.append\(.*GetMsgStakeOutputSigner`), Why: "output-address signer accepted only after the non-custodial upgrade"},
		{Prop: P, ID: "VT.output-signer-gate.editor", Fn: fnVT,
			Assume: []Lit{F(`^\(\*codec\.Codec\)\.IsAfterOutputAddressEditorUpgrade\(`)},
			Target: CallTo(`^builtin\.append\(.*GetMsgStakeOutputSigner`), Why: "output-address signer accepted only after the output-address-editor upgrade"},
		{Prop: P, ID: "VT.apptransfer-signer.check", Fn: fnVT,
			Assume: []Lit{F(`^invoke x/auth/types\.AppKeeper\.IsMsgAppTransfer\(k\.AppKeeper, ctx, invoke crypto\.PublicKey\.Address\(stdTx\.Signature\.PublicKey\), stdTx\.Msg\)$`)},
			Target: CallTo(`^builtin\.append\(.*Signature\.PublicKey`), Why: "the signature's own address is accepted only when IsMsgAppTransfer says this is an application transfer by that address"},
		{Prop: P, ID: "VT.apptransfer-signer.gate", Fn: fnVT,
			Assume: []Lit{F(`^\(\*codec\.Codec\)\.IsAfterAppTransferUpgrade\(`)},
			Target: CallTo(`^builtin\.append\(.*Signature\.PublicKey`), Why: "app-transfer signer only after the AppTransfer upgrade"},
		{Prop: P, ID: "VT.apptransfer-signer.upgradeheight", Fn: fnVT,
			Assume: []Lit{F(`^invoke types\.Ctx\.IsAfterUpgradeHeight\(ctx\)$`)},
			Target: CallTo(`^builtin\.append\(.*Signature\.PublicKey`), Why: "app-transfer signer only after the upgrade height"},
		// ante closure
		{Prop: P, ID: "ante.validatebasic-gates", Fn: fnAnte,
			Assume: []Lit{T(`^nonnil\(invoke types\.Tx\.ValidateBasic\(tx\)\)$`)},
			Target: CallTo(`^x/auth\.(ValidateTransaction|DeductFees)\(`), Why: "a tx failing ValidateBasic reaches neither authentication nor fee deduction"},
		{Prop: P, ID: "ante.validatebasic-aborts", Fn: fnAnte,
			Assume: []Lit{T(`^nonnil\(invoke types\.Tx\.ValidateBasic\(tx\)\)$`)},
			Target: RetNot(3, "true"), Why: "a tx failing ValidateBasic aborts"},
		{Prop: P, ID: "ante.auth-gates-fees", Fn: fnAnte,
			Assume: []Lit{T(`^nonnil\(x/auth\.ValidateTransaction\(.*\)#1\)$`)},
			Target: CallTo(`^x/auth\.DeductFees\(`), Why: "no fee deduction for an unauthenticated tx"},
		{Prop: P, ID: "ante.auth-aborts", Fn: fnAnte,
			Assume: []Lit{T(`^nonnil\(x/auth\.ValidateTransaction\(.*\)#1\)$`)},
			Target: RetNot(3, "true"), Why: "an unauthenticated tx aborts"},
		{Prop: P, ID: "ante.must-authenticate", Fn: fnAnte,
			Barrier: []string{`^x/auth\.ValidateTransaction\(ctx, free:ak, assert<x/auth/types\.StdTx>\(tx\)#0, .*, txIndexer, txBz, simulate\)$`},
			Target:  RetNot(3, "true"), Why: "every non-aborting path of the ante handler passes through ValidateTransaction on this tx"},
		// runTx / runMsg
		{Prop: P, ID: "runTx.abort-gates-msg", Fn: fnRunTx,
			Assume: []Lit{T(`^nonnil\(app\.anteHandler\)$`), T(aAnteAbort)},
			Target: CallTo(`\(\*baseapp\.BaseApp\)\.runMsg\(|CacheMultiStore\.Write\(`), Why: "an aborted ante handler reaches neither the message handler nor any cache flush"},
		{Prop: P, ID: "runTx.ante-before-msg", Fn: fnRunTx,
			Assume:  []Lit{T(`^nonnil\(app\.anteHandler\)$`)},
			Barrier: []string{`^dyn:app\.anteHandler\(`},
			Target:  CallTo(`\(\*baseapp\.BaseApp\)\.runMsg\(`), TargetMustExist: true, Why: "with an ante handler installed, runMsg is reached only after it ran"},
		{Prop: P, ID: "runTx.validatebasic-gates", Fn: fnRunTx,
			Assume: []Lit{T(`^nonnil\(baseapp\.validateBasicTxMsgs\(`)},
			Target: CallTo(`^dyn:app\.anteHandler\(|\(\*baseapp\.BaseApp\)\.runMsg\(`), Why: "a message failing ValidateBasic reaches neither ante nor handler"},
		{Prop: P, ID: "runTx.deliver-only-flush", Fn: fnRunTx,
			Assume: []Lit{F(deliver)},
			Target: CallTo(`CacheMultiStore\.Write\(`), Why: "no cache is flushed outside deliver mode"},
	}
	out := c.Rows(rows)
	out = append(out, c.simulateArg(P), c.signerProvenance(P))
	out = append(out, nodesSignerRows(c, P)...)
	out = append(out, appsSignerRows(c, P)...)
	return out
}

// simulateArg: the simulate flag handed to the ante handler is
// mode == runTxModeSimulate, and nothing else calls ValidateTransaction with a
// different flag.
func (c *Ctx) simulateArg(P string) Obligation {
	o := c.obl(P, "runTx.simulate-flag", fnRunTx, "the ante handler's simulate argument is (mode == runTxModeSimulate); ValidateTransaction is called only from the ante closure with that flag passed through")
	fn := c.A.Fn(fnRunTx)
	if fn == nil {
		o.unresolved("runTx not found")
		return *o
	}
	sim := c.modeConst("runTxModeSimulate")
	sites := c.callSites(fn, `^dyn:app\.anteHandler\(`)
	o.Facts = len(sites)
	if len(sites) == 0 {
		o.fail(c.A.FnPos(fn), "no call of app.anteHandler in runTx")
	}
	for _, s := range sites {
		if len(s.Call.Args) != 5 {
			o.fail(c.A.Pos(s.Ins.Pos()), "ante handler called with %d args", len(s.Call.Args))
			continue
		}
		d := argDesc(s.Call, 4)
		if d != "(var:mode == "+sim+")" && d != "(mode == "+sim+")" && d != "("+sim+" == var:mode)" && d != "("+sim+" == mode)" {
			o.fail(c.A.Pos(s.Ins.Pos()), "simulate argument is %s, expected (mode == %s)", d, sim)
		}
	}
	vt := c.A.Fn(fnVT)
	if vt != nil {
		for _, cl := range c.A.Callers(vt) {
			o.Facts++
			if FnName(cl) != fnAnte {
				o.fail(c.A.FnPos(cl), "ValidateTransaction is also called from %s", FnName(cl))
			}
		}
		if a := c.A.Fn(fnAnte); a != nil {
			for _, s := range c.callSites(a, `^x/auth\.ValidateTransaction\(`) {
				if argDesc(s.Call, 6) != "simulate" {
					o.fail(c.A.Pos(s.Ins.Pos()), "ValidateTransaction's simulate argument is %s", argDesc(s.Call, 6))
				}
			}
		}
	}
	return *o
}

// signerProvenance: the address compared with the key's address is an element
// of the list built from stdTx.GetSigners() and the two documented appends.
func (c *Ctx) signerProvenance(P string) Obligation {
	o := c.obl(P, "VT.signer-from-msg", fnVT, "the expected signer compared with pk.Address() is an element of stdTx.GetSigners() (+ documented appends)")
	fn := c.A.Fn(fnVT)
	if fn == nil {
		o.unresolved("not found")
		return *o
	}
	sites := c.callSites(fn, aAddrEq)
	if len(sites) == 0 {
		o.fail(c.A.FnPos(fn), "no bytes.Equal(pk.Address(), signer) comparison found")
		return *o
	}
	for _, s := range sites {
		arg := s.Call.Args[1]
		// element load: *(IndexAddr slice idx) possibly through conversions
		var base ssa.Value
		switch x := stripLoad(arg).(type) {
		case *ssa.IndexAddr:
			base = x.X
		case *ssa.Index:
			base = x.X
		}
		if base == nil {
			o.fail(c.A.Pos(s.Ins.Pos()), "second operand %s is not an element of the signer list", desc(arg, 4))
			continue
		}
		for _, leaf := range phiLeaves(base) {
			o.Facts++
			d := desc(leaf, maxDepth)
			if !reMatch(`^\(x/auth/types\.StdTx\)\.GetSigners\((var:)?stdTx\)$|^builtin\.append\(`, d) {
				o.fail(c.A.Pos(s.Ins.Pos()), "signer list may come from %s", d)
			}
		}
	}
	return *o
}

func stripLoad(v ssa.Value) ssa.Value {
	for {
		switch x := v.(type) {
		case *ssa.UnOp:
			if x.Op.String() == "*" {
				v = x.X
				continue
			}
		case *ssa.ChangeType:
			v = x.X
			continue
		case *ssa.Convert:
			v = x.X
			continue
		case *ssa.MakeInterface:
			v = x.X
			continue
		}
		return v
	}
}

func runC15(c *Ctx) []Obligation {
	P := "C15"
	deliver := c.modeIs("runTxModeDeliver")
	rows := []Row{
		{Prop: P, ID: "VT.fee-floor.single-key", Fn: fnVT,
			Assume: []Lit{F(aFeeGTE), F(aIsMultisig)},
			Target: Success(), Why: "no single-key transaction is accepted whose declared fee is below FeeMultiplier.GetFee(msg)"},
		{Prop: P, ID: "VT.fee-floor.multisig", Fn: fnVT,
			Assume: []Lit{F(aFeeGTE), T(aIsMultisig)},
			Target: Success(), Why: "no multisig transaction is accepted whose declared fee is below FeeMultiplier.GetFee(msg)"},
		{Prop: P, ID: "DeductFees.valid-coins", Fn: fnDeduct,
			Assume: []Lit{F(`^\(types\.Coins\)\.IsValid\(\(x/auth/types\.StdTx\)\.GetFee\(tx\)\)$`)},
			Target: Success(), Why: "an invalid fee coin set is refused"},
		{Prop: P, ID: "DeductFees.balance-covers", Fn: fnDeduct,
			Assume: []Lit{T(`^\(types\.Coins\)\.SafeSub\(invoke x/auth\.Account\.GetCoins\(.*\), \(x/auth/types\.StdTx\)\.GetFee\(tx\)\)#1$`)},
			Target: CallTo(`SendCoins`), Why: "no coins move when the signer cannot cover the fee"},
		{Prop: P, ID: "DeductFees.balance-covers.reject", Fn: fnDeduct,
			Assume: []Lit{T(`^\(types\.Coins\)\.SafeSub\(invoke x/auth\.Account\.GetCoins\(.*\), \(x/auth/types\.StdTx\)\.GetFee\(tx\)\)#1$`)},
			Target: Success(), Why: "and the transaction is rejected"},
		{Prop: P, ID: "DeductFees.must-send", Fn: fnDeduct,
			Barrier: []string{`^\(x/auth/keeper\.Keeper\)\.SendCoinsFromAccountToModule\([^,]+, ctx, invoke x/auth\.Account\.GetAddress\(.*\), "fee_collector", \(x/auth/types\.StdTx\)\.GetFee\(tx\)\)$`},
			Target:  Success(), Why: "every successful return moved exactly tx.GetFee() from the signer's account to the fee collector"},
		{Prop: P, ID: "DeductFees.send-error", Fn: fnDeduct,
			Assume: []Lit{T(`^nonnil\(\(x/auth/keeper\.Keeper\)\.SendCoinsFromAccountToModule\(`)},
			Target: Success(), Why: "a failed fee transfer rejects"},
		{Prop: P, ID: "DeductFees.payer-is-signer", Fn: fnDeduct,
			Assume: []Lit{T(`^\(\*codec\.Codec\)\.IsAfterNonCustodialUpgrade\(`)},
			Target: CallTo(`^x/auth\.GetSignerAcc\(`).Except(`^x/auth\.GetSignerAcc\(ctx, [^,]+, invoke crypto\.PublicKey\.Address\(signer\)\)$`),
			Why:    "after the non-custodial upgrade the payer is the verified signer's own address"},
		{Prop: P, ID: "ante.must-deduct", Fn: fnAnte,
			Barrier: []string{`^x/auth\.DeductFees\(free:ak, ctx, assert<x/auth/types\.StdTx>\(tx\)#0, x/auth\.ValidateTransaction\(.*\)#0\)$`},
			Target:  RetNot(3, "true"), Why: "every non-aborting ante path deducted fees from the signer ValidateTransaction returned"},
		{Prop: P, ID: "ante.deduct-error-aborts", Fn: fnAnte,
			Assume: []Lit{T(`^nonnil\(x/auth\.DeductFees\(`)},
			Target: RetNot(3, "true"), Why: "a failed deduction aborts"},
		{Prop: P, ID: "runTx.flush-deliver-only", Fn: fnRunTx,
			Assume: []Lit{F(deliver)},
			Target: CallTo(`CacheMultiStore\.Write\(\(\*baseapp\.BaseApp\)\.cacheTxContext\(`), Why: "the ante cache (fee movement) is flushed only in deliver mode"},
		{Prop: P, ID: "runTx.flush-not-on-abort", Fn: fnRunTx,
			Assume: []Lit{T(`^nonnil\(app\.anteHandler\)$`), T(aAnteAbort)},
			Target: CallTo(`CacheMultiStore\.Write\(`), Why: "a transaction rejected during authentication moves no funds"},
		{Prop: P, ID: "runTx.flush-before-msg", Fn: fnRunTx,
			Assume:  []Lit{T(deliver), T(`^nonnil\(app\.anteHandler\)$`), F(aAnteAbort)},
			Barrier: []string{`CacheMultiStore\.Write\(\(\*baseapp\.BaseApp\)\.cacheTxContext\(app, var:ctx, txBytes\)#1\)`},
			Target:  CallTo(`\(\*baseapp\.BaseApp\)\.runMsg\(`), TargetMustExist: true, Why: "in deliver mode the fee is committed before, hence independently of, the message result"},
	}
	out := c.Rows(rows)
	out = append(out, c.deductOnce(P))
	out = append(out, c.feeMapCoverage(P)...)
	return out
}

func (c *Ctx) deductOnce(P string) Obligation {
	o := c.obl(P, "fee.single-collector-transfer", fnAnte, "fees reach the fee collector through exactly one call site in the ante path (DeductFees → SendCoinsFromAccountToModule), DeductFees is called only from the ante closure, once")
	d := c.A.Fn(fnDeduct)
	a := c.A.Fn(fnAnte)
	if d == nil || a == nil {
		o.unresolved("anchors not found")
		return *o
	}
	n := len(c.callSites(d, `SendCoins|AddCoins|SubtractCoins|SetCoins`))
	o.Facts += n
	if n != 1 {
		o.fail(c.A.FnPos(d), "DeductFees has %d coin-moving call sites, expected exactly 1", n)
	}
	m := len(c.callSites(a, `^x/auth\.DeductFees\(`))
	o.Facts += m
	if m != 1 {
		o.fail(c.A.FnPos(a), "the ante closure calls DeductFees %d times", m)
	}
	for _, cl := range c.A.Callers(d) {
		o.Facts++
		if FnName(cl) != fnAnte {
			o.fail(c.A.FnPos(cl), "DeductFees is also called from %s", FnName(cl))
		}
	}
	// loops: the call site must not be inside a cycle of the closure's CFG
	for _, s := range c.callSites(a, `^x/auth\.DeductFees\(`) {
		if inCycle(s.Block) {
			o.fail(c.A.Pos(s.Ins.Pos()), "DeductFees call is inside a loop")
		}
	}
	return *o
}

func inCycle(b *ssa.BasicBlock) bool {
	seen := map[*ssa.BasicBlock]bool{}
	var q []*ssa.BasicBlock
	q = append(q, b.Succs...)
	for len(q) > 0 {
		x := q[0]
		q = q[1:]
		if x == b {
			return true
		}
		if seen[x] {
			continue
		}
		seen[x] = true
		q = append(q, x.Succs...)
	}
	return false
}

// feeMapCoverage: every sdk.Msg implementation whose GetFee reads a module
// fee map has its Type() constant among that map's keys (a missing key
// silently yields fee 0).
func (c *Ctx) feeMapCoverage(P string) []Obligation {
	var out []Obligation
	maps := []struct{ pkg, name string }{{"x/nodes/types", "NodeFeeMap"}, {"x/apps/types", "AppFeeMap"}, {"x/pocketcore/types", "PocketFeeMap"}, {"x/gov/types", "GovFeeMap"}}
	for _, m := range maps {
		o := c.obl(P, "feemap.covers-msg-types", m.pkg+"."+m.name, fmt.Sprintf("every message whose GetFee reads %s has its Type() constant among the map's keys", m.name))
		keys, pos, ok := c.mapLiteralKeys(m.pkg, m.name)
		if !ok {
			o.unresolved("fee map literal not found")
			out = append(out, *o)
			continue
		}
		o.Pos = pos
		sp := c.A.SSAPkgs[repoMod+"/"+m.pkg]
		n := 0
		if sp != nil {
			for fn := range c.A.AllFns {
				if fn.Pkg != sp || fn.Name() != "GetFee" || fn.Blocks == nil || fn.Signature.Recv() == nil {
					continue
				}
				// does it read the map?
				reads := false
				for _, b := range fn.Blocks {
					for _, ins := range b.Instrs {
						if l, ok := ins.(*ssa.Lookup); ok && strings.Contains(desc(l.X, 3), m.name) {
							reads = true
						}
					}
				}
				if !reads {
					continue
				}
				n++
				// find the Type method of the same receiver and its constant result
				recv := fn.Signature.Recv().Type()
				tm := c.A.Prog.LookupMethod(recv, fn.Pkg.Pkg, "Type")
				if tm == nil || tm.Blocks == nil {
					o.fail(c.A.FnPos(fn), "no Type() method for receiver of %s", FnName(fn))
					continue
				}
				for _, b := range tm.Blocks {
					if r, ok := b.Instrs[len(b.Instrs)-1].(*ssa.Return); ok {
						k, isConst := r.Results[0].(*ssa.Const)
						if !isConst {
							o.fail(c.A.FnPos(tm), "%s does not return a constant", FnName(tm))
							continue
						}
						o.Facts++
						if !keys[k.Value.ExactString()] {
							o.fail(c.A.FnPos(tm), "message type %s (from %s) has no entry in %s: its required fee is silently 0", k.Value.ExactString(), FnName(tm), m.name)
						}
					}
				}
			}
		}
		if n == 0 {
			o.fail(pos, "no GetFee method reads %s", m.name)
		}
		out = append(out, *o)
	}
	return out
}

func runC16(c *Ctx) []Obligation {
	P := "C16"
	rows := []Row{
		{Prop: P, ID: "VT.duplicate-rejected", Fn: fnVT,
			Assume: []Lit{T(`^nonnil\(` + aTxIdxGet + `#0\)$`)},
			Target: Success(), Why: "a transaction whose raw-bytes hash is already indexed is rejected"},
		{Prop: P, ID: "VT.indexer-error-rejected", Fn: fnVT,
			Assume: []Lit{T(`^nonnil\(` + aTxIdxGet + `#1\)$`)},
			Target: Success(), Why: "an indexer failure rejects rather than admits"},
		{Prop: P, ID: "VT.indexer-required", Fn: fnVT,
			Assume: []Lit{F(`^nonnil\(txIndexer\)$`)},
			Target: Success(), Why: "without an indexer nothing is admitted"},
		{Prop: P, ID: "VT.must-consult-indexer", Fn: fnVT,
			Barrier: []string{`^` + aTxIdxGet + `$`},
			Target:  Success(), Why: "every accepting path consulted the indexer with the hash of this tx's raw bytes"},
		{Prop: P, ID: "DeliverTx.in-block-duplicate", Fn: fnDeliv,
			Assume: []Lit{T(`^app\.transactionCache\[baseapp\.TxCacheKey\(()?req\.Tx, \d+\)\]#1$`), T(`IsAfterNamedFeatureActivationHeight\(baseapp\.cdc, \(\*baseapp\.BaseApp\)\.LastBlockHeight\(app\), "REDUP"\)`)},
			Target: CallTo(`\(\*baseapp\.BaseApp\)\.runTx\(`), Why: "a transaction already seen in this block is not executed again (TxCacheEnhancement active)"},
	}
	ante := `dyn:app\.anteHandler\(\(\*baseapp\.BaseApp\)\.cacheTxContext\(app, var:ctx, txBytes\)#0, tx, txBytes, app\.txIndexer, \(var:mode == 1\)\)`
	rows = append(rows,
		// a transaction that is NOT indexed (ante-level failure) must not have changed state, otherwise the
		// duplicate check would let it change state again
		Row{Prop: P, ID: "runTx.ante-abort-writes-nothing", Fn: fnRunTx, Assume: []Lit{T(`^nonnil\(app\.anteHandler\)$`), T(`^` + ante + `#3$`)},
			Target: CallTo(`CacheMultiStore\.Write\(`), Why: "a transaction rejected by the ante handler (the only kind the indexer skips) leaves no write behind"},
		Row{Prop: P, ID: "runTx.failed-messages-write-nothing", Fn: fnRunTx, Assume: []Lit{F(`^\(types\.Result\)\.IsOK\(var:result\)$`)},
			Target: CallTo(`^invoke store/types\.CacheMultiStore\.Write\(invoke types\.MultiStore\.CacheMultiStore\(`), Why: "message effects of a failed transaction are dropped (it is still indexed, so it cannot run again)"},
		Row{Prop: P, ID: "VT.lookup-key-is-tx-hash", Fn: fnVT,
			Target: CallTo(`TxIndexer\.Get\(`).Except(`^` + aTxIdxGet + `$`), Why: "the duplicate lookup uses the hash the indexer files executed transactions under (Tx.Hash of the raw bytes)"},
	)
	// the in-block duplicate test only works if every delivered transaction is entered into the cache, and the
	// ante handler that consults the indexer is the one installed
	rows = append(rows,
		Row{Prop: P, ID: "DeliverTx.first-sight-is-recorded", Fn: fnDeliv,
			Assume:  []Lit{F(`^app\.transactionCache\[baseapp\.TxCacheKey\(()?req\.Tx, \d+\)\]#1$`)},
			Barrier: []string{`mapset:^app\.transactionCache\[baseapp\.TxCacheKey\(req\.Tx, 2\)\] = `}, Target: CallTo(`\(\*baseapp\.BaseApp\)\.runTx\(`), TargetMustExist: true,
			Why: "a transaction not yet seen in this block is entered in the block's cache before it is executed"},
	)
	out := c.Rows(rows)
	out = append(out, c.wiringRow(P, "wiring.ante-handler-installed", `^\(\*baseapp\.BaseApp\)\.SetAnteHandler\(.*, x/auth\.NewAnteHandler\(.*\.accountKeeper\)\)$`, "the base app runs the auth module's ante handler (which holds the duplicate lookup)"))
	out = append(out, c.replayKeyBytes(P), c.canonicalDecode(P))
	out = append(out, indexerSkipRows(c, P)...)
	out = append(out, c.loopsExitOnlyAtHeader(P, "indexer.AddBatch.visits-every-result", "(*types.TransactionIndexer).AddBatch", "every executed transaction of the block is recorded, whatever came before it in the batch"))
	return out
}

// replayKeyBytes: DeliverTx decodes and executes the same bytes it keys the
// in-block cache with, and hands those bytes to runTx (hence to the indexer
// lookup).
func (c *Ctx) replayKeyBytes(P string) Obligation {
	o := c.obl(P, "DeliverTx.same-bytes", fnDeliv, "the bytes decoded, the bytes keyed in the in-block cache and the bytes handed to runTx/ante are all req.Tx")
	fn := c.A.Fn(fnDeliv)
	if fn == nil {
		o.unresolved("not found")
		return *o
	}
	dec := c.callSites(fn, `^dyn:app\.txDecoder\(`)
	run := c.callSites(fn, `\(\*baseapp\.BaseApp\)\.runTx\(`)
	if len(dec) != 1 || len(run) != 1 {
		o.fail(c.A.FnPos(fn), "expected one decoder call and one runTx call, found %d/%d", len(dec), len(run))
		return *o
	}
	o.Facts = 3
	isReq := func(d string) bool { return d == "req.Tx" || d == "req.Tx" }
	if !isReq(argDesc(dec[0].Call, 0)) {
		o.fail(c.A.Pos(dec[0].Ins.Pos()), "decoder input is %s", argDesc(dec[0].Call, 0))
	}
	if !isReq(argDesc(run[0].Call, 2)) {
		o.fail(c.A.Pos(run[0].Ins.Pos()), "runTx bytes are %s", argDesc(run[0].Call, 2))
	}
	if d := argDesc(run[0].Call, 3); !strings.HasPrefix(d, "dyn:app.txDecoder(req.Tx") && !strings.HasPrefix(d, "dyn:app.txDecoder(req.Tx") {
		o.fail(c.A.Pos(run[0].Ins.Pos()), "runTx tx is %s, not the decoding of req.Tx", argDesc(run[0].Call, 3))
	}
	for _, s := range c.callSites(fn, `^baseapp\.TxCacheKey\(`) {
		o.Facts++
		if !isReq(argDesc(s.Call, 0)) {
			o.fail(c.A.Pos(s.Ins.Pos()), "cache key built from %s", argDesc(s.Call, 0))
		}
	}
	// runTx forwards txBytes unchanged to the ante handler
	if rt := c.A.Fn(fnRunTx); rt != nil {
		for _, s := range c.callSites(rt, `^dyn:app\.anteHandler\(`) {
			o.Facts++
			if argDesc(s.Call, 2) != "txBytes" || argDesc(s.Call, 1) != "tx" {
				o.fail(c.A.Pos(s.Ins.Pos()), "ante handler receives (%s, %s), expected (tx, txBytes)", argDesc(s.Call, 1), argDesc(s.Call, 2))
			}
		}
	}
	return *o
}

// canonicalDecode: since the replay key is hash(raw bytes) while the
// signature covers the decoded content, either (a) the decoder accepts only
// the canonical encoding (re-encode and compare, or reject unknown fields and
// compare), or (b) the replay key is derived from the signed content.
func (c *Ctx) canonicalDecode(P string) Obligation {
	const dec = "x/auth/types.DefaultTxDecoder$1"
	o := c.obl(P, "decoder.canonical-or-content-key", dec, "the tx decoder accepts only canonical encodings (decoded value re-encoded and compared with the input on every accepting path) OR the replay key handed to txIndexer.Get derives from the signed content rather than the raw bytes")
	fn := c.A.Fn(dec)
	vt := c.A.Fn(fnVT)
	if fn == nil || vt == nil {
		o.unresolved("anchors not found")
		return *o
	}
	o.Pos = c.A.FnPos(fn)
	// (b) key provenance
	contentKey := false
	for _, s := range c.callSites(vt, `TxIndexer\.Get\(`) {
		o.Facts++
		k := argDesc(s.Call, 0)
		if !strings.Contains(k, "txBz") && (strings.Contains(k, "StdSignBytes") || strings.Contains(k, "GetSignBytes") || strings.Contains(k, "stdTx")) {
			contentKey = true
		}
	}
	// (a) every accepting return of the decoder closure is behind a comparison
	// of a re-encoding with txBytes
	row := Row{Prop: P, ID: "x", Fn: dec,
		Assume: []Lit{F(`^bytes\.Equal\(.*txBytes|^bytes\.Equal\(txBytes`)},
		Target: Success()}
	r := c.E1.eval(fn, &row)
	o.Facts += r.facts
	canonical := r.ok && r.matched[0] > 0
	if !canonical {
		// alternative: the codec's UnmarshalBinaryLengthPrefixed itself enforces it
		for _, name := range []string{"(*codec.Codec).UnmarshalBinaryLengthPrefixed", "(*codec.ProtoCodec).UnmarshalBinaryLengthPrefixed"} {
			if f := c.A.FnOpt(name); f != nil && f.Blocks != nil {
				rr := Row{Fn: name, Assume: []Lit{F(`^bytes\.Equal\(`)}, Target: Success()}
				x := c.E1.eval(f, &rr)
				o.Facts += x.facts
				if name == "(*codec.ProtoCodec).UnmarshalBinaryLengthPrefixed" && x.ok && x.matched[0] > 0 {
					canonical = true
				}
			}
		}
	}
	if !canonical && !contentKey {
		o.fail(c.A.FnPos(fn), "replay key = hash(raw tx bytes) (x/auth/ante.go ValidateTransaction, baseapp TxCacheKey) but the decoder accepts any bytes that gogoproto Unmarshal maps to the same StdTx (unknown fields, non-minimal varints, repeated fields): no path compares a re-encoding with the input, unknownproto.RejectUnknownFields has no caller, and the key is not derived from the signed content; a re-encoded copy of a signed tx has a fresh hash and is executed again")
	}
	return *o
}
