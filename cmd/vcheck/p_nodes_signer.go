package main

// Message-level signer checks in x/nodes and x/apps (part of C14; reused by
// C23/C25 where noted).

const (
	fnNodeStakeH     = "x/nodes.handleStake"
	fnNodeUnstakeH   = "x/nodes.handleMsgBeginUnstake"
	fnNodeUnjailH    = "x/nodes.handleMsgUnjail"
	fnNodeSendH      = "x/nodes.handleMsgSend"
	fnMsgSigner      = "x/nodes/keeper.ValidateValidatorMsgSigner"
	fnValStaking     = "(x/nodes/keeper.Keeper).ValidateValidatorStaking"
	fnValEditStake   = "(x/nodes/keeper.Keeper).ValidateEditStake"
	fnValUnjail      = "(x/nodes/keeper.Keeper).ValidateUnjailMessage"
	fnAppStakeH      = "x/apps.handleStake"
	fnAppTransferV   = "(x/apps/keeper.Keeper).ValidateApplicationTransfer"
	fnIsMsgAppXfer   = "(x/apps/keeper.Keeper).IsMsgAppTransfer"
	aSignerIsAddr    = `^\(types\.Address\)\.Equals\(signerAddress, validator\.Address\)$`
	aSignerIsOutput  = `^\(types\.Address\)\.Equals\(signerAddress, validator\.OutputAddress\)$`
	aOutputSet       = `^nonnil\(validator\.OutputAddress\)$`
	aSignerCheckNew  = `^x/nodes/keeper\.ValidateValidatorMsgSigner\(validatorNew, signerAddress, k\)#1$`
	aSignerCheckCur  = `^x/nodes/keeper\.ValidateValidatorMsgSigner\(\(x/nodes/keeper\.Keeper\)\.GetValidator\(k, ctx, validatorNew\.Address\)#0, signerAddress, k\)#1$`
	aValFound        = `^\(x/nodes/keeper\.Keeper\)\.GetValidator\(k, ctx, validatorNew\.Address\)#1$`
	bSignerCheckNew  = `^x/nodes/keeper\.ValidateValidatorMsgSigner\(validatorNew, signerAddress, k\)$`
	aNCUST           = `^\(\*codec\.Codec\)\.IsAfterNonCustodialUpgrade\(`
	aOEDIT           = `^\(\*codec\.Codec\)\.IsAfterOutputAddressEditorUpgrade\(`
	aRDELEG          = `^\(\*codec\.Codec\)\.IsAfterRewardDelegatorUpgrade\(`
	aUpgradeHeight   = `^invoke types\.Ctx\.IsAfterUpgradeHeight\(ctx\)$`
	aAppTransferGate = `^\(\*codec\.Codec\)\.IsAfterAppTransferUpgrade\(`
)

func nodesSignerRows(c *Ctx, P string) []Obligation {
	rows := []Row{
		// ValidateValidatorMsgSigner: valid only for operator or output address
		{Prop: P, ID: "MsgSigner.no-output.operator-only", Fn: fnMsgSigner,
			Assume: []Lit{F(aOutputSet), F(aSignerIsAddr)},
			Target: RetNot(1, "false"), Why: "with no output address only the operator address is a valid signer"},
		{Prop: P, ID: "MsgSigner.output.operator-or-output", Fn: fnMsgSigner,
			Assume: []Lit{T(aOutputSet), F(aSignerIsAddr), F(aSignerIsOutput)},
			Target: RetNot(1, "false"), Why: "with an output address only operator or output address are valid signers"},
		{Prop: P, ID: "MsgSigner.invalid-has-error", Fn: fnMsgSigner,
			Assume: []Lit{F(aSignerIsAddr), F(aSignerIsOutput)},
			Target: Success(), Why: "an invalid signer is reported with a non-nil error"},
		// begin-unstake handler
		{Prop: P, ID: "unstake.found-gates", Fn: fnNodeUnstakeH,
			Assume: []Lit{F(`^\(x/nodes/keeper\.Keeper\)\.GetValidator\(k, ctx, msg\.Address\)#1$`)},
			Target: CallTo(`WaitToBeginUnstakingValidator|BeginUnstakingValidator`), Why: "no unstake for an unknown node"},
		{Prop: P, ID: "unstake.signer-gates", Fn: fnNodeUnstakeH,
			Assume: []Lit{F(`^x/nodes/keeper\.ValidateValidatorMsgSigner\(\(x/nodes/keeper\.Keeper\)\.GetValidator\(k, ctx, msg\.Address\)#0, msg\.Signer, k\)#1$`)},
			Target: CallTo(`WaitToBeginUnstakingValidator|BeginUnstakingValidator`), Why: "begin-unstake takes effect only when msg.Signer is the node's operator or output address"},
		{Prop: P, ID: "unstake.must-check-signer", Fn: fnNodeUnstakeH,
			Barrier: []string{`^x/nodes/keeper\.ValidateValidatorMsgSigner\(\(x/nodes/keeper\.Keeper\)\.GetValidator\(k, ctx, msg\.Address\)#0, msg\.Signer, k\)$`},
			Target:  CallTo(`WaitToBeginUnstakingValidator|BeginUnstakingValidator`), TargetMustExist: true, Why: "every path to the unstake effect passes the signer check against the stored node"},
		{Prop: P, ID: "unstake.validation-gates", Fn: fnNodeUnstakeH,
			Assume: []Lit{T(`^nonnil\(\(x/nodes/keeper\.Keeper\)\.ValidateValidatorBeginUnstaking\(`)},
			Target: CallTo(`WaitToBeginUnstakingValidator|BeginUnstakingValidator`), Why: "failed validation stops the unstake"},
		// unjail
		{Prop: P, ID: "unjail.validation-gates", Fn: fnNodeUnjailH,
			Assume: []Lit{T(`^nonnil\(\(x/nodes/keeper\.Keeper\)\.ValidateUnjailMessage\(k, ctx, msg\)#1\)$`)},
			Target: CallTo(`UnjailValidator`), Why: "unjail only after ValidateUnjailMessage succeeded"},
		{Prop: P, ID: "unjail.must-validate", Fn: fnNodeUnjailH,
			Barrier: []string{`^\(x/nodes/keeper\.Keeper\)\.ValidateUnjailMessage\(k, ctx, msg\)$`},
			Target:  CallTo(`UnjailValidator`), TargetMustExist: true, Why: "every path to UnjailValidator passes ValidateUnjailMessage"},
		{Prop: P, ID: "ValidateUnjail.signer", Fn: fnValUnjail,
			Assume: []Lit{F(`^x/nodes/keeper\.ValidateValidatorMsgSigner\(\(x/nodes/keeper\.Keeper\)\.GetValidator\(k, ctx, msg\.ValidatorAddr\)#0, msg\.Signer, k\)#1$`)},
			Target: Success(), Why: "unjail is refused unless msg.Signer is the stored node's operator or output address"},
		{Prop: P, ID: "ValidateUnjail.found", Fn: fnValUnjail,
			Assume: []Lit{F(`^\(x/nodes/keeper\.Keeper\)\.GetValidator\(k, ctx, msg\.ValidatorAddr\)#1$`)},
			Target: Success(), Why: "unknown node"},
		// stake handler
		{Prop: P, ID: "stake.validation-gates", Fn: fnNodeStakeH,
			Assume: []Lit{T(`^nonnil\(\(x/nodes/keeper\.Keeper\)\.ValidateValidatorStaking\(k, ctx, (var:)?validator, (var:)?msg\.Value, invoke crypto\.PublicKey\.Address\(signer\)\)\)$`)},
			Target: CallTo(`\.StakeValidator\(|EditStakeValidator\(`), Why: "stake/edit-stake takes effect only when ValidateValidatorStaking accepted the actual tx signer's address"},
		{Prop: P, ID: "stake.must-validate", Fn: fnNodeStakeH,
			Barrier: []string{`^\(x/nodes/keeper\.Keeper\)\.ValidateValidatorStaking\(k, ctx, (var:)?validator, (var:)?msg\.Value, invoke crypto\.PublicKey\.Address\(signer\)\)$`},
			Target:  CallTo(`\.StakeValidator\(|EditStakeValidator\(`), TargetMustExist: true, Why: "every path to StakeValidator passes ValidateValidatorStaking with the verified signer"},
		// ValidateValidatorStaking: signer checks
		{Prop: P, ID: "ValStaking.new-signer-invalid", Fn: fnValStaking,
			Assume: []Lit{F(aSignerCheckNew), F(`^phi:&&$`)},
			Target: Success(), Why: "a signer that is neither operator nor output of the submitted node record is refused (when the check is not skipped)"},
		{Prop: P, ID: "ValStaking.cur-signer-invalid", Fn: fnValStaking,
			Assume: []Lit{T(aValFound), F(aSignerCheckCur)},
			Target: Success(), Why: "for an existing node the signer must be its current operator or output address"},
		{Prop: P, ID: "ValStaking.cur-signer-must-check", Fn: fnValStaking,
			Assume:  []Lit{T(aValFound)},
			Barrier: []string{`^x/nodes/keeper\.ValidateValidatorMsgSigner\(\(x/nodes/keeper\.Keeper\)\.GetValidator\(k, ctx, validatorNew\.Address\)#0, signerAddress, k\)$`},
			Target:  Success(), Why: "every accepting path for an existing node passes the signer check against the stored record"},
	}
	// the signer check against the new record may be skipped only when all
	// seven documented conditions hold: falsify each in turn
	skip := []struct {
		id  string
		lit Lit
	}{
		{"found", F(aValFound)},
		{"noncustodial", F(aNCUST)},
		{"output-editor", F(aOEDIT)},
		{"same-address", F(`^\(types\.Address\)\.Equals\(validatorNew\.Address, \(x/nodes/keeper\.Keeper\)\.GetValidator\(k, ctx, validatorNew\.Address\)#0\.Address\)$`)},
		{"new-output-set", F(`^nonnil\(validatorNew\.OutputAddress\)$`)},
		{"output-changes", T(`^\(types\.Address\)\.Equals\(\(x/nodes/keeper\.Keeper\)\.GetValidator\(k, ctx, validatorNew\.Address\)#0\.OutputAddress, validatorNew\.OutputAddress\)$`)},
		{"signer-is-current-output", F(`^\(types\.Address\)\.Equals\(\(x/nodes/keeper\.Keeper\)\.GetValidator\(k, ctx, validatorNew\.Address\)#0\.OutputAddress, signerAddress\)$`)},
	}
	for _, s := range skip {
		rows = append(rows, Row{Prop: P, ID: "ValStaking.skip-needs." + s.id, Fn: fnValStaking,
			Assume:  []Lit{s.lit},
			Barrier: []string{bSignerCheckNew},
			Target:  Success(), Why: "the signer check against the submitted record is skipped only for an output-address edit signed by the current output address after both upgrades"})
	}
	return c.Rows(rows)
}

func appsSignerRows(c *Ctx, P string) []Obligation {
	aXferErr := `^nonnil\(\(x/apps/keeper\.Keeper\)\.ValidateApplicationTransfer\(k, ctx, signer, msg\)#1\)$`
	aSignerApp := `^\(x/apps/keeper\.Keeper\)\.GetApplication\(k, ctx, invoke crypto\.PublicKey\.Address\(signer\)\)#1$`
	rows := []Row{
		{Prop: P, ID: "app.transfer-gated", Fn: fnAppStakeH,
			Assume: []Lit{T(aXferErr)},
			Target: CallTo(`TransferApplication\(`), Why: "an application is transferred only when ValidateApplicationTransfer accepted the tx signer"},
		{Prop: P, ID: "app.transfer-must-validate", Fn: fnAppStakeH,
			Barrier: []string{`^\(x/apps/keeper\.Keeper\)\.ValidateApplicationTransfer\(k, ctx, signer, msg\)$`},
			Target:  CallTo(`TransferApplication\(`), TargetMustExist: true, Why: "every path to TransferApplication passes ValidateApplicationTransfer with the verified signer"},
		{Prop: P, ID: "app.transfer-moves-signers-app", Fn: fnAppStakeH,
			Target: CallTo(`TransferApplication\(`).Except(`^\(x/apps/keeper\.Keeper\)\.TransferApplication\(k, ctx, \(x/apps/keeper\.Keeper\)\.ValidateApplicationTransfer\(k, ctx, signer, msg\)#0, msg\.PubKey\)$`),
			Why:    "the application moved is the one ValidateApplicationTransfer returned (the signer's own)"},
		{Prop: P, ID: "app.stake-validation-gates", Fn: fnAppStakeH,
			Assume: []Lit{T(aXferErr), T(`^nonnil\(\(x/apps/keeper\.Keeper\)\.ValidateApplicationStaking\(`)},
			Target: CallTo(`\.StakeApplication\(`), Why: "no stake when validation failed"},
		{Prop: P, ID: "AppTransfer.signer-has-app", Fn: fnAppTransferV,
			Assume: []Lit{F(aSignerApp)},
			Target: Success(), Why: "transfer refused unless the tx signer's own address has an application"},
		{Prop: P, ID: "AppTransfer.signer-app-staked", Fn: fnAppTransferV,
			Assume: []Lit{F(`^\(x/apps/types\.Application\)\.IsStaked\(\(x/apps/keeper\.Keeper\)\.GetApplication\(k, ctx, invoke crypto\.PublicKey\.Address\(signer\)\)#0\)$`)},
			Target: Success(), Why: "and it is staked"},
		{Prop: P, ID: "AppTransfer.returns-signers-app", Fn: fnAppTransferV,
			Target: Target{Kind: TRetConst, Idx: 0, Re: `(x/apps/keeper.Keeper).GetApplication(k, ctx, invoke crypto.PublicKey.Address(signer))#0`, ReNot: ``},
			Assume: []Lit{T(aSignerApp), T(aUpgradeHeight), T(aAppTransferGate), T(`IsStaked`), F(`^nonnil\(x/apps/keeper\.ensurePubKeyTypeSupported`), F(`GetApplication\(k, ctx, invoke crypto\.PublicKey\.Address\(msg\.PubKey\)\)#1$`)},
			Why:    "on acceptance the application returned is the one stored under the signer's address"},
		{Prop: P, ID: "AppTransfer.gate.upgrade", Fn: fnAppTransferV,
			Assume: []Lit{F(aUpgradeHeight)}, Target: Success(), Why: "transfers only after the upgrade height"},
		{Prop: P, ID: "AppTransfer.gate.feature", Fn: fnAppTransferV,
			Assume: []Lit{F(aAppTransferGate)}, Target: Success(), Why: "transfers only after the AppTransfer feature"},
		// IsMsgAppTransfer (decides whether ante accepts the signature's own address)
		{Prop: P, ID: "IsMsgAppTransfer.signer-has-app", Fn: fnIsMsgAppXfer,
			Assume: []Lit{F(`^\(x/apps/keeper\.Keeper\)\.GetApplication\(k, ctx, msgSigner\)#1$`)},
			Target: RetNot(0, "false"), Why: "the ante exception applies only to a signer that owns an application"},
		{Prop: P, ID: "IsMsgAppTransfer.valid-transfer", Fn: fnIsMsgAppXfer,
			Assume: []Lit{T(`^nonnil\(\(x/apps/types\.MsgStake\)\.IsValidTransfer\(`)},
			Target: RetNot(0, "false"), Why: "only for a well-formed transfer message"},
		{Prop: P, ID: "IsMsgAppTransfer.only-app-stake", Fn: fnIsMsgAppXfer,
			Assume: []Lit{F(`^assert<\*x/apps/types\.MsgStake>\(msg\)#1$`)},
			Target: RetNot(0, "false"), Why: "only for the application stake message"},
		{Prop: P, ID: "IsMsgAppTransfer.gate", Fn: fnIsMsgAppXfer,
			Assume: []Lit{F(aAppTransferGate)},
			Target: RetNot(0, "false"), Why: "only after the AppTransfer feature"},
	}
	return c.Rows(rows)
}
