package main

import (
	"strings"

	"golang.org/x/tools/go/ssa"
)

// C42: transaction search returns exactly the matching indexed transactions —
// the key-layout clause: the prefix builders are prefixes of the key builders
// (same format head, same number encoder), both writers write the same four keys
// under the same filter, the reader decodes what they encode, the iteration
// direction matches the requested order, and a page is cut out of the range by
// skip/size while every entry is counted.

func init() {
	register(&Prop{
		ID: "C42", Title: "Transaction search returns exactly the matching indexed transactions",
		Technique: "writer/reader agreement (E6) between the key builders and the prefix builders (format string prefix, operand kinds, common number encoder); sibling agreement of AddBatch and Index; pruned-CFG rows on PrefixIterator, getByPrefix, Search dispatch and Get",
		DesignRef: "DESIGN.md §3 C42",
		Explanation: "keyForHeight/keyForSigner/keyForRecipient and their prefix builders share the format head and encode every number with the same order-preserving encoder; AddBatch and Index skip ante-level failures and otherwise write the signer key (if a signer exists), the recipient key (if a recipient exists), the height key and hash->result, the result being encoded with the arguments Get decodes with; Search dispatches each condition key to its own query, which uses that key's prefix builder; getByPrefix skips exactly Skip entries, appends only while fewer than Size were taken, and counts every entry; PrefixIterator iterates forward for \"asc\" and backward for \"desc\" (the keys sort ascending by height and index).",
		NotDecided:  "that the encoder is order preserving and that totals / pages are right in value; the height-qualified address queries (tx.signer AND tx.height), which the property does not mention — their prefix has no trailing separator, so endKey widens them to 'height >= H' (observed by execution, /verif/findings/F17, pinned by an existing RPC test).",
		MinObl:      24,
		Run:         runC42,
	})
}

// sprintfParts: format constant and operand renderings of the single fmt.Sprintf in fn.
func (c *Ctx) sprintfParts(fnName string) (format string, args []string, ok bool) {
	fn := c.A.Fn(fnName)
	if fn == nil {
		return "", nil, false
	}
	for _, s := range c.callSites(fn, `^fmt\.Sprintf\(`) {
		k, isK := s.Call.Args[0].(*ssa.Const)
		if !isK {
			continue
		}
		format = strings.Trim(k.Value.ExactString(), `"`)
		if sl, isS := s.Call.Args[1].(*ssa.Slice); isS {
			if a, isA := sl.X.(*ssa.Alloc); isA {
				args = varargElems(a, maxDepth)
			}
		}
		return format, args, true
	}
	return "", nil, false
}

func (c *Ctx) prefixOfKey(P, prefixFn, keyFn string, why string) Obligation {
	o := c.obl(P, "layout.prefix-is-prefix-of-key", prefixFn+"~"+keyFn, "the key built by "+prefixFn+" is a prefix (format head, leading operands, number encoder) of the keys built by "+keyFn+" — "+why)
	pf, pa, ok1 := c.sprintfParts(prefixFn)
	kf, ka, ok2 := c.sprintfParts(keyFn)
	if !ok1 || !ok2 {
		o.unresolved("fmt.Sprintf with a constant format not found in %s / %s", prefixFn, keyFn)
		return *o
	}
	if f := c.A.Fn(prefixFn); f != nil {
		o.Pos = c.A.FnPos(f)
	}
	o.Facts = len(pa) + len(ka)
	if !strings.HasPrefix(kf, strings.TrimSuffix(pf, "/")) {
		o.fail("", "format %q is not a head of the key format %q", pf, kf)
	}
	if len(pa) > len(ka) {
		o.fail("", "the prefix has more segments (%d) than the key (%d)", len(pa), len(ka))
		return *o
	}
	enc := `(github.com/jordanorelli/lexnum.Encoder).EncodeInt(types.elenEncoder, `
	for i := range pa {
		p, k := pa[i], ka[i]
		switch {
		case i == 0:
			if p != k {
				o.fail("", "segment 0 differs: %s vs %s", p, k)
			}
		case strings.HasPrefix(k, enc):
			if !strings.HasPrefix(p, enc) {
				o.fail("", "segment %d of the key is an encoded number but the prefix has %s", i, p)
			}
		default:
			// an address / hash segment: both must be the plain value (same verb, no encoder)
			if strings.HasPrefix(p, enc) {
				o.fail("", "segment %d of the prefix is an encoded number but the key has %s", i, k)
			}
		}
	}
	for i, k := range ka {
		if i > 0 && strings.Contains(k, "EncodeInt(") && !strings.HasPrefix(k, enc) {
			o.fail("", "segment %d of the key (%s) is not encoded with the indexer's order-preserving encoder", i, k)
		}
	}
	return *o
}

func runC42(c *Ctx) []Obligation {
	P := "C42"
	var out []Obligation
	out = append(out,
		c.prefixOfKey(P, "types.prefixKeyForHeight", "types.keyForHeight", "height search scans exactly the keys of that height"),
		c.prefixOfKey(P, "types.prefixKeyForSigner", "types.keyForSigner", "signer search scans that signer's keys from the lowest height"),
		c.prefixOfKey(P, "types.prefixKeyForRecipient", "types.keyForRecipient", "recipient search scans that recipient's keys from the lowest height"),
	)
	set := `invoke github\.com/tendermint/tm-db\.Batch\.Set\(`
	for _, w := range []struct{ fn, res, batch string }{
		{"(*types.TransactionIndexer).Index", `result`, `invoke github\.com/tendermint/tm-db\.DB\.NewBatch\(t\.store\)`},
		{"(*types.TransactionIndexer).AddBatch", `b\.Ops\[\(phi:rangeindex \+ 1\)\]`, `invoke github\.com/tendermint/tm-db\.DB\.NewBatch\(t\.store\)`},
	} {
		hash := `\(github\.com/tendermint/tendermint/types\.Tx\)\.Hash\(` + w.res + `\.Tx\)`
		ante := []Lit{T(`^eq\("auth", ` + w.res + `\.Result\.Codespace\)$`), T(`^lt\(` + w.res + `\.Result\.Code, 10\)$`)}
		name := w.fn[strings.LastIndex(w.fn, ".")+1:]
		out = append(out, c.Rows([]Row{
			{Prop: P, ID: "write." + name + ".ante-failures-not-indexed", Fn: w.fn, Assume: ante, Target: CallTo(`^` + set), TargetMustExist: true, Why: "ante-handler level failures are not indexed"},
			{Prop: P, ID: "write." + name + ".signer-key-iff-signer", Fn: w.fn, Assume: []Lit{F(`^nonnil\(` + w.res + `\.Result\.Signer\)$`)}, Target: CallTo(`^` + set + w.batch + `, types\.keyForSigner\(`), TargetMustExist: true, Why: "no signer key without a signer"},
			{Prop: P, ID: "write." + name + ".recipient-key-iff-recipient", Fn: w.fn, Assume: []Lit{F(`^nonnil\(` + w.res + `\.Result\.Recipient\)$`)}, Target: CallTo(`^` + set + w.batch + `, types\.keyForRecipient\(`), TargetMustExist: true, Why: "no recipient key without a recipient"},
			{Prop: P, ID: "write." + name + ".keys", Fn: w.fn,
				Target: CallTo(`^` + set).Except(`^` + set + w.batch + `, (types\.keyFor(Signer|Recipient|Height)\(` + w.res + `\), ` + hash + `|` + hash + `, \(\*codec\.Codec\)\.MarshalBinaryBare\(types\.cdc, ` + w.res + `, 0\)#0)\)$`),
				Why: "exactly the signer, recipient and height keys (each mapping to the tx hash) and hash->encoded result are written, all for this result"},
		})...)
		out = append(out,
			c.edgeMust(P, "write."+name+".signer-key-written", w.fn, `^nonnil\(`+w.res+`\.Result\.Signer\)$`, true, `^`+set+w.batch+`, types\.keyForSigner\(`+w.res+`\)`, 1, "an indexed result with a signer gets its signer key"),
			c.edgeMust(P, "write."+name+".recipient-key-written", w.fn, `^nonnil\(`+w.res+`\.Result\.Recipient\)$`, true, `^`+set+w.batch+`, types\.keyForRecipient\(`+w.res+`\)`, 1, "an indexed result with a recipient gets its recipient key"),
			c.edgeMust(P, "write."+name+".height-key-written", w.fn, `^lt\(`+w.res+`\.Result\.Code, 10\)$`, false, `^`+set+w.batch+`, types\.keyForHeight\(`+w.res+`\)`, 1, "every indexed result gets its height key"),
			c.edgeMust(P, "write."+name+".non-auth-results-indexed", w.fn, `^eq\("auth", `+w.res+`\.Result\.Codespace\)$`, false, `^`+set+w.batch+`, types\.keyForHeight\(`+w.res+`\)`, 1, "a result outside the auth codespace (i.e. one that got past the ante handler) is always indexed"),
			c.edgeMust(P, "write."+name+".result-stored", w.fn, `^nonnil\(\(\*codec\.Codec\)\.MarshalBinaryBare\(types\.cdc, `+w.res+`, 0\)#1\)$`, false, `^`+set+w.batch+`, `+hash+`, `, 1, "every indexed result is stored under its hash"),
		)
	}
	out = append(out,
		c.crossOperand(P, "codec.same-height-argument", "(*types.TransactionIndexer).Index", `^\(\*codec\.Codec\)\.MarshalBinaryBare\(`, 2, "(*types.TransactionIndexer).Get", `^\(\*codec\.Codec\)\.UnmarshalBinaryBare\(`, 3, nil, false, "results are decoded with the codec height they were encoded with"),
	)
	it := `types\.PrefixIterator\(t\.store, prefix, pagination\.Sort\)#0`
	out = append(out, c.Rows([]Row{
		{Prop: P, ID: "order.asc-iterates-forward", Fn: "types.PrefixIterator", Assume: []Lit{T(`^eq\("asc", order\)$`)}, Target: CallTo(`^invoke github\.com/tendermint/tm-db\.DB\.ReverseIterator\(`), TargetMustExist: true, Why: "keys sort ascending by (height, index): ascending order is the forward iterator"},
		{Prop: P, ID: "order.desc-iterates-backward", Fn: "types.PrefixIterator", Assume: []Lit{F(`^eq\("asc", order\)$`), T(`^eq\("desc", order\)$`)}, Target: CallTo(`^invoke github\.com/tendermint/tm-db\.DB\.Iterator\(`), TargetMustExist: true, Why: "descending order is the reverse iterator"},
		{Prop: P, ID: "order.range-operands", Fn: "types.PrefixIterator", Target: CallTo(`^invoke github\.com/tendermint/tm-db\.DB\.(Reverse)?Iterator\(`).Except(`^invoke github\.com/tendermint/tm-db\.DB\.(Reverse)?Iterator\(db, prefix, types\.endKey\(prefix\)\)$`), Why: "both directions scan [prefix, endKey(prefix))"},
		{Prop: P, ID: "order.unknown-rejected", Fn: "types.PrefixIterator", Assume: []Lit{F(`^eq\("asc", order\)$`), F(`^eq\("desc", order\)$`)}, Target: Success(), Why: "an unknown order is an error"},
		{Prop: P, ID: "page.skipped-not-returned", Fn: "(*types.TransactionIndexer).getByPrefix", Assume: []Lit{T(`^lt\(phi:skipCount, pagination\.Skip\)$`)}, Target: CallTo(`^builtin\.append\(var:res`), TargetMustExist: true, Why: "skipped entries are not returned"},
		{Prop: P, ID: "page.size-bounds-results", Fn: "(*types.TransactionIndexer).getByPrefix", Assume: []Lit{F(`^lt\(phi:i, pagination\.Size\)$`)}, Target: CallTo(`^builtin\.append\(var:res`), Why: "no more than Size entries are returned"},
		{Prop: P, ID: "page.appends-fetched-entry", Fn: "(*types.TransactionIndexer).getByPrefix", Target: CallTo(`^builtin\.append\(var:res`).Except(`^builtin\.append\(var:res, \[\(\*types\.TransactionIndexer\)\.Get\(t, invoke github\.com/tendermint/tm-db\.Iterator\.Value\(` + it + `\)\)#0\]\)$`), Why: "what is returned is the stored result of the iterated entry"},
		{Prop: P, ID: "page.fetch-error-fails", Fn: "(*types.TransactionIndexer).getByPrefix", Assume: []Lit{T(`^nonnil\(\(\*types\.TransactionIndexer\)\.Get\(t, `)}, Target: CallTo(`^builtin\.append\(var:res`), Why: "an unreadable entry fails the query instead of being skipped"},
		{Prop: P, ID: "search.height-uses-height-prefix", Fn: "(*types.TransactionIndexer).heightQuery", Target: CallTo(`getByPrefix\(`).Except(`^\(\*types\.TransactionIndexer\)\.getByPrefix\(t, types\.prefixKeyForHeight\(assert<int64>\(condition\.Operand\)#0\), pagination\)$`), Why: "a height search scans the height prefix of the requested height"},
		{Prop: P, ID: "search.signer-uses-signer-prefix", Fn: "(*types.TransactionIndexer).signerQuery", Assume: []Lit{F(`^eq\("tx\.height", secondaryCondition\.CompositeKey\)$`)}, Target: CallTo(`getByPrefix\(`).Except(`^\(\*types\.TransactionIndexer\)\.getByPrefix\(t, types\.prefixKeyForSigner\(encoding/hex\.DecodeString\(assert<string>\(primaryCondition\.Operand\)\)#0\), pagination\)$`), Why: "a signer search scans that signer's prefix"},
		{Prop: P, ID: "search.recipient-uses-recipient-prefix", Fn: "(*types.TransactionIndexer).recipientQuery", Assume: []Lit{F(`^eq\("tx\.height", secondaryCondition\.CompositeKey\)$`)}, Target: CallTo(`getByPrefix\(`).Except(`^\(\*types\.TransactionIndexer\)\.getByPrefix\(t, types\.prefixKeyForRecipient\(encoding/hex\.DecodeString\(assert<string>\(primaryCondition\.Operand\)\)#0\), pagination\)$`), Why: "a recipient search scans that recipient's prefix"},
		{Prop: P, ID: "get.reads-hash-key", Fn: "(*types.TransactionIndexer).Get", Target: CallTo(`^invoke github\.com/tendermint/tm-db\.DB\.Get\(`).Except(`^invoke github\.com/tendermint/tm-db\.DB\.Get\(t\.store, hash\)$`), Why: "lookup by hash reads the record stored under that hash"},
		{Prop: P, ID: "get.decode-error-fails", Fn: "(*types.TransactionIndexer).Get", Assume: []Lit{F(`^eq\(0, builtin\.len\(hash\)\)$`), T(`^nonnil\(invoke github\.com/tendermint/tm-db\.DB\.Get\(t\.store, hash\)#0\)$`), T(`^nonnil\(\(\*codec\.Codec\)\.UnmarshalBinaryBare\(`)}, Target: Success(), Why: "an undecodable record is an error"},
	})...)
	s2r := []Rename{{From: "tx.signer", To: "tx.recipient"}, {From: "Signer", To: "Recipient"}, {From: "signer", To: "recipient"}}
	out = append(out,
		c.twins(P, "twins.key", "types.keyForSigner", "types.keyForRecipient", s2r, "recipient keys are built like signer keys"),
		c.twins(P, "twins.prefix", "types.prefixKeyForSigner", "types.prefixKeyForRecipient", s2r, "recipient prefixes are built like signer prefixes"),
		c.twins(P, "twins.query", "(*types.TransactionIndexer).signerQuery", "(*types.TransactionIndexer).recipientQuery", s2r, "a recipient search is a signer search over the recipient index"),
	)
	out = append(out,
		c.edgeMust(P, "page.entries-past-the-skip-are-fetched", "(*types.TransactionIndexer).getByPrefix", `^lt\(phi:skipCount, pagination\.Skip\)$`, false, `^\(\*types\.TransactionIndexer\)\.Get\(t, `, 1, "exactly Skip entries are passed over: the next one is fetched"),
		c.edgeMust(P, "page.entries-within-size-are-returned", "(*types.TransactionIndexer).getByPrefix", `^lt\(phi:i, pagination\.Size\)$`, true, `^builtin\.append\(var:res, `, 1, "an entry fetched while fewer than Size were returned is returned"),
		c.loopsExitOnlyAtHeader(P, "write.AddBatch.visits-every-result", "(*types.TransactionIndexer).AddBatch", "a result that is not indexed (an ante failure) does not stop the rest of the batch from being indexed"),
	)
	out = append(out, c.edgeMust(P, "page.every-entry-counted", "(*types.TransactionIndexer).getByPrefix", `^invoke github\.com/tendermint/tm-db\.Iterator\.Valid\(`+it+`\)$`, true, `store:^&var:total = \(var:total \+ 1\)$ || ret:^nil ; 0 ; `, 1, "every entry in range is counted into the total (or the query fails)"))
	return out
}

// indexerSkipRows (C16): the duplicate check looks a transaction up by hash in the indexer, so
// the only results the indexer may leave out are the ones that provably changed nothing: ante-handler
// failures, i.e. auth codespace AND code below AnteHandlerMaxError. Every other result must be stored
// under its hash. Stated per branch, and seen through a predicate helper if the guard is moved into one.
func indexerSkipRows(c *Ctx, P string) []Obligation {
	var out []Obligation
	set := `invoke github\.com/tendermint/tm-db\.Batch\.Set\(`
	batch := `invoke github\.com/tendermint/tm-db\.DB\.NewBatch\(t\.store\)`
	for _, w := range []struct{ fn, res string }{
		{"(*types.TransactionIndexer).Index", `result`},
		{"(*types.TransactionIndexer).AddBatch", `b\.Ops\[\(phi:rangeindex \+ 1\)\]`},
	} {
		hash := `\(github\.com/tendermint/tendermint/types\.Tx\)\.Hash\(` + w.res + `\.Tx\)`
		name := w.fn[strings.LastIndex(w.fn, ".")+1:]
		stored := `^` + set + batch + `, ` + hash + `, `
		// the record is written right after the result is encoded; only an encoding failure (which fails
		// the whole call) lies between the two
		must := `^\(\*codec\.Codec\)\.MarshalBinaryBare\(types\.cdc, ` + w.res + `, 0\)`
		out = append(out, c.edgeMust(P, "indexer."+name+".encoded-result-recorded-under-hash", w.fn, `^nonnil\(\(\*codec\.Codec\)\.MarshalBinaryBare\(types\.cdc, `+w.res+`, 0\)#1\)$`, false, stored, 1, "once encoded, the result is recorded under the hash of the raw bytes"))
		out = append(out,
			c.edgeMust(P, "indexer."+name+".skips-only-auth-codespace", w.fn, `^eq\("auth", `+w.res+`\.Result\.Codespace\)$`, false, must, 1, "a result outside the auth codespace is recorded under its hash, so the same bytes are refused later"),
			c.edgeMust(P, "indexer."+name+".skips-only-ante-codes", w.fn, `^lt\(`+w.res+`\.Result\.Code, 10\)$`, false, must, 1, "a result with a code at or above AnteHandlerMaxError is recorded under its hash"),
		)
	}
	return out
}
