package main

import (
	"go/token"

	"golang.org/x/tools/go/ssa"
)

// Seeing through new functions. A function the name record does not know (isNewFn) was introduced
// after the rows were written — typically lines extracted from an anchored function. Rows keep
// speaking about the anchored function; what the new function does is read in the caller's terms
// (parameters rendered as the arguments of the call):
//   - must-patterns (Barrier, From, E10's construct): the call counts as the construct when every
//     path through the new function, from entry to a return, passes through it;
//   - may-patterns (a forbidden or form-restricted call or store): the call counts as a hit when some
//     instruction inside the new function is one;
//   - call-site listings include the matching calls inside it;
//   - a value it returns is rendered as the returned expression when that is unique (a single
//     return, or a single feasible one under the row's valuation).
// Depth is bounded; existing functions are never entered (they are anchors with their own rows).

const throughMax = 2

var throughDepth int

// curLits: the valuation of the row being evaluated (for rendering helper results); nil outside eval.
var curLits []Lit

// curMatched: the per-atom match counters of the row being evaluated (atoms tested inside a new
// function count as tested).
var curMatched []int

// helperPick: for a call to a new function with several feasible return values, the alternative to
// render (set while a construct is examined once per alternative).
var helperPick map[*ssa.Call]int

func newCallee(ins ssa.Instruction) (*ssa.Function, []ssa.Value) {
	call, ok := ins.(*ssa.Call)
	if !ok {
		return nil, nil
	}
	callee := call.Call.StaticCallee()
	if callee == nil || !isNewFn(callee) || len(callee.Params) != len(call.Call.Args) || len(callee.FreeVars) > 0 {
		return nil, nil
	}
	return callee, call.Call.Args
}

// inFrame runs f with callee's parameters rendered as args.
func inFrame(callee *ssa.Function, args []ssa.Value, f func()) {
	saved := paramSubst
	ns := map[*ssa.Parameter]ssa.Value{}
	for k, x := range saved {
		ns[k] = x
	}
	for i, p := range callee.Params {
		ns[p] = args[i]
	}
	paramSubst = ns
	savedPhi := phiResolver
	phiResolver = nil
	throughDepth++
	defer func() { paramSubst = saved; phiResolver = savedPhi; throughDepth-- }()
	f()
}

// helperMay: some instruction inside the new function called by ins satisfies pred.
func helperMay(ins ssa.Instruction, pred func(ssa.Instruction) bool) bool {
	callee, args := newCallee(ins)
	if callee == nil || throughDepth >= throughMax {
		return false
	}
	hit := false
	feasible := feasibleBlocks(callee, args)
	inFrame(callee, args, func() {
		for _, b := range callee.Blocks {
			if feasible != nil && !feasible[b] {
				continue
			}
			for _, in := range b.Instrs {
				if pred(in) {
					hit = true
					return
				}
			}
		}
	})
	return hit
}

// feasibleBlocks: the blocks of callee reachable under the valuation of the row being evaluated
// (nil: no valuation, everything counts).
// throughNoPrune: while the constructs present in a function are being counted (not reached), the
// valuation does not restrict what counts inside a new function either.
var throughNoPrune bool

func feasibleBlocks(callee *ssa.Function, args []ssa.Value) map[*ssa.BasicBlock]bool {
	if theE1 == nil || len(curLits) == 0 || throughNoPrune {
		return nil
	}
	seen := map[*ssa.BasicBlock]bool{callee.Blocks[0]: true}
	inFrame(callee, args, func() {
		throughDepth-- // deciding branches is not a level of descent
		defer func() { throughDepth++ }()
		q := []*ssa.BasicBlock{callee.Blocks[0]}
		for len(q) > 0 {
			b := q[0]
			q = q[1:]
			succs := b.Succs
			if iff, isIf := b.Instrs[len(b.Instrs)-1].(*ssa.If); isIf && len(succs) == 2 {
				if _, isPhi := iff.Cond.(*ssa.Phi); !isPhi {
					if k, r := theE1.boolUnder(iff.Cond, curLits, curMatched); k {
						if r {
							succs = succs[:1]
						} else {
							succs = succs[1:]
						}
					}
				}
			}
			for _, s := range succs {
				if !seen[s] {
					seen[s] = true
					q = append(q, s)
				}
			}
		}
	})
	return seen
}

// helperMust: every path through the new function called by ins passes an instruction satisfying pred.
func helperMust(ins ssa.Instruction, pred func(ssa.Instruction) bool) bool {
	callee, args := newCallee(ins)
	if callee == nil || throughDepth >= throughMax {
		return false
	}
	must := false
	inFrame(callee, args, func() {
		has := map[*ssa.BasicBlock]bool{}
		any := false
		for _, b := range callee.Blocks {
			for _, in := range b.Instrs {
				if pred(in) {
					has[b] = true
					any = true
					break
				}
			}
		}
		if !any {
			return
		}
		seen := map[*ssa.BasicBlock]bool{}
		work := []*ssa.BasicBlock{callee.Blocks[0]}
		for len(work) > 0 {
			b := work[len(work)-1]
			work = work[:len(work)-1]
			if seen[b] || has[b] {
				continue
			}
			seen[b] = true
			if _, isRet := b.Instrs[len(b.Instrs)-1].(*ssa.Return); isRet {
				return // a return is reached without the construct
			}
			work = append(work, b.Succs...)
		}
		must = true
	})
	return must
}

// helperSites: the calls inside the new function called by ins whose rendering (in the caller's
// terms) matches re.
func (e *e1Engine) helperSites(ins ssa.Instruction, re string) []site {
	callee, args := newCallee(ins)
	if callee == nil || throughDepth >= throughMax {
		return nil
	}
	var out []site
	inFrame(callee, args, func() {
		for _, b := range callee.Blocks {
			for _, in := range b.Instrs {
				ci, ok := in.(ssa.CallInstruction)
				if !ok {
					continue
				}
				if d, m := e.callMatches(in, re); m {
					out = append(out, site{Ins: ins, Call: ci.Common(), Desc: d, Block: ins.Block()})
				}
				out = append(out, e.helperSites(in, re)...)
			}
		}
	})
	return out
}

// helperValue: the expression a single-result new function returns for this call, if unique.
func (e *e1Engine) helperValue(call *ssa.Call) ssa.Value {
	callee, _ := newCallee(call)
	if callee == nil || throughDepth >= throughMax || callee.Signature.Results().Len() != 1 {
		return nil
	}
	var rets []*ssa.Return
	for _, b := range callee.Blocks {
		if r, ok := b.Instrs[len(b.Instrs)-1].(*ssa.Return); ok {
			rets = append(rets, r)
		}
	}
	if len(rets) == 1 {
		if _, isPhi := rets[0].Results[0].(*ssa.Phi); !isPhi {
			return rets[0].Results[0]
		}
	}
	if e == nil || curLits == nil {
		// outside a row evaluation there is no valuation to narrow the result with: a single return of
		// a merged variable is still rendered as that variable
		if len(rets) == 1 {
			if ph, isPhi := rets[0].Results[0].(*ssa.Phi); isPhi && ph.Comment != "" {
				return ph
			}
		}
		return nil
	}
	// several returns (or a merged one): the feasible ones under the row's valuation
	vals, ok := e.feasibleReturns(callee, call.Call.Args, curLits)
	if !ok || len(vals) == 0 {
		return nil
	}
	first := ""
	var v0 ssa.Value
	unique := true
	inFrame(callee, call.Call.Args, func() {
		for i, v := range vals {
			d := desc(v, maxDepth)
			if i == 0 {
				first, v0 = d, v
			} else if d != first {
				unique = false
			}
		}
	})
	if !unique {
		if k, ok := helperPick[call]; ok && k < len(vals) {
			return vals[k]
		}
		// one return of a merged variable: render it as that variable (an extracted block usually keeps
		// the name the variable had in the function it was cut from)
		if len(rets) == 1 {
			if ph, isPhi := rets[0].Results[0].(*ssa.Phi); isPhi && ph.Comment != "" {
				return ph
			}
		}
		return nil
	}
	return v0
}

// helperAlternatives: the calls to multi-valued new functions that the rendering of v goes through,
// with the number of feasible return values of each.
func (e *e1Engine) helperAlternatives(v ssa.Value, depth int, acc map[*ssa.Call]int) {
	if v == nil || depth > 6 {
		return
	}
	if call, ok := v.(*ssa.Call); ok {
		if callee, _ := newCallee(call); callee != nil && callee.Signature.Results().Len() == 1 && curLits != nil {
			saved := helperPick
			helperPick = nil
			single := e.helperValue(call) != nil
			helperPick = saved
			if !single {
				if vals, ok := e.feasibleReturns(callee, call.Call.Args, curLits); ok && len(vals) > 1 && len(vals) <= 4 {
					acc[call] = len(vals)
				}
			}
		}
	}
	if ins, ok := v.(ssa.Instruction); ok {
		var ops []*ssa.Value
		for _, op := range ins.Operands(ops) {
			if op != nil && *op != nil {
				if _, isFn := (*op).(*ssa.Function); !isFn {
					e.helperAlternatives(*op, depth+1, acc)
				}
			}
		}
	}
}

// anyAlternative: pred holds for the instruction under some choice of return value for each
// multi-valued new function its operands go through (a construct is a target if one of the values it
// can take is one).
func (e *e1Engine) anyAlternative(ins ssa.Instruction, pred func() bool) bool {
	if pred() {
		// the plain rendering (helper calls left as calls) is itself a target: see whether every
		// concrete alternative is one too; if the construct goes through no multi-valued helper this
		// is the answer
		acc := map[*ssa.Call]int{}
		var ops []*ssa.Value
		for _, op := range ins.Operands(ops) {
			if op != nil && *op != nil {
				e.helperAlternatives(*op, 0, acc)
			}
		}
		if len(acc) == 0 || len(acc) > 3 {
			return true
		}
		var calls []*ssa.Call
		for c := range acc {
			calls = append(calls, c)
		}
		saved := helperPick
		defer func() { helperPick = saved }()
		pick := map[*ssa.Call]int{}
		var rec func(i int) bool
		rec = func(i int) bool {
			if i == len(calls) {
				helperPick = pick
				return pred()
			}
			for k := 0; k < acc[calls[i]]; k++ {
				pick[calls[i]] = k
				if rec(i + 1) {
					return true
				}
			}
			return false
		}
		return rec(0)
	}
	return false
}

// feasibleReturns: the values callee can return under lits (branches decided by the valuation are
// followed on one side only); ok is false for bodies with loops.
func (e *e1Engine) feasibleReturns(callee *ssa.Function, args []ssa.Value, lits []Lit) ([]ssa.Value, bool) {
	var out []ssa.Value
	ok := true
	inFrame(callee, args, func() {
		type edge [2]*ssa.BasicBlock
		feas := map[edge]bool{}
		seen := map[*ssa.BasicBlock]bool{callee.Blocks[0]: true}
		q := []*ssa.BasicBlock{callee.Blocks[0]}
		for len(q) > 0 {
			b := q[0]
			q = q[1:]
			succs := b.Succs
			if iff, isIf := b.Instrs[len(b.Instrs)-1].(*ssa.If); isIf && len(succs) == 2 {
				if _, isPhi := iff.Cond.(*ssa.Phi); !isPhi {
					if k, r := e.boolUnder(iff.Cond, lits, nil); k {
						if r {
							succs = succs[:1]
						} else {
							succs = succs[1:]
						}
					}
				}
			}
			for _, s := range succs {
				if s.Index <= b.Index && s.Dominates(b) {
					ok = false
				}
				feas[edge{b, s}] = true
				if !seen[s] {
					seen[s] = true
					q = append(q, s)
				}
			}
		}
		for _, b := range callee.Blocks {
			if !seen[b] {
				continue
			}
			r, isRet := b.Instrs[len(b.Instrs)-1].(*ssa.Return)
			if !isRet || len(r.Results) != 1 {
				continue
			}
			if ph, isPhi := r.Results[0].(*ssa.Phi); isPhi {
				for i, ed := range ph.Edges {
					if feas[edge{ph.Block().Preds[i], ph.Block()}] {
						out = append(out, ed)
					}
				}
				continue
			}
			out = append(out, r.Results[0])
		}
	})
	return out, ok
}

// feasibleReturnInstrs: the return instructions of callee reachable under lits (branches the valuation
// decides are followed on one side only; a phi condition is left undecided).
func (e *e1Engine) feasibleReturnInstrs(callee *ssa.Function, args []ssa.Value, lits []Lit, matched []int) []*ssa.Return {
	var out []*ssa.Return
	inFrame(callee, args, func() {
		throughDepth--
		defer func() { throughDepth++ }()
		seen := map[*ssa.BasicBlock]bool{callee.Blocks[0]: true}
		q := []*ssa.BasicBlock{callee.Blocks[0]}
		for len(q) > 0 {
			b := q[0]
			q = q[1:]
			succs := b.Succs
			if iff, isIf := b.Instrs[len(b.Instrs)-1].(*ssa.If); isIf && len(succs) == 2 {
				c := iff.Cond
				for {
					c = stripConv(c)
					if u, ok := c.(*ssa.UnOp); ok && u.Op == token.NOT {
						c = u.X
						continue
					}
					break
				}
				if _, isPhi := c.(*ssa.Phi); !isPhi {
					if k, r := e.boolUnder(iff.Cond, lits, matched); k {
						if r {
							succs = succs[:1]
						} else {
							succs = succs[1:]
						}
					}
				}
			}
			for _, s := range succs {
				if !seen[s] {
					seen[s] = true
					q = append(q, s)
				}
			}
		}
		for _, b := range callee.Blocks {
			if seen[b] {
				if r, ok := b.Instrs[len(b.Instrs)-1].(*ssa.Return); ok {
					out = append(out, r)
				}
			}
		}
	})
	return out
}

// helperNil: v is the result (or the idx-th result) of a call to a new function; under lits, is it
// certainly nil / certainly non-nil on every feasible return?
func (e *e1Engine) helperNil(v ssa.Value, lits []Lit, matched []int) (known, nonNil bool) {
	v = stripConv(v)
	idx := 0
	var call *ssa.Call
	switch x := v.(type) {
	case *ssa.Call:
		call = x
	case *ssa.Extract:
		c, ok := x.Tuple.(*ssa.Call)
		if !ok {
			return false, false
		}
		call, idx = c, x.Index
	default:
		return false, false
	}
	callee, args := newCallee(call)
	if callee == nil || throughDepth >= throughMax || idx >= callee.Signature.Results().Len() {
		return false, false
	}
	rets := e.feasibleReturnInstrs(callee, args, lits, matched)
	if len(rets) == 0 {
		return false, false
	}
	first := true
	res := false
	ok := true
	inFrame(callee, args, func() {
		for _, r := range rets {
			if idx >= len(r.Results) {
				ok = false
				return
			}
			rv := retOperand(r, idx)
			var nn bool
			if k, isK := rv.(*ssa.Const); isK && k.IsNil() {
				nn = false
			} else if e.valueNonNil(rv, r.Block(), lits, 0) {
				nn = true
			} else {
				ok = false
				return
			}
			if first {
				res, first = nn, false
			} else if nn != res {
				ok = false
				return
			}
		}
	})
	if !ok || first {
		return false, false
	}
	return true, res
}
