package main

import (
	_ "embed"
	"encoding/json"
	"os"
	"path/filepath"
	"sort"

	"golang.org/x/tools/go/ssa"
)

// Identifier-independent rendering. The rule rows name values the way go/ssa does — by the source
// identifier of a parameter, a local or a variable merged at a join. Renaming one of those changes
// nothing in the program, so it must change nothing in the rendering either. names.json records, for
// every repository function of the tree the rows were written on, its parameter names (by position),
// free variables (by position) and the names of its locals and join variables; at load time the
// current function is reconciled with that record:
//   - parameters and free variables are bound positionally, as a caller binds them: a parameter is
//     rendered under the recorded name of its position. (Swapping the names of two parameters while
//     leaving the body alone changes which argument the body uses — and is rendered as such.)
//   - locals and join variables keep their name if the record knows it; names the record does not know
//     are matched, in order of first appearance, with the recorded names that disappeared, provided
//     there are equally many of each. Otherwise they are rendered as they are (and a row that mentions
//     them fails loudly as unresolved or violated, never silently).
// Function, method, field and type names remain anchors: they are the program's own interface.

//go:embed names.json
var namesJSON []byte

type fnNames struct {
	Params   []string `json:"p,omitempty"`
	FreeVars []string `json:"f,omitempty"`
	Locals   []string `json:"l,omitempty"` // distinct names, order of first appearance
	Phis     []string `json:"j,omitempty"`
}

// canonName: values whose rendering name differs from their current identifier.
var canonName = map[ssa.Value]string{}

// recordedFns: the functions that existed (with a body worth recording) when the rows were written.
var recordedFns map[string]bool

// isNewFn: a repository function the record does not know — introduced after the rows were written,
// typically a helper extracted from an anchored function. Tables and rows see through such functions
// (their callers own what they do; their bodies are read in the caller's terms) instead of treating
// them as strangers.
func isNewFn(fn *ssa.Function) bool {
	if fn == nil || fn.Blocks == nil || recordedFns == nil || len(recordedFns) == 0 || !fnInRepo(fn) || fn.Synthetic != "" {
		return false
	}
	return !recordedFns[FnName(fn)]
}

func collectNames(fn *ssa.Function) (fnNames, map[string][]ssa.Value) {
	var n fnNames
	by := map[string][]ssa.Value{}
	for _, p := range fn.Params {
		n.Params = append(n.Params, p.Name())
	}
	for _, f := range fn.FreeVars {
		n.FreeVars = append(n.FreeVars, f.Name())
	}
	seenL, seenP := map[string]bool{}, map[string]bool{}
	for _, b := range fn.Blocks {
		for _, ins := range b.Instrs {
			switch x := ins.(type) {
			case *ssa.Alloc:
				c := x.Comment
				if c == "" {
					continue
				}
				by["l:"+c] = append(by["l:"+c], x)
				if !seenL[c] {
					seenL[c] = true
					n.Locals = append(n.Locals, c)
				}
			case *ssa.Phi:
				c := x.Comment
				if c == "" {
					continue
				}
				by["j:"+c] = append(by["j:"+c], x)
				if !seenP[c] {
					seenP[c] = true
					n.Phis = append(n.Phis, c)
				}
			}
		}
	}
	return n, by
}

func freezeNames(a *Analysis, srcDir string) error {
	out := map[string]fnNames{}
	for fn := range a.AllFns {
		if fn.Blocks == nil {
			continue
		}
		n, _ := collectNames(fn)
		out[FnName(fn)] = n
	}
	keys := make([]string, 0, len(out))
	for k := range out {
		keys = append(keys, k)
	}
	sort.Strings(keys)
	// stable output: encode in key order
	buf := []byte("{\n")
	for i, k := range keys {
		kb, _ := json.Marshal(k)
		vb, _ := json.Marshal(out[k])
		buf = append(buf, kb...)
		buf = append(buf, ':')
		buf = append(buf, vb...)
		if i < len(keys)-1 {
			buf = append(buf, ',')
		}
		buf = append(buf, '\n')
	}
	buf = append(buf, "}\n"...)
	return os.WriteFile(filepath.Join(srcDir, "cmd", "vcheck", "names.json"), buf, 0o644)
}

// applyNames reconciles the loaded program with the recorded names. Returns how many values are
// rendered under a recorded name that differs from their current identifier.
func applyNames(a *Analysis) int {
	canonName = map[ssa.Value]string{}
	var rec map[string]fnNames
	if len(namesJSON) == 0 || json.Unmarshal(namesJSON, &rec) != nil {
		return 0
	}
	recordedFns = map[string]bool{}
	for k := range rec {
		recordedFns[k] = true
	}
	diffList := func(cur, old []string) map[string]string {
		inOld, inCur := map[string]bool{}, map[string]bool{}
		for _, o := range old {
			inOld[o] = true
		}
		for _, c := range cur {
			inCur[c] = true
		}
		var newC, goneO []string
		for _, c := range cur {
			if !inOld[c] {
				newC = append(newC, c)
			}
		}
		for _, o := range old {
			if !inCur[o] {
				goneO = append(goneO, o)
			}
		}
		if len(newC) == 0 || len(newC) != len(goneO) {
			return nil
		}
		m := map[string]string{}
		for i := range newC {
			m[newC[i]] = goneO[i]
		}
		return m
	}
	for fn := range a.AllFns {
		if fn.Blocks == nil {
			continue
		}
		old, ok := rec[FnName(fn)]
		if !ok {
			continue
		}
		cur, by := collectNames(fn)
		if len(cur.Params) == len(old.Params) {
			for i, p := range fn.Params {
				if p.Name() != old.Params[i] {
					canonName[p] = old.Params[i]
				}
			}
		}
		if len(cur.FreeVars) == len(old.FreeVars) {
			for i, f := range fn.FreeVars {
				if f.Name() != old.FreeVars[i] {
					canonName[f] = old.FreeVars[i]
				}
			}
		}
		for from, to := range diffList(cur.Locals, old.Locals) {
			for _, v := range by["l:"+from] {
				canonName[v] = to
			}
		}
		for from, to := range diffList(cur.Phis, old.Phis) {
			for _, v := range by["j:"+from] {
				canonName[v] = to
			}
		}
	}
	return len(canonName)
}

// identName: the name a parameter, free variable, local or join variable is rendered under.
func identName(v ssa.Value) string {
	if n, ok := canonName[v]; ok {
		return n
	}
	switch x := v.(type) {
	case *ssa.Parameter:
		return x.Name()
	case *ssa.FreeVar:
		return x.Name()
	case *ssa.Alloc:
		return x.Comment
	case *ssa.Phi:
		return x.Comment
	}
	return v.Name()
}
