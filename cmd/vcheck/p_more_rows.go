package main

// Further rows written from the mutation run's survivors (auth bank helpers, genesis parameters, the
// upgrade merge). Shared by the properties they serve.

const kAu = `\(x/auth/keeper\.Keeper\)\.`
const kKk = `\(x/pocketcore/keeper\.Keeper\)\.`

// moduleSendDirections (C17, C18, C26): the module-account send helpers move from the named sender to the
// named recipient — not the other way round — and the balance setter persists what it set.
func moduleSendDirections(c *Ctx, P string) []Obligation {
	modAddr := kAu + `GetModuleAddress\(k, senderModule\)`
	modAcc := `invoke x/auth/exported\.ModuleAccountI\.GetAddress\(` + kAu + `GetModuleAccount\(k, ctx, recipientModule\)\)`
	return c.Rows([]Row{
		{Prop: P, ID: "modsend.module-to-account.direction", Fn: "(x/auth/keeper.Keeper).SendCoinsFromModuleToAccount",
			Target: CallTo(`^` + kAu + `SendCoins\(`).Except(`^` + kAu + `SendCoins\(k, ctx, ` + modAddr + `, recipientAddr, amt\)$`), Why: "from the module's address to the account, the amount given"},
		{Prop: P, ID: "modsend.module-to-module.direction", Fn: "(x/auth/keeper.Keeper).SendCoinsFromModuleToModule",
			Target: CallTo(`^` + kAu + `SendCoins\(`).Except(`^` + kAu + `SendCoins\(k, ctx, ` + modAddr + `, ` + modAcc + `, amt\)$`), Why: "from the sender module to the recipient module, the amount given"},
		{Prop: P, ID: "modsend.account-to-module.direction", Fn: "(x/auth/keeper.Keeper).SendCoinsFromAccountToModule",
			Target: CallTo(`^` + kAu + `SendCoins\(`).Except(`^` + kAu + `SendCoins\(k, ctx, senderAddr, ` + modAcc + `, amt\)$`), Why: "from the account to the module, the amount given"},
		{Prop: P, ID: "setcoins.persists", Fn: "(x/auth/keeper.Keeper).SetCoins",
			Barrier: []string{`^` + kAu + `SetAccount\(k, ctx, phi:acc\)`}, Target: Success(), Why: "a balance that was set is written to the store"},
		{Prop: P, ID: "setcoins.sets-before-persisting", Fn: "(x/auth/keeper.Keeper).SetCoins",
			Barrier: []string{`^invoke x/auth/exported\.Account\.SetCoins\(phi:acc, amt\)`}, Target: CallTo(`^` + kAu + `SetAccount\(`), TargetMustExist: true, Why: "the account stored carries the new balance"},
	})
}

// genesisParamsInstalled (C43): every module's InitGenesis installs the parameters of the genesis state.
func genesisParamsInstalled(c *Ctx, P string) []Obligation {
	return c.Rows([]Row{
		{Prop: P, ID: "params.auth-installed", Fn: "x/auth.InitGenesis", Barrier: []string{`^` + kAu + `SetParams\(k, ctx, var:data\.Params\)`}, Target: TargetAnyReturn(), Why: "auth parameters of the genesis state become the chain's"},
		{Prop: P, ID: "params.nodes-installed", Fn: "x/nodes.InitGenesis", Barrier: []string{`SetParams\(keeper, invoke types\.Ctx\.WithBlockHeight\(ctx, 0\), var:data\.Params\)`}, Target: TargetAnyReturn(), Why: "node parameters of the genesis state become the chain's"},
		{Prop: P, ID: "params.apps-installed", Fn: "x/apps.InitGenesis", Barrier: []string{`SetParams\(keeper, invoke types\.Ctx\.WithBlockHeight\(ctx, 0\), var:data\.Params\)`}, Target: TargetAnyReturn(), Why: "application parameters of the genesis state become the chain's"},
		{Prop: P, ID: "params.pocketcore-installed", Fn: "x/pocketcore.InitGenesis", Barrier: []string{`SetParams\(keeper, ctx, data\.Params\)`}, Target: TargetAnyReturn(), Why: "pocketcore parameters of the genesis state become the chain's"},
		{Prop: P, ID: "supply.auth-sums-the-accounts", Fn: "x/auth.InitGenesis", Assume: []Lit{T(`^\(types\.Coins\)\.Empty\(var:data\.Supply\)$`)},
			Barrier: []string{`^` + kAu + `IterateAccounts\(k, ctx, `}, Target: CallTo(`^` + kAu + `SetSupply\(`), TargetMustExist: true, Why: "when the genesis state names no supply it is the sum of the imported accounts"},
	})
}

// upgradeMergeReadsStored (C37): the merge starts from the upgrade stored in state.
func upgradeMergeReadsStored(c *Ctx, P string) []Obligation {
	get := `^\(types\.Subspace\)\.Get\(k\.spaces\[x/gov/types\.SplitACLKey\(aclKey\)#0\]#0, ctx, conv<\[\]byte>\(x/gov/types\.SplitACLKey\(aclKey\)#1\), &var:oldUpgrade\)`
	return c.Rows([]Row{
		{Prop: P, ID: "merge.reads-the-stored-upgrade", Fn: fnUpgAfter, Barrier: []string{get}, Target: CallTo(`^\(types\.Subspace\)\.Set\(`), TargetMustExist: true,
			Why: "the previously scheduled features come from the upgrade read back from state under the same key"},
		{Prop: P, ID: "merge.old-height-remembered", Fn: fnUpgAfter,
			Target: StoreTo(`^var:newUpgrade\.OldUpgradeHeight$`).ExceptVal(`^\(\*x/gov/types\.Upgrade\)\.GetHeight\(&var:oldUpgrade\)$|^var:oldUpgrade\.OldUpgradeHeight$`), Why: "a version upgrade remembers the height it replaces; a feature-only message keeps the remembered one"},
		{Prop: P, ID: "merge.feature-only-keeps-version-and-height", Fn: fnUpgAfter,
			Target: StoreTo(`^var:newUpgrade\.(Version|Height)$`).ExceptVal(`^var:oldUpgrade\.(Version|Height)$`), Why: "a feature-only message never moves the codec upgrade version or height"},
		{Prop: P, ID: "merge.live-globals-from-merged", Fn: fnUpgAfter,
			Target: StoreTo(`^codec\.(UpgradeHeight|OldUpgradeHeight|UpgradeFeatureMap)$`).ExceptVal(`^var:newUpgrade\.(Height|OldUpgradeHeight)$|^codec\.SliceToExistingMap\(\(\*x/gov/types\.Upgrade\)\.GetFeatures\(&var:newUpgrade\), codec\.UpgradeFeatureMap\)$`), Why: "the running node's activation schedule is taken from the merged upgrade"},
	})
}

// nodesGenesisImport (C43): the node-side import files everything the export carries.
func nodesGenesisImport(c *Ctx, P string) []Obligation {
	g := "x/nodes.InitGenesis"
	ctx0 := `invoke types\.Ctx\.WithBlockHeight\(ctx, 0\)`
	v := `var:data\.Validators\[\(phi:rangeindex \+ 1\)\]`
	pv := `var:data\.PrevStateValidatorPowers\[\(phi:rangeindex \+ 1\)\]`
	out := []Obligation{
		c.edgeMust(P, "nodes.import.admitted-node-indexed-by-chain", g, `^\(x/nodes/types\.Validator\)\.IsUnstaked\(`+v+`\)$`, false, `^`+kN+`SetStakedValidatorByChains\(keeper, `+ctx0+`, `+v+`\)`, 1, "every admitted node is entered in the per-chain index (sessions are drawn from it)"),
		c.edgeMust(P, "nodes.import.prev-state-powers-restored", g, `^lt\(\(phi:rangeindex \+ 1\), builtin\.len\(var:data\.PrevStateValidatorPowers\)\)$`, true, `^`+kN+`SetPrevStateValPower\(keeper, `+ctx0+`, `+pv+`\.Address, `+pv+`\.Power\)`, 1, "every exported previous-state power is restored (the next validator-set update is computed against it)"),
		c.loopsExitOnlyAtHeader(P, "nodes.import.visits-every-record", g, "no exported record is skipped because an earlier one was"),
	}
	out = append(out, c.Rows([]Row{
		{Prop: P, ID: "nodes.import.previous-proposer-restored", Fn: g, Assume: []Lit{T(`^nonnil\(var:data\.PreviousProposer\)$`)},
			Barrier: []string{`^` + kN + `SetPreviousProposer\(keeper, ` + ctx0 + `, var:data\.PreviousProposer\)`}, Target: TargetAnyReturn(), Why: "an exported previous proposer is restored (the first block's proposer reward goes to it)"},
		{Prop: P, ID: "nodes.import.total-power-restored", Fn: g,
			Barrier: []string{`^` + kN + `SetPrevStateValidatorsPower\(keeper, ` + ctx0 + `, var:data\.PrevStateTotalPower\)`}, Target: TargetAnyReturn(), Why: "the exported previous-state total power is restored"},
	})...)
	return out
}

// nodesBlockDuties (C25): what the nodes module does at the two ends of every block for slashing and jailing.
func nodesBlockDuties(c *Ctx, P string) []Obligation {
	ev := `var:req\.ByzantineValidators\[\(phi:rangeindex \+ 1\)\]`
	out := c.Rows([]Row{
		{Prop: P, ID: "duties.endblock-counts-jailed-blocks", Fn: "x/nodes/keeper.EndBlocker",
			Barrier: []string{`^` + kN + `IncrementJailedValidators\(k, ctx\)`}, Target: TargetAnyReturn(), Why: "every block counts one more jailed block for every jailed node (the count that leads to the forced unstake)"},
		{Prop: P, ID: "duties.double-sign-operands", Fn: "x/nodes/keeper.BeginBlocker",
			Target: CallTo(`^` + kN + `handleDoubleSign\(`).Except(`^` + kN + `handleDoubleSign\(k, ctx, ` + ev + `\.Validator\.Address, ` + ev + `\.Height, ` + ev + `\.Time, ` + ev + `\.Validator\.Power\)$`), Why: "the evidence's own validator, height, time and power are what is punished"},
	})
	out = append(out,
		c.edgeMust(P, "duties.fresh-double-sign-evidence-is-punished", "x/nodes/keeper.BeginBlocker", `^lt\(conv<int64>\(phi:evidenceAgeInBlocks\), \(invoke types\.Ctx\.BlockHeight\(ctx\) - `+ev+`\.Height\)\)$`, false, `^`+kN+`handleDoubleSign\(k, ctx, `, 1, "duplicate-vote evidence not older than the maximum age is handed to the double-sign handling (age = current height minus evidence height, inclusive bound)"),
		c.loopsExitOnlyAtHeader(P, "duties.every-evidence-and-vote-visited", "x/nodes/keeper.BeginBlocker", "every vote and every piece of evidence of the block is looked at"),
	)
	return out
}

// upgradeMergeBranches (C37): what each kind of upgrade message does to the stored upgrade.
func upgradeMergeBranches(c *Ctx, P string) []Obligation {
	isFeature := `^eq\("FEATURE", \(x/gov/types\.Upgrade\)\.UpgradeVersion\(var:newUpgrade\)\)$`
	return []Obligation{
		c.edgeMust(P, "merge.feature-only.version-kept", fnUpgAfter, isFeature, true, `store:^var:newUpgrade\.Version = var:oldUpgrade\.Version$`, 1, "a feature-only message keeps the stored version"),
		c.edgeMust(P, "merge.feature-only.height-kept", fnUpgAfter, isFeature, true, `store:^var:newUpgrade\.Height = var:oldUpgrade\.Height$`, 1, "and the stored codec-upgrade height"),
		c.edgeMust(P, "merge.feature-only.old-height-kept", fnUpgAfter, isFeature, true, `store:^var:newUpgrade\.OldUpgradeHeight = var:oldUpgrade\.OldUpgradeHeight$`, 1, "and the remembered previous height"),
		c.edgeMust(P, "merge.feature-only.features-merged", fnUpgAfter, isFeature, true, `store:^var:newUpgrade\.Features = codec\.CleanUpgradeFeatureSlice\(builtin\.append\(var:oldUpgrade\.Features, var:newUpgrade\.Features\)\)$`, 1, "and merges its features into the stored ones"),
	}
}

// rewardOperands (C26, C27): the stake-weighted computation gets the relay count, the stake and the chain's
// multiplier each in its own slot (all three are big integers; the compiler does not tell them apart).
func rewardOperands(c *Ctx, P string) []Obligation {
	return c.Rows([]Row{
		{Prop: P, ID: "reward.pip22-operands", Fn: "(x/nodes/keeper.Keeper).CalculateRelayReward",
			Target: CallTo(`^` + kN + `calculateRewardRewardPip22\(`).Except(`^` + kN + `calculateRewardRewardPip22\(k, ctx, relays, stake, ` + kN + `GetChainSpecificMultiplier\(k, ctx, chain\)\)$`),
			Why:    "relays, stake and the chain-specific multiplier, in that order"},
		{Prop: P, ID: "reward.split-of-the-computed-coins", Fn: "(x/nodes/keeper.Keeper).CalculateRelayReward",
			Target: CallTo(`^` + kN + `splitRewards\(`).Except(`^` + kN + `splitRewards\(k, ctx, phi:coins\)$`), Why: "what is split is the computed reward"},
	})
}

// tokenRemovalPersists (C19, C25): the stake taken off a node is taken off its stored record.
func tokenRemovalPersists(c *Ctx, P string) []Obligation {
	rm := `\(x/nodes/types\.Validator\)\.RemoveStakedTokens\(v, tokensToRemove\)`
	return c.Rows([]Row{
		{Prop: P, ID: "removeTokens.persisted", Fn: "(x/nodes/keeper.Keeper).removeValidatorTokens", Assume: []Lit{F(`^nonnil\(` + rm + `#1\)$`)},
			Barrier: []string{`^` + kN + `SetValidator\(k, ctx, ` + rm + `#0\)`}, Target: TargetAnyReturn(), Why: "the record with the reduced stake is stored (what is burned from the pool is gone from the record)"},
		{Prop: P, ID: "removeTokens.returns-the-reduced-record", Fn: "(x/nodes/keeper.Keeper).removeValidatorTokens", Assume: []Lit{F(`^nonnil\(` + rm + `#1\)$`)},
			Target: RetNotMatch(0, `^`+rm+`#0$`), Why: "and handed back to the caller"},
	})
}

// nodesLifecycle: stake / wait / release / begin / finish for nodes, the counterpart of the application rows.
func nodesStakeRouting(c *Ctx, P string) []Obligation {
	cur := kN + `GetValidator\(k, ctx, var:validator\.Address\)`
	return c.Rows([]Row{
		{Prop: P, ID: "nodes.stake.edit-takes-stored-record-first", Fn: "(x/nodes/keeper.Keeper).StakeValidator",
			Target: CallTo(`^` + kN + `EditStakeValidator\(`).Except(`^` + kN + `EditStakeValidator\(k, ctx, ` + cur + `#0, var:validator, amount, signer\)$`),
			Why:    "edit-stake is given the stored record as the node to edit and the message's node as the update"},
		{Prop: P, ID: "nodes.stake.edit-only-for-staked", Fn: "(x/nodes/keeper.Keeper).StakeValidator", Assume: []Lit{T(`^` + cur + `#1$`), F(`^\(x/nodes/types\.Validator\)\.IsStaked\(` + cur + `#0\)$`)},
			Target: CallTo(`EditStakeValidator\(`), Why: "a record that is not staked is not edited"},
		{Prop: P, ID: "nodes.stake.edit-only-if-found", Fn: "(x/nodes/keeper.Keeper).StakeValidator", Assume: []Lit{F(`^` + cur + `#1$`)},
			Target: CallTo(`EditStakeValidator\(`), Why: "no record, no edit"},
		{Prop: P, ID: "nodes.stake.staked-record-is-edited", Fn: "(x/nodes/keeper.Keeper).StakeValidator", Assume: []Lit{T(`^invoke types\.Ctx\.IsAfterUpgradeHeight\(ctx\)$`), T(`^` + cur + `#1$`), T(`^\(x/nodes/types\.Validator\)\.IsStaked\(` + cur + `#0\)$`)},
			Target: CallTo(`coinsFromUnstakedToStaked\(|` + kN + `SetValidator\(`), Why: "a staked record never goes down the fresh-stake path"},
	})
}

func nodesIndexOnStake(c *Ctx, P string) []Obligation {
	return c.Rows([]Row{
		{Prop: P, ID: "stake.new-node-indexed-by-chain", Fn: "(x/nodes/keeper.Keeper).StakeValidator", From: `^` + kN + `SetValidator\(k, ctx, var:validator\)`,
			Barrier: []string{`^` + kN + `SetStakedValidatorByChains\(k, ctx, var:validator\)`}, Target: TargetAnyReturn(), Why: "a newly staked node is entered in the per-chain index"},
		{Prop: P, ID: "queue.append-writes-the-slot-back", Fn: "(x/nodes/keeper.Keeper).SetUnstakingValidator",
			Barrier: []string{`^` + kN + `setUnstakingValidators\(k, ctx, val\.UnstakingCompletionTime, builtin\.append\(` + kN + `getUnstakingValidators\(k, ctx, val\.UnstakingCompletionTime\), \[val\.Address\]\)\)`}, Target: TargetAnyReturn(),
			Why: "queueing a node writes its completion-time slot back with its address appended"},
	})
}

func nodesUnstakeLifecycle(c *Ctx, P string) []Obligation {
	w := kN + `GetWaitingValidators\(k, ctx\)\[\(phi:rangeindex \+ 1\)\]`
	out := c.Rows([]Row{
		{Prop: P, ID: "nodes.wait.request-is-recorded", Fn: "(x/nodes/keeper.Keeper).WaitToBeginUnstakingValidator",
			Barrier: []string{`^` + kN + `SetWaitingValidator\(k, ctx, validator\)`}, Target: TargetAnyReturn(), Why: "a begin-unstake request puts the node in the waiting set"},
		{Prop: P, ID: "nodes.begin.status-unstaking", Fn: "(x/nodes/keeper.Keeper).BeginUnstakingValidator",
			Barrier: []string{`^\(x/nodes/types\.Validator\)\.UpdateStatus\(var:validator, 1\)`}, Target: CallTo(`^` + kN + `SetValidator\(`), TargetMustExist: true, Why: "the record stored is marked unstaking"},
		{Prop: P, ID: "nodes.begin.stored", Fn: "(x/nodes/keeper.Keeper).BeginUnstakingValidator",
			Barrier: []string{`^` + kN + `SetValidator\(k, ctx, var:validator\)`}, Target: TargetAnyReturn(), Why: "the unstaking record is stored (which queues it)"},
		{Prop: P, ID: "nodes.begin.completion-time-from-block-time", Fn: "(x/nodes/keeper.Keeper).BeginUnstakingValidator",
			Target: StoreTo(`UnstakingCompletionTime$`).ExceptVal(`^\(time\.Time\)\.Add\(invoke types\.Ctx\.BlockHeader\(ctx\)\.Time, ` + kN + `GetParams\(k, ctx\)\.UnstakingTime\)$`), Why: "the completion time is this block's time plus the unstaking time"},
		{Prop: P, ID: "nodes.finish.stored-on-success", Fn: "(x/nodes/keeper.Keeper).FinishUnstakingValidator", Assume: []Lit{F(`^nonnil\(` + kN + `coinsFromStakedToUnstaked\(k, ctx, var:validator\)\)$`), F(`^nonnil\(\(x/nodes/types\.Validator\)\.RemoveStakedTokens\(var:validator, var:validator\.StakedTokens\)#1\)$`)},
			Barrier: []string{`^` + kN + `SetValidator\(k, ctx, var:validator\)`}, Target: TargetAnyReturn(), Why: "the zeroed record is stored"},
		{Prop: P, ID: "nodes.finish.status-unstaked", Fn: "(x/nodes/keeper.Keeper).FinishUnstakingValidator",
			Barrier: []string{`^\(x/nodes/types\.Validator\)\.UpdateStatus\(var:validator, 0\)`}, Target: CallTo(`^` + kN + `SetValidator\(`), TargetMustExist: true, Why: "the record stored is marked unstaked"},
	})
	out = append(out,
		c.edgeMust(P, "nodes.release.valid-waiting-node-begins", "(x/nodes/keeper.Keeper).ReleaseWaitingValidators", `^nonnil\(`+kN+`ValidateValidatorBeginUnstaking\(k, ctx, `+w+`\)\)$`, false, `^`+kN+`BeginUnstakingValidator\(k, ctx, `+w+`\)`, 1, "every waiting node that may begin unstaking does"),
		c.edgeMust(P, "nodes.release.every-waiting-node-leaves-the-set", "(x/nodes/keeper.Keeper).ReleaseWaitingValidators", `^lt\(\(phi:rangeindex \+ 1\), builtin\.len\(`+kN+`GetWaitingValidators\(k, ctx\)\)\)$`, true, `^`+kN+`DeleteWaitingValidator\(k, ctx, `+w+`\.Address\)`, 1, "and every released node leaves the waiting set (it is not released again at the next boundary)"),
	)
	return out
}

// powerRankKeyLayout (C21): prefix byte | 8 bytes big-endian power | address, bitwise inverted.
func powerRankKeyLayout(c *Ctx, P string) []Obligation {
	f := "x/nodes/types.getStakedValPowerRankKey"
	pw := `&var:makeslice\[:8\]`
	return c.Rows([]Row{
		{Prop: P, ID: "powerindex.key-power-placed-after-prefix", Fn: f, Barrier: []string{`^builtin\.copy\(makeslice<\[\]byte>\[1:\(builtin\.len\(` + pw + `\) \+ 1\)\], ` + pw + `\)`}, Target: TargetAnyReturn(), Why: "the power bytes follow the prefix byte"},
		{Prop: P, ID: "powerindex.key-address-placed-last", Fn: f, Barrier: []string{`^builtin\.copy\(makeslice<\[\]byte>\[\(builtin\.len\(` + pw + `\) \+ 1\):\], types\.CopyBytes\(validator\.Address\)\)`}, Target: TargetAnyReturn(), Why: "the (inverted) address of the record itself follows the power"},
		{Prop: P, ID: "powerindex.key-only-those-parts", Fn: f, Target: CallTo(`^builtin\.copy\(`).Except(`^builtin\.copy\(makeslice<\[\]byte>\[(1:\(builtin\.len\(` + pw + `\) \+ 1\)\], ` + pw + `|\(builtin\.len\(` + pw + `\) \+ 1\):\], types\.CopyBytes\(validator\.Address\))\)$`), Why: "nothing else is copied into the key"},
		{Prop: P, ID: "powerindex.key-is-the-buffer-built", Fn: f, Target: RetNotMatch(0, `^makeslice<\[\]byte>$`), Why: "the key returned is the buffer that was filled"},
	})
}

// claimStorage (C32): a claim is stored under its own key with an expiration counted from the block it was
// accepted in.
func claimStorage(c *Ctx, P string) []Obligation {
	f := "(x/pocketcore/keeper.Keeper).SetClaim"
	sctx := `invoke types\.Ctx\.PrevCtx\(ctx, var:msg\.SessionHeader\.SessionBlockHeight\)#0`
	key := `x/pocketcore/types\.KeyForClaim\(ctx, var:msg\.FromAddress, var:msg\.SessionHeader, var:msg\.EvidenceType\)#0`
	return c.Rows([]Row{
		{Prop: P, ID: "claim.store.expiration-from-acceptance-height", Fn: f,
			Target: StoreTo(`^var:msg\.ExpirationHeight$`).ExceptVal(`^\(invoke types\.Ctx\.BlockHeight\(ctx\) \+ \(` + kKk + `ClaimExpiration\(k, ` + sctx + `\) \* ` + kKk + `BlocksPerSession\(k, ` + sctx + `\)\)\)$`),
			Why:    "a claim expires ClaimExpiration sessions (of the session's own length) after the height it was accepted at"},
		{Prop: P, ID: "claim.store.key-then-value", Fn: f,
			Target: CallTo(`^invoke types\.KVStore\.Set\(`).Except(`^invoke types\.KVStore\.Set\(invoke types\.Ctx\.KVStore\(ctx, k\.storeKey\), ` + key + `, \(\*codec\.Codec\)\.MarshalBinaryBare\(k\.Cdc, &var:msg, invoke types\.Ctx\.BlockHeight\(ctx\)\)#0\)$`),
			Why:    "the encoded claim is the value, the claim's own key (address, header, evidence type) is the key"},
		{Prop: P, ID: "claim.store.expiration-set-before-encoding", Fn: f, Assume: []Lit{T(`^eq\(0, var:msg\.ExpirationHeight\)$`)}, Barrier: []string{`store:^var:msg\.ExpirationHeight = `}, Target: CallTo(`MarshalBinaryBare\(`), TargetMustExist: true, Why: "a claim that has no expiration yet gets one before it is encoded and stored"},
	})
}

// entropyHeight (C31): the block hash that selects the leaf is the one at session height + window * session length.
func entropyHeight(c *Ctx, P string) []Obligation {
	return c.Rows([]Row{
		{Prop: P, ID: "index.entropy-height", Fn: "(x/pocketcore/keeper.Keeper).getPseudorandomIndex",
			Target: CallTo(`^invoke types\.Ctx\.GetPrevBlockHash\(`).Except(`^invoke types\.Ctx\.GetPrevBlockHash\(ctx, \(header\.SessionBlockHeight \+ \(` + kKk + `ClaimSubmissionWindow\(k, sessionCtx\) \* ` + kKk + `BlocksPerSession\(k, sessionCtx\)\)\)\)$`),
			Why:    "the selecting hash is that of the block at session height plus the claim-submission window (in sessions of the session's own length)"},
		{Prop: P, ID: "index.generator-is-hash-and-header", Fn: "(x/pocketcore/keeper.Keeper).getPseudorandomIndex",
			Target: StoreTo(`^var:pseudoGenerator\.(BlockHash|Header)$`).ExceptVal(`^encoding/hex\.EncodeToString\(invoke types\.Ctx\.GetPrevBlockHash\(.*\)#0\)$|^\(x/pocketcore/types\.SessionHeader\)\.HashString\(header\)$`),
			Why:    "the generator is made of that block hash and this session header"},
		{Prop: P, ID: "index.selection-over-the-claimed-count", Fn: "(x/pocketcore/keeper.Keeper).getPseudorandomIndex",
			Target: CallTo(`PseudorandomSelection\(`).Except(`^x/pocketcore/types\.PseudorandomSelection\(types\.NewInt\(totalRelays\), x/pocketcore/types\.Hash\(encoding/json\.Marshal\(var:pseudoGenerator\)#0\)\)$`),
			Why:    "the index is drawn below the claimed relay count from the hash of the generator"},
	})
}

// proofIsRecorded (C34): storing a proof adds it to the evidence fetched and writes that evidence back.
func proofIsRecorded(c *Ctx, P string) []Obligation {
	f := "x/pocketcore/types.SetProof"
	return c.Rows([]Row{
		{Prop: P, ID: "setproof.adds-the-proof", Fn: f, Barrier: []string{`^\(\*x/pocketcore/types\.Evidence\)\.AddProof\(&var:evidence, p\)`}, Target: CallTo(`^x/pocketcore/types\.SetEvidence\(`), TargetMustExist: true, Why: "the evidence written back contains the new proof"},
		{Prop: P, ID: "setproof.writes-the-evidence-back", Fn: f, Barrier: []string{`^x/pocketcore/types\.SetEvidence\(var:evidence, evidenceStore\)`}, Target: TargetAnyReturn(), Why: "and it is written back to the same store"},
	})
}

// merkleFolding (C30): each level folds the sibling into the target — the range grows to cover the sibling
// and the hash becomes the parent hash of the two, left operand first, with the pair's indices.
func merkleFolding(c *Ctx, P string) []Obligation {
	f := "(x/pocketcore/types.MerkleProof).Validate"
	sib := `var:mp\.HashRanges\[phi:i\]`
	odd := `^eq\(\(var:mp\.TargetIndex % 2\), 1\)$`
	lcont := `^eq\(` + sib + `\.Range\.Upper, var:mp\.Target\.Range\.Lower\)$`
	rcont := `^eq\(` + sib + `\.Range\.Lower, var:mp\.Target\.Range\.Upper\)$`
	out := []Obligation{
		c.edgeMust(P, "fold.right-child.range-extends-left", f, lcont, true, `store:^var:mp\.Target\.Range\.Lower = `+sib+`\.Range\.Lower$`, 1, "a right child takes its left sibling's lower bound"),
		c.edgeMust(P, "fold.right-child.hash-is-parent-of-sibling-then-target", f, lcont, true, `store:^var:mp\.Target\.Hash = x/pocketcore/types\.parentHash\(height, `+sib+`\.Hash, var:mp\.Target\.Hash, var:mp\.Target\.Range, conv<uint64>\(\(var:mp\.TargetIndex - 1\)\), conv<uint64>\(var:mp\.TargetIndex\)\)$`, 1, "and the parent hash of (sibling, target) over the merged range, with indices (i-1, i)"),
		c.edgeMust(P, "fold.left-child.range-extends-right", f, rcont, true, `store:^var:mp\.Target\.Range\.Upper = `+sib+`\.Range\.Upper$`, 1, "a left child takes its right sibling's upper bound"),
		c.edgeMust(P, "fold.left-child.hash-is-parent-of-target-then-sibling", f, rcont, true, `store:^var:mp\.Target\.Hash = x/pocketcore/types\.parentHash\(height, var:mp\.Target\.Hash, `+sib+`\.Hash, var:mp\.Target\.Range, conv<uint64>\(var:mp\.TargetIndex\), conv<uint64>\(\(var:mp\.TargetIndex \+ 1\)\)\)$`, 1, "and the parent hash of (target, sibling) over the merged range, with indices (i, i+1)"),
		c.edgeMust(P, "fold.index-halves-every-level", f, `^lt\(phi:i, numOfLevels\)$`, true, `store:^var:mp\.TargetIndex = \(var:mp\.TargetIndex / 2\)$ || ret:^false`, 1, "every level that does not reject halves the index"),
	}
	_ = odd
	out = append(out, c.Rows([]Row{
		{Prop: P, ID: "parenthash.operand-order", Fn: "x/pocketcore/types.parentHash",
			Target: CallTo(`^x/pocketcore/types\.MultiAppend\(`).Except(`^x/pocketcore/types\.MultiAppend\(&var:makeslice\[:(96|80)\], \[hash1, hash2, (x/pocketcore/types\.uint64ToBytes\(index1, index2\), )?\(x/pocketcore/types\.Range\)\.Bytes\(r\)\]\)$`),
			Why:    "the parent commits to the left hash, the right hash, (after the codec upgrade) the two indices, and the range — in that order, in a buffer of exactly their total length"},
	})...)
	return out
}

// mapEqualityHelper (C23): "the delegators are unchanged" is decided by types.CompareStringMaps: it must say
// "different" for maps of different size and for any key whose value differs (or is missing).
func mapEqualityHelper(c *Ctx, P string) []Obligation {
	var out []Obligation
	for _, f := range []string{"types.CompareStringMaps[uint32]"} {
		out = append(out, c.Rows([]Row{
			{Prop: P, ID: "delegators-unchanged.size-differs-is-different", Fn: f, Assume: []Lit{F(`^eq\(builtin\.len\(a\), builtin\.len\(b\)\)$`)}, Target: RetNot(0, "false"), Why: "maps of different size are different"},
			{Prop: P, ID: "delegators-unchanged.true-only-after-the-whole-walk", Fn: f, Assume: []Lit{T(`^next\(range\(a\)\)#0$`)}, Target: RetNot(0, "false"), Why: "the only way to answer 'equal' is to run out of entries"},
		})...)
		out = append(out, c.edgeMust(P, "delegators-unchanged.value-differs-is-different", f, `^eq\(b\[next\(range\(a\)\)#1\], next\(range\(a\)\)#2\)$`, false, `ret:^false$`, 1, "an entry whose value in the other map differs (a missing key reads as the zero value) makes the maps different"))
	}
	return out
}
