package main

// Further rows written from the mutation run's survivors (auth bank helpers, genesis parameters, the
// upgrade merge). Shared by the properties they serve.

const kAu = `\(x/auth/keeper\.Keeper\)\.`

// moduleSendDirections (C17, C18, C26): the module-account send helpers move from the named sender to the
// named recipient — not the other way round — and the balance setter persists what it set.
func moduleSendDirections(c *Ctx, P string) []Obligation {
	modAddr := kAu + `GetModuleAddress\(k, senderModule\)`
	modAcc := `invoke x/auth/exported\.ModuleAccountI\.GetAddress\(` + kAu + `GetModuleAccount\(k, ctx, recipientModule\)\)`
	return c.Rows([]Row{
		{Prop: P, ID: "modsend.module-to-account.direction", Fn: "(x/auth/keeper.Keeper).SendCoinsFromModuleToAccount",
			Target: CallTo(`^` + kAu + `SendCoins\(`).Except(`^` + kAu + `SendCoins\(k, ctx, ` + modAddr + `, recipientAddr, amt\)$`), Why: "from the module's address to the account, the amount given"},
		{Prop: P, ID: "modsend.module-to-module.direction", Fn: "(x/auth/keeper.Keeper).SendCoinsFromModuleToModule",
			Target: CallTo(`^` + kAu + `SendCoins\(`).Except(`^` + kAu + `SendCoins\(k, ctx, ` + modAddr + `, ` + modAcc + `, amt\)$`), Why: "from the sender module to the recipient module, the amount given"},
		{Prop: P, ID: "modsend.account-to-module.direction", Fn: "(x/auth/keeper.Keeper).SendCoinsFromAccountToModule",
			Target: CallTo(`^` + kAu + `SendCoins\(`).Except(`^` + kAu + `SendCoins\(k, ctx, senderAddr, ` + modAcc + `, amt\)$`), Why: "from the account to the module, the amount given"},
		{Prop: P, ID: "setcoins.persists", Fn: "(x/auth/keeper.Keeper).SetCoins",
			Barrier: []string{`^` + kAu + `SetAccount\(k, ctx, phi:acc\)`}, Target: Success(), Why: "a balance that was set is written to the store"},
		{Prop: P, ID: "setcoins.sets-before-persisting", Fn: "(x/auth/keeper.Keeper).SetCoins",
			Barrier: []string{`^invoke x/auth/exported\.Account\.SetCoins\(phi:acc, amt\)`}, Target: CallTo(`^` + kAu + `SetAccount\(`), TargetMustExist: true, Why: "the account stored carries the new balance"},
	})
}

// genesisParamsInstalled (C43): every module's InitGenesis installs the parameters of the genesis state.
func genesisParamsInstalled(c *Ctx, P string) []Obligation {
	return c.Rows([]Row{
		{Prop: P, ID: "params.auth-installed", Fn: "x/auth.InitGenesis", Barrier: []string{`^` + kAu + `SetParams\(k, ctx, var:data\.Params\)`}, Target: TargetAnyReturn(), Why: "auth parameters of the genesis state become the chain's"},
		{Prop: P, ID: "params.nodes-installed", Fn: "x/nodes.InitGenesis", Barrier: []string{`SetParams\(keeper, invoke types\.Ctx\.WithBlockHeight\(ctx, 0\), var:data\.Params\)`}, Target: TargetAnyReturn(), Why: "node parameters of the genesis state become the chain's"},
		{Prop: P, ID: "params.apps-installed", Fn: "x/apps.InitGenesis", Barrier: []string{`SetParams\(keeper, invoke types\.Ctx\.WithBlockHeight\(ctx, 0\), var:data\.Params\)`}, Target: TargetAnyReturn(), Why: "application parameters of the genesis state become the chain's"},
		{Prop: P, ID: "params.pocketcore-installed", Fn: "x/pocketcore.InitGenesis", Barrier: []string{`SetParams\(keeper, ctx, data\.Params\)`}, Target: TargetAnyReturn(), Why: "pocketcore parameters of the genesis state become the chain's"},
		{Prop: P, ID: "supply.auth-sums-the-accounts", Fn: "x/auth.InitGenesis", Assume: []Lit{T(`^\(types\.Coins\)\.Empty\(var:data\.Supply\)$`)},
			Barrier: []string{`^` + kAu + `IterateAccounts\(k, ctx, `}, Target: CallTo(`^` + kAu + `SetSupply\(`), TargetMustExist: true, Why: "when the genesis state names no supply it is the sum of the imported accounts"},
	})
}

// upgradeMergeReadsStored (C37): the merge starts from the upgrade stored in state.
func upgradeMergeReadsStored(c *Ctx, P string) []Obligation {
	get := `^\(types\.Subspace\)\.Get\(k\.spaces\[x/gov/types\.SplitACLKey\(aclKey\)#0\]#0, ctx, conv<\[\]byte>\(x/gov/types\.SplitACLKey\(aclKey\)#1\), &var:oldUpgrade\)`
	return c.Rows([]Row{
		{Prop: P, ID: "merge.reads-the-stored-upgrade", Fn: fnUpgAfter, Barrier: []string{get}, Target: CallTo(`^\(types\.Subspace\)\.Set\(`), TargetMustExist: true,
			Why: "the previously scheduled features come from the upgrade read back from state under the same key"},
		{Prop: P, ID: "merge.old-height-remembered", Fn: fnUpgAfter,
			Target: StoreTo(`^var:newUpgrade\.OldUpgradeHeight$`).ExceptVal(`^\(\*x/gov/types\.Upgrade\)\.GetHeight\(&var:oldUpgrade\)$|^var:oldUpgrade\.OldUpgradeHeight$`), Why: "a version upgrade remembers the height it replaces; a feature-only message keeps the remembered one"},
		{Prop: P, ID: "merge.feature-only-keeps-version-and-height", Fn: fnUpgAfter,
			Target: StoreTo(`^var:newUpgrade\.(Version|Height)$`).ExceptVal(`^var:oldUpgrade\.(Version|Height)$`), Why: "a feature-only message never moves the codec upgrade version or height"},
		{Prop: P, ID: "merge.live-globals-from-merged", Fn: fnUpgAfter,
			Target: StoreTo(`^codec\.(UpgradeHeight|OldUpgradeHeight|UpgradeFeatureMap)$`).ExceptVal(`^var:newUpgrade\.(Height|OldUpgradeHeight)$|^codec\.SliceToExistingMap\(\(\*x/gov/types\.Upgrade\)\.GetFeatures\(&var:newUpgrade\), codec\.UpgradeFeatureMap\)$`), Why: "the running node's activation schedule is taken from the merged upgrade"},
	})
}
