package main

import (
	"os"
	"fmt"
	"go/types"
	"sort"
	"strings"

	"golang.org/x/tools/go/ssa"
)

// C12: block execution is a deterministic function of chain data.

// mapRangeExceptions: ranges over maps on the consensus path whose iteration
// order cannot influence state or results, with the reason (confirmed by
// reading). Keyed by function; every range in the function is covered.
var mapRangeExceptions = map[string]string{
	"(*store/cachekv.Store).Write":                 "collects dirty keys, sorts them (sort.Strings) and only then writes to the parent",
	"(*store/cachekv.Store).dirtyItems":            "sorted: collects matching items, sorted before they are merged into the sorted list",
	"(store/cachemulti.Store).Write":               "flushes each distinct substore cache once; substores are independent trees",
	"(*store/rootmulti.Store).CopyStore":           "copies maps into fresh maps",
	"store/rootmulti.commitStores":                 "commits each distinct substore once; the app hash is computed from a map keyed by name (sorted in SimpleHashFromMap)",
	"(*store/rootmulti.Store).loadVersion":         "mounts each distinct substore once (start-up / lazy load)",
	"(*store/rootmulti.Store).LoadLazyVersion":     "builds a per-height copy of the substore map",
	"(*store/rootmulti.Store).RollbackVersion":     "rolls back each distinct substore once",
	"(*store/rootmulti.Store).getStoreByName":      "lookup",
	"(*store/rootmulti.Store).CacheMultiStore":     "wraps each distinct substore once",
	"(*store/rootmulti.Store).SetTracer":           "wiring",
	"store/cachemulti.NewFromKVStore":              "wraps each distinct substore once into a map",
	"store/cachemulti.newCacheMultiStoreFromCMS":   "wraps each distinct substore once into a map",
	"(*store/iavl.nodeDB).SaveOrphans":             "writes distinct orphan keys into one DB batch; the batch content is a set",
	"(*store/iavl.MutableTree).LoadVersion":        "arg-max over the distinct version numbers",
	"(*store/iavl.MutableTree).LazyLoadVersion":    "arg-max over the distinct version numbers",
	"(*store/iavl.MutableTree).LoadVersionForOverwriting": "deletes the entries above the target version: a set operation",
	"(*store/iavl.MutableTree).AvailableVersions":  "sorted: collects then sorts",
	"(*store/iavl.nodeDB).DeleteVersionsFrom":      "existence check / set deletion",
	"codec.MapToSlice":                             "its only consensus caller (CleanUpgradeFeatureSlice) sorts the result",
	"codec.SliceToExistingMap":                     "fills a map",
	"codec.CleanUpgradeFeatureSlice":               "dedups through a map and sorts",
	"(*types/module.Manager).RegisterRoutes":       "start-up wiring",
	"(*types/module.Manager).RegisterInvariants":   "start-up wiring",
	"(*types/module.Manager).BeginBlock":           "UpgradeCodec loop at one historical height: rewrites pre-existing keys of disjoint modules (update-only, commutative)",
	"(types.ABCIMessageLogs).String":               "log text only",
	"types.CompareStringMaps[uint32]":              "set comparison: result independent of order",
	"(x/nodes/types.MsgStake).CheckRewardDelegators": "delegates to NormalizeRewardDelegators",
	"x/nodes/types.NormalizeRewardDelegators":      "sorted: collects the keys and sorts them before iterating",
	"(x/nodes/keeper.Keeper).getPrevStatePowerMap": "fills a map",
	"x/nodes/keeper.sortNoLongerStakedValidators":  "sorted: collects then sorts",
	"(x/gov/types.ACL).Validate":                   "all-of check over distinct keys; error text only depends on order",
	"(x/gov/types.ACL).String":                     "query/log text",
	"(x/gov/keeper.Keeper).GetAllParamNameValue":   "query helper filling a map",
	"(x/gov/keeper.Keeper).GetAllParamNames":       "fills a set of parameter names (map keyed by name); the calls inside the loop only read the subspace's key table",
	"(x/auth/types.FeeMultipliers).Validate":       "all-of check",
	"(x/pocketcore/types.HostedBlockchains).Validate": "start-up validation of local config",
}

// goExceptions: go statements on the consensus path that never write consensus stores.
var goExceptions = map[string]string{
	"(*store/iavl.ImmutableTree).IterateRange":     "-",
}

func init() {
	register(&Prop{
		ID: "C12", Title: "Block execution is a deterministic function of chain data",
		Technique: "call-graph closure of the ABCI block methods; classification of every range-over-map in it (sorted-collect / map-only / tabled exception); forward data-flow of clock and random values to non-observability sinks; goroutine closures must not reach store writers",
		DesignRef: "DESIGN.md §3 C12, §2.3 E4",
		Explanation: "Over the repo-scoped closure of InitChain/BeginBlock/DeliverTx/EndBlock/Commit: every range over a map is order-insensitive (its body only updates maps, or only appends to a slice that is sorted before use, or is a tabled exception with a reason); no value of time.Now/time.Since/math/rand/crypto/rand reaches a branch, a return value, a store or a non-observability call; every goroutine started there reaches no KVStore/IAVL mutator.",
		NotDecided:  "floating point (math.Log2 in ValidateProof), nondeterminism inside external libraries, value-level determinism of FracPow.",
		Assumptions: []string{"the order-insensitivity reasons in the exception table were confirmed by reading; a new range over a map on the consensus path is reported until classified"},
		MinObl:      20,
		Run:         runC12,
	})
}

func runC12(c *Ctx) []Obligation {
	P := "C12"
	var out []Obligation
	reach := c.consensusReach()
	o := c.obl(P, "reach.size", "CONSENSUS", "the consensus closure resolves and has the expected size")
	o.Facts = len(reach)
	if len(reach) < 800 {
		o.fail("", "consensus closure has only %d functions (expected ≥ 800): call graph anchors are stale", len(reach))
		o.set(Unresolved)
	}
	out = append(out, *o)
	// 1. map ranges
	ord := map[string]int{}
	for _, mr := range c.mapRangesIn(reach) {
		name := FnName(mr.Fn)
		ord[name]++
		construct := name
		if ord[name] > 1 {
			construct = fmt.Sprintf("%s#%d", name, ord[name])
		}
		ob := c.obl(P, "map-order", construct, "range over a map on the consensus path is order-insensitive")
		ob.Pos = c.A.Pos(mr.Range.Pos())
		ob.Facts = 1
		switch {
		case mr.Class != "":
			ob.Desc += " [auto: " + mr.Class + "]"
		case strings.HasPrefix(mapRangeExceptions[name], "sorted:"):
			// the reason given is a sort: it is checked, not believed
			ob.Desc += " [table, checked: " + mapRangeExceptions[name] + "]"
			if why := collectedSlicesAreSorted(mr.Range); why != "" {
				ob.fail(c.A.Pos(mr.Range.Pos()), "the table entry for %s says the collected keys are sorted before use, but %s: the iteration order of the map reaches the callers", name, why)
			}
		case mapRangeExceptions[name] != "":
			ob.Desc += " [table: " + mapRangeExceptions[name] + "]"
			// the reason was confirmed by reading the loop as it was: what the body may do with the
			// iteration order (its sinks) is frozen with it, and anything new is reported
			acc := map[string]bool{}
			for _, s := range mapRangeAcceptedSinks[construct] {
				acc[s] = true
			}
			if os.Getenv("VCHECK_DUMP_SINKS") != "" {
				fmt.Fprintf(os.Stderr, "SINKS\t%q: {%s},\n", construct, quoteJoin(uniq(mr.Sinks)))
			}
			for _, s := range uniq(mr.Sinks) {
				if !acc[s] {
					ob.fail(c.A.Pos(mr.Range.Pos()), "the loop is in the exception table (%s), but its body now also does [%s], which was not there when the exception was confirmed: the iteration order may reach it", mapRangeExceptions[name], s)
				}
			}
		default:
			path := pathTo(reach, mr.Fn)
			ob.Path = path
			ob.fail(c.A.Pos(mr.Range.Pos()), "iteration order of a Go map can reach %s (on the consensus path via %s)", strings.Join(uniq(mr.Sinks), ", "), strings.Join(tail(path, 4), " → "))
		}
		out = append(out, *ob)
	}
	// 2. clock / randomness
	allowed := func(n string) bool {
		// a process signalling itself (halt) uses its own pid: no state depends on it
		if n == "os.FindProcess" {
			return true
		}
		return n == "types.TimeTrack" || strings.Contains(n, "ServiceMetric") || strings.Contains(n, "libs/log.Logger.") || n == "fmt.Sprintf" || n == "fmt.Println" || n == "fmt.Printf" ||
			strings.HasPrefix(n, "(*x/pocketcore/types.ServiceMetrics).") || strings.HasPrefix(n, "(*x/pocketcore/types.ServiceMetric).")
	}
	cord := map[string]int{}
	for f := range reach {
		if f.Blocks == nil {
			continue
		}
		for _, b := range f.Blocks {
			for _, ins := range b.Instrs {
				call, ok := ins.(*ssa.Call)
				if !ok {
					continue
				}
				kind, is := isNondetCall(&call.Call)
				if !is {
					continue
				}
				name := FnName(f)
				cord[name]++
				construct := name
				if cord[name] > 1 {
					construct = fmt.Sprintf("%s#%d", name, cord[name])
				}
				ob := c.obl(P, "clock-random", construct, "a "+kind+" value on the consensus path flows only to observability sinks (time tracking, metrics, logs)")
				ob.Pos = c.A.Pos(call.Pos())
				ob.Facts = 1
				if bad := c.clockFlows(call, allowed); len(bad) > 0 {
					ob.fail(c.A.Pos(call.Pos()), "%s value %s", kind, strings.Join(uniq(bad), "; "))
				}
				out = append(out, *ob)
			}
		}
	}
	// 3. goroutines
	for f := range reach {
		if f.Blocks == nil {
			continue
		}
		for _, b := range f.Blocks {
			for _, ins := range b.Instrs {
				g, ok := ins.(*ssa.Go)
				if !ok {
					continue
				}
				name := FnName(f)
				ob := c.obl(P, "goroutine-no-store-write", name+"/go:"+shortCall(calleeName(&g.Call)), "a goroutine started on the consensus path reaches no consensus-store mutator")
				ob.Pos = c.A.Pos(g.Pos())
				var roots []*ssa.Function
				for _, e := range c.A.Out[f] {
					if e.Site == ins {
						roots = append(roots, e.Callee)
					}
				}
				if fn, ok := g.Call.Value.(*ssa.MakeClosure); ok {
					if ff, ok := fn.Fn.(*ssa.Function); ok {
						roots = append(roots, ff)
					}
				}
				if sf := g.Call.StaticCallee(); sf != nil {
					roots = append(roots, sf)
				}
				sub := c.A.Reach(roots, nil)
				ob.Facts = len(sub)
				re := c.E1.re(reTreeMutators + `|^\(\*store/cachekv\.Store\)\.(Set|Delete|Write)$|^\(store/prefix\.Store\)\.(Set|Delete)$`)
				var hits []string
				for sfn := range sub {
					if re.MatchString(FnName(sfn)) {
						hits = append(hits, FnName(sfn))
					}
				}
				sort.Strings(hits)
				if len(hits) > 0 {
					ob.fail(c.A.Pos(g.Pos()), "goroutine reaches %s", strings.Join(hits[:min(3, len(hits))], ", "))
				}
				out = append(out, *ob)
			}
		}
	}
	// 4. floating point: compilers may fuse x*y+z on some architectures, and float formatting /
	// conversion of large values is where nodes of different builds drift; consensus arithmetic
	// is meant to be big-integer / fixed-point only
	{
		ob := c.obl(P, "no-float-arithmetic", "CONSENSUS", "no floating-point arithmetic or float-to-integer conversion in repository code on the consensus path (outside observability)")
		for f := range reach {
			if f.Blocks == nil || !fnInRepo(f) {
				continue
			}
			name := FnName(f)
			if floatExceptions[name] != "" {
				continue
			}
			for _, b := range f.Blocks {
				ob.Facts += len(b.Instrs)
			}
			for _, ins := range floatSites(f) {
				ob.Path = pathTo(reach, f)
				switch x := ins.(type) {
				case *ssa.BinOp:
					ob.fail(c.A.Pos(x.Pos()), "%s computes %s on floating-point operands", name, x.Op)
				case *ssa.Convert:
					ob.fail(c.A.Pos(x.Pos()), "%s converts a floating-point value to %s", name, x.Type())
				}
			}
		}
		out = append(out, *ob)
	}
	// 5. select with several communication cases picks a ready case at random
	{
		ob := c.obl(P, "no-racy-select", "CONSENSUS", "no select with more than one communication case in repository code on the consensus path")
		for f := range reach {
			if f.Blocks == nil || !fnInRepo(f) {
				continue
			}
			ob.Facts++
			for _, s := range racySelects(f) {
				ob.Path = pathTo(reach, f)
				ob.fail(c.A.Pos(s.Pos()), "%s selects among %d channel operations: when several are ready the choice is random", FnName(f), len(s.States))
			}
		}
		out = append(out, *ob)
	}
	sort.SliceStable(out, func(i, j int) bool {
		if out[i].Rule != out[j].Rule {
			return out[i].Rule < out[j].Rule
		}
		return out[i].Construct < out[j].Construct
	})
	return out
}

// floatExceptions: functions on the consensus path that use floating point only for
// observability, with the reason.
var floatExceptions = map[string]string{
	"(x/pocketcore/keeper.Keeper).ValidateProof": "int(math.Ceil(math.Log2(float64(n)))): math.Log2 is pure Go on the supported platforms and returns exact integers for powers of two by a special case; for any other n below 2^40 the result is more than 2^-40 away from an integer, far beyond rounding or multiply-add fusion differences, so Ceil is the same everywhere",
	"x/nodes/keeper.BeginBlocker":                  "int(Duration.Minutes()): one float division and addition of exactly representable operands followed by truncation; no fused operation is possible",
}

func isFloat(t types.Type) bool {
	b, ok := t.Underlying().(*types.Basic)
	return ok && b.Info()&types.IsFloat != 0
}

func uniq(s []string) []string {
	m := map[string]bool{}
	var out []string
	for _, x := range s {
		if !m[x] {
			m[x] = true
			out = append(out, x)
		}
	}
	return out
}

func tail(s []string, n int) []string {
	if len(s) <= n {
		return s
	}
	return s[len(s)-n:]
}

func quoteJoin(ss []string) string {
	var q []string
	for _, s := range ss {
		q = append(q, fmt.Sprintf("%q", s))
	}
	return strings.Join(q, ", ")
}
