package main

import (
	"go/token"
	"go/types"

	"golang.org/x/tools/go/ssa"
)

// One-level (bounded depth) inlining of boolean predicates in E1: a branch on
// `helper(args)` where helper is a repository function returning a single bool is
// decided by evaluating helper's body under the row's valuation, with helper's
// parameters rendered as the caller's argument expressions. This is what makes a
// guard that was moved into a predicate helper equivalent, for the rows, to the
// inline guard — and what lets a helper that decides differently be judged on what
// it decides, not on the fact that the inline form is gone.

// paramSubst, when set, makes desc render a parameter as the caller's argument.
var paramSubst map[*ssa.Parameter]ssa.Value

const inlineMaxDepth = 2

var inlineDepth int

func isBoolResult(fn *ssa.Function) bool {
	res := fn.Signature.Results()
	if res.Len() != 1 {
		return false
	}
	b, ok := res.At(0).Type().Underlying().(*types.Basic)
	return ok && b.Kind() == types.Bool
}

// helperBool: if v is (a negation of) a call to a repository predicate, its truth under lits.
func (e *e1Engine) helperBool(v ssa.Value, lits []Lit, matched []int) (known, val bool) {
	neg := false
	for {
		v = stripConv(v)
		if u, ok := v.(*ssa.UnOp); ok && u.Op == token.NOT {
			neg = !neg
			v = u.X
			continue
		}
		break
	}
	call, ok := v.(*ssa.Call)
	if !ok || inlineDepth >= inlineMaxDepth {
		return false, false
	}
	callee := call.Call.StaticCallee()
	if callee == nil || callee.Blocks == nil || !e.a.AllFns[callee] || !isBoolResult(callee) || len(callee.FreeVars) > 0 {
		return false, false
	}
	if len(callee.Params) != len(call.Call.Args) || len(callee.Blocks) > 40 {
		return false, false
	}
	saved := paramSubst
	ns := map[*ssa.Parameter]ssa.Value{}
	for k, x := range saved {
		ns[k] = x
	}
	for i, p := range callee.Params {
		ns[p] = call.Call.Args[i]
	}
	// arguments are rendered in the caller's frame: resolve them before switching frames
	paramSubst = ns
	savedPhi := phiResolver
	phiResolver = nil
	inlineDepth++
	defer func() { paramSubst = saved; phiResolver = savedPhi; inlineDepth-- }()

	hasLoop := len(naturalLoops(callee)) > 0
	// feasible edges of the callee under the valuation
	type edge [2]*ssa.BasicBlock
	feas := map[edge]bool{}
	seen := map[*ssa.BasicBlock]bool{callee.Blocks[0]: true}
	q := []*ssa.BasicBlock{callee.Blocks[0]}
	var evalV func(x ssa.Value, d int) (bool, bool)
	evalV = func(x ssa.Value, d int) (bool, bool) {
		if d > 6 {
			return false, false
		}
		n := false
		for {
			x = stripConv(x)
			if u, ok := x.(*ssa.UnOp); ok && u.Op == token.NOT {
				n = !n
				x = u.X
				continue
			}
			break
		}
		if ph, ok := x.(*ssa.Phi); ok {
			first, any, res := true, false, false
			for i, ed := range ph.Edges {
				if !feas[edge{ph.Block().Preds[i], ph.Block()}] {
					continue
				}
				k, r := evalV(ed, d+1)
				if !k {
					return false, false
				}
				if first {
					res, first, any = r, false, true
				} else if r != res {
					return false, false
				}
			}
			if !any {
				return false, false
			}
			return true, res != n
		}
		k, r := e.boolUnder(x, lits, matched)
		if !k {
			return false, false
		}
		return true, r != n
	}
	for len(q) > 0 {
		b := q[0]
		q = q[1:]
		succs := b.Succs
		if iff, ok := b.Instrs[len(b.Instrs)-1].(*ssa.If); ok && len(succs) == 2 {
			// a phi condition needs the edges into b settled; blocks are visited in BFS order, which for
			// the short-circuit shapes go/ssa emits has all forward predecessors done. In a body with a
			// loop that is not so: there, a condition that is (a negation of) a phi is left undecided and
			// both edges are followed, so that the set of feasible edges never depends on visiting order
			undecidable := false
			if hasLoop {
				c := iff.Cond
				for {
					c = stripConv(c)
					if u, ok := c.(*ssa.UnOp); ok && u.Op == token.NOT {
						c = u.X
						continue
					}
					break
				}
				_, undecidable = c.(*ssa.Phi)
			}
			if undecidable {
			} else if k, r := evalV(iff.Cond, 0); k {
				if r {
					succs = succs[:1]
				} else {
					succs = succs[1:]
				}
			}
		}
		for _, s := range succs {
			feas[edge{b, s}] = true
			if !seen[s] {
				seen[s] = true
				q = append(q, s)
			}
		}
	}
	first, res := true, false
	for _, b := range callee.Blocks {
		if !seen[b] {
			continue
		}
		ret, ok := b.Instrs[len(b.Instrs)-1].(*ssa.Return)
		if !ok {
			if _, isPanic := b.Instrs[len(b.Instrs)-1].(*ssa.Panic); isPanic {
				continue
			}
			continue
		}
		if len(ret.Results) != 1 {
			return false, false
		}
		k, r := evalV(ret.Results[0], 0)
		if !k {
			return false, false
		}
		if first {
			res, first = r, false
		} else if r != res {
			return false, false
		}
	}
	if first {
		return false, false
	}
	return true, res != neg
}
