package main

import (
	"go/types"
	"sort"
	"strings"

	"golang.org/x/tools/go/ssa"
)

// E7 provenance helpers and E2 field-access tables.

func isCtxBuilderName(n string) bool {
	return strings.HasPrefix(n, "With") || n == "SetPrevCtx"
}

// ctxStoreSources traces a context value back through its builder methods and
// returns the values its multistore may come from:
//
//	NewContext(ms, ...)             -> ms
//	c.WithMultiStore(ms)            -> ms
//	c.WithX(...) / c.SetPrevCtx(..) -> sources of c
//	c.CacheContext()#0              -> the Extract itself (a cache)
//	phi                             -> union
//	anything else                   -> the value itself (unknown origin)
func ctxStoreSources(v ssa.Value) []ssa.Value {
	seen := map[ssa.Value]bool{}
	var out []ssa.Value
	var walk func(ssa.Value, int)
	walk = func(x ssa.Value, depth int) {
		x = stripConv(x)
		if seen[x] || depth > 40 {
			return
		}
		seen[x] = true
		switch c := x.(type) {
		case *ssa.Phi:
			for _, e := range c.Edges {
				walk(e, depth+1)
			}
			return
		case *ssa.UnOp:
			if a, ok := c.X.(*ssa.Alloc); ok && c.Op.String() == "*" {
				if sv := singleStore(a); sv != nil {
					walk(sv, depth+1)
					return
				}
			}
		case *ssa.Call:
			name := ""
			var recv ssa.Value
			if c.Call.IsInvoke() {
				name = c.Call.Method.Name()
				recv = c.Call.Value
			} else if f := c.Call.StaticCallee(); f != nil {
				name = f.Name()
				if f.Signature.Recv() != nil && len(c.Call.Args) > 0 {
					recv = c.Call.Args[0]
				}
				if f.Name() == "NewContext" && f.Signature.Recv() == nil && len(c.Call.Args) > 0 && fnPkgPath(f) == repoMod+"/types" {
					out = append(out, c.Call.Args[0])
					return
				}
			}
			if name == "WithMultiStore" {
				args := c.Call.Args
				out = append(out, args[len(args)-1])
				return
			}
			if recv != nil && isCtxBuilderName(name) {
				walk(recv, depth+1)
				return
			}
		}
		out = append(out, x)
	}
	walk(v, 0)
	return out
}

// ctxBuilderChain reports whether any call named method occurs on the builder
// chain that produces context value v (e.g. SetPrevCtx).
func ctxBuilderChainHas(v ssa.Value, method string) (found bool, arg ssa.Value) {
	seen := map[ssa.Value]bool{}
	for depth := 0; depth < 40; depth++ {
		v = stripConv(v)
		if seen[v] {
			return false, nil
		}
		seen[v] = true
		if u, ok := v.(*ssa.UnOp); ok && u.Op.String() == "*" {
			if a, ok := u.X.(*ssa.Alloc); ok {
				if sv := singleStore(a); sv != nil {
					v = sv
					continue
				}
			}
			return false, nil
		}
		c, ok := v.(*ssa.Call)
		if !ok {
			return false, nil
		}
		name := ""
		var recv ssa.Value
		args := c.Call.Args
		if c.Call.IsInvoke() {
			name = c.Call.Method.Name()
			recv = c.Call.Value
		} else if f := c.Call.StaticCallee(); f != nil {
			name = f.Name()
			if f.Signature.Recv() != nil && len(args) > 0 {
				recv = args[0]
				args = args[1:]
			}
		}
		if name == method {
			if len(args) > 0 {
				return true, args[0]
			}
			return true, nil
		}
		if recv == nil || !isCtxBuilderName(name) {
			return false, nil
		}
		v = recv
	}
	return false, nil
}

type fieldAccess struct {
	Fn     *ssa.Function
	Reads  int
	Writes int
	Pos    ssa.Instruction
}

// fieldAccessors finds every in-repo function that takes the address of, or
// reads, field `field` of named struct type pkgPath.typeName.
func (c *Ctx) fieldAccessors(pkgPath, typeName, field string) []fieldAccess {
	m := map[*ssa.Function]*fieldAccess{}
	match := func(t types.Type, idx int) bool {
		n := namedOf(t)
		if n == nil || n.Obj().Name() != typeName || n.Obj().Pkg() == nil || n.Obj().Pkg().Path() != repoMod+"/"+pkgPath {
			return false
		}
		return fieldName(n, idx) == field
	}
	for fn := range c.A.AllFns {
		if fn.Blocks == nil {
			continue
		}
		for _, b := range fn.Blocks {
			for _, ins := range b.Instrs {
				switch x := ins.(type) {
				case *ssa.FieldAddr:
					if !match(x.X.Type(), x.Field) {
						continue
					}
					fa := m[fn]
					if fa == nil {
						fa = &fieldAccess{Fn: fn, Pos: ins}
						m[fn] = fa
					}
					w := false
					if x.Referrers() != nil {
						for _, r := range *x.Referrers() {
							if st, ok := r.(*ssa.Store); ok && st.Addr == x {
								w = true
							}
						}
					}
					if w {
						fa.Writes++
					} else {
						fa.Reads++
					}
				case *ssa.Field:
					if !match(x.X.Type(), x.Field) {
						continue
					}
					fa := m[fn]
					if fa == nil {
						fa = &fieldAccess{Fn: fn, Pos: ins}
						m[fn] = fa
					}
					fa.Reads++
				}
			}
		}
	}
	var out []fieldAccess
	for _, v := range m {
		out = append(out, *v)
	}
	sort.Slice(out, func(i, j int) bool { return FnName(out[i].Fn) < FnName(out[j].Fn) })
	return out
}

// fieldTable: one obligation — the functions that write (or, if reads is true,
// touch at all) the field are within allowed.
func (c *Ctx) fieldTable(prop, rule, pkgPath, typeName, field string, reads bool, allowed []string, why string) Obligation {
	construct := pkgPath + "." + typeName + "." + field
	kind := "writers"
	if reads {
		kind = "accessors"
	}
	o := c.obl(prop, rule, construct, kind+" of "+construct+" ⊆ {"+strings.Join(allowed, ", ")+"} — "+why)
	acc := c.fieldAccessors(pkgPath, typeName, field)
	if len(acc) == 0 {
		o.unresolved("field %s has no accessor: anchor does not resolve", construct)
		return *o
	}
	for _, a := range acc {
		o.Facts += a.Reads + a.Writes
		if !reads && a.Writes == 0 {
			continue
		}
		ok, n := c.allowedFn(a.Fn, allowed)
		if !ok {
			o.fail(c.A.Pos(a.Pos.Pos()), "%s %s %s, outside the table", n, map[bool]string{true: "accesses", false: "writes"}[reads], construct)
		}
	}
	return *o
}

// noReach: one obligation — no function matching target is reachable
// (repo-scoped call graph) from the named roots.
func (c *Ctx) noReach(prop, rule string, roots []string, targetRe string, stopRe string, why string) Obligation {
	o := c.obl(prop, rule, strings.Join(roots, ","), "from {"+strings.Join(roots, ", ")+"} no function matching /"+targetRe+"/ is reachable in the repo-scoped call graph — "+why)
	var rs []*ssa.Function
	for _, r := range roots {
		f := c.A.Fn(r)
		if f == nil {
			o.unresolved("root %s not found", r)
			return *o
		}
		rs = append(rs, f)
	}
	tre := c.E1.re(targetRe)
	var stop func(*ssa.Function) bool
	if stopRe != "" {
		sre := c.E1.re(stopRe)
		stop = func(f *ssa.Function) bool { return sre.MatchString(FnName(f)) }
	}
	parent := c.A.Reach(rs, stop)
	o.Facts = len(parent)
	var hits []*ssa.Function
	for f := range parent {
		if tre.MatchString(FnName(f)) {
			hits = append(hits, f)
		}
	}
	sort.Slice(hits, func(i, j int) bool { return FnName(hits[i]) < FnName(hits[j]) })
	for i, h := range hits {
		if i >= 3 {
			break
		}
		p := pathTo(parent, h)
		o.Path = p
		o.fail(c.A.FnPos(h), "%s is reachable: %s", FnName(h), strings.Join(p, " → "))
	}
	return *o
}
