package main

// Block-hook rules shared by the properties whose guarantee rests on a sweep that
// must run at every block (C24 unstake maturity, C25 downtime handling, C32 claim
// expiry): the chain from the ABCI entry point down to the sweep has no branch that
// skips it.

func (c *Ctx) hookRowsEnd(P string) []Obligation {
	mod := `m\.Modules\[m\.OrderEndBlockers\[\(phi:rangeindex \+ 1\)\]\]`
	ectx := `invoke types\.Ctx\.WithEventManager\(ctx, types\.NewEventManager\(\)\)`
	out := c.Rows([]Row{
		{Prop: P, ID: "hooks.baseapp-endblock-calls-app", Fn: "(*baseapp.BaseApp).EndBlock", Assume: []Lit{T(`^nonnil\(app\.endBlocker\)$`)},
			Barrier: []string{`^dyn:app\.endBlocker\(app\.deliverState\.ctx, req\)`}, Target: TargetAnyReturn(), Why: "EndBlock runs the application's end blocker on the deliver state"},
		{Prop: P, ID: "hooks.app-endblocker-runs-manager", Fn: "(*app.PocketCoreApp).EndBlocker", Barrier: []string{`^\(\*types/module\.Manager\)\.EndBlock\(app\.mm, ctx, req\)`}, Target: TargetAnyReturn(), Why: "the application's end blocker is the module manager's"},
		{Prop: P, ID: "hooks.manager-endblock-operands", Fn: "(*types/module.Manager).EndBlock",
			Target: CallTo(`^invoke types/module\.AppModule\.EndBlock\(`).Except(`^invoke types/module\.AppModule\.EndBlock\(` + mod + `, ` + ectx + `, req\)$`), Why: "each module in the end-block order gets the block's context"},
		{Prop: P, ID: "hooks.nodes-module-endblock", Fn: "(x/nodes.AppModule).EndBlock", Barrier: []string{`^x/nodes/keeper\.EndBlocker\(ctx, am\.keeper\)`}, Target: TargetAnyReturn(), Why: "the nodes module's EndBlock is the keeper's EndBlocker"},
		{Prop: P, ID: "hooks.nodes-endblocker-sweeps", Fn: "x/nodes/keeper.EndBlocker", Barrier: []string{`^\(x/nodes/keeper\.Keeper\)\.unstakeAllMatureValidators\(k, ctx\)`}, Target: TargetAnyReturn(), Why: "every block ends with the sweep over matured unstaking nodes"},
		{Prop: P, ID: "hooks.nodes-endblocker-updates-set", Fn: "x/nodes/keeper.EndBlocker", Barrier: []string{`^\(x/nodes/keeper\.Keeper\)\.UpdateTendermintValidators\(k, ctx\)`}, Target: TargetAnyReturn(), Why: "and with the validator-set update (which releases the waiting-to-unstake set at session end)"},
		{Prop: P, ID: "hooks.nodes-sweep-unconditional", Fn: "(x/nodes/keeper.Keeper).unstakeAllMatureValidators", Barrier: []string{`^\(x/nodes/keeper\.Keeper\)\.unstakingValidatorsIterator\(k, ctx, invoke types\.Ctx\.BlockHeader\(ctx\)\.Time\)`}, Target: TargetAnyReturn(), Why: "the sweep always consults the unstaking queue up to the block time: no early exit skips it"},
		{Prop: P, ID: "hooks.apps-module-endblock", Fn: "(x/apps.AppModule).EndBlock", Barrier: []string{`^x/apps/keeper\.EndBlocker\(ctx, am\.keeper\)`}, Target: TargetAnyReturn(), Why: "the apps module's EndBlock is the keeper's EndBlocker"},
		{Prop: P, ID: "hooks.apps-endblocker-sweeps", Fn: "x/apps/keeper.EndBlocker", Barrier: []string{`^\(x/apps/keeper\.Keeper\)\.unstakeAllMatureApplications\(k, ctx\)`}, Target: TargetAnyReturn(), Why: "every block ends with the sweep over matured unstaking applications"},
		{Prop: P, ID: "hooks.apps-sweep-unconditional", Fn: "(x/apps/keeper.Keeper).unstakeAllMatureApplications", Barrier: []string{`^\(x/apps/keeper\.Keeper\)\.unstakingApplicationsIterator\(k, ctx, invoke types\.Ctx\.BlockHeader\(ctx\)\.Time\)`}, Target: TargetAnyReturn(), Why: "the sweep always consults the unstaking queue up to the block time"},
	})
	out = append(out,
		c.wiringRow(P, "hooks.wiring.end-blocker-installed", `^\(\*baseapp\.BaseApp\)\.SetEndBlocker\(.*, closure:\(\*app\.PocketCoreApp\)\.EndBlocker\$bound\)$`, "the application's end blocker is installed in the base app"),
		c.wiringRow(P, "hooks.wiring.end-block-order", `^\(\*types/module\.Manager\)\.SetOrderEndBlockers\(.*, \["pos", "application", "pocketcore", "gov"\]\)$`, "the end-block order lists the nodes, apps, pocketcore and gov modules"),
		c.wiringRow(P, "hooks.wiring.modules-registered", `^types/module\.NewManager\(\[x/auth\.NewAppModule\(.*\), x/nodes\.NewAppModule\(.*\), x/apps\.NewAppModule\(.*\), x/pocketcore\.NewAppModule\(.*\), x/gov\.NewAppModule\(.*\)\]\)$`, "every module is registered with the manager"),
		c.edgeMust(P, "hooks.manager-endblock-every-module", "(*types/module.Manager).EndBlock", `^lt\(\(phi:rangeindex \+ 1\), builtin\.len\(m\.OrderEndBlockers\)\)$`, true, `^invoke types/module\.AppModule\.EndBlock\(`, 1, "no module in the end-block order is skipped"),
	)
	return out
}

func (c *Ctx) hookRowsBegin(P string) []Obligation {
	mod := `m\.Modules\[m\.OrderBeginBlockers\[\(phi:rangeindex \+ 1\)\]\]`
	ectx := `invoke types\.Ctx\.WithEventManager\(ctx, types\.NewEventManager\(\)\)`
	out := c.Rows([]Row{
		{Prop: P, ID: "hooks.app-beginblocker-runs-manager", Fn: "(*app.PocketCoreApp).BeginBlocker", Barrier: []string{`^\(\*types/module\.Manager\)\.BeginBlock\(app\.mm, ctx, req\)`}, Target: TargetAnyReturn(), Why: "the application's begin blocker is the module manager's"},
		{Prop: P, ID: "hooks.manager-beginblock-operands", Fn: "(*types/module.Manager).BeginBlock",
			Target: CallTo(`^invoke types/module\.AppModule\.BeginBlock\(`).Except(`^invoke types/module\.AppModule\.BeginBlock\(` + mod + `, ` + ectx + `, req\)$`), Why: "each module in the begin-block order gets the block's context and request"},
	})
	out = append(out,
		c.wiringRow(P, "hooks.wiring.begin-blocker-installed", `^\(\*baseapp\.BaseApp\)\.SetBeginBlocker\(.*, closure:\(\*app\.PocketCoreApp\)\.BeginBlocker\$bound\)$`, "the application's begin blocker is installed in the base app"),
		c.wiringRow(P, "hooks.wiring.begin-block-order", `^\(\*types/module\.Manager\)\.SetOrderBeginBlockers\(.*, \["pos", "application", "pocketcore", "gov"\]\)$`, "the begin-block order lists the nodes, apps, pocketcore and gov modules"),
		c.edgeMust(P, "hooks.manager-beginblock-every-module", "(*types/module.Manager).BeginBlock", `^lt\(\(phi:rangeindex \+ 1\), builtin\.len\(m\.OrderBeginBlockers\)\)$`, true, `^invoke types/module\.AppModule\.BeginBlock\(`, 1, "no module in the begin-block order is skipped"),
	)
	return out
}

// wiringRow: app.NewPocketCoreApp performs the given set-up call on every path to its return.
func (c *Ctx) wiringRow(P, rule, callRe, why string) Obligation {
	return c.E1.Check(Row{Prop: P, ID: rule, Fn: "app.NewPocketCoreApp", Barrier: []string{callRe}, Target: TargetAnyReturn(), Why: why})
}
