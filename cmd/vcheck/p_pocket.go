package main

import (
	"go/token"
	"regexp"
	"sort"
	"strings"

	"golang.org/x/tools/go/ssa"
)

// C30 merkle proof soundness rows, C31 leaf unpredictability, C32 claims and
// proofs, C33 sessions.

const (
	kK            = `\(x/pocketcore/keeper\.Keeper\)\.`
	fnValClaim    = "(x/pocketcore/keeper.Keeper).ValidateClaim"
	fnValProof    = "(x/pocketcore/keeper.Keeper).ValidateProof"
	fnClaimH      = "x/pocketcore.handleClaimMsg"
	fnProofH      = "x/pocketcore.handleProofMsg"
	fnExecProof   = "(x/pocketcore/keeper.Keeper).ExecuteProof"
	fnMature      = "(x/pocketcore/keeper.Keeper).ClaimIsMature"
	fnPseudoIdx   = "(x/pocketcore/keeper.Keeper).getPseudorandomIndex"
	fnMerkleVal   = "(x/pocketcore/types.MerkleProof).Validate"
	fnSessNodes   = "x/pocketcore/types.NewSessionNodes"
	sessCtx       = `invoke types\.Ctx\.PrevCtx\(ctx, claim\.SessionHeader\.SessionBlockHeight\)#0`
	claimApp      = kK + `GetAppFromPublicKey\(k, ` + sessCtx + `, claim\.SessionHeader\.ApplicationPubKey\)`
	proofValidate = `^\(x/pocketcore/types\.MerkleProof\)\.Validate\(proof\.MerkleProof, (var:)?claim\.SessionHeader\.SessionBlockHeight, (var:)?claim\.MerkleRoot, \(x/pocketcore/types\.MsgProof\)\.GetLeaf\(proof\), builtin\.len\(proof\.MerkleProof\.HashRanges\)\)`
	pseudoIdx     = kK + `getPseudorandomIndex\(k, ctx, (var:)?claim\.TotalProofs, (var:)?claim\.SessionHeader, invoke types\.Ctx\.PrevCtx\(ctx, (var:)?claim\.SessionHeader\.SessionBlockHeight\)#0\)`
	selNode       = `invoke x/pocketcore/types\.PosKeeper\.Validator\(keeper, ctx, .*\)`
)

func init() {
	register(&Prop{
		ID: "C32", Title: "Each claim is rewarded at most once and only with a valid proof",
		Technique: "pruned-CFG reachability (rejection rows, guarded effects), must-pass-through, who-may-call",
		DesignRef: "DESIGN.md §3 C32, Appendix A.4",
		Explanation: "ValidateClaim rejects a claim before session end, below the minimum proofs, for an unsupported chain, from an unknown node, for an unknown app, above the app's allowance (gate), over the chain limit (gate), for a node outside the session, and once mature; SetClaim happens only after it; ValidateProof rejects a missing claim, a wrong level count, a root-sum mismatch, a wrong index, an invalid merkle proof, an unknown app and an invalid leaf; ExecuteProof happens only after it; every award in ExecuteProof is paired with deletion of that claim on every successful path; awards are reached only from ExecuteProof; expiry deletes without paying.",
		NotDecided:  "session membership as a value (C33), merkle proof validity as a value (C30); re-claiming the same session after a proof inside the claim window is a consequence of C31's window and is reported there.",
		MinObl:      30,
		Run:         runC32,
	})
	register(&Prop{
		ID: "C33", Title: "Sessions are deterministic and contain only eligible, distinct nodes",
		Technique: "pruned-CFG reachability on the node-selection loop, determinism scan of the session closure",
		DesignRef: "DESIGN.md §3 C33",
		Explanation: "A node address is stored into the session only if its record exists in the reference state, it is not jailed, it serves the chain, it is within the chain limit (gate), it is not already in the session and its address was not drawn before; the loop ends by filling exactly sessionNodesCount slots or by an insufficient-nodes error; the closure of NewSession ranges over no map and reads no clock or random source.",
		NotDecided:  "that the returned set is the whole eligible set; values of the pseudo-random draw.",
		MinObl:      10,
		Run:         runC33,
	})
	register(&Prop{
		ID: "C31", Title: "The proof leaf is unpredictable when the claim is committed",
		Technique: "affine normalisation of the maturity threshold and the entropy height, compared symbolically; provenance of the selection inputs",
		DesignRef: "DESIGN.md §3 C31",
		Explanation: "ValidateClaim rejects once ClaimIsMature(ctx, S) holds, and ClaimIsMature is h > W·B + S, so the last accepting height is A = W·B + S; the entropy is GetPrevBlockHash(P) with P = S + W·B, i.e. the hash of block P−1, public from height P on; the rule requires A < P as polynomials over the same parameter reads. The index is PseudorandomSelection(NewInt(total), Hash(json{blockhash, header hash})) and PseudorandomSelection ends in Mod(max).",
		NotDecided:  "nothing numeric remains; block-store timing is Tendermint's.",
		MinObl:      5,
		Run:         runC31,
	})
	register(&Prop{
		ID: "C30", Title: "Merkle-sum-index proofs cannot be forged or replayed",
		Technique: "pruned-CFG reachability on MerkleProof.Validate (acceptance only behind each check), operand provenance of parentHash, replay-branch pairing",
		DesignRef: "DESIGN.md §3 C30",
		Explanation: "MerkleProof.Validate can return isValid=true only with root.Range.Lower==0, target hash == hash(leaf), target upper == sum from hash, every level's target and sibling ranges valid (their failure reports a replay), sibling contiguous on the side selected by index parity, and root.Equal(final target); after the codec upgrade parentHash hashes both child hashes, both indices and the range; ValidateProof requires TargetIndex == the pseudo-random index and the level count derived from the claim; the replay branch of the proof handler burns and deletes the claim.",
		NotDecided:  "collision resistance and the hash values themselves; completeness (C29).",
		MinObl:      14,
		Run:         runC30,
	})
}

func runC32(c *Ctx) []Obligation {
	P := "C32"
	rows := []Row{
		{Prop: P, ID: "claim.evidence-type", Fn: fnValClaim, Assume: []Lit{T(`^eq\(0, claim\.EvidenceType\)$`)}, Target: Success(), Why: "a claim needs an evidence type"},
		{Prop: P, ID: "claim.session-ctx", Fn: fnValClaim, Assume: []Lit{T(`^nonnil\(invoke types\.Ctx\.PrevCtx\(ctx, claim\.SessionHeader\.SessionBlockHeight\)#1\)$`)}, Target: Success(), Why: "the session height must be loadable"},
		{Prop: P, ID: "claim.session-ended", Fn: fnValClaim,
			Assume: []Lit{F(`^lt\(\(\(claim\.SessionHeader\.SessionBlockHeight \+ ` + kK + `BlocksPerSession\(k, ` + sessCtx + `\)\) - 1\), invoke types\.Ctx\.BlockHeight\(ctx\)\)$`)},
			Target: Success(), Why: "a claim is accepted only after its session has ended (height > S + B − 1)"},
		{Prop: P, ID: "claim.min-proofs", Fn: fnValClaim,
			Assume: []Lit{T(`^lt\(claim\.TotalProofs, ` + kK + `MinimumNumberOfProofs\(k, ` + sessCtx + `\)\)$`)}, Target: Success(), Why: "at least the minimum number of proofs"},
		{Prop: P, ID: "claim.supported-chain", Fn: fnValClaim,
			Assume: []Lit{F(`^` + kK + `IsPocketSupportedBlockchain\(k, ` + sessCtx + `, claim\.SessionHeader\.Chain\)$`)}, Target: Success(), Why: "only for a supported chain"},
		{Prop: P, ID: "claim.node-exists", Fn: fnValClaim,
			Assume: []Lit{F(`^` + kK + `GetNode\(k, ` + sessCtx + `, claim\.FromAddress\)#1$`)}, Target: Success(), Why: "only from a node known at session start"},
		{Prop: P, ID: "claim.app-exists", Fn: fnValClaim,
			Assume: []Lit{F(`^` + claimApp + `#1$`)}, Target: Success(), Why: "only for an application known at session start"},
		{Prop: P, ID: "claim.max-relays", Fn: fnValClaim,
			Assume: []Lit{T(`IsAfterNamedFeatureActivationHeight\(x/pocketcore/types\.ModuleCdc, invoke types\.Ctx\.BlockHeight\(ctx\), "MREL"\)$`),
				T(`^LT<types\.BigInt>\(x/pocketcore/types\.MaxPossibleRelays\(` + claimApp + `#0, ` + kK + `SessionNodeCount\(k, ` + sessCtx + `\)\), types\.NewInt\(claim\.TotalProofs\)\)$`)},
			Target: Success(), Why: "no more relays than the application allows this node (MREL active)"},
		{Prop: P, ID: "claim.chains-limit", Fn: fnValClaim,
			Assume: []Lit{T(`IsAfterEnforceMaxChainsUpgrade\(x/pocketcore/types\.ModuleCdc, invoke types\.Ctx\.BlockHeight\(ctx\)\)$`),
				T(`^lt\(invoke x/pocketcore/types\.AppsKeeper\.MaxChains\(k\.appKeeper, ` + sessCtx + `\), conv<int64>\(builtin\.len\(invoke x/apps/exported\.ApplicationI\.GetChains\(` + claimApp + `#0\)\)\)\)$`)},
			Target: Success(), Why: "not for an application over the chain limit (gate active)"},
		{Prop: P, ID: "claim.session-validate", Fn: fnValClaim,
			Assume: []Lit{T(`^nonnil\(\(x/pocketcore/types\.Session\)\.Validate\(.*, claim\.FromAddress, ` + claimApp + `#0, `)}, Target: Success(),
			Why: "only from a node that is in the session for this app and chain"},
		{Prop: P, ID: "claim.must-validate-session", Fn: fnValClaim,
			Barrier: []string{`^\(x/pocketcore/types\.Session\)\.Validate\(.*, claim\.FromAddress, ` + claimApp + `#0, `}, Target: Success(),
			Why: "every accepted claim passed Session.Validate for the claimant"},
		{Prop: P, ID: "claim.session-generation-error", Fn: fnValClaim,
			Assume: []Lit{F(`^x/pocketcore/types\.GetSession\(claim\.SessionHeader, x/pocketcore/types\.GlobalSessionCache\)#1$`), T(`^nonnil\(x/pocketcore/types\.NewSession\(`)}, Target: Success(),
			Why: "a session that cannot be generated rejects"},
		{Prop: P, ID: "claim.not-mature", Fn: fnValClaim,
			Assume: []Lit{T(`^` + kK + `ClaimIsMature\(k, ctx, claim\.SessionHeader\.SessionBlockHeight\)$`)}, Target: Success(), Why: "a claim is refused once its submission window has closed"},
		{Prop: P, ID: "claimH.validate-gates-set", Fn: fnClaimH,
			Assume: []Lit{T(`^nonnil\(` + kK + `ValidateClaim\(k, ctx, msg\)\)$`)}, Target: CallTo(`SetClaim\(`), Why: "a claim is stored only if valid"},
		{Prop: P, ID: "claimH.must-validate", Fn: fnClaimH,
			Barrier: []string{`^` + kK + `ValidateClaim\(k, ctx, msg\)$`}, Target: CallTo(`SetClaim\(`), TargetMustExist: true, Why: "every stored claim passed ValidateClaim"},
		{Prop: P, ID: "claimH.stores-validated-msg", Fn: fnClaimH,
			Target: CallTo(`SetClaim\(`).Except(`^` + kK + `SetClaim\(k, ctx, msg\)$`), Why: "the claim stored is the one validated"},
		// proof
		{Prop: P, ID: "proof.claim-found", Fn: fnValProof,
			Assume: []Lit{F(`^` + kK + `GetClaim\(k, ctx, \(x/pocketcore/types\.MsgProof\)\.GetSigners\(proof\)\[0\], invoke x/pocketcore/types\.Proof\.SessionHeader\(\(x/pocketcore/types\.MsgProof\)\.GetLeaf\(proof\)\), proof\.EvidenceType\)#1$`)},
			Target: Success(), Why: "a proof needs a stored claim of its signer for the leaf's session and evidence type"},
		{Prop: P, ID: "proof.level-count", Fn: fnValProof,
			Assume: []Lit{F(`^eq\(builtin\.len\(proof\.MerkleProof\.HashRanges\), conv<int>\(math\.Ceil\(math\.Log2\(conv<float64>\((var:)?claim\.TotalProofs\)\)\)\)\)$`)},
			Target: Success(), Why: "the number of levels is derived from the claimed relay count"},
		{Prop: P, ID: "proof.root-sum-match", Fn: fnValProof,
			Assume: []Lit{F(`^phi:hasMatch$`), F(`^eq\(proof\.MerkleProof\.HashRanges\[.*\]\.Range\.Upper, (var:)?claim\.MerkleRoot\.Range\.Upper\)$`), F(`^eq\(proof\.MerkleProof\.Target\.Range\.Upper, (var:)?claim\.MerkleRoot\.Range\.Upper\)$`)},
			Target: Success(), Why: "some range of the proof must end at the claimed root's upper bound"},
		{Prop: P, ID: "proof.index-error", Fn: fnValProof,
			Assume: []Lit{T(`^nonnil\(` + pseudoIdx + `#1\)$`)}, Target: Success(), Why: "no index, no proof"},
		{Prop: P, ID: "proof.required-index", Fn: fnValProof,
			Assume: []Lit{F(`^eq\(` + pseudoIdx + `#0, proof\.MerkleProof\.TargetIndex\)$`)}, Target: Success(), Why: "the proven leaf is the pseudo-randomly required one"},
		{Prop: P, ID: "proof.merkle-valid", Fn: fnValProof,
			Assume: []Lit{F(proofValidate + `#0$`)}, Target: Success(), Why: "the merkle proof verifies against the claimed root"},
		{Prop: P, ID: "proof.must-verify-merkle", Fn: fnValProof,
			Barrier: []string{proofValidate + `$`}, Target: Success(), Why: "every accepted proof passed MerkleProof.Validate against the stored claim's root and session height"},
		{Prop: P, ID: "proof.app-exists", Fn: fnValProof,
			Assume: []Lit{F(`^` + kK + `GetAppFromPublicKey\(k, invoke types\.Ctx\.PrevCtx\(ctx, (var:)?claim\.SessionHeader\.SessionBlockHeight\)#0, (var:)?claim\.SessionHeader\.ApplicationPubKey\)#1$`)},
			Target: Success(), Why: "the application must exist at session start"},
		{Prop: P, ID: "proof.leaf-valid", Fn: fnValProof,
			Assume: []Lit{T(`^nonnil\(invoke x/pocketcore/types\.Proof\.Validate\(\(x/pocketcore/types\.MsgProof\)\.GetLeaf\(proof\), `)}, Target: Success(), Why: "the leaf itself must validate (signatures, chain, session height)"},
		{Prop: P, ID: "proofH.validate-gates-exec", Fn: fnProofH,
			Assume: []Lit{T(`^nonnil\(` + kK + `ValidateProof\(k, ctx, proof\)#2\)$`)}, Target: CallTo(`ExecuteProof\(`), Why: "a proof is executed only if valid"},
		{Prop: P, ID: "proofH.must-validate", Fn: fnProofH,
			Barrier: []string{`^` + kK + `ValidateProof\(k, ctx, proof\)$`}, Target: CallTo(`ExecuteProof\(`), TargetMustExist: true, Why: "every executed proof passed ValidateProof"},
		{Prop: P, ID: "proofH.exec-uses-validated-claim", Fn: fnProofH,
			Target: CallTo(`ExecuteProof\(`).Except(`^` + kK + `ExecuteProof\(k, ctx, proof, ` + kK + `ValidateProof\(k, ctx, proof\)#1\)$`), Why: "the claim paid is the one ValidateProof returned"},
		// execute: award paired with claim deletion
		{Prop: P, ID: "exec.relay-award-then-delete", Fn: fnExecProof,
			Assume:  []Lit{T(`^assert<x/pocketcore/types\.RelayProof>\(.*\)#1$`)},
			Barrier: []string{`^` + kK + `DeleteClaim\(k, ctx, claim\.FromAddress, claim\.SessionHeader, (1|(var:)?(claim|proof)\.EvidenceType)\)$`}, Target: Success(),
			Why: "a paid relay claim is deleted on every successful path"},
		{Prop: P, ID: "exec.challenge-delete", Fn: fnExecProof,
			Assume:  []Lit{F(`^assert<x/pocketcore/types\.RelayProof>\(.*\)#1$`), T(`^assert<x/pocketcore/types\.ChallengeProofInvalidData>\(phi:l\)#1$`)},
			Barrier: []string{`^` + kK + `DeleteClaim\(k, ctx, claim\.FromAddress, claim\.SessionHeader, (2|(var:)?(claim|proof)\.EvidenceType)\)$`}, Target: Success(),
			Why: "a paid challenge claim is deleted on every successful path"},
		{Prop: P, ID: "exec.awards-claim-fields", Fn: fnExecProof,
			Target: CallTo(`AwardCoinsForRelays\(`).Except(`^` + kK + `AwardCoinsForRelays\(k, ctx, claim\.SessionHeader\.Chain, (claim\.TotalProofs|\(claim\.TotalProofs / 100\)), claim\.FromAddress\)$`),
			Why:    "the award is computed from the claim's chain, count and claimant"},
		{Prop: P, ID: "exec.relay-delete-error-fails", Fn: fnExecProof,
			Assume: []Lit{T(`^assert<x/pocketcore/types\.RelayProof>\(.*\)#1$`), T(`^nonnil\(` + kK + `DeleteClaim\(`)}, Target: Success(), Why: "a relay claim that cannot be deleted fails the message"},
		{Prop: P, ID: "exec.challenge-delete-error-fails", Fn: fnExecProof,
			Assume: []Lit{F(`^assert<x/pocketcore/types\.RelayProof>\(.*\)#1$`), T(`^assert<x/pocketcore/types\.ChallengeProofInvalidData>\(phi:l\)#1$`), T(`^nonnil\(` + kK + `DeleteClaim\(`)}, Target: Success(), Why: "a challenge claim that cannot be deleted fails the message"},
		{Prop: P, ID: "exec.other-leaf-no-award", Fn: fnExecProof,
			Assume: []Lit{F(`^assert<x/pocketcore/types\.RelayProof>\(.*\)#1$`), F(`^assert<x/pocketcore/types\.ChallengeProofInvalidData>\(phi:l\)#1$`)},
			Target: CallTo(`AwardCoinsForRelays\(|BurnCoinsForChallenges\(`), Why: "unknown leaf types pay nothing"},
	}
	// expiry: swept at the start of every block, over every claim, deleting each claim whose
	// expiration height has been reached (ValidateProof never looks at ExpirationHeight itself:
	// an expired claim is unpayable only because the sweep has already removed it)
	fnExpire := "(x/pocketcore/keeper.Keeper).DeleteExpiredClaims"
	rows = append(rows,
		Row{Prop: P, ID: "expiry.runs-every-block", Fn: "(x/pocketcore.AppModule).BeginBlock",
			Barrier: []string{`^` + kK + `DeleteExpiredClaims\(am\.keeper, ctx\)`}, Target: TargetAnyReturn(),
			Why: "BeginBlock reaches its end only through the expiry sweep, on every block"},
		Row{Prop: P, ID: "expiry.sweeps-all-claims", Fn: fnExpire,
			Barrier: []string{`^types\.KVStorePrefixIterator\(invoke types\.Ctx\.KVStore\(ctx, k\.storeKey\), x/pocketcore/types\.ClaimKey\)`}, Target: TargetAnyReturn(),
			Why: "the sweep returns only after iterating the whole claim prefix: no early exit skips it"},
		Row{Prop: P, ID: "expiry.deletes-when-due", Fn: fnExpire,
			Assume:  []Lit{F(`^lt\(invoke types\.Ctx\.BlockHeight\(ctx\), var:msg\.ExpirationHeight\)$`)},
			Barrier: []string{`^invoke types\.KVStore\.Delete\(invoke types\.Ctx\.KVStore\(ctx, k\.storeKey\), invoke types\.Iterator\.Key\(`},
			Target:  CallTo(`^invoke types\.Iterator\.Next\(`), TargetMustExist: true,
			Why: "a claim whose expiration height is not above the block height is deleted before the sweep moves on"},
	)
	out := c.Rows(rows)
	out = append(out, c.hookRowsBegin(P)...)
	out = append(out,
		c.whoMayCall(P, "award.callers", "(x/pocketcore/keeper.Keeper).AwardCoinsForRelays", []string{kK + `ExecuteProof`}, "relay rewards are paid only by ExecuteProof"),
		c.whoMayCall(P, "execute.callers", fnExecProof, []string{`x/pocketcore\.handleProofMsg`}, "proofs are executed only by the proof handler"),
		c.whoMayCall(P, "challengeburn.callers", "(x/pocketcore/keeper.Keeper).BurnCoinsForChallenges", []string{kK + `ExecuteProof`}, "challenge burns only from ExecuteProof"),
		c.whoMayCall(P, "setclaim.callers", "(x/pocketcore/keeper.Keeper).SetClaim", []string{`x/pocketcore\.handleClaimMsg`, kK + `SetClaims`}, "claims are stored only by the claim handler (and genesis import)"),
		c.noReach(P, "expiry.pays-nothing", []string{"(x/pocketcore/keeper.Keeper).DeleteExpiredClaims"}, `AwardCoinsForRelays|RewardForRelays|\.mint$|MintCoins|SendCoins`, "", "expired claims are removed without payment"),
	)
	out = append(out, c.claimDeletedUnderLookupKey(P))
	out = append(out, sweepsVisitEverything(c, P, "(x/pocketcore/keeper.Keeper).DeleteExpiredClaims")...)
	out = append(out, claimStorage(c, P)...)
	return out
}

func runC33(c *Ctx) []Obligation {
	P := "C33"
	store := StoreTo(`^makeslice<x/pocketcore/types\.SessionNodes>\[`)
	rows := []Row{
		{Prop: P, ID: "select.node-exists", Fn: fnSessNodes, Assume: []Lit{F(`^nonnil\(` + selNode + `\)$`)}, Target: store, Why: "only nodes with a record at the reference height enter a session"},
		{Prop: P, ID: "select.not-jailed", Fn: fnSessNodes, Assume: []Lit{T(`^invoke x/nodes/exported\.ValidatorI\.IsJailed\(` + selNode + `\)$`)}, Target: store, Why: "jailed nodes never enter a session"},
		{Prop: P, ID: "select.has-chain", Fn: fnSessNodes, Assume: []Lit{F(`^x/pocketcore/types\.NodeHasChain\(chain, ` + selNode + `\)$`)}, Target: store, Why: "only nodes staked for the chain"},
		{Prop: P, ID: "select.chain-limit", Fn: fnSessNodes,
			Assume: []Lit{T(`IsAfterEnforceMaxChainsUpgrade\(`), T(`^lt\(invoke x/pocketcore/types\.PosKeeper\.MaxChains\(keeper, sessionCtx\), conv<int64>\(builtin\.len\(invoke x/nodes/exported\.ValidatorI\.GetChains\(` + selNode + `\)\)\)\)$`)},
			Target: store, Why: "nodes over the chain limit are skipped (gate active)"},
		{Prop: P, ID: "select.distinct", Fn: fnSessNodes, Assume: []Lit{T(`^\(x/pocketcore/types\.SessionNodes\)\.Contains\(makeslice<x/pocketcore/types\.SessionNodes>, `)}, Target: store, Why: "a node already in the session is not added again"},
		{Prop: P, ID: "select.first-seen", Fn: fnSessNodes, Assume: []Lit{T(`^makemap\[\(types\.Address\)\.String\(`)}, Target: store, Why: "an address drawn before is skipped"},
		{Prop: P, ID: "select.enough-candidates", Fn: fnSessNodes,
			Assume: []Lit{T(`^lt\(invoke x/pocketcore/types\.PosKeeper\.GetValidatorsByChain\(keeper, sessionCtx, chain\)#1, sessionNodesCount\)$`)}, Target: Success(), Why: "fewer candidates than the session size is an error"},
		{Prop: P, ID: "select.exhaustion-is-error", Fn: fnSessNodes,
			Assume: []Lit{F(`^lt\(builtin\.len\(makemap\), invoke x/pocketcore/types\.PosKeeper\.GetValidatorsByChain\(keeper, sessionCtx, chain\)#1\)$`)}, Target: store, Why: "when every candidate was drawn the loop ends with an error, not with a short session"},
		{Prop: P, ID: "select.success-only-when-full", Fn: fnSessNodes,
			Assume: []Lit{F(`^eq\(\(phi:numOfNodes \+ 1\), sessionNodesCount\)$`)}, Target: Success(), Why: "success is returned only when exactly sessionNodesCount slots were filled"},
		{Prop: P, ID: "select.stores-drawn-address", Fn: fnSessNodes,
			Target: Target{Kind: TStore, Re: `^makeslice<x/pocketcore/types\.SessionNodes>\[`, ReNot: `^makeslice<x/pocketcore/types\.SessionNodes>\[phi:numOfNodes\]$`},
			Why:    "slots are filled in order, one per accepted node"},
		{Prop: P, ID: "session.validate-membership", Fn: "(x/pocketcore/types.Session).Validate",
			Assume: []Lit{F(`^\(x/pocketcore/types\.SessionNodes\)\.Contains\(s\.SessionNodes, node\)$`)}, Target: Success(), Why: "Session.Validate refuses a node that is not in the session"},
		{Prop: P, ID: "session.validate-app-key", Fn: "(x/pocketcore/types.Session).Validate",
			Assume: []Lit{F(`^eq\(invoke crypto\.PublicKey\.RawString\(invoke x/apps/exported\.ApplicationI\.GetPublicKey\(app\)\), s\.SessionHeader\.ApplicationPubKey\)$`)}, Target: Success(), Why: "and an application whose key is not the header's"},
		{Prop: P, ID: "session.validate-size", Fn: "(x/pocketcore/types.Session).Validate",
			Assume: []Lit{T(`^nonnil\(\(x/pocketcore/types\.SessionNodes\)\.Validate\(s\.SessionNodes, sessionNodeCount\)\)$`)}, Target: Success(), Why: "and a session with fewer nodes than configured"},
	}
	out := c.Rows(rows)
	out = append(out, c.sessionDeterminism(P))
	// the session key (the seed of node selection) is the hash of exactly (app key, chain, block hash)
	out = append(out, c.Rows([]Row{
		{Prop: P, ID: "sessionkey.seed-app", Fn: "x/pocketcore/types.NewSessionKey", Target: StoreTo(`^var:complit\.AppPublicKey$`).ExceptVal(`^appPubKey$`), Why: "the seed carries the application key given"},
		{Prop: P, ID: "sessionkey.seed-chain", Fn: "x/pocketcore/types.NewSessionKey", Target: StoreTo(`^var:complit\.NonNativeChain$`).ExceptVal(`^chain$`), Why: "the chain given"},
		{Prop: P, ID: "sessionkey.seed-blockhash", Fn: "x/pocketcore/types.NewSessionKey", Target: StoreTo(`^var:complit\.BlockHash$`).ExceptVal(`^blockHash$`), Why: "and the block hash given"},
		{Prop: P, ID: "sessionkey.is-hash-of-seed", Fn: "x/pocketcore/types.NewSessionKey", Target: RetNotMatch(0, `^x/pocketcore/types\.Hash\(encoding/json\.Marshal\(var:complit\)#0\)$|^nil$`), Why: "the key is the hash of the encoded seed and nothing else"},
		{Prop: P, ID: "sessionkey.bad-inputs-rejected", Fn: "x/pocketcore/types.NewSessionKey", Assume: []Lit{T(`^nonnil\(x/pocketcore/types\.HashVerification\(blockHash\)\)$`)}, Target: Success(), Why: "a malformed block hash gives no key"},
	})...)
	// the candidate list comes from the validators-by-chain cache, keyed by (height, chain)
	out = append(out,
		c.keyInjective(P, "candidates.cache-key-injective", "types.GetCacheKey", "a colliding key would hand session selection the node list of another chain or height"),
		c.sameOperand(P, "candidates.cache-read-and-fill-same-key", "(x/nodes/keeper.Keeper).GetValidatorsByChain", `^types\.GetCacheKey\(`, 0, `^types\.GetCacheKey\(`, 0, "the list is cached under the height it was read at"),
		c.sameOperand(P, "candidates.cache-read-and-fill-same-chain", "(x/nodes/keeper.Keeper).GetValidatorsByChain", `^types\.GetCacheKey\(`, 1, `^types\.GetCacheKey\(`, 1, "and under the chain it was read for"),
	)
	out = append(out, c.sessionContextRoles(P)...)
	return out
}

// sessionDeterminism: the closure of NewSession contains no range over a map
// and no clock/random source.
func (c *Ctx) sessionDeterminism(P string) Obligation {
	o := c.obl(P, "session.closure-deterministic", "x/pocketcore/types.NewSession", "the in-repo closure of NewSession (key derivation, node selection, pseudo-random index) ranges over no map and calls no clock or random source")
	root := c.A.Fn("x/pocketcore/types.NewSession")
	if root == nil {
		o.unresolved("not found")
		return *o
	}
	// stay inside the session code: keeper reads (interface calls into x/nodes) are state reads
	stop := func(f *ssa.Function) bool {
		p := fnPkgPath(f)
		return !strings.HasSuffix(p, "/x/pocketcore/types") && !strings.HasSuffix(p, "/types")
	}
	parent := c.A.Reach([]*ssa.Function{root}, stop)
	for f := range parent {
		if f.Blocks == nil || stop(f) {
			continue
		}
		for _, b := range f.Blocks {
			for _, ins := range b.Instrs {
				o.Facts++
				if r, ok := ins.(*ssa.Range); ok {
					if _, isMap := r.X.Type().Underlying().(interface{ Key() interface{} }); isMap {
						_ = isMap
					}
					if isMapType(r.X.Type()) {
						o.fail(c.A.Pos(r.Pos()), "%s ranges over a map", FnName(f))
					}
				}
				if call, ok := ins.(*ssa.Call); ok {
					if cal := call.Call.StaticCallee(); cal != nil {
						n := cal.String()
						if n == "time.Now" || n == "time.Since" || strings.HasPrefix(n, "math/rand.") || strings.HasPrefix(n, "crypto/rand.") {
							o.fail(c.A.Pos(call.Pos()), "%s calls %s", FnName(f), n)
						}
					}
				}
			}
		}
	}
	return *o
}

func runC31(c *Ctx) []Obligation {
	P := "C31"
	var out []Obligation
	out = append(out, c.Rows([]Row{
		{Prop: P, ID: "claim.rejected-when-mature", Fn: fnValClaim,
			Assume: []Lit{T(`^` + kK + `ClaimIsMature\(k, ctx, claim\.SessionHeader\.SessionBlockHeight\)$`)}, Target: Success(),
			Why: "claims are refused once ClaimIsMature(ctx, session height) holds"},
		{Prop: P, ID: "index.within-count", Fn: "x/pocketcore/types.PseudorandomSelection",
			Target: RetNotMatch(0, `^\(types\.BigInt\)\.Mod\(.*, max\)$`), Why: "the selected index is a value modulo the claimed relay count"},
		{Prop: P, ID: "index.inputs", Fn: fnPseudoIdx,
			Target: RetNotMatch(0, `^\(types\.BigInt\)\.Int64\(x/pocketcore/types\.PseudorandomSelection\(types\.NewInt\(totalRelays\), x/pocketcore/types\.Hash\(encoding/json\.Marshal\((var:)?pseudoGenerator\)#0\)\)\)$`),
			Assume: []Lit{F(`^nonnil\(`)},
			Why:    "the index is a function of the generator {block hash, session header hash} and the claimed count only"},
	})...)
	out = append(out, c.entropyWindow(P), c.generatorFields(P))
	out = append(out, entropyHeight(c, P)...)
	return out
}

// entropyWindow compares the last height at which a claim is accepted with
// the height from which the selecting block hash is public.
func (c *Ctx) entropyWindow(P string) Obligation {
	o := c.obl(P, "window.closes-before-entropy", "ClaimIsMature~getPseudorandomIndex","last accepting height A (ClaimIsMature ≡ h > A) is strictly below the height P whose previous-block hash selects the leaf: A < P as polynomials over ClaimSubmissionWindow (W), BlocksPerSession (B) and the session height (S)")
	mat, idx := c.A.Fn(fnMature), c.A.Fn(fnPseudoIdx)
	if mat == nil || idx == nil {
		o.unresolved("anchors not found")
		return *o
	}
	namer := regexNamer(
		`^`+kK+`ClaimSubmissionWindow\(k, [A-Za-z]*\)$`, "W",
		`^`+kK+`BlocksPerSession\(k, [A-Za-z]*\)$`, "B",
		`^sessionBlockHeight$`, "S",
		`^header\.SessionBlockHeight$`, "S",
	)
	// A: ClaimIsMature returns (BlockHeight(ctx) > X)  ⇒ A = X
	var A poly
	for _, b := range mat.Blocks {
		r, ok := b.Instrs[len(b.Instrs)-1].(*ssa.Return)
		if !ok {
			continue
		}
		bo, ok := retOperand(r, 0).(*ssa.BinOp)
		if !ok {
			o.fail(c.A.Pos(r.Pos()), "ClaimIsMature does not return a comparison: %s", desc(retOperand(r, 0), 6))
			return *o
		}
		h, x := bo.X, bo.Y
		strict := true
		switch bo.Op {
		case token.GTR:
		case token.GEQ:
			strict = false
		case token.LSS:
			h, x = bo.Y, bo.X
		case token.LEQ:
			h, x = bo.Y, bo.X
			strict = false
		default:
			o.fail(c.A.Pos(r.Pos()), "unexpected comparison %s", bo.Op)
			return *o
		}
		if desc(h, 4) != "invoke types.Ctx.BlockHeight(ctx)" {
			o.fail(c.A.Pos(r.Pos()), "maturity does not compare the current block height (%s)", desc(h, 4))
			return *o
		}
		A = toPoly(x, namer, 0)
		if !strict { // h >= X  ⇒ last accepting height is X-1
			A = polyAdd(A, poly{"": 1}, -1)
		}
		o.Facts++
	}
	// P: argument of GetPrevBlockHash
	sites := c.callSites(idx, `^invoke types\.Ctx\.GetPrevBlockHash\(`)
	if len(sites) != 1 || A == nil {
		o.fail(c.A.FnPos(idx), "expected one GetPrevBlockHash call (found %d)", len(sites))
		return *o
	}
	Pp := toPoly(sites[0].Call.Args[0], namer, 0)
	o.Facts++
	// GetPrevBlockHash(P) is header(P).LastBlockId.Hash = hash of block P-1, public from height P on.
	diff := polyAdd(A, Pp, -1) // A - P must be a negative constant
	okNeg := len(diff) == 1 && diff[""] < 0
	if !okNeg {
		o.fail(c.A.Pos(sites[0].Ins.Pos()), "claims are accepted up to height A = %s while the selecting hash (previous-block hash of P = %s) is public from height P on: A − P = %s, not negative — at height A the servicer already knows which leaf it will have to prove", A, Pp, diff)
	}
	return *o
}

// generatorFields: the hashed generator holds the block hash obtained from
// GetPrevBlockHash and the session header's hash, nothing else.
func (c *Ctx) generatorFields(P string) Obligation {
	o := c.obl(P, "index.generator-fields", fnPseudoIdx, "the hashed generator is {hex(GetPrevBlockHash(P)), header.HashString()}")
	fn := c.A.Fn(fnPseudoIdx)
	if fn == nil {
		o.unresolved("not found")
		return *o
	}
	want := map[string]string{
		"BlockHash": `^encoding/hex\.EncodeToString\(invoke types\.Ctx\.GetPrevBlockHash\(ctx, .*\)#0\)$`,
		"Header":    `^\(x/pocketcore/types\.SessionHeader\)\.HashString\(header\)$`,
	}
	seen := map[string]bool{}
	for _, b := range fn.Blocks {
		for _, ins := range b.Instrs {
			st, ok := ins.(*ssa.Store)
			if !ok {
				continue
			}
			d := desc(st.Addr, 4)
			if !strings.Contains(d, "pseudoGenerator.") {
				continue
			}
			o.Facts++
			f := d[strings.LastIndex(d, ".")+1:]
			re, known := want[f]
			if !known {
				o.fail(c.A.Pos(st.Pos()), "unexpected generator field %s", f)
				continue
			}
			seen[f] = true
			if v := desc(st.Val, maxDepth); !reMatch(re, v) {
				o.fail(c.A.Pos(st.Pos()), "generator field %s = %s", f, v)
			}
		}
	}
	for f := range want {
		if !seen[f] {
			o.fail(c.A.FnPos(fn), "generator field %s is never set", f)
		}
	}
	return *o
}

func runC30(c *Ctx) []Obligation {
	P := "C30"
	valid := RetNot(0, "false")
	sib := `(var:)?mp\.HashRanges\[phi:i\]`
	rows := []Row{
		{Prop: P, ID: "merkle.root-lower-zero", Fn: fnMerkleVal, Assume: []Lit{F(`^eq\(0, root\.Range\.Lower\)$`)}, Target: valid, Why: "the claimed root must start at 0"},
		{Prop: P, ID: "merkle.leaf-hash", Fn: fnMerkleVal,
			Assume: []Lit{F(`^bytes\.Equal\((var:)?mp\.Target\.Hash, x/pocketcore/types\.merkleHash\(invoke x/pocketcore/types\.Proof\.Bytes\(leaf\)\)\)$`)}, Target: valid,
			Why: "the target hash must be the hash of the presented leaf"},
		{Prop: P, ID: "merkle.leaf-sum", Fn: fnMerkleVal,
			Assume: []Lit{F(`^eq\((var:)?mp\.Target\.Range\.Upper, x/pocketcore/types\.sumFromHash\((var:)?mp\.Target\.Hash\)\)$`)}, Target: valid,
			Why: "the target's upper bound must be the sum derived from its hash"},
		{Prop: P, ID: "merkle.target-range-valid", Fn: fnMerkleVal,
			Assume: []Lit{F(`^\(x/pocketcore/types\.HashRange\)\.isValidRange\((var:)?mp\.Target\)$`), T(`^lt\(phi:i, numOfLevels\)$`)}, Target: valid,
			Why: "a zero-width or inverted target range is never accepted"},
		{Prop: P, ID: "merkle.target-range-invalid-is-replay", Fn: fnMerkleVal,
			Assume: []Lit{F(`^\(x/pocketcore/types\.HashRange\)\.isValidRange\((var:)?mp\.Target\)$`), T(`^lt\(phi:i, numOfLevels\)$`), T(`^eq\(0, root\.Range\.Lower\)$`), T(`^bytes\.Equal\(`), T(`^eq\((var:)?mp\.Target\.Range\.Upper, x/pocketcore`)},
			Target: RetNot(1, "true"), Why: "and is reported as a replay"},
		{Prop: P, ID: "merkle.sibling-range-valid", Fn: fnMerkleVal,
			Assume: []Lit{F(`^\(x/pocketcore/types\.HashRange\)\.isValidRange\(` + sib + `\)$`), T(`^lt\(phi:i, numOfLevels\)$`)}, Target: valid,
			Why: "a zero-width or inverted sibling range is never accepted"},
		{Prop: P, ID: "merkle.sibling-range-invalid-is-replay", Fn: fnMerkleVal,
			Assume: []Lit{T(`^\(x/pocketcore/types\.HashRange\)\.isValidRange\((var:)?mp\.Target\)$`), F(`^\(x/pocketcore/types\.HashRange\)\.isValidRange\(` + sib + `\)$`), T(`^lt\(phi:i, numOfLevels\)$`), T(`^eq\(0, root\.Range\.Lower\)$`), T(`^bytes\.Equal\(`), T(`^eq\((var:)?mp\.Target\.Range\.Upper, x/pocketcore`)},
			Target: RetNot(1, "true"), Why: "and is reported as a replay"},
		{Prop: P, ID: "merkle.odd-contiguity", Fn: fnMerkleVal,
			Assume: []Lit{T(`^eq\(\((var:)?mp\.TargetIndex % 2\), 1\)$`), F(`^eq\(` + sib + `\.Range\.Upper, (var:)?mp\.Target\.Range\.Lower\)$`), T(`^lt\(phi:i, numOfLevels\)$`)}, Target: valid,
			Why: "a right child must start where its left sibling ends"},
		{Prop: P, ID: "merkle.even-contiguity", Fn: fnMerkleVal,
			Assume: []Lit{F(`^eq\(\((var:)?mp\.TargetIndex % 2\), 1\)$`), F(`^eq\(` + sib + `\.Range\.Lower, (var:)?mp\.Target\.Range\.Upper\)$`), T(`^lt\(phi:i, numOfLevels\)$`)}, Target: valid,
			Why: "a left child must end where its right sibling starts"},
		{Prop: P, ID: "merkle.root-equality", Fn: fnMerkleVal,
			Assume: []Lit{F(`^\(x/pocketcore/types\.HashRange\)\.Equal\(root, (var:)?mp\.Target\)$`)}, Target: valid,
			Why: "acceptance requires the recomputed root (hash and range) to equal the claimed root"},
		{Prop: P, ID: "merkle.accept-only-via-root-equal", Fn: fnMerkleVal,
			Target: RetNotMatch(0, `^false$|^\(x/pocketcore/types\.HashRange\)\.Equal\(root, (var:)?mp\.Target\)$`), Why: "the only non-false verdict is root.Equal(target)"},
		{Prop: P, ID: "merkle.odd-parent-binds-indices", Fn: fnMerkleVal,
			Assume: []Lit{T(`^eq\(\((var:)?mp\.TargetIndex % 2\), 1\)$`)},
			Target: CallTo(`^x/pocketcore/types\.parentHash\(`).Except(`^x/pocketcore/types\.parentHash\(height, ` + sib + `\.Hash, (var:)?mp\.Target\.Hash, (var:)?mp\.Target\.Range, conv<uint64>\(\((var:)?mp\.TargetIndex - 1\)\), conv<uint64>\((var:)?mp\.TargetIndex\)\)$`),
			Why:    "for a right child the parent hashes (sibling, target) with indices (i−1, i) and the merged range"},
		{Prop: P, ID: "merkle.even-parent-binds-indices", Fn: fnMerkleVal,
			Assume: []Lit{F(`^eq\(\((var:)?mp\.TargetIndex % 2\), 1\)$`)},
			Target: CallTo(`^x/pocketcore/types\.parentHash\(`).Except(`^x/pocketcore/types\.parentHash\(height, (var:)?mp\.Target\.Hash, ` + sib + `\.Hash, (var:)?mp\.Target\.Range, conv<uint64>\((var:)?mp\.TargetIndex\), conv<uint64>\(\((var:)?mp\.TargetIndex \+ 1\)\)\)$`),
			Why:    "for a left child the parent hashes (target, sibling) with indices (i, i+1) and the merged range"},
		// proof handler: replay branch
		{Prop: P, ID: "replay.reported", Fn: fnValProof,
			Assume: []Lit{F(proofValidate + `#0$`), T(proofValidate + `#1$`), T(`"REPBR"\)$`)},
			From:   proofValidate + `$`,
			Target: RetNotMatch(2, `^x/pocketcore/types\.NewReplayAttackError\(`), Why: "an invalid proof flagged as replay is reported as a replay attack (feature active)"},
		{Prop: P, ID: "replay.burns", Fn: fnProofH,
			Assume:  []Lit{T(`^nonnil\(` + kK + `ValidateProof\(k, ctx, proof\)#2\)$`), F(`^eq\(66, `), T(`^eq\(86, invoke types\.Error\.Code\(`), F(`^\(x/pocketcore/types\.MsgClaim\)\.IsEmpty\(`)},
			Barrier: []string{`^` + kK + `HandleReplayAttack\(k, ctx, ` + kK + `ValidateProof\(k, ctx, proof\)#0, types\.NewInt\(` + kK + `ValidateProof\(k, ctx, proof\)#1\.TotalProofs\)\)$`},
			Target:  TargetAnyReturn(), Why: "a detected replay burns the claimant for the claimed relay count"},
		{Prop: P, ID: "replay.deletes-claim", Fn: fnProofH,
			Assume:  []Lit{T(`^nonnil\(` + kK + `ValidateProof\(k, ctx, proof\)#2\)$`), F(`^eq\(66, `), T(`^eq\(86, invoke types\.Error\.Code\(`), F(`^\(x/pocketcore/types\.MsgClaim\)\.IsEmpty\(`)},
			Barrier: []string{`^` + kK + `DeleteClaim\(k, ctx, ` + kK + `ValidateProof\(k, ctx, proof\)#0, `},
			Target:  TargetAnyReturn(), Why: "and deletes the claim"},
	}
	// "reported as a replay": a bad sibling range has to reach MerkleProof.Validate, whose verdict the handler
	// turns into the replay burn; the stateless message checks look at the message's own root / target only
	rows = append(rows,
		Row{Prop: P, ID: "proofmsg.basic-check-judges-target-only", Fn: "(x/pocketcore/types.MsgProof).ValidateBasic",
			Target: CallTo(`isValidRange\(`).Except(`^\(x/pocketcore/types\.HashRange\)\.isValidRange\(msg\.MerkleProof\.Target\)$`),
			Why:    "the stateless proof-message check tests the range of the target only: a sibling with a zero-width range is not dropped there (it would vanish without being reported as a replay)"},
		Row{Prop: P, ID: "claimmsg.basic-check-judges-root-only", Fn: "(x/pocketcore/types.MsgClaim).ValidateBasic",
			Target: CallTo(`isValidRange\(`).Except(`^\(x/pocketcore/types\.HashRange\)\.isValidRange\(msg\.MerkleRoot\)$`),
			Why:    "the stateless claim check tests the claimed root's range only"},
	)
	out := c.Rows(rows)
	out = append(out, c.parentHashBinds(P))
	out = append(out, c.noElementAccess(P, "proofmsg.basic-check-reads-no-sibling", "(x/pocketcore/types.MsgProof).ValidateBasic", `^msg\.MerkleProof\.HashRanges$`,
		"the stateless proof-message check only counts the siblings; it never looks inside one (whatever is wrong with a sibling is for the verifier to find and report)"))
	out = append(out, c.whoMayCall(P, "range-validity.judges", "(x/pocketcore/types.HashRange).isValidRange",
		[]string{`\(x/pocketcore/types\.MerkleProof\)\.Validate`, `\(x/pocketcore/types\.Msg(Claim|Proof)\)\.ValidateBasic`},
		"range validity is judged by the verifier (where an invalid sibling means replay) and by the two stateless message checks (root / target only)"))
	out = append(out, merkleFolding(c, P)...)
	return out
}

// parentHashBinds: after the codec upgrade the hashed buffer of parentHash
// includes both hashes, both indices and the range.
func (c *Ctx) parentHashBinds(P string) Obligation {
	const f = "x/pocketcore/types.parentHash"
	o := c.obl(P, "parentHash.binds-index-and-range", f, "after the codec upgrade parentHash = hash(hash1 ‖ hash2 ‖ bytes(index1,index2) ‖ range.Bytes())")
	fn := c.A.Fn(f)
	if fn == nil {
		o.unresolved("not found")
		return *o
	}
	row := Row{Fn: f, Assume: []Lit{T(`IsAfterCodecUpgrade\(`)},
		Target: CallTo(`^x/pocketcore/types\.merkleHash\(`).Except(`^x/pocketcore/types\.merkleHash\(x/pocketcore/types\.MultiAppend\([^,]*, \[hash1, hash2, x/pocketcore/types\.uint64ToBytes\(index1, index2\), \(x/pocketcore/types\.Range\)\.Bytes\(r\)\]\)\)$`)}
	r := c.E1.eval(fn, &row)
	o.Facts = r.facts
	if !r.ok {
		o.fail(c.A.Pos(r.hit.Pos()), "post-upgrade parent hash is %s", r.hitDesc)
	} else if r.matched[0] == 0 {
		o.fail(c.A.FnPos(fn), "no codec-upgrade branch found in parentHash")
	}
	return *o
}

// noElementAccess: in fn, the slice rendering as sliceRe is never indexed, ranged over or re-sliced
// (taking its length is allowed).
func (c *Ctx) noElementAccess(P, rule, fnName, sliceRe, why string) Obligation {
	o := c.obl(P, rule, fnName, "in "+fnName+" no element of "+sliceRe+" is read — "+why)
	fn := c.A.Fn(fnName)
	if fn == nil {
		o.unresolved("not found")
		return *o
	}
	o.Pos = c.A.FnPos(fn)
	re := c.E1.re(sliceRe)
	uses := 0
	for _, b := range fn.Blocks {
		for _, ins := range b.Instrs {
			var base ssa.Value
			switch x := ins.(type) {
			case *ssa.IndexAddr:
				base = x.X
			case *ssa.Index:
				base = x.X
			case *ssa.Slice:
				base = x.X
			case *ssa.Range:
				base = x.X
			case *ssa.Call:
				if bi, ok := x.Call.Value.(*ssa.Builtin); ok && bi.Name() == "len" && len(x.Call.Args) == 1 && re.MatchString(desc(x.Call.Args[0], maxDepth)) {
					uses++
				}
				// handing the whole slice to another function is reading its elements elsewhere
				if _, isB := x.Call.Value.(*ssa.Builtin); !isB {
					for _, a := range x.Call.Args {
						if re.MatchString(desc(a, maxDepth)) {
							o.fail(c.A.Pos(x.Pos()), "%s is handed to %s", desc(a, 4), calleeName(&x.Call))
						}
					}
				}
				continue
			default:
				continue
			}
			o.Facts++
			if re.MatchString(desc(base, maxDepth)) {
				o.fail(c.A.Pos(ins.Pos()), "an element of %s is read (%T)", desc(base, 4), ins)
			}
		}
	}
	if uses == 0 {
		o.unresolved("%s does not mention a slice rendering as %s any more", fnName, sliceRe)
	}
	return *o
}

// sessionContextRoles (C33, C13): a session is computed from two states with distinct roles — the
// session-start state (candidates per chain, parameters) and a later reference state (the current record
// of each drawn node, the height-gated rules). Each read uses the context of its role, the two are never
// the same context, and they are handed down unswapped.
func (c *Ctx) sessionContextRoles(P string) []Obligation {
	var out []Obligation
	out = append(out, c.Rows([]Row{
		{Prop: P, ID: "roles.newsession-hands-both-down", Fn: "x/pocketcore/types.NewSession",
			Target: CallTo(`^x/pocketcore/types\.NewSessionNodes\(`).Except(`^x/pocketcore/types\.NewSessionNodes\(sessionCtx, ctx, keeper, sessionHeader\.Chain, x/pocketcore/types\.NewSessionKey\(sessionHeader\.ApplicationPubKey, sessionHeader\.Chain, blockHash\)#0, sessionNodesCount\)$`),
			Why:    "node selection gets the session-start context first and the reference context second, with the key derived from this header and block hash"},
		{Prop: P, ID: "roles.keeper-reads", Fn: fnSessNodes,
			Target: CallTo(`^invoke x/pocketcore/types\.PosKeeper\.`).Except(`^invoke x/pocketcore/types\.PosKeeper\.(MaxChains\(keeper, sessionCtx\)|GetValidatorsByChain\(keeper, sessionCtx, chain\)|Validator\(keeper, ctx, .*\))$`),
			Why:    "candidates and the chain limit come from the session-start state; each drawn node's record comes from the reference state"},
		{Prop: P, ID: "roles.height-gate-at-reference-height", Fn: fnSessNodes,
			Target: CallTo(`IsAfter\w+\(|IsOn\w+\(`).Except(`^\(\*codec\.Codec\)\.IsAfterEnforceMaxChainsUpgrade\(x/pocketcore/types\.ModuleCdc, invoke types\.Ctx\.BlockHeight\(ctx\)\)$`),
			Why:    "whether the chain limit is in force is decided at the reference height (as the sibling checks in relay validation and claim validation do), not at the session's first block"},
	})...)
	// every call site: two different contexts, the first one a historical context
	n := 0
	var fns []*ssa.Function
	for fn := range c.A.AllFns {
		if fn.Blocks != nil {
			fns = append(fns, fn)
		}
	}
	sort.Slice(fns, func(i, j int) bool { return FnName(fns[i]) < FnName(fns[j]) })
	for _, fn := range fns {
		for _, st := range c.callSites(fn, `^x/pocketcore/types\.NewSession\(`) {
			if len(st.Call.Args) < 2 {
				continue
			}
			n++
			o := c.obl(P, "roles.call-site-two-states", FnName(fn), "in "+FnName(fn)+" the session is built from a historical session-start context and a different reference context")
			o.Pos = c.A.Pos(st.Ins.Pos())
			o.Facts = 2
			a0, a1 := desc(st.Call.Args[0], maxDepth), desc(st.Call.Args[1], maxDepth)
			if a0 == a1 {
				o.fail(o.Pos, "both contexts are %s: the node records are then read from the session-start state, so a node jailed, edited or unstaked since is still selected (and the result is cached for claim validation)", a0)
			}
			if !strings.Contains(a0, "PrevCtx(") {
				o.fail(o.Pos, "the session-start context %s is not a historical context obtained from PrevCtx", a0)
			} else if !regexp.MustCompile(`^invoke types\.Ctx\.PrevCtx\(ctx, ([\w.:]*[sS]essionBlockHeight|\(x/pocketcore/keeper\.Keeper\)\.GetLatestSessionBlockHeight\(k, ctx\))\)#0$`).MatchString(a0) {
				o.fail(o.Pos, "the first context %s is not the context of the session's first block (PrevCtx at the session block height itself): the two roles may be exchanged", a0)
			}
			out = append(out, *o)
		}
	}
	if n < 4 {
		o := c.obl(P, "roles.call-site-two-states", "x/pocketcore/types.NewSession", "call sites of NewSession")
		o.unresolved("%d call sites of NewSession found, 4 confirmed by reading", n)
		out = append(out, *o)
	}
	return out
}

// claimDeletedUnderLookupKey (C32): a claim is stored and looked up under (address, header, evidence
// type); "rewarded at most once" needs the claim that was looked up and paid to be the claim that is
// deleted. Either ExecuteProof deletes under the evidence type of the claim / proof message it was given,
// or some check before it ties the message's evidence type to the kind of leaf ExecuteProof switches on.
func (c *Ctx) claimDeletedUnderLookupKey(P string) Obligation {
	const fnExec = "(x/pocketcore/keeper.Keeper).ExecuteProof"
	o := c.obl(P, "proof.claim-deleted-under-its-own-key", fnExec, "the claim ExecuteProof pays is deleted under the key it was found under: every DeleteClaim there names the claim's / message's evidence type, OR ValidateProof / MsgProof.ValidateBasic reject a message whose evidence type disagrees with the kind of its leaf")
	fn := c.A.Fn(fnExec)
	if fn == nil {
		o.unresolved("not found")
		return *o
	}
	o.Pos = c.A.FnPos(fn)
	sites := c.callSites(fn, `^\(x/pocketcore/keeper\.Keeper\)\.DeleteClaim\(`)
	if len(sites) == 0 {
		o.unresolved("ExecuteProof deletes no claim any more: anchor does not resolve")
		return *o
	}
	var bad []site
	for _, st := range sites {
		o.Facts++
		if len(st.Call.Args) < 5 {
			continue
		}
		d := desc(st.Call.Args[4], maxDepth)
		if !regexp.MustCompile(`^(var:)?(claim|proof)\.EvidenceType$`).MatchString(d) {
			bad = append(bad, st)
		}
	}
	if len(bad) == 0 {
		return *o
	}
	// the alternative: a guard that compares the evidence type with the leaf
	for _, g := range []string{"(x/pocketcore/keeper.Keeper).ValidateProof", "(x/pocketcore/types.MsgProof).ValidateBasic"} {
		gf := c.A.Fn(g)
		if gf == nil {
			continue
		}
		for _, b := range gf.Blocks {
			iff, ok := b.Instrs[len(b.Instrs)-1].(*ssa.If)
			if !ok {
				continue
			}
			o.Facts++
			a := condAtom(iff.Cond).Str
			if strings.HasPrefix(a, "eq(") && strings.Contains(a, "EvidenceType") && (strings.Contains(a, "Leaf") || strings.Contains(a, "leaf")) {
				o.Detail = "guarded in " + g + ": " + a
				return *o
			}
		}
	}
	for _, st := range bad {
		o.fail(c.A.Pos(st.Ins.Pos()), "%s deletes under a fixed evidence type, while the claim was looked up under the message's: a claim filed under the other type is paid and stays in state, and every further proof message is paid again", st.Desc)
	}
	return *o
}
