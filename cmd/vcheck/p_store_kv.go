package main

// C01 (cache-wrapped KV store is an overlay of its parent) and C02 (prefix views
// are isolated): the clauses whose truth is in the shape of the code.

func init() {
	register(&Prop{
		ID: "C01", Title: "Cache-wrapped KV store is an exact overlay of its parent",
		Technique: "who-may-call and map-writer tables over store/cachekv; pruned-CFG rows on Write, Get, iterator and the merge iterator's case analysis (shadowing, delete skipping, direction agreement); per-branch must-call obligations in the flush loop",
		DesignRef: "DESIGN.md §3 C01",
		Explanation: "The parent is mutated only by Write (so a discarded cache leaves it untouched); Write flushes in sorted order, deletes exactly the entries marked deleted, sets exactly the dirty non-nil ones with their own key and value, and skips clean entries; pending entries are created only by setCacheValue with the flags Set (dirty), Delete (deleted, dirty) and the read-through fill of Get (clean) pass; a hit never consults the parent, a miss reads the parent under the same key; Has is Get != nil; iteration asks the parent in the requested direction over the same bounds, merges the dirty items first, and hands the same direction to both iterators; in the merge iterator the cache shadows the parent on equal keys, the smaller key (in iteration order) is served first, Next advances exactly the iterator(s) that were served, and deleted entries are skipped together with the parent entry they shadow; nested wraps take the wrapping store as their parent.",
		NotDecided:  "equality with a map-overlay model over arbitrary histories (the sorted dirty-item list, memIterator's domain scan and writes made while an iterator is open are value-level); only the listed necessary conditions are decided.",
		MinObl:      40,
		Run:         runC01,
	})
	register(&Prop{
		ID: "C02", Title: "Prefix views are isolated and iterate their own keyspace",
		Technique: "pruned-CFG rows over store/prefix: every parent operation takes a key or bound built from the store's prefix; iterator validity is tied to bytes.HasPrefix at construction and in Next; keys are returned stripped",
		DesignRef: "DESIGN.md §3 C02",
		Explanation: "Every key or bound handed to the parent by Get/Has/Set/Delete/Iterator/ReverseIterator is key(k)=cloneAppend(prefix,k), cloneAppend(prefix,bound) or, for an open end, cpIncr(prefix)=PrefixEndBytes(prefix); cloneAppend copies the prefix then the tail into a fresh slice of the summed length; the prefix iterator is valid at construction only if the parent is and its key has the prefix, becomes invalid in Next as soon as the parent is exhausted or leaves the prefix, refuses Key/Value/Next when invalid, returns keys with exactly the prefix removed and values untouched; forward and reverse iteration differ only in the parent call.",
		NotDecided:  "PrefixEndBytes' arithmetic on 0xFF tails and ordering of results (value-level).",
		MinObl:      24,
		Run:         runC02,
	})
}

func runC01(c *Ctx) []Obligation {
	P := "C01"
	S := "(*store/cachekv.Store)."
	M := "(*store/cachekv.cacheMergeIterator)."
	pkg := "store/cachekv"
	var out []Obligation
	// ---- the parent is written only by Write
	out = append(out,
		c.callsOnlyIn(P, "parent.written-only-by-Write", pkg, `^invoke store/types\.KVStore\.(Set|Delete)\(store\.parent, `, []string{S + "Write"}, 2, "reads, iteration and discarding a cache never change the parent"),
		c.mapWriters(P, "pending.created-only-by-setCacheValue", pkg, `^store\.cache$`, []string{S + "setCacheValue"}, "the pending-entry map is filled through one function"),
		c.mapWriters(P, "unsorted.touched-only-by-set-and-merge", pkg, `^store\.unsortedCache$`, []string{S + "setCacheValue", S + "dirtyItems"}, "keys awaiting the sorted merge are added on a dirty write and removed when merged"),
		c.fieldTable(P, "parent.set-once", pkg, "Store", "parent", false, []string{`store/cachekv\.NewStore`}, "a cache store never changes its parent"),
		c.sharedImmutable(P, "dirty-items.replaced-not-updated", pkg, "github.com/tendermint/tendermint/libs/kv", "Pair", "an open iterator keeps pointers to the dirty items it was built from; a later write must not show through it"),
	)
	key := `phi:keys\[\(phi:rangeindex \+ 1\)\]`
	ent := `store\.cache\[` + key + `\]`
	out = append(out, c.Rows([]Row{
		// ---- Write
		{Prop: P, ID: "write.sorted-before-flush", Fn: S + "Write", Barrier: []string{`^sort\.Strings\(phi:keys\)`},
			Target: CallTo(`^invoke store/types\.KVStore\.(Set|Delete)\(store\.parent, `), TargetMustExist: true, Why: "the flush order is the sorted key order, not map order"},
		{Prop: P, ID: "write.only-dirty-collected", Fn: S + "Write", Assume: []Lit{F(`^next\(range\(store\.cache\)\)#2\.dirty$`)},
			Target: CallTo(`^builtin\.append\(phi:keys`), TargetMustExist: true, Why: "entries that were only read are not flushed"},
		{Prop: P, ID: "write.delete-only-if-deleted", Fn: S + "Write", Assume: []Lit{F(`^` + ent + `\.deleted$`)},
			Target: CallTo(`^invoke store/types\.KVStore\.Delete\(store\.parent, `), TargetMustExist: true, Why: "the parent loses only keys whose pending entry is a delete"},
		{Prop: P, ID: "write.set-only-if-not-deleted", Fn: S + "Write", Assume: []Lit{T(`^` + ent + `\.deleted$`)},
			Target: CallTo(`^invoke store/types\.KVStore\.Set\(store\.parent, `), TargetMustExist: true, Why: "a pending delete is never written as a value"},
		{Prop: P, ID: "write.set-only-non-nil", Fn: S + "Write", Assume: []Lit{F(`^nonnil\(` + ent + `\.value\)$`)},
			Target: CallTo(`^invoke store/types\.KVStore\.Set\(store\.parent, `), Why: "a pending nil value (absent in the parent) is not written"},
		{Prop: P, ID: "write.delete-operands", Fn: S + "Write",
			Target: CallTo(`^invoke store/types\.KVStore\.Delete\(store\.parent, `).Except(`^invoke store/types\.KVStore\.Delete\(store\.parent, conv<\[\]byte>\(` + key + `\)\)$`), Why: "the deleted key is the entry's own key"},
		{Prop: P, ID: "write.set-operands", Fn: S + "Write",
			Target: CallTo(`^invoke store/types\.KVStore\.Set\(store\.parent, `).Except(`^invoke store/types\.KVStore\.Set\(store\.parent, conv<\[\]byte>\(` + key + `\), ` + ent + `\.value\)$`), Why: "the written key and value are the entry's own"},
		// ---- Set / Delete / Get / Has
		{Prop: P, ID: "set.marks-dirty", Fn: S + "Set", Barrier: []string{`^\(\*store/cachekv\.Store\)\.setCacheValue\(store, key, value, false, true\)`}, Target: Success(), Why: "Set records (key, value) as a dirty, non-deleted pending entry"},
		{Prop: P, ID: "delete.marks-deleted-dirty", Fn: S + "Delete", Barrier: []string{`^\(\*store/cachekv\.Store\)\.setCacheValue\(store, key, nil, true, true\)`}, Target: Success(), Why: "Delete records the key as a dirty pending delete"},
		{Prop: P, ID: "setCacheValue.entry-value", Fn: S + "setCacheValue",
			Target: StoreTo(`^var:complit\.value$`).ExceptVal(`^value$`), Why: "the pending entry records the value it was given"},
		{Prop: P, ID: "setCacheValue.entry-deleted", Fn: S + "setCacheValue",
			Target: StoreTo(`^var:complit\.deleted$`).ExceptVal(`^deleted$`), Why: "the pending entry records the deleted flag it was given"},
		{Prop: P, ID: "setCacheValue.entry-dirty", Fn: S + "setCacheValue",
			Target: StoreTo(`^var:complit\.dirty$`).ExceptVal(`^dirty$`), Why: "the pending entry records the dirty flag it was given"},
		{Prop: P, ID: "setCacheValue.records-under-key", Fn: S + "setCacheValue", Barrier: []string{`mapset:^store\.cache\[conv<string>\(key\)\] = &var:complit$`}, Target: TargetAnyReturn(), Why: "the entry is recorded under the caller's key"},
		{Prop: P, ID: "get.hit-does-not-read-parent", Fn: S + "Get", Assume: []Lit{T(`^store\.cache\[conv<string>\(key\)\]#1$`)},
			Target: CallTo(`^invoke store/types\.KVStore\.`), Why: "a pending entry shadows the parent"},
		{Prop: P, ID: "get.miss-reads-parent-same-key", Fn: S + "Get",
			Target: CallTo(`^invoke store/types\.KVStore\.`).Except(`^invoke store/types\.KVStore\.Get\(store\.parent, key\)$`), Why: "a miss reads the parent under the caller's key"},
		{Prop: P, ID: "get.fill-is-clean", Fn: S + "Get",
			Target: CallTo(`setCacheValue\(`).Except(`^\(\*store/cachekv\.Store\)\.setCacheValue\(store, key, var:value, false, false\)$`), Why: "the read-through fill is neither dirty nor deleted, so Write never flushes it"},
		{Prop: P, ID: "has.is-get-non-nil", Fn: S + "Has",
			Target: RetNotMatch(0, `^\(\(\*store/cachekv\.Store\)\.Get\(store, key\)#0 != nil\)$`), Why: "existence is decided by the overlay read"},
		{Prop: P, ID: "wrap.nested-parent-is-self", Fn: S + "CacheWrap",
			Target: RetNotMatch(0, `^store/cachekv\.NewStore\(store\)$`), Why: "a nested wrap overlays this store"},
		// ---- iterator construction
		{Prop: P, ID: "iter.ascending-uses-forward-parent", Fn: S + "iterator", Assume: []Lit{T(`^ascending$`)},
			Target: CallTo(`^invoke store/types\.KVStore\.ReverseIterator\(`), Why: "direction agreement"},
		{Prop: P, ID: "iter.descending-uses-reverse-parent", Fn: S + "iterator", Assume: []Lit{F(`^ascending$`)},
			Target: CallTo(`^invoke store/types\.KVStore\.Iterator\(`), Why: "direction agreement"},
		{Prop: P, ID: "iter.parent-bounds", Fn: S + "iterator",
			Target: CallTo(`^invoke store/types\.KVStore\.(Reverse)?Iterator\(`).Except(`^invoke store/types\.KVStore\.(Reverse)?Iterator\(store\.parent, start, end\)$`), Why: "the parent is iterated over the caller's bounds"},
		{Prop: P, ID: "iter.dirty-merged-first", Fn: S + "iterator", Barrier: []string{`^\(\*store/cachekv\.Store\)\.dirtyItems\(store, start, end\)`},
			Target: CallTo(`^store/cachekv\.newMemIterator\(`), TargetMustExist: true, Why: "pending writes in range are moved into the sorted list before it is snapshotted"},
		{Prop: P, ID: "iter.mem-operands", Fn: S + "iterator",
			Target: CallTo(`^store/cachekv\.newMemIterator\(`).Except(`^store/cachekv\.newMemIterator\(start, end, store\.sortedCache, ascending\)$`), Why: "the pending-side iterator covers the same bounds and direction"},
		{Prop: P, ID: "iter.merge-operands", Fn: S + "iterator",
			Target: CallTo(`^store/cachekv\.newCacheMergeIterator\(`).Except(`^store/cachekv\.newCacheMergeIterator\(phi:parent, store/cachekv\.newMemIterator\(start, end, store\.sortedCache, ascending\), ascending\)$`), Why: "parent first, pending second, same direction"},
	})...)
	out = append(out,
		c.edgeMust(P, "write.deleted-entries-are-deleted", S+"Write", `^`+ent+`\.deleted$`, true, `^invoke store/types\.KVStore\.Delete\(store\.parent, `, 1, "every dirty entry marked deleted is deleted in the parent"),
		c.edgeMust(P, "write.live-entries-are-set", S+"Write", `^nonnil\(`+ent+`\.value\)$`, true, `^invoke store/types\.KVStore\.Set\(store\.parent, `, 1, "every dirty live entry is written to the parent"),
		c.edgeMust(P, "write.dirty-entries-are-collected", S+"Write", `^next\(range\(store\.cache\)\)#2\.dirty$`, true, `^builtin\.append\(phi:keys, \[next\(range\(store\.cache\)\)#1\]\)`, 1, "every dirty entry's key is collected for the flush"),
		c.edgeMust(P, "setCacheValue.dirty-keys-await-merge", S+"setCacheValue", `^dirty$`, true, `mapset:^store\.unsortedCache\[conv<string>\(key\)\] = `, 1, "a dirty write is queued for the next sorted merge"),
		c.edgeMust(P, "dirtyItems.in-domain-keys-collected", S+"dirtyItems", `^github\.com/tendermint/tm-db\.IsKeyInDomain\(conv<\[\]byte>\(next\(range\(store\.unsortedCache\)\)#1\), start, end\)$`, true, `^builtin\.append\(`, 1, "every pending key inside the iteration domain is collected for the merge"),
		c.edgeMust(P, "dirtyItems.collected-keys-leave-the-pending-set", S+"dirtyItems", `^github\.com/tendermint/tm-db\.IsKeyInDomain\(conv<\[\]byte>\(next\(range\(store\.unsortedCache\)\)#1\), start, end\)$`, true, `^builtin\.delete\(store\.unsortedCache, next\(range\(store\.unsortedCache\)\)#1\)`, 1, "and is taken out of the pending set (it now lives in the sorted list)"),
		c.edgeMust(P, "dirtyItems.smaller-key-inserted-before", S+"dirtyItems", `^eq\(-1, bytes\.Compare\(var:unsorted\[0\]\.Key, assert<\*github\.com/tendermint/tendermint/libs/kv\.Pair>\(phi:e\.Value\)\.Key\)\)$`, true, `^\(\*container/list\.List\)\.InsertBefore\(store\.sortedCache, var:unsorted\[0\], phi:e\)`, 1, "a collected key smaller than the current list element is inserted before it"),
		c.edgeMust(P, "dirtyItems.leftovers-appended", S+"dirtyItems", `^lt\(\(phi:rangeindex \+ 1\), builtin\.len\(`, true, `^\(\*container/list\.List\)\.PushBack\(store\.sortedCache, `, 1, "collected keys beyond the end of the list are appended"),
		c.edgeMust(P, "skipdeletes.unbounded-skips-every-delete", "(*store/cachekv.cacheMergeIterator).skipCacheDeletes", `^nonnil\(until\)$`, false, `^invoke store/types\.Iterator\.Next\(iter\.cache\)`, 1, "without a bound every pending delete marker is skipped"),
		c.edgeMust(P, "skipdeletes.bounded-skips-below-bound", "(*store/cachekv.cacheMergeIterator).skipCacheDeletes", `^lt\(\(\*store/cachekv\.cacheMergeIterator\)\.compare\(iter, invoke store/types\.Iterator\.Key\(iter\.cache\), until\), 0\)$`, true, `^invoke store/types\.Iterator\.Next\(iter\.cache\)`, 1, "a delete marker below the bound is skipped"),
		c.edgeMust(P, "skip.delete-marker-is-consumed", "(*store/cachekv.cacheMergeIterator).skipUntilExistsOrInvalid", `^nonnil\(invoke store/types\.Iterator\.Value\(iter\.cache\)\)$`, false, `^invoke store/types\.Iterator\.Next\(iter\.cache\) || ^\(\*store/cachekv\.cacheMergeIterator\)\.skipCacheDeletes\(iter, invoke store/types\.Iterator\.Key\(iter\.parent\)\)`, 2, "wherever the current pending entry is a delete marker it is consumed before the loop goes round (otherwise the loop never ends or the marker surfaces)"),
	)
	// ---- merge iterator
	pV, cV := `^invoke store/types\.Iterator\.Valid\(iter\.parent\)$`, `^invoke store/types\.Iterator\.Valid\(iter\.cache\)$`
	cmp := `\(\*store/cachekv\.cacheMergeIterator\)\.compare\(iter, invoke store/types\.Iterator\.Key\(iter\.parent\), invoke store/types\.Iterator\.Key\(iter\.cache\)\)`
	lt, eq, gt := `^eq\(`+cmp+`, -1\)$`, `^eq\(`+cmp+`, 0\)$`, `^eq\(`+cmp+`, 1\)$`
	pVal, cVal := `^invoke store/types\.Iterator\.Value\(iter\.parent\)$`, `^invoke store/types\.Iterator\.Value\(iter\.cache\)$`
	pKey, cKey := `^invoke store/types\.Iterator\.Key\(iter\.parent\)$`, `^invoke store/types\.Iterator\.Key\(iter\.cache\)$`
	pNext, cNext := `^invoke store/types\.Iterator\.Next\(iter\.parent\)`, `^invoke store/types\.Iterator\.Next\(iter\.cache\)`
	cNil := `^nonnil\(invoke store/types\.Iterator\.Value\(iter\.cache\)\)$`
	both := []Lit{T(pV), T(cV)}
	with := func(ls ...Lit) []Lit { return append(append([]Lit{}, both...), ls...) }
	out = append(out, c.Rows([]Row{
		{Prop: P, ID: "merge.value.parent-exhausted", Fn: M + "Value", Assume: []Lit{F(pV)}, Target: RetNotMatch(0, cVal), Why: "only pending entries remain"},
		{Prop: P, ID: "merge.value.cache-exhausted", Fn: M + "Value", Assume: []Lit{T(pV), F(cV)}, Target: RetNotMatch(0, pVal), Why: "only parent entries remain"},
		{Prop: P, ID: "merge.value.parent-first", Fn: M + "Value", Assume: with(T(lt)), Target: RetNotMatch(0, pVal), Why: "the parent's key comes first: its value is served"},
		{Prop: P, ID: "merge.value.shadowed", Fn: M + "Value", Assume: with(F(lt), T(eq)), Target: RetNotMatch(0, cVal), Why: "on equal keys the pending value shadows the parent's"},
		{Prop: P, ID: "merge.value.cache-first", Fn: M + "Value", Assume: with(F(lt), F(eq), T(gt)), Target: RetNotMatch(0, cVal), Why: "the pending key comes first: its value is served"},
		{Prop: P, ID: "merge.key.parent-exhausted", Fn: M + "Key", Assume: []Lit{F(pV)}, Target: RetNotMatch(0, cKey), Why: "only pending entries remain"},
		{Prop: P, ID: "merge.key.cache-exhausted", Fn: M + "Key", Assume: []Lit{T(pV), F(cV)}, Target: RetNotMatch(0, pKey), Why: "only parent entries remain"},
		{Prop: P, ID: "merge.key.parent-first", Fn: M + "Key", Assume: with(T(lt)), Target: RetNotMatch(0, pKey), Why: "the smaller key in iteration order is served"},
		{Prop: P, ID: "merge.key.cache-first", Fn: M + "Key", Assume: with(F(lt), F(eq), T(gt)), Target: RetNotMatch(0, cKey), Why: "the smaller key in iteration order is served"},
		{Prop: P, ID: "merge.next.parent-exhausted", Fn: M + "Next", Assume: []Lit{F(pV)}, Barrier: []string{cNext}, Target: TargetAnyReturn(), Why: "advance the pending side"},
		{Prop: P, ID: "merge.next.parent-exhausted.only-cache", Fn: M + "Next", Assume: []Lit{F(pV)}, Target: CallTo(pNext), Why: "an exhausted parent is not advanced"},
		{Prop: P, ID: "merge.next.cache-exhausted", Fn: M + "Next", Assume: []Lit{T(pV), F(cV)}, Barrier: []string{pNext}, Target: TargetAnyReturn(), Why: "advance the parent side"},
		{Prop: P, ID: "merge.next.cache-exhausted.only-parent", Fn: M + "Next", Assume: []Lit{T(pV), F(cV)}, Target: CallTo(cNext), Why: "an exhausted pending side is not advanced"},
		{Prop: P, ID: "merge.next.parent-first", Fn: M + "Next", Assume: with(T(lt)), Barrier: []string{pNext}, Target: TargetAnyReturn(), Why: "the served side advances"},
		{Prop: P, ID: "merge.next.parent-first.only-parent", Fn: M + "Next", Assume: with(T(lt)), Target: CallTo(cNext), Why: "the pending entry that was not served stays"},
		{Prop: P, ID: "merge.next.equal.parent", Fn: M + "Next", Assume: with(F(lt), T(eq)), Barrier: []string{pNext}, Target: TargetAnyReturn(), Why: "on equal keys both sides advance"},
		{Prop: P, ID: "merge.next.equal.cache", Fn: M + "Next", Assume: with(F(lt), T(eq)), Barrier: []string{cNext}, Target: TargetAnyReturn(), Why: "on equal keys both sides advance"},
		{Prop: P, ID: "merge.next.cache-first", Fn: M + "Next", Assume: with(F(lt), F(eq), T(gt)), Barrier: []string{cNext}, Target: TargetAnyReturn(), Why: "the served side advances"},
		{Prop: P, ID: "merge.next.cache-first.only-cache", Fn: M + "Next", Assume: with(F(lt), F(eq), T(gt)), Target: CallTo(pNext), Why: "the parent entry that was not served stays"},
		// skipUntilExistsOrInvalid
		{Prop: P, ID: "skip.parent-exhausted", Fn: M + "skipUntilExistsOrInvalid", Assume: []Lit{F(pV)}, Barrier: []string{`^\(\*store/cachekv\.cacheMergeIterator\)\.skipCacheDeletes\(iter, nil\)`}, Target: TargetAnyReturn(), Why: "trailing pending deletes are skipped before validity is reported"},
		{Prop: P, ID: "skip.equal-delete-not-surfaced", Fn: M + "skipUntilExistsOrInvalid", Assume: with(F(lt), T(eq), F(cNil)), Target: RetNot(0, "false"), Why: "a parent entry shadowed by a pending delete is never reported as the current item"},
		{Prop: P, ID: "skip.equal-delete-advances-parent-too", Fn: M + "skipUntilExistsOrInvalid", Assume: with(F(lt), T(eq), F(cNil)), Barrier: []string{pNext}, Target: CallTo(cNext), TargetMustExist: true, Why: "the shadowed parent entry is dropped together with the delete marker"},
		{Prop: P, ID: "skip.cache-first-delete-not-surfaced", Fn: M + "skipUntilExistsOrInvalid", Assume: with(F(lt), F(eq), T(gt), F(cNil)), Target: RetNot(0, "false"), Why: "a pending delete of a key the parent does not have at this position is never the current item"},
		{Prop: P, ID: "skip.cache-first-delete-keeps-parent", Fn: M + "skipUntilExistsOrInvalid", Assume: with(F(lt), F(eq), T(gt), F(cNil)), Target: CallTo(pNext), Why: "skipping delete markers below the parent key does not consume the parent entry"},
		{Prop: P, ID: "skip.cache-first-delete-bounded", Fn: M + "skipUntilExistsOrInvalid",
			Target: CallTo(`skipCacheDeletes\(`).Except(`^\(\*store/cachekv\.cacheMergeIterator\)\.skipCacheDeletes\(iter, (nil|invoke store/types\.Iterator\.Key\(iter\.parent\))\)$`), Why: "delete markers are skipped only up to the parent's current key"},
		// skipCacheDeletes
		{Prop: P, ID: "skipdeletes.only-deletes", Fn: M + "skipCacheDeletes", Assume: []Lit{T(cNil)}, Target: CallTo(cNext), TargetMustExist: true, Why: "a live pending entry is never skipped"},
		{Prop: P, ID: "skipdeletes.only-valid", Fn: M + "skipCacheDeletes", Assume: []Lit{F(cV)}, Target: CallTo(cNext), Why: "an exhausted iterator is not advanced"},
		{Prop: P, ID: "skipdeletes.bounded", Fn: M + "skipCacheDeletes", Assume: []Lit{T(`^nonnil\(until\)$`), F(`^lt\(\(\*store/cachekv\.cacheMergeIterator\)\.compare\(iter, invoke store/types\.Iterator\.Key\(iter\.cache\), until\), 0\)$`)}, Target: CallTo(cNext), Why: "markers at or beyond the bound are kept"},
		{Prop: P, ID: "mem.next.ascending-advances", Fn: "(*store/cachekv.memIterator).Next", Assume: []Lit{T(`^mi\.ascending$`)}, Barrier: []string{`store:^mi\.items = mi\.items\[1:\]$`}, Target: TargetAnyReturn(), Why: "Next really moves on (ascending)"},
		{Prop: P, ID: "mem.next.descending-advances", Fn: "(*store/cachekv.memIterator).Next", Assume: []Lit{F(`^mi\.ascending$`)}, Barrier: []string{`store:^mi\.items = mi\.items\[:\(builtin\.len\(mi\.items\) - 1\)\]$`}, Target: TargetAnyReturn(), Why: "Next really moves on (descending)"},
		{Prop: P, ID: "merge.next.settles-first", Fn: M + "Next", Barrier: []string{`^\(\*store/cachekv\.cacheMergeIterator\)\.skipUntilExistsOrInvalid\(iter\)`}, Target: CallTo(`^invoke store/types\.Iterator\.`), TargetMustExist: true, Why: "pending deletes are skipped before the two sides are compared"},
		{Prop: P, ID: "merge.key.settles-first", Fn: M + "Key", Barrier: []string{`^\(\*store/cachekv\.cacheMergeIterator\)\.skipUntilExistsOrInvalid\(iter\)`}, Target: CallTo(`^invoke store/types\.Iterator\.`), TargetMustExist: true, Why: "pending deletes are skipped before the two sides are compared"},
		{Prop: P, ID: "merge.value.settles-first", Fn: M + "Value", Barrier: []string{`^\(\*store/cachekv\.cacheMergeIterator\)\.skipUntilExistsOrInvalid\(iter\)`}, Target: CallTo(`^invoke store/types\.Iterator\.`), TargetMustExist: true, Why: "pending deletes are skipped before the two sides are compared"},
		{Prop: P, ID: "write.cache-reset", Fn: S + "Write", Barrier: []string{`store:^store\.cache = makemap$`}, Target: TargetAnyReturn(), Why: "after the flush the pending entries are dropped (a second Write re-applies nothing)"},
		{Prop: P, ID: "write.pending-set-reset", Fn: S + "Write", Barrier: []string{`store:^store\.unsortedCache = makemap$`}, Target: TargetAnyReturn(), Why: "and so is the set of keys awaiting the merge"},
		{Prop: P, ID: "write.sorted-list-reset", Fn: S + "Write", Barrier: []string{`store:^store\.sortedCache = container/list\.New\(\)$`}, Target: TargetAnyReturn(), Why: "and the sorted list iterators read"},
		{Prop: P, ID: "dirtyItems.sorted-before-merge", Fn: S + "dirtyItems", Barrier: []string{`^sort\.Slice\(var:unsorted, `}, Target: CallTo(`InsertBefore\(|PushBack\(`), TargetMustExist: true, Why: "the collected keys are sorted before they are merged into the sorted list"},
		{Prop: P, ID: "dirtyItems.domain-is-the-iterators", Fn: S + "dirtyItems", Target: CallTo(`IsKeyInDomain\(`).Except(`^github\.com/tendermint/tm-db\.IsKeyInDomain\(conv<\[\]byte>\(next\(range\(store\.unsortedCache\)\)#1\), start, end\)$`), Why: "a pending key is tested against [start, end) of this iteration, in that order"},
		{Prop: P, ID: "iterator.merges-pending-first", Fn: S + "iterator", Barrier: []string{`^\(\*store/cachekv\.Store\)\.dirtyItems\(store, start, end\)`}, Target: CallTo(`newMemIterator\(`), TargetMustExist: true, Why: "the pending keys of the domain are merged into the sorted list before the in-memory iterator is cut from it"},
		// compare
		{Prop: P, ID: "compare.ascending", Fn: M + "compare", Assume: []Lit{T(`^iter\.ascending$`)}, Target: RetNotMatch(0, `^bytes\.Compare\(a, b\)$`), Why: "ascending order is byte order"},
		{Prop: P, ID: "compare.descending", Fn: M + "compare", Assume: []Lit{F(`^iter\.ascending$`)}, Target: RetNotMatch(0, `^\(bytes\.Compare\(a, b\) \* -1\)$`), Why: "descending order is reversed byte order"},
		// memIterator direction
		{Prop: P, ID: "mem.key.ascending-first", Fn: "(*store/cachekv.memIterator).Key", Assume: []Lit{T(`^mi\.ascending$`)}, Target: RetNotMatch(0, `^mi\.items\[0\]\.Key$`), Why: "ascending serves the first item"},
		{Prop: P, ID: "mem.key.descending-last", Fn: "(*store/cachekv.memIterator).Key", Assume: []Lit{F(`^mi\.ascending$`)}, Target: RetNotMatch(0, `^mi\.items\[\(builtin\.len\(.*\) - 1\)\]\.Key$`), Why: "descending serves the last item"},
		{Prop: P, ID: "mem.value.ascending-first", Fn: "(*store/cachekv.memIterator).Value", Assume: []Lit{T(`^mi\.ascending$`)}, Target: RetNotMatch(0, `^mi\.items\[0\]\.Value$`), Why: "ascending serves the first item"},
		{Prop: P, ID: "mem.value.descending-last", Fn: "(*store/cachekv.memIterator).Value", Assume: []Lit{F(`^mi\.ascending$`)}, Target: RetNotMatch(0, `^mi\.items\[\(builtin\.len\(.*\) - 1\)\]\.Value$`), Why: "descending serves the last item"},
		{Prop: P, ID: "mem.next.ascending-drops-first", Fn: "(*store/cachekv.memIterator).Next", Assume: []Lit{T(`^mi\.ascending$`)}, Target: StoreTo(`^mi\.items$`).ExceptVal(`^mi\.items\[1:\]$`), Why: "ascending drops the first item"},
		{Prop: P, ID: "mem.next.descending-drops-last", Fn: "(*store/cachekv.memIterator).Next", Assume: []Lit{F(`^mi\.ascending$`)}, Target: StoreTo(`^mi\.items$`).ExceptVal(`^mi\.items\[:\(builtin\.len\(mi\.items\) - 1\)\]$`), Why: "descending drops the last item"},
	})...)
	return out
}

func runC02(c *Ctx) []Obligation {
	P := "C02"
	S := "(store/prefix.Store)."
	I := "(*store/prefix.prefixIterator)."
	var out []Obligation
	keyed := func(op string, extra string) Row {
		return Row{Prop: P, ID: "parent." + op + ".prefixed-key", Fn: S + op,
			Target: CallTo(`^invoke store/types\.KVStore\.`).Except(`^invoke store/types\.KVStore\.` + op + `\(s\.parent, \(store/prefix\.Store\)\.key\(s, key\)` + extra + `\)$`),
			TargetMustExist: false, Why: "the only parent operation of " + op + " is " + op + " under prefix+key"}
	}
	// the computed end: the merged variable, or (when the computation was moved into a function) either of its two values
	const newend = `(phi:newend|store/prefix\.cpIncr\(s\.prefix\)|store/prefix\.cloneAppend\(s\.prefix, end\))`
	iterRow := func(op string) []Row {
		call := `^invoke store/types\.KVStore\.` + op + `\(s\.parent, store/prefix\.cloneAppend\(s\.prefix, start\), ` + newend + `\)$`
		return []Row{
			{Prop: P, ID: "parent." + op + ".bounds-under-prefix", Fn: S + op,
				Target: CallTo(`^invoke store/types\.KVStore\.`).Except(call), Why: "the parent is iterated from prefix+start to the computed end under the prefix, in the same direction"},
			{Prop: P, ID: "parent." + op + ".open-end-is-prefix-end", Fn: S + op, Assume: []Lit{F(`^nonnil\(end\)$`)},
				Barrier: []string{`^store/prefix\.cpIncr\(s\.prefix\)`}, Target: CallTo(`^invoke store/types\.KVStore\.` + op + `\(`), TargetMustExist: true, Why: "an open end stops at the end of the prefix range"},
			{Prop: P, ID: "parent." + op + ".open-end-not-appended", Fn: S + op, Assume: []Lit{F(`^nonnil\(end\)$`)},
				Target: CallTo(`^store/prefix\.cloneAppend\(s\.prefix, end\)`), Why: "an open end is not turned into the bare prefix (an empty range)"},
			{Prop: P, ID: "parent." + op + ".closed-end-is-prefixed", Fn: S + op, Assume: []Lit{T(`^nonnil\(end\)$`)},
				Barrier: []string{`^store/prefix\.cloneAppend\(s\.prefix, end\)`}, Target: CallTo(`^invoke store/types\.KVStore\.` + op + `\(`), Why: "a given end is prefix+end"},
			{Prop: P, ID: "parent." + op + ".closed-end-not-widened", Fn: S + op, Assume: []Lit{T(`^nonnil\(end\)$`)},
				Target: CallTo(`^store/prefix\.cpIncr\(`), Why: "a given end is not replaced by the end of the whole prefix range"},
			{Prop: P, ID: "parent." + op + ".wrapped", Fn: S + op,
				Target: RetNotMatch(0, `^store/prefix\.newPrefixIterator\(s\.prefix, start, end, invoke store/types\.KVStore\.`+op+`\(s\.parent, store/prefix\.cloneAppend\(.*\.prefix, start\), `+newend+`\)#0\)$`), Why: "results are served through the prefix iterator with this store's prefix"},
		}
	}
	rows := []Row{
		keyed("Get", ""), keyed("Has", ""), keyed("Set", ", value"), keyed("Delete", ""),
		{Prop: P, ID: "key.is-prefix-plus-key", Fn: S + "key", Target: RetNotMatch(0, `^store/prefix\.cloneAppend\(s\.prefix, key\)$`), Why: "the parent key is prefix followed by the caller's key"},
		{Prop: P, ID: "cloneAppend.fresh-of-summed-length", Fn: "store/prefix.cloneAppend", Target: RetNotMatch(0, `^makeslice<\[\]byte>$`), Why: "the result is a fresh slice (the prefix is never appended to in place)"},
		{Prop: P, ID: "cloneAppend.copies", Fn: "store/prefix.cloneAppend",
			Target: CallTo(`^builtin\.copy\(`).Except(`^builtin\.copy\(makeslice<\[\]byte>, bz\)$|^builtin\.copy\(makeslice<\[\]byte>\[builtin\.len\(bz\):\], tail\)$`), Why: "prefix at offset 0, tail right after it"},
		{Prop: P, ID: "cloneAppend.copies-prefix", Fn: "store/prefix.cloneAppend", Barrier: []string{`^builtin\.copy\(makeslice<\[\]byte>, bz\)`}, Target: TargetAnyReturn(), Why: "the prefix is copied"},
		{Prop: P, ID: "cloneAppend.copies-tail", Fn: "store/prefix.cloneAppend", Barrier: []string{`^builtin\.copy\(makeslice<\[\]byte>\[builtin\.len\(bz\):\], tail\)`}, Target: TargetAnyReturn(), Why: "the tail is copied after the prefix"},
		{Prop: P, ID: "cpIncr.is-prefix-end", Fn: "store/prefix.cpIncr", Target: RetNotMatch(0, `^store/types\.PrefixEndBytes\(bz\)$`), Why: "the open end bound is the prefix end"},
		// iterator
		{Prop: P, ID: "iter.new.invalid-if-parent-invalid", Fn: "store/prefix.newPrefixIterator", Assume: []Lit{F(`^invoke store/types\.Iterator\.Valid\(parent\)$`)},
			Target: StoreTo(`^var:complit\.valid$`).ExceptVal(`^false$`), Why: "an exhausted parent gives an invalid prefix iterator"},
		{Prop: P, ID: "iter.new.valid-iff-has-prefix", Fn: "store/prefix.newPrefixIterator", Assume: []Lit{T(`^invoke store/types\.Iterator\.Valid\(parent\)$`)},
			Target: StoreTo(`^var:complit\.valid$`).ExceptVal(`^bytes\.HasPrefix\(invoke store/types\.Iterator\.Key\(parent\), prefix\)$`), Why: "the first parent key must carry the prefix"},
		{Prop: P, ID: "iter.new.fields", Fn: "store/prefix.newPrefixIterator",
			Target: StoreTo(`^var:complit\.(prefix|iter)$`).ExceptVal(`^(prefix|parent)$`), Why: "the iterator keeps the store's prefix and the parent iterator"},
		{Prop: P, ID: "iter.next.refuses-invalid", Fn: I + "Next", Assume: []Lit{F(`^iter\.valid$`)}, Target: CallTo(`^invoke store/types\.Iterator\.`), Why: "an invalid iterator does not move the parent"},
		{Prop: P, ID: "iter.next.parent-exhausted-invalidates", Fn: I + "Next", Assume: []Lit{T(`^iter\.valid$`), F(`^invoke store/types\.Iterator\.Valid\(iter\.iter\)$`)}, Target: TargetAnyReturn(), Barrier: []string{`store:^iter\.valid = false$`}, Why: "leaving the parent's range invalidates"},
		{Prop: P, ID: "iter.next.leaving-prefix-invalidates", Fn: I + "Next", Assume: []Lit{T(`^iter\.valid$`), T(`^invoke store/types\.Iterator\.Valid\(iter\.iter\)$`), F(`^bytes\.HasPrefix\(invoke store/types\.Iterator\.Key\(iter\.iter\), iter\.prefix\)$`)}, Target: TargetAnyReturn(), Barrier: []string{`store:^iter\.valid = false$`}, Why: "a parent key without the prefix ends the iteration: keys of other prefixes are never served"},
		{Prop: P, ID: "iter.next.advances-parent", Fn: I + "Next", Assume: []Lit{T(`^iter\.valid$`)}, Barrier: []string{`^invoke store/types\.Iterator\.Next\(iter\.iter\)`}, Target: TargetAnyReturn(), Why: "Next moves the parent"},
		{Prop: P, ID: "iter.key.refuses-invalid", Fn: I + "Key", Assume: []Lit{F(`^iter\.valid$`)}, Target: TargetAnyReturn(), Why: "no key is served from an invalid iterator"},
		{Prop: P, ID: "iter.key.stripped", Fn: I + "Key", Target: RetNotMatch(0, `^store/prefix\.stripPrefix\(invoke store/types\.Iterator\.Key\(iter\.iter\), iter\.prefix\)$`), Why: "keys are returned with the prefix removed"},
		{Prop: P, ID: "iter.value.refuses-invalid", Fn: I + "Value", Assume: []Lit{F(`^iter\.valid$`)}, Target: TargetAnyReturn(), Why: "no value is served from an invalid iterator"},
		{Prop: P, ID: "iter.value.untouched", Fn: I + "Value", Target: RetNotMatch(0, `^invoke store/types\.Iterator\.Value\(iter\.iter\)$`), Why: "values pass through"},
		{Prop: P, ID: "iter.valid.needs-flag", Fn: I + "Valid", Assume: []Lit{F(`^iter\.valid$`)}, Target: RetNot(0, "false"), Why: "once invalid, always invalid"},
		{Prop: P, ID: "strip.exact-prefix", Fn: "store/prefix.stripPrefix", Target: RetNotMatch(0, `^key\[builtin\.len\(prefix\):\]$`), Why: "exactly len(prefix) bytes are removed"},
		{Prop: P, ID: "strip.checks-prefix", Fn: "store/prefix.stripPrefix", Assume: []Lit{F(`^bytes\.Equal\(key\[:builtin\.len\(prefix\)\], prefix\)$`)}, Target: TargetAnyReturn(), Why: "a key that does not start with the prefix is never returned stripped"},
		{Prop: P, ID: "strip.checks-length", Fn: "store/prefix.stripPrefix", Assume: []Lit{T(`^lt\(builtin\.len\(key\), builtin\.len\(prefix\)\)$`)}, Target: TargetAnyReturn(), Why: "a key shorter than the prefix is never sliced"},
	}
	rows = append(rows, iterRow("Iterator")...)
	rows = append(rows, iterRow("ReverseIterator")...)
	out = append(out, c.Rows(rows)...)
	out = append(out,
		c.callsOnlyIn(P, "prefix.never-appended-in-place", "store/prefix", `^builtin\.append\((s|iter)\.prefix, `, []string{}, 0, "appending to the shared prefix slice would let two bounds (or two keys) overwrite each other through spare capacity"),
		c.fieldTable(P, "store.prefix-set-once", "store/prefix", "Store", "prefix", false, []string{`store/prefix\.NewStore`}, "a prefix store never changes its prefix"),
		c.fieldTable(P, "iter.valid-writers", "store/prefix", "prefixIterator", "valid", false, []string{`store/prefix\.newPrefixIterator`, `\(\*store/prefix\.prefixIterator\)\.Next`}, "validity is decided at construction and in Next only"),
		c.twins(P, "iterator.twins", "(store/prefix.Store).Iterator", "(store/prefix.Store).ReverseIterator", []Rename{{From: "KVStore.Iterator(", To: "KVStore.ReverseIterator("}}, "reverse iteration differs from forward iteration only in the parent call"),
	)
	return out
}
