package auth

// F07 witness: transaction replay protection is keyed on the hash of the RAW
// transaction bytes, while the signature only covers the DECODED content
// (chain id, entropy, fee, msg, memo). The proto decoder accepts many different
// byte strings for one and the same StdTx, so a third party that has seen a
// validly signed transaction can re-encode it into new bytes that
//
//	(1) decode to an identical StdTx (=> identical sign bytes, signature still valid),
//	(2) have a different tmTypes.Tx(...).Hash(),
//	(3) are therefore NOT caught by the duplicate check in ValidateTransaction
//	    (txIndexer.Get(hash(rawBytes))) even though the original is indexed.
//
// This test PASSES when that (bad) behaviour is present. It uses the real,
// unmodified codec / decoder / ValidateTransaction and the real tendermint kv
// tx indexer; no upgrade flags or test modes are toggled: the block height used
// is simply larger than codec.UpgradeCodecHeight so the proto codec is in use.

import (
	"bytes"
	"encoding/binary"
	"testing"

	"github.com/stretchr/testify/require"
	abci "github.com/tendermint/tendermint/abci/types"
	"github.com/tendermint/tendermint/libs/log"
	"github.com/tendermint/tendermint/state/txindex/kv"
	tmTypes "github.com/tendermint/tendermint/types"
	dbm "github.com/tendermint/tm-db"

	"github.com/pokt-network/pocket-core/codec"
	cdcTypes "github.com/pokt-network/pocket-core/codec/types"
	"github.com/pokt-network/pocket-core/crypto"
	"github.com/pokt-network/pocket-core/store"
	sdk "github.com/pokt-network/pocket-core/types"
	"github.com/pokt-network/pocket-core/x/auth/keeper"
	"github.com/pokt-network/pocket-core/x/auth/types"
	nodesTypes "github.com/pokt-network/pocket-core/x/nodes/types"
)

const f07Height = int64(100000) // > codec.UpgradeCodecHeight (30024): proto codec only

// f07SplitPrefix splits length-prefixed tx bytes into (declared length, body).
func f07SplitPrefix(t *testing.T, txBz []byte) (uint64, []byte) {
	size, n := binary.Uvarint(txBz)
	require.True(t, n > 0)
	require.Equal(t, int(size), len(txBz)-n)
	return size, txBz[n:]
}

// f07Prefix re-attaches a (minimal) uvarint length prefix to a ProtoStdTx body.
func f07Prefix(body []byte) []byte {
	var buf [binary.MaxVarintLen64]byte
	n := binary.PutUvarint(buf[:], uint64(len(body)))
	return append(append([]byte{}, buf[:n]...), body...)
}

func TestF07_ReencodedTxBypassesReplayProtection(t *testing.T) {
	require.True(t, f07Height > codec.GetCodecUpgradeHeight())

	// ---- codec exactly as the app builds it (auth + nodes + sdk interfaces) ----
	cdc := codec.NewCodec(cdcTypes.NewInterfaceRegistry())
	types.RegisterCodec(cdc)
	nodesTypes.RegisterCodec(cdc)
	sdk.RegisterCodec(cdc)
	crypto.RegisterAmino(cdc.AminoCodec().Amino)

	// ---- minimal auth keeper + context ----
	keyAcc := sdk.NewKVStoreKey(types.StoreKey)
	db := dbm.NewMemDB()
	ms := store.NewCommitMultiStore(db, false, 5000000)
	ms.MountStoreWithDB(keyAcc, sdk.StoreTypeIAVL, db)
	ms.MountStoreWithDB(sdk.ParamsKey, sdk.StoreTypeIAVL, db)
	ms.MountStoreWithDB(sdk.ParamsTKey, sdk.StoreTypeTransient, db)
	require.Nil(t, ms.LoadLatestVersion())
	ctx := sdk.NewContext(ms, abci.Header{ChainID: "f07-chain", Height: f07Height}, false, log.NewNopLogger())
	ak := keeper.NewKeeper(cdc, keyAcc, sdk.NewSubspace(types.StoreKey), nil)
	ak.SetParams(ctx, types.DefaultParams())

	// ---- a validly signed MsgSend ----
	priv := crypto.GenerateEd25519PrivKey()
	from := sdk.Address(priv.PublicKey().Address())
	to := sdk.Address(crypto.GenerateEd25519PrivKey().PublicKey().Address())
	fee := sdk.NewCoins(sdk.NewCoin(sdk.DefaultStakeDenom, sdk.NewInt(100000)))
	const entropy = int64(424242)
	tx := types.NewTestTx(ctx, &nodesTypes.MsgSend{FromAddress: from, ToAddress: to, Amount: sdk.NewInt(1)}, priv, entropy, fee)

	origBz, err := types.DefaultTxEncoder(cdc)(tx, f07Height)
	require.Nil(t, err)
	_, body := f07SplitPrefix(t, origBz)
	// sanity: canonical body ends with field 5 (entropy) varint: tag 0x28
	var entBuf [binary.MaxVarintLen64]byte
	entLen := binary.PutUvarint(entBuf[:], uint64(entropy))
	require.Equal(t, byte(0x28), body[len(body)-entLen-1])
	require.Equal(t, entBuf[:entLen], body[len(body)-entLen:])

	// ---- re-encodings, all produced WITHOUT the private key ----
	variants := map[string][]byte{}

	// (a) append an unknown field (#15, varint, value 0) to ProtoStdTx; fix length prefix
	variants["unknown extra field appended"] = f07Prefix(append(append([]byte{}, body...), 0x78, 0x00))

	// (b) same body, but non-minimal (zero padded) varint for the LENGTH PREFIX
	{
		var buf [binary.MaxVarintLen64]byte
		n := binary.PutUvarint(buf[:], uint64(len(body)))
		pfx := append([]byte{}, buf[:n]...)
		pfx[n-1] |= 0x80
		pfx = append(pfx, 0x00)
		variants["non-minimal varint length prefix"] = append(pfx, body...)
	}

	// (c) non-minimal varint for the entropy VALUE inside the message
	{
		b := append([]byte{}, body...)
		b[len(b)-1] |= 0x80
		b = append(b, 0x00)
		variants["non-minimal varint entropy value"] = f07Prefix(b)
	}

	// (d) repeated scalar: a bogus entropy (field 5 = 1) placed BEFORE the real one; last wins
	variants["repeated scalar field (last wins)"] = f07Prefix(append([]byte{0x28, 0x01}, body...))

	// ---- real tendermint kv indexer that has ONLY seen the original tx ----
	indexer := kv.NewTxIndex(dbm.NewMemDB())
	require.Nil(t, indexer.Index(&tmTypes.TxResult{Height: f07Height - 1, Index: 0, Tx: tmTypes.Tx(origBz)}))

	decoder := types.DefaultTxDecoder(cdc)
	origDec, sdkErr := decoder(origBz, f07Height)
	require.Nil(t, sdkErr)
	origStd := origDec.(types.StdTx)
	origSignBytes, err := GetSignBytes(ctx.ChainID(), origStd)
	require.Nil(t, err)

	// control: replay protection works for the byte-identical tx
	_, sdkErr = ValidateTransaction(ctx, ak, origStd, ak.GetParams(ctx), indexer, origBz, false)
	require.NotNil(t, sdkErr, "control: the original bytes must be rejected as duplicate")
	require.Equal(t, types.CodeDupTx, sdkErr.Code())
	require.Contains(t, sdkErr.Error(), "duplicate transaction")

	// control: without the indexed original, the original bytes are valid (signature is good)
	_, sdkErr = ValidateTransaction(ctx, ak, origStd, ak.GetParams(ctx), kv.NewTxIndex(dbm.NewMemDB()), origBz, false)
	require.Nil(t, sdkErr)

	for name, malBz := range variants {
		malBz := malBz
		t.Run(name, func(t *testing.T) {
			require.False(t, bytes.Equal(origBz, malBz))

			// (1) decodes - with the proto codec, after the upgrade height - to an EQUAL StdTx
			malDec, sdkErr := decoder(malBz, f07Height)
			require.Nil(t, sdkErr, "BAD BEHAVIOUR ABSENT: decoder rejected the non-canonical encoding")
			malStd := malDec.(types.StdTx)
			require.Equal(t, origStd, malStd)
			require.Nil(t, malStd.ValidateBasic())
			malSignBytes, err := GetSignBytes(ctx.ChainID(), malStd)
			require.Nil(t, err)
			require.Equal(t, origSignBytes, malSignBytes)
			// re-encoding the decoded tx gives back the canonical (original) bytes
			reBz, err := types.DefaultTxEncoder(cdc)(malStd, f07Height)
			require.Nil(t, err)
			require.Equal(t, origBz, reBz)

			// (2) the replay key differs
			require.NotEqual(t, tmTypes.Tx(origBz).Hash(), tmTypes.Tx(malBz).Hash())
			res, err := indexer.Get(tmTypes.Tx(malBz).Hash())
			require.Nil(t, err)
			require.Nil(t, res)

			// (3) ValidateTransaction ACCEPTS the re-encoded tx (real signature check,
			// simulate=false) although the indexer already contains the original.
			signer, sdkErr := ValidateTransaction(ctx, ak, malStd, ak.GetParams(ctx), indexer, malBz, false)
			require.Nil(t, sdkErr, "BAD BEHAVIOUR ABSENT: re-encoded tx was rejected")
			require.Equal(t, priv.PublicKey().RawString(), signer.RawString())
		})
	}
}
