// nolint
package app

// F07 end-to-end witness (companion of x/auth/f07_replay_malleability_test.go).
//
// Runs a real in-memory node (tendermint + PocketCoreApp + real kv tx indexer +
// real mempool) with the proto codec active, using the very same harness as the
// existing TestDuplicateTxWithRawTx. It shows that one signed MsgSend is EXECUTED
// TWICE when a third party re-broadcasts it with an unknown protobuf field
// appended (no private key needed), whereas the byte-identical replay is refused.
//
// This test PASSES when the bad behaviour is present.

import (
	"encoding/binary"
	"testing"
	"time"

	"github.com/pokt-network/pocket-core/codec"
	sdk "github.com/pokt-network/pocket-core/types"
	"github.com/pokt-network/pocket-core/x/auth/types"
	"github.com/pokt-network/pocket-core/x/nodes"
	nodeTypes "github.com/pokt-network/pocket-core/x/nodes/types"
	"github.com/stretchr/testify/require"
	rand2 "github.com/tendermint/tendermint/libs/rand"
	tmTypes "github.com/tendermint/tendermint/types"
)

func TestF07_ReencodedTxExecutesTwice_E2E(t *testing.T) {
	// same setup as the "proto" case of TestDuplicateTxWithRawTx
	codec.UpgradeHeight = 2
	_ = memCodecMod(true)
	_, kb, cleanup := NewInMemoryTendermintNodeProto(t, oneAppTwoNodeGenesis())
	defer cleanup()
	time.Sleep(1 * time.Second)
	cb, err := kb.GetCoinbase()
	require.Nil(t, err)
	kp, err := kb.Create("test")
	require.Nil(t, err)
	pk, err := kb.ExportPrivateKeyObject(cb.GetAddress(), "test")
	require.Nil(t, err)

	amount := sdk.NewInt(1000)
	feeAmt := sdk.NewInt(100000)
	// the ONE AND ONLY signature produced by the sender
	txBz, err := types.DefaultTxEncoder(memCodec())(types.NewTestTx(sdk.Context{}.WithChainID("pocket-test"),
		&nodeTypes.MsgSend{FromAddress: cb.GetAddress(), ToAddress: kp.GetAddress(), Amount: amount},
		pk, rand2.Int64(), sdk.NewCoins(sdk.NewCoin(sdk.DefaultStakeDenom, feeAmt))), -1)
	require.Nil(t, err)

	// attacker side: strip the length prefix, append unknown field #15 (varint 0), re-prefix
	size, n := binary.Uvarint(txBz)
	require.Equal(t, int(size), len(txBz)-n)
	body := append(append([]byte{}, txBz[n:]...), 0x78, 0x00)
	var buf [binary.MaxVarintLen64]byte
	m := binary.PutUvarint(buf[:], uint64(len(body)))
	malBz := append(append([]byte{}, buf[:m]...), body...)
	require.NotEqual(t, tmTypes.Tx(txBz).Hash(), tmTypes.Tx(malBz).Hash())

	waitBlock := func() {
		_, _, ch := subscribeTo(t, tmTypes.EventNewBlock)
		<-ch
	}

	waitBlock()
	senderStart, err := PCA.QueryBalance(cb.GetAddress().String(), PCA.LastBlockHeight())
	require.Nil(t, err)

	// ---- 1st (legit) submission ----
	memCli, _, evtChan := subscribeTo(t, tmTypes.EventTx)
	resp, err := nodes.RawTx(memCodec(), memCli, cb.GetAddress(), txBz)
	require.Nil(t, err)
	require.Equal(t, uint32(0), resp.Code, resp.RawLog)
	ev := <-evtChan
	d1, ok := ev.Data.(tmTypes.EventDataTx)
	require.True(t, ok)
	require.Equal(t, uint32(0), d1.Result.Code, "original tx must be delivered OK")
	require.Equal(t, []byte(tmTypes.Tx(txBz)), []byte(d1.Tx))
	waitBlock()
	bal, err := PCA.QueryBalance(kp.GetAddress().String(), PCA.LastBlockHeight())
	require.Nil(t, err)
	require.True(t, bal.Equal(amount), "recipient balance after 1st execution: %s", bal)

	// ---- control: byte-identical replay is refused ----
	memCli, _, _ = subscribeTo(t, tmTypes.EventTx)
	resp, err = nodes.RawTx(memCodec(), memCli, cb.GetAddress(), txBz)
	require.True(t, err != nil || resp.Code != 0, "control: identical replay must be rejected")
	t.Logf("identical replay rejected: err=%v code=%d log=%s", err, resp.Code, resp.RawLog)

	// ---- re-encoded replay: accepted by CheckTx, included in a block, executed ----
	memCli, stopCli, evtChan := subscribeTo(t, tmTypes.EventTx)
	defer stopCli()
	resp, err = nodes.RawTx(memCodec(), memCli, cb.GetAddress(), malBz)
	require.Nil(t, err, "BAD BEHAVIOUR ABSENT: re-encoded tx refused at broadcast")
	require.Equal(t, uint32(0), resp.Code, "BAD BEHAVIOUR ABSENT: re-encoded tx refused by CheckTx: %s", resp.RawLog)
	ev = <-evtChan
	d2, ok := ev.Data.(tmTypes.EventDataTx)
	require.True(t, ok)
	require.Equal(t, []byte(tmTypes.Tx(malBz)), []byte(d2.Tx))
	require.Equal(t, uint32(0), d2.Result.Code, "BAD BEHAVIOUR ABSENT: re-encoded tx failed in DeliverTx: %s", d2.Result.Log)
	require.True(t, d2.Height > d1.Height)
	waitBlock()

	// the single signed transfer has now taken effect twice
	bal, err = PCA.QueryBalance(kp.GetAddress().String(), PCA.LastBlockHeight())
	require.Nil(t, err)
	require.True(t, bal.Equal(amount.MulRaw(2)), "recipient balance after replay: %s (want %s)", bal, amount.MulRaw(2))
	senderEnd, err := PCA.QueryBalance(cb.GetAddress().String(), PCA.LastBlockHeight())
	require.Nil(t, err)
	t.Logf("tx1 height=%d hash=%X", d1.Height, tmTypes.Tx(txBz).Hash())
	t.Logf("tx2 height=%d hash=%X (same signature, re-encoded)", d2.Height, tmTypes.Tx(malBz).Hash())
	t.Logf("recipient balance: %s (= 2 x %s); sender balance %s -> %s", bal, amount, senderStart, senderEnd)
}

// Variant: original and re-encoded copy are broadcast back-to-back so that they are
// (normally) included in the SAME block. Neither the tx indexer (only updated after the
// block is committed) nor baseapp's per-block transactionCache (keyed by the raw bytes,
// TxCacheKey) stops the second execution.
func TestF07_ReencodedTxExecutesTwice_SameBlock_E2E(t *testing.T) {
	codec.UpgradeHeight = 2
	_ = memCodecMod(true)
	_, kb, cleanup := NewInMemoryTendermintNodeProto(t, oneAppTwoNodeGenesis())
	defer cleanup()
	time.Sleep(1 * time.Second)
	cb, err := kb.GetCoinbase()
	require.Nil(t, err)
	kp, err := kb.Create("test")
	require.Nil(t, err)
	pk, err := kb.ExportPrivateKeyObject(cb.GetAddress(), "test")
	require.Nil(t, err)
	amount := sdk.NewInt(1000)
	txBz, err := types.DefaultTxEncoder(memCodec())(types.NewTestTx(sdk.Context{}.WithChainID("pocket-test"),
		&nodeTypes.MsgSend{FromAddress: cb.GetAddress(), ToAddress: kp.GetAddress(), Amount: amount},
		pk, rand2.Int64(), sdk.NewCoins(sdk.NewCoin(sdk.DefaultStakeDenom, sdk.NewInt(100000)))), -1)
	require.Nil(t, err)
	size, n := binary.Uvarint(txBz)
	require.Equal(t, int(size), len(txBz)-n)
	body := append(append([]byte{}, txBz[n:]...), 0x78, 0x00)
	var buf [binary.MaxVarintLen64]byte
	m := binary.PutUvarint(buf[:], uint64(len(body)))
	malBz := append(append([]byte{}, buf[:m]...), body...)

	_, _, blkChan := subscribeTo(t, tmTypes.EventNewBlock)
	<-blkChan
	memCli, stopCli, evtChan := subscribeTo(t, tmTypes.EventTx)
	defer stopCli()
	r1, err := nodes.RawTx(memCodec(), memCli, cb.GetAddress(), txBz)
	require.Nil(t, err)
	require.Equal(t, uint32(0), r1.Code, r1.RawLog)
	r2, err := nodes.RawTx(memCodec(), memCli, cb.GetAddress(), malBz)
	require.Nil(t, err)
	require.Equal(t, uint32(0), r2.Code, r2.RawLog)
	e1 := (<-evtChan).Data.(tmTypes.EventDataTx)
	e2 := (<-evtChan).Data.(tmTypes.EventDataTx)
	require.Equal(t, uint32(0), e1.Result.Code, e1.Result.Log)
	require.Equal(t, uint32(0), e2.Result.Code, "BAD BEHAVIOUR ABSENT: second copy failed in DeliverTx: %s", e2.Result.Log)
	_, _, blkChan = subscribeTo(t, tmTypes.EventNewBlock)
	<-blkChan
	bal, err := PCA.QueryBalance(kp.GetAddress().String(), PCA.LastBlockHeight())
	require.Nil(t, err)
	t.Logf("copy1 height=%d index=%d; copy2 height=%d index=%d; recipient balance=%s", e1.Height, e1.Index, e2.Height, e2.Index, bal)
	require.True(t, bal.Equal(amount.MulRaw(2)), "recipient balance: %s", bal)
	require.Equal(t, e1.Height, e2.Height, "timing: copies were not included in the same block; rerun")
}
