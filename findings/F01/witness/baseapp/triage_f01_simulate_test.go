package baseapp

// TRIAGE F01 witness.
//
// Suspected defect: BaseApp.runTx executes the message handler of a *simulated*
// transaction (runTxModeSimulate) against the live ROOT multistore, because
// app.txContext() replaces the context's multistore by
// app.cms.(*rootmulti.Store).CopyStore(), a shallow copy that shares the very
// same underlying IAVL CommitStores. runMsg only skips the handler for
// runTxModeCheck, so for Simulate the handler's writes land directly in the
// working IAVL tree that the next Commit() persists.
//
// These tests PASS when the bad behaviour is present (they assert the leak).
// They use the real BaseApp (NewBaseApp, InitChain, BeginBlock, Query, Commit)
// with a single IAVL store and a single handler that writes one key.

import (
	"bytes"
	"testing"

	abci "github.com/tendermint/tendermint/abci/types"
	"github.com/tendermint/tendermint/libs/log"
	"github.com/tendermint/tendermint/state/txindex"
	dbm "github.com/tendermint/tm-db"

	"github.com/pokt-network/pocket-core/codec"
	codecTypes "github.com/pokt-network/pocket-core/codec/types"
	"github.com/pokt-network/pocket-core/crypto"
	sdk "github.com/pokt-network/pocket-core/types"
)

const f01Route = "f01"

var (
	f01Key   = []byte("f01/written-by-simulate")
	f01Value = []byte("leaked")
)

// f01Msg is the smallest possible sdk.Msg. It carries no signer and no signature.
type f01Msg struct{}

func (f01Msg) Route() string             { return f01Route }
func (f01Msg) Type() string              { return "f01_write" }
func (f01Msg) ValidateBasic() sdk.Error  { return nil }
func (f01Msg) GetSignBytes() []byte      { return nil }
func (f01Msg) GetSigners() []sdk.Address { return nil }
func (f01Msg) GetRecipient() sdk.Address { return nil }
func (f01Msg) GetFee() sdk.BigInt        { return sdk.ZeroInt() }

// f01Tx is an unsigned tx wrapping f01Msg.
type f01Tx struct{}

func (f01Tx) GetMsg() sdk.Msg          { return f01Msg{} }
func (f01Tx) ValidateBasic() sdk.Error { return nil }

// f01NewApp builds a real BaseApp over an in-memory DB with ONE IAVL store and
// one route whose handler writes f01Key=f01Value through the ctx it is given.
// handlerCalls counts handler invocations.
func f01NewApp(t *testing.T, withAnte bool) (app *BaseApp, key *sdk.KVStoreKey, handlerCalls *int) {
	t.Helper()
	key = sdk.NewKVStoreKey(MainStoreKey)
	calls := 0
	handlerCalls = &calls

	decoder := func(txBytes []byte, _ int64) (sdk.Tx, sdk.Error) { return f01Tx{}, nil }
	app = NewBaseApp("f01", log.NewNopLogger(), dbm.NewMemDB(), false, 1000, decoder,
		codec.NewCodec(codecTypes.NewInterfaceRegistry()))
	app.MountStores(key) // *sdk.KVStoreKey => StoreTypeIAVL
	if withAnte {
		// An ante handler that behaves like auth's: when simulate==true it does not
		// verify anything and does not abort.
		app.anteHandler = func(ctx sdk.Ctx, tx sdk.Tx, txBz []byte, _ txindex.TxIndexer, simulate bool) (sdk.Ctx, sdk.Result, crypto.PublicKey, bool) {
			return ctx, sdk.Result{}, nil, false
		}
	}
	app.Router().AddRoute(f01Route, func(ctx sdk.Ctx, msg sdk.Msg, _ crypto.PublicKey) sdk.Result {
		calls++
		if err := ctx.KVStore(key).Set(f01Key, f01Value); err != nil {
			t.Fatalf("handler set: %v", err)
		}
		return sdk.Result{}
	})
	if err := app.LoadLatestVersion(key); err != nil {
		t.Fatalf("LoadLatestVersion: %v", err)
	}
	return app, key, handlerCalls
}

// f01RunControlChain drives two blocks through the ABCI surface. Neither block
// contains any DeliverTx and nobody calls simulate. It returns the app hashes
// of block 1 and block 2.
func f01RunControlChain(t *testing.T) (hash1, hash2 []byte, app *BaseApp, key *sdk.KVStoreKey, calls *int) {
	t.Helper()
	app, key, calls = f01NewApp(t, false)

	app.InitChain(abci.RequestInitChain{ChainId: "f01"})
	app.BeginBlock(abci.RequestBeginBlock{Header: abci.Header{ChainID: "f01", Height: 1}})
	app.EndBlock(abci.RequestEndBlock{Height: 1})
	hash1 = app.Commit().Data

	app.BeginBlock(abci.RequestBeginBlock{Header: abci.Header{ChainID: "f01", Height: 2}})
	app.EndBlock(abci.RequestEndBlock{Height: 2})
	hash2 = app.Commit().Data
	return
}

// TestTriageF01_SimulateWritesToRootStore: after a simulate, with nothing
// delivered, the write is visible in the root store, in the deliver state of
// the next block, in the check state, and it is persisted by Commit so that the
// app hash differs from an identical chain on which nobody called simulate.
func TestTriageF01_SimulateWritesToRootStore(t *testing.T) {
	// --- control: no simulate --------------------------------------------------
	cHash1, cHash2, cApp, cKey, cCalls := f01RunControlChain(t)
	if *cCalls != 0 {
		t.Fatalf("control: handler must not have run, ran %d times", *cCalls)
	}
	if v, _ := cApp.cms.GetKVStore(cKey).Get(f01Key); v != nil {
		t.Fatalf("control: key unexpectedly present: %q", v)
	}

	// --- subject: identical chain + one app/simulate query ------------------------
	app, key, calls := f01NewApp(t, false)
	app.InitChain(abci.RequestInitChain{ChainId: "f01"})
	app.BeginBlock(abci.RequestBeginBlock{Header: abci.Header{ChainID: "f01", Height: 1}})
	app.EndBlock(abci.RequestEndBlock{Height: 1})
	sHash1 := app.Commit().Data

	if !bytes.Equal(cHash1, sHash1) {
		t.Fatalf("setup: block-1 hashes must match: %X vs %X", cHash1, sHash1)
	}
	if v, _ := app.cms.GetKVStore(key).Get(f01Key); v != nil {
		t.Fatalf("setup: key present before simulate: %q", v)
	}

	res := app.Query(abci.RequestQuery{Path: "app/simulate", Data: []byte("any-bytes")})
	if res.Code != uint32(sdk.CodeOK) {
		t.Fatalf("simulate query failed: %+v", res)
	}
	if *calls != 1 {
		t.Fatalf("expected the handler to run exactly once in simulate mode, ran %d", *calls)
	}

	// BAD #1: the root (uncached, committable) IAVL store already holds the write.
	v, _ := app.cms.GetKVStore(key).Get(f01Key)
	if !bytes.Equal(v, f01Value) {
		t.Fatalf("REFUTED: simulate did not write to the root store (got %q)", v)
	}
	t.Logf("root store after simulate, nothing delivered: %s=%q", f01Key, v)

	// BAD #2: CheckTx state sees it.
	v, _ = app.checkState.ctx.KVStore(key).Get(f01Key)
	if !bytes.Equal(v, f01Value) {
		t.Fatalf("REFUTED: checkState does not see the write (got %q)", v)
	}

	// BAD #3: the next block's deliver state is built on it.
	app.BeginBlock(abci.RequestBeginBlock{Header: abci.Header{ChainID: "f01", Height: 2}})
	v, _ = app.deliverState.ctx.KVStore(key).Get(f01Key)
	if !bytes.Equal(v, f01Value) {
		t.Fatalf("REFUTED: deliverState of next block does not see the write (got %q)", v)
	}
	app.EndBlock(abci.RequestEndBlock{Height: 2})
	sHash2 := app.Commit().Data

	// BAD #4: the app hash of block 2 (which contains NO transactions on either
	// chain) differs purely because one node answered a simulate query.
	t.Logf("block-2 app hash without simulate: %X", cHash2)
	t.Logf("block-2 app hash with    simulate: %X", sHash2)
	if bytes.Equal(cHash2, sHash2) {
		t.Fatalf("REFUTED: app hash unaffected by simulate: %X", sHash2)
	}

	// BAD #5: it is durably committed: readable at the committed version 2 through
	// the store query path.
	q := app.Query(abci.RequestQuery{Path: "/store/" + MainStoreKey + "/key", Data: f01Key, Height: 2})
	if !bytes.Equal(q.Value, f01Value) {
		t.Fatalf("REFUTED: committed version 2 does not contain the write (got %q, log %q)", q.Value, q.Log)
	}
}

// TestTriageF01_SimulateViaHelperWithAnte: same, via baseapp.Simulate and with an
// ante handler installed (the ante handler runs on a cache that is discarded, but
// the message handler still runs on the root stores).
func TestTriageF01_SimulateViaHelperWithAnte(t *testing.T) {
	app, key, calls := f01NewApp(t, true)
	app.InitChain(abci.RequestInitChain{ChainId: "f01"})
	app.BeginBlock(abci.RequestBeginBlock{Header: abci.Header{ChainID: "f01", Height: 1}})
	app.EndBlock(abci.RequestEndBlock{Height: 1})
	app.Commit()

	// Check mode is fine: handler is skipped.
	if r := app.Check(f01Tx{}); !r.IsOK() {
		t.Fatalf("check failed: %+v", r)
	}
	if *calls != 0 {
		t.Fatalf("handler ran in check mode")
	}
	if v, _ := app.cms.GetKVStore(key).Get(f01Key); v != nil {
		t.Fatalf("key present after Check: %q", v)
	}

	if r := app.Simulate(nil, f01Tx{}); !r.IsOK() {
		t.Fatalf("simulate failed: %+v", r)
	}
	if *calls != 1 {
		t.Fatalf("handler did not run in simulate mode")
	}
	v, _ := app.cms.GetKVStore(key).Get(f01Key)
	if !bytes.Equal(v, f01Value) {
		t.Fatalf("REFUTED: simulate did not write to the root store (got %q)", v)
	}
}
