// nolint
package app

// TRIAGE F01 witness (full application level).
//
// A real in-memory Pocket node (real Tendermint consensus + real PocketCoreApp,
// real auth ante handler, real x/nodes MsgSend handler) is started with the
// helpers of this package. A MsgSend that is NOT validly signed (64 zero bytes
// as "signature") is then handed to the ABCI Query path "app/simulate" - the
// path Tendermint's `abci_query` RPC forwards to the application.
//
// Expected for a simulation: no state change.
// Observed (and asserted here, so the test PASSES while the defect exists): the
// recipient owns the coins in the next committed block although no transaction
// was ever included in any block, and the sender never paid the fee (the ante
// handler ran on a discarded cache, the message handler ran on the root store).

import (
	"testing"
	"time"

	"github.com/pokt-network/pocket-core/codec"
	sdk "github.com/pokt-network/pocket-core/types"
	"github.com/pokt-network/pocket-core/x/auth/types"
	nodeTypes "github.com/pokt-network/pocket-core/x/nodes/types"
	"github.com/stretchr/testify/require"
	abci "github.com/tendermint/tendermint/abci/types"
	tmTypes "github.com/tendermint/tendermint/types"
)

func TestTriageF01_SimulateUnsignedMsgSendMovesCoins(t *testing.T) {
	codec.UpgradeHeight = 7000
	_ = memCodecMod(false)

	tmNode, kb, cleanup := NewInMemoryTendermintNodeAmino(t, oneAppTwoNodeGenesis())
	defer cleanup()
	time.Sleep(1 * time.Second)

	victim, err := kb.GetCoinbase() // funded genesis account
	require.NoError(t, err)
	thief, err := kb.Create("test") // brand new, unfunded account
	require.NoError(t, err)

	_, stopCli, evtChan := subscribeTo(t, tmTypes.EventNewBlock)
	defer stopCli()
	<-evtChan // wait for a block

	h0 := PCA.LastBlockHeight()
	victimBefore, err := PCA.QueryBalance(victim.GetAddress().String(), h0)
	require.NoError(t, err)
	thiefBefore, err := PCA.QueryBalance(thief.GetAddress().String(), h0)
	require.NoError(t, err)
	require.True(t, thiefBefore.IsZero(), "thief must start with 0, has %s", thiefBefore)

	// Build a MsgSend victim -> thief WITHOUT access to the victim's private key:
	// only the victim's (public) public key and a garbage signature.
	amount := sdk.NewInt(123456)
	fee := sdk.NewCoins(sdk.NewCoin(sdk.DefaultStakeDenom, sdk.NewInt(100000)))
	tx := types.NewTx(
		&nodeTypes.MsgSend{FromAddress: victim.GetAddress(), ToAddress: thief.GetAddress(), Amount: amount},
		fee,
		types.StdSignature{PublicKey: victim.PublicKey, Signature: make([]byte, 64)}, // NOT a signature
		"", 42)
	txBz, err := types.DefaultTxEncoder(memCodec())(tx, -1)
	require.NoError(t, err)

	// Sanity: the very same bytes are rejected by CheckTx (signature verification).
	chk := PCA.BaseApp.CheckTx(abci.RequestCheckTx{Tx: txBz})
	require.NotEqual(t, uint32(0), chk.Code, "CheckTx must reject the unsigned tx")

	// The simulate query.
	res := PCA.BaseApp.Query(abci.RequestQuery{Path: "app/simulate", Data: txBz})
	require.Equal(t, uint32(0), res.Code, "query failed: %s", res.Log)

	// Wait until at least two further blocks have been committed.
	<-evtChan
	<-evtChan
	h1 := PCA.LastBlockHeight()
	require.Greater(t, h1, h0)

	// No transaction was ever included in any block.
	for h := int64(1); h <= tmNode.BlockStore().Height(); h++ {
		if b := tmNode.BlockStore().LoadBlock(h); b != nil {
			require.Len(t, b.Txs, 0, "block %d unexpectedly contains txs", h)
		}
	}

	victimAfter, err := PCA.QueryBalance(victim.GetAddress().String(), h1)
	require.NoError(t, err)
	thiefAfter, err := PCA.QueryBalance(thief.GetAddress().String(), h1)
	require.NoError(t, err)
	t.Logf("height %d -> %d (0 txs in all blocks)", h0, h1)
	t.Logf("victim balance: %s -> %s", victimBefore, victimAfter)
	t.Logf("thief  balance: %s -> %s", thiefBefore, thiefAfter)

	// BAD: committed state at h1 contains the effect of the simulated, unsigned MsgSend.
	if !thiefAfter.Equal(amount) {
		t.Fatalf("REFUTED: simulate did not leak into committed state; thief has %s", thiefAfter)
	}
	// The victim lost exactly `amount`; the fee was NOT charged (ante cache discarded).
	// (victim is also the only validator, so it may additionally have earned block
	// rewards; we therefore only assert the upper bound.)
	require.True(t, victimAfter.LT(victimBefore), "victim balance did not decrease")
	require.True(t, victimAfter.GTE(victimBefore.Sub(amount)),
		"victim lost more than amount: fee would have been charged")
}
