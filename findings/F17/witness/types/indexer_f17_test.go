package types

// Triage F17 witnesses for types/indexer.go (TransactionIndexer).
//
// Every test in this file PASSES against the unchanged code, i.e. the
// (a) and (b) tests assert the BAD behaviour, the (c) test asserts that the
// pagination is self-consistent (that sub-suspicion is refuted).
//
//   go test -vet=off -count=1 -run 'TestF17_' -v ./types
//
// Fixture (built by f17Fixture):
//   signer    S = 0101..01 (20 bytes), recipient R = 0202..02 (20 bytes)
//   heights   2, 10, 100 (chosen so that a plain decimal string compare would mis-order them,
//             i.e. the ELEN encoding is exercised), indices 0,1,2 at each height  -> 9 txs S->R
//   noise     one tx of another signer/recipient (0303.. -> 0404..) at height 10, index 3
import (
	"context"
	"fmt"
	"strings"
	"testing"

	"github.com/stretchr/testify/require"
	abci "github.com/tendermint/tendermint/abci/types"
	"github.com/tendermint/tendermint/libs/pubsub/query"
	"github.com/tendermint/tendermint/state/txindex"
	tmtypes "github.com/tendermint/tendermint/types"
	dbm "github.com/tendermint/tm-db"
)

var (
	f17Signer    = Address(bytesOf(0x01, 20))
	f17Recipient = Address(bytesOf(0x02, 20))
	f17Other1    = Address(bytesOf(0x03, 20))
	f17Other2    = Address(bytesOf(0x04, 20))
	f17Heights   = []int64{2, 10, 100}
	f17Indices   = []uint32{0, 1, 2}
)

func bytesOf(b byte, n int) []byte {
	out := make([]byte, n)
	for i := range out {
		out[i] = b
	}
	return out
}

func f17Result(height int64, index uint32, signer, recipient Address) *tmtypes.TxResult {
	return &tmtypes.TxResult{
		Height: height,
		Index:  index,
		// the tx bytes only have to be unique: the indexer stores the result under Tx.Hash()
		Tx: tmtypes.Tx(fmt.Sprintf("f17-tx-h%d-i%d-%s", height, index, signer)),
		Result: abci.ResponseDeliverTx{
			Code:      0,
			Signer:    signer,
			Recipient: recipient,
		},
	}
}

// f17Fixture indexes the fixture; half through AddBatch, half through Index, in a scrambled
// insertion order so that the returned order can only come from the key encoding.
func f17Fixture(t *testing.T) *TransactionIndexer {
	t.Helper()
	idx := NewTransactionIndexer(dbm.NewMemDB())
	var all []*tmtypes.TxResult
	for _, h := range []int64{100, 2, 10} { // scrambled on purpose
		for _, i := range []uint32{1, 2, 0} {
			all = append(all, f17Result(h, i, f17Signer, f17Recipient))
		}
	}
	all = append(all, f17Result(10, 3, f17Other1, f17Other2))
	// first half via AddBatch
	half := len(all) / 2
	b := txindex.NewBatch(int64(half))
	for i := 0; i < half; i++ {
		// Batch.Add places by result.Index, which is not unique across heights; fill Ops directly
		b.Ops[i] = all[i]
	}
	require.NoError(t, idx.AddBatch(b))
	// second half via Index
	for _, r := range all[half:] {
		require.NoError(t, idx.Index(r))
	}
	return idx
}

func f17Search(t *testing.T, idx *TransactionIndexer, q string, size, skip int, sort string) ([]string, int) {
	t.Helper()
	qq := query.MustParse(q)
	qq.AddPage(size, skip, sort) // exactly what rpc/core/tx.go TxSearch of the pokt tendermint fork does
	res, total, err := idx.Search(context.Background(), qq)
	require.NoError(t, err, q)
	out := make([]string, 0, len(res))
	for _, r := range res {
		require.NotNil(t, r)
		out = append(out, fmt.Sprintf("%d/%d", r.Height, r.Index))
	}
	return out, total
}

func f17Hex(a Address) string { return strings.ToLower(a.String()) }

var (
	// (height/index) of the 9 fixture txs of S->R in ascending (height, index) order
	f17Asc = []string{"2/0", "2/1", "2/2", "10/0", "10/1", "10/2", "100/0", "100/1", "100/2"}
)

func f17Reverse(in []string) []string {
	out := make([]string, len(in))
	for i := range in {
		out[len(in)-1-i] = in[i]
	}
	return out
}

// (a) SORT DIRECTIONS ARE SWAPPED.
// API contract (app/query.go checkSort, doc/specs/rpc-spec.yaml `sort can be "asc" or (Default) "desc"`,
// doc/specs/cli/query.md `<order=(asc | desc)>`): "asc" = ascending (height, index), "desc" = descending.
// Actual: PrefixIterator maps "asc" -> db.ReverseIterator and "desc" -> db.Iterator, while the ELEN encoded
// keys make the FORWARD iterator the ascending one. So "asc" returns newest-first and "desc" oldest-first.
func TestF17_A_SortDirectionsSwapped(t *testing.T) {
	idx := f17Fixture(t)

	// sanity: the key encoding itself is ascending under a forward iteration (so the bug is in the
	// order->iterator mapping, not in the encoding)
	it, err := idx.store.Iterator(prefixKeyForSigner(f17Signer), endKey(prefixKeyForSigner(f17Signer)))
	require.NoError(t, err)
	var fwd []string
	for ; it.Valid(); it.Next() {
		r, err := idx.Get(it.Value())
		require.NoError(t, err)
		fwd = append(fwd, fmt.Sprintf("%d/%d", r.Height, r.Index))
	}
	it.Close()
	require.Equal(t, f17Asc, fwd, "forward db iteration over the signer index is ascending (height,index)")

	queries := map[string][]string{
		// query -> expected ascending order of the matches
		fmt.Sprintf("tx.signer='%s'", f17Hex(f17Signer)):       f17Asc,
		fmt.Sprintf("tx.recipient='%s'", f17Hex(f17Recipient)): f17Asc,
		"tx.height=10": {"10/0", "10/1", "10/2", "10/3"}, // includes the noise tx 10/3
	}
	for q, asc := range queries {
		gotAsc, totalAsc := f17Search(t, idx, q, 100, 0, SortAscending)
		gotDesc, totalDesc := f17Search(t, idx, q, 100, 0, SortDescending)
		t.Logf("%-62s sort=asc  -> %v (total %d)", q, gotAsc, totalAsc)
		t.Logf("%-62s sort=desc -> %v (total %d)", q, gotDesc, totalDesc)

		// BAD BEHAVIOUR: "asc" yields DESCENDING (height, index) ...
		require.Equal(t, f17Reverse(asc), gotAsc, `sort="asc" returns descending order for %s`, q)
		// ... and "desc" yields ASCENDING (height, index).
		require.Equal(t, asc, gotDesc, `sort="desc" returns ascending order for %s`, q)
		require.Equal(t, len(asc), totalAsc)
		require.Equal(t, len(asc), totalDesc)
	}
}

// (b) HEIGHT-QUALIFIED ADDRESS QUERIES ARE TOO WIDE.
// "tx.signer='S' AND tx.height=H" must return only S's txs AT height H (that is what the query language
// says, and what a tendermint kv indexer returns). Actual: the prefix is "tx.signer/S/<H>" without trailing
// separator and endKey() replaces the last segment - the height itself - by MAX, so the scanned range is
// [S/H, S/MAX): every tx of S at any height >= H. `total` is inflated the same way.
func TestF17_B_HeightQualifiedAddressQueryTooWide(t *testing.T) {
	idx := f17Fixture(t)

	// the range really is [addr/H, addr/MAX)
	p := prefixKeyForSignerAndHeight(f17Signer, 10)
	t.Logf("prefix = %s", p)
	t.Logf("endKey = %s", endKey(p))
	require.Equal(t, string(endKey(prefixKeyForSigner(f17Signer))), string(endKey(p)),
		"endKey of the (signer,height) prefix equals endKey of the signer-only prefix: the height bound is lost")

	type tc struct {
		q            string
		wantCorrect  []string // what an exact tx.height=H filter would return (ascending)
		gotCurrently []string // what the current code returns (ascending)
	}
	at10 := []string{"10/0", "10/1", "10/2"}
	from10 := []string{"10/0", "10/1", "10/2", "100/0", "100/1", "100/2"}
	cases := []tc{
		{fmt.Sprintf("tx.signer='%s' AND tx.height=10", f17Hex(f17Signer)), at10, from10},
		{fmt.Sprintf("tx.recipient='%s' AND tx.height=10", f17Hex(f17Recipient)), at10, from10},
		// H=2 (the lowest height): everything
		{fmt.Sprintf("tx.signer='%s' AND tx.height=2", f17Hex(f17Signer)), []string{"2/0", "2/1", "2/2"}, f17Asc},
		// a height at which the address has NO tx at all still returns the later ones
		{fmt.Sprintf("tx.signer='%s' AND tx.height=11", f17Hex(f17Signer)), []string{}, []string{"100/0", "100/1", "100/2"}},
		{fmt.Sprintf("tx.recipient='%s' AND tx.height=50", f17Hex(f17Recipient)), []string{}, []string{"100/0", "100/1", "100/2"}},
	}
	for _, c := range cases {
		// "desc" is the forward iterator today, see (a); only the SET matters here
		got, total := f17Search(t, idx, c.q, 100, 0, SortDescending)
		t.Logf("%s\n\t\treturned %v total=%d ; an exact height filter would return %v total=%d", c.q, got, total, c.wantCorrect, len(c.wantCorrect))
		require.ElementsMatch(t, c.gotCurrently, got, c.q)
		require.Equal(t, len(c.gotCurrently), total, "total is inflated too: %s", c.q)
		require.NotEqual(t, len(c.wantCorrect), len(got), "BAD BEHAVIOUR: more than the txs at exactly that height: %s", c.q)
		other, _ := f17Search(t, idx, c.q, 100, 0, SortAscending)
		require.ElementsMatch(t, got, other, "same (too wide) set for both orders")
	}

	// The height-only query is NOT affected (its prefix ends in "/", so endKey keeps the height): control.
	got, total := f17Search(t, idx, "tx.height=10", 100, 0, SortDescending)
	require.ElementsMatch(t, []string{"10/0", "10/1", "10/2", "10/3"}, got) // order-agnostic, see (a)
	require.Equal(t, 4, total)
}

// (c) PAGINATION - REFUTED. For every page size s and every skip k=(page-1)*s the pages neither skip nor repeat
// entries, and `total` always equals the number of entries in the scanned range, for both orders.
// (This test is order-agnostic: it compares the concatenation of the pages with the unpaginated answer of the
// same sort value, so it passes with and without the repair of (a)/(b).)
func TestF17_C_PaginationConsistent(t *testing.T) {
	idx := f17Fixture(t)
	queries := map[string]int{
		fmt.Sprintf("tx.signer='%s'", f17Hex(f17Signer)):       9,
		fmt.Sprintf("tx.recipient='%s'", f17Hex(f17Recipient)): 9,
		"tx.height=10": 4,
	}
	for q, matches := range queries {
		for _, sort := range []string{SortAscending, SortDescending} {
			full, fullTotal := f17Search(t, idx, q, 1000, 0, sort)
			require.Equal(t, matches, len(full))
			require.Equal(t, matches, fullTotal)
			for size := 1; size <= matches+1; size++ {
				var concat []string
				for page := 1; ; page++ {
					skip := (page - 1) * size // validateSkipCount of the tendermint fork
					got, total := f17Search(t, idx, q, size, skip, sort)
					require.Equal(t, matches, total, "total independent of size/skip: %s size=%d skip=%d %s", q, size, skip, sort)
					if len(got) == 0 {
						break
					}
					require.LessOrEqual(t, len(got), size)
					concat = append(concat, got...)
				}
				require.Equal(t, full, concat, "pages concatenate to the full list w/o gaps or repeats: %s size=%d %s", q, size, sort)
			}
			// arbitrary skips, not only multiples of size
			for skip := 0; skip <= matches+1; skip++ {
				got, total := f17Search(t, idx, q, 2, skip, sort)
				require.Equal(t, matches, total)
				lo, hi := skip, skip+2
				if lo > matches {
					lo = matches
				}
				if hi > matches {
					hi = matches
				}
				require.Equal(t, append([]string{}, full[lo:hi]...), got, "%s skip=%d %s", q, skip, sort)
			}
		}
	}
	// one concrete, logged sample
	q := fmt.Sprintf("tx.signer='%s'", f17Hex(f17Signer))
	for _, sort := range []string{SortAscending, SortDescending} {
		for page := 1; page <= 4; page++ {
			got, total := f17Search(t, idx, q, 4, (page-1)*4, sort)
			t.Logf("tx.signer=S sort=%-4s size=4 skip=%d -> %v total=%d", sort, (page-1)*4, got, total)
		}
	}
}
