package pocketcore

// Witness test for suspected defect F18:
//
//   property: "each claim is rewarded at most once, and only with a valid proof"
//
//   A MsgClaim carrying EvidenceType = ChallengeEvidence whose merkle root was built over ordinary
//   RelayProof leaves is stored under the *challenge* claim key. A later MsgProof carrying
//   EvidenceType = ChallengeEvidence and a RelayProof leaf is looked up under the challenge key
//   (keeper.ValidateProof), paid through the RelayProof branch of keeper.ExecuteProof, and that branch
//   deletes the claim under the hard coded *relay* key. If nothing rejects the type disagreement, the claim
//   survives and every further MsgProof for it is paid again.
//
// The tests drive the REAL, unchanged handlers (handleClaimMsg / handleProofMsg) and assert the property,
// i.e. they FAIL if the defect is real. A control with matching types (RelayEvidence claim + RelayProof leaf)
// runs the identical flow and must pay exactly once.
//
// The only piece that is simulated is block history: the fixture has a single committed state and no tendermint
// block store, so the context is wrapped to answer PrevCtx / GetPrevBlockHash (same state, requested height,
// deterministic fake block hashes). Everything else (stateless ValidateBasic of both messages, proto wire round trip of
// the MsgProof, ValidateClaim incl. real session generation, SetClaim, ValidateProof incl. merkle verification and
// pseudorandom index, ExecuteProof, minting) is the production code.

import (
	"encoding/hex"
	"encoding/json"
	"fmt"
	"os"
	"testing"
	"time"

	"github.com/pokt-network/pocket-core/codec"
	"github.com/pokt-network/pocket-core/crypto"
	"github.com/pokt-network/pocket-core/store"
	sdk "github.com/pokt-network/pocket-core/types"
	"github.com/pokt-network/pocket-core/types/module"
	apps "github.com/pokt-network/pocket-core/x/apps"
	appsKeeper "github.com/pokt-network/pocket-core/x/apps/keeper"
	appsTypes "github.com/pokt-network/pocket-core/x/apps/types"
	"github.com/pokt-network/pocket-core/x/auth"
	govTypes "github.com/pokt-network/pocket-core/x/gov/types"
	"github.com/pokt-network/pocket-core/x/nodes"
	nodesKeeper "github.com/pokt-network/pocket-core/x/nodes/keeper"
	nodesTypes "github.com/pokt-network/pocket-core/x/nodes/types"
	keep "github.com/pokt-network/pocket-core/x/pocketcore/keeper"
	"github.com/pokt-network/pocket-core/x/pocketcore/types"
	"github.com/stretchr/testify/require"
	abci "github.com/tendermint/tendermint/abci/types"
	"github.com/tendermint/tendermint/libs/log"
	tmtypes "github.com/tendermint/tendermint/types"
	dbm "github.com/tendermint/tm-db"
)

// ---------------------------------------------------------------------------------------------------------------------
// block history shim

// f18Ctx is a real sdk.Context whose history lookups are answered from the single state of the fixture.
// (the alias only renames the embedded field: sdk.Ctx has a method called Context)
type f18Base = sdk.Context

type f18Ctx struct {
	f18Base
}

func f18BlockHash(height int64) []byte {
	return types.Hash([]byte(fmt.Sprintf("f18-last-block-id-of-height-%d", height)))
}

func f18At(base sdk.Context, height int64) f18Ctx {
	h := base.BlockHeader()
	h.Height = height
	h.LastBlockId.Hash = f18BlockHash(height)
	return f18Ctx{f18Base: base.WithBlockHeader(h).WithEventManager(sdk.NewEventManager())}
}

func (c f18Ctx) PrevCtx(height int64) (sdk.Context, error) {
	h := c.f18Base.BlockHeader()
	h.Height = height
	h.LastBlockId.Hash = f18BlockHash(height)
	return c.f18Base.WithBlockHeader(h).SetPrevCtx(true), nil
}

func (c f18Ctx) MustGetPrevCtx(height int64) sdk.Context {
	r, _ := c.PrevCtx(height)
	return r
}

func (c f18Ctx) GetPrevBlockHash(height int64) ([]byte, error) {
	return f18BlockHash(height), nil
}

var _ sdk.Ctx = f18Ctx{}

// ---------------------------------------------------------------------------------------------------------------------
// fixture (copy of createTestInput, but with the module account permissions of app/pocket.go so that minting really
// moves balances, validators registered in the staked-by-chain index so that sessions can be generated, and keys we own)

const f18Chain = "0001"

type f18Fixture struct {
	base        sdk.Context
	ak          auth.Keeper
	nk          nodesKeeper.Keeper
	appk        appsKeeper.Keeper
	k           keep.Keeper
	servicerKey crypto.PrivateKey
	servicer    sdk.Address
	appKey      crypto.PrivateKey
	clientKey   crypto.PrivateKey
}

func f18Input(t *testing.T) f18Fixture {
	sdk.VbCCache = sdk.NewCache(1)
	keyAcc := sdk.NewKVStoreKey(auth.StoreKey)
	keyParams := sdk.ParamsKey
	tkeyParams := sdk.ParamsTKey
	nodesKey := sdk.NewKVStoreKey(nodesTypes.StoreKey)
	appsKey := sdk.NewKVStoreKey(appsTypes.StoreKey)
	pocketKey := sdk.NewKVStoreKey(types.StoreKey)

	db := dbm.NewMemDB()
	ms := store.NewCommitMultiStore(db, false, 5000000)
	ms.MountStoreWithDB(keyAcc, sdk.StoreTypeIAVL, db)
	ms.MountStoreWithDB(keyParams, sdk.StoreTypeIAVL, db)
	ms.MountStoreWithDB(nodesKey, sdk.StoreTypeIAVL, db)
	ms.MountStoreWithDB(appsKey, sdk.StoreTypeIAVL, db)
	ms.MountStoreWithDB(pocketKey, sdk.StoreTypeIAVL, db)
	ms.MountStoreWithDB(tkeyParams, sdk.StoreTypeTransient, db)
	require.Nil(t, ms.LoadLatestVersion())

	ctx := sdk.NewContext(ms, abci.Header{ChainID: "test-chain"}, false, log.NewNopLogger())
	ctx = ctx.WithConsensusParams(&abci.ConsensusParams{
		Validator: &abci.ValidatorParams{PubKeyTypes: []string{tmtypes.ABCIPubKeyTypeEd25519}},
	})
	ctx = ctx.WithBlockHeader(abci.Header{
		ChainID:     "test-chain",
		Height:      1,
		Time:        time.Time{},
		LastBlockId: abci.BlockID{Hash: f18BlockHash(1)},
	})
	cdc := makeTestCodec()

	// same permissions as app/pocket.go
	maccPerms := map[string][]string{
		auth.FeeCollectorName:     {auth.Burner, auth.Minter, auth.Staking},
		nodesTypes.StakedPoolName: {auth.Burner, auth.Minter, auth.Staking},
		appsTypes.StakedPoolName:  {auth.Burner, auth.Minter, auth.Staking},
		govTypes.DAOAccountName:   {auth.Burner, auth.Minter, auth.Staking},
		nodesTypes.ModuleName:     {auth.Burner, auth.Minter, auth.Staking},
	}
	hb := types.HostedBlockchains{M: map[string]types.HostedBlockchain{f18Chain: {ID: f18Chain, URL: "https://www.google.com:443"}}}

	ak := auth.NewKeeper(cdc, keyAcc, sdk.NewSubspace(auth.DefaultParamspace), maccPerms)
	nk := nodesKeeper.NewKeeper(cdc, nodesKey, ak, sdk.NewSubspace(nodesTypes.DefaultParamspace), "pos")
	appk := appsKeeper.NewKeeper(cdc, appsKey, nk, ak, nil, sdk.NewSubspace(appsTypes.DefaultParamspace), appsTypes.ModuleName)
	k := keep.NewKeeper(pocketKey, cdc, ak, nk, appk, &hb, sdk.NewSubspace(types.DefaultParamspace))
	appk.PocketKeeper = k
	moduleManager := module.NewManager(auth.NewAppModule(ak), nodes.NewAppModule(nk), apps.NewAppModule(appk))
	moduleManager.InitGenesis(ctx, ModuleBasics.DefaultGenesis())
	appk.SetParams(ctx, appsTypes.DefaultParams())
	np := nodesTypes.DefaultParams()
	// PIP-22 parameters are not part of DefaultParams (set the way x/nodes/keeper/reward_test.go does)
	np.ServicerStakeFloorMultiplier = nodesTypes.DefaultServicerStakeFloorMultiplier
	np.ServicerStakeWeightMultiplier = nodesTypes.DefaultServicerStakeWeightMultiplier
	np.ServicerStakeFloorMultiplierExponent = sdk.NewDec(1)
	np.ServicerStakeWeightCeiling = 60000000000
	nk.SetParams(ctx, np)
	pp := types.DefaultParams()
	pp.SupportedBlockchains = []string{f18Chain}
	k.SetParams(ctx, pp)

	// 5 staked servicers on the chain (session node count is 5); the first is "ours"
	stake := sdk.NewInt(15000000000) // one full PIP-22 bin, so that the reward is non zero also with RSCAL active
	var servicerKey crypto.PrivateKey
	total := sdk.ZeroInt()
	for i := 0; i < 5; i++ {
		pk := crypto.GenerateEd25519PrivKey()
		if i == 0 {
			servicerKey = pk
		}
		addr := sdk.Address(pk.PublicKey().Address())
		val := nodesTypes.NewValidator(addr, pk.PublicKey(), []string{f18Chain}, "https://www.google.com:443", stake, addr)
		nk.SetValidator(ctx, val)
		nk.SetStakedValidatorByChains(ctx, val)
		nk.SetValidatorSigningInfo(ctx, addr, nodesTypes.ValidatorSigningInfo{Address: addr, StartHeight: 1, JailedUntil: time.Unix(0, 0)})
		total = total.Add(stake)
	}
	pool := nk.GetStakedPool(ctx)
	require.NotNil(t, pool)
	require.Nil(t, pool.SetCoins(sdk.NewCoins(sdk.NewCoin(nk.StakeDenom(ctx), total))))
	ak.SetModuleAccount(ctx, pool)

	// one staked application whose key we own (it signs the AATs)
	appKey := crypto.GenerateEd25519PrivKey()
	appStake := sdk.NewInt(1000000000000)
	app := appsTypes.NewApplication(sdk.Address(appKey.PublicKey().Address()), appKey.PublicKey(), []string{f18Chain}, appStake)
	app.MaxRelays = appk.CalculateAppRelays(ctx, app)
	appk.SetApplication(ctx, app)
	appk.SetStakedApplication(ctx, app)
	apool := appk.GetStakedPool(ctx)
	require.NotNil(t, apool)
	require.Nil(t, apool.SetCoins(sdk.NewCoins(sdk.NewCoin(appk.StakeDenom(ctx), appStake))))
	ak.SetModuleAccount(ctx, apool)

	// the servicer is a local pocket node: this initialises the global evidence / session caches used by ValidateClaim
	types.CleanPocketNodes()
	types.AddPocketNode(servicerKey, log.NewNopLogger())
	types.InitConfig(&hb, log.NewNopLogger(), sdk.DefaultTestingPocketConfig())
	types.ClearEvidence(types.GlobalEvidenceCache)
	types.ClearSessionCache(types.GlobalSessionCache)
	t.Cleanup(func() {
		types.CleanPocketNodes()
		_ = os.RemoveAll("data")
	})

	return f18Fixture{
		base: ctx, ak: ak, nk: nk, appk: appk, k: k,
		servicerKey: servicerKey, servicer: sdk.Address(servicerKey.PublicKey().Address()),
		appKey: appKey, clientKey: crypto.GenerateEd25519PrivKey(),
	}
}

// a fully valid, client signed relay proof (passes RelayProof.ValidateBasic)
func (f f18Fixture) relayProof(entropy int64) types.RelayProof {
	aat := types.AAT{
		Version:              "0.0.1",
		ApplicationPublicKey: f.appKey.PublicKey().RawString(),
		ClientPublicKey:      f.clientKey.PublicKey().RawString(),
	}
	sig, err := f.appKey.Sign(aat.Hash())
	if err != nil {
		panic(err)
	}
	aat.ApplicationSignature = hex.EncodeToString(sig)
	p := types.RelayProof{
		Entropy:            entropy,
		RequestHash:        hex.EncodeToString(types.Hash([]byte(fmt.Sprintf("request-%d", entropy)))),
		SessionBlockHeight: 1,
		ServicerPubKey:     f.servicerKey.PublicKey().RawString(),
		Blockchain:         f18Chain,
		Token:              aat,
	}
	cs, err := f.clientKey.Sign(p.Hash())
	if err != nil {
		panic(err)
	}
	p.Signature = hex.EncodeToString(cs)
	return p
}

// same computation as keeper.getPseudorandomIndex (unexported)
func (f f18Fixture) requiredIndex(ctx sdk.Ctx, total int64, header types.SessionHeader) int64 {
	sessionCtx, _ := ctx.PrevCtx(header.SessionBlockHeight)
	proofHeight := header.SessionBlockHeight + f.k.ClaimSubmissionWindow(sessionCtx)*f.k.BlocksPerSession(sessionCtx)
	bh, _ := ctx.GetPrevBlockHash(proofHeight)
	r, err := json.Marshal(struct {
		BlockHash string
		Header    string
	}{hex.EncodeToString(bh), header.HashString()})
	if err != nil {
		panic(err)
	}
	return types.PseudorandomSelection(sdk.NewInt(total), types.Hash(r)).Int64()
}

type f18Step struct {
	ok             bool
	log            string
	paidToServicer sdk.BigInt // balance delta of the servicer account
	minted         sdk.BigInt // total supply delta
	claimRelayKey  bool       // claim present under the RelayEvidence key after the step
	claimChalKey   bool       // claim present under the ChallengeEvidence key after the step
}

func (s f18Step) String() string {
	return fmt.Sprintf("handlerOK=%v paidToServicer=%s minted=%s claimUnderRelayKey=%v claimUnderChallengeKey=%v log=%q",
		s.ok, s.paidToServicer, s.minted, s.claimRelayKey, s.claimChalKey, s.log)
}

// runs the whole life cycle with the given evidence type on both messages and RelayProof leaves; returns what happened
func f18Run(t *testing.T, msgEvidenceType types.EvidenceType) (claimStep f18Step, proofSteps []f18Step) {
	const numRelays = 10
	f := f18Input(t)
	header := types.SessionHeader{
		ApplicationPubKey:  f.appKey.PublicKey().RawString(),
		Chain:              f18Chain,
		SessionBlockHeight: 1,
	}
	// ---- the servicer's local evidence: N ordinary relay proofs
	for i := int64(1); i <= numRelays; i++ {
		rp := f.relayProof(i)
		require.Nil(t, rp.ValidateBasic(), "FIXTURE: relay proof must be valid")
		types.SetProof(header, types.RelayEvidence, rp, sdk.NewInt(100000), types.GlobalEvidenceCache)
	}
	evidence, err := types.GetEvidence(header, types.RelayEvidence, sdk.NewInt(100000), types.GlobalEvidenceCache)
	require.Nil(t, err)
	require.Equal(t, int64(numRelays), evidence.NumOfProofs)
	root := evidence.GenerateMerkleRoot(header.SessionBlockHeight, 100000, types.GlobalEvidenceCache)

	bps := f.k.BlocksPerSession(f.base)
	window := f.k.ClaimSubmissionWindow(f.base)
	claimHeight := header.SessionBlockHeight + bps + 3         // session over, claim not yet mature
	proofHeight := header.SessionBlockHeight + window*bps + 1 // first height at which the claim is mature
	t.Logf("blocksPerSession=%d claimSubmissionWindow=%d claimExpiration=%d sessions; claim at height %d, proofs from height %d",
		bps, window, f.k.ClaimExpiration(f.base), claimHeight, proofHeight)

	snapshot := func(ctx sdk.Ctx) (bal, supply sdk.BigInt) {
		return f.nk.GetBalance(ctx, f.servicer), f.nk.TotalTokens(ctx)
	}
	observe := func(ctx sdk.Ctx, res sdk.Result, bal0, sup0 sdk.BigInt) f18Step {
		bal1, sup1 := snapshot(ctx)
		_, r := f.k.GetClaim(ctx, f.servicer, header, types.RelayEvidence)
		_, c := f.k.GetClaim(ctx, f.servicer, header, types.ChallengeEvidence)
		return f18Step{ok: res.IsOK(), log: res.Log, paidToServicer: bal1.Sub(bal0), minted: sup1.Sub(sup0), claimRelayKey: r, claimChalKey: c}
	}

	// ---- MsgClaim through the real claim handler
	claimMsg := types.MsgClaim{
		SessionHeader: header,
		MerkleRoot:    root,
		TotalProofs:   numRelays,
		FromAddress:   f.servicer,
		EvidenceType:  msgEvidenceType,
	}
	require.Nil(t, claimMsg.ValidateBasic(), "MsgClaim.ValidateBasic (stateless check run by the ante/baseapp before the handler)")
	cctx := f18At(f.base, claimHeight)
	b0, s0 := snapshot(cctx)
	claimStep = observe(cctx, handleClaimMsg(cctx, f.k, claimMsg), b0, s0)
	t.Logf("claim   (EvidenceType=%d): %s", msgEvidenceType, claimStep)

	// ---- MsgProof (RelayProof leaf at the required pseudorandom index) through the real proof handler, twice
	for n := int64(0); n < 2; n++ {
		pctx := f18At(f.base, proofHeight+n)
		idx := f.requiredIndex(pctx, numRelays, header)
		mp, leaf := evidence.GenerateMerkleProof(header.SessionBlockHeight, int(idx), 100000)
		if _, isRelay := leaf.(types.RelayProof); !isRelay {
			t.Fatalf("FIXTURE: leaf is %T, wanted RelayProof", leaf)
		}
		proofMsg := types.MsgProof{MerkleProof: mp, Leaf: leaf, EvidenceType: msgEvidenceType}
		require.Nil(t, proofMsg.ValidateBasic(), "MsgProof.ValidateBasic (stateless check run before the handler)")
		// wire round trip: the leaf type and the evidence type travel independently
		bz, err := proofMsg.Marshal()
		require.Nil(t, err)
		var decoded types.MsgProof
		require.Nil(t, decoded.Unmarshal(bz))
		require.Equal(t, msgEvidenceType, decoded.EvidenceType)
		if _, isRelay := decoded.Leaf.(types.RelayProof); !isRelay {
			if _, isRelayPtr := decoded.Leaf.(*types.RelayProof); !isRelayPtr {
				t.Fatalf("FIXTURE: decoded leaf is %T", decoded.Leaf)
			}
		}
		b0, s0 := snapshot(pctx)
		st := observe(pctx, handleProofMsg(pctx, f.k, decoded), b0, s0)
		t.Logf("proof#%d (EvidenceType=%d, leaf=%T, height=%d, index=%d): %s", n+1, msgEvidenceType, decoded.Leaf, pctx.BlockHeight(), idx, st)
		proofSteps = append(proofSteps, st)
	}
	return
}

// the property, asserted on what happened
func f18AssertProperty(t *testing.T, claimStep f18Step, proofs []f18Step) {
	if !claimStep.ok {
		t.Logf("claim was rejected by the handler: the scenario is blocked at the claim (%s)", claimStep.log)
		for i, p := range proofs {
			if p.ok || !p.paidToServicer.IsZero() || !p.minted.IsZero() {
				t.Errorf("PROPERTY VIOLATED: proof #%d paid although the claim was rejected: %s", i+1, p)
			}
		}
		return
	}
	first, second := proofs[0], proofs[1]
	if first.ok {
		if first.claimRelayKey || first.claimChalKey {
			t.Errorf("PROPERTY VIOLATED: the claim is still in state after it was rewarded (first proof): %s", first)
		}
	}
	if second.ok {
		t.Errorf("PROPERTY VIOLATED: a second MsgProof for the same claim was accepted: %s", second)
	}
	if !second.paidToServicer.IsZero() || !second.minted.IsZero() {
		t.Errorf("PROPERTY VIOLATED: the claim was rewarded a second time: first paid %s (minted %s), second paid %s (minted %s)",
			first.paidToServicer, first.minted, second.paidToServicer, second.minted)
	}
	if second.claimRelayKey || second.claimChalKey {
		t.Errorf("PROPERTY VIOLATED: the claim is still in state after the second proof: %s", second)
	}
}

type f18Network struct {
	name  string
	setup func() (restore func())
}

func f18Networks() []f18Network {
	return []f18Network{
		{name: "fixture-defaults(no-upgrades)", setup: func() func() { return func() {} }},
		{name: "all-upgrades-active", setup: func() func() {
			oldMode, oldMap := codec.TestMode, codec.UpgradeFeatureMap
			m := map[string]int64{}
			for _, key := range []string{
				codec.UpgradeCodecUpdateKey, codec.ValidatorSplitUpdateKey, codec.NonCustodialUpdateKey, codec.EnforceMaxChainsUpdateKey,
				codec.TxCacheEnhancementKey, codec.MaxRelayProtKey, codec.ReplayBurnKey, codec.BlockSizeModifyKey, codec.RSCALKey,
				codec.VEDITKey, codec.OutputAddressEditKey, codec.ClearUnjailedValSessionKey, codec.PerChainRTTM, codec.AppTransferKey,
				codec.RewardDelegatorsKey,
			} {
				m[key] = 1
			}
			codec.UpgradeFeatureMap = m
			codec.TestMode = -3
			return func() { codec.TestMode, codec.UpgradeFeatureMap = oldMode, oldMap }
		}},
	}
}

// CONTROL: matching types. Must pay exactly once and delete the claim; the second proof must find no claim.
func TestF18_Control_RelayClaim_RelayLeaf(t *testing.T) {
	for _, n := range f18Networks() {
		t.Run(n.name, func(t *testing.T) {
			defer n.setup()()
			claimStep, proofs := f18Run(t, types.RelayEvidence)
			require.True(t, claimStep.ok, "CONTROL: claim must be accepted")
			require.True(t, claimStep.claimRelayKey, "CONTROL: claim must be stored under the relay key")
			require.False(t, claimStep.claimChalKey)
			require.True(t, proofs[0].ok, "CONTROL: first proof must be accepted")
			require.True(t, proofs[0].paidToServicer.IsPositive(), "CONTROL: first proof must pay the servicer")
			require.False(t, proofs[1].ok, "CONTROL: second proof must be rejected")
			f18AssertProperty(t, claimStep, proofs)
		})
	}
}

// WITNESS: ChallengeEvidence on both messages, RelayProof leaves. Asserts the property => FAILS if the defect is real.
func TestF18_Witness_ChallengeClaim_RelayLeaf(t *testing.T) {
	for _, n := range f18Networks() {
		t.Run(n.name, func(t *testing.T) {
			defer n.setup()()
			claimStep, proofs := f18Run(t, types.ChallengeEvidence)
			f18AssertProperty(t, claimStep, proofs)
		})
	}
}
