package iavl

import (
	"bytes"
	"encoding/hex"
	"testing"

	"github.com/stretchr/testify/require"
	dbm "github.com/tendermint/tm-db"

	"github.com/pokt-network/pocket-core/store/rootmulti/heightcache"
	"github.com/pokt-network/pocket-core/store/types"
)

// F02(a) step 2 - witness: PASSES while the suspected behaviour is present.
//
// The IAVL store used for every module store writes straight into the working
// tree (Store.Set -> MutableTree.Set, no sorting write-buffer in between), and
// the shape of an IAVL tree - and therefore its root hash - depends on the
// ORDER in which NEW keys are inserted.  Same final key/value set, different
// insertion order => different root hash after Commit().
func TestF02_IAVLRootHashDependsOnInsertOrderOfNewKeys(t *testing.T) {
	// keys shaped like auth account keys: 0x01 | 20-byte address
	key := func(b byte) []byte {
		return append([]byte{0x01}, bytes.Repeat([]byte{b}, 20)...)
	}
	kA, kB, kC := key(0x11), key(0x22), key(0x33)
	val := []byte("same-value")

	commitWithOrder := func(order ...[]byte) types.CommitID {
		tree, err := NewMutableTree(dbm.NewMemDB(), cacheSize)
		require.Nil(t, err)
		st := UnsafeNewStore(tree, numRecent, storeEvery, heightcache.InvalidCache{})
		for _, k := range order {
			require.Nil(t, st.Set(k, val))
		}
		return st.Commit()
	}

	id1 := commitWithOrder(kA, kB, kC)
	id2 := commitWithOrder(kB, kC, kA)
	id1again := commitWithOrder(kA, kB, kC)

	t.Logf("insert A,B,C -> %s", hex.EncodeToString(id1.Hash))
	t.Logf("insert B,C,A -> %s", hex.EncodeToString(id2.Hash))

	// sanity: same order is reproducible
	require.Equal(t, id1.Hash, id1again.Hash)
	require.Equal(t, id1.Version, id2.Version)
	// the witness: same key/value SET, different ORDER, different root hash
	require.NotEqual(t, id1.Hash, id2.Hash,
		"root hash is independent of insertion order - suspected behaviour NOT present")
}
