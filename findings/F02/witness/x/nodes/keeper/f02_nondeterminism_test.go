package keeper

// F02 witnesses.  Every test in this file PASSES while the suspected
// behaviour is present in the (unchanged) production code.
//
//   (a) TestF02a_RelayRewardSplit_AppHashDependsOnMapIterationOrder
//       TestF02a_BlockRewardSplit_AppHashDependsOnMapIterationOrder
//   (b) TestF02b_UnjailVerdictDependsOnWallClock

import (
	"bytes"
	"encoding/hex"
	"strings"
	"testing"
	"time"

	"github.com/pokt-network/pocket-core/codec"
	"github.com/pokt-network/pocket-core/crypto"
	"github.com/pokt-network/pocket-core/store"
	sdk "github.com/pokt-network/pocket-core/types"
	"github.com/pokt-network/pocket-core/types/module"
	"github.com/pokt-network/pocket-core/x/auth"
	govTypes "github.com/pokt-network/pocket-core/x/gov/types"
	"github.com/pokt-network/pocket-core/x/nodes/types"
	"github.com/stretchr/testify/require"
	abci "github.com/tendermint/tendermint/abci/types"
	"github.com/tendermint/tendermint/libs/log"
	tmtypes "github.com/tendermint/tendermint/types"
	dbm "github.com/tendermint/tm-db"
)

// f02Input is createTestInput (common_test.go) made fully DETERMINISTIC: no
// randomly generated accounts, so two fresh instances start from
// byte-identical state.  It also hands back the CommitMultiStore so the test
// can Commit() and read the app hash.  Like baseapp's deliverState context the
// returned ctx is built directly over the ROOT multistore (no cache layer), so
// keeper writes go straight into the IAVL working trees in program order.
func f02Input(t *testing.T) (sdk.Context, Keeper, sdk.CommitMultiStore) {
	keyAcc := sdk.NewKVStoreKey(auth.StoreKey)
	keyParams := sdk.ParamsKey
	tkeyParams := sdk.ParamsTKey
	keyPOS := sdk.NewKVStoreKey(types.ModuleName)
	db := dbm.NewMemDB()
	ms := store.NewCommitMultiStore(db, false, 5000000)
	ms.MountStoreWithDB(keyAcc, sdk.StoreTypeIAVL, nil)          // nil => per-store prefix, like the real app
	ms.MountStoreWithDB(keyPOS, sdk.StoreTypeIAVL, nil)          // nil => per-store prefix, like the real app
	ms.MountStoreWithDB(keyParams, sdk.StoreTypeIAVL, nil)       // nil => per-store prefix, like the real app
	ms.MountStoreWithDB(tkeyParams, sdk.StoreTypeTransient, nil) // nil => per-store prefix, like the real app
	require.Nil(t, ms.LoadLatestVersion())

	ctx := sdk.NewContext(ms, abci.Header{ChainID: "test-chain"}, false, log.NewNopLogger()).WithAppVersion("0.0.0")
	ctx = ctx.WithConsensusParams(&abci.ConsensusParams{
		Validator: &abci.ValidatorParams{PubKeyTypes: []string{tmtypes.ABCIPubKeyTypeEd25519}},
	})
	cdc := makeTestCodec()
	maccPerms := map[string][]string{
		auth.FeeCollectorName:   nil,
		types.StakedPoolName:    {auth.Burner, auth.Staking, auth.Minter},
		types.ModuleName:        {auth.Burner, auth.Staking, auth.Minter},
		govTypes.DAOAccountName: {auth.Burner, auth.Staking, auth.Minter},
	}
	ak := auth.NewKeeper(cdc, keyAcc, sdk.NewSubspace(auth.DefaultParamspace), maccPerms)
	module.NewManager(auth.NewAppModule(ak)).InitGenesis(ctx, ModuleBasics.DefaultGenesis())
	k := NewKeeper(cdc, keyPOS, ak, sdk.NewSubspace(DefaultParamspace), "pos")
	k.PocketKeeper = MockPocketKeeper{}
	k.SetParams(ctx, types.DefaultParams())
	return ctx, k, ms
}

func f02Addr(b byte) sdk.Address { return sdk.Address(bytes.Repeat([]byte{b}, sdk.AddrLen)) }

// A fixed validator (fixed key => fixed address) with reward delegators whose
// accounts do NOT exist yet: their first credit creates a NEW key in the
// account store.
func f02Validator(delegators map[string]uint32) types.Validator {
	var pub crypto.Ed25519PublicKey
	copy(pub[:], bytes.Repeat([]byte{0x42}, len(pub)))
	return types.Validator{
		Address:          sdk.Address(pub.Address()),
		PublicKey:        pub,
		StakedTokens:     sdk.NewInt(100000000000),
		Status:           sdk.Staked,
		ServiceURL:       "https://www.google.com:443",
		Chains:           []string{"0001"},
		OutputAddress:    f02Addr(0xEE),
		RewardDelegators: delegators,
	}
}

func f02ThreeFreshDelegators() map[string]uint32 {
	return map[string]uint32{
		f02Addr(0x11).String(): 10,
		f02Addr(0x55).String(): 20,
		f02Addr(0x99).String(): 30,
	}
}

// For the block-reward scenario the pre-existing account tree has another
// shape (fee collector / DAO accounts are touched first).  Insert order only
// changes the shape when the new keys are neighbours in the tree, so a set of
// four neighbouring keys is used here (with 11/55/99 all orders happen to
// rebalance to the same shape in that particular tree).
func f02FourFreshDelegators() map[string]uint32 {
	return map[string]uint32{
		f02Addr(0x11).String(): 10,
		f02Addr(0x22).String(): 20,
		f02Addr(0x33).String(): 30,
		f02Addr(0x44).String(): 5,
	}
}

// payout order as observed from the emitted "transfer" events
func f02PayoutOrder(em *sdk.EventManager) string {
	var order []string
	for _, ev := range em.Events() {
		if ev.Type != "transfer" {
			continue
		}
		for _, a := range ev.Attributes {
			if string(a.Key) == "recipient" {
				order = append(order, string(a.Value)[:2])
			}
		}
	}
	return strings.Join(order, ">")
}

type f02Run struct{ order, hash string }

// number of fresh keepers per scenario.  For maps with <= 8 entries Go starts
// the iteration at a random one of 8 slots, so each non-default rotation shows
// up with p ~ 1/8 per run; (7/8)^200 ~ 2.5e-12 => the witness is not flaky.
const f02N = 200

// runs `action` in `n` fresh, byte-identical keepers and returns per run the
// payout order (from events) and the committed app hash.
func f02Runs(t *testing.T, n int, delegators map[string]uint32,
	action func(ctx sdk.Ctx, k Keeper, v types.Validator)) []f02Run {
	runs := make([]f02Run, 0, n)
	for i := 0; i < n; i++ {
		ctx, k, ms := f02Input(t)
		v := f02Validator(delegators)
		k.SetValidator(ctx, v)
		em := sdk.NewEventManager()
		action(ctx.WithBlockHeight(100).WithEventManager(em), k, v)
		id := ms.Commit()
		runs = append(runs, f02Run{f02PayoutOrder(em), hex.EncodeToString(id.Hash)})
	}
	return runs
}

func f02Check(t *testing.T, name string, runs, control []f02Run) {
	// control: same scenario WITHOUT several fresh delegators is perfectly
	// reproducible => the harness itself is deterministic.
	for _, r := range control {
		require.Equal(t, control[0], r, "control scenario must be deterministic")
	}
	t.Logf("[%s] control (no delegators): %d runs, 1 app hash %s", name, len(control), control[0].hash)

	hashesByOrder := map[string]map[string]int{}
	hashes := map[string]int{}
	for _, r := range runs {
		if hashesByOrder[r.order] == nil {
			hashesByOrder[r.order] = map[string]int{}
		}
		hashesByOrder[r.order][r.hash]++
		hashes[r.hash]++
	}
	for order, hs := range hashesByOrder {
		for h, n := range hs {
			t.Logf("[%s] payout order %-40s -> app hash %s (%d runs)", name, order, h, n)
		}
		// the ONLY thing that varies between runs is the payout order
		require.Len(t, hs, 1, "same payout order must give the same app hash")
	}
	// the witness
	require.Greater(t, len(hashesByOrder), 1,
		"payout order never changed - suspected behaviour NOT present")
	require.Greater(t, len(hashes), 1,
		"app hash identical in all runs - suspected behaviour NOT present")
	t.Logf("[%s] SAME state + SAME input => %d different payout orders, %d different app hashes in %d runs",
		name, len(hashesByOrder), len(hashes), len(runs))
}

// (a) relay rewards: RewardForRelaysPerChain -> SplitNodeRewards -> k.mint.
func TestF02a_RelayRewardSplit_AppHashDependsOnMapIterationOrder(t *testing.T) {
	orig := codec.TestMode
	t.Cleanup(func() { codec.TestMode = orig })
	codec.TestMode = -3 // non-custodial + reward-delegators features active

	action := func(ctx sdk.Ctx, k Keeper, v types.Validator) {
		got := k.RewardForRelaysPerChain(ctx, "0001", sdk.NewInt(1000000), v.Address)
		require.True(t, got.IsPositive())
	}
	control := f02Runs(t, 20, nil, action)
	runs := f02Runs(t, f02N, f02ThreeFreshDelegators(), action)
	f02Check(t, "relay", runs, control)
}

// (a) block rewards: blockReward -> SplitNodeRewards -> AccountKeeper.SendCoins.
func TestF02a_BlockRewardSplit_AppHashDependsOnMapIterationOrder(t *testing.T) {
	orig := codec.TestMode
	t.Cleanup(func() { codec.TestMode = orig })
	codec.TestMode = -3

	action := func(ctx sdk.Ctx, k Keeper, v types.Validator) {
		// put fees into the fee collector (deterministic)
		coins := sdk.NewCoins(sdk.NewCoin(sdk.DefaultStakeDenom, sdk.NewInt(1000000)))
		require.Nil(t, k.AccountKeeper.MintCoins(ctx, types.StakedPoolName, coins))
		require.Nil(t, k.AccountKeeper.SendCoinsFromModuleToModule(ctx, types.StakedPoolName, auth.FeeCollectorName, coins))
		k.blockReward(ctx, v.Address)
	}
	control := f02Runs(t, 20, nil, action)
	runs := f02Runs(t, f02N, f02FourFreshDelegators(), action)
	f02Check(t, "block", runs, control)
}

// (b) ValidateUnjailMessage consults the LOCAL wall clock.
//
// One single state, one single block context, one single message - evaluated
// twice.  The only thing that changes between the two evaluations is the wall
// clock of the machine.  The verdict flips from "rejected" to "accepted".
func TestF02b_UnjailVerdictDependsOnWallClock(t *testing.T) {
	orig := codec.TestMode
	t.Cleanup(func() { codec.TestMode = orig })
	codec.TestMode = -3

	ctx, k, _ := f02Input(t)
	v := f02Validator(nil)
	v.Jailed = true
	k.SetValidator(ctx, v)

	// JailedUntil lies 2s in the wall-clock future of THIS machine ...
	jailedUntil := time.Now().Add(2 * time.Second)
	k.SetValidatorSigningInfo(ctx, v.Address, types.ValidatorSigningInfo{
		Address:     v.Address,
		JailedUntil: jailedUntil,
	})
	// ... but the block being executed is already one minute PAST JailedUntil
	// (e.g. this node's clock lags behind the BFT block time).
	blockCtx := ctx.WithBlockHeight(100).WithBlockHeader(abci.Header{
		ChainID: "test-chain",
		Height:  100,
		Time:    jailedUntil.Add(time.Minute),
	})
	msg := types.MsgUnjail{ValidatorAddr: v.Address, Signer: v.Address}

	// the consensus-relevant (block time) condition is satisfied:
	require.False(t, blockCtx.BlockHeader().Time.Before(jailedUntil))

	// evaluation #1: wall clock < JailedUntil  => REJECTED
	_, err1 := k.ValidateUnjailMessage(blockCtx, msg)
	require.Equal(t, types.ErrValidatorJailed(k.Codespace()), err1,
		"unjail accepted although wall clock < JailedUntil - time.Now() check NOT present")

	// nothing changes but the wall clock
	time.Sleep(time.Until(jailedUntil) + 300*time.Millisecond)

	// evaluation #2: identical ctx, state and msg => ACCEPTED
	addr, err2 := k.ValidateUnjailMessage(blockCtx, msg)
	require.Nil(t, err2)
	require.Equal(t, v.Address, addr)
	t.Logf("same state/block/msg: verdict #1 = %v ; verdict #2 (after waiting) = accepted", err1)
}
