package types

import (
	"strings"
	"testing"

	"github.com/stretchr/testify/require"
)

// F02(a) step 1 - witness: PASSES while the suspected behaviour is present.
//
// NormalizeRewardDelegators builds its result by ranging over a Go map without
// sorting.  Go randomises map iteration order per `range` statement, so the
// same (valid) delegator map is returned in different orders from call to
// call - inside ONE process, and therefore also across nodes.
//
// The returned slice is the order in which keeper.SplitNodeRewards pays the
// delegators (state writes + events), so this order is consensus relevant.
func TestF02_NormalizeRewardDelegatorsOrderIsNotDeterministic(t *testing.T) {
	delegators := map[string]uint32{
		"1111111111111111111111111111111111111111": 10,
		"2222222222222222222222222222222222222222": 20,
		"3333333333333333333333333333333333333333": 30,
		"4444444444444444444444444444444444444444": 5,
	}

	const calls = 1000
	seen := map[string]int{}
	for i := 0; i < calls; i++ {
		normalized, err := NormalizeRewardDelegators(delegators)
		require.Nil(t, err)
		require.Len(t, normalized, len(delegators))
		var sb strings.Builder
		for _, p := range normalized {
			sb.WriteString(p.Address.String()[:1]) // first hex digit identifies it
		}
		seen[sb.String()]++
	}

	t.Logf("distinct orders returned for the SAME map in %d calls: %d", calls, len(seen))
	for order, n := range seen {
		t.Logf("  order %s : %d times", order, n)
	}

	// A deterministic implementation would always return exactly one order.
	require.Greater(t, len(seen), 1,
		"NormalizeRewardDelegators returned a single stable order - suspected behaviour NOT present")
}
