package rootmulti

// F08 witness: the optional in-memory height cache (store/rootmulti/heightcache)
// returns different results from the IAVL tree it fronts.
//
// Every test in this file PASSES while the defective behaviour is present: the
// assertions on the CACHED store pin the WRONG results, the assertions on the
// UNCACHED store pin the results of the IAVL tree (the reference). Both stores
// are built from exactly the same committed history; the only difference is the
// `cache` argument of rootmulti.NewStore (true vs false).
//
//	go test -vet=off -count=1 -run 'TestF08_' ./store/rootmulti
//
// History used by all tests (one IAVL sub store "s"):
//
//	height 1: a=1 b=2 c=3 d=4
//	height 2: delete b, e=5
//	height 3: f=6
//
// Reads are done at the PAST heights 1 and 2 through rs.LoadLazyVersion(h)
// (the path used by Ctx.PrevCtx) and rs.CacheMultiStoreWithVersion(h).

import (
	"fmt"
	"testing"

	"github.com/stretchr/testify/require"
	dbm "github.com/tendermint/tm-db"

	"github.com/pokt-network/pocket-core/store/rootmulti/heightcache"
	"github.com/pokt-network/pocket-core/store/types"
)

// f08Build creates a root multi store (with or without the height cache) and
// commits the three-height history described at the top of the file.
func f08Build(t *testing.T, cache bool) (*Store, types.StoreKey) {
	t.Helper()
	db := dbm.NewMemDB()
	ms := NewStore(db, cache, 5000000)
	key := types.NewKVStoreKey("s")
	ms.MountStoreWithDB(key, types.StoreTypeIAVL, nil)
	require.NoError(t, ms.LoadLatestVersion())

	kv := ms.GetCommitKVStore(key)
	for _, p := range [][2]string{{"a", "1"}, {"b", "2"}, {"c", "3"}, {"d", "4"}} {
		require.NoError(t, kv.Set([]byte(p[0]), []byte(p[1])))
	}
	require.Equal(t, int64(1), ms.Commit().Version)

	require.NoError(t, kv.Delete([]byte("b")))
	require.NoError(t, kv.Set([]byte("e"), []byte("5")))
	require.Equal(t, int64(2), ms.Commit().Version)

	require.NoError(t, kv.Set([]byte("f"), []byte("6")))
	require.Equal(t, int64(3), ms.Commit().Version)
	return ms, key
}

// f08At returns the KVStore of sub store "s" at a past height, loaded the same
// way Ctx.PrevCtx does it (LoadLazyVersion -> iavl LazyLoadStore(version, cache)).
func f08At(t *testing.T, ms *Store, key types.StoreKey, height int64) types.KVStore {
	t.Helper()
	lazy, err := ms.LoadLazyVersion(height)
	require.NoError(t, err)
	return (*lazy).(*Store).GetKVStore(key)
}

// f08Drain walks an iterator to exhaustion. It returns the keys seen, and the
// recovered panic value if Valid/Key/Next panicked (nil otherwise).
func f08Drain(it types.Iterator) (keys []string, panicked interface{}) {
	defer func() {
		if r := recover(); r != nil {
			panicked = r
		}
	}()
	keys = []string{}
	for i := 0; it.Valid(); i++ {
		if i > 1000 {
			panic("f08Drain: runaway iterator")
		}
		keys = append(keys, string(it.Key()))
		it.Next()
	}
	return keys, nil
}

func f08IsCacheIterator(it types.Iterator) bool {
	_, ok := it.(*heightcache.MemoryHeightIterator)
	return ok
}

// (a) MemoryCache.Get returns []byte(data[key]) - for a key that is ABSENT at
// the cached height this is an empty NON-nil slice; the tree returns nil.
func TestF08_a_GetAbsentKeyIsNotNil(t *testing.T) {
	plainMS, plainKey := f08Build(t, false)
	cachedMS, cachedKey := f08Build(t, true)

	// never-written key at height 1, and key deleted at height 2 read at height 2
	for _, c := range []struct {
		height int64
		key    string
	}{{1, "zzz"}, {2, "b"}, {1, "e"}} {
		plain := f08At(t, plainMS, plainKey, c.height)
		cached := f08At(t, cachedMS, cachedKey, c.height)

		pv, err := plain.Get([]byte(c.key))
		require.NoError(t, err)
		require.True(t, pv == nil, "reference (tree): absent key must be nil")

		cv, err := cached.Get([]byte(c.key))
		require.NoError(t, err)
		// BAD BEHAVIOUR: non-nil, zero length => `value == nil` absence checks fail.
		require.True(t, cv != nil, "h=%d key=%q: cached Get of absent key is expected (bug) to be non-nil", c.height, c.key)
		require.Len(t, cv, 0)

		// Has() is not served by the cache (MemoryCache.Has always errors), so on
		// the very same store Has says "absent" while Get says "present".
		ch, err := cached.Has([]byte(c.key))
		require.NoError(t, err)
		require.False(t, ch)
	}

	// sanity: present keys do agree, so the cache really holds this height
	pv, _ := f08At(t, plainMS, plainKey, 1).Get([]byte("b"))
	cv, _ := f08At(t, cachedMS, cachedKey, 1).Get([]byte("b"))
	require.Equal(t, []byte("2"), pv)
	require.Equal(t, []byte("2"), cv)

	// Through the cachekv wrapper (CacheMultiStoreWithVersion; this is what a
	// Context hands to keepers) Has() is implemented as Get()!=nil, so the absent
	// key is even reported as PRESENT.
	pcms, err := plainMS.CacheMultiStoreWithVersion(1)
	require.NoError(t, err)
	ccms, err := cachedMS.CacheMultiStoreWithVersion(1)
	require.NoError(t, err)
	ph, _ := pcms.GetKVStore(plainKey).Has([]byte("zzz"))
	ch, _ := ccms.GetKVStore(cachedKey).Has([]byte("zzz"))
	require.False(t, ph, "reference")
	require.True(t, ch, "BAD BEHAVIOUR: cachekv.Has(absent) == true on top of the height cache")
}

// (b) MemoryCache.Commit: orderedKeys := make([]string, len(data)) followed by
// append => len(data) leading "" entries; unbounded iteration over a cached
// height yields them as spurious keys (twice as many entries).
func TestF08_b_SpuriousEmptyKeys(t *testing.T) {
	plainMS, plainKey := f08Build(t, false)
	cachedMS, cachedKey := f08Build(t, true)
	plain := f08At(t, plainMS, plainKey, 1)
	cached := f08At(t, cachedMS, cachedKey, 1)

	// forward [nil,nil)
	pit, _ := plain.Iterator(nil, nil)
	cit, _ := cached.Iterator(nil, nil)
	require.False(t, f08IsCacheIterator(pit))
	require.True(t, f08IsCacheIterator(cit), "cached store must serve the past height from the cache")
	pk, pp := f08Drain(pit)
	ck, cp := f08Drain(cit)
	require.Nil(t, pp)
	require.Nil(t, cp)
	require.Equal(t, []string{"a", "b", "c", "d"}, pk, "reference")
	require.Equal(t, []string{"", "", "", "", "a", "b", "c", "d"}, ck, "BAD BEHAVIOUR: 4 spurious \"\" keys")

	// reverse [nil,nil)
	pit, _ = plain.ReverseIterator(nil, nil)
	cit, _ = cached.ReverseIterator(nil, nil)
	pk, pp = f08Drain(pit)
	ck, cp = f08Drain(cit)
	require.Nil(t, pp)
	require.Nil(t, cp)
	require.Equal(t, []string{"d", "c", "b", "a"}, pk, "reference")
	require.Equal(t, []string{"d", "c", "b", "a", "", "", "", ""}, ck, "BAD BEHAVIOUR")

	// forward [nil,"c") - the padding also leaks when only end is bounded
	pit, _ = plain.Iterator(nil, []byte("c"))
	cit, _ = cached.Iterator(nil, []byte("c"))
	pk, _ = f08Drain(pit)
	ck, cp = f08Drain(cit)
	require.Nil(t, cp)
	require.Equal(t, []string{"a", "b"}, pk, "reference")
	require.Equal(t, []string{"", "", "", "", "a", "b"}, ck, "BAD BEHAVIOUR")

	// height 2 (a c d e): same thing
	pit, _ = f08At(t, plainMS, plainKey, 2).Iterator(nil, nil)
	cit, _ = f08At(t, cachedMS, cachedKey, 2).Iterator(nil, nil)
	pk, _ = f08Drain(pit)
	ck, _ = f08Drain(cit)
	require.Equal(t, []string{"a", "c", "d", "e"}, pk, "reference")
	require.Equal(t, []string{"", "", "", "", "a", "c", "d", "e"}, ck, "BAD BEHAVIOUR")
}

// (c) MemoryHeightIterator.Valid() indexes sortedKeys[curIdx] (when start or end
// is non-empty) BEFORE its own curIdx<0 check: a reverse iteration that steps
// below index 0 panics (index out of range [-1]) instead of becoming invalid.
func TestF08_c_ReverseExhaustionPanics(t *testing.T) {
	plainMS, plainKey := f08Build(t, false)
	cachedMS, cachedKey := f08Build(t, true)
	plain := f08At(t, plainMS, plainKey, 1)
	cached := f08At(t, cachedMS, cachedKey, 1)

	// reverse [nil,"z"): every key is in range, so the walk reaches index 0 and
	// then steps to -1.
	pit, _ := plain.ReverseIterator(nil, []byte("z"))
	pk, pp := f08Drain(pit)
	require.Nil(t, pp, "reference: the tree iterator simply becomes invalid")
	require.Equal(t, []string{"d", "c", "b", "a"}, pk, "reference")

	cit, _ := cached.ReverseIterator(nil, []byte("z"))
	require.True(t, f08IsCacheIterator(cit))
	ck, cp := f08Drain(cit)
	require.NotNil(t, cp, "BAD BEHAVIOUR expected: panic while exhausting a reverse cache iterator")
	require.Contains(t, fmt.Sprint(cp), "index out of range [-1]")
	// (what it yielded before blowing up also carries the (b) padding)
	require.Equal(t, []string{"d", "c", "b", "a", "", "", "", ""}, ck)

	// NOTE: with a non-empty START bound the panic is currently masked at store
	// level by defect (b): the "" padding entries sit below every real key and
	// are < start, so Valid() returns false on them before index -1 is reached.
	// store/rootmulti/heightcache/f08_iterator_unit_witness_test.go shows the
	// panic for that case on a correctly built key list.
}

// (d) NewMemoryHeightIterator chooses endIdx as the last index with key <= end
// (inclusive) whereas Valid() treats end as exclusive. A reverse iterator whose
// end bound equals an existing key therefore starts ON that key, is immediately
// invalid, and returns nothing although smaller keys are in range.
func TestF08_d_ReverseEndEqualsExistingKeyIsEmpty(t *testing.T) {
	plainMS, plainKey := f08Build(t, false)
	cachedMS, cachedKey := f08Build(t, true)
	plain := f08At(t, plainMS, plainKey, 1)
	cached := f08At(t, cachedMS, cachedKey, 1)

	for _, c := range []struct {
		start, end []byte
		want       []string
	}{
		{[]byte("a"), []byte("c"), []string{"b", "a"}},
		{[]byte("b"), []byte("d"), []string{"c", "b"}},
		{nil, []byte("c"), []string{"b", "a"}},
	} {
		pit, _ := plain.ReverseIterator(c.start, c.end)
		pk, pp := f08Drain(pit)
		require.Nil(t, pp)
		require.Equal(t, c.want, pk, "reference [%q,%q)", c.start, c.end)

		cit, _ := cached.ReverseIterator(c.start, c.end)
		require.True(t, f08IsCacheIterator(cit))
		require.False(t, cit.Valid(), "BAD BEHAVIOUR: iterator is invalid from the start")
		ck, cp := f08Drain(cit)
		require.Nil(t, cp)
		require.Equal(t, []string{}, ck, "BAD BEHAVIOUR: nothing returned for reverse [%q,%q)", c.start, c.end)
	}

	// control: when end is NOT an existing key the reverse iterator does work
	// (for a bounded start), which pins the cause on the inclusive endIdx.
	cit, _ := cached.ReverseIterator([]byte("a"), []byte("cc"))
	ck, cp := f08Drain(cit)
	require.Nil(t, cp)
	require.Equal(t, []string{"c", "b", "a"}, ck)
}

// (e) EXTRA, found while triaging: NewMemoryHeightIterator swaps start and end
// `if start > end`. With end == "" (nil = unbounded) and a non-empty start this
// is always true, so [start,nil) is silently turned into [nil,start).
func TestF08_e_extra_StartOnlyRangeIsInverted(t *testing.T) {
	plainMS, plainKey := f08Build(t, false)
	cachedMS, cachedKey := f08Build(t, true)
	plain := f08At(t, plainMS, plainKey, 1)
	cached := f08At(t, cachedMS, cachedKey, 1)

	pit, _ := plain.Iterator([]byte("b"), nil)
	pk, _ := f08Drain(pit)
	require.Equal(t, []string{"b", "c", "d"}, pk, "reference [b,nil)")

	cit, _ := cached.Iterator([]byte("b"), nil)
	ck, cp := f08Drain(cit)
	require.Nil(t, cp)
	require.Equal(t, []string{"", "", "", "", "a"}, ck, "BAD BEHAVIOUR: cache answered [nil,b) (plus (b) padding)")
}
