package heightcache

// F08 unit-level witness. Isolates each defect of MemoryCache /
// MemoryHeightIterator from the others (at store level (b) partly masks (c)).
// Every test PASSES while the defective behaviour is present.
//
//	go test -vet=off -count=1 -run 'TestF08Unit_' ./store/rootmulti/heightcache

import (
	"fmt"
	"testing"

	"github.com/stretchr/testify/require"

	"github.com/pokt-network/pocket-core/store/types"
)

func f08UnitDrain(it types.Iterator) (keys []string, panicked interface{}) {
	defer func() {
		if r := recover(); r != nil {
			panicked = r
		}
	}()
	keys = []string{}
	for i := 0; it.Valid(); i++ {
		if i > 1000 {
			panic("runaway iterator")
		}
		keys = append(keys, string(it.Key()))
		it.Next()
	}
	return keys, nil
}

// f08UnitCache builds a cache whose height 1 holds a,b,c,d and is readable
// (a height is only served once a later height has been committed).
func f08UnitCache() *MemoryCache {
	c := NewMemoryCache(12)
	c.Initialize(map[string]string{}, 0)
	for _, k := range []string{"a", "b", "c", "d"} {
		c.Set([]byte(k), []byte("v"+k))
	}
	c.Commit(1)
	c.Set([]byte("e"), []byte("ve"))
	c.Commit(2)
	return c
}

// (a)
func TestF08Unit_a_GetAbsent(t *testing.T) {
	c := f08UnitCache()
	v, err := c.Get(1, []byte("nope"))
	require.NoError(t, err)
	require.True(t, v != nil, "BAD BEHAVIOUR: absent key => non-nil")
	require.Len(t, v, 0)
}

// (b)
func TestF08Unit_b_CommitPadsOrderedKeys(t *testing.T) {
	c := f08UnitCache()
	var snap *StoreAtHeight
	for _, p := range c.pastHeights {
		if p.height == 1 {
			snap = p
		}
	}
	require.NotNil(t, snap)
	require.Len(t, snap.data, 4)
	require.Equal(t, []string{"", "", "", "", "a", "b", "c", "d"}, snap.orderedKeys,
		"BAD BEHAVIOUR: make([]string, n) + append => n leading empty strings")
}

// (c) on a CORRECT sorted key list (no (b) padding): any bounded reverse walk
// that reaches the first element panics on the step after it.
func TestF08Unit_c_ReverseBelowZeroPanics(t *testing.T) {
	data := map[string]string{"a": "1", "b": "2", "c": "3"}
	keys := []string{"a", "b", "c"}

	for _, c := range []struct{ start, end string }{
		{"a", "z"}, // start bound == first key
		{"0", "z"}, // start bound below first key
		{"", "z"},  // only end bounded
	} {
		it := NewMemoryHeightIterator(data, c.start, c.end, keys, false)
		got, p := f08UnitDrain(it)
		require.Equal(t, []string{"c", "b", "a"}, got)
		require.NotNil(t, p, "BAD BEHAVIOUR expected: panic for reverse [%q,%q)", c.start, c.end)
		require.Contains(t, fmt.Sprint(p), "index out of range [-1]")
	}

	// Valid() on a closed, bounded iterator panics as well (nil slice indexed
	// before the "we closed" check).
	it := NewMemoryHeightIterator(data, "a", "z", keys, true)
	it.Close()
	require.Panics(t, func() { it.Valid() }, "BAD BEHAVIOUR")
}

// (d) on a correct sorted key list.
func TestF08Unit_d_ReverseEndOnExistingKey(t *testing.T) {
	data := map[string]string{"a": "1", "b": "2", "c": "3", "d": "4"}
	keys := []string{"a", "b", "c", "d"}

	it := NewMemoryHeightIterator(data, "a", "c", keys, false)
	require.Equal(t, 2, it.endIdx, "endIdx lands ON the (exclusive) end key")
	require.False(t, it.Valid(), "BAD BEHAVIOUR: immediately invalid")
	got, p := f08UnitDrain(it)
	require.Nil(t, p)
	require.Equal(t, []string{}, got, "BAD BEHAVIOUR: expected [b a] (IAVL semantics [start,end))")

	// forward over the same range is fine, the exclusive check in Valid() stops it
	got, p = f08UnitDrain(NewMemoryHeightIterator(data, "a", "c", keys, true))
	require.Nil(t, p)
	require.Equal(t, []string{"a", "b"}, got)
}

// (e) extra: [start, "") is turned into ["", start).
func TestF08Unit_e_extra_StartOnlySwapped(t *testing.T) {
	data := map[string]string{"a": "1", "b": "2", "c": "3", "d": "4"}
	keys := []string{"a", "b", "c", "d"}
	it := NewMemoryHeightIterator(data, "b", "", keys, true)
	s, e := it.Domain()
	require.Equal(t, "", string(s), "BAD BEHAVIOUR: bounds swapped")
	require.Equal(t, "b", string(e), "BAD BEHAVIOUR: bounds swapped")
	got, p := f08UnitDrain(it)
	require.Nil(t, p)
	require.Equal(t, []string{"a"}, got, "BAD BEHAVIOUR: expected [b c d]")
}
