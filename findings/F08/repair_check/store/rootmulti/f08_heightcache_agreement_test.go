package rootmulti

// F08 repair check (NOT a witness): this test FAILS on the unmodified code and
// PASSES once TRIAGE/repair.diff is applied. It needs the helpers from
// f08_heightcache_witness_test.go (same package).
//
//	go test -vet=off -count=1 -run 'TestF08Repair_' ./store/rootmulti
//
// It builds the same pseudo-random 20-height history in a store without the
// height cache and in one with it and requires that, at EVERY past height,
// point reads (present, absent, deleted, empty-valued keys) and forward/reverse
// iteration over every [start,end) combination of a bound alphabet give exactly
// the same answer (keys, values, nil-ness, no panic).
//
// Bounds that are empty-but-non-nil ([]byte{}) are deliberately left out: the
// cache API converts bounds to string and cannot tell them from nil, whereas
// IAVL treats end=[]byte{} as "nothing is in range". No caller in the repo
// builds such a bound (prefix iterators use nil), see REPORT.md.

import (
	"fmt"
	"math/rand"
	"testing"

	"github.com/stretchr/testify/require"
	dbm "github.com/tendermint/tm-db"

	"github.com/pokt-network/pocket-core/store/types"
)

var f08Alphabet = []string{"a", "b", "bb", "c", "d", "e", "f", "g", "h"}

func f08BuildRandom(t *testing.T, cache bool, heights int) (*Store, types.StoreKey) {
	t.Helper()
	db := dbm.NewMemDB()
	ms := NewStore(db, cache, 5000000)
	key := types.NewKVStoreKey("s")
	ms.MountStoreWithDB(key, types.StoreTypeIAVL, nil)
	require.NoError(t, ms.LoadLatestVersion())
	kv := ms.GetCommitKVStore(key)

	r := rand.New(rand.NewSource(8)) // same sequence for both stores
	for h := 1; h <= heights; h++ {
		for i := 0; i < 4; i++ {
			k := []byte(f08Alphabet[r.Intn(len(f08Alphabet))])
			switch r.Intn(4) {
			case 0:
				require.NoError(t, kv.Delete(k))
			case 1:
				require.NoError(t, kv.Set(k, []byte{})) // present, empty value
			default:
				require.NoError(t, kv.Set(k, []byte(fmt.Sprintf("v%d.%d", h, i))))
			}
		}
		if h == 7 { // one height at which the store is completely empty
			for _, k := range f08Alphabet {
				require.NoError(t, kv.Delete([]byte(k)))
			}
		}
		require.Equal(t, int64(h), ms.Commit().Version)
	}
	return ms, key
}

type f08KV struct{ K, V string }

func f08DrainKV(it types.Iterator) (out []f08KV, panicked interface{}) {
	defer func() {
		if r := recover(); r != nil {
			panicked = r
		}
	}()
	out = []f08KV{}
	for i := 0; it.Valid(); i++ {
		if i > 1000 {
			panic("runaway iterator")
		}
		out = append(out, f08KV{string(it.Key()), string(it.Value())})
		it.Next()
	}
	it.Close()
	return out, nil
}

func TestF08Repair_CachedReadsAgreeWithTree(t *testing.T) {
	const heights = 20
	plainMS, plainKey := f08BuildRandom(t, false, heights)
	cachedMS, cachedKey := f08BuildRandom(t, true, heights)
	require.Equal(t, plainMS.LastCommitID(), cachedMS.LastCommitID(), "the cache must not change the app hash")

	bounds := [][]byte{nil, []byte("0"), []byte("a"), []byte("b"), []byte("bb"), []byte("bc"), []byte("c"),
		[]byte("d"), []byte("e"), []byte("f"), []byte("g"), []byte("h"), []byte("hh"), []byte("z")}
	probes := append([]string{"0", "bc", "zzz"}, f08Alphabet...)

	servedFromCache := 0
	for h := int64(1); h < heights; h++ {
		plain := f08At(t, plainMS, plainKey, h)
		cached := f08At(t, cachedMS, cachedKey, h)

		for _, k := range probes {
			pv, err := plain.Get([]byte(k))
			require.NoError(t, err)
			cv, err := cached.Get([]byte(k))
			require.NoError(t, err)
			require.Equal(t, pv == nil, cv == nil, "h=%d Get(%q): nil-ness differs (tree=%#v cache=%#v)", h, k, pv, cv)
			require.Equal(t, string(pv), string(cv), "h=%d Get(%q)", h, k)
			ph, _ := plain.Has([]byte(k))
			ch, _ := cached.Has([]byte(k))
			require.Equal(t, ph, ch, "h=%d Has(%q)", h, k)
		}

		for _, s := range bounds {
			for _, e := range bounds {
				for _, asc := range []bool{true, false} {
					var pit, cit types.Iterator
					if asc {
						pit, _ = plain.Iterator(s, e)
						cit, _ = cached.Iterator(s, e)
					} else {
						pit, _ = plain.ReverseIterator(s, e)
						cit, _ = cached.ReverseIterator(s, e)
					}
					if f08IsCacheIterator(cit) {
						servedFromCache++
					}
					want, pp := f08DrainKV(pit)
					got, cp := f08DrainKV(cit)
					require.Nil(t, pp)
					require.Nil(t, cp, "h=%d asc=%v [%q,%q): cache iterator panicked: %v", h, asc, s, e, cp)
					require.Equal(t, want, got, "h=%d asc=%v [%q,%q)", h, asc, s, e)
				}
			}
		}
	}
	// make sure the comparison was not vacuous: with MemoryCacheCapacity = 12 and
	// 20 commits, heights 9..19 (11 heights x 14x14 bounds x 2 directions = 4312
	// iterators) are answered by the height cache, heights 1..8 fall through to
	// the tree on both sides.
	require.True(t, servedFromCache > 0, "no iterator was served by the height cache")
	t.Logf("iterators served by the height cache: %d", servedFromCache)
}
