package keeper

// F14 witness tests (keeper-level): HandleRelay = relay.Validate(...) [uniqueness + over-service +
// sealed checks, each store access in its own critical section] ... relay.Proof.Store(...) [a separate
// read-modify-write]. Nothing serialises two HandleRelay calls for the same session: the RPC handler
// (app/cmd/rpc/client.go Relay -> app.PCA.HandleRelay -> keeper.HandleRelay) runs one goroutine per
// HTTP request and takes no lock.
//
// Every test in this file PASSES when the suspected (bad) behaviour is present.
// NOTE: TestMain of this package calls os.Exit(0) unconditionally, so always run with -v and look at
// the "--- PASS/--- FAIL" lines, not at the final "ok".

import (
	"encoding/hex"
	"sync"
	"sync/atomic"
	"testing"
	"time"

	"github.com/pokt-network/pocket-core/crypto"
	sdk "github.com/pokt-network/pocket-core/types"
	appsKeeper "github.com/pokt-network/pocket-core/x/apps/keeper"
	"github.com/pokt-network/pocket-core/x/pocketcore/types"
	"github.com/stretchr/testify/require"
	"gopkg.in/h2non/gock.v1"
)

// f14Barrier makes the first `target` goroutines that reach it wait for each other.
type f14Barrier struct {
	armed   int32
	arrived int32
	target  int32
	ch      chan struct{}
}

func (b *f14Barrier) arm(target int) {
	b.target = int32(target)
	b.arrived = 0
	b.ch = make(chan struct{})
	atomic.StoreInt32(&b.armed, 1)
}

func (b *f14Barrier) wait() {
	if atomic.LoadInt32(&b.armed) == 0 {
		return
	}
	if atomic.AddInt32(&b.arrived, 1) == b.target {
		close(b.ch)
	}
	select {
	case <-b.ch:
	case <-time.After(10 * time.Second): // never hang the test
	}
}

// f14PosKeeper wraps the real nodes keeper. GetValidatorsByChain is called from exactly one place in
// the relay path: types.NewSessionNodes <- types.NewSession <- Relay.Validate, i.e. AFTER Validate's
// sealed / IsUniqueProof / over-service checks (x/pocketcore/types/service.go:87-98) and BEFORE
// HandleRelay's relay.Proof.Store (x/pocketcore/keeper/service.go:73). It is only reached while the
// session is not yet in the node's session cache (first relays of a session). Parking goroutines there
// gives a deterministic "all checked, none stored yet" interleaving through the REAL HandleRelay.
type f14PosKeeper struct {
	types.PosKeeper
	b *f14Barrier
}

func (p f14PosKeeper) GetValidatorsByChain(ctx sdk.Ctx, networkID string) ([]sdk.Address, int) {
	p.b.wait()
	return p.PosKeeper.GetValidatorsByChain(ctx, networkID)
}

type f14Env struct {
	ctx           sdk.Ctx // mock ctx (same construction as TestKeeper_HandleRelay)
	keeper        Keeper
	barrier       *f14Barrier
	clientPK      crypto.Ed25519PrivateKey
	appPK         crypto.Ed25519PrivateKey
	nodePubKey    crypto.PublicKey
	chain         string
	sessionHeight int64
	node          *types.PocketNode
}

// f14Setup: same fixture as TestKeeper_HandleRelay; if maxPerNode > 0 the app's MaxRelays is set so that
// MaxPossibleRelays(app, sessionNodeCount) == maxPerNode.
func f14Setup(t *testing.T, maxPerNode int64) *f14Env {
	ctx, keeper, kvkeys, clientPK, appPK, nodePubKey, chain := setupHandleRelayTest(t)

	origBlockAllowance := types.GlobalPocketConfig.ClientBlockSyncAllowance
	types.GlobalPocketConfig.ClientBlockSyncAllowance = 10000
	t.Cleanup(func() {
		types.GlobalPocketConfig.ClientBlockSyncAllowance = origBlockAllowance
		gock.Off()
	})

	if maxPerNode > 0 {
		ak := keeper.appKeeper.(appsKeeper.Keeper)
		app, found := ak.GetApplication(ctx, sdk.Address(appPK.PublicKey().Address()))
		require.True(t, found)
		app.MaxRelays = sdk.NewInt(maxPerNode * keeper.SessionNodeCount(ctx) * int64(len(app.Chains)))
		ak.SetApplication(ctx, app)
	}

	b := &f14Barrier{}
	keeper.posKeeper = f14PosKeeper{PosKeeper: keeper.posKeeper, b: b}

	mockCtx := new(Ctx)
	mockCtx.On("KVStore", kvkeys["pos"]).Return(ctx.KVStore(kvkeys["pos"]))
	mockCtx.On("KVStore", kvkeys["params"]).Return(ctx.KVStore(kvkeys["params"]))
	mockCtx.On("BlockHeight").Return(ctx.BlockHeight())
	mockCtx.On("Logger").Return(ctx.Logger())
	mockCtx.On("PrevCtx", ctx.BlockHeight()).Return(ctx, nil)
	bps := keeper.BlocksPerSession(ctx)
	for i := int64(1); i <= bps*2; i++ {
		mockCtx.On("PrevCtx", ctx.BlockHeight()-i).Return(ctx, nil)
	}

	return &f14Env{
		ctx: mockCtx, keeper: keeper, barrier: b, clientPK: clientPK, appPK: appPK, nodePubKey: nodePubKey, chain: chain,
		sessionHeight: ((ctx.BlockHeight()-1)/bps)*bps + 1,
		node:          types.GetPocketNode(),
	}
}

// f14Relay builds a fully signed, valid relay (same recipe as testRelayAt) and registers one HTTP mock for it.
func (e *f14Env) f14Relay(t *testing.T, entropy int64) types.Relay {
	r := types.Relay{
		Payload: types.Payload{Data: `{"jsonrpc":"2.0","method":"web3_clientVersion","params":[],"id":67}`},
		Meta:    types.RelayMeta{BlockHeight: e.sessionHeight},
		Proof: types.RelayProof{
			Entropy:            entropy,
			SessionBlockHeight: e.sessionHeight,
			ServicerPubKey:     e.nodePubKey.RawString(),
			Blockchain:         e.chain,
			Token: types.AAT{
				Version:              "0.0.1",
				ApplicationPublicKey: e.appPK.PublicKey().RawString(),
				ClientPublicKey:      e.clientPK.PublicKey().RawString(),
			},
		},
	}
	r.Proof.RequestHash = r.RequestHashString()
	appSig, err := e.appPK.Sign(r.Proof.Token.Hash())
	require.NoError(t, err)
	r.Proof.Token.ApplicationSignature = hex.EncodeToString(appSig)
	clientSig, err := e.clientPK.Sign(r.Proof.Hash())
	require.NoError(t, err)
	r.Proof.Signature = hex.EncodeToString(clientSig)
	gock.New("https://www.google.com:443").Post("/").Reply(200).BodyString("bar")
	return r
}

func (e *f14Env) evidence(t *testing.T, r types.Relay) types.Evidence {
	ev, err := types.GetEvidence(r.Proof.SessionHeader(), types.RelayEvidence, sdk.ZeroInt(), e.node.EvidenceStore)
	require.NoError(t, err)
	return ev
}

func f14CountHash(ev types.Evidence, p types.RelayProof) (n int) {
	for _, x := range ev.Proofs {
		if x.HashString() == p.HashString() {
			n++
		}
	}
	return
}

// (b) deterministic, halves called by hand: Validate, Validate, Store, Store with ONE relay.
func TestF14b_DuplicateRelay_ValidateValidateStoreStore(t *testing.T) {
	e := f14Setup(t, 0)
	relay := e.f14Relay(t, 4242)
	k := e.keeper
	hb := k.GetHostedBlockchains()

	rA, rB := relay, relay // two HTTP requests carrying the very same signed relay
	maxA, errA := rA.Validate(e.ctx, k.posKeeper, k.appKeeper, k, hb, e.sessionHeight, e.node)
	require.Nil(t, errA)
	maxB, errB := rB.Validate(e.ctx, k.posKeeper, k.appKeeper, k, hb, e.sessionHeight, e.node)
	require.Nil(t, errB, "second identical relay passes IsUniqueProof because the first has not been stored yet")
	rA.Proof.Store(maxA, e.node.EvidenceStore)
	rB.Proof.Store(maxB, e.node.EvidenceStore)

	ev := e.evidence(t, relay)
	// BAD: the same proof is in the evidence twice and counts as two relays.
	require.Equal(t, int64(2), ev.NumOfProofs)
	require.Equal(t, 2, f14CountHash(ev, relay.Proof))

	// sanity: once stored, the uniqueness check does work
	rC := relay
	_, errC := rC.Validate(e.ctx, k.posKeeper, k.appKeeper, k, hb, e.sessionHeight, e.node)
	require.NotNil(t, errC)
	require.Equal(t, sdk.CodeType(types.CodeDuplicateProofError), errC.Code())
	t.Logf("evidence NumOfProofs=%d, copies of the one relay proof=%d", ev.NumOfProofs, f14CountHash(ev, relay.Proof))
}

// (b) through the REAL HandleRelay on two goroutines, identical relay. The barrier only aligns the two
// goroutines between "checks done" and "Store" - it adds no behaviour of its own.
func TestF14b_DuplicateRelay_ConcurrentHandleRelay(t *testing.T) {
	e := f14Setup(t, 0)
	relay := e.f14Relay(t, 777)
	_ = e.f14Relay(t, 777) // second HTTP mock

	e.barrier.arm(2)
	var wg sync.WaitGroup
	resps := make([]*types.RelayResponse, 2)
	errs := make([]sdk.Error, 2)
	for i := 0; i < 2; i++ {
		wg.Add(1)
		go func(i int) {
			defer wg.Done()
			resps[i], errs[i] = e.keeper.HandleRelay(e.ctx, relay)
		}(i)
	}
	wg.Wait()
	require.Nil(t, errs[0])
	require.Nil(t, errs[1])
	require.NotNil(t, resps[0])
	require.NotNil(t, resps[1])
	require.NotEmpty(t, resps[0].Signature)
	require.NotEmpty(t, resps[1].Signature)

	ev := e.evidence(t, relay)
	// BAD: both identical relays were answered+signed, and the evidence holds 1 or 2 entries of ONE proof
	// (2 when the two Stores did not themselves collide as in (a)).
	require.Equal(t, int(ev.NumOfProofs), f14CountHash(ev, relay.Proof))
	t.Logf("two identical relays: both served and signed; evidence NumOfProofs=%d, copies of the proof=%d",
		ev.NumOfProofs, f14CountHash(ev, relay.Proof))
	require.GreaterOrEqual(t, ev.NumOfProofs, int64(1))
}

// (b) over-service through the REAL HandleRelay. Allowance for this node/session = 3. Two relays are
// served normally (count = max-1), then 4 DISTINCT relays run concurrently.
func TestF14b_OverService_ConcurrentHandleRelay(t *testing.T) {
	const max = 3
	e := f14Setup(t, max)

	for i := 0; i < max-1; i++ {
		resp, err := e.keeper.HandleRelay(e.ctx, e.f14Relay(t, int64(1000+i)))
		require.Nil(t, err)
		require.NotNil(t, resp)
	}
	first := e.f14Relay(t, 1) // only used for the header
	require.Equal(t, int64(max-1), e.evidence(t, first).NumOfProofs)

	// make the barrier reachable again (it sits on the session-cache-miss path); a node restart, an LRU
	// eviction or simply the very first relays of a session give the same path in production.
	types.ClearSessionCache(e.node.SessionStore)

	const n = 4
	relays := make([]types.Relay, n)
	for i := range relays {
		relays[i] = e.f14Relay(t, int64(2000+i))
	}
	e.barrier.arm(n)
	var wg sync.WaitGroup
	var served int32
	for i := 0; i < n; i++ {
		wg.Add(1)
		go func(i int) {
			defer wg.Done()
			resp, err := e.keeper.HandleRelay(e.ctx, relays[i])
			if err == nil && resp != nil && resp.Signature != "" && resp.Response == "bar" {
				atomic.AddInt32(&served, 1)
			}
		}(i)
	}
	wg.Wait()

	ev := e.evidence(t, first)
	t.Logf("allowance=%d, already served=%d, concurrently served+signed=%d (only 1 was allowed); evidence NumOfProofs=%d len(Proofs)=%d sealed=%v",
		max, max-1, served, ev.NumOfProofs, len(ev.Proofs), e.node.EvidenceStore.IsSealed(ev))
	// BAD #1: all 4 relays passed the over-service check and were executed against the backend chain and signed:
	// the node served max-1+4 = 6 relays for an allowance of 3.
	require.Equal(t, int32(n), served)
	// NOT bad (suspicion refuted on this point): the stored evidence never exceeds max, because SetProof's own
	// GetEvidence seals at >= max and CacheStorage.Set then silently drops the write.
	require.LessOrEqual(t, ev.NumOfProofs, int64(max))
	// BAD #2: ... which means the surplus relays' proofs were silently discarded (served for free).
	stored := 0
	for i := range relays {
		stored += f14CountHash(ev, relays[i].Proof)
	}
	require.Less(t, stored, n)

	// afterwards the limit is enforced
	_, err := e.keeper.HandleRelay(e.ctx, e.f14Relay(t, 3000))
	require.NotNil(t, err)
	t.Logf("next relay is rejected with: %s", err.Error())
}

// (a)+(b) plain goroutine stress through the REAL HandleRelay, no barrier, no hook armed: N distinct
// relays, every one answered and signed, fewer proofs stored.
func TestF14a_HandleRelay_LostProofs_Stress(t *testing.T) {
	const rounds = 5
	for r := 0; r < rounds; r++ {
		if f14StressRound(t) {
			return // bad behaviour observed
		}
	}
	t.Fatalf("no lost proof observed in %d rounds (behaviour not reproduced)", rounds)
}

func f14StressRound(t *testing.T) (lost bool) {
	e := f14Setup(t, 0)
	// warm up: put the session in the cache so that the hook path is not even visited
	_, err := e.keeper.HandleRelay(e.ctx, e.f14Relay(t, 1))
	require.Nil(t, err)

	// this fixture yields MaxPossibleRelays == 200 for the app, so stay well below it
	const goroutines, perG = 8, 15
	relays := make([]types.Relay, goroutines*perG)
	for i := range relays {
		relays[i] = e.f14Relay(t, int64(10+i))
	}
	var served int32
	var wg sync.WaitGroup
	start := make(chan struct{})
	for g := 0; g < goroutines; g++ {
		wg.Add(1)
		go func(g int) {
			defer wg.Done()
			<-start
			for i := 0; i < perG; i++ {
				resp, err := e.keeper.HandleRelay(e.ctx, relays[g*perG+i])
				if err == nil && resp != nil && resp.Signature != "" {
					atomic.AddInt32(&served, 1)
				} else if err != nil {
					// a few relays may be refused as "duplicate" by a bloom-filter false positive (the filter is
					// sized for max=200 at 1%); that is by design and not what is being shown here
					t.Logf("relay %d not served: %s", g*perG+i, err.Error())
				}
			}
		}(g)
	}
	close(start)
	wg.Wait()
	ev := e.evidence(t, relays[0])
	t.Logf("served+signed=%d (+1 warm-up), evidence NumOfProofs=%d len(Proofs)=%d", served, ev.NumOfProofs, len(ev.Proofs))
	// BAD when true: fewer proofs stored than relays served and signed.
	return ev.NumOfProofs < int64(served)+1
}
