package types

// F14 witness tests (types-level): relay evidence bookkeeping is a read-modify-write that is
// split across SEPARATE critical sections of CacheStorage's mutex.
//
// Every test in this file PASSES when the suspected (bad) behaviour is present.
// NOTE: TestMain of this package calls os.Exit(0) unconditionally, so always run with -v and
// look at the "--- PASS/--- FAIL" lines, not at the final "ok".

import (
	"encoding/hex"
	"sync"
	"testing"

	sdk "github.com/pokt-network/pocket-core/types"
	"github.com/stretchr/testify/require"
)

func f14Header() SessionHeader {
	return SessionHeader{
		ApplicationPubKey:  getRandomPubKey().RawString(),
		Chain:              hex.EncodeToString([]byte{0001}),
		SessionBlockHeight: 1,
	}
}

func f14Proof(h SessionHeader, entropy int64) RelayProof {
	return RelayProof{
		Entropy:            entropy,
		RequestHash:        h.HashString(), // fake, same as the existing cache tests
		SessionBlockHeight: h.SessionBlockHeight,
		ServicerPubKey:     "aa",
		Blockchain:         h.Chain,
		Token: AAT{
			Version:              "0.0.1",
			ApplicationPublicKey: h.ApplicationPubKey,
			ClientPublicKey:      "bb",
		},
	}
}

func f14Contains(e Evidence, p RelayProof) int {
	n := 0
	for _, x := range e.Proofs {
		if rp, ok := x.(RelayProof); ok && rp.Entropy == p.Entropy {
			n++
		}
	}
	return n
}

// (a) deterministic: SetProof == GetEvidence ; AddProof ; SetEvidence. Drive two SetProof calls in
// the racy order by hand. This is exactly what two goroutines inside SetProof do when both run
// GetEvidence before either runs SetEvidence (each of the three steps takes/releases the lock itself,
// nothing holds the lock across them).
func TestF14a_SetProof_LostUpdate_Deterministic(t *testing.T) {
	store := GlobalEvidenceCache
	max := sdk.NewInt(1000)

	for _, preexisting := range []int{0, 1, 5} {
		h := f14Header()
		for i := 0; i < preexisting; i++ {
			SetProof(h, RelayEvidence, f14Proof(h, int64(100+i)), max, store)
		}
		p1, p2 := f14Proof(h, 1), f14Proof(h, 2)

		// goroutine A: first half of SetProof
		eA, err := GetEvidence(h, RelayEvidence, max, store)
		require.NoError(t, err)
		// goroutine B: first half of SetProof
		eB, err := GetEvidence(h, RelayEvidence, max, store)
		require.NoError(t, err)
		require.Equal(t, int64(preexisting), eA.NumOfProofs)
		require.Equal(t, int64(preexisting), eB.NumOfProofs)
		// both mutate their PRIVATE copy (outside of any lock)
		eA.AddProof(p1)
		eB.AddProof(p2)
		// second halves
		SetEvidence(eA, store)
		SetEvidence(eB, store)

		got, err := GetEvidence(h, RelayEvidence, max, store)
		require.NoError(t, err)
		// BAD: two relays were stored, only one survives.
		require.Equal(t, int64(preexisting+1), got.NumOfProofs, "expected the lost update (N+1 instead of N+2)")
		require.Len(t, got.Proofs, preexisting+1)
		require.Equal(t, 0, f14Contains(got, p1), "p1 (goroutine A's relay proof) is gone")
		require.Equal(t, 1, f14Contains(got, p2))

		// Bloom filter side: Evidence is copied BY VALUE but bloom.BloomFilter holds a *bitset.BitSet,
		// so once an evidence object lives in the LRU all copies SHARE the bit set.
		//  - preexisting == 0: both GetEvidence calls built their own fresh filter -> p1's bloom entry is lost too
		//    (p1 can be replayed and will be accepted as "unique").
		//  - preexisting  > 0: the bit set is shared -> p1 is NOT in Proofs but IS in the bloom filter
		//    (p1 is not counted and can never be re-submitted: "duplicate proof").
		if preexisting == 0 {
			require.True(t, IsUniqueProof(p1, got), "fresh evidence: lost proof also lost from bloom filter")
		} else {
			require.False(t, IsUniqueProof(p1, got), "cached evidence: lost proof still poisons the shared bloom filter")
		}
		t.Logf("preexisting=%d: after two SetProof-equivalents NumOfProofs=%d (want %d if atomic); p1 in Proofs=%v; p1 in bloom=%v",
			preexisting, got.NumOfProofs, preexisting+2, f14Contains(got, p1) == 1, !IsUniqueProof(p1, got))
		_ = DeleteEvidence(h, RelayEvidence, store)
	}
}

// (a) stress: the real SetProof from many goroutines on one session header. Passes as soon as one
// round ends with fewer stored proofs than SetProof calls that returned.
func TestF14a_SetProof_LostUpdate_Stress(t *testing.T) {
	store := GlobalEvidenceCache
	max := sdk.NewInt(1000000)
	const goroutines, perG, rounds = 8, 50, 20
	for r := 0; r < rounds; r++ {
		h := f14Header()
		var wg sync.WaitGroup
		start := make(chan struct{})
		for g := 0; g < goroutines; g++ {
			wg.Add(1)
			go func(g int) {
				defer wg.Done()
				<-start
				for i := 0; i < perG; i++ {
					SetProof(h, RelayEvidence, f14Proof(h, int64(g*perG+i+1)), max, store)
				}
			}(g)
		}
		close(start)
		wg.Wait()
		got, err := GetEvidence(h, RelayEvidence, max, store)
		require.NoError(t, err)
		_ = DeleteEvidence(h, RelayEvidence, store)
		if got.NumOfProofs < goroutines*perG {
			t.Logf("round %d: %d SetProof calls returned, evidence holds NumOfProofs=%d len(Proofs)=%d -> %d proofs LOST",
				r, goroutines*perG, got.NumOfProofs, len(got.Proofs), goroutines*perG-int(got.NumOfProofs))
			return // bad behaviour observed
		}
	}
	t.Fatalf("no lost update observed in %d rounds (behaviour not reproduced)", rounds)
}

// (c) deterministic: GetEvidence = storage.Get (lock, copy out, unlock) ... IsSealed (lock/unlock) ...
// SealEvidence(copy) -> Seal (lock, SealMap.Store, cache.Add(copy)). The copy that is written back by
// Seal is the one read in the first critical section. Replay GetEvidence's own statements by hand with
// a writer in between.
func TestF14c_GetEvidence_SealsStaleCopy_Deterministic(t *testing.T) {
	store := GlobalEvidenceCache
	max := sdk.NewInt(3)
	h := f14Header()
	for i := 1; i <= 3; i++ {
		SetProof(h, RelayEvidence, f14Proof(h, int64(i)), max, store)
	}
	key, err := KeyForEvidence(h, RelayEvidence)
	require.NoError(t, err)
	require.False(t, store.IsSealed(Evidence{SessionHeader: h, EvidenceType: RelayEvidence}), "reaching max does not seal by itself")

	// ---- goroutine R: GetEvidence(h, RelayEvidence, max, store), first critical section (cache.go:311)
	val, found := store.Get(key, Evidence{})
	require.True(t, found)
	stale := val.(Evidence)
	require.Equal(t, int64(3), stale.NumOfProofs)
	require.False(t, store.IsSealed(stale)) // cache.go:339

	// ---- goroutine W: second half of a SetProof whose GetEvidence ran when NumOfProofs was 2
	// (i.e. a relay that passed Validate concurrently with relay #3, see (b)). It writes AFTER R read.
	// Build W's private copy the way W would have it: proofs 1,2 + its own proof 4.
	w := Evidence{Bloom: stale.Bloom, SessionHeader: h, EvidenceType: RelayEvidence,
		NumOfProofs: 2, Proofs: append(Proofs{}, stale.Proofs[:2]...)}
	p4 := f14Proof(h, 4)
	w.AddProof(p4)
	SetEvidence(w, store) // not sealed yet -> accepted
	mid, _ := store.Get(key, Evidence{})
	require.Equal(t, 1, f14Contains(mid.(Evidence), p4), "W's proof is in the store")

	// ---- goroutine R continues: cache.go:343-344, NumOfProofs(3) >= max(3) -> SealEvidence(stale copy)
	require.True(t, stale.NumOfProofs >= max.Int64())
	_, ok := SealEvidence(stale, store)
	require.True(t, ok)

	final, err := GetEvidence(h, RelayEvidence, max, store)
	require.NoError(t, err)
	require.True(t, store.IsSealed(final))
	// BAD: the sealed (now immutable, claim-generating) evidence is R's stale snapshot; W's stored proof vanished.
	require.Equal(t, 0, f14Contains(final, p4), "proof written between R's read and R's seal was overwritten")
	require.Equal(t, 1, f14Contains(final, f14Proof(h, 3)))
	t.Logf("sealed evidence holds entropies %v; proof 4 (stored between read and seal) overwritten by stale copy", f14Entropies(final))

	// Same thing with a writer that ADDS on top of the current state (count goes 3 -> 4 -> back to 3).
	// This second scenario is a storage-level illustration only: it is NOT reachable through the real SetProof,
	// because a SetProof that reads NumOfProofs==max seals and its write is dropped (see
	// TestF14b_SetProof_AtMax_SilentlyDropsProof). The first scenario above (W read at max-1) IS reachable.
	h2 := f14Header()
	for i := 1; i <= 3; i++ {
		SetProof(h2, RelayEvidence, f14Proof(h2, int64(i)), max, store)
	}
	key2, _ := KeyForEvidence(h2, RelayEvidence)
	v2, _ := store.Get(key2, Evidence{})
	stale2 := v2.(Evidence)
	w2 := stale2 // a private copy, exactly like SetProof's local variable
	w2.AddProof(f14Proof(h2, 4))
	SetEvidence(w2, store)
	m2, _ := store.Get(key2, Evidence{})
	require.Equal(t, int64(4), m2.(Evidence).NumOfProofs)
	_, ok = SealEvidence(stale2, store)
	require.True(t, ok)
	f2, _ := GetEvidence(h2, RelayEvidence, max, store)
	require.Equal(t, int64(3), f2.NumOfProofs, "seal rolled the evidence back from 4 to 3 proofs")
	_ = DeleteEvidence(h, RelayEvidence, store)
	_ = DeleteEvidence(h2, RelayEvidence, store)
}

func f14Entropies(e Evidence) (res []int64) {
	for _, x := range e.Proofs {
		res = append(res, x.(RelayProof).Entropy)
	}
	return
}

// (b)/(c) corollary, deterministic, REAL SetProof only: the stored count can never exceed max, because
// SetProof's own GetEvidence seals at NumOfProofs >= max and the following SetEvidence is then silently
// dropped by CacheStorage.Set. So a relay that passed Validate at max-1 concurrently with another one is
// answered and signed but its proof is silently discarded (no error reaches HandleRelay).
func TestF14b_SetProof_AtMax_SilentlyDropsProof(t *testing.T) {
	store := GlobalEvidenceCache
	max := sdk.NewInt(3)
	h := f14Header()
	for i := 1; i <= 3; i++ {
		SetProof(h, RelayEvidence, f14Proof(h, int64(i)), max, store)
	}
	// 4th and 5th Store (relays that passed Validate while the count was still 2)
	SetProof(h, RelayEvidence, f14Proof(h, 4), max, store)
	SetProof(h, RelayEvidence, f14Proof(h, 5), max, store)
	got, err := GetEvidence(h, RelayEvidence, max, store)
	require.NoError(t, err)
	require.Equal(t, int64(3), got.NumOfProofs, "evidence is capped at max: the over-limit COUNT claim does not hold")
	require.True(t, store.IsSealed(got))
	require.Equal(t, 0, f14Contains(got, f14Proof(h, 4)))
	_ = DeleteEvidence(h, RelayEvidence, store)
}

// (b) consequence, deterministic: what a duplicated proof in the evidence (see the keeper-level tests
// TestF14b_DuplicateRelay_*) does to the claim/proof cycle. The sum-range merkle tree gives two leaves
// with the same hash the ranges [x,U] and [U,U]; the second is an INVALID range, and MerkleProof.Validate
// (the function the chain runs in keeper.ValidateProof) reports isReplayAttack=true for every leaf whose
// path meets it. On chain that is CodeReplayAttackError -> HandleReplayAttack -> BurnForChallenge(
// TotalProofs * ReplayAttackBurnMultiplier) against an HONEST node.
func TestF14b_DuplicateProofInEvidence_FlaggedAsReplayAttack(t *testing.T) {
	h := f14Header()
	var proofs Proofs
	for i := 1; i <= 7; i++ {
		proofs = append(proofs, f14Proof(h, int64(i)))
	}
	proofs = append(proofs, f14Proof(h, 3)) // the duplicate that two concurrent identical relays leave behind
	ev := Evidence{SessionHeader: h, NumOfProofs: int64(len(proofs)), Proofs: proofs, EvidenceType: RelayEvidence}

	root, sorted := GenerateRoot(0, append(Proofs{}, ev.Proofs...))
	ev.Proofs = sorted
	replay, valid := 0, 0
	for idx := 0; idx < len(sorted); idx++ {
		mp, leaf := ev.GenerateMerkleProof(0, idx, int64(len(sorted)))
		ok, isReplay := mp.Validate(0, root, leaf, len(mp.HashRanges))
		if ok {
			valid++
		}
		if isReplay {
			replay++
		}
	}
	t.Logf("8 leaves (one duplicated): %d indices verify, %d indices are flagged isReplayAttack", valid, replay)
	// BAD: at least the duplicate leaf and its sibling cannot be proven and are reported as a replay attack.
	require.GreaterOrEqual(t, replay, 1)
	require.Less(t, valid, len(sorted))
}
