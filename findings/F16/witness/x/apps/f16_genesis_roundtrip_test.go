package pos

// TRIAGE F16 - genesis export -> import round trip, x/apps part.
// These tests PASS when the suspected (bad) behaviour is present.
//
// Same plumbing as the real application:
//   export: app.ExportAppState -> module.Manager.ExportGenesis -> AppModule.ExportGenesis (JSON) per module
//   import: app.InitChainer    -> module.Manager.InitGenesis   -> AppModule.InitGenesis  (JSON) per module
// in the order of app/app.go: auth, pos (nodes), application.

import (
	"encoding/json"
	"fmt"
	"os"
	"os/exec"
	"strings"
	"testing"

	"github.com/pokt-network/pocket-core/types/module"
	"github.com/pokt-network/pocket-core/x/apps/keeper"
	"github.com/pokt-network/pocket-core/x/apps/types"
	"github.com/pokt-network/pocket-core/x/auth"
	authexported "github.com/pokt-network/pocket-core/x/auth/exported"
	"github.com/pokt-network/pocket-core/x/nodes"
	nodeskeeper "github.com/pokt-network/pocket-core/x/nodes/keeper"
	"github.com/stretchr/testify/require"

	sdk "github.com/pokt-network/pocket-core/types"
)

func f16SumAccounts(ctx sdk.Ctx, ak auth.Keeper) sdk.BigInt {
	sum := sdk.ZeroInt()
	ak.IterateAccounts(ctx, func(acc auth.Account) bool {
		sum = sum.Add(acc.GetCoins().AmountOf(sdk.DefaultStakeDenom))
		return false
	})
	return sum
}

func f16Supply(ctx sdk.Ctx, ak auth.Keeper) sdk.BigInt {
	return ak.GetSupply(ctx).GetTotal().AmountOf(sdk.DefaultStakeDenom)
}

// f16Import replays module.Manager.InitGenesis (same order, JSON, ValidateGenesis + InitGenesis per module),
// except that auth's ValidateGenesis is skipped because it nil-dereferences on exported module accounts
// ("public_key": null) - see x/nodes TestF16_Nodes_ManagerImportPanicsInAuthValidateGenesis.
func f16Import(t *testing.T, ctx sdk.Ctx, mm *module.Manager, exported map[string]json.RawMessage) {
	for _, name := range mm.OrderInitGenesis {
		if name != auth.ModuleName {
			require.Nil(t, mm.Modules[name].ValidateGenesis(exported[name]), name)
		}
		mm.Modules[name].InitGenesis(ctx, exported[name])
	}
}

func f16Env(t *testing.T) (sdk.Ctx, keeper.Keeper, auth.Keeper, *module.Manager) {
	ctx, k, aki, nki := createTestInput(t, false)
	ak := aki.(auth.Keeper)
	nk := nki.(nodeskeeper.Keeper)
	mm := module.NewManager(auth.NewAppModule(ak), nodes.NewAppModule(nk), NewAppModule(k))
	// drop the helper's 4 random funded accounts so that every number below is explained by the test itself
	for _, a := range ak.GetAllAccounts(ctx) {
		if _, isModule := a.(authexported.ModuleAccountI); !isModule {
			ak.RemoveAccount(ctx, a)
		}
	}
	require.True(t, f16SumAccounts(ctx, ak).IsZero())
	require.True(t, f16Supply(ctx, ak).IsZero())
	return ctx, k, ak, mm
}

// f16Source: the "running chain": nStaked funded accounts stake an application through the regular keeper path
// (coins move account -> application staked pool); nUnstaking of them then begin unstaking (coins STAY in the pool).
func f16Source(t *testing.T, nStaked, nUnstaking int) (sdk.Ctx, keeper.Keeper, auth.Keeper, *module.Manager) {
	ctx, k, ak, mm := f16Env(t)
	accs := createTestAccs(ctx, nStaked, sdk.NewCoins(sdk.NewCoin(sdk.DefaultStakeDenom, sdk.NewInt(100000000000))), &ak)
	// supply := sum of balances, as auth.InitGenesis does when no supply is given
	ak.SetSupply(ctx, ak.GetSupply(ctx).SetTotal(sdk.NewCoins(sdk.NewCoin(sdk.DefaultStakeDenom, f16SumAccounts(ctx, ak)))))
	stake := sdk.NewInt(20000000000)
	for i := 0; i < nStaked; i++ {
		pk := accs[i].GetPubKey()
		a := types.Application{
			Address:      sdk.Address(pk.Address()),
			PublicKey:    pk,
			StakedTokens: sdk.ZeroInt(),
			Status:       sdk.Staked,
			Chains:       []string{"0001"},
		}
		require.Nil(t, k.StakeApplication(ctx, a, stake))
		if i < nUnstaking {
			got, found := k.GetApplication(ctx, a.Address)
			require.True(t, found)
			k.BeginUnstakingApplication(ctx, got)
		}
	}
	require.True(t, f16Supply(ctx, ak).Equal(f16SumAccounts(ctx, ak)), "source chain is consistent: supply == sum of balances")
	return ctx, k, ak, mm
}

// (a) apps: DOUBLE COUNTING of the application staked pool in the total supply.
func TestF16_Apps_ExportImport_DoubleCountsStakedPoolInSupply(t *testing.T) {
	sctx, sk, sak, smm := f16Source(t, 2, 0)
	srcSupply, srcSum := f16Supply(sctx, sak), f16SumAccounts(sctx, sak)
	srcPool := sk.GetStakedPool(sctx).GetCoins().AmountOf(sdk.DefaultStakeDenom)
	require.Equal(t, int64(200000000000), srcSupply.Int64())
	require.Equal(t, int64(40000000000), srcPool.Int64())

	exported := smm.ExportGenesis(sctx)

	dctx, dk, dak, dmm := f16Env(t)
	f16Import(t, dctx, dmm, exported)

	dstSupply, dstSum := f16Supply(dctx, dak), f16SumAccounts(dctx, dak)
	dstPool := dk.GetStakedPool(dctx).GetCoins().AmountOf(sdk.DefaultStakeDenom)
	t.Logf("F16(a) apps: source supply=%s sum(accounts)=%s appStakedPool=%s", srcSupply, srcSum, srcPool)
	t.Logf("F16(a) apps: import supply=%s sum(accounts)=%s appStakedPool=%s (supply delta=%s)", dstSupply, dstSum, dstPool, dstSupply.Sub(srcSupply))
	require.Len(t, dk.GetAllApplications(dctx), 2)
	require.True(t, dstSum.Equal(srcSum)) // balances carried over 1:1
	require.True(t, dstPool.Equal(srcPool))
	// BAD: supply = exported supply + application staked pool (counted twice)
	require.True(t, dstSupply.Equal(srcSupply.Add(srcPool)))
	require.False(t, dstSupply.Equal(dstSum), "supply invariant broken after import")
}

// (b) apps: an export taken while an application is UNSTAKING cannot be imported:
// InitGenesis drops the unstaking application ("continue"), so its tokens are missing from the expected
// pool total, the comparison with the pool account fails and log.Fatal terminates the process (exit 1).
func TestF16_Apps_ExportWithUnstakingApp_ImportExits(t *testing.T) {
	if os.Getenv("F16_APPS_CHILD") == "1" {
		sctx, _, _, smm := f16Source(t, 2, 1)
		exported := smm.ExportGenesis(sctx)
		dctx, _, _, dmm := f16Env(t)
		fmt.Println("F16_CHILD_BEFORE_IMPORT")
		f16Import(t, dctx, dmm, exported)
		fmt.Println("F16_CHILD_AFTER_IMPORT") // never reached when the defect is present
		return
	}

	// ---- part 1: the mismatch condition, computed the way InitGenesis computes it, without exiting
	sctx, sk, sak, _ := f16Source(t, 2, 1)
	gs := ExportGenesis(sctx, sk)
	ags := auth.ExportGenesis(sctx, sak)
	require.Len(t, gs.Applications, 2, "export contains all applications regardless of status")
	expected, kept, dropped := sdk.ZeroInt(), 0, 0
	for _, a := range gs.Applications {
		if a.IsUnstaked() || a.IsUnstaking() {
			dropped++
			continue
		}
		kept++
		if a.IsStaked() {
			expected = expected.Add(a.GetTokens())
		}
	}
	poolInExport := sdk.ZeroInt()
	for _, a := range ags.Accounts {
		if a.GetAddress().Equals(sk.GetStakedPool(sctx).GetAddress()) {
			poolInExport = a.GetCoins().AmountOf(sdk.DefaultStakeDenom)
		}
	}
	t.Logf("F16(b) apps: exported app pool balance=%s, sum over staked apps=%s, apps kept=%d dropped=%d", poolInExport, expected, kept, dropped)
	require.Equal(t, 1, kept)
	require.Equal(t, 1, dropped)
	require.Equal(t, int64(40000000000), poolInExport.Int64())
	require.Equal(t, int64(20000000000), expected.Int64())
	require.False(t, poolInExport.Equal(expected), "InitGenesis' equality check fails -> log.Fatal")

	// ---- part 2: the real import in a subprocess
	cmd := exec.Command(os.Args[0], "-test.run=^TestF16_Apps_ExportWithUnstakingApp_ImportExits$", "-test.v")
	cmd.Env = append(os.Environ(), "F16_APPS_CHILD=1")
	out, err := cmd.CombinedOutput()
	t.Logf("child output:\n%s", out)
	ee, ok := err.(*exec.ExitError)
	require.True(t, ok, "child must die with a non-zero exit status, err=%v", err)
	require.Equal(t, 1, ee.ExitCode())
	require.True(t, strings.Contains(string(out), "F16_CHILD_BEFORE_IMPORT"))
	require.False(t, strings.Contains(string(out), "F16_CHILD_AFTER_IMPORT"))
	require.True(t, strings.Contains(string(out), "the applications must be staked at genesis"))
	require.True(t, strings.Contains(string(out), "module account total does not equal the amount in each application account"))
}
