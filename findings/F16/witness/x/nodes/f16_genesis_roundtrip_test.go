package nodes

// TRIAGE F16 - genesis export -> import round trip, x/nodes part.
//
// These tests PASS when the suspected (bad) behaviour is present.
//
// They use exactly the same plumbing as the real application:
//   export: app.ExportAppState -> module.Manager.ExportGenesis -> {auth,pos}.AppModule.ExportGenesis (JSON)
//   import: app.InitChainer    -> module.Manager.InitGenesis   -> {auth,pos}.AppModule.InitGenesis  (JSON)
// with the same module order as app/app.go (auth first, then pos).

import (
	"encoding/json"
	"fmt"
	"os"
	"os/exec"
	"strings"
	"testing"

	sdk "github.com/pokt-network/pocket-core/types"
	"github.com/pokt-network/pocket-core/types/module"
	"github.com/pokt-network/pocket-core/x/auth"
	"github.com/pokt-network/pocket-core/x/nodes/keeper"
	"github.com/pokt-network/pocket-core/x/nodes/types"
	"github.com/stretchr/testify/require"
	"github.com/tendermint/tendermint/libs/log"
)

// f16SumAccounts returns the sum of the balances of every account in the auth store
// (normal accounts and module accounts). On a sane chain this equals the total supply.
func f16SumAccounts(ctx sdk.Ctx, ak auth.Keeper) sdk.BigInt {
	sum := sdk.ZeroInt()
	ak.IterateAccounts(ctx, func(acc auth.Account) bool {
		sum = sum.Add(acc.GetCoins().AmountOf(sdk.DefaultStakeDenom))
		return false
	})
	return sum
}

// f16Import replays module.Manager.InitGenesis (same order, same JSON, same per-module
// ValidateGenesis + InitGenesis calls) with ONE difference: auth's ValidateGenesis is skipped,
// because it nil-dereferences on every exported module account ("public_key": null), see
// TestF16_Nodes_ManagerImportPanicsInAuthValidateGenesis. Skipping it lets us observe what the
// InitGenesis functions themselves do with an exported genesis.
func f16Import(t *testing.T, ctx sdk.Ctx, mm *module.Manager, exported map[string]json.RawMessage) {
	for _, name := range mm.OrderInitGenesis {
		if name != auth.ModuleName {
			require.Nil(t, mm.Modules[name].ValidateGenesis(exported[name]), name)
		}
		mm.Modules[name].InitGenesis(ctx, exported[name])
	}
}

func f16Supply(ctx sdk.Ctx, ak auth.Keeper) sdk.BigInt {
	return ak.GetSupply(ctx).GetTotal().AmountOf(sdk.DefaultStakeDenom)
}

func f16Manager(k keeper.Keeper) (*module.Manager, auth.Keeper) {
	ak := k.AccountKeeper.(auth.Keeper)
	// same relative order as app/app.go SetOrderInitGenesis: auth, pos(nodes)
	return module.NewManager(auth.NewAppModule(ak), NewAppModule(k)), ak
}

// f16Source builds the "running chain": 4 funded accounts, supply == sum(accounts),
// nStaked validators staked through the regular keeper path (coins move account -> staked pool),
// nUnstaking of them additionally put into the unstaking state (coins STAY in the staked pool).
func f16Source(t *testing.T, nStaked, nUnstaking int) (sdk.Context, keeper.Keeper, auth.Keeper, *module.Manager) {
	ctx, accs, k := createTestInput(t, false)
	mm, ak := f16Manager(k)
	// createTestAccs writes balances without touching the supply; make the supply consistent,
	// exactly the way auth.InitGenesis does when no supply is given.
	ak.SetSupply(ctx, ak.GetSupply(ctx).SetTotal(sdk.NewCoins(sdk.NewCoin(sdk.DefaultStakeDenom, f16SumAccounts(ctx, ak)))))
	require.True(t, f16Supply(ctx, ak).Equal(f16SumAccounts(ctx, ak)))
	stake := sdk.NewInt(20000000000)
	for i := 0; i < nStaked; i++ {
		pk := accs[i].GetPubKey()
		val := types.Validator{
			Address:       sdk.Address(pk.Address()),
			PublicKey:     pk,
			StakedTokens:  sdk.ZeroInt(),
			Status:        sdk.Staked,
			ServiceURL:    "https://www.google.com:443",
			Chains:        []string{"0001"},
			OutputAddress: sdk.Address(pk.Address()),
		}
		require.Nil(t, k.StakeValidator(ctx, val, stake, pk))
		if i < nUnstaking {
			v, found := k.GetValidator(ctx, val.Address)
			require.True(t, found)
			k.BeginUnstakingValidator(ctx, v)
		}
	}
	return ctx, k, ak, mm
}

// f16Fresh builds a brand new, empty chain state (new DB, new keepers) to import into.
func f16Fresh(t *testing.T) (sdk.Context, keeper.Keeper, auth.Keeper, *module.Manager) {
	ctx, accs, k := createTestInput(t, false)
	mm, ak := f16Manager(k)
	for _, a := range accs { // drop the helper's random funded accounts: the new chain starts empty
		ak.RemoveAccount(ctx, a)
	}
	require.True(t, f16SumAccounts(ctx, ak).IsZero())
	require.True(t, f16Supply(ctx, ak).IsZero())
	return ctx, k, ak, mm
}

// (a) nodes: DOUBLE COUNTING of the node staked pool in the total supply.
func TestF16_Nodes_ExportImport_DoubleCountsStakedPoolInSupply(t *testing.T) {
	sctx, sk, sak, smm := f16Source(t, 2, 0)
	srcSupply := f16Supply(sctx, sak)
	srcSum := f16SumAccounts(sctx, sak)
	srcPool := sk.GetStakedPool(sctx).GetCoins().AmountOf(sdk.DefaultStakeDenom)
	require.True(t, srcSupply.Equal(srcSum), "source chain is consistent: supply == sum of all balances")
	require.Equal(t, int64(40000000000), srcPool.Int64())

	exported := smm.ExportGenesis(sctx)

	dctx, dk, dak, dmm := f16Fresh(t)
	f16Import(t, dctx, dmm, exported)

	dstSupply := f16Supply(dctx, dak)
	dstSum := f16SumAccounts(dctx, dak)
	dstPool := dk.GetStakedPool(dctx).GetCoins().AmountOf(sdk.DefaultStakeDenom)
	t.Logf("F16(a) nodes: source supply=%s sum(accounts)=%s stakedPool=%s", srcSupply, srcSum, srcPool)
	t.Logf("F16(a) nodes: import supply=%s sum(accounts)=%s stakedPool=%s (supply delta=%s)", dstSupply, dstSum, dstPool, dstSupply.Sub(srcSupply))

	// balances are carried over 1:1 ...
	require.True(t, dstSum.Equal(srcSum))
	require.True(t, dstPool.Equal(srcPool))
	// ... BAD: but the total supply grew by exactly the staked pool balance, which auth already
	// exported as part of Supply and which nodes.InitGenesis Inflate()s a second time.
	require.True(t, dstSupply.Equal(srcSupply.Add(srcPool)), "supply after import = exported supply + staked pool")
	require.False(t, dstSupply.Equal(dstSum), "supply invariant (supply == sum of balances) is broken after import")
}

// (b) nodes: an export taken while a validator is UNSTAKING cannot be imported: InitGenesis os.Exit(1)s.
//
// Part 1 computes the very same two quantities nodes.InitGenesis compares, on the exported data.
// Part 2 actually runs the import in a child process and observes exit status 1.
func TestF16_Nodes_ExportWithUnstakingValidator_ImportExits(t *testing.T) {
	if os.Getenv("F16_NODES_CHILD") == "1" {
		sctx, _, _, smm := f16Source(t, 2, 1)
		exported := smm.ExportGenesis(sctx)
		dctx, _, _, dmm := f16Fresh(t)
		dctx = dctx.WithLogger(log.NewTMLogger(os.Stdout))
		fmt.Println("F16_CHILD_BEFORE_IMPORT")
		f16Import(t, dctx, dmm, exported)
		fmt.Println("F16_CHILD_AFTER_IMPORT") // never reached when the defect is present
		return
	}

	// ---- part 1: the mismatch condition, without exiting
	sctx, sk, sak, _ := f16Source(t, 2, 1)
	gs := ExportGenesis(sctx, sk)
	ags := auth.ExportGenesis(sctx, sak)
	require.Len(t, gs.Validators, 2, "export contains all validators, regardless of status")
	expected := sdk.ZeroInt() // what InitGenesis calls stakedTokens
	nUnstaking := 0
	for _, v := range gs.Validators {
		require.False(t, v.IsUnstaked())
		if v.IsStaked() {
			expected = expected.Add(v.GetTokens())
		}
		if v.IsUnstaking() {
			nUnstaking++
		}
	}
	require.Equal(t, 1, nUnstaking)
	poolInExport := sdk.ZeroInt() // what InitGenesis reads back via GetStakedPool after auth imported the accounts
	for _, a := range ags.Accounts {
		if a.GetAddress().Equals(sk.GetStakedPool(sctx).GetAddress()) {
			poolInExport = a.GetCoins().AmountOf(sdk.DefaultStakeDenom)
		}
	}
	t.Logf("F16(b) nodes: exported staked pool balance=%s, sum over IsStaked() validators=%s", poolInExport, expected)
	require.Equal(t, int64(40000000000), poolInExport.Int64()) // staked 20e9 + unstaking 20e9
	require.Equal(t, int64(20000000000), expected.Int64())     // staked only
	require.False(t, poolInExport.Equal(expected), "InitGenesis' equality check fails -> os.Exit(1)")

	// ---- part 2: run the real import in a subprocess
	cmd := exec.Command(os.Args[0], "-test.run=^TestF16_Nodes_ExportWithUnstakingValidator_ImportExits$", "-test.v")
	cmd.Env = append(os.Environ(), "F16_NODES_CHILD=1")
	out, err := cmd.CombinedOutput()
	t.Logf("child output:\n%s", out)
	ee, ok := err.(*exec.ExitError)
	require.True(t, ok, "child must die with a non-zero exit status, err=%v", err)
	require.Equal(t, 1, ee.ExitCode())
	require.True(t, strings.Contains(string(out), "F16_CHILD_BEFORE_IMPORT"))
	require.False(t, strings.Contains(string(out), "F16_CHILD_AFTER_IMPORT"))
	require.True(t, strings.Contains(string(out), "module account total does not equal the amount in each validator account"))
}

// Extra finding (pre-empts (a) and (b) on the unmodified application path): the module manager runs
// auth.ValidateGenesis before auth.InitGenesis, and that function calls account.GetPubKey().PubKey()
// on every exported account. Exported module accounts (staked pools, DAO) always have a nil public key,
// so the import of ANY export that contains a funded module account panics with a nil dereference.
func TestF16_Nodes_ManagerImportPanicsInAuthValidateGenesis(t *testing.T) {
	sctx, _, _, smm := f16Source(t, 2, 0)
	exported := smm.ExportGenesis(sctx)
	require.Contains(t, string(exported[auth.ModuleName]), `"public_key":null`)
	dctx, _, _, dmm := f16Fresh(t)
	require.Panics(t, func() { dmm.InitGenesis(dctx, exported) })
	require.Panics(t, func() { _ = auth.AppModuleBasic{}.ValidateGenesis(exported[auth.ModuleName]) })
}
