package keeper

// TRIAGE F16 - genesis export -> import round trip, x/gov part.
// This test PASSES when the suspected (bad) behaviour is present.
//
// Real path:  export: module.Manager.ExportGenesis -> auth.ExportGenesis (all funded accounts incl. the DAO
//                      module account + total supply) and gov Keeper.ExportGenesis (DAO_Tokens = DAO balance)
//             import: module.Manager.InitGenesis -> auth.InitGenesis (restores DAO account + supply), ...,
//                      gov Keeper.InitGenesis -> MintCoins(DAO, DAO_Tokens) UNCONDITIONALLY.
// (x/gov's AppModule cannot be imported from this package (import cycle), so the JSON (un)marshalling that
// x/gov/module.go does is replicated with the same codec.)

import (
	"testing"

	sdk "github.com/pokt-network/pocket-core/types"
	"github.com/pokt-network/pocket-core/x/auth"
	authKeeper "github.com/pokt-network/pocket-core/x/auth/keeper"
	"github.com/pokt-network/pocket-core/x/gov/types"
	"github.com/stretchr/testify/require"
)

func f16GovSumAccounts(ctx sdk.Ctx, ak authKeeper.Keeper) sdk.BigInt {
	sum := sdk.ZeroInt()
	ak.IterateAccounts(ctx, func(acc auth.Account) bool {
		sum = sum.Add(acc.GetCoins().AmountOf(sdk.DefaultStakeDenom))
		return false
	})
	return sum
}

func f16GovSupply(ctx sdk.Ctx, ak authKeeper.Keeper) sdk.BigInt {
	return ak.GetSupply(ctx).GetTotal().AmountOf(sdk.DefaultStakeDenom)
}

// (a) gov: the DAO balance (and with it the total supply) is DOUBLED by export -> import.
func TestF16_Gov_ExportImport_DoublesDAOTokens(t *testing.T) {
	// ---- source chain: started from a regular (non exported) genesis that grants the DAO 1000 upokt
	sctx, sk := createTestKeeperAndContext(t, false)
	sak := sk.AuthKeeper.(authKeeper.Keeper)
	require.True(t, sk.GetDAOTokens(sctx).IsZero())
	srcGenesis := types.GenesisState{Params: sk.GetParams(sctx), DAOTokens: sdk.NewInt(1000)}
	sk.InitGenesis(sctx, srcGenesis)
	srcDAO := sk.GetDAOTokens(sctx)
	srcSupply := f16GovSupply(sctx, sak)
	require.Equal(t, int64(1000), srcDAO.Int64())
	require.Equal(t, int64(1000), srcSupply.Int64())
	require.True(t, srcSupply.Equal(f16GovSumAccounts(sctx, sak)), "source chain is consistent")

	// ---- export (JSON, as the module manager does)
	authJSON := auth.NewAppModule(sak).ExportGenesis(sctx)
	govJSON := types.ModuleCdc.MustMarshalJSON(sk.ExportGenesis(sctx))
	t.Logf("exported gov genesis DAO_Tokens=%s", sk.ExportGenesis(sctx).DAOTokens)
	var authGS auth.GenesisState
	auth.ModuleCdc.MustUnmarshalJSON(authJSON, &authGS)
	require.Equal(t, int64(1000), authGS.Supply.AmountOf(sdk.DefaultStakeDenom).Int64(), "auth export already contains the DAO tokens in the supply")
	daoInAuthExport := false
	for _, a := range authGS.Accounts {
		if a.GetAddress().Equals(sk.GetDAOAccount(sctx).GetAddress()) {
			daoInAuthExport = true
			require.Equal(t, int64(1000), a.GetCoins().AmountOf(sdk.DefaultStakeDenom).Int64(), "auth export already contains the DAO account with its balance")
		}
	}
	require.True(t, daoInAuthExport)

	// ---- import into a FRESH chain (new DB, new keepers), order auth -> gov as in app/app.go
	dctx, dk := createTestKeeperAndContext(t, false)
	dak := dk.AuthKeeper.(authKeeper.Keeper)
	require.True(t, dk.GetDAOTokens(dctx).IsZero())
	require.True(t, f16GovSupply(dctx, dak).IsZero())
	// (auth.ValidateGenesis is skipped: it nil-dereferences on the exported module account's null public key)
	auth.NewAppModule(dak).InitGenesis(dctx, authJSON)
	var govGS types.GenesisState
	types.ModuleCdc.MustUnmarshalJSON(govJSON, &govGS)
	dk.InitGenesis(dctx, govGS)

	dstDAO := dk.GetDAOTokens(dctx)
	dstSupply := f16GovSupply(dctx, dak)
	t.Logf("F16(a) gov: source DAO=%s supply=%s ; after import DAO=%s supply=%s", srcDAO, srcSupply, dstDAO, dstSupply)
	// BAD: both doubled
	require.Equal(t, int64(2000), dstDAO.Int64())
	require.Equal(t, int64(2000), dstSupply.Int64())

	// and it compounds: a second export/import generation gives 4x
	authJSON2 := auth.NewAppModule(dak).ExportGenesis(dctx)
	govGS2 := dk.ExportGenesis(dctx)
	d2ctx, d2k := createTestKeeperAndContext(t, false)
	d2ak := d2k.AuthKeeper.(authKeeper.Keeper)
	auth.NewAppModule(d2ak).InitGenesis(d2ctx, authJSON2)
	d2k.InitGenesis(d2ctx, govGS2)
	t.Logf("F16(a) gov: second generation DAO=%s supply=%s", d2k.GetDAOTokens(d2ctx), f16GovSupply(d2ctx, d2ak))
	require.Equal(t, int64(4000), d2k.GetDAOTokens(d2ctx).Int64())
	require.Equal(t, int64(4000), f16GovSupply(d2ctx, d2ak).Int64())
}
