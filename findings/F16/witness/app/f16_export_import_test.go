package app

// TRIAGE F16 - end-to-end: real node -> PocketCoreApp.ExportState (what `pocket util export-genesis-for-reset`
// prints) -> fresh PocketCoreApp.InitChain with that export as genesis.
// This test PASSES when the bad behaviour is present.

import (
	"encoding/json"
	"fmt"
	"os"
	"runtime/debug"
	"strings"
	"testing"

	sdk "github.com/pokt-network/pocket-core/types"
	appsTypes "github.com/pokt-network/pocket-core/x/apps/types"
	"github.com/pokt-network/pocket-core/x/auth"
	govTypes "github.com/pokt-network/pocket-core/x/gov/types"
	nodesTypes "github.com/pokt-network/pocket-core/x/nodes/types"
	"github.com/stretchr/testify/require"
	abci "github.com/tendermint/tendermint/abci/types"
	"github.com/tendermint/tendermint/libs/log"
	tmTypes "github.com/tendermint/tendermint/types"
	dbm "github.com/tendermint/tm-db"
)

func TestF16_App_ExportState_CannotBeImported(t *testing.T) {
	_, _, cleanup := NewInMemoryTendermintNodeProto(t, oneAppTwoNodeGenesis())
	_, stopCli, evtChan := subscribeTo(t, tmTypes.EventNewBlock)
	<-evtChan // block 1 committed
	const h = int64(1)

	// ---- numbers on the running chain at height h
	ctx, err := PCA.NewContext(h)
	require.Nil(t, err)
	den := sdk.DefaultStakeDenom
	srcSupply := PCA.accountKeeper.GetSupply(ctx).GetTotal().AmountOf(den)
	srcDAO := PCA.govKeeper.GetDAOTokens(ctx)
	srcNodePool := PCA.nodesKeeper.GetStakedPool(ctx).GetCoins().AmountOf(den)
	srcAppPool := PCA.appsKeeper.GetStakedPool(ctx).GetCoins().AmountOf(den)
	srcSum := sdk.ZeroInt()
	PCA.accountKeeper.IterateAccounts(ctx, func(a auth.Account) bool { srcSum = srcSum.Add(a.GetCoins().AmountOf(den)); return false })
	t.Logf("running chain @%d: supply=%s sum(accounts)=%s DAO=%s nodeStakedPool=%s appStakedPool=%s", h, srcSupply, srcSum, srcDAO, srcNodePool, srcAppPool)
	require.True(t, srcSupply.Equal(srcSum), "running chain is consistent")

	// ---- export, exactly what the CLI / RPC export does
	j, err := PCA.ExportState(h, "f16-reset")
	require.Nil(t, err)
	// (tmTypes.GenesisDocFromJSON is not used only because this test genesis has BlockByteSize=0, which
	// tendermint's ValidateAndComplete rejects; app_state is taken verbatim.)
	var doc struct {
		ChainID  string       `json:"chain_id"`
		AppState GenesisState `json:"app_state"`
	}
	require.Nil(t, json.Unmarshal([]byte(j), &doc))
	require.Equal(t, "f16-reset", doc.ChainID)
	exported := doc.AppState

	// the export carries every quantity TWICE: once as (module) account balance + supply in auth ...
	var authGS auth.GenesisState
	Codec().MustUnmarshalJSON(exported[auth.ModuleName], &authGS)
	require.True(t, authGS.Supply.AmountOf(den).Equal(srcSupply))
	bal := map[string]sdk.BigInt{}
	for _, a := range authGS.Accounts {
		bal[a.GetAddress().String()] = a.GetCoins().AmountOf(den)
	}
	require.True(t, bal[auth.NewModuleAddress(nodesTypes.StakedPoolName).String()].Equal(srcNodePool))
	require.True(t, bal[auth.NewModuleAddress(appsTypes.StakedPoolName).String()].Equal(srcAppPool))
	require.True(t, bal[auth.NewModuleAddress(govTypes.DAOAccountName).String()].Equal(srcDAO))
	// ... and once more in the module sections that InitGenesis adds on top
	var govGS govTypes.GenesisState
	Codec().MustUnmarshalJSON(exported[govTypes.ModuleName], &govGS)
	require.True(t, govGS.DAOTokens.Equal(srcDAO))
	var posGS nodesTypes.GenesisState
	Codec().MustUnmarshalJSON(exported[nodesTypes.ModuleName], &posGS)
	valSum := sdk.ZeroInt()
	for _, v := range posGS.Validators {
		valSum = valSum.Add(v.StakedTokens)
	}
	require.True(t, valSum.Equal(srcNodePool))
	// expected supply if this export were accepted by the InitGenesis functions (see module level witnesses)
	t.Logf("export: auth.supply=%s ; InitGenesis would add nodePool=%s + appPool=%s + DAO_Tokens=%s on top => %s",
		authGS.Supply.AmountOf(den), srcNodePool, srcAppPool, govGS.DAOTokens, srcSupply.Add(srcNodePool).Add(srcAppPool).Add(srcDAO))
	// module accounts are exported with a null public key
	require.True(t, strings.Contains(string(exported[auth.ModuleName]), `"public_key":null`) ||
		strings.Contains(string(exported[auth.ModuleName]), `"public_key": null`))

	// ---- import into a brand new application (fresh DB) through the real ABCI InitChain
	GenState = exported // NewPocketCoreApp(genState != nil) -> InitChainerWithGenesis -> mm.InitGenesis(ctx, GenState)
	loggerFile, _ := os.Open(os.DevNull)
	app2 := GetApp(log.NewTMLogger(loggerFile), dbm.NewMemDB(), nil)
	var recovered interface{}
	var stack string
	func() {
		defer func() {
			if recovered = recover(); recovered != nil {
				stack = string(debug.Stack())
			}
		}()
		app2.InitChain(abci.RequestInitChain{ChainId: "f16-reset"})
	}()
	t.Logf("InitChain on the exported genesis: recovered panic = %v", recovered)
	// BAD: the untouched export cannot even be loaded: auth.ValidateGenesis dereferences the nil public key
	// of the exported module accounts (x/auth/types/genesis.go: account.GetPubKey().PubKey()).
	require.NotNil(t, recovered)
	require.Contains(t, fmt.Sprint(recovered), "nil pointer dereference")
	require.Contains(t, stack, "x/auth/types.ValidateGenesis")
	require.Contains(t, stack, "module.(*Manager).InitGenesis")

	// ---- what the real application wiring (all five modules, app/app.go order) does with the export once the
	// auth.ValidateGenesis nil dereference is stepped over: replay module.Manager.InitGenesis on a third,
	// fresh application, skipping only auth's ValidateGenesis.
	app3 := GetApp(log.NewTMLogger(loggerFile), dbm.NewMemDB(), nil)
	ctx3 := sdk.NewContext(app3.Store(), abci.Header{ChainID: "f16-reset"}, false, log.NewTMLogger(loggerFile)).WithAppVersion("0.0.0")
	for _, name := range app3.mm.OrderInitGenesis {
		if name != auth.ModuleName {
			require.Nil(t, app3.mm.Modules[name].ValidateGenesis(exported[name]), name)
		}
		app3.mm.Modules[name].InitGenesis(ctx3, exported[name])
	}
	dstSupply := app3.accountKeeper.GetSupply(ctx3).GetTotal().AmountOf(den)
	dstDAO := app3.govKeeper.GetDAOTokens(ctx3)
	dstSum := sdk.ZeroInt()
	app3.accountKeeper.IterateAccounts(ctx3, func(a auth.Account) bool { dstSum = dstSum.Add(a.GetCoins().AmountOf(den)); return false })
	t.Logf("imported chain: supply=%s sum(accounts)=%s DAO=%s nodeStakedPool=%s appStakedPool=%s", dstSupply, dstSum, dstDAO,
		app3.nodesKeeper.GetStakedPool(ctx3).GetCoins().AmountOf(den), app3.appsKeeper.GetStakedPool(ctx3).GetCoins().AmountOf(den))
	// BAD: DAO doubled; supply = exported supply + node pool + app pool + DAO
	require.True(t, dstDAO.Equal(srcDAO.MulRaw(2)))
	require.True(t, dstSupply.Equal(srcSupply.Add(srcNodePool).Add(srcAppPool).Add(srcDAO)))
	require.True(t, dstSum.Equal(srcSum.Add(srcDAO)))
	require.False(t, dstSupply.Equal(dstSum))

	cleanup()
	stopCli()
}
