package auth

// TRIAGE F06 witness.
//
// Suspected defect: in ValidateTransaction (x/auth/ante.go) the required-fee
// check
//
//	if !stdTx.GetFee().IsAllGTE(expectedFee) { return ErrInsufficientFee }
//
// lives inside the `if !ok { ... }` block that is only taken when the signing
// public key is NOT a crypto.PublicKeyMultiSig.  For a multisig public key the
// function only checks the signature depth and the signature itself and then
// returns success, so the declared fee is never compared with the required
// fee.
//
// These tests PASS when that bad behaviour is present.  They only use
// unmodified production code: a real store, a real auth keeper, the real tx
// encoder/decoder, a real 2-key multisig public key and a valid multisignature.
//
// Run with:
//
//	go test -vet=off -count=1 -run TestF06 ./x/auth

import (
	"fmt"
	"testing"

	"github.com/stretchr/testify/require"
	abci "github.com/tendermint/tendermint/abci/types"
	"github.com/tendermint/tendermint/libs/log"
	"github.com/tendermint/tendermint/state/txindex/kv"
	tmtypes "github.com/tendermint/tendermint/types"
	dbm "github.com/tendermint/tm-db"

	"github.com/pokt-network/pocket-core/codec"
	cdcTypes "github.com/pokt-network/pocket-core/codec/types"
	"github.com/pokt-network/pocket-core/crypto"
	"github.com/pokt-network/pocket-core/store"
	sdk "github.com/pokt-network/pocket-core/types"
	"github.com/pokt-network/pocket-core/x/auth/keeper"
	"github.com/pokt-network/pocket-core/x/auth/types"
	nodesTypes "github.com/pokt-network/pocket-core/x/nodes/types"
)

const f06ChainID = "f06-chain"

// stubs for the two optional keepers that ValidateTransaction consults once
// the NonCustodial / OutputAddressEdit / AppTransfer features are active.
type f06PosKeeper struct{}

func (f06PosKeeper) GetMsgStakeOutputSigner(sdk.Ctx, sdk.Msg) sdk.Address { return nil }

type f06AppKeeper struct{}

func (f06AppKeeper) IsMsgAppTransfer(sdk.Ctx, sdk.Address, sdk.Msg) bool { return false }

type f06Env struct {
	ctx     sdk.Context
	k       keeper.Keeper
	cdc     *codec.Codec
	indexer *kv.TxIndex
}

// f06Setup builds a real multistore + auth keeper (same recipe as
// x/auth/keeper/test_common.go:createTestInput) with the fee collector module
// account registered and default auth params (FeeMultiplier default = 1, so
// the required fee of a MsgSend is nodesTypes.SendFee = 10000 upokt).
func f06Setup(t *testing.T) f06Env {
	keyAcc := sdk.NewKVStoreKey(types.StoreKey)
	db := dbm.NewMemDB()
	ms := store.NewCommitMultiStore(db, false, 5000000)
	ms.MountStoreWithDB(keyAcc, sdk.StoreTypeIAVL, db)
	ms.MountStoreWithDB(sdk.ParamsKey, sdk.StoreTypeIAVL, db)
	ms.MountStoreWithDB(sdk.ParamsTKey, sdk.StoreTypeTransient, db)
	require.Nil(t, ms.LoadLatestVersion())

	ctx := sdk.NewContext(ms, abci.Header{ChainID: f06ChainID}, false, log.NewNopLogger()).WithAppVersion("0.0.0")
	ctx = ctx.WithConsensusParams(&abci.ConsensusParams{
		Validator: &abci.ValidatorParams{PubKeyTypes: []string{tmtypes.ABCIPubKeyTypeEd25519}},
	})

	cdc := codec.NewCodec(cdcTypes.NewInterfaceRegistry())
	types.RegisterCodec(cdc)
	sdk.RegisterCodec(cdc)
	nodesTypes.RegisterCodec(cdc) // MsgSend
	crypto.RegisterAmino(cdc.AminoCodec().Amino)

	maccPerms := map[string][]string{types.FeeCollectorName: nil}
	k := keeper.NewKeeper(cdc, keyAcc, sdk.NewSubspace(types.StoreKey), maccPerms)
	k.POSKeeper = f06PosKeeper{}
	k.AppKeeper = f06AppKeeper{}
	k.SetParams(ctx, types.DefaultParams())
	k.SetSupply(ctx, types.NewSupply(sdk.NewCoins()))
	// make sure the fee collector module account exists
	require.NotNil(t, k.GetModuleAccount(ctx, types.FeeCollectorName))

	return f06Env{ctx: ctx, k: k, cdc: cdc, indexer: kv.NewTxIndex(dbm.NewMemDB())}
}

func f06Fund(t *testing.T, e f06Env, pk crypto.PublicKey, amount int64) sdk.Address {
	addr := sdk.Address(pk.Address())
	acc := types.NewBaseAccountWithAddress(addr)
	acc.Coins = sdk.NewCoins(sdk.NewCoin(sdk.DefaultStakeDenom, sdk.NewInt(amount)))
	acc.PubKey = pk
	e.k.SetAccount(e.ctx, &acc)
	return addr
}

// f06MultiSigTx builds a MsgSend from the 2-of-2 multisig account, signs the
// real sign bytes (which commit to `fee`) with both member keys and assembles
// the multisignature exactly like gov.BuildAndSignMulti / gov.SignMulti do.
func f06MultiSigTx(t *testing.T, from, to sdk.Address, mpk crypto.PublicKeyMultiSignature, privs []crypto.PrivateKey, fee sdk.Coins, entropy int64) types.StdTx {
	msg := &nodesTypes.MsgSend{FromAddress: from, ToAddress: to, Amount: sdk.NewInt(1)}
	signBytes, err := types.StdSignBytes(f06ChainID, entropy, fee, msg, "")
	require.Nil(t, err)
	ms := crypto.MultiSignature{}.NewMultiSignature()
	for i, p := range privs {
		sig, err := p.Sign(signBytes)
		require.Nil(t, err)
		ms = ms.AddSignatureByIndex(sig, i)
	}
	// sanity: this really is a valid multisignature for the multisig pubkey
	require.True(t, mpk.VerifyBytes(signBytes, ms.Marshal()))
	return types.NewTx(msg, fee, types.StdSignature{PublicKey: mpk, Signature: ms.Marshal()}, "", entropy).(types.StdTx)
}

// f06RoundTrip pushes the tx through the production encoder and decoder so the
// object handed to the ante handler is what a node would build from wire bytes.
func f06RoundTrip(t *testing.T, e f06Env, tx types.StdTx) (types.StdTx, []byte) {
	txBz, err := types.DefaultTxEncoder(e.cdc)(tx, e.ctx.BlockHeight())
	require.Nil(t, err)
	decoded, sdkErr := types.DefaultTxDecoder(e.cdc)(txBz, e.ctx.BlockHeight())
	require.Nil(t, sdkErr)
	stdTx, ok := decoded.(types.StdTx)
	require.True(t, ok)
	return stdTx, txBz
}

func f06Balance(e f06Env, addr sdk.Address) sdk.BigInt {
	acc := e.k.GetAccount(e.ctx, addr)
	if acc == nil {
		return sdk.ZeroInt()
	}
	return acc.GetCoins().AmountOf(sdk.DefaultStakeDenom)
}

// f06Modes runs the body under (a) the package default upgrade globals
// (amino codec, no feature flags) and (b) codec.TestMode=-3, i.e. protobuf
// codec + NonCustodial/OutputAddressEdit/AppTransfer branches active, which is
// what the app integration tests use to emulate a current mainnet node.
func f06Modes(t *testing.T, body func(t *testing.T)) {
	for _, mode := range []int64{0, -3} {
		mode := mode
		t.Run(fmt.Sprintf("TestMode=%d", mode), func(t *testing.T) {
			old := codec.TestMode
			codec.TestMode = mode
			defer func() { codec.TestMode = old }()
			body(t)
		})
	}
}

// Control + witness on ValidateTransaction directly.
func TestF06_ValidateTransaction_MultiSigSkipsFeeCheck(t *testing.T) {
	f06Modes(t, func(t *testing.T) {
		e := f06Setup(t)
		params := e.k.GetParams(e.ctx)

		priv1 := crypto.GenerateEd25519PrivKey()
		priv2 := crypto.GenerateEd25519PrivKey()
		mpk := crypto.PublicKeyMultiSignature{PublicKeys: []crypto.PublicKey{priv1.PublicKey(), priv2.PublicKey()}}
		msAddr := f06Fund(t, e, mpk, 1000000)
		singleAddr := f06Fund(t, e, priv1.PublicKey(), 1000000)
		to := sdk.Address(crypto.GenerateEd25519PrivKey().PublicKey().Address())

		requiredFee := params.FeeMultiplier.GetFee(&nodesTypes.MsgSend{})
		require.Equal(t, sdk.NewInt(nodesTypes.SendFee), requiredFee, "required fee for MsgSend")
		require.True(t, requiredFee.IsPositive())

		// ---- control: single key, zero fee => rejected with ErrInsufficientFee
		zeroFee := sdk.NewCoins() // empty coin set, Coins.IsValid() == true
		single := types.NewTestTx(e.ctx, &nodesTypes.MsgSend{FromAddress: singleAddr, ToAddress: to, Amount: sdk.NewInt(1)}, priv1, 1, zeroFee).(types.StdTx)
		single, singleBz := f06RoundTrip(t, e, single)
		_, sdkErr := ValidateTransaction(e.ctx, e.k, single, params, e.indexer, singleBz, false)
		require.NotNil(t, sdkErr, "single-key tx with zero fee must be rejected")
		require.Equal(t, types.CodeInsufficientFee, sdkErr.Code())
		require.Equal(t, sdk.CodespaceType(ModuleName), sdkErr.Codespace())

		// ---- witness: multisig key, same msg type, fees below the minimum
		for i, fee := range []sdk.Coins{
			zeroFee, // no fee at all
			sdk.NewCoins(sdk.NewCoin(sdk.DefaultStakeDenom, sdk.NewInt(1))), // 1 upokt < 10000 upokt
		} {
			require.False(t, fee.IsAllGTE(sdk.NewCoins(sdk.NewCoin(sdk.DefaultStakeDenom, requiredFee))), "declared fee is below the required fee")
			tx := f06MultiSigTx(t, msAddr, to, mpk, []crypto.PrivateKey{priv1, priv2}, fee, int64(100+i))
			require.Nil(t, tx.ValidateBasic())
			tx, txBz := f06RoundTrip(t, e, tx)
			signer, sdkErr := ValidateTransaction(e.ctx, e.k, tx, params, e.indexer, txBz, false)
			// BAD BEHAVIOUR: accepted although fee < required fee.
			require.Nil(t, sdkErr, "multisig tx with fee %q was (unexpectedly for a correct implementation) accepted", fee.String())
			require.NotNil(t, signer)
			_, isMulti := signer.(crypto.PublicKeyMultiSig)
			require.True(t, isMulti)
			require.Equal(t, msAddr.Bytes(), signer.Address().Bytes())
		}
	})
}

// Whole ante handler: validation + DeductFees.  With an empty fee DeductFees
// moves nothing, so the multisig sender pays no fee at all.
func TestF06_AnteHandler_MultiSigZeroFeeAccepted(t *testing.T) {
	f06Modes(t, func(t *testing.T) {
		e := f06Setup(t)
		ante := NewAnteHandler(e.k)

		priv1 := crypto.GenerateEd25519PrivKey()
		priv2 := crypto.GenerateEd25519PrivKey()
		mpk := crypto.PublicKeyMultiSignature{PublicKeys: []crypto.PublicKey{priv1.PublicKey(), priv2.PublicKey()}}
		msAddr := f06Fund(t, e, mpk, 1000000)
		singleAddr := f06Fund(t, e, priv1.PublicKey(), 1000000)
		to := sdk.Address(crypto.GenerateEd25519PrivKey().PublicKey().Address())
		feeCollector := e.k.GetModuleAddress(types.FeeCollectorName)
		zeroFee := sdk.NewCoins()

		// control 1: single key, zero fee => ante aborts with ErrInsufficientFee
		single := types.NewTestTx(e.ctx, &nodesTypes.MsgSend{FromAddress: singleAddr, ToAddress: to, Amount: sdk.NewInt(1)}, priv1, 1, zeroFee).(types.StdTx)
		single, singleBz := f06RoundTrip(t, e, single)
		_, res, _, abort := ante(e.ctx, single, singleBz, e.indexer, false)
		require.True(t, abort)
		require.Equal(t, types.CodeInsufficientFee, res.Code)

		// control 2: multisig paying the proper fee => accepted and the fee
		// really is moved to the fee collector (shows the harness is live).
		properFee := sdk.NewCoins(sdk.NewCoin(sdk.DefaultStakeDenom, sdk.NewInt(nodesTypes.SendFee)))
		paid := f06MultiSigTx(t, msAddr, to, mpk, []crypto.PrivateKey{priv1, priv2}, properFee, 2)
		paid, paidBz := f06RoundTrip(t, e, paid)
		_, res, _, abort = ante(e.ctx, paid, paidBz, e.indexer, false)
		require.False(t, abort, res.Log)
		require.Equal(t, sdk.NewInt(1000000-nodesTypes.SendFee), f06Balance(e, msAddr))
		require.Equal(t, sdk.NewInt(nodesTypes.SendFee), f06Balance(e, feeCollector))

		// witness: multisig, NO fee => ante handler does not abort, nothing is
		// deducted, nothing reaches the fee collector.
		free := f06MultiSigTx(t, msAddr, to, mpk, []crypto.PrivateKey{priv1, priv2}, zeroFee, 3)
		free, freeBz := f06RoundTrip(t, e, free)
		_, res, signer, abort := ante(e.ctx, free, freeBz, e.indexer, false)
		// BAD BEHAVIOUR asserted below.
		require.False(t, abort, "ante handler accepted a zero-fee multisig tx: %s", res.Log)
		require.True(t, res.IsOK())
		require.Equal(t, msAddr.Bytes(), signer.Address().Bytes())
		require.Equal(t, sdk.NewInt(1000000-nodesTypes.SendFee), f06Balance(e, msAddr), "no fee was deducted for the zero-fee tx")
		require.Equal(t, sdk.NewInt(nodesTypes.SendFee), f06Balance(e, feeCollector), "fee collector received nothing for the zero-fee tx")
	})
}
