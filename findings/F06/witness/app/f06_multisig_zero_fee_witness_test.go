package app

// TRIAGE F06 witness (end-to-end).
//
// Same scenario as the existing TestBuildSignMultisig, but the multisig
// transaction declares a fee of 0 upokt (an empty coin set) instead of
// 10000000.  A real in-memory tendermint node + the unmodified PocketCoreApp
// run CheckTx and DeliverTx on it.
//
// The test PASSES when the bad behaviour is present, i.e. when
//   - a single-key tx with zero fee is rejected in CheckTx (control), but
//   - the zero-fee multisig tx passes CheckTx, is included in a block with
//     code 0, the MsgSend is executed, and the multisig account pays no fee.
//
// Run with:
//
//	go test -vet=off -count=1 -run TestF06_App_MultiSigZeroFeeExecuted ./app

import (
	"testing"

	"github.com/pokt-network/pocket-core/codec"
	"github.com/pokt-network/pocket-core/crypto"
	sdk "github.com/pokt-network/pocket-core/types"
	"github.com/pokt-network/pocket-core/x/auth"
	"github.com/pokt-network/pocket-core/x/gov"
	"github.com/pokt-network/pocket-core/x/nodes"
	"github.com/pokt-network/pocket-core/x/nodes/types"
	"github.com/stretchr/testify/assert"
	"github.com/stretchr/testify/require"
	tmTypes "github.com/tendermint/tendermint/types"
)

func TestF06_App_MultiSigZeroFeeExecuted(t *testing.T) {
	codec.UpgradeHeight = 7000
	_, kb, cleanup := NewInMemoryTendermintNodeAmino(t, oneAppTwoNodeGenesis())
	cb, err := kb.GetCoinbase()
	require.Nil(t, err)
	kp2, err := kb.Create("test")
	require.Nil(t, err)
	kp3, err := kb.Create("test")
	require.Nil(t, err)
	kps := []crypto.PublicKey{cb.PublicKey, kp2.PublicKey, kp3.PublicKey}
	pms := crypto.PublicKeyMultiSignature{PublicKeys: kps}
	msAddr := sdk.Address(pms.Address())
	msg := types.MsgSend{
		FromAddress: msAddr,
		ToAddress:   kp2.GetAddress(),
		Amount:      sdk.NewInt(1),
	}

	// required fee for a MsgSend is 10000 upokt (x/nodes/types.SendFee, default multiplier 1)
	require.Equal(t, int64(10000), int64(types.SendFee))

	// ---- build the multisig tx with fee = 0 and collect all three signatures
	const declaredFee = int64(0)
	bz, err := gov.BuildAndSignMulti(memCodec(), cb.GetAddress(), pms, &msg, getInMemoryTMClient(), kb, "test", declaredFee, true)
	require.Nil(t, err)
	bz, err = gov.SignMulti(memCodec(), kp2.GetAddress(), bz, kps, getInMemoryTMClient(), kb, "test", true)
	require.Nil(t, err)
	bz, err = gov.SignMulti(memCodec(), kp3.GetAddress(), bz, nil, getInMemoryTMClient(), kb, "test", true)
	require.Nil(t, err)
	// the tx on the wire really declares no fee
	decoded, sdkErr := auth.DefaultTxDecoder(memCodec())(bz, 0)
	require.Nil(t, sdkErr)
	require.True(t, decoded.(auth.StdTx).GetFee().IsZero(), "declared fee: %s", decoded.(auth.StdTx).GetFee())

	_, _, evtChan := subscribeTo(t, tmTypes.EventNewBlock)
	<-evtChan // Wait for block
	memCli, stopCli, evtChan := subscribeTo(t, tmTypes.EventTx)

	// ---- fund the multisig account (ordinary single-key tx paying the normal fee)
	const funding = int64(100000000)
	tx, err := nodes.Send(memCodec(), memCli, kb, cb.GetAddress(), msAddr, "test", sdk.NewInt(funding), true)
	require.Nil(t, err)
	require.NotNil(t, tx)
	require.Zero(t, tx.Code)
	<-evtChan // Wait for tx
	before, err := PCA.QueryBalance(msAddr.String(), PCA.LastBlockHeight())
	require.Nil(t, err)
	require.Equal(t, funding, before.Int64())
	kp2Before, err := PCA.QueryBalance(kp2.GetAddress().String(), PCA.LastBlockHeight())
	require.Nil(t, err)

	// ---- control: single-key tx with zero fee is rejected by CheckTx
	genDoc, err := memCli.Genesis()
	require.Nil(t, err)
	cbPriv, err := kb.ExportPrivateKeyObject(cb.GetAddress(), "test")
	require.Nil(t, err)
	ctrlMsg := types.MsgSend{FromAddress: cb.GetAddress(), ToAddress: kp2.GetAddress(), Amount: sdk.NewInt(1)}
	ctrlBz, err := auth.NewTxBuilder(auth.DefaultTxEncoder(memCodec()), auth.DefaultTxDecoder(memCodec()),
		genDoc.Genesis.ChainID, "", sdk.NewCoins()).BuildAndSign(cb.GetAddress(), cbPriv, &ctrlMsg, true)
	require.Nil(t, err)
	ctrlRes, err := nodes.RawTx(memCodec(), memCli, cb.GetAddress(), ctrlBz)
	require.Nil(t, err)
	t.Logf("control  (single key, fee 0) CheckTx: code=%d codespace=%s log=%q", ctrlRes.Code, ctrlRes.Codespace, ctrlRes.RawLog)
	require.Equal(t, uint32(4), ctrlRes.Code, "single-key zero-fee tx must be rejected with auth.CodeInsufficientFee")

	// ---- witness: zero-fee multisig tx passes CheckTx ...
	txRaw, err := nodes.RawTx(memCodec(), memCli, msAddr, bz)
	require.Nil(t, err)
	t.Logf("witness  (multisig,   fee 0) CheckTx: code=%d log=%q hash=%s", txRaw.Code, txRaw.RawLog, txRaw.TxHash)
	// BAD BEHAVIOUR: accepted into the mempool with fee 0 < 10000
	assert.Zero(t, txRaw.Code)

	// ... and is delivered + executed in a block
	<-evtChan // Wait for tx
	got, err := PCA.QueryTx(txRaw.TxHash, false)
	require.Nil(t, err)
	require.NotNil(t, got)
	t.Logf("witness  DeliverTx: height=%d code=%d log=%q", got.Height, got.TxResult.Code, got.TxResult.Log)
	// BAD BEHAVIOUR: DeliverTx code 0
	require.Zero(t, got.TxResult.Code)

	after, err := PCA.QueryBalance(msAddr.String(), PCA.LastBlockHeight())
	require.Nil(t, err)
	kp2After, err := PCA.QueryBalance(kp2.GetAddress().String(), PCA.LastBlockHeight())
	require.Nil(t, err)
	t.Logf("multisig balance before=%s after=%s ; recipient before=%s after=%s", before, after, kp2Before, kp2After)
	// BAD BEHAVIOUR: only the 1 upokt transfer left the account, no fee at all
	require.Equal(t, funding-1, after.Int64())
	require.Equal(t, kp2Before.Int64()+1, kp2After.Int64())

	cleanup()
	stopCli()
}
