package keeper

// TRIAGE F11(a) - BurnForChallenge (x/nodes/keeper/slash.go) computes
//
//	flooredStake := MinInt(stake - stake%floor, CEILING - stake%floor)
//
// whereas the reward path (x/nodes/keeper/reward.go calculateRewardRewardPip22)
// computes
//
//	flooredStake := MinInt(stake - stake%floor, CEILING - CEILING%floor)
//
// With stake = q*floor + r (0 <= r < floor) and CEILING = c*floor the burn bin is
//
//	min(q, c)     when r == 0
//	min(q, c-1)   when r  > 0          <-- one bin too low as soon as q >= c
//
// so, for a fixed number of challenges, the burn DROPS when the stake grows
// from c*floor to c*floor+1, jumps back up at every exact multiple of the
// floor, and never settles. With the DEFAULT parameters (floor == ceiling ==
// 15000 POKT, c == 1) the bin of every stake above 15000 POKT that is not an
// exact multiple of 15000 POKT is 0 => weight 0 => coins 0 => simpleSlash
// rejects the non-positive amount => such a servicer is not burned AT ALL for
// challenges / replay attacks.
//
// The tests below drive the REAL keeper: real params store, real validator
// store, real BurnForChallenge -> simpleSlash -> burnStakedTokens, and the
// real calculateRewardRewardPip22 for comparison. They PASS when the
// suspected behaviour is present.

import (
	"testing"

	"github.com/pokt-network/pocket-core/codec"
	sdk "github.com/pokt-network/pocket-core/types"
	"github.com/pokt-network/pocket-core/x/nodes/types"
	"github.com/stretchr/testify/require"
)

type f11Row struct {
	stake  int64
	burn   sdk.BigInt // staked tokens actually removed from the validator by BurnForChallenge
	reward sdk.BigInt // calculateRewardRewardPip22 for the same stake, same count, same multiplier
}

// f11Run activates RSCAL (PIP-22), installs the given ceiling on top of the
// default params and, for every stake, (1) stores a fresh staked validator with
// that stake and calls the real BurnForChallenge with `count` challenges,
// measuring how many staked tokens the validator lost, and (2) calls the real
// reward computation with `count` relays.
func f11Run(t *testing.T, ceiling int64, count int64, stakes []int64) (rows []f11Row, base sdk.BigInt) {
	originalRSCAL, had := codec.UpgradeFeatureMap[codec.RSCALKey]
	codec.UpgradeFeatureMap[codec.RSCALKey] = 3
	t.Cleanup(func() {
		if had {
			codec.UpgradeFeatureMap[codec.RSCALKey] = originalRSCAL
		} else {
			delete(codec.UpgradeFeatureMap, codec.RSCALKey)
		}
	})

	ctx, _, k := createTestInput(t, true)
	ctx = ctx.WithBlockHeight(3)
	require.True(t, k.Cdc.IsAfterNamedFeatureActivationHeight(ctx.BlockHeight(), codec.RSCALKey))

	p := k.GetParams(ctx)
	p.ServicerStakeFloorMultiplier = types.DefaultServicerStakeFloorMultiplier                 // 15000000000
	p.ServicerStakeWeightMultiplier = types.DefaultServicerStakeWeightMultiplier               // 1
	p.ServicerStakeFloorMultiplierExponent = types.DefaultServicerStakeFloorMultiplierExponent // 1
	p.ServicerStakeWeightCeiling = ceiling
	k.SetParams(ctx, p)
	require.Equal(t, types.DefaultRelaysToTokensMultiplier, k.RelaysToTokensMultiplier(ctx).Int64())

	// give the staked pool something to burn from
	addMintedCoinsToModule(t, ctx, &k, types.StakedPoolName)

	base = k.RelaysToTokensMultiplier(ctx).Mul(sdk.NewInt(count)) // burn/reward of exactly one bin

	for _, s := range stakes {
		v := getStakedValidator()
		v.StakedTokens = sdk.NewInt(s)
		k.SetValidator(ctx, v)

		k.BurnForChallenge(ctx, sdk.NewInt(count), v.Address) // REAL burn path

		after, found := k.GetValidator(ctx, v.Address)
		require.True(t, found)
		burn := sdk.NewInt(s).Sub(after.GetTokens())

		reward := k.calculateRewardRewardPip22(ctx, sdk.NewInt(count), sdk.NewInt(s), k.RelaysToTokensMultiplier(ctx)) // REAL reward path

		rows = append(rows, f11Row{s, burn, reward})
	}
	return rows, base
}

func f11Log(t *testing.T, title string, rows []f11Row, base sdk.BigInt, floor int64) {
	t.Logf("%s (one bin = %s uPOKT)", title, base)
	t.Logf("  %14s  %2s %12s  %10s %8s  %10s %10s", "stake(uPOKT)", "=q", "*floor + r", "BURN", "burn-bin", "REWARD", "reward-bin")
	for _, r := range rows {
		t.Logf("  %14d  %2d %12d  %10s %8s  %10s %10s", r.stake, r.stake/floor, r.stake%floor,
			r.burn, r.burn.Quo(base), r.reward, r.reward.Quo(base))
	}
}

func f11Stakes(floor int64, upToBins int64) (stakes []int64) {
	for q := int64(1); q <= upToBins; q++ {
		stakes = append(stakes, q*floor-1, q*floor, q*floor+1, q*floor+floor/3, q*floor+floor/2)
	}
	return
}

// Ceiling = 4 bins (60000 POKT), the value used by the repo's own PIP-22
// reward tests and by mainnet; everything else is the default.
func TestTriageF11_BurnForChallengeDropsAboveCeiling(t *testing.T) {
	const floor = types.DefaultServicerStakeFloorMultiplier // 15000000000
	const ceiling = int64(60000000000)
	const challenges = int64(1000)

	stakes := f11Stakes(floor, 7) // 14999999999 .. 112500000000
	rows, base := f11Run(t, ceiling, challenges, stakes)
	f11Log(t, "floor=15000000000 ceiling=60000000000 exponent=1 weightMultiplier=1 RTTM=1000 challenges=relays=1000", rows, base, floor)

	byStake := map[int64]f11Row{}
	for _, r := range rows {
		byStake[r.stake] = r
	}
	x := func(n int64) sdk.BigInt { return base.Mul(sdk.NewInt(n)) }

	// --- reward path: monotone non-decreasing, and flat (4 bins) at/above the ceiling
	for i, r := range rows {
		if i > 0 {
			require.True(t, r.reward.GTE(rows[i-1].reward), "reward must be monotone (stake %d)", r.stake)
		}
		if r.stake >= ceiling {
			require.True(t, r.reward.Equal(x(4)), "reward must be flat at 4 bins above the ceiling (stake %d: %s)", r.stake, r.reward)
		}
	}

	// --- burn path: identical to the reward below the ceiling ...
	for _, r := range rows {
		if r.stake < ceiling {
			require.True(t, r.burn.Equal(r.reward), "below the ceiling burn == reward (stake %d)", r.stake)
		}
	}
	// ... but (BAD) at the ceiling it starts to oscillate between 4 and 3 bins:
	require.True(t, byStake[60000000000].burn.Equal(x(4)), "stake == ceiling: 4 bins")
	require.True(t, byStake[60000000001].burn.Equal(x(3)), "BAD: one more uPOKT of stake => burn falls to 3 bins")
	require.True(t, byStake[67500000000].burn.Equal(x(3)), "BAD: 3 bins")
	require.True(t, byStake[74999999999].burn.Equal(x(3)), "BAD: 3 bins")
	require.True(t, byStake[75000000000].burn.Equal(x(4)), "exact multiple of the floor: back to 4 bins")
	require.True(t, byStake[75000000001].burn.Equal(x(3)), "BAD: 3 bins again")
	require.True(t, byStake[90000000000].burn.Equal(x(4)), "exact multiple of the floor: 4 bins")
	require.True(t, byStake[90000000001].burn.Equal(x(3)), "BAD: 3 bins again")
	require.True(t, byStake[105000000000].burn.Equal(x(4)))
	require.True(t, byStake[112500000000].burn.Equal(x(3)))

	// burn is NOT monotone in the stake: count the places where more stake => strictly less burn
	drops := 0
	for i := 1; i < len(rows); i++ {
		if rows[i].burn.LT(rows[i-1].burn) {
			drops++
			t.Logf("  DROP: stake %d -> %d : burn %s -> %s (reward %s -> %s)", rows[i-1].stake, rows[i].stake,
				rows[i-1].burn, rows[i].burn, rows[i-1].reward, rows[i].reward)
		}
	}
	require.Equal(t, 4, drops, "burn decreases at 60e9+1, 75e9+1, 90e9+1 and 105e9+1")
}

// All four PIP-22 parameters at their DEFAULT values (floor == ceiling ==
// 15000000000): every stake above the floor that is not an exact multiple of
// the floor lands in bin 0, the burn amount is 0 and simpleSlash refuses it,
// i.e. the servicer is never burned for challenges while it still earns the
// full 1-bin reward.
func TestTriageF11_BurnForChallengeDefaultParamsBurnsNothing(t *testing.T) {
	const floor = types.DefaultServicerStakeFloorMultiplier // 15000000000
	const ceiling = types.DefaultServicerStakeWeightCeiling // 15000000000
	const challenges = int64(1000)

	stakes := f11Stakes(floor, 3)
	rows, base := f11Run(t, ceiling, challenges, stakes)
	f11Log(t, "ALL DEFAULTS: floor=15000000000 ceiling=15000000000 exponent=1 weightMultiplier=1 RTTM=1000 challenges=relays=1000", rows, base, floor)

	for _, r := range rows {
		switch {
		case r.stake < floor:
			// below the floor both paths give bin 0 (consistent with each other)
			require.True(t, r.burn.IsZero() && r.reward.IsZero(), "stake %d", r.stake)
		case r.stake%floor == 0:
			require.True(t, r.burn.Equal(base), "exact multiple of the floor is burned 1 bin (stake %d: %s)", r.stake, r.burn)
			require.True(t, r.reward.Equal(base))
		default:
			// BAD: rewarded for 1 bin, burned for 0 bins => not burned at all
			require.True(t, r.reward.Equal(base), "reward is 1 bin (stake %d: %s)", r.stake, r.reward)
			require.True(t, r.burn.IsZero(), "BAD: validator with stake %d loses nothing (burn %s)", r.stake, r.burn)
		}
	}
}
