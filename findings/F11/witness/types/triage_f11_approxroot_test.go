package types

// TRIAGE F11(b) - (BigDec).ApproxRoot has no iteration bound.
//
// mirrorApproxRoot below is a step-by-step COPY of the Newton loop in
// types/decimal.go (BigDec).ApproxRoot that uses the real BigDec methods
// (Power, Quo, Sub, QuoInt, Add, Abs, GT, SmallestDec) and only ADDS
//   - an iteration counter, and
//   - cycle detection (the loop state is fully determined by `guess`, so as
//     soon as a guess value repeats while the loop condition still holds, the
//     real loop can never terminate).
// For every input on which the mirror terminates we also call the REAL
// ApproxRoot and require the identical result, which proves the mirror is
// faithful. For inputs on which the mirror finds a cycle we call the REAL
// ApproxRoot in a goroutine and require that it does NOT return within the
// timeout.

import (
	"errors"
	"fmt"
	"strings"
	"testing"
	"time"
)

type f11RootResult struct {
	guess      BigDec
	err        error
	iterations int
	cycle      bool     // true: the loop state repeated => real loop never ends
	cycleVals  []BigDec // the guesses that make up the cycle
	capped     bool     // iteration cap hit without a detected cycle
}

const f11IterCap = 20000

func mirrorApproxRoot(d BigDec, root uint64) (res f11RootResult) {
	defer func() {
		if r := recover(); r != nil {
			var ok bool
			res.err, ok = r.(error)
			if !ok {
				res.err = errors.New("out of bounds")
			}
		}
	}()

	if d.IsNegative() {
		panic("not used in this triage")
	}
	if root == 1 || d.IsZero() || d.Equal(OneDec()) {
		res.guess = d
		return
	}
	if root == 0 {
		res.guess = OneDec()
		return
	}

	rootInt := NewIntFromUint64(root)
	guess, delta := OneDec(), OneDec()
	seen := map[string]int{}
	var history []BigDec

	for delta.Abs().GT(SmallestDec()) {
		// ---- added: bookkeeping only -------------------------------------
		key := guess.String()
		if at, ok := seen[key]; ok && res.iterations > 0 {
			res.cycle = true
			res.cycleVals = append([]BigDec{}, history[at:]...)
			res.guess = guess
			return
		}
		seen[key] = len(history)
		history = append(history, guess)
		if res.iterations >= f11IterCap {
			res.capped = true
			res.guess = guess
			return
		}
		res.iterations++
		// ---- verbatim copy of the real loop body --------------------------
		prev := guess.Power(root - 1)
		if prev.IsZero() {
			prev = SmallestDec()
		}
		delta = d.Quo(prev)
		delta = delta.Sub(guess)
		delta = delta.QuoInt(rootInt)

		guess = guess.Add(delta)
	}
	res.guess = guess
	return
}

// realApproxRootWithTimeout runs the REAL ApproxRoot in a goroutine.
func realApproxRootWithTimeout(d BigDec, root uint64, timeout time.Duration) (g BigDec, err error, returned bool) {
	type out struct {
		g   BigDec
		err error
	}
	ch := make(chan out, 1)
	go func() {
		g, err := d.ApproxRoot(root)
		ch <- out{g, err}
	}()
	select {
	case o := <-ch:
		return o.g, o.err, true
	case <-time.After(timeout):
		return BigDec{}, nil, false
	}
}

type f11Input struct {
	d    BigDec
	name string
}

type f11Finding struct {
	in   f11Input
	root uint64
	res  f11RootResult
}

type f11Stats struct {
	cycles    []f11Finding
	caps      []f11Finding
	errCount  int
	firstErr  string
	maxIter   int
	maxIterAt string
}

// f11Sweep runs the mirror on every input; whenever the mirror terminates it
// also runs the REAL ApproxRoot and requires an identical result/err.
func f11Sweep(t *testing.T, inputs []f11Input, root uint64) (st f11Stats) {
	for _, in := range inputs {
		res := mirrorApproxRoot(in.d, root)
		switch {
		case res.cycle:
			st.cycles = append(st.cycles, f11Finding{in, root, res})
		case res.capped:
			st.caps = append(st.caps, f11Finding{in, root, res})
		default:
			g, err := in.d.ApproxRoot(root) // REAL function
			if (err == nil) != (res.err == nil) {
				t.Fatalf("mirror unfaithful for d=%s root=%d: real err=%v mirror err=%v", in.name, root, err, res.err)
			}
			if err == nil && !g.Equal(res.guess) {
				t.Fatalf("mirror unfaithful for d=%s root=%d: real=%s mirror=%s", in.name, root, g, res.guess)
			}
			if err != nil {
				st.errCount++
				if st.firstErr == "" {
					st.firstErr = fmt.Sprintf("d=%s after %d iterations: %v", in.name, res.iterations, err)
				}
			}
			if res.iterations > st.maxIter {
				st.maxIter = res.iterations
				st.maxIterAt = in.name
			}
		}
	}
	return
}

func f11DescribeCycle(f f11Finding) string {
	vals := f.res.cycleVals
	min, max := vals[0], vals[0]
	for _, v := range vals {
		if v.LT(min) {
			min = v
		}
		if v.GT(max) {
			max = v
		}
	}
	var show []string
	for i, v := range vals {
		if i >= 4 {
			show = append(show, "...")
			break
		}
		show = append(show, v.String())
	}
	return fmt.Sprintf("d=%s root=%d: enters the cycle after %d iterations; cycle length %d; min=%s max=%s (spread %s); values: %s -> (back to first)",
		f.in.name, f.root, f.res.iterations-len(vals), len(vals), min, max, max.Sub(min), strings.Join(show, " -> "))
}

var f11Roots = []uint64{2, 3, 10, 100}

// TestTriageF11_ApproxRootIntegerRange: the domain that the PIP-22 code can
// actually feed into ApproxRoot (bin numbers: integers >= 1).
//
// RESULT (asserted): for every integer d in 1..5000 and root in {2,3,10,100}
// the real ApproxRoot TERMINATES (no cycle) -> the suspected hang is REFUTED
// for this range. It also documents a neighbouring problem: for root=100 and
// d >= 499 the first Newton step overshoots so far that guess^99 overflows
// BigDec, the panic is recovered into err, and FracPow swallows err and
// returns 1, i.e. the PIP-22 weight silently collapses from ~bin^exp to 1.
func TestTriageF11_ApproxRootIntegerRange(t *testing.T) {
	var inputs []f11Input
	for i := int64(1); i <= 5000; i++ {
		inputs = append(inputs, f11Input{NewDec(i), fmt.Sprintf("%d", i)})
	}
	totalCycles := 0
	for _, root := range f11Roots {
		st := f11Sweep(t, inputs, root)
		t.Logf("root=%-3d d=1..5000: non-terminating=%d, cap-hit=%d, max iterations=%d (at d=%s), recovered-overflow errors=%d (first: %s)",
			root, len(st.cycles), len(st.caps), st.maxIter, st.maxIterAt, st.errCount, st.firstErr)
		totalCycles += len(st.cycles) + len(st.caps)
	}
	// the real default case: bins 1..4 (ceiling 60e9 / floor 15e9 on mainnet), root 100
	for i := int64(1); i <= 4; i++ {
		res := mirrorApproxRoot(NewDec(i), 100)
		g, err := NewDec(i).ApproxRoot(100)
		t.Logf("default case: real ApproxRoot(d=%d, root=100) = %s err=%v; Newton iterations=%d", i, g, err, res.iterations)
	}
	if totalCycles != 0 {
		t.Fatalf("unexpected: %d integer inputs do not terminate", totalCycles)
	}

	// neighbouring finding: FracPow(d, 1, 100) should be ~d, but collapses to 1 from d=499 on
	one := OneDec()
	for _, d := range []int64{4, 100, 498, 499, 500, 5000} {
		_, err := NewDec(d).ApproxRoot(100)
		t.Logf("real FracPow(d=%d, power=1, denominator=100) = %s   (ApproxRoot err=%v)", d, NewDec(d).FracPow(one, 100), err)
	}
	if got := NewDec(498).FracPow(one, 100); got.LT(NewDec(497)) || got.GT(NewDec(499)) {
		t.Fatalf("FracPow(498,1,100)=%s, expected ~498", got)
	}
	if got := NewDec(499).FracPow(one, 100); !got.Equal(one) {
		t.Fatalf("FracPow(499,1,100)=%s, expected the silent collapse to 1", got)
	}
}

// TestTriageF11_ApproxRootHangsBelowOne PASSES when the suspected behaviour is
// present: there are inputs for which the REAL ApproxRoot never returns because
// the fixed-precision Newton iteration enters a cycle whose steps are all
// larger than one ulp, and the loop `for delta.Abs().GT(SmallestDec())` has no
// iteration bound. All such inputs found are NON-integers in (0,1) with root
// 10 or 100; the PIP-22 callers only pass integer bins, so they cannot reach
// them.
func TestTriageF11_ApproxRootHangsBelowOne(t *testing.T) {
	var inputs []f11Input
	for _, s := range []string{
		"0.000000000000000001", "0.000000000000000002", "0.000000000000000010",
		"0.000000001", "0.000001", "0.001", "0.01", "0.1", "0.25", "0.5", "0.75", "0.9",
		"0.999999999999999999", "1.000000000000000001", "1.000000000000000002",
		"1.1", "1.5", "1.999999999999999999", "2.000000000000000001", "2.25", "2.5",
		"3.3", "3.5", "3.999999999999999999", "4.000000000000000001",
		"7.389056098930650227", "10.5", "99.99", "1234.5678", "4999.5",
	} {
		d, err := NewDecFromStr(s)
		if err != nil {
			t.Fatal(err)
		}
		inputs = append(inputs, f11Input{d, s})
	}
	// plus a regular grid 0.001 .. 4.000 in steps of 0.001
	var grid []f11Input
	for k := int64(1); k <= 4000; k++ {
		d := NewDecWithPrec(k, 3)
		grid = append(grid, f11Input{d, d.String()})
	}

	var all []f11Finding
	for _, root := range f11Roots {
		st := f11Sweep(t, inputs, root)
		t.Logf("root=%-3d hand-picked non-integers: non-terminating=%d of %d, cap-hit=%d, max iterations of the terminating ones=%d (at d=%s)",
			root, len(st.cycles), len(inputs), len(st.caps), st.maxIter, st.maxIterAt)
		for _, f := range st.cycles {
			t.Logf("   CYCLE %s", f11DescribeCycle(f))
		}
		all = append(all, st.cycles...)

		sg := f11Sweep(t, grid, root)
		var names []string
		largest := ""
		for _, f := range sg.cycles {
			if len(names) < 12 {
				names = append(names, f.in.name)
			}
			largest = f.in.name
		}
		t.Logf("root=%-3d grid d=0.001..4.000 step 0.001: non-terminating=%d of %d (largest such d=%s; first ones: %s)",
			root, len(sg.cycles), len(grid), largest, strings.Join(names, ", "))
	}

	// confirm on the REAL function, under a timeout
	confirmed := 0
	for _, c := range []struct {
		d    string
		root uint64
	}{{"0.001", 10}, {"0.001", 100}, {"0.000000001", 100}} {
		d, _ := NewDecFromStr(c.d)
		m := mirrorApproxRoot(d, c.root)
		_, _, returned := realApproxRootWithTimeout(d, c.root, 2*time.Second)
		t.Logf("REAL ApproxRoot(d=%s, root=%d): returned within 2s = %v (mirror: cycle=%v)", c.d, c.root, returned, m.cycle)
		if !returned && m.cycle {
			confirmed++
		}
	}
	if len(all) == 0 || confirmed != 3 {
		t.Fatalf("suspected behaviour NOT present: cycles=%d confirmedHangs=%d", len(all), confirmed)
	}
}
